(* Lemmas about the untyped builder model (Model/Build.v), for C06.
   Main results:
   - [fragment_builds]: every document of the fragment [supported6] is built
     without a panic, and the data of the value built ([to_dv], which is what
     marshaling it again produces, [iterate_denotes]) are the data of the
     document with references replaced by their targets and markers dropped;
   - refutations of the full property on the constructs outside the fragment. *)
From CE Require Import Model.Build Proofs.ArraysProofs.
From Coq Require Import ZifyN ZifyNat ZifyBool.
Open Scope N_scope.

#[local] Arguments N.pow : simpl never.
#[local] Arguments N.div : simpl never.
#[local] Arguments N.modulo : simpl never.
#[local] Arguments N.mul : simpl never.

(* ------------------------------------------------------------------ *)
(* Running a list of events                                             *)
(* ------------------------------------------------------------------ *)

Section Exec.
  Variable uc : bytes -> option bytes.
  Variable tc : bytes -> option (bytes * bytes).

  Fixpoint exec (st : mstate) (es : list event) : res :=
    match es with
    | [] => ROk st
    | e :: r => rbind (step uc tc st e) (fun s => exec s r)
    end.

  Lemma run_exec es : forall st i, fst (run uc tc st es i) = exec st es.
  Proof.
    induction es as [|e r IH]; intros st i; cbn [run exec].
    - reflexivity.
    - destruct (step uc tc st e) as [s|s]; cbn [rbind].
      + apply IH.
      + reflexivity.
  Qed.

  Lemma exec_app a b : forall st, exec st (a ++ b) = rbind (exec st a) (fun s => exec s b).
  Proof.
    induction a as [|e r IH]; intro st; cbn [app exec].
    - reflexivity.
    - destruct (step uc tc st e) as [s|s]; cbn [rbind].
      + apply IH.
      + reflexivity.
  Qed.

  Lemma exec_app_ok a b st s : exec st a = ROk s -> exec st (a ++ b) = exec s b.
  Proof. intro H. rewrite exec_app, H. reflexivity. Qed.

  Lemma exec_cons e r st : exec st (e :: r) = rbind (step uc tc st e) (fun s => exec s r).
  Proof. reflexivity. Qed.

  (* padding and comments do not reach any builder *)
  Lemma exec_strip es : forall st, exec st es = exec st (strip es).
  Proof.
    induction es as [|e r IH]; intro st.
    - reflexivity.
    - unfold strip. cbn [filter]. fold (strip r).
      destruct e; cbn [is_trivia negb exec]; try (destruct (step uc tc st _); cbn [rbind]; [apply IH|reflexivity]).
      + cbn [step rbind]. apply IH.
      + cbn [step rbind]. apply IH.
  Qed.
End Exec.

(* ------------------------------------------------------------------ *)
(* Induction on document trees                                          *)
(* ------------------------------------------------------------------ *)

Section DtInd.
  Variable P : dt -> Prop.
  Hypothesis Hleaf : forall e, P (TLeaf e).
  Hypothesis Hchunk : forall b body, P (TChunked b body).
  Hypothesis Hlist : forall l, Forall P l -> P (TList l).
  Hypothesis Hmap : forall kvs, Forall (fun kv => P (fst kv) /\ P (snd kv)) kvs -> P (TMap kvs).
  Hypothesis Hnode : forall v ch, P v -> Forall P ch -> P (TNode v ch).
  Hypothesis Hedge : forall a b c, P a -> P b -> P c -> P (TEdge a b c).
  Hypothesis Hrec : forall n vals, Forall P vals -> P (TRecord n vals).
  Hypothesis Hmark : forall id t, P t -> P (TMark id t).
  Hypothesis Href : forall id, P (TRef id).

  Fixpoint dt_ind2 (t : dt) : P t :=
    let all := fix all (l : list dt) : Forall P l :=
      match l with
      | [] => Forall_nil P
      | x :: r => Forall_cons x (dt_ind2 x) (all r)
      end in
    match t with
    | TLeaf e => Hleaf e
    | TChunked b body => Hchunk b body
    | TList l => Hlist l (all l)
    | TMap kvs =>
        Hmap kvs ((fix allp (l : list (dt * dt)) : Forall (fun kv => P (fst kv) /\ P (snd kv)) l :=
                     match l with
                     | [] => Forall_nil _
                     | (k, v) :: r => Forall_cons (k, v) (conj (dt_ind2 k) (dt_ind2 v)) (allp r)
                     end) kvs)
    | TNode v ch => Hnode v ch (dt_ind2 v) (all ch)
    | TEdge a b c => Hedge a b c (dt_ind2 a) (dt_ind2 b) (dt_ind2 c)
    | TRecord n vals => Hrec n vals (all vals)
    | TMark id t' => Hmark id t' (dt_ind2 t')
    | TRef id => Href id
    end.
End DtInd.

(* ------------------------------------------------------------------ *)
(* Values without placeholders; the marker table and its data            *)
(* ------------------------------------------------------------------ *)

Lemma snap_no_hole v : has_hole v = false -> snap v = v.
Proof.
  destruct v; try reflexivity. cbn [has_hole snap].
  destruct v; try reflexivity. cbn [has_hole orb]. discriminate.
Qed.

Lemma existsb_app_false {A} (f : A -> bool) a b :
  existsb f a = false -> existsb f b = false -> existsb f (a ++ b) = false.
Proof. intros Ha Hb. rewrite existsb_app, Ha, Hb. reflexivity. Qed.

(* the marker table seen as data *)
Definition env_data (m : list (bytes * uval)) : denv := map (fun iv => (fst iv, to_dv (snd iv))) m.
Definition env_clean (m : list (bytes * uval)) : Prop := Forall (fun iv => has_hole (snd iv) = false) m.

Lemma lookup_env_data id m :
  env_lookup id (env_data m) = option_map to_dv (lookup_marked id m).
Proof.
  induction m as [|[i v] r IH]; cbn [env_data map env_lookup lookup_marked fst snd option_map].
  - reflexivity.
  - destruct (bytes_eqb i id); [reflexivity|]. exact IH.
Qed.

Lemma lookup_clean id m v : env_clean m -> lookup_marked id m = Some v -> has_hole v = false.
Proof.
  induction m as [|[i x] r IH]; cbn [lookup_marked]; intros Hc H.
  - discriminate.
  - inversion Hc as [|? ? Hx Hr]; subst. destruct (bytes_eqb i id).
    + inversion H; subst. exact Hx.
    + apply IH; assumption.
Qed.

Lemma mem_id_lookup id m : mem_id id (map fst m) = false -> lookup_marked id m = None.
Proof.
  induction m as [|[i v] r IH]; cbn [map fst mem_id lookup_marked].
  - reflexivity.
  - intro H. apply orb_false_iff in H as [H1 H2]. rewrite H1. apply IH, H2.
Qed.

Lemma lookup_mem_id id m : mem_id id (map fst m) = true -> exists v, lookup_marked id m = Some v.
Proof.
  induction m as [|[i v] r IH]; cbn [map fst mem_id lookup_marked].
  - discriminate.
  - intro H. destruct (bytes_eqb i id).
    + eexists; reflexivity.
    + apply IH. exact H.
Qed.

Lemma filter_fresh id (m : list (bytes * uval)) :
  mem_id id (map fst m) = false ->
  filter (fun '(i, _) => negb (bytes_eqb i id)) m = m.
Proof.
  induction m as [|[i v] r IH]; cbn [map fst mem_id filter].
  - reflexivity.
  - intro H. apply orb_false_iff in H as [H1 H2]. rewrite H1. cbn [negb]. rewrite IH by exact H2. reflexivity.
Qed.

(* ------------------------------------------------------------------ *)
(* One value arriving at a builder                                      *)
(* ------------------------------------------------------------------ *)

(* values that may be map keys in the fragment: comparable, compared by content *)
Definition keyval (x : uval) : bool :=
  match x with
  | UBool _ | UInt _ | UUint _ | UStr _ | UUid _ | UCTime _ => true
  | UTime i o => bytes_eqb i o
  | _ => false
  end.

Lemma keyval_hashable x : keyval x = true -> hashable x = true.
Proof. destruct x; cbn; congruence. Qed.

Lemma keyval_no_hole x : keyval x = true -> has_hole x = false.
Proof. destruct x; cbn; congruence. Qed.

Lemma keyval_eq a b :
  keyval a = true -> keyval b = true -> key_eqb a b = true -> dkey_eqb (to_dv a) (to_dv b) = true.
Proof.
  destruct a, b; cbn [keyval key_eqb to_dv dkey_eqb]; try congruence; try (intros _ _ H; exact H).
  - intros _ _ H. apply N.eqb_eq in H. subst. apply Z.eqb_refl.
  - intros Ha Hb H. apply bytes_eqb_eq in Ha, Hb, H. subst. apply bytes_eqb_eq. reflexivity.
Qed.

(* the key the record builder sends before its next value *)
Definition rec_key (keys : list scalar) (i : nat) : option uval :=
  match nth_error keys i with Some sc => rkey sc | None => None end.

(* the effect of a finished value on the builder at the top of [base]
   (isc: the value is a container, which matters only for the top-level builder) *)
Definition put (v : uval) (isc : bool) (base : list frame) (tob : topobj) : option (list frame * topobj) :=
  match base with
  | FTop :: r => match tob with
                 | TSlot _ => Some (FTop :: r, if isc then TDone v else TSlot v)
                 | TDone _ => None
                 end
  | FSlice l :: r => Some (FSlice (l ++ [v]) :: r, tob)
  | FMap id kvs key w rc :: r =>
      match w, rc with
      | false, None => Some (FMap id kvs (Some v) true None :: r, tob)
      | false, Some (keys, i) =>
          match rec_key keys i with
          | Some k => Some (FMap id (assoc_set k v kvs) (Some k) false (Some (keys, S i)) :: r, tob)
          | None => None
          end
      | true, None =>
          match key with
          | Some k => if hashable k then Some (FMap id (assoc_set k v kvs) (Some k) false None :: r, tob) else None
          | None => None
          end
      | true, Some _ => None
      end
  | FNode false _ :: r => Some (FSlice [] :: FNode true v :: r, tob)
  | _ => None
  end.

(* a record builder that has sent its key and waits for the container it started to finish *)
Definition keyed (fr : frame) : frame :=
  match fr with
  | FMap id kvs key false (Some (keys, i)) =>
      match rec_key keys i with
      | Some k => FMap id kvs (Some k) true (Some (keys, S i))
      | None => fr
      end
  | _ => fr
  end.
(* the effect of a finished container on the builder that started it *)
Definition putc (v : uval) (base : list frame) (tob : topobj) : option (list frame * topobj) :=
  match base with
  | FMap id kvs key w (Some rc) :: r =>
      match w, key with
      | true, Some k =>
          if hashable k then Some (FMap id (assoc_set k v kvs) (Some k) false (Some rc) :: r, tob) else None
      | _, _ => None
      end
  | _ => put v true base tob
  end.

Definition mkframes (mk : option bytes) (isc : bool) : list frame :=
  match mk with Some id => [FMarker id isc] | None => [] end.
Definition mkentry (mk : option bytes) (v : uval) : list (bytes * uval) :=
  match mk with Some id => [(id, v)] | None => [] end.
Definition node_top (base : list frame) : bool :=
  match base with FNode _ _ :: _ => true | _ => false end.

Lemma rkey_keyval sc k : rkey sc = Some k -> keyval k = true.
Proof.
  destruct sc; cbn [rkey]; intro H; try discriminate; try (inversion H; subst; reflexivity);
    match type of H with (if ?c then _ else _) = _ => destruct c end; inversion H; subst; reflexivity.
Qed.

Section Arrival.
  Variable uc : bytes -> option bytes.
  Variable tc : bytes -> option (bytes * bytes).

  Lemma rkey_conv sc k p : rkey sc = Some k -> conv uc tc p sc = Some k.
  Proof.
    destruct sc; cbn [rkey conv]; intro H; try discriminate; try (inversion H; subst; reflexivity).
    - destruct (N.eqb_spec t AT_String); [|discriminate]. subst t. inversion H; subst. reflexivity.
    - destruct (N.eqb_spec t AT_String); [|discriminate]. subst t. inversion H; subst. reflexivity.
  Qed.

  Lemma send_key_rec p id kvs key keys i k :
    rec_key keys i = Some k ->
    send_key uc tc p (FMap id kvs key false (Some (keys, i))) = Some (FMap id kvs (Some k) true (Some (keys, S i))).
  Proof.
    unfold rec_key. cbn [send_key]. destruct (nth_error keys i) as [sc|]; [|discriminate].
    intro H. rewrite (rkey_conv sc k p H). reflexivity.
  Qed.

  Lemma notify_marker_nopending id v st :
    pending st = [] ->
    notify_marker id v st =
    ROk (set_refs st ((id, v) :: filter (fun '(i, _) => negb (bytes_eqb i id)) (marked st)) []).
  Proof. intro H. unfold notify_marker. rewrite H. reflexivity. Qed.

  (* unfolding recv_scalar at the builders that take values *)
  Lemma recv_scalar_top sc above below st :
    recv_scalar uc tc sc above FTop below st =
    match conv uc tc (next st) sc with
    | None => RPanic (set_stack (bump st) (above ++ FTop :: below))
    | Some x => match tobj st with
                | TSlot _ => ROk (set_tobj (set_stack (bump st) (above ++ FTop :: below)) (TSlot x))
                | TDone _ => RPanic (set_stack (bump st) (above ++ FTop :: below))
                end
    end.
  Proof. destruct below; reflexivity. Qed.

  Lemma recv_scalar_slice sc above l below st :
    recv_scalar uc tc sc above (FSlice l) below st =
    match conv uc tc (next st) sc with
    | None => RPanic (set_stack (bump st) (above ++ FSlice l :: below))
    | Some x => ROk (set_stack (bump st) (above ++ FSlice (l ++ [x]) :: below))
    end.
  Proof. destruct below; reflexivity. Qed.

  Lemma recv_scalar_map sc above id kvs key w below st :
    recv_scalar uc tc sc above (FMap id kvs key w None) below st =
    match conv uc tc (next st) sc with
    | None => RPanic (set_stack (bump st) (above ++ FMap id kvs key w None :: below))
    | Some x => match map_store x id kvs key w None with
                | Some fr' => ROk (set_stack (bump st) (above ++ fr' :: below))
                | None => RPanic (set_stack (bump st) (above ++ FMap id kvs key w None :: below))
                end
    end.
  Proof. destruct below; reflexivity. Qed.

  Lemma recv_scalar_rec sc above id kvs key keys i k below st :
    rec_key keys i = Some k ->
    recv_scalar uc tc sc above (FMap id kvs key false (Some (keys, i))) below st =
    match conv uc tc (next st) sc with
    | None => RPanic (set_stack (bump st) (above ++ FMap id kvs (Some k) true (Some (keys, S i)) :: below))
    | Some x => ROk (set_stack (bump st)
                      (above ++ FMap id (assoc_set k x kvs) (Some k) false (Some (keys, S i)) :: below))
    end.
  Proof.
    intro H. pose proof (send_key_rec (next st) id kvs key keys i k H) as Hs.
    assert (Hh : hashable k = true).
    { apply keyval_hashable. unfold rec_key in H. destruct (nth_error keys i) as [s0|]; [|discriminate].
      apply (rkey_keyval s0 k H). }
    destruct below; cbn [recv_scalar]; rewrite Hs; destruct (conv uc tc (next st) sc); try reflexivity;
      cbn [map_store]; rewrite Hh; reflexivity.
  Qed.

  Lemma recv_scalar_node sc above cm v below st :
    recv_scalar uc tc sc above (FNode cm v) below st =
    match conv uc tc (next st) sc with
    | None => RPanic (set_stack (bump st) (above ++ FNode cm v :: below))
    | Some x => ROk (set_stack (bump st) (FSlice [] :: above ++ FNode true x :: below))
    end.
  Proof. destruct below; reflexivity. Qed.

  Lemma recv_scalar_marker sc above id isc child below st :
    recv_scalar uc tc sc above (FMarker id isc) (child :: below) st =
    rbind (recv_scalar uc tc sc (above ++ [FMarker id isc]) child below st)
          (fun st1 => if isc then ROk st1
                      else match conv uc tc (next st) sc with
                           | Some x => notify_marker id x (set_stack st1 (tl (stack st1)))
                           | None => RPanic st1
                           end).
  Proof. reflexivity. Qed.

  Lemma scalar_arrival sc x mk base st s' t' :
    stack st = mkframes mk false ++ base ->
    pending st = [] ->
    conv uc tc (next st) sc = Some x ->
    put x false base (tobj st) = Some (s', t') ->
    (mk <> None -> node_top base = false) ->
    (forall id, mk = Some id -> mem_id id (map fst (marked st)) = false) ->
    exists st', on_scalar uc tc sc st = ROk st' /\ stack st' = s' /\ tobj st' = t' /\
                marked st' = mkentry mk x ++ marked st /\ pending st' = [] /\ rt_tab st' = rt_tab st.
  Proof.
    intros Hst Hp Hc Hput Hnode Hfresh. unfold on_scalar. rewrite Hst.
    destruct base as [|fr r]; [destruct mk; discriminate|].
    destruct mk as [id|]; cbn [mkframes app mkentry].
    - (* through a marker *)
      specialize (Hnode ltac:(discriminate)). specialize (Hfresh id eq_refl).
      rewrite recv_scalar_marker. cbn [app].
      destruct fr; cbn [put node_top] in Hput, Hnode; try discriminate.
      + (* FTop *)
        rewrite recv_scalar_top, Hc. destruct (tobj st) eqn:Et; [|discriminate].
        inversion Hput; subst. cbn [rbind].
        cbn [stack set_tobj set_stack app tl].
        rewrite notify_marker_nopending by exact Hp.
        eexists. split; [reflexivity|]. cbn.
        rewrite filter_fresh by exact Hfresh. auto.
      + (* FSlice *)
        rewrite recv_scalar_slice, Hc. inversion Hput; subst. cbn [rbind].
        cbn [stack set_stack app tl].
        rewrite notify_marker_nopending by exact Hp.
        eexists. split; [reflexivity|]. cbn.
        rewrite filter_fresh by exact Hfresh. auto.
      + (* FMap *)
        destruct want_value, rec as [[keys i]|]; try discriminate.
        * destruct key as [k|]; [|discriminate]. destruct (hashable k) eqn:Hh; [|discriminate].
          rewrite recv_scalar_map, Hc.
          inversion Hput; subst. cbn [map_store]. rewrite Hh. cbn [rbind].
          cbn [stack set_stack app tl].
          rewrite notify_marker_nopending by exact Hp.
          eexists. split; [reflexivity|]. cbn.
          rewrite filter_fresh by exact Hfresh. auto.
        * destruct (rec_key keys i) as [k|] eqn:Hrk; [|discriminate].
          rewrite (recv_scalar_rec sc _ id0 kvs key keys i k r st Hrk), Hc.
          inversion Hput; subst. cbn [rbind].
          cbn [stack set_stack app tl].
          rewrite notify_marker_nopending by exact Hp.
          eexists. split; [reflexivity|]. cbn.
          rewrite filter_fresh by exact Hfresh. auto.
        * rewrite recv_scalar_map, Hc. inversion Hput; subst; cbn [map_store rbind];
            cbn [stack set_stack app tl];
            rewrite notify_marker_nopending by exact Hp;
            (eexists; split; [reflexivity|]; cbn;
             rewrite filter_fresh by exact Hfresh; auto).
    - (* directly *)
      destruct fr; cbn [put] in Hput; try discriminate.
      + rewrite recv_scalar_top, Hc. destruct (tobj st) eqn:Et; [|discriminate].
        inversion Hput; subst. eexists. split; [reflexivity|]. cbn. auto.
      + rewrite recv_scalar_slice, Hc. inversion Hput; subst.
        eexists. split; [reflexivity|]. cbn. auto.
      + destruct want_value, rec as [[keys i]|]; try discriminate.
        * destruct key as [k|]; [|discriminate]. destruct (hashable k) eqn:Hh; [|discriminate].
          rewrite recv_scalar_map, Hc.
          inversion Hput; subst. cbn [map_store]. rewrite Hh.
          eexists. split; [reflexivity|]. cbn. auto.
        * destruct (rec_key keys i) as [k|] eqn:Hrk; [|discriminate].
          rewrite (recv_scalar_rec sc [] id kvs key keys i k r st Hrk), Hc.
          inversion Hput; subst. eexists. split; [reflexivity|]. cbn. auto.
        * rewrite recv_scalar_map, Hc. inversion Hput; subst; cbn [map_store];
            (eexists; split; [reflexivity|]; cbn; auto).
      + destruct children_mode; [discriminate|]. rewrite recv_scalar_node, Hc.
        inversion Hput; subst. eexists. split; [reflexivity|]. cbn. auto.
  Qed.
End Arrival.

Definition ready (base : list frame) (tob : topobj) : bool :=
  match put UNil false base tob with Some _ => true | None => false end.

Section Containers.
  Variable uc : bytes -> option bytes.
  Variable tc : bytes -> option (bytes * bytes).

  Lemma bytes_eqb_refl b : bytes_eqb b b = true.
  Proof. apply bytes_eqb_eq. reflexivity. Qed.

  (* a builder that can take a value starts a container of its own when asked; a record
     builder sends its key first *)
  Lemma recv_begin_ready k above fr r below st tob :
    ready (fr :: r) tob = true ->
    recv_begin uc tc k above fr below st =
    ROk (set_stack (bump (bump st)) (new_frame k (next st + 1) :: above ++ keyed fr :: below)).
  Proof.
    unfold ready. intro H. destruct fr; cbn [put] in H; try discriminate; try (destruct below; reflexivity).
    - destruct want_value, rec as [[keys i]|]; try discriminate; try (destruct below; reflexivity).
      destruct (rec_key keys i) as [kk|] eqn:Hrk; [|discriminate].
      pose proof (send_key_rec uc tc (next st) id kvs key keys i kk Hrk) as Hs.
      cbn [keyed]. rewrite Hrk. destruct below; cbn [recv_begin]; rewrite Hs; reflexivity.
  Qed.

  Lemma recv_begin_marker k above id isc child below st :
    recv_begin uc tc k above (FMarker id isc) (child :: below) st =
    recv_begin uc tc k (above ++ [FMarker id true]) child below st.
  Proof. reflexivity. Qed.

  Definition begin_kind (e : event) : option ckind :=
    match e with EList => Some KList | EMap => Some KMap | ENode => Some KNode | _ => None end.

  Lemma recv_begin_through k mk fr r st :
    stack st = mkframes mk false ++ fr :: r ->
    ready (fr :: r) (tobj st) = true ->
    match stack st with fr0 :: below => recv_begin uc tc k [] fr0 below st | [] => RPanic st end =
    ROk (set_stack (bump (bump st)) (new_frame k (next st + 1) :: mkframes mk true ++ keyed fr :: r)).
  Proof.
    intros Hst Hrdy. rewrite Hst. destruct mk as [id|]; cbn [mkframes app].
    - rewrite recv_begin_marker. rewrite (recv_begin_ready k _ fr r r st (tobj st) Hrdy). reflexivity.
    - rewrite (recv_begin_ready k _ fr r r st (tobj st) Hrdy). reflexivity.
  Qed.

  Lemma begin_container e k mk fr r st :
    begin_kind e = Some k ->
    stack st = mkframes mk false ++ fr :: r ->
    ready (fr :: r) (tobj st) = true ->
    exists st', step uc tc st e = ROk st' /\
                stack st' = new_frame k (next st + 1) :: mkframes mk true ++ keyed fr :: r /\
                tobj st' = tobj st /\ marked st' = marked st /\ pending st' = pending st /\
                rt_tab st' = rt_tab st.
  Proof.
    intros Hk Hst Hrdy.
    assert (Hstep : step uc tc st e =
                    match stack st with fr :: below => recv_begin uc tc k [] fr below st | [] => RPanic st end).
    { destruct e; try discriminate; inversion Hk; subst; reflexivity. }
    rewrite Hstep, (recv_begin_through k mk fr r st Hst Hrdy).
    eexists. split; [reflexivity|]. cbn. auto.
  Qed.

  Lemma putc_keyed v fr r tob :
    ready (fr :: r) tob = true -> putc v (keyed fr :: r) tob = put v true (fr :: r) tob.
  Proof.
    unfold ready. destruct fr; cbn [put keyed putc]; try discriminate; try reflexivity.
    - destruct key as [k0|], want_value, rec as [[keys i]|]; try discriminate; try reflexivity;
        (destruct (rec_key keys i) as [k|] eqn:Hrk; [|discriminate]; intros _; cbn [putc];
         rewrite (keyval_hashable k); [reflexivity|];
         unfold rec_key in Hrk; destruct (nth_error keys i) as [s0|]; [|discriminate];
         apply (rkey_keyval s0 k Hrk)).
  Qed.

  Lemma done_to_marker f id v st below :
    stack st = FMarker id true :: below -> pending st = [] ->
    mem_id id (map fst (marked st)) = false ->
    done_to (S f) v st = done_to f v (set_stack (set_refs st ((id, v) :: marked st) []) below).
  Proof.
    intros Hst Hp Hfresh. cbn [done_to]. rewrite Hst.
    rewrite notify_marker_nopending by exact Hp. cbn [rbind].
    cbn [marked set_refs lookup_marked]. rewrite bytes_eqb_refl.
    cbn [stack set_refs tl]. rewrite Hst. cbn [tl].
    rewrite filter_fresh by exact Hfresh. reflexivity.
  Qed.

  (* a finished container handed to the builder below (through its marker, if any) *)
  Lemma finish_container v mk base st s' t' :
    stack st = mkframes mk true ++ base ->
    pending st = [] ->
    has_hole v = false ->
    putc v base (tobj st) = Some (s', t') ->
    (forall id, mk = Some id -> mem_id id (map fst (marked st)) = false) ->
    exists st', notify_done v st = ROk st' /\ stack st' = s' /\ tobj st' = t' /\
                marked st' = mkentry mk v ++ marked st /\ pending st' = [] /\ rt_tab st' = rt_tab st.
  Proof.
    intros Hst Hp Hh Hput Hfresh. unfold notify_done. rewrite Hst.
    pose proof (snap_no_hole v Hh) as Hsnap.
    destruct base as [|fr r]; [destruct mk; discriminate|].
    assert (Hcore : forall st0, stack st0 = fr :: r -> tobj st0 = tobj st ->
              exists st', done_to (S (length r)) v st0 = ROk st' /\ stack st' = s' /\ tobj st' = t' /\
                          marked st' = marked st0 /\ pending st' = pending st0 /\ rt_tab st' = rt_tab st0).
    { intros st0 Hs0 Ht0. cbn [done_to]. rewrite Hs0.
      destruct fr; cbn [putc put] in Hput; try discriminate.
      - destruct (tobj st) eqn:Et; [|discriminate]. inversion Hput; subst.
        eexists. split; [reflexivity|]. cbn. auto.
      - inversion Hput; subst. rewrite Hsnap. eexists. split; [reflexivity|]. cbn. auto.
      - rewrite Hsnap. destruct key as [k|], want_value, rec as [[keys i]|]; cbn [putc put] in Hput; try discriminate.
        + destruct (hashable k) eqn:Hk; [|discriminate]. inversion Hput; subst. cbn [map_store]. rewrite Hk.
          eexists. split; [reflexivity|]. cbn. auto.
        + destruct (hashable k) eqn:Hk; [|discriminate]. inversion Hput; subst. cbn [map_store]. rewrite Hk.
          eexists. split; [reflexivity|]. cbn. auto.
        + inversion Hput; subst. cbn [map_store]. eexists. split; [reflexivity|]. cbn. auto.
        + inversion Hput; subst. cbn [map_store]. eexists. split; [reflexivity|]. cbn. auto.
      - destruct children_mode; [discriminate|]. inversion Hput; subst. rewrite Hsnap.
        eexists. split; [reflexivity|]. cbn. auto. }
    destruct mk as [id|]; cbn [mkframes app mkentry length].
    - specialize (Hfresh id eq_refl).
      rewrite (done_to_marker (S (length r)) id v st (fr :: r) Hst Hp Hfresh).
      destruct (Hcore (set_stack (set_refs st ((id, v) :: marked st) []) (fr :: r)) eq_refl eq_refl)
        as [st' [Hd [H1 [H2 [H3 [H4 H5]]]]]].
      exists st'. split; [exact Hd|]. split; [exact H1|]. split; [exact H2|].
      split; [rewrite H3; reflexivity|]. split; [rewrite H4; reflexivity|]. rewrite H5. reflexivity.
    - destruct (Hcore st Hst eq_refl) as [st' [Hd [H1 [H2 [H3 [H4 H5]]]]]].
      exists st'. split; [exact Hd|]. split; [exact H1|]. split; [exact H2|].
      split; [rewrite H3; reflexivity|]. split; [rewrite H4; exact Hp|]. exact H5.
  Qed.

  (* a reference to a marker that is already complete *)
  Lemma ref_arrival id v fr r st s' t' :
    stack st = fr :: r ->
    lookup_marked id (marked st) = Some v ->
    has_hole v = false ->
    (match fr with FTop => False | _ => True end) ->
    put v false (fr :: r) (tobj st) = Some (s', t') ->
    (match fr with FMap _ _ _ false None => False | _ => True end) ->
    exists st', step uc tc st (ERefLocal id) = ROk st' /\ stack st' = s' /\ tobj st' = t' /\
                marked st' = marked st /\ pending st' = pending st /\ rt_tab st' = rt_tab st.
  Proof.
    intros Hst Hl Hh Hnt Hput Hnk. cbn [step]. rewrite Hst. unfold recv_ref.
    pose proof (snap_no_hole v Hh) as Hsnap.
    destruct fr; cbn [put] in Hput; try discriminate; try contradiction.
    - inversion Hput; subst. cbn [send_key marked bump]. rewrite Hl, Hsnap.
      eexists. split; [reflexivity|]. cbn. auto.
    - destruct want_value, rec as [[keys i]|]; try discriminate; try contradiction.
      + destruct key as [k|]; [|discriminate]. destruct (hashable k) eqn:Hk; [|discriminate].
        inversion Hput; subst. cbn [send_key marked bump]. rewrite Hl, Hk, Hsnap.
        eexists. split; [reflexivity|]. cbn. auto.
      + destruct (rec_key keys i) as [k|] eqn:Hrk; [|discriminate].
        rewrite (send_key_rec uc tc (next st) id0 kvs key keys i k Hrk).
        assert (Hk : hashable k = true).
        { apply keyval_hashable. unfold rec_key in Hrk. destruct (nth_error keys i); [|discriminate].
          apply (rkey_keyval _ _ Hrk). }
        inversion Hput; subst. cbn [marked bump]. rewrite Hl, Hk, Hsnap.
        eexists. split; [reflexivity|]. cbn. auto.
    - destruct children_mode; [discriminate|]. inversion Hput; subst.
      cbn [send_key marked bump]. rewrite Hl, Hsnap.
      eexists. split; [reflexivity|]. cbn. auto.
  Qed.
End Containers.

(* ------------------------------------------------------------------ *)
(* Leaves of the fragment                                               *)
(* ------------------------------------------------------------------ *)

Section Leaves.
  Variable uc : bytes -> option bytes.
  Variable tc : bytes -> option (bytes * bytes).

  Lemma url_ok_conv s : url_ok uc s = true -> uc s = Some s.
  Proof.
    unfold url_ok. destruct (uc s) as [o|]; [|discriminate].
    intro H. apply bytes_eqb_eq in H. subst. reflexivity.
  Qed.

  Lemma mod_nat_of_N (n : nat) (w : N) :
    0 < w -> N.of_nat n mod w = 0 -> (n mod N.to_nat w = 0)%nat.
  Proof.
    intros Hw H. rewrite <- (Nat2N.id n) at 1. rewrite <- N2Nat.inj_mod. rewrite H. reflexivity.
  Qed.

  Lemma wide_conv T w data n :
    0 < w -> bytes_wfb data = true -> N.of_nat (length data) mod w = 0 ->
    conv uc tc n (SArr T data) = Some (UTyped T (bytes_to_slice w data)) ->
    typed_bytes T (bytes_to_slice w data) = slice_to_bytes w (bytes_to_slice w data) ->
    array_dv T data = DArr T data ->
    exists x, conv uc tc n (SArr T data) = Some x /\ to_dv x = array_dv T data /\ has_hole x = false.
  Proof.
    intros Hw Hwf Hm Hc Ht Ha. eexists. split; [exact Hc|]. split; [|reflexivity].
    cbn [to_dv]. rewrite Ht, Ha.
    rewrite slice_to_bytes_of_bytes_to_slice_exact; [reflexivity|exact Hw| |].
    - apply bytes_wfb_wf. exact Hwf.
    - apply mod_nat_of_N; assumption.
  Qed.

  Lemma array_conv t data n :
    array_ok uc t data = true ->
    exists x, conv uc tc n (SArr t data) = Some x /\ to_dv x = array_dv t data /\ has_hole x = false.
  Proof.
    unfold array_ok. intro H. repeat (apply orb_true_iff in H as [H|H]).
    - apply N.eqb_eq in H. subst. eexists. split; [reflexivity|]. split; reflexivity.
    - apply N.eqb_eq in H. subst. eexists. split; [reflexivity|]. split; reflexivity.
    - apply andb_true_iff in H as [H Hu]. apply N.eqb_eq in H. subst.
      apply url_ok_conv in Hu. cbn. unfold rid_value. rewrite Hu.
      eexists. split; [reflexivity|]. split; reflexivity.
    - apply andb_true_iff in H as [H Hm]. apply andb_true_iff in H as [Hw Hwf].
      apply N.eqb_eq in Hm. apply negb_true_iff in Hw. apply N.eqb_neq in Hw.
      unfold wide_width in *.
      destruct (N.eqb_spec t AT_Uint16); [subst; apply (wide_conv AT_Uint16 2); try assumption; try reflexivity|].
      destruct (N.eqb_spec t AT_Int16); [subst; apply (wide_conv AT_Int16 2); try assumption; try reflexivity|].
      cbn [orb] in *.
      destruct (N.eqb_spec t AT_Uint32); [subst; apply (wide_conv AT_Uint32 4); try assumption; try reflexivity|].
      destruct (N.eqb_spec t AT_Int32); [subst; apply (wide_conv AT_Int32 4); try assumption; try reflexivity|].
      cbn [orb] in *.
      destruct (N.eqb_spec t AT_Uint64); [subst; apply (wide_conv AT_Uint64 8); try assumption; try reflexivity|].
      destruct (N.eqb_spec t AT_Int64); [subst; apply (wide_conv AT_Int64 8); try assumption; try reflexivity|].
      destruct (N.eqb_spec t AT_Float64); [subst; apply (wide_conv AT_Float64 8); try assumption; try reflexivity|].
      cbn [orb] in *.
      destruct (N.eqb_spec t AT_Int8); [subst; apply (wide_conv AT_Int8 1); try assumption; try reflexivity|].
      contradiction.
    - apply andb_true_iff in H as [H Hs]. apply andb_true_iff in H as [H Hm].
      apply andb_true_iff in H as [H Hwf]. apply N.eqb_eq in H, Hm. subst.
      eexists. split; [reflexivity|]. split; [|reflexivity].
      cbn [to_dv]. unfold typed_bytes. change (typed_width AT_Float32) with 4.
      change (AT_Float32 =? AT_Float32) with true.
      rewrite iter_tie_float32.
      + rewrite slice_to_bytes_of_bytes_to_slice_exact; [reflexivity|reflexivity| |].
        * apply bytes_wfb_wf. exact Hwf.
        * apply (mod_nat_of_N _ 4); [reflexivity|exact Hm].
      + apply Forall_forall. intros f Hf. rewrite forallb_forall in Hs.
        apply negb_true_iff. apply Hs. exact Hf.
  Qed.

  Lemma stringlike_conv t data n :
    stringlike_ok uc t data = true ->
    exists x, conv uc tc n (SStr t data) = Some x /\ to_dv x = array_dv t data /\ has_hole x = false.
  Proof.
    unfold stringlike_ok. intro H. apply orb_true_iff in H as [H|H].
    - apply N.eqb_eq in H. subst. eexists. split; [reflexivity|]. split; reflexivity.
    - apply andb_true_iff in H as [H Hu]. apply N.eqb_eq in H. subst.
      apply url_ok_conv in Hu. cbn. unfold rid_value. rewrite Hu.
      eexists. split; [reflexivity|]. split; reflexivity.
  Qed.

  Lemma time_conv_ok key s n :
    time_ok tc key s = true ->
    exists x, conv uc tc n (STime s) = Some x /\ to_dv x = DTime s /\ has_hole x = false /\
              (key = true -> keyval x = true).
  Proof.
    unfold time_ok. cbn [conv]. destruct (tc s) as [[i o]|].
    - intro H. apply andb_true_iff in H as [Ho Hi]. apply bytes_eqb_eq in Ho. subst.
      eexists. split; [reflexivity|]. split; [reflexivity|]. split; [reflexivity|].
      intro Hk. subst. cbn in Hi. cbn [keyval]. exact Hi.
    - intros _. eexists. split; [reflexivity|]. split; [reflexivity|]. split; [reflexivity|]. reflexivity.
  Qed.

  Lemma step_value e sc st :
    event_scalar e = Some sc -> step uc tc st e = on_scalar uc tc sc st.
  Proof. destruct e; cbn [event_scalar]; intro H; inversion H; subst; reflexivity. Qed.

  Lemma leaf_conv p e :
    leaf_ok uc tc p e = true ->
    exists sc d, event_scalar e = Some sc /\ event_dv e = Some d /\
      forall n, exists x, conv uc tc n sc = Some x /\ to_dv x = d /\ has_hole x = false /\
                          (p = PKey -> keyval x = true).
  Proof.
    intro H. destruct e; cbn [leaf_ok] in H; try discriminate;
      try (do 2 eexists; split; [reflexivity|]; split; [reflexivity|]; intro k0;
           eexists; split; [reflexivity|]; split; [reflexivity|]; split; [reflexivity|];
           intro Hp; subst; first [reflexivity | discriminate]).
    - (* ENegInt *)
      do 2 eexists. split; [reflexivity|]. split; [reflexivity|]. intro k.
      cbn [event_dv]. unfold negint_scalar.
      destruct (n =? 0) eqn:H0.
      + eexists. split; [reflexivity|]. split; [vm_compute; reflexivity|]. split; [reflexivity|].
        intro Hp. subst. cbn in H. discriminate.
      + destruct (n <=? max_int64) eqn:Hm.
        * eexists. split; [reflexivity|]. split; [reflexivity|]. split; [reflexivity|]. reflexivity.
        * eexists. split; [reflexivity|]. split; [reflexivity|]. split; [reflexivity|].
          intro Hp. subst. cbn in H. discriminate.
    - (* EBigInt *) destruct v; do 2 eexists; (split; [reflexivity|]); (split; [reflexivity|]); intro k0;
        eexists; (split; [reflexivity|]); (split; [reflexivity|]); (split; [reflexivity|]);
        intro Hp; subst; discriminate.
    - (* EBigFloat *) destruct v; do 2 eexists; (split; [reflexivity|]); (split; [reflexivity|]); intro k0;
        eexists; (split; [reflexivity|]); (split; [reflexivity|]); (split; [reflexivity|]);
        intro Hp; subst; discriminate.
    - (* EBigDecimal *) destruct v; do 2 eexists; (split; [reflexivity|]); (split; [reflexivity|]); intro k0;
        eexists; (split; [reflexivity|]); (split; [reflexivity|]); (split; [reflexivity|]);
        intro Hp; subst; discriminate.
    - (* ENan *)
      do 2 eexists. split; [reflexivity|]. split; [reflexivity|]. intro k0.
      eexists. split; [reflexivity|]. split; [destruct signaling; vm_compute; reflexivity|].
      split; [reflexivity|]. intro Hp; subst; discriminate.
    - (* EUid *)
      do 2 eexists. split; [reflexivity|]. split; [reflexivity|]. intro k0.
      cbn [conv]. rewrite H. eexists. split; [reflexivity|]. split; [reflexivity|]. split; reflexivity.
    - (* ETime *)
      do 2 eexists. split; [reflexivity|]. split; [reflexivity|]. intro k0.
      destruct (time_conv_ok (is_key p) s k0 H) as [x [Hc [Hd [Hh Hk]]]].
      exists x. split; [exact Hc|]. split; [exact Hd|]. split; [exact Hh|].
      intro Hp. subst. apply Hk. reflexivity.
    - (* EArray *)
      do 2 eexists. split; [reflexivity|]. split; [reflexivity|]. intro k0.
      destruct (is_key p) eqn:Hkp.
      + apply N.eqb_eq in H. subst. eexists. split; [reflexivity|]. split; [reflexivity|]. split; reflexivity.
      + destruct (array_conv t data k0 H) as [x [Hc [Hd Hh]]].
        exists x. split; [exact Hc|]. split; [exact Hd|]. split; [exact Hh|].
        intro Hp. subst. discriminate.
    - (* EStringArray *)
      do 2 eexists. split; [reflexivity|]. split; [reflexivity|]. intro k0.
      destruct (is_key p) eqn:Hkp.
      + apply N.eqb_eq in H. subst. eexists. split; [reflexivity|]. split; [reflexivity|]. split; reflexivity.
      + destruct (stringlike_conv t data k0 H) as [x [Hc [Hd Hh]]].
        exists x. split; [exact Hc|]. split; [exact Hd|]. split; [exact Hh|].
        intro Hp. subst. discriminate.
  Qed.
End Leaves.

(* ------------------------------------------------------------------ *)
(* Arrays delivered in chunks (elements of one byte)                    *)
(* ------------------------------------------------------------------ *)

Section Chunks.
  Variable uc : bytes -> option bytes.
  Variable tc : bytes -> option (bytes * bytes).

  Lemma rem_sub (r k : N) : k <= r -> r < two64 -> (r + two64 - k mod two64) mod two64 = r - k.
  Proof.
    intros Hk Hr. unfold two64 in *.
    rewrite (N.mod_small k) by lia.
    replace (r + 18446744073709551616 - k) with ((r - k) + 1 * 18446744073709551616) by lia.
    rewrite N.mod_add by discriminate. apply N.mod_small. lia.
  Qed.

  Lemma elem_byte_count_lt bits n : elem_byte_count bits n < two64.
  Proof.
    unfold elem_byte_count, two64.
    assert (H : (n * bits) mod 18446744073709551616 / 8 < 18446744073709551616).
    { apply N.div_lt_upper_bound; [discriminate|].
      pose proof (N.mod_upper_bound (n * bits) 18446744073709551616 ltac:(discriminate)). lia. }
    destruct ((bits =? 1) && negb (N.land n 7 =? 0)); [|exact H].
    apply N.mod_upper_bound. discriminate.
  Qed.

  Lemma chunks_exec bits es : forall rem more acc data st,
    chunks_ok bits es rem more acc = Some data ->
    crem st = rem -> cmore st = more -> cdata st = acc -> cbits st = bits -> rem < two64 ->
    exec uc tc st es = fire uc tc (set_chunk st data 0 false (ccb st) bits).
  Proof.
    induction es as [|e r IH]; intros rem more acc data st H Hr Hm Ha Hb Hlt; cbn [chunks_ok] in H.
    - discriminate.
    - destruct e; try discriminate.
      + (* chunk header *)
        cbn [exec step]. unfold on_chunk. rewrite Hb.
        destruct (negb more0 && (elem_byte_count bits n =? 0)) eqn:Hfire.
        * destruct r; [|discriminate]. inversion H; subst.
          apply andb_true_iff in Hfire as [Hm0 Hn0]. apply negb_true_iff in Hm0. apply N.eqb_eq in Hn0.
          rewrite Hn0, Hm0. destruct (fire uc tc _); reflexivity.
        * cbn [rbind]. erewrite IH; [reflexivity|exact H|reflexivity|reflexivity|exact Ha|reflexivity|].
          apply elem_byte_count_lt.
      + (* data *)
        destruct (rem <? N.of_nat (length data0)) eqn:Hk; [discriminate|]. apply N.ltb_ge in Hk.
        cbn [exec step]. unfold on_data. rewrite Hr, Hm, Ha, Hb.
        rewrite rem_sub by assumption.
        destruct (negb more && (rem - N.of_nat (length data0) =? 0)) eqn:Hfire.
        * destruct r; [|discriminate]. inversion H; subst.
          apply andb_true_iff in Hfire as [Hm0 Hn0]. apply negb_true_iff in Hm0. apply N.eqb_eq in Hn0.
          rewrite Hn0, Hm0. destruct (fire uc tc _); reflexivity.
        * cbn [rbind]. erewrite IH; [reflexivity|exact H|reflexivity|reflexivity|reflexivity|reflexivity|].
          cbn [crem set_chunk]. lia.
  Qed.

  Lemma chunked_exec b body data st :
    step uc tc st (begin_event b) = ROk (set_chunk st [] (crem st) (cmore st) (abegin_cb b) (abegin_bits b)) ->
    chunked_data (abegin_bits b) body = Some data ->
    exec uc tc st (begin_event b :: body) = fire uc tc (set_chunk st data 0 false (abegin_cb b) (abegin_bits b)).
  Proof.
    intro Hb. unfold chunked_data. destruct body as [|e r]; [discriminate|].
    destruct e; try discriminate. intro H. cbn [chunks_ok] in H.
    cbn [exec]. rewrite Hb. cbn [rbind step]. unfold on_chunk. cbn [cbits set_chunk].
    destruct (negb more && (elem_byte_count (abegin_bits b) n =? 0)) eqn:Hfire.
    - destruct r; [|discriminate]. inversion H; subst.
      apply andb_true_iff in Hfire as [Hm0 Hn0]. apply negb_true_iff in Hm0. apply N.eqb_eq in Hn0.
      rewrite Hn0, Hm0. cbn. destruct (fire uc tc _); reflexivity.
    - cbn [rbind]. erewrite chunks_exec; [reflexivity|exact H|reflexivity|reflexivity|reflexivity|reflexivity|].
      apply elem_byte_count_lt.
  Qed.
End Chunks.

(* ------------------------------------------------------------------ *)
(* The fragment: every value is built, with the right data              *)
(* ------------------------------------------------------------------ *)

Definition pos_of (base : list frame) : pos :=
  match base with
  | FMap _ _ _ false None :: _ => PKey
  | FNode false _ :: _ => PNodeVal
  | _ => PGen
  end.
Definition top_is_ftop (base : list frame) : bool :=
  match base with FTop :: _ => true | _ => false end.

Lemma ready_put base tob v isc :
  ready base tob = true -> exists s t, put v isc base tob = Some (s, t).
Proof.
  unfold ready. destruct base as [|fr r]; [discriminate|].
  destruct fr; cbn [put]; try discriminate.
  - destruct tob; [|discriminate]. intros _. do 2 eexists; reflexivity.
  - intros _. do 2 eexists; reflexivity.
  - destruct want_value, rec as [[keys i]|]; try discriminate.
    + destruct key as [k|]; [|discriminate]. destruct (hashable k); [|discriminate].
      intros _. do 2 eexists; reflexivity.
    + destruct (rec_key keys i); [|discriminate]. intros _. do 2 eexists; reflexivity.
    + intros _. do 2 eexists; reflexivity.
  - destruct children_mode; [discriminate|]. intros _. do 2 eexists; reflexivity.
Qed.

(* put does not look at isc except at the top-level builder *)
Lemma put_isc base tob v isc1 isc2 :
  top_is_ftop base = false -> put v isc1 base tob = put v isc2 base tob.
Proof. destruct base as [|fr r]; [reflexivity|]. destruct fr; try reflexivity. discriminate. Qed.

(* is the value a container (seen through its marker)? *)
Fixpoint contb (t : dt) : bool :=
  match t with
  | TList _ | TMap _ | TNode _ _ | TRecord _ _ => true
  | TMark _ t' => contb t'
  | _ => false
  end.

Section Main.
  Variable uc : bytes -> option bytes.
  Variable tc : bytes -> option (bytes * bytes).
  (* the record types of the document: their key data, and the table the builder holds *)
  Variable rd : list (bytes * list dv).
  Variable T : list (bytes * list scalar).

  Definition rt_keys_of (tab : list (bytes * list scalar)) (id : bytes) : list scalar :=
    match find (fun '(n, _) => bytes_eqb n id) tab with Some (_, ks) => ks | None => [] end.
  Definition key_rel (sc : scalar) (kd : dv) : Prop := exists k, rkey sc = Some k /\ to_dv k = kd.
  (* the builder's table holds, for every record type of the document, keys with those data *)
  Hypothesis HT : forall name kds, tab_lookup name rd = Some kds ->
    Forall2 key_rel (rt_keys_of T name) kds /\ dkeys_distinct kds = true.

  Definition supp_list := fix go (ids : list bytes) (l : list dt) : option (list bytes) :=
    match l with
    | [] => Some ids
    | x :: r => match supp uc tc rd ids PGen x with Some ids1 => go ids1 r | None => None end
    end.
  Definition supp_kvs := fix go (ids : list bytes) (l : list (dt * dt)) : option (list bytes) :=
    match l with
    | [] => Some ids
    | (k, v) :: r =>
      match supp uc tc rd ids PKey k with
      | Some ids1 => match supp uc tc rd ids1 PGen v with Some ids2 => go ids2 r | None => None end
      | None => None
      end
    end.
  Definition erase_kvs := fix go (env : denv) (l : list (dv * dv)) : option (list (dv * dv) * denv) :=
    match l with
    | [] => Some ([], env)
    | (k, v) :: r =>
      match erase rd env k with
      | Some (k', e1) =>
        match erase rd e1 v with
        | Some (v', e2) => match go e2 r with Some (r', e3) => Some ((k', v') :: r', e3) | None => None end
        | None => None
        end
      | None => None
      end
    end.

  Lemma supp_TList ids p l : supp uc tc rd ids p (TList l) = if is_key p then None else supp_list ids l.
  Proof. reflexivity. Qed.
  Lemma supp_TNode ids p v ch :
    supp uc tc rd ids p (TNode v ch) =
    if is_key p then None
    else match supp uc tc rd ids PNodeVal v with Some ids1 => supp_list ids1 ch | None => None end.
  Proof. reflexivity. Qed.
  Lemma supp_TMap ids p kvs :
    supp uc tc rd ids p (TMap kvs) =
    if is_key p then None
    else if negb (match omap2 (key_data) (map fst kvs) with Some ds => dkeys_distinct ds | None => false end) then None
    else supp_kvs ids kvs.
  Proof. reflexivity. Qed.
  Lemma erase_DMap env kvs :
    erase rd env (DMap kvs) = match erase_kvs env kvs with Some (l', e) => Some (DMap l', e) | None => None end.
  Proof. reflexivity. Qed.

  (* what running the events of one value does *)
  Definition value_ok (t : dt) : Prop :=
    forall ids p ids', supp uc tc rd ids p t = Some ids' ->
    forall mk st base d,
      stack st = mkframes mk false ++ base ->
      (pos_of base = PKey -> p = PKey) ->
      (mk = None -> pos_of base = PNodeVal -> p = PNodeVal) ->
      (mk <> None -> node_top base = true -> is_container t = true) ->
      (mk <> None -> match t with TMark _ _ | TRef _ => False | _ => True end) ->
      (top_is_ftop base = true -> ids = []) ->
      ready base (tobj st) = true ->
      pending st = [] ->
      rt_tab st = T ->
      ids = map fst (marked st) ->
      env_clean (marked st) ->
      sem t = Some d ->
      (forall id, mk = Some id -> mem_id id ids' = false /\ mem_id id ids = false) ->
      exists st' v m1,
        exec uc tc st (flat t) = ROk st' /\
        put v (contb t) base (tobj st) = Some (stack st', tobj st') /\
        marked st' = mkentry mk v ++ m1 /\ map fst m1 = ids' /\ env_clean m1 /\
        erase rd (env_data (marked st)) d = Some (to_dv v, env_data m1) /\
        has_hole v = false /\ (pending st' = [] /\ rt_tab st' = T) /\
        (p = PKey -> keyval v = true).

  Lemma event_dv_erase e d env : event_dv e = Some d -> erase rd env d = Some (d, env).
  Proof.
    destruct e; cbn [event_dv]; intro H; try discriminate;
      try (inversion H; subst; reflexivity).
    - inversion H; subst. destruct (n =? 0); reflexivity.
    - destruct v; inversion H; subst; reflexivity.
    - inversion H; subst. unfold float_dv. destruct (f64_is_nan bits); [reflexivity|].
      destruct (bits =? neg_zero_bits); reflexivity.
    - destruct v; inversion H; subst; reflexivity.
    - inversion H; subst. destruct d0; reflexivity.
    - destruct v as [d0|]; inversion H; subst; [destruct d0|]; reflexivity.
    - inversion H; subst. unfold array_dv.
      destruct (t =? AT_String); [reflexivity|]. destruct (t =? AT_ResourceID); [reflexivity|].
      destruct (t =? AT_ReferenceRemote); reflexivity.
    - inversion H; subst. unfold array_dv.
      destruct (t =? AT_String); [reflexivity|]. destruct (t =? AT_ResourceID); [reflexivity|].
      destruct (t =? AT_ReferenceRemote); reflexivity.
  Qed.

  Lemma node_top_false (mk : option bytes) base t :
    (mk <> None -> node_top base = true -> is_container t = true) ->
    is_container t = false -> mk <> None -> node_top base = false.
  Proof.
    intros H Hc Hm. destruct (node_top base) eqn:E; [|reflexivity].
    rewrite (H Hm eq_refl) in Hc. discriminate.
  Qed.

  Lemma value_leaf e : value_ok (TLeaf e).
  Proof.
    intros ids p ids' Hs mk st base d Hst Hk Hn Hnode Hnm Hft Hrdy Hp Hrt Hids Hcl Hsem Hfresh.
    cbn [supp] in Hs. destruct (leaf_ok uc tc p e) eqn:Hl; [|discriminate]. inversion Hs; subst ids'.
    destruct (leaf_conv uc tc p e Hl) as [sc [dd [Hsc [Hdv Hconv]]]].
    cbn [sem] in Hsem. rewrite Hdv in Hsem. inversion Hsem; subst dd.
    destruct (Hconv (next st)) as [x [Hc [Hd [Hh Hkv]]]].
    destruct (ready_put base (tobj st) x false Hrdy) as [s' [t' Hput]].
    destruct (scalar_arrival uc tc sc x mk base st s' t' Hst Hp Hc Hput) as [st' [Hon [Hs' [Ht' [Hm' [Hp' Hrt']]]]]].
    { apply (node_top_false mk base (TLeaf e) Hnode eq_refl). }
    { intros id Hid. destruct (Hfresh id Hid) as [_ Hf]. rewrite Hids in Hf. exact Hf. }
    exists st', x, (marked st). split.
    { cbn [flat exec]. rewrite (step_value uc tc e sc st Hsc), Hon. reflexivity. }
    split. { cbn [contb]. rewrite Hs', Ht'. exact Hput. }
    split. { exact Hm'. }
    split. { symmetry. exact Hids. }
    split. { exact Hcl. }
    split. { rewrite Hd. apply (event_dv_erase e d _ Hdv). }
    split. { exact Hh. }
    split. { split; [exact Hp'|]. rewrite Hrt'. exact Hrt. }
    exact Hkv.
  Qed.

  Definition ok_types : list N :=
    [AT_Uint8; AT_String; AT_ResourceID; AT_Uint16; AT_Int16; AT_Uint32; AT_Int32; AT_Uint64; AT_Int64;
     AT_Float64; AT_Int8; AT_Float32].

  Lemma array_ok_types t data : array_ok uc t data = true -> In t ok_types.
  Proof.
    unfold array_ok. intro H. repeat (apply orb_true_iff in H as [H|H]).
    - apply N.eqb_eq in H. subst. cbn. tauto.
    - apply N.eqb_eq in H. subst. cbn. tauto.
    - apply andb_true_iff in H as [H _]. apply N.eqb_eq in H. subst. cbn. tauto.
    - apply andb_true_iff in H as [H _]. apply andb_true_iff in H as [Hw _].
      apply negb_true_iff in Hw. apply N.eqb_neq in Hw. unfold wide_width in Hw.
      destruct (N.eqb_spec t AT_Uint16); [subst; cbn; tauto|].
      destruct (N.eqb_spec t AT_Int16); [subst; cbn; tauto|]. cbn [orb] in Hw.
      destruct (N.eqb_spec t AT_Uint32); [subst; cbn; tauto|].
      destruct (N.eqb_spec t AT_Int32); [subst; cbn; tauto|]. cbn [orb] in Hw.
      destruct (N.eqb_spec t AT_Uint64); [subst; cbn; tauto|].
      destruct (N.eqb_spec t AT_Int64); [subst; cbn; tauto|].
      destruct (N.eqb_spec t AT_Float64); [subst; cbn; tauto|]. cbn [orb] in Hw.
      destruct (N.eqb_spec t AT_Int8); [subst; cbn; tauto|]. contradiction.
    - repeat (apply andb_true_iff in H as [H _]). apply N.eqb_eq in H. subst. cbn. tauto.
  Qed.

  Lemma ok_types_facts t : In t ok_types -> (t <? AT_Count) = true /\ (elem_bits t =? 0) = false.
  Proof.
    intro H. assert (F : forallb (fun t => (t <? AT_Count) && negb (elem_bits t =? 0)) ok_types = true)
      by (vm_compute; reflexivity).
    rewrite forallb_forall in F. specialize (F t H). apply andb_true_iff in F as [F1 F2].
    apply negb_true_iff in F2. auto.
  Qed.

  Lemma chunked_leaf p b body :
    chunked_ok uc p b body = true ->
    exists data,
      let sc := abegin_scalar b data in
      let d := abegin_dv b data in
      chunked_data (abegin_bits b) body = Some data /\ sem (TChunked b body) = Some d /\
      (forall st, step uc tc st (begin_event b)
                  = ROk (set_chunk st [] (crem st) (cmore st) (abegin_cb b) (abegin_bits b))) /\
      (forall st, fire uc tc (set_chunk st data 0 false (abegin_cb b) (abegin_bits b))
                  = on_scalar uc tc sc (set_chunk st data 0 false (abegin_cb b) (abegin_bits b))) /\
      (forall env, erase rd env d = Some (d, env)) /\
      forall n, exists x, conv uc tc n sc = Some x /\ to_dv x = d /\ has_hole x = false /\
                          (p = PKey -> keyval x = true).
  Proof.
    unfold chunked_ok. destruct (chunked_data (abegin_bits b) body) as [data|] eqn:Hcd; [|discriminate].
    destruct (chunk_data (abegin_elem_bytes b) body 0 false []) as [data'|] eqn:Hck; [|discriminate].
    intro H. apply andb_true_iff in H as [He H]. apply bytes_eqb_eq in He. subst data'.
    destruct b as [t|mt|t ct]; [| |discriminate].
    - (* array *)
      assert (Hok : array_ok uc t data = true /\ (is_key p = true -> t = AT_String)).
      { destruct (is_key p).
        - apply N.eqb_eq in H. subst. split; [reflexivity|auto].
        - split; [exact H|discriminate]. }
      destruct Hok as [Hok Hkey].
      destruct (ok_types_facts t (array_ok_types t data Hok)) as [Hlt Hbits].
      exists data. cbn zeta. cbn [abegin_scalar abegin_dv].
      split; [reflexivity|]. split.
      { cbn [sem]. rewrite Hck. reflexivity. }
      split. { intro st. cbn [step begin_event]. rewrite Hlt. reflexivity. }
      split. { intro st. cbn [fire ccb set_chunk abegin_cb]. rewrite Hbits. reflexivity. }
      split. { intro env. apply (event_dv_erase (EArray t 0 data)). reflexivity. }
      intro n. destruct (array_conv uc tc t data n Hok) as [x [Hc [Hd Hh]]].
      exists x. split; [exact Hc|]. split; [exact Hd|]. split; [exact Hh|].
      intro Hp. subst p. rewrite (Hkey eq_refl) in Hc. cbn in Hc. inversion Hc; subst. reflexivity.
    - (* media *)
      apply andb_true_iff in H as [Hk Hmt]. apply negb_true_iff in Hk.
      exists data. cbn zeta. cbn [abegin_scalar abegin_dv].
      split; [reflexivity|]. split.
      { cbn [sem]. rewrite Hck. reflexivity. }
      split. { intro st. reflexivity. }
      split. { intro st. reflexivity. }
      split. { intro env. reflexivity. }
      intro n. eexists. split; [reflexivity|]. split; [reflexivity|]. split; [reflexivity|].
      intro Hp. subst p. discriminate.
  Qed.

  Lemma value_chunked b body : value_ok (TChunked b body).
  Proof.
    intros ids p ids' Hs mk st base d Hst Hk Hn Hnode Hnm Hft Hrdy Hp Hrt Hids Hcl Hsem Hfresh.
    cbn [supp] in Hs. destruct (chunked_ok uc p b body) eqn:Hl; [|discriminate]. inversion Hs; subst ids'.
    destruct (chunked_leaf p b body Hl) as [data Hcl0]. set (sc := abegin_scalar b data) in *.
    set (dd := abegin_dv b data) in *. cbn zeta in Hcl0. fold sc dd in Hcl0.
    destruct Hcl0 as [Hcd [Hsm [Hbeg [Hfire [Her Hconv]]]]].
    rewrite Hsm in Hsem. inversion Hsem; subst dd.
    set (st1 := set_chunk st data 0 false (abegin_cb b) (abegin_bits b)).
    destruct (Hconv (next st1)) as [x [Hc [Hd [Hh Hkv]]]].
    destruct (ready_put base (tobj st) x false Hrdy) as [s' [t' Hput]].
    destruct (scalar_arrival uc tc sc x mk base st1 s' t') as [st' [Hon [Hs' [Ht' [Hm' [Hp' Hrt']]]]]];
      try assumption.
    { apply (node_top_false mk base (TChunked b body) Hnode eq_refl). }
    { intros id Hid. destruct (Hfresh id Hid) as [_ Hf]. rewrite Hids in Hf. exact Hf. }
    exists st', x, (marked st). split.
    { cbn [flat]. rewrite (chunked_exec uc tc b body data st (Hbeg st) Hcd). rewrite Hfire. exact Hon. }
    split. { cbn [contb]. rewrite Hs', Ht'. exact Hput. }
    split. { exact Hm'. }
    split. { symmetry. exact Hids. }
    split. { exact Hcl. }
    split. { rewrite Hd. apply Her. }
    split. { exact Hh. }
    split. { split; [exact Hp'|]. rewrite Hrt'. exact Hrt. }
    exact Hkv.
  Qed.

  Lemma value_ref id : value_ok (TRef id).
  Proof.
    intros ids p ids' Hs mk st base d Hst Hk Hn Hnode Hnm Hft Hrdy Hp Hrt Hids Hcl Hsem Hfresh.
    cbn [supp] in Hs. destruct (is_key p) eqn:Hkp; [discriminate|].
    destruct (mem_id id ids) eqn:Hmem; [|discriminate]. inversion Hs; subst ids'.
    destruct mk as [mid|]; [exfalso; apply Hnm; discriminate|]. cbn [mkframes app] in Hst.
    assert (Hnt : top_is_ftop base = false).
    { destruct (top_is_ftop base) eqn:E; [|reflexivity]. rewrite (Hft eq_refl) in Hmem. discriminate. }
    rewrite Hids in Hmem. destruct (lookup_mem_id id (marked st) Hmem) as [v Hl].
    pose proof (lookup_clean id (marked st) v Hcl Hl) as Hh.
    destruct (ready_put base (tobj st) v false Hrdy) as [s' [t' Hput]].
    destruct base as [|fr r]; [discriminate|].
    destruct (ref_arrival uc tc id v fr r st s' t' Hst Hl Hh) as [st' [Hstep [Hs' [Ht' [Hm' [Hp' Hrt']]]]]].
    { destruct fr; try exact I. discriminate. }
    { exact Hput. }
    { destruct fr; try exact I. destruct want_value; [exact I|]. destruct rec; [exact I|].
      assert (Hpk : p = PKey) by (apply Hk; reflexivity). subst p. discriminate. }
    cbn [sem] in Hsem. inversion Hsem; subst d.
    exists st', v, (marked st). split.
    { cbn [flat exec]. rewrite Hstep. reflexivity. }
    split. { cbn [contb]. rewrite Hs', Ht'. exact Hput. }
    split. { cbn [mkentry app]. exact Hm'. }
    split. { symmetry. exact Hids. }
    split. { exact Hcl. }
    split. { cbn [erase]. rewrite lookup_env_data, Hl. reflexivity. }
    split. { exact Hh. }
    split. { split; [rewrite Hp'; exact Hp|rewrite Hrt'; exact Hrt]. }
    intro Hpk. subst p. discriminate.
  Qed.

  Lemma value_mark id t : value_ok t -> value_ok (TMark id t).
  Proof.
    intros IH ids p ids' Hs mk st base d Hst Hk Hn Hnode Hnm Hft Hrdy Hp Hrt Hids Hcl Hsem Hfresh.
    destruct mk as [mid|]; [exfalso; apply Hnm; discriminate|]. cbn [mkframes app] in Hst.
    cbn [supp] in Hs. destruct (mem_id id ids) eqn:Hfr0; [discriminate|].
    assert (Hshape : match t with TMark _ _ | TRef _ => False | _ => True end).
    { destruct t; try exact I; discriminate. }
    set (p' := if is_key p then PKey else PGen) in *.
    assert (Hs2 : match p, is_container t with
                  | PNodeVal, false => None
                  | _, _ => match supp uc tc rd ids p' t with
                            | Some ids1 => if mem_id id ids1 then None else Some (id :: ids1)
                            | None => None
                            end
                  end = Some ids').
    { destruct t; try contradiction; exact Hs. }
    clear Hs.
    assert (Hcont : node_top base = true -> is_container t = true).
    { intro Hnt. destruct base as [|fr r]; [discriminate|]. destruct fr; try discriminate.
      destruct children_mode; [unfold ready in Hrdy; discriminate|].
      assert (Hpn : p = PNodeVal) by (apply Hn; reflexivity). subst p.
      destruct (is_container t); [reflexivity|discriminate]. }
    assert (Hs3 : exists ids1, supp uc tc rd ids p' t = Some ids1 /\ mem_id id ids1 = false /\ ids' = id :: ids1).
    { destruct p, (is_container t) eqn:Ec; try discriminate;
        (destruct (supp uc tc rd ids p' t) as [ids1|]; [|discriminate];
         destruct (mem_id id ids1) eqn:Em; [discriminate|]; inversion Hs2; subst;
         exists ids1; auto). }
    destruct Hs3 as [ids1 [Hsup [Hfr1 Hids']]]. subst ids'.
    cbn [sem] in Hsem. destruct (sem t) as [d'|] eqn:Hsem'; [|discriminate]. inversion Hsem; subst d.
    set (st0 := set_stack st (FMarker id false :: stack st)).
    assert (A1 : stack st0 = mkframes (Some id) false ++ base) by (cbn; rewrite Hst; reflexivity).
    assert (A2 : pos_of base = PKey -> p' = PKey).
    { intro Hpk. subst p'. rewrite (Hk Hpk). reflexivity. }
    assert (A3 : Some id = None -> pos_of base = PNodeVal -> p' = PNodeVal) by discriminate.
    assert (A4 : Some id <> None -> node_top base = true -> is_container t = true) by (intros _; exact Hcont).
    assert (A5 : Some id <> None -> match t with TMark _ _ | TRef _ => False | _ => True end)
      by (intros _; exact Hshape).
    assert (A12 : forall id0, Some id = Some id0 -> mem_id id0 ids1 = false /\ mem_id id0 ids = false).
    { intros id0 Hid0. inversion Hid0; subst id0. split; assumption. }
    destruct (IH ids p' ids1 Hsup (Some id) st0 base d' A1 A2 A3 A4 A5 Hft Hrdy Hp Hrt Hids Hcl Hsem' A12)
      as [st' [v [m1 [Hex [Hput [Hm [Hf [Hc1 [Her [Hh [Hp' Hkv]]]]]]]]]]].
    exists st', v, ((id, v) :: m1). split.
    { cbn [flat exec step rbind]. exact Hex. }
    split.
    { cbn [contb]. exact Hput. }
    split. { cbn [mkentry app] in *. exact Hm. }
    split. { cbn [map fst]. rewrite Hf. reflexivity. }
    split. { constructor; [exact Hh|exact Hc1]. }
    split. { cbn [erase]. change (marked st0) with (marked st) in Her. rewrite Her. reflexivity. }
    split. { exact Hh. }
    split. { exact Hp'. }
    intro Hpk. apply Hkv. subst p. reflexivity.
  Qed.

  Lemma recv_end_slice above l below st :
    recv_end above (FSlice l) below st = notify_done (UList l) (set_stack st (tl (above ++ FSlice l :: below))).
  Proof. destruct below; reflexivity. Qed.

  Lemma recv_end_map above id kvs key w rc below st :
    recv_end above (FMap id kvs key w rc) below st =
    notify_done (UMap id kvs) (set_stack st (tl (above ++ FMap id kvs key w rc :: below))).
  Proof. destruct below; reflexivity. Qed.

  Lemma has_hole_list vs : Forall (fun v => has_hole v = false) vs -> existsb has_hole vs = false.
  Proof.
    induction 1 as [|v r Hv _ IH]; [reflexivity|]. cbn [existsb]. rewrite Hv, IH. reflexivity.
  Qed.

  (* value_ok without a marker in front *)
  Lemma use_value t : value_ok t ->
    forall ids p ids' st base d,
      supp uc tc rd ids p t = Some ids' -> stack st = base ->
      (pos_of base = PKey -> p = PKey) -> (pos_of base = PNodeVal -> p = PNodeVal) ->
      (top_is_ftop base = true -> ids = []) -> ready base (tobj st) = true ->
      (pending st = [] /\ rt_tab st = T) -> ids = map fst (marked st) -> env_clean (marked st) -> sem t = Some d ->
      exists st' v,
        exec uc tc st (flat t) = ROk st' /\
        put v (contb t) base (tobj st) = Some (stack st', tobj st') /\
        map fst (marked st') = ids' /\ env_clean (marked st') /\
        erase rd (env_data (marked st)) d = Some (to_dv v, env_data (marked st')) /\
        has_hole v = false /\ (pending st' = [] /\ rt_tab st' = T) /\ (p = PKey -> keyval v = true).
  Proof.
    intros H ids p ids' st base d Hs Hst Hk Hn Hft Hrdy [Hp Hrt] Hids Hcl Hsem.
    assert (A1 : stack st = mkframes None false ++ base) by exact Hst.
    assert (A3 : @None bytes = None -> pos_of base = PNodeVal -> p = PNodeVal) by (intros _; exact Hn).
    assert (A4 : @None bytes <> None -> node_top base = true -> is_container t = true) by (intro X; contradiction).
    assert (A5 : @None bytes <> None -> match t with TMark _ _ | TRef _ => False | _ => True end)
      by (intro X; contradiction).
    assert (A12 : forall id, @None bytes = Some id -> mem_id id ids' = false /\ mem_id id ids = false)
      by discriminate.
    destruct (H ids p ids' Hs None st base d A1 Hk A3 A4 A5 Hft Hrdy Hp Hrt Hids Hcl Hsem A12)
      as [st' [v [m1 [Hex [Hput [Hm [Hf [Hc1 [Her [Hh [Hp' Hkv]]]]]]]]]]].
    cbn [mkentry app] in Hm. subst m1.
    exists st', v. repeat split; try assumption; apply Hp'.
  Qed.

  Lemma elems_run l : Forall value_ok l ->
    forall ids ids' acc rest st ds,
      supp_list ids l = Some ids' ->
      stack st = FSlice acc :: rest ->
      (pending st = [] /\ rt_tab st = T) -> ids = map fst (marked st) -> env_clean (marked st) ->
      omap2 sem l = Some ds ->
      exists st' vs,
        exec uc tc st (flat_map flat l) = ROk st' /\
        stack st' = FSlice (acc ++ vs) :: rest /\ tobj st' = tobj st /\
        map fst (marked st') = ids' /\ env_clean (marked st') /\
        erase_list (erase rd) (env_data (marked st)) ds = Some (map to_dv vs, env_data (marked st')) /\
        Forall (fun v => has_hole v = false) vs /\ (pending st' = [] /\ rt_tab st' = T).
  Proof.
    induction 1 as [|x r Hx _ IH]; intros ids ids' acc rest st ds Hs Hst Hp Hids Hcl Hsem.
    - cbn [supp_list] in Hs. inversion Hs; subst ids'. cbn [omap2] in Hsem. inversion Hsem; subst ds.
      exists st, []. cbn [flat_map exec]. rewrite app_nil_r.
      repeat split; auto; apply Hp.
    - cbn [supp_list] in Hs. destruct (supp uc tc rd ids PGen x) as [ids1|] eqn:Hsx; [|discriminate].
      cbn [omap2] in Hsem. destruct (sem x) as [dx|] eqn:Hdx; [|discriminate].
      destruct (omap2 sem r) as [dr|] eqn:Hdr; [|discriminate]. inversion Hsem; subst ds.
      destruct (use_value x Hx ids PGen ids1 st (FSlice acc :: rest) dx Hsx Hst) as
          [st1 [v [Hex [Hput [Hf [Hc1 [Her [Hh [Hp1 _]]]]]]]]]; try assumption; try discriminate; try reflexivity.
      cbn [put] in Hput. inversion Hput as [[Hs1 Ht1]].
      destruct (IH ids1 ids' (acc ++ [v]) rest st1 dr Hs (eq_sym Hs1) Hp1 (eq_sym Hf) Hc1 eq_refl) as
          [st2 [vs [Hex2 [Hs2 [Ht2 [Hf2 [Hc2 [Her2 [Hh2 Hp2]]]]]]]]].
      exists st2, (v :: vs). split.
      { cbn [flat_map]. rewrite (exec_app_ok uc tc _ _ st st1 Hex). exact Hex2. }
      split. { rewrite Hs2, <- app_assoc. reflexivity. }
      split. { rewrite Ht2. symmetry. exact Ht1. }
      split. { exact Hf2. }
      split. { exact Hc2. }
      split. { cbn [erase_list]. rewrite Her. rewrite Her2. reflexivity. }
      split. { constructor; assumption. }
      exact Hp2.
  Qed.

  Lemma fresh_after mk (ids ids' : list bytes) :
    (forall id, mk = Some id -> mem_id id ids' = false /\ mem_id id ids = false) ->
    forall (m : list (bytes * uval)), map fst m = ids' -> forall id, mk = Some id -> mem_id id (map fst m) = false.
  Proof. intros H m Hm id Hid. rewrite Hm. apply (H id Hid). Qed.

  Lemma value_list l : Forall value_ok l -> value_ok (TList l).
  Proof.
    intros IHl ids p ids' Hs mk st base d Hst Hk Hn Hnode Hnm Hft Hrdy Hp Hrt Hids Hcl Hsem Hfresh.
    rewrite supp_TList in Hs. destruct (is_key p) eqn:Hkp; [discriminate|].
    cbn [sem] in Hsem. destruct (omap2 sem l) as [ds|] eqn:Hds; [|discriminate]. inversion Hsem; subst d.
    destruct base as [|fr r]; [discriminate|].
    destruct (begin_container uc tc EList KList mk fr r st eq_refl Hst Hrdy)
      as [st1 [Hb [Hs1 [Ht1 [Hm1 [Hp1 Hrt1]]]]]].
    cbn [new_frame] in Hs1.
    set (rest := mkframes mk true ++ keyed fr :: r) in *.
    assert (Hq1 : pending st1 = [] /\ rt_tab st1 = T) by (split; congruence).
    destruct (elems_run l IHl ids ids' [] rest st1 ds Hs Hs1 Hq1)
      as [st2 [vs [Hex2 [Hs2 [Ht2 [Hf2 [Hc2 [Her2 [Hh2 [Hp2 Hrt2]]]]]]]]]]; try congruence.
    set (st3 := set_stack st2 rest).
    assert (Hhl : has_hole (UList vs) = false) by (apply has_hole_list; exact Hh2).
    destruct (ready_put (fr :: r) (tobj st) (UList vs) true Hrdy) as [s' [t' Hput]].
    destruct (finish_container (UList vs) mk (keyed fr :: r) st3 s' t') as [st4 [Hnd [Hs4 [Ht4 [Hm4 [Hp4 Hrt4]]]]]];
      try assumption; try reflexivity.
    { change (tobj st3) with (tobj st2). rewrite Ht2, Ht1, putc_keyed by exact Hrdy. exact Hput. }
    { apply (fresh_after mk ids ids' Hfresh). exact Hf2. }
    exists st4, (UList vs), (marked st2). split.
    { cbn [flat exec]. rewrite Hb. cbn [rbind].
      rewrite (exec_app_ok uc tc _ _ st1 st2 Hex2). cbn [exec step]. rewrite Hs2.
      rewrite recv_end_slice. cbn [app tl]. fold st3. rewrite Hnd. reflexivity. }
    split. { cbn [contb]. rewrite Hs4, Ht4. exact Hput. }
    split. { exact Hm4. }
    split. { exact Hf2. }
    split. { exact Hc2. }
    split. { cbn [erase to_dv]. rewrite Hm1 in Her2. rewrite Her2. reflexivity. }
    split. { exact Hhl. }
    split. { split; [exact Hp4|]. rewrite Hrt4. exact Hrt2. }
    intro Hpk. subst p. discriminate.
  Qed.

  Lemma value_node v ch : value_ok v -> Forall value_ok ch -> value_ok (TNode v ch).
  Proof.
    intros IHv IHch ids p ids' Hs mk st base d Hst Hk Hn Hnode Hnm Hft Hrdy Hp Hrt Hids Hcl Hsem Hfresh.
    rewrite supp_TNode in Hs. destruct (is_key p) eqn:Hkp; [discriminate|].
    destruct (supp uc tc rd ids PNodeVal v) as [ids1|] eqn:Hsv; [|discriminate].
    cbn [sem] in Hsem. destruct (sem v) as [dvv|] eqn:Hdv; [|discriminate].
    destruct (omap2 sem ch) as [ds|] eqn:Hds; [|discriminate]. inversion Hsem; subst d.
    destruct base as [|fr r]; [discriminate|].
    destruct (begin_container uc tc ENode KNode mk fr r st eq_refl Hst Hrdy)
      as [st1 [Hb [Hs1 [Ht1 [Hm1 [Hp1 Hrt1]]]]]].
    cbn [new_frame] in Hs1.
    set (rest := mkframes mk true ++ keyed fr :: r) in *.
    assert (Hq1 : pending st1 = [] /\ rt_tab st1 = T) by (split; congruence).
    (* the node's value *)
    destruct (use_value v IHv ids PNodeVal ids1 st1 (FNode false UNil :: rest) dvv Hsv Hs1)
      as [st2 [xv [Hex2 [Hput2 [Hf2 [Hc2 [Her2 [Hh2 [Hq2 _]]]]]]]]];
      try congruence; try reflexivity; try discriminate; try assumption.
    cbn [put] in Hput2. inversion Hput2 as [[Hs2 Ht2]].
    (* the children *)
    destruct (elems_run ch IHch ids1 ids' [] (FNode true xv :: rest) st2 ds Hs (eq_sym Hs2) Hq2)
      as [st3 [vs [Hex3 [Hs3 [Ht3 [Hf3 [Hc3 [Her3 [Hh3 [Hp3 Hrt3]]]]]]]]]]; try congruence.
    set (st4 := set_stack st3 rest).
    assert (Hhl : has_hole (UNode xv vs) = false).
    { cbn [has_hole]. rewrite Hh2, (has_hole_list vs Hh3). reflexivity. }
    destruct (ready_put (fr :: r) (tobj st) (UNode xv vs) true Hrdy) as [s' [t' Hput]].
    destruct (finish_container (UNode xv vs) mk (keyed fr :: r) st4 s' t') as [st5 [Hnd [Hs5 [Ht5 [Hm5 [Hp5 Hrt5]]]]]];
      try assumption; try reflexivity.
    { change (tobj st4) with (tobj st3). rewrite Ht3, <- Ht2, Ht1, putc_keyed by exact Hrdy. exact Hput. }
    { apply (fresh_after mk ids ids' Hfresh). exact Hf3. }
    exists st5, (UNode xv vs), (marked st3). split.
    { cbn [flat exec]. rewrite Hb. cbn [rbind].
      rewrite (exec_app_ok uc tc _ _ st1 st2 Hex2).
      rewrite (exec_app_ok uc tc _ _ st2 st3 Hex3). cbn [exec step]. rewrite Hs3.
      rewrite recv_end_slice. cbn [app tl]. unfold notify_done. cbn [stack set_stack length done_to].
      change (set_stack (set_stack st3 (FNode true xv :: rest)) rest) with st4.
      unfold notify_done in Hnd. change (stack st4) with rest in Hnd. rewrite Hnd. reflexivity. }
    split. { cbn [contb]. rewrite Hs5, Ht5. exact Hput. }
    split. { exact Hm5. }
    split. { exact Hf3. }
    split. { exact Hc3. }
    split. { cbn [erase to_dv]. rewrite Hm1 in Her2. rewrite Her2, Her3. reflexivity. }
    split. { exact Hhl. }
    split. { split; [exact Hp5|]. rewrite Hrt5. exact Hrt3. }
    intro Hpk. subst p. discriminate.
  Qed.

  (* ---- maps ---- *)
  Lemma assoc_set_fresh k x kvs :
    (forall k' x', In (k', x') kvs -> key_eqb k' k = false) -> assoc_set k x kvs = kvs ++ [(k, x)].
  Proof.
    induction kvs as [|[k' x'] r IH]; intro H; cbn [assoc_set app].
    - reflexivity.
    - rewrite (H k' x' (or_introl eq_refl)). rewrite IH; [reflexivity|].
      intros k2 x2 Hin. apply (H k2 x2). right. exact Hin.
  Qed.

  Lemma dkeys_distinct_mid l1 x l2 :
    dkeys_distinct (l1 ++ x :: l2) = true -> forall a, In a l1 -> dkey_eqb a x = false.
  Proof.
    induction l1 as [|y r IH]; intros H a Hin; [contradiction|].
    cbn [app dkeys_distinct] in H. apply andb_true_iff in H as [Hy Hr].
    destruct Hin as [Ha|Hin].
    - subst y. apply negb_true_iff in Hy. rewrite existsb_app in Hy.
      apply orb_false_iff in Hy as [_ Hy]. cbn [existsb] in Hy. apply orb_false_iff in Hy as [Hy _]. exact Hy.
    - apply (IH Hr a Hin).
  Qed.

  Lemma key_leaf_erase k ids ids1 dk :
    match k with TLeaf _ | TChunked _ _ => True | _ => False end ->
    supp uc tc rd ids PKey k = Some ids1 -> sem k = Some dk ->
    forall env, erase rd env dk = Some (dk, env).
  Proof.
    destruct k; try contradiction; intros _ Hs Hsem env.
    - cbn [sem] in Hsem. apply (event_dv_erase e dk env Hsem).
    - cbn [supp] in Hs. destruct (chunked_ok uc PKey b body) eqn:Hl; [|discriminate].
      destruct (chunked_leaf PKey b body Hl) as [data [_ [Hsm [_ [_ [Her _]]]]]]. set (dd := abegin_dv b data) in *.
      rewrite Hsm in Hsem. inversion Hsem; subst dd. apply Her.
  Qed.

  Lemma supp_key_shape k ids ids1 :
    supp uc tc rd ids PKey k = Some ids1 ->
    match k with
    | TLeaf _ | TChunked _ _ => True
    | TMark _ (TLeaf _) | TMark _ (TChunked _ _) => True
    | _ => False
    end.
  Proof.
    destruct k; try exact (fun _ => I); try (cbn [supp is_key]; discriminate).
    cbn [supp is_key]. destruct (mem_id id ids); [discriminate|].
    destruct k; try exact (fun _ => I); try discriminate;
      try (cbn [supp is_key is_container]; discriminate).
  Qed.

  Lemma key_erase k ids ids1 dk kd :
    supp uc tc rd ids PKey k = Some ids1 -> sem k = Some dk -> key_data k = Some kd ->
    forall env d' e, erase rd env dk = Some (d', e) -> d' = kd.
  Proof.
    intros Hs Hsem Hkd env d' e Her. pose proof (supp_key_shape k ids ids1 Hs) as Hshape.
    destruct k; try contradiction.
    - cbn [key_data] in Hkd. rewrite Hsem in Hkd. inversion Hkd; subst kd.
      rewrite (key_leaf_erase (TLeaf e0) ids ids1 dk I Hs Hsem env) in Her. inversion Her; reflexivity.
    - cbn [key_data] in Hkd. rewrite Hsem in Hkd. inversion Hkd; subst kd.
      rewrite (key_leaf_erase (TChunked b body) ids ids1 dk I Hs Hsem env) in Her. inversion Her; reflexivity.
    - (* marked key *)
      cbn [key_data] in Hkd. cbn [sem] in Hsem. rewrite Hkd in Hsem. inversion Hsem; subst dk.
      cbn [supp is_key] in Hs. destruct (mem_id id ids); [discriminate|].
      assert (Hin : exists ids2, supp uc tc rd ids PKey k = Some ids2).
      { destruct k; try contradiction;
          (destruct (supp uc tc rd ids PKey _) as [ids2|] eqn:E; [exists ids2; reflexivity|discriminate]). }
      destruct Hin as [ids2 Hin].
      assert (Hlf : match k with TLeaf _ | TChunked _ _ => True | _ => False end)
        by (destruct k; try contradiction; exact I).
      cbn [erase] in Her. rewrite (key_leaf_erase k ids ids2 kd Hlf Hin Hkd env) in Her.
      inversion Her; reflexivity.
  Qed.

  Definition sem_kv (kv : dt * dt) : option (dv * dv) :=
    match sem (fst kv), sem (snd kv) with Some a, Some b => Some (a, b) | _, _ => None end.
  Definition kv_dv (kx : uval * uval) : dv * dv := (to_dv (fst kx), to_dv (snd kx)).

  Lemma kvs_run kvs : Forall (fun kv => value_ok (fst kv) /\ value_ok (snd kv)) kvs ->
    forall ids ids' id acc key0 rest st dkvs kds,
      supp_kvs ids kvs = Some ids' ->
      stack st = FMap id acc key0 false None :: rest ->
      (pending st = [] /\ rt_tab st = T) -> ids = map fst (marked st) -> env_clean (marked st) ->
      omap2 sem_kv kvs = Some dkvs ->
      omap2 key_data (map fst kvs) = Some kds ->
      dkeys_distinct (map (fun kx => to_dv (fst kx)) acc ++ kds) = true ->
      Forall (fun kx => keyval (fst kx) = true) acc ->
      exists st' es key1,
        exec uc tc st (flat_map (fun kv => flat (fst kv) ++ flat (snd kv)) kvs) = ROk st' /\
        stack st' = FMap id (acc ++ es) key1 false None :: rest /\ tobj st' = tobj st /\
        map fst (marked st') = ids' /\ env_clean (marked st') /\
        erase_kvs (env_data (marked st)) dkvs = Some (map kv_dv es, env_data (marked st')) /\
        Forall (fun kx => has_hole (fst kx) = false /\ has_hole (snd kx) = false) es /\
        (pending st' = [] /\ rt_tab st' = T).
  Proof.
    induction 1 as [|[k v] r [Hk Hv] _ IH];
      intros ids ids' id acc key0 rest st dkvs kds Hs Hst Hp Hids Hcl Hsem Hkds Hdis Hkv.
    - cbn [supp_kvs] in Hs. inversion Hs; subst ids'. cbn [omap2] in Hsem. inversion Hsem; subst dkvs.
      exists st, [], key0. cbn [flat_map exec]. rewrite app_nil_r. repeat split; auto; apply Hp.
    - cbn [fst snd] in Hk, Hv.
      cbn [supp_kvs] in Hs. destruct (supp uc tc rd ids PKey k) as [ids1|] eqn:Hsk; [|discriminate].
      destruct (supp uc tc rd ids1 PGen v) as [ids2|] eqn:Hsv; [|discriminate].
      cbn [omap2] in Hsem. unfold sem_kv at 1 in Hsem. cbn [fst snd] in Hsem.
      destruct (sem k) as [dk|] eqn:Hdk; [|discriminate]. destruct (sem v) as [dvv|] eqn:Hdv; [|discriminate].
      destruct (omap2 sem_kv r) as [dr|] eqn:Hdr; [|discriminate]. inversion Hsem; subst dkvs.
      cbn [map fst omap2] in Hkds. destruct (key_data k) as [kd|] eqn:Hkd; [|discriminate].
      destruct (omap2 key_data (map fst r)) as [kdr|] eqn:Hkdr; [|discriminate]. inversion Hkds; subst kds.
      (* the key *)
      destruct (use_value k Hk ids PKey ids1 st (FMap id acc key0 false None :: rest) dk Hsk Hst)
        as [st1 [xk [Hex1 [Hput1 [Hf1 [Hc1 [Her1 [Hh1 [Hp1 Hkv1]]]]]]]]];
        try assumption; try reflexivity; try discriminate.
      specialize (Hkv1 eq_refl).
      assert (Hs1 : stack st1 = FMap id acc (Some xk) true None :: rest /\ tobj st1 = tobj st).
      { cbn [put] in Hput1. destruct key0; inversion Hput1; auto. }
      destruct Hs1 as [Hs1 Ht1].
      pose proof (key_erase k ids ids1 dk kd Hsk Hdk Hkd _ _ _ Her1) as Hxk.
      (* the value *)
      pose proof (keyval_hashable xk Hkv1) as Hhash.
      destruct (use_value v Hv ids1 PGen ids2 st1 (FMap id acc (Some xk) true None :: rest) dvv Hsv Hs1)
        as [st2 [xv [Hex2 [Hput2 [Hf2 [Hc2 [Her2 [Hh2 [Hp2 _]]]]]]]]];
        try assumption; try reflexivity; try discriminate; try congruence.
      { unfold ready. cbn [put]. rewrite Hhash. reflexivity. }
      cbn [put] in Hput2. rewrite Hhash in Hput2. inversion Hput2 as [[Hs2 Ht2]].
      assert (Hset : assoc_set xk xv acc = acc ++ [(xk, xv)]).
      { apply assoc_set_fresh. intros k' x' Hin.
        destruct (key_eqb k' xk) eqn:E; [|reflexivity]. exfalso.
        assert (Hk' : keyval k' = true).
        { rewrite Forall_forall in Hkv. apply (Hkv (k', x') Hin). }
        pose proof (keyval_eq k' xk Hk' Hkv1 E) as Hd.
        rewrite Hxk in Hd.
        assert (Hd' : dkey_eqb (to_dv k') kd = false).
        { apply (dkeys_distinct_mid _ kd kdr Hdis).
          apply in_map_iff. exists (k', x'). split; [reflexivity|exact Hin]. }
        congruence. }
      rewrite Hset in Hs2.
      destruct (IH ids2 ids' id (acc ++ [(xk, xv)]) (Some xk) rest st2 dr kdr Hs (eq_sym Hs2) Hp2 (eq_sym Hf2) Hc2
                   eq_refl eq_refl)
        as [st3 [es [key1 [Hex3 [Hs3 [Ht3 [Hf3 [Hc3 [Her3 [Hh3 Hp3]]]]]]]]]].
      { rewrite map_app. cbn [map fst]. rewrite Hxk, <- app_assoc. exact Hdis. }
      { apply Forall_app. split; [exact Hkv|]. constructor; [exact Hkv1|constructor]. }
      exists st3, ((xk, xv) :: es), key1. split.
      { cbn [flat_map fst snd]. rewrite <- app_assoc.
        rewrite (exec_app_ok uc tc _ _ st st1 Hex1).
        rewrite (exec_app_ok uc tc _ _ st1 st2 Hex2). exact Hex3. }
      split. { rewrite Hs3, <- app_assoc. reflexivity. }
      split. { rewrite Ht3, <- Ht2. exact Ht1. }
      split. { exact Hf3. }
      split. { exact Hc3. }
      split. { cbn [erase_kvs]. rewrite Her1, Her2, Her3. reflexivity. }
      split. { constructor; [split; assumption|exact Hh3]. }
      exact Hp3.
  Qed.

  Lemma omap2_sem_kv kvs :
    omap2 (fun '(k, v) => match sem k, sem v with Some a, Some b => Some (a, b) | _, _ => None end) kvs
    = omap2 sem_kv kvs.
  Proof.
    induction kvs as [|[k v] r IH]; [reflexivity|]. cbn [omap2]. unfold sem_kv at 1. cbn [fst snd].
    rewrite IH. reflexivity.
  Qed.

  Lemma flat_map_kv kvs :
    flat_map (fun '(k, v) => flat k ++ flat v) kvs = flat_map (fun kv : dt * dt => flat (fst kv) ++ flat (snd kv)) kvs.
  Proof. induction kvs as [|[k v] r IH]; [reflexivity|]. cbn [flat_map fst snd]. rewrite IH. reflexivity. Qed.

  Lemma has_hole_kvs es :
    Forall (fun kx : uval * uval => has_hole (fst kx) = false /\ has_hole (snd kx) = false) es ->
    existsb (fun '(a, b) => has_hole a || has_hole b) es = false.
  Proof.
    induction 1 as [|[a b] r [Ha Hb] _ IH]; [reflexivity|]. cbn [existsb fst snd] in *.
    rewrite Ha, Hb, IH. reflexivity.
  Qed.

  Lemma map_kv_dv es : map (fun '(k, x) => (to_dv k, to_dv x)) es = map kv_dv es.
  Proof. induction es as [|[a b] r IH]; [reflexivity|]. cbn [map]. rewrite IH. reflexivity. Qed.

  Lemma value_map kvs : Forall (fun kv => value_ok (fst kv) /\ value_ok (snd kv)) kvs -> value_ok (TMap kvs).
  Proof.
    intros IHl ids p ids' Hs mk st base d Hst Hk Hn Hnode Hnm Hft Hrdy Hp Hrt Hids Hcl Hsem Hfresh.
    rewrite supp_TMap in Hs. destruct (is_key p) eqn:Hkp; [discriminate|].
    destruct (omap2 key_data (map fst kvs)) as [kds|] eqn:Hkds; [|discriminate].
    destruct (dkeys_distinct kds) eqn:Hdis; [|discriminate]. cbn [negb] in Hs.
    cbn [sem] in Hsem. rewrite omap2_sem_kv in Hsem.
    destruct (omap2 sem_kv kvs) as [ds|] eqn:Hds; [|discriminate]. inversion Hsem; subst d.
    destruct base as [|fr r]; [discriminate|].
    destruct (begin_container uc tc EMap KMap mk fr r st eq_refl Hst Hrdy)
      as [st1 [Hb [Hs1 [Ht1 [Hm1 [Hp1 Hrt1]]]]]].
    cbn [new_frame] in Hs1.
    set (rest := mkframes mk true ++ keyed fr :: r) in *.
    assert (Hq1 : pending st1 = [] /\ rt_tab st1 = T) by (split; congruence).
    assert (Hids' : ids = map fst (marked st1)) by congruence.
    assert (Hcl' : env_clean (marked st1)) by (rewrite Hm1; exact Hcl).
    destruct (kvs_run kvs IHl ids ids' (next st + 1) [] None rest st1 ds kds Hs Hs1 Hq1 Hids' Hcl' Hds Hkds
                      Hdis (Forall_nil _))
      as [st2 [es [key1 [Hex2 [Hs2 [Ht2 [Hf2 [Hc2 [Her2 [Hh2 [Hp2 Hrt2]]]]]]]]]]].
    cbn [app] in Hs2.
    set (st3 := set_stack st2 rest).
    set (mv := UMap (next st + 1) es).
    assert (Hhl : has_hole mv = false) by (apply has_hole_kvs; exact Hh2).
    destruct (ready_put (fr :: r) (tobj st) mv true Hrdy) as [s' [t' Hput]].
    destruct (finish_container mv mk (keyed fr :: r) st3 s' t') as [st4 [Hnd [Hs4 [Ht4 [Hm4 [Hp4 Hrt4]]]]]];
      try assumption; try reflexivity.
    { change (tobj st3) with (tobj st2). rewrite Ht2, Ht1, putc_keyed by exact Hrdy. exact Hput. }
    { apply (fresh_after mk ids ids' Hfresh). exact Hf2. }
    exists st4, mv, (marked st2). split.
    { cbn [flat exec]. rewrite Hb. cbn [rbind]. rewrite flat_map_kv.
      rewrite (exec_app_ok uc tc _ _ st1 st2 Hex2). cbn [exec step]. rewrite Hs2.
      rewrite recv_end_map. cbn [app tl]. fold st3. fold mv. rewrite Hnd. reflexivity. }
    split. { cbn [contb]. rewrite Hs4, Ht4. exact Hput. }
    split. { exact Hm4. }
    split. { exact Hf2. }
    split. { exact Hc2. }
    split. { rewrite erase_DMap. unfold mv. cbn [to_dv]. rewrite Hm1 in Her2. rewrite Her2, map_kv_dv. reflexivity. }
    split. { exact Hhl. }
    split. { split; [exact Hp4|]. rewrite Hrt4. exact Hrt2. }
    intro Hpk. subst p. discriminate.
  Qed.

  (* ---- records ---- *)
  Lemma supp_TRecord ids p name vals :
    supp uc tc rd ids p (TRecord name vals) =
    if is_key p then None
    else match tab_lookup name rd with
         | Some kds => if (length vals =? length kds)%nat then supp_list ids vals else None
         | None => None
         end.
  Proof. reflexivity. Qed.

  Lemma rec_key_app kdone sc krem k :
    rkey sc = Some k -> rec_key (kdone ++ sc :: krem) (length kdone) = Some k.
  Proof.
    intro H. unfold rec_key. rewrite nth_error_app2 by lia. rewrite Nat.sub_diag. cbn [nth_error]. exact H.
  Qed.

  Lemma rec_elems_run l : Forall value_ok l ->
    forall ids ids' id acc key0 kdone krem rest st ds kdr,
      supp_list ids l = Some ids' ->
      stack st = FMap id acc key0 false (Some (kdone ++ krem, length kdone)) :: rest ->
      (pending st = [] /\ rt_tab st = T) -> ids = map fst (marked st) -> env_clean (marked st) ->
      omap2 sem l = Some ds ->
      Forall2 key_rel krem kdr -> length l = length kdr ->
      dkeys_distinct (map (fun kx => to_dv (fst kx)) acc ++ kdr) = true ->
      Forall (fun kx => keyval (fst kx) = true) acc ->
      exists st' es vs key1,
        exec uc tc st (flat_map flat l) = ROk st' /\
        stack st' = FMap id (acc ++ es) key1 false (Some (kdone ++ krem, (length kdone + length l)%nat)) :: rest /\
        tobj st' = tobj st /\ map fst (marked st') = ids' /\ env_clean (marked st') /\
        erase_list (erase rd) (env_data (marked st)) ds = Some (map to_dv vs, env_data (marked st')) /\
        map kv_dv es = zip_kv kdr (map to_dv vs) /\
        Forall (fun kx => has_hole (fst kx) = false /\ has_hole (snd kx) = false) es /\
        (pending st' = [] /\ rt_tab st' = T).
  Proof.
    induction 1 as [|x r Hx _ IH];
      intros ids ids' id acc key0 kdone krem rest st ds kdr Hs Hst Hq Hids Hcl Hsem Hrel Hlen Hdis Hkv.
    - cbn [supp_list] in Hs. inversion Hs; subst ids'. cbn [omap2] in Hsem. inversion Hsem; subst ds.
      destruct kdr; [|discriminate].
      exists st, [], [], key0. cbn [flat_map exec length]. rewrite app_nil_r, Nat.add_0_r.
      repeat split; auto; apply Hq.
    - cbn [supp_list] in Hs. destruct (supp uc tc rd ids PGen x) as [ids1|] eqn:Hsx; [|discriminate].
      cbn [omap2] in Hsem. destruct (sem x) as [dx|] eqn:Hdx; [|discriminate].
      destruct (omap2 sem r) as [dr|] eqn:Hdr; [|discriminate]. inversion Hsem; subst ds.
      destruct kdr as [|kd kdr']; [discriminate|]. cbn [length] in Hlen. injection Hlen as Hlen.
      inversion Hrel as [|sc kd0 krem' kdr0 [k [Hrk Hkd]] Hrel' E1 E2]; subst krem kd0 kdr0.
      pose proof (rec_key_app kdone sc krem' k Hrk) as Hreck.
      pose proof (rkey_keyval sc k Hrk) as Hkk.
      destruct (use_value x Hx ids PGen ids1 st _ dx Hsx Hst)
        as [st1 [v [Hex [Hput [Hf [Hc1 [Her [Hh [Hq1 _]]]]]]]]];
        try assumption; try discriminate.
      { unfold ready. cbn [put]. rewrite Hreck. reflexivity. }
      cbn [put] in Hput. rewrite Hreck in Hput. inversion Hput as [[Hs1 Ht1]].
      assert (Hset : assoc_set k v acc = acc ++ [(k, v)]).
      { apply assoc_set_fresh. intros k' x' Hin.
        destruct (key_eqb k' k) eqn:E; [|reflexivity]. exfalso.
        assert (Hk' : keyval k' = true).
        { rewrite Forall_forall in Hkv. apply (Hkv (k', x') Hin). }
        pose proof (keyval_eq k' k Hk' Hkk E) as Hd. rewrite Hkd in Hd.
        assert (Hd' : dkey_eqb (to_dv k') kd = false).
        { apply (dkeys_distinct_mid _ kd kdr' Hdis).
          apply in_map_iff. exists (k', x'). split; [reflexivity|exact Hin]. }
        congruence. }
      rewrite Hset in Hs1.
      assert (Hre : kdone ++ sc :: krem' = (kdone ++ [sc]) ++ krem') by (rewrite <- app_assoc; reflexivity).
      assert (Hle : S (length kdone) = length (kdone ++ [sc])) by (rewrite app_length; cbn; lia).
      rewrite Hre, Hle in Hs1.
      destruct (IH ids1 ids' id (acc ++ [(k, v)]) (Some k) (kdone ++ [sc]) krem' rest st1 dr kdr' Hs (eq_sym Hs1) Hq1
                   (eq_sym Hf) Hc1 eq_refl Hrel' Hlen)
        as [st2 [es [vs [key1 [Hex2 [Hs2 [Ht2 [Hf2 [Hc2 [Her2 [Hz [Hh2 Hq2]]]]]]]]]]]].
      { rewrite map_app. cbn [map fst]. rewrite Hkd, <- app_assoc. exact Hdis. }
      { apply Forall_app. split; [exact Hkv|]. constructor; [exact Hkk|constructor]. }
      exists st2, ((k, v) :: es), (v :: vs), key1. split.
      { cbn [flat_map]. rewrite (exec_app_ok uc tc _ _ st st1 Hex). exact Hex2. }
      split. { rewrite Hs2, <- app_assoc, <- Hre, <- Hle. cbn [length app]. f_equal. f_equal. f_equal. f_equal. lia. }
      split. { rewrite Ht2. symmetry. exact Ht1. }
      split. { exact Hf2. }
      split. { exact Hc2. }
      split. { cbn [erase_list]. rewrite Her, Her2. reflexivity. }
      split. { cbn [map zip_kv]. rewrite <- Hz. unfold kv_dv at 1. cbn [fst snd]. rewrite Hkd. reflexivity. }
      split. { constructor; [split; [apply keyval_no_hole; exact Hkk|exact Hh]|exact Hh2]. }
      exact Hq2.
  Qed.

  Lemma value_record name vals : Forall value_ok vals -> value_ok (TRecord name vals).
  Proof.
    intros IHl ids p ids' Hs mk st base d Hst Hk Hn Hnode Hnm Hft Hrdy Hp Hrt Hids Hcl Hsem Hfresh.
    rewrite supp_TRecord in Hs. destruct (is_key p) eqn:Hkp; [discriminate|].
    destruct (tab_lookup name rd) as [kds|] eqn:Hlk; [|discriminate].
    destruct (length vals =? length kds)%nat eqn:Hlen; [|discriminate]. apply Nat.eqb_eq in Hlen.
    destruct (HT name kds Hlk) as [Hrel Hdis].
    cbn [sem] in Hsem. destruct (omap2 sem vals) as [ds|] eqn:Hds; [|discriminate]. inversion Hsem; subst d.
    destruct base as [|fr r]; [discriminate|].
    set (rest := mkframes mk true ++ keyed fr :: r).
    set (keys := rt_keys_of T name) in *.
    set (st1 := set_stack (bump (bump st)) (FMap (next st + 1) [] None false (Some (keys, O)) :: rest)).
    assert (Hb : step uc tc st (ERecord name) = ROk st1).
    { cbn [step]. rewrite Hrt. fold (rt_keys_of T name). fold keys. rewrite Hst. unfold st1, rest.
      destruct mk as [mid|]; cbn [mkframes app].
      - rewrite recv_begin_marker, (recv_begin_ready uc tc KMap _ fr r r st (tobj st) Hrdy). reflexivity.
      - rewrite (recv_begin_ready uc tc KMap _ fr r r st (tobj st) Hrdy). reflexivity. }
    assert (Hq1 : pending st1 = [] /\ rt_tab st1 = T) by (split; [exact Hp|exact Hrt]).
    destruct (rec_elems_run vals IHl ids ids' (next st + 1) [] None [] keys rest st1 ds kds Hs eq_refl Hq1 Hids Hcl
                            Hds Hrel Hlen Hdis (Forall_nil _))
      as [st2 [es [vs [key1 [Hex2 [Hs2 [Ht2 [Hf2 [Hc2 [Her2 [Hz [Hh2 [Hp2 Hrt2]]]]]]]]]]]]].
    cbn [app length] in Hs2.
    set (st3 := set_stack st2 rest).
    set (mv := UMap (next st + 1) es).
    assert (Hhl : has_hole mv = false) by (apply has_hole_kvs; exact Hh2).
    destruct (ready_put (fr :: r) (tobj st) mv true Hrdy) as [s' [t' Hput]].
    destruct (finish_container mv mk (keyed fr :: r) st3 s' t') as [st4 [Hnd [Hs4 [Ht4 [Hm4 [Hp4 Hrt4]]]]]];
      try assumption; try reflexivity.
    { change (tobj st3) with (tobj st2). rewrite Ht2. change (tobj st1) with (tobj st).
      rewrite putc_keyed by exact Hrdy. exact Hput. }
    { apply (fresh_after mk ids ids' Hfresh). exact Hf2. }
    exists st4, mv, (marked st2). split.
    { cbn [flat exec]. rewrite Hb. cbn [rbind].
      rewrite (exec_app_ok uc tc _ _ st1 st2 Hex2). cbn [exec step]. rewrite Hs2.
      rewrite recv_end_map. cbn [app tl]. fold st3. fold mv. rewrite Hnd. reflexivity. }
    split. { cbn [contb]. rewrite Hs4, Ht4. exact Hput. }
    split. { exact Hm4. }
    split. { exact Hf2. }
    split. { exact Hc2. }
    split. { cbn [erase]. rewrite Hlk. change (marked st1) with (marked st) in Her2. rewrite Her2.
             unfold mv. cbn [to_dv]. rewrite map_kv_dv, Hz. reflexivity. }
    split. { exact Hhl. }
    split. { split; [exact Hp4|]. rewrite Hrt4. exact Hrt2. }
    intro Hpk. subst p. discriminate.
  Qed.

  (* every tree: unsupported constructs make [supp] fail, so nothing is claimed about them *)
  Theorem all_values t : value_ok t.
  Proof.
    induction t using dt_ind2.
    - apply value_leaf.
    - apply value_chunked.
    - apply value_list. assumption.
    - apply value_map. assumption.
    - apply value_node; assumption.
    - intros ids p ids' Hs. discriminate.
    - apply value_record. assumption.
    - apply value_mark. assumption.
    - apply value_ref.
  Qed.
End Main.

(* ------------------------------------------------------------------ *)
(* Induction on values                                                  *)
(* ------------------------------------------------------------------ *)

Section UvalInd.
  Variable P : uval -> Prop.
  Hypothesis Hscalar : forall v, match v with UList _ | UMap _ _ | UNode _ _ | UEdge _ _ _ => False | _ => True end -> P v.
  Hypothesis Hlist : forall l, Forall P l -> P (UList l).
  Hypothesis Hmap : forall id kvs, Forall (fun kx => P (fst kx) /\ P (snd kx)) kvs -> P (UMap id kvs).
  Hypothesis Hnode : forall a ch, P a -> Forall P ch -> P (UNode a ch).
  Hypothesis Hedge : forall a b c, P a -> P b -> P c -> P (UEdge a b c).

  Fixpoint uval_ind2 (v : uval) : P v :=
    let all := fix all (l : list uval) : Forall P l :=
      match l with
      | [] => Forall_nil P
      | x :: r => Forall_cons x (uval_ind2 x) (all r)
      end in
    match v with
    | UList l => Hlist l (all l)
    | UMap id kvs =>
        Hmap id kvs ((fix allp (l : list (uval * uval)) : Forall (fun kx => P (fst kx) /\ P (snd kx)) l :=
                        match l with
                        | [] => Forall_nil _
                        | (k, x) :: r => Forall_cons (k, x) (conj (uval_ind2 k) (uval_ind2 x)) (allp r)
                        end) kvs)
    | UNode a ch => Hnode a ch (uval_ind2 a) (all ch)
    | UEdge a b c => Hedge a b c (uval_ind2 a) (uval_ind2 b) (uval_ind2 c)
    | v' => Hscalar v' I
    end.
End UvalInd.

Lemma to_dv_dehole v : to_dv (dehole v) = to_dv v.
Proof.
  induction v using uval_ind2.
  - destruct v; try contradiction; reflexivity.
  - cbn [dehole to_dv]. f_equal. rewrite map_map. apply map_ext_in.
    intros x Hx. rewrite Forall_forall in H. apply H. exact Hx.
  - cbn [dehole to_dv]. f_equal. rewrite map_map. apply map_ext_in.
    intros [k x] Hx. rewrite Forall_forall in H. destruct (H (k, x) Hx) as [Hk Hv]. cbn [fst snd] in *.
    rewrite Hk, Hv. reflexivity.
  - cbn [dehole to_dv]. rewrite IHv. f_equal. rewrite map_map. apply map_ext_in.
    intros x Hx. rewrite Forall_forall in H. apply H. exact Hx.
  - cbn [dehole to_dv]. rewrite IHv1, IHv2, IHv3. reflexivity.
Qed.

(* ------------------------------------------------------------------ *)
(* Documents of the fragment                                            *)
(* ------------------------------------------------------------------ *)

(* ---- record type declarations ---- *)
Section Decls.
  Variable uc : bytes -> option bytes.
  Variable tc : bytes -> option (bytes * bytes).

  Lemma recv_scalar_rectype sc k above below st :
    rkey sc = Some k ->
    recv_scalar uc tc sc above FRecType below st =
    ROk (set_rt (set_stack (bump st) (above ++ FRecType :: below)) (rt_name st) (rt_keys st ++ [sc]) (rt_tab st)).
  Proof. destruct sc; cbn [rkey]; intro H; try discriminate; destruct below; reflexivity. Qed.

  Lemma rkey_event_dv e sc k :
    event_scalar e = Some sc -> rkey sc = Some k -> event_dv e = Some (to_dv k).
  Proof.
    destruct e; cbn [event_scalar event_dv]; intros Hsc Hrk; inversion Hsc; subst sc;
      cbn [rkey] in Hrk; try discriminate; try (inversion Hrk; subst; reflexivity).
    - unfold negint_scalar in Hrk. destruct (n =? 0); [discriminate|].
      destruct (n <=? max_int64); [|discriminate]. inversion Hrk; subst. reflexivity.
    - destruct (length b =? 16)%nat; [|discriminate]. inversion Hrk; subst. reflexivity.
    - destruct (N.eqb_spec t AT_String); [|discriminate]. subst t. inversion Hrk; subst. reflexivity.
    - destruct (N.eqb_spec t AT_String); [|discriminate]. subst t. inversion Hrk; subst. reflexivity.
  Qed.

  (* the state after a step inside a record type declaration: only the key list grows *)
  Definition rt_grown (st st' : mstate) (scs : list scalar) : Prop :=
    stack st' = stack st /\ tobj st' = tobj st /\ marked st' = marked st /\ pending st' = pending st /\
    rt_tab st' = rt_tab st /\ rt_name st' = rt_name st /\ rt_keys st' = rt_keys st ++ scs.

  Lemma rt_key_run (rd : list (bytes * list dv)) k kd st S :
    rt_key_ok uc k = true -> sem k = Some kd -> stack st = FRecType :: S ->
    exists st' sc kk,
      exec uc tc st (flat k) = ROk st' /\ rkey sc = Some kk /\ to_dv kk = kd /\ rt_grown st st' [sc].
  Proof.
    intros Hok Hsem Hst. destruct k; try discriminate.
    - cbn [rt_key_ok] in Hok. destruct (event_scalar e) as [sc|] eqn:Hsc; [|discriminate].
      destruct (rkey sc) as [kk|] eqn:Hrk; [|discriminate].
      exists (set_rt (set_stack (bump st) (FRecType :: S)) (rt_name st) (rt_keys st ++ [sc]) (rt_tab st)), sc, kk.
      split.
      { cbn [flat exec]. rewrite (step_value uc tc e sc st Hsc). unfold on_scalar. rewrite Hst.
        rewrite (recv_scalar_rectype sc kk [] S st Hrk). reflexivity. }
      split; [exact Hrk|]. split.
      { cbn [sem] in Hsem. rewrite (rkey_event_dv e sc kk Hsc Hrk) in Hsem. inversion Hsem; reflexivity. }
      unfold rt_grown. rewrite Hst. cbn. auto 10.
    - cbn [rt_key_ok] in Hok.
      destruct (chunked_leaf uc tc rd PKey b body Hok) as [data [Hcd [Hsm [Hbeg [Hfire _]]]]].
      rewrite Hsm in Hsem. inversion Hsem as [Hkd]. clear Hsem.
      assert (Hb : b = ABArray AT_String).
      { unfold chunked_ok in Hok. destruct (chunked_data (abegin_bits b) body); [|discriminate].
        destruct (chunk_data (abegin_elem_bytes b) body 0 false []); [|discriminate].
        apply andb_true_iff in Hok as [_ Hok]. destruct b as [t|mt|t ct]; cbn [is_key] in Hok; try discriminate.
        apply N.eqb_eq in Hok. subst t. reflexivity. }
      subst b. cbn [abegin_scalar] in Hfire.
      set (st1 := set_chunk st data 0 false (abegin_cb (ABArray AT_String)) (abegin_bits (ABArray AT_String))).
      exists (set_rt (set_stack (bump st1) (FRecType :: S)) (rt_name st1) (rt_keys st1 ++ [SArr AT_String data]) (rt_tab st1)),
             (SArr AT_String data), (UStr data).
      split.
      { cbn [flat]. rewrite (chunked_exec uc tc _ body data st (Hbeg st) Hcd). rewrite Hfire.
        unfold on_scalar. change (stack (set_chunk st data 0 false _ _)) with (stack st). rewrite Hst.
        rewrite (recv_scalar_rectype (SArr AT_String data) (UStr data) [] S _ eq_refl). reflexivity. }
      split; [reflexivity|]. split.
      { reflexivity. }
      unfold rt_grown. rewrite Hst. cbn. auto 10.
  Qed.

  Lemma rt_keys_run (rd : list (bytes * list dv)) keys : forall kds st S,
    forallb (rt_key_ok uc) keys = true -> omap2 sem keys = Some kds -> stack st = FRecType :: S ->
    exists st' scs,
      exec uc tc st (flat_map flat keys) = ROk st' /\
      Forall2 (fun sc kd => exists k, rkey sc = Some k /\ to_dv k = kd) scs kds /\ rt_grown st st' scs.
  Proof.
    induction keys as [|k r IH]; intros kds st S Hok Hsem Hst.
    - cbn [omap2] in Hsem. inversion Hsem; subst kds. exists st, []. split; [reflexivity|].
      split; [constructor|]. unfold rt_grown. rewrite app_nil_r. auto 10.
    - cbn [forallb] in Hok. apply andb_true_iff in Hok as [Hk Hr].
      cbn [omap2] in Hsem. destruct (sem k) as [kd|] eqn:Hdk; [|discriminate].
      destruct (omap2 sem r) as [kdr|] eqn:Hdr; [|discriminate]. inversion Hsem; subst kds.
      destruct (rt_key_run rd k kd st S Hk Hdk Hst) as [st1 [sc [kk [Hex [Hrk [Hkd G1]]]]]].
      destruct G1 as [G1s [G1t [G1m [G1p [G1tab [G1n G1k]]]]]].
      destruct (IH kdr st1 S Hr eq_refl) as [st2 [scs [Hex2 [Hrel G2]]]]; [congruence|].
      destruct G2 as [G2s [G2t [G2m [G2p [G2tab [G2n G2k]]]]]].
      exists st2, (sc :: scs). split.
      { cbn [flat_map]. rewrite (exec_app_ok uc tc _ _ st st1 Hex). exact Hex2. }
      split. { constructor; [exists kk; auto|exact Hrel]. }
      unfold rt_grown. rewrite G2k, G1k, <- app_assoc. cbn [app]. repeat split; congruence.
  Qed.

  Lemma recv_end_rectype above below st :
    recv_end above FRecType below st =
    ROk (set_rt (set_stack st (tl (above ++ FRecType :: below))) (rt_name st) (rt_keys st)
                ((rt_name st, rt_keys st) :: filter (fun '(n, _) => negb (bytes_eqb n (rt_name st))) (rt_tab st))).
  Proof. destruct below; reflexivity. Qed.

  (* one declaration *)
  Lemma rt_decl_run (rd : list (bytes * list dv)) (d : rtdecl) kds st :
    forallb (rt_key_ok uc) (snd d) = true -> omap2 sem (snd d) = Some kds ->
    exists st' scs,
      exec uc tc st (flat_rt d) = ROk st' /\
      Forall2 (fun sc kd => exists k, rkey sc = Some k /\ to_dv k = kd) scs kds /\
      stack st' = stack st /\ tobj st' = tobj st /\ marked st' = marked st /\ pending st' = pending st /\
      rt_tab st' = (fst d, scs) :: filter (fun '(n, _) => negb (bytes_eqb n (fst d))) (rt_tab st).
  Proof.
    intros Hok Hsem. unfold flat_rt. cbn [exec step rbind].
    set (st0 := set_rt (set_stack st (FRecType :: stack st)) (fst d) [] (rt_tab st)).
    destruct (rt_keys_run rd (snd d) kds st0 (stack st) Hok Hsem eq_refl) as [st1 [scs [Hex [Hrel G]]]].
    destruct G as [Gs [Gt [Gm [Gp [Gtab [Gn Gk]]]]]].
    rewrite (exec_app_ok uc tc _ _ st0 st1 Hex). cbn [exec step]. rewrite Gs. cbn [stack st0 set_rt set_stack].
    rewrite recv_end_rectype. cbn [rbind].
    eexists. exists scs. split; [reflexivity|]. split; [exact Hrel|].
    cbn. rewrite Gt, Gm, Gp, Gtab, Gn, Gk. cbn. auto 10.
  Qed.
End Decls.

(* the builder's table after the declarations and the key data of the document agree *)
Definition tables_agree (rd : list (bytes * list dv)) (T : list (bytes * list scalar)) : Prop :=
  forall name kds, tab_lookup name rd = Some kds ->
    Forall2 (fun sc kd => exists k, rkey sc = Some k /\ to_dv k = kd)
            (match find (fun '(n, _) => bytes_eqb n name) T with Some (_, ks) => ks | None => [] end) kds
    /\ dkeys_distinct kds = true.

Lemma bytes_eqb_sym a b : bytes_eqb a b = bytes_eqb b a.
Proof.
  destruct (bytes_eqb a b) eqn:E.
  - apply bytes_eqb_eq in E. subst. symmetry. apply bytes_eqb_eq. reflexivity.
  - destruct (bytes_eqb b a) eqn:E2; [|reflexivity]. apply bytes_eqb_eq in E2. subst.
    rewrite (proj2 (bytes_eqb_eq a a) eq_refl) in E. discriminate.
Qed.

Lemma tab_lookup_app {A} name (l1 l2 : list (bytes * A)) :
  tab_lookup name (l1 ++ l2) = match tab_lookup name l1 with Some x => Some x | None => tab_lookup name l2 end.
Proof.
  induction l1 as [|[n x] r IH]; [reflexivity|]. cbn [app tab_lookup]. destruct (bytes_eqb name n); [reflexivity|exact IH].
Qed.

Lemma tab_lookup_none {A} name (l : list (bytes * A)) :
  mem_id name (map fst l) = false -> tab_lookup name l = None.
Proof.
  induction l as [|[n x] r IH]; [reflexivity|]. cbn [map fst mem_id tab_lookup]. intro H.
  apply orb_false_iff in H as [H1 H2]. rewrite bytes_eqb_sym, H1. apply IH, H2.
Qed.

Lemma mem_id_app_false id a b :
  mem_id id (a ++ b) = false <-> mem_id id a = false /\ mem_id id b = false.
Proof.
  induction a as [|x r IH]; cbn [app mem_id].
  - tauto.
  - rewrite !orb_false_iff, IH. tauto.
Qed.

Lemma find_filter_other {A} name n (l : list (bytes * A)) :
  bytes_eqb n name = false ->
  find (fun '(m, _) => bytes_eqb m name) (filter (fun '(m, _) => negb (bytes_eqb m n)) l)
  = find (fun '(m, _) => bytes_eqb m name) l.
Proof.
  intro Hn. induction l as [|[m x] r IH]; [reflexivity|]. cbn [filter find].
  destruct (bytes_eqb m n) eqn:Emn; cbn [negb].
  - apply bytes_eqb_eq in Emn. subst m. rewrite Hn. exact IH.
  - cbn [find]. destruct (bytes_eqb m name); [reflexivity|exact IH].
Qed.

Section Documents.
  Variable uc : bytes -> option bytes.
  Variable tc : bytes -> option (bytes * bytes).

  (* all the declarations *)
  Lemma rt_decls_run rts : forall rd0 rd1 st,
    names_distinct (map fst rts) = true ->
    (forall d, In d rts -> mem_id (fst d) (map fst rd0) = false) ->
    forallb (fun d : rtdecl => forallb (rt_key_ok uc) (snd d) &&
               match omap2 sem (snd d) with Some ks => dkeys_distinct ks | None => false end) rts = true ->
    rts_data rts = Some rd1 ->
    tables_agree rd0 (rt_tab st) ->
    exists st',
      exec uc tc st (flat_map flat_rt rts) = ROk st' /\
      stack st' = stack st /\ tobj st' = tobj st /\ marked st' = marked st /\ pending st' = pending st /\
      tables_agree (rd0 ++ rd1) (rt_tab st').
  Proof.
    induction rts as [|d r IH]; intros rd0 rd1 st Hnd Hfresh Hok Hdata Hag.
    - cbn in Hdata. inversion Hdata; subst rd1. exists st. rewrite app_nil_r. cbn [flat_map exec].
      split; [reflexivity|]. split; [reflexivity|]. split; [reflexivity|]. split; [reflexivity|]. split; [reflexivity|]. exact Hag.
    - cbn [map names_distinct] in Hnd. apply andb_true_iff in Hnd as [Hn1 Hnd]. apply negb_true_iff in Hn1.
      cbn [forallb] in Hok. apply andb_true_iff in Hok as [Hd Hok]. apply andb_true_iff in Hd as [Hkeys Hdist].
      unfold rts_data in Hdata. cbn [omap2] in Hdata.
      destruct (omap2 sem (snd d)) as [kds|] eqn:Hkds; [|discriminate].
      fold (rts_data r) in Hdata. destruct (rts_data r) as [rdr|] eqn:Hrdr; [|discriminate].
      inversion Hdata; subst rd1.
      destruct (rt_decl_run uc tc (rd0 ++ (fst d, kds) :: rdr) d kds st Hkeys Hkds)
        as [st1 [scs [Hex [Hrel [Hs1 [Ht1 [Hm1 [Hp1 Htab1]]]]]]]].
      assert (Hag1 : tables_agree (rd0 ++ [(fst d, kds)]) (rt_tab st1)).
      { intros name kds0 Hl. rewrite tab_lookup_app in Hl. rewrite Htab1. cbn [find].
        destruct (tab_lookup name rd0) as [x|] eqn:Hl0.
        - inversion Hl; subst x.
          assert (Hne : bytes_eqb (fst d) name = false).
          { destruct (bytes_eqb (fst d) name) eqn:E; [|reflexivity]. apply bytes_eqb_eq in E. subst name.
            rewrite (tab_lookup_none (fst d) rd0 (Hfresh d (or_introl eq_refl))) in Hl0. discriminate. }
          rewrite Hne, (find_filter_other name (fst d) (rt_tab st) Hne). apply (Hag name kds0 Hl0).
        - cbn [tab_lookup] in Hl. destruct (bytes_eqb name (fst d)) eqn:E; [|discriminate].
          inversion Hl; subst kds0. rewrite bytes_eqb_sym, E. split; [exact Hrel|exact Hdist]. }
      destruct (IH (rd0 ++ [(fst d, kds)]) rdr st1 Hnd) as [st2 [Hex2 [Hs2 [Ht2 [Hm2 [Hp2 Hag2]]]]]];
        try assumption.
      { intros d' Hin. rewrite map_app, (proj2 (mem_id_app_false _ _ _)); [reflexivity|]. split.
        - apply Hfresh. right. exact Hin.
        - cbn [map fst mem_id]. rewrite orb_false_r.
          destruct (bytes_eqb (fst d) (fst d')) eqn:E; [|reflexivity]. apply bytes_eqb_eq in E.
          exfalso. rewrite E in Hn1. assert (mem_id (fst d') (map fst r) = true).
          { clear -Hin. induction r as [|x r IH]; [contradiction|]. cbn [map mem_id]. destruct Hin as [->|Hin].
            - rewrite (proj2 (bytes_eqb_eq _ _) eq_refl). reflexivity.
            - rewrite (IH Hin). apply orb_true_r. }
          congruence. }
      { reflexivity. }
      exists st2. split.
      { cbn [flat_map]. rewrite (exec_app_ok uc tc _ _ st st1 Hex). exact Hex2. }
      rewrite <- app_assoc in Hag2. cbn [app] in Hag2.
      split; [congruence|]. split; [congruence|]. split; [congruence|]. split; [congruence|]. exact Hag2.
  Qed.

  Lemma exec_fragment rts t d rd :
    supported6 uc tc rts t = true -> sem t = Some d -> rts_data rts = Some rd ->
    exists st v d',
      exec uc tc init_state (doc_events rts t) = ROk st /\ built st = dehole v /\
      erase_doc rd d = Some d' /\ to_dv v = d'.
  Proof.
    unfold supported6. intros Hsup Hsem Hrd. rewrite Hrd in Hsup.
    apply andb_true_iff in Hsup as [Hrts Hs]. unfold rts_ok in Hrts. apply andb_true_iff in Hrts as [Hnd Hok].
    destruct (supp uc tc rd [] PGen t) as [ids'|] eqn:Hsp; [|discriminate].
    destruct (rt_decls_run rts [] rd init_state Hnd (fun _ _ => eq_refl) Hok Hrd) as [st0 [Hex0 [Hs0 [Ht0 [Hm0 [Hp0 Hag]]]]]].
    { intros name kds Hl. discriminate. }
    cbn [app] in Hag.
    destruct (use_value uc tc rd (rt_tab st0) t (all_values uc tc rd (rt_tab st0) Hag t) [] PGen ids' st0 [FTop] d Hsp)
      as [st' [v [Hex [Hput [Hf [Hc [Her [Hh [Hp _]]]]]]]]];
      try reflexivity; try discriminate; try assumption.
    { rewrite Ht0. reflexivity. }
    { split; [rewrite Hp0; reflexivity|reflexivity]. }
    { rewrite Hm0. reflexivity. }
    { rewrite Hm0. constructor. }
    exists st', v, (to_dv v). split.
    { unfold doc_events. cbn [exec step rbind].
      rewrite (exec_app_ok uc tc _ _ init_state st0 Hex0).
      rewrite (exec_app_ok uc tc _ _ st0 st' Hex). reflexivity. }
    split.
    { rewrite Ht0 in Hput. cbn [put init_state tobj] in Hput. unfold built, built_raw.
      inversion Hput as [[Hs' Ht']]. destruct (contb t); reflexivity. }
    split.
    { unfold erase_doc. rewrite Hm0 in Her. cbn [init_state marked env_data map] in Her. rewrite Her. reflexivity. }
    reflexivity.
  Qed.

  (* C06, the part that holds: a document of the fragment is built without error, and the data
     of the value built are the data of the document, records as maps, references resolved and
     markers dropped *)
  Theorem fragment_builds es rts t d rd :
    strip es = doc_events rts t ->
    supported6 uc tc rts t = true -> sem t = Some d -> rts_data rts = Some rd ->
    exists v d',
      build_untyped uc tc es = Ok v /\ erase_doc rd d = Some d' /\ to_dv v = d'.
  Proof.
    intros Hes Hsup Hsem Hrd.
    destruct (exec_fragment rts t d rd Hsup Hsem Hrd) as [st [v [d' [Hex [Hb [Her Hd]]]]]].
    exists (built st), d'. split; [|split; [exact Her|]].
    - unfold build_untyped. destruct (run uc tc init_state es 0) as [r i] eqn:Hrun.
      pose proof (run_exec uc tc es init_state 0) as Hre. rewrite Hrun in Hre. cbn [fst] in Hre.
      rewrite exec_strip, Hes, Hex in Hre. subst r. reflexivity.
    - rewrite Hb, to_dv_dehole. exact Hd.
  Qed.
End Documents.

(* ------------------------------------------------------------------ *)
(* The full property and where the code violates it                     *)
(* ------------------------------------------------------------------ *)

Require CE.Model.Rules.

(* Every document the validator accepts (given as record types + tree, with data d) is built
   without error into a value whose data are d with records as maps, references resolved,
   markers dropped.  (erase_doc resolves references to markers that are complete; documents
   with forward references are outside this statement.) *)
Definition C06_full_for (uc : bytes -> option bytes) (tc : bytes -> option (bytes * bytes)) : Prop :=
  forall rts t d rd d',
    Rules.accepts_document Rules.default_rcfg (doc_events rts t) = true ->
    sem t = Some d -> rts_data rts = Some rd -> erase_doc rd d = Some d' ->
    exists v, build_untyped uc tc (doc_events rts t) = Ok v /\ dv_eqb (to_dv v) d' = true.

(* a document on which the property fails, whatever the library conversions do *)
Definition refutes (rts : list rtdecl) (t : dt) : Prop :=
  forall uc tc,
  exists d rd d',
    Rules.accepts_document Rules.default_rcfg (doc_events rts t) = true /\
    sem t = Some d /\ rts_data rts = Some rd /\ erase_doc rd d = Some d' /\
    ~ (exists v, build_untyped uc tc (doc_events rts t) = Ok v /\ dv_eqb (to_dv v) d' = true).

Lemma refutes_full rts t : refutes rts t -> forall uc tc, ~ C06_full_for uc tc.
Proof.
  intros H uc tc Hfull. destruct (H uc tc) as [d [rd [d' [Ha [Hs [Hr [He Hn]]]]]]].
  apply Hn. apply (Hfull rts t d rd d' Ha Hs Hr He).
Qed.

Ltac refute_err :=
  intros uc tc; do 3 eexists;
  split; [vm_compute; reflexivity|]; split; [vm_compute; reflexivity|];
  split; [vm_compute; reflexivity|]; split; [vm_compute; reflexivity|];
  intros [v [Hb _]]; vm_compute in Hb; discriminate.
Ltac refute_data :=
  intros uc tc; do 3 eexists;
  split; [vm_compute; reflexivity|]; split; [vm_compute; reflexivity|];
  split; [vm_compute; reflexivity|]; split; [vm_compute; reflexivity|];
  intros [v [Hb He]]; vm_compute in Hb; inversion Hb; subst v; vm_compute in He; discriminate.

(* an edge: the validator wants an end-container event after the destination, the edge builder
   has already popped itself and the event hits its parent *)
Definition w_edge : dt := TEdge (TLeaf (EPosInt 1)) (TLeaf (EPosInt 2)) (TLeaf (EPosInt 3)).
Lemma edge_refuted : refutes [] w_edge.
Proof. refute_err. Qed.
Definition w_edge_in_list : dt := TList [w_edge; TLeaf (EPosInt 4)].
Lemma edge_in_list_refuted : refutes [] w_edge_in_list.
Proof. refute_err. Qed.

(* a reference in key position: stored under the previous key *)
Definition w_refkey : dt :=
  TMap [(TMark [97] (TLeaf (EStringArray AT_String [107])), TLeaf (EPosInt 1)); (TRef [97], TLeaf (EPosInt 2))].
Lemma reference_as_key_refuted : refutes [] w_refkey.
Proof. refute_data. Qed.
Definition w_refkey_first : dt :=
  TList [TMark [97] (TLeaf (EStringArray AT_String [107])); TMap [(TRef [97], TLeaf (EPosInt 2))]].
Lemma reference_as_first_key_refuted : refutes [] w_refkey_first.
Proof. refute_err. Qed.

(* a marked scalar as node value: the marker pops the children builder *)
Definition w_marked_node_value : dt := TNode (TMark [97] (TLeaf (EPosInt 1))) [TLeaf (EPosInt 2)].
Lemma marker_on_node_value_refuted : refutes [] w_marked_node_value.
Proof. refute_err. Qed.

(* typed arrays the interface builder has no case for *)
Definition w_bit_array : dt := TList [TLeaf (EArray AT_Bit 3 [5])].
Lemma bit_array_refuted : refutes [] w_bit_array.
Proof. refute_err. Qed.
Definition w_uid_array : dt := TList [TLeaf (EArray AT_UID 1 [0;1;2;3;4;5;6;7;8;9;10;11;12;13;14;15])].
Lemma uid_array_refuted : refutes [] w_uid_array.
Proof. refute_err. Qed.
Definition w_custom : dt := TList [TLeaf (ECustomBin 1 [1; 2])].
Lemma custom_type_refuted : refutes [] w_custom.
Proof. refute_err. Qed.

(* float16 arrays come back as []float32 and are marshaled as float32 arrays *)
Definition w_f16 : dt := TList [TLeaf (EArray AT_Float16 1 [192; 63])].
Lemma float16_array_refuted : refutes [] w_f16.
Proof. refute_data. Qed.
(* a signalling NaN in a float32 array is quieted on the way out *)
Definition w_f32_snan : dt := TList [TLeaf (EArray AT_Float32 1 [1; 0; 160; 127])].
Lemma float32_snan_refuted : refutes [] w_f32_snan.
Proof. refute_data. Qed.

(* and the fragment is not empty: a document with every construct it has *)
Definition frag_example : dt :=
  TList [TMark [97] (TLeaf (EPosInt 5));
         TMap [(TLeaf (EStringArray AT_String [107]), TRef [97]);
               (TMark [98] (TLeaf (EInt (-3))), TNode (TLeaf ENull) [TRef [98]; TLeaf (EArray AT_Uint16 2 [1; 0; 2; 0])])];
         TChunked (ABArray AT_String) [EArrayChunk 1 true; EArrayData [104]; EArrayChunk 1 false; EArrayData [105]];
         TMark [99] (TList [TLeaf (EFloat 4609434218613702656); TLeaf (ENegInt 7)]);
         TRef [99]].
Lemma frag_example_supported : supported6 (fun b => Some b) (fun b => Some (b, b)) [] frag_example = true.
Proof. vm_compute. reflexivity. Qed.
Lemma frag_example_accepted :
  Rules.accepts_document Rules.default_rcfg (doc_events [] frag_example) = true.
Proof. vm_compute. reflexivity. Qed.
Lemma frag_example_builds :
  build_untyped (fun b => Some b) (fun b => Some (b, b)) (doc_events [] frag_example) =
  Ok (UList [UUint 5;
             UMap 5 [(UStr [107], UUint 5); (UInt (-3), UNode UNil [UInt (-3); UTyped AT_Uint16 [1; 2]])];
             UStr [104; 105];
             UList [UFloat 4609434218613702656; UInt (-7)];
             UList [UFloat 4609434218613702656; UInt (-7)]]).
Proof. vm_compute. reflexivity. Qed.

(* the two halves of the fragment theorem, separately *)
Lemma fragment_total uc tc es rts t d rd :
  strip es = doc_events rts t -> supported6 uc tc rts t = true -> sem t = Some d -> rts_data rts = Some rd ->
  exists v, build_untyped uc tc es = Ok v.
Proof.
  intros H1 H2 H3 H4. destruct (fragment_builds uc tc es rts t d rd H1 H2 H3 H4) as [v [d' [Hb _]]].
  exists v. exact Hb.
Qed.

Definition C06_full : Prop := forall uc tc, C06_full_for uc tc.

Lemma C06_full_false : ~ C06_full.
Proof.
  intro H. apply (refutes_full [] w_edge edge_refuted (fun b => Some b) (fun b => Some (b, b))). apply H.
Qed.

(* ------------------------------------------------------------------ *)
(* Marshaling the value again                                           *)
(* ------------------------------------------------------------------ *)

Lemma array_dv_plain t data :
  negb ((t =? AT_String) || (t =? AT_ResourceID) || (t =? AT_ReferenceRemote)) = true ->
  array_dv t data = DArr t data.
Proof.
  intro H. apply negb_true_iff in H. apply orb_false_iff in H as [H H3]. apply orb_false_iff in H as [H1 H2].
  unfold array_dv. rewrite H1, H2, H3. reflexivity.
Qed.

Lemma oconcat_cons {A} (x : option (list A)) l :
  oconcat (x :: l) = match x, oconcat l with Some a, Some b => Some (a ++ b) | _, _ => None end.
Proof. reflexivity. Qed.

Lemma iterate_list l :
  Forall (fun v => dv_plain (to_dv v) = true ->
                   exists t, iterate_val v = Some (flat t) /\ sem t = Some (to_dv v)) l ->
  forallb dv_plain (map to_dv l) = true ->
  exists ts, oconcat (map iterate_val l) = Some (flat_map flat ts) /\ omap2 sem ts = Some (map to_dv l).
Proof.
  induction 1 as [|v r Hv _ IH]; intro Hp.
  - exists []. split; reflexivity.
  - cbn [map forallb] in Hp. apply andb_true_iff in Hp as [Hpv Hpr].
    destruct (Hv Hpv) as [t [Hi Hs]]. destruct (IH Hpr) as [ts [Hc Ho]].
    exists (t :: ts). split.
    + cbn [map]. rewrite oconcat_cons, Hi, Hc. reflexivity.
    + cbn [omap2 map]. rewrite Hs, Ho. reflexivity.
Qed.

Theorem iterate_denotes v :
  dv_plain (to_dv v) = true ->
  exists t, iterate_val v = Some (flat t) /\ sem t = Some (to_dv v).
Proof.
  induction v using uval_ind2; intro Hp.
  - destruct v; try contradiction;
      try (eexists (TLeaf _); split; reflexivity).
    + destruct v; eexists (TLeaf _); split; reflexivity.
    + destruct v; eexists (TLeaf _); split; reflexivity.
    + destruct v; eexists (TLeaf _); split; reflexivity.
    + (* UTyped *)
      eexists (TLeaf _). split; [reflexivity|]. cbn [sem event_dv to_dv].
      rewrite (array_dv_plain t _ Hp). reflexivity.
    + (* UMedia *)
      cbn [to_dv dv_plain] in Hp. destruct mt; [discriminate|].
      eexists (TLeaf _). split; reflexivity.
  - (* list *)
    cbn [to_dv dv_plain] in Hp. destruct (iterate_list l H Hp) as [ts [Hc Ho]].
    exists (TList ts). split.
    + cbn [iterate_val flat]. rewrite Hc. reflexivity.
    + cbn [sem to_dv]. rewrite Ho. reflexivity.
  - (* map *)
    cbn [to_dv dv_plain] in Hp.
    assert (Hm : exists ts,
      oconcat (map (fun '(k, x) => match iterate_val k, iterate_val x with
                                   | Some a, Some b => Some (a ++ b) | _, _ => None end) kvs)
      = Some (flat_map (fun '(k, v) => flat k ++ flat v) ts) /\
      omap2 (fun '(k, v) => match sem k, sem v with Some a, Some b => Some (a, b) | _, _ => None end) ts
      = Some (map (fun '(k, x) => (to_dv k, to_dv x)) kvs)).
    { clear id. induction H as [|[k x] r [Hk Hx] _ IH].
      - exists []. split; reflexivity.
      - cbn [map forallb] in Hp. apply andb_true_iff in Hp as [Hpv Hpr].
        apply andb_true_iff in Hpv as [Hpk Hpx]. cbn [fst snd] in Hk, Hx.
        destruct (Hk Hpk) as [tk [Hik Hsk]]. destruct (Hx Hpx) as [tx [Hix Hsx]].
        destruct (IH Hpr) as [ts [Hc Ho]].
        exists ((tk, tx) :: ts). split.
        + cbn [map]. rewrite oconcat_cons, Hik, Hix, Hc. cbn [flat_map]. reflexivity.
        + cbn [omap2 map]. rewrite Hsk, Hsx, Ho. reflexivity. }
    destruct Hm as [ts [Hc Ho]]. exists (TMap ts). split.
    + cbn [iterate_val flat]. rewrite Hc. reflexivity.
    + cbn [sem to_dv]. rewrite Ho. reflexivity.
  - (* node *)
    cbn [to_dv dv_plain] in Hp. apply andb_true_iff in Hp as [Hpa Hpc].
    destruct (IHv Hpa) as [ta [Hia Hsa]]. destruct (iterate_list ch H Hpc) as [ts [Hc Ho]].
    exists (TNode ta ts). split.
    + cbn [iterate_val flat]. rewrite Hia, Hc. reflexivity.
    + cbn [sem to_dv]. rewrite Hsa, Ho. reflexivity.
  - discriminate.
Qed.

(* C06, second half on the fragment: marshaling the value built gives a document with the erased data *)
Theorem fragment_remarshals uc tc es rts t d rd d' :
  strip es = doc_events rts t -> supported6 uc tc rts t = true -> sem t = Some d -> rts_data rts = Some rd ->
  erase_doc rd d = Some d' -> dv_plain d' = true ->
  exists v t', build_untyped uc tc es = Ok v /\
               iterate_doc v = Some (doc_events [] t') /\ sem t' = Some d'.
Proof.
  intros H1 H2 H3 H4 He Hp.
  destruct (fragment_builds uc tc es rts t d rd H1 H2 H3 H4) as [v [d'' [Hb [He' Hd]]]].
  rewrite He in He'. injection He' as Hdd. rewrite <- Hdd in Hd. clear Hdd.
  rewrite <- Hd in Hp. destruct (iterate_denotes v Hp) as [t' [Hi Hs]].
  exists v, t'. split; [exact Hb|]. split.
  - unfold iterate_doc. rewrite Hi. reflexivity.
  - rewrite Hs, Hd. reflexivity.
Qed.

(* records, the integer -0 and a wide array in chunks are in the fragment as well *)
Definition rec_example_rts : list rtdecl :=
  [([120], [TLeaf (EStringArray AT_String [97]); TLeaf (EPosInt 2)]); ([121], [TLeaf (EBool true)])].
Definition rec_example : dt :=
  TList [TRecord [120] [TLeaf (EPosInt 5); TMark [97] (TList [TLeaf ENull])];
         TRecord [121] [TRef [97]];
         TLeaf (ENegInt 0);
         TChunked (ABArray AT_Uint16) [EArrayChunk 2 false; EArrayData [1; 0; 2; 0]]].
Lemma rec_example_supported :
  supported6 (fun b => Some b) (fun b => Some (b, b)) rec_example_rts rec_example = true.
Proof. vm_compute. reflexivity. Qed.
Lemma rec_example_accepted :
  Rules.accepts_document Rules.default_rcfg (doc_events rec_example_rts rec_example) = true.
Proof. vm_compute. reflexivity. Qed.
Lemma rec_example_data :
  option_map to_dv (match build_untyped (fun b => Some b) (fun b => Some (b, b)) (doc_events rec_example_rts rec_example)
                    with Ok v => Some v | _ => None end) =
  Some (DList [DMap [(DStr [97], DInt 5); (DInt 2, DList [DNull])];
               DMap [(DBool true, DList [DNull])];
               DNegZero;
               DArr AT_Uint16 [1; 0; 2; 0]]).
Proof. vm_compute. reflexivity. Qed.
