(* Lemmas about the untyped builder model (Model/Build.v), for C06.
   Main results:
   - [fragment_builds]: every document of the fragment [supported6] is built
     without a panic, and the data of the value built ([to_dv], which is what
     marshaling it again produces, [iterate_denotes]) are the data of the
     document with references replaced by their targets and markers dropped;
   - refutations of the full property on the constructs outside the fragment. *)
From CE Require Import Model.Build Proofs.ArraysProofs.
From Coq Require Import ZifyN ZifyNat ZifyBool.
Open Scope N_scope.

#[local] Arguments N.pow : simpl never.
#[local] Arguments N.div : simpl never.
#[local] Arguments N.modulo : simpl never.
#[local] Arguments N.mul : simpl never.

(* ------------------------------------------------------------------ *)
(* Running a list of events                                             *)
(* ------------------------------------------------------------------ *)

Section Exec.
  Variable uc : bytes -> option bytes.
  Variable tc : bytes -> option (bytes * bytes).

  Fixpoint exec (st : mstate) (es : list event) : res :=
    match es with
    | [] => ROk st
    | e :: r => rbind (step uc tc st e) (fun s => exec s r)
    end.

  Lemma run_exec es : forall st i, fst (run uc tc st es i) = exec st es.
  Proof.
    induction es as [|e r IH]; intros st i; cbn [run exec].
    - reflexivity.
    - destruct (step uc tc st e) as [s|s]; cbn [rbind].
      + apply IH.
      + reflexivity.
  Qed.

  Lemma exec_app a b : forall st, exec st (a ++ b) = rbind (exec st a) (fun s => exec s b).
  Proof.
    induction a as [|e r IH]; intro st; cbn [app exec].
    - reflexivity.
    - destruct (step uc tc st e) as [s|s]; cbn [rbind].
      + apply IH.
      + reflexivity.
  Qed.

  Lemma exec_app_ok a b st s : exec st a = ROk s -> exec st (a ++ b) = exec s b.
  Proof. intro H. rewrite exec_app, H. reflexivity. Qed.

  Lemma exec_cons e r st : exec st (e :: r) = rbind (step uc tc st e) (fun s => exec s r).
  Proof. reflexivity. Qed.

  (* padding and comments do not reach any builder *)
  Lemma exec_strip es : forall st, exec st es = exec st (strip es).
  Proof.
    induction es as [|e r IH]; intro st.
    - reflexivity.
    - unfold strip. cbn [filter]. fold (strip r).
      destruct e; cbn [is_trivia negb exec]; try (destruct (step uc tc st _); cbn [rbind]; [apply IH|reflexivity]).
      + cbn [step rbind]. apply IH.
      + cbn [step rbind]. apply IH.
  Qed.
End Exec.

(* ------------------------------------------------------------------ *)
(* Induction on document trees                                          *)
(* ------------------------------------------------------------------ *)

Section DtInd.
  Variable P : dt -> Prop.
  Hypothesis Hleaf : forall e, P (TLeaf e).
  Hypothesis Hchunk : forall b body, P (TChunked b body).
  Hypothesis Hlist : forall l, Forall P l -> P (TList l).
  Hypothesis Hmap : forall kvs, Forall (fun kv => P (fst kv) /\ P (snd kv)) kvs -> P (TMap kvs).
  Hypothesis Hnode : forall v ch, P v -> Forall P ch -> P (TNode v ch).
  Hypothesis Hedge : forall a b c, P a -> P b -> P c -> P (TEdge a b c).
  Hypothesis Hrec : forall n vals, Forall P vals -> P (TRecord n vals).
  Hypothesis Hmark : forall id t, P t -> P (TMark id t).
  Hypothesis Href : forall id, P (TRef id).

  Fixpoint dt_ind2 (t : dt) : P t :=
    let all := fix all (l : list dt) : Forall P l :=
      match l with
      | [] => Forall_nil P
      | x :: r => Forall_cons x (dt_ind2 x) (all r)
      end in
    match t with
    | TLeaf e => Hleaf e
    | TChunked b body => Hchunk b body
    | TList l => Hlist l (all l)
    | TMap kvs =>
        Hmap kvs ((fix allp (l : list (dt * dt)) : Forall (fun kv => P (fst kv) /\ P (snd kv)) l :=
                     match l with
                     | [] => Forall_nil _
                     | (k, v) :: r => Forall_cons (k, v) (conj (dt_ind2 k) (dt_ind2 v)) (allp r)
                     end) kvs)
    | TNode v ch => Hnode v ch (dt_ind2 v) (all ch)
    | TEdge a b c => Hedge a b c (dt_ind2 a) (dt_ind2 b) (dt_ind2 c)
    | TRecord n vals => Hrec n vals (all vals)
    | TMark id t' => Hmark id t' (dt_ind2 t')
    | TRef id => Href id
    end.
End DtInd.

(* ------------------------------------------------------------------ *)
(* Values without placeholders; the marker table and its data            *)
(* ------------------------------------------------------------------ *)

Lemma snap_no_hole v : has_hole v = false -> snap v = v.
Proof.
  destruct v; try reflexivity. cbn [has_hole snap].
  destruct v; try reflexivity. cbn [has_hole orb]. discriminate.
Qed.

Lemma existsb_app_false {A} (f : A -> bool) a b :
  existsb f a = false -> existsb f b = false -> existsb f (a ++ b) = false.
Proof. intros Ha Hb. rewrite existsb_app, Ha, Hb. reflexivity. Qed.

(* the marker table seen as data *)
Definition env_data (m : list (bytes * uval)) : denv := map (fun iv => (fst iv, to_dv (snd iv))) m.
Definition env_clean (m : list (bytes * uval)) : Prop := Forall (fun iv => has_hole (snd iv) = false) m.

Lemma lookup_env_data id m :
  env_lookup id (env_data m) = option_map to_dv (lookup_marked id m).
Proof.
  induction m as [|[i v] r IH]; cbn [env_data map env_lookup lookup_marked fst snd option_map].
  - reflexivity.
  - destruct (bytes_eqb i id); [reflexivity|]. exact IH.
Qed.

Lemma lookup_clean id m v : env_clean m -> lookup_marked id m = Some v -> has_hole v = false.
Proof.
  induction m as [|[i x] r IH]; cbn [lookup_marked]; intros Hc H.
  - discriminate.
  - inversion Hc as [|? ? Hx Hr]; subst. destruct (bytes_eqb i id).
    + inversion H; subst. exact Hx.
    + apply IH; assumption.
Qed.

Lemma mem_id_lookup id m : mem_id id (map fst m) = false -> lookup_marked id m = None.
Proof.
  induction m as [|[i v] r IH]; cbn [map fst mem_id lookup_marked].
  - reflexivity.
  - intro H. apply orb_false_iff in H as [H1 H2]. rewrite H1. apply IH, H2.
Qed.

Lemma lookup_mem_id id m : mem_id id (map fst m) = true -> exists v, lookup_marked id m = Some v.
Proof.
  induction m as [|[i v] r IH]; cbn [map fst mem_id lookup_marked].
  - discriminate.
  - intro H. destruct (bytes_eqb i id).
    + eexists; reflexivity.
    + apply IH. exact H.
Qed.

Lemma filter_fresh id (m : list (bytes * uval)) :
  mem_id id (map fst m) = false ->
  filter (fun '(i, _) => negb (bytes_eqb i id)) m = m.
Proof.
  induction m as [|[i v] r IH]; cbn [map fst mem_id filter].
  - reflexivity.
  - intro H. apply orb_false_iff in H as [H1 H2]. rewrite H1. cbn [negb]. rewrite IH by exact H2. reflexivity.
Qed.

(* ------------------------------------------------------------------ *)
(* One value arriving at a builder                                      *)
(* ------------------------------------------------------------------ *)

(* the effect of a finished value on the builder at the top of [base]
   (isc: the value is a container, which matters only for the top-level builder) *)
Definition put (v : uval) (isc : bool) (base : list frame) (tob : topobj) : option (list frame * topobj) :=
  match base with
  | FTop :: r => match tob with
                 | TSlot _ => Some (FTop :: r, if isc then TDone v else TSlot v)
                 | TDone _ => None
                 end
  | FSlice l :: r => Some (FSlice (l ++ [v]) :: r, tob)
  | FMap id kvs key false None :: r => Some (FMap id kvs (Some v) true None :: r, tob)
  | FMap id kvs (Some k) true None :: r =>
      if hashable k then Some (FMap id (assoc_set k v kvs) (Some k) false None :: r, tob) else None
  | FNode false _ :: r => Some (FSlice [] :: FNode true v :: r, tob)
  | _ => None
  end.

Definition mkframes (mk : option bytes) (isc : bool) : list frame :=
  match mk with Some id => [FMarker id isc] | None => [] end.
Definition mkentry (mk : option bytes) (v : uval) : list (bytes * uval) :=
  match mk with Some id => [(id, v)] | None => [] end.
Definition node_top (base : list frame) : bool :=
  match base with FNode _ _ :: _ => true | _ => false end.

Section Arrival.
  Variable uc : bytes -> option bytes.
  Variable tc : bytes -> option (bytes * bytes).

  Lemma notify_marker_nopending id v st :
    pending st = [] ->
    notify_marker id v st =
    ROk (set_refs st ((id, v) :: filter (fun '(i, _) => negb (bytes_eqb i id)) (marked st)) []).
  Proof. intro H. unfold notify_marker. rewrite H. reflexivity. Qed.

  (* unfolding recv_scalar at the builders that take values *)
  Lemma recv_scalar_top sc above below st :
    recv_scalar uc tc sc above FTop below st =
    match conv uc tc (next st) sc with
    | None => RPanic (set_stack (bump st) (above ++ FTop :: below))
    | Some x => match tobj st with
                | TSlot _ => ROk (set_tobj (set_stack (bump st) (above ++ FTop :: below)) (TSlot x))
                | TDone _ => RPanic (set_stack (bump st) (above ++ FTop :: below))
                end
    end.
  Proof. destruct below; reflexivity. Qed.

  Lemma recv_scalar_slice sc above l below st :
    recv_scalar uc tc sc above (FSlice l) below st =
    match conv uc tc (next st) sc with
    | None => RPanic (set_stack (bump st) (above ++ FSlice l :: below))
    | Some x => ROk (set_stack (bump st) (above ++ FSlice (l ++ [x]) :: below))
    end.
  Proof. destruct below; reflexivity. Qed.

  Lemma recv_scalar_map sc above id kvs key w below st :
    recv_scalar uc tc sc above (FMap id kvs key w None) below st =
    match conv uc tc (next st) sc with
    | None => RPanic (set_stack (bump st) (above ++ FMap id kvs key w None :: below))
    | Some x => match map_store x id kvs key w None with
                | Some fr' => ROk (set_stack (bump st) (above ++ fr' :: below))
                | None => RPanic (set_stack (bump st) (above ++ FMap id kvs key w None :: below))
                end
    end.
  Proof. destruct below; reflexivity. Qed.

  Lemma recv_scalar_node sc above cm v below st :
    recv_scalar uc tc sc above (FNode cm v) below st =
    match conv uc tc (next st) sc with
    | None => RPanic (set_stack (bump st) (above ++ FNode cm v :: below))
    | Some x => ROk (set_stack (bump st) (FSlice [] :: above ++ FNode true x :: below))
    end.
  Proof. destruct below; reflexivity. Qed.

  Lemma recv_scalar_marker sc above id isc child below st :
    recv_scalar uc tc sc above (FMarker id isc) (child :: below) st =
    rbind (recv_scalar uc tc sc (above ++ [FMarker id isc]) child below st)
          (fun st1 => if isc then ROk st1
                      else match conv uc tc (next st) sc with
                           | Some x => notify_marker id x (set_stack st1 (tl (stack st1)))
                           | None => RPanic st1
                           end).
  Proof. reflexivity. Qed.

  Lemma scalar_arrival sc x mk base st s' t' :
    stack st = mkframes mk false ++ base ->
    pending st = [] ->
    conv uc tc (next st) sc = Some x ->
    put x false base (tobj st) = Some (s', t') ->
    (mk <> None -> node_top base = false) ->
    (forall id, mk = Some id -> mem_id id (map fst (marked st)) = false) ->
    exists st', on_scalar uc tc sc st = ROk st' /\ stack st' = s' /\ tobj st' = t' /\
                marked st' = mkentry mk x ++ marked st /\ pending st' = [].
  Proof.
    intros Hst Hp Hc Hput Hnode Hfresh. unfold on_scalar. rewrite Hst.
    destruct base as [|fr r]; [destruct mk; discriminate|].
    destruct mk as [id|]; cbn [mkframes app mkentry].
    - (* through a marker *)
      specialize (Hnode ltac:(discriminate)). specialize (Hfresh id eq_refl).
      rewrite recv_scalar_marker. cbn [app].
      destruct fr; cbn [put node_top] in Hput, Hnode; try discriminate.
      + (* FTop *)
        rewrite recv_scalar_top, Hc. destruct (tobj st) eqn:Et; [|discriminate].
        inversion Hput; subst. cbn [rbind].
        cbn [stack set_tobj set_stack app tl].
        rewrite notify_marker_nopending by exact Hp.
        eexists. split; [reflexivity|]. cbn.
        rewrite filter_fresh by exact Hfresh. auto.
      + (* FSlice *)
        rewrite recv_scalar_slice, Hc. inversion Hput; subst. cbn [rbind].
        cbn [stack set_stack app tl].
        rewrite notify_marker_nopending by exact Hp.
        eexists. split; [reflexivity|]. cbn.
        rewrite filter_fresh by exact Hfresh. auto.
      + (* FMap *)
        destruct rec; [destruct key, want_value; discriminate|].
        rewrite recv_scalar_map, Hc.
        destruct want_value.
        * destruct key as [k|]; [|discriminate]. destruct (hashable k) eqn:Hh; [|discriminate].
          inversion Hput; subst. cbn [map_store]. rewrite Hh. cbn [rbind].
          cbn [stack set_stack app tl].
          rewrite notify_marker_nopending by exact Hp.
          eexists. split; [reflexivity|]. cbn.
          rewrite filter_fresh by exact Hfresh. auto.
        * destruct key; inversion Hput; subst; cbn [map_store rbind];
            cbn [stack set_stack app tl];
            rewrite notify_marker_nopending by exact Hp;
            (eexists; split; [reflexivity|]; cbn;
             rewrite filter_fresh by exact Hfresh; auto).
    - (* directly *)
      destruct fr; cbn [put] in Hput; try discriminate.
      + rewrite recv_scalar_top, Hc. destruct (tobj st) eqn:Et; [|discriminate].
        inversion Hput; subst. eexists. split; [reflexivity|]. cbn. auto.
      + rewrite recv_scalar_slice, Hc. inversion Hput; subst.
        eexists. split; [reflexivity|]. cbn. auto.
      + destruct rec; [destruct key, want_value; discriminate|].
        rewrite recv_scalar_map, Hc. destruct want_value.
        * destruct key as [k|]; [|discriminate]. destruct (hashable k) eqn:Hh; [|discriminate].
          inversion Hput; subst. cbn [map_store]. rewrite Hh.
          eexists. split; [reflexivity|]. cbn. auto.
        * destruct key; inversion Hput; subst; cbn [map_store];
            (eexists; split; [reflexivity|]; cbn; auto).
      + destruct children_mode; [discriminate|]. rewrite recv_scalar_node, Hc.
        inversion Hput; subst. eexists. split; [reflexivity|]. cbn. auto.
  Qed.
End Arrival.

Section Containers.
  Variable uc : bytes -> option bytes.
  Variable tc : bytes -> option (bytes * bytes).

  Lemma bytes_eqb_refl b : bytes_eqb b b = true.
  Proof. apply bytes_eqb_eq. reflexivity. Qed.

  (* builders that start a container of their own when asked *)
  Definition plain (fr : frame) : bool :=
    match fr with
    | FTop | FSlice _ | FMap _ _ _ _ None | FNode _ _ => true
    | _ => false
    end.

  Lemma recv_begin_plain k above fr below st :
    plain fr = true ->
    recv_begin uc tc k above fr below st =
    ROk (set_stack (bump (bump st)) (new_frame k (next st + 1) :: above ++ fr :: below)).
  Proof.
    intro H. destruct fr; try discriminate; try (destruct below; reflexivity).
    destruct rec; [discriminate|]. destruct below; reflexivity.
  Qed.

  Lemma recv_begin_marker k above id isc child below st :
    recv_begin uc tc k above (FMarker id isc) (child :: below) st =
    recv_begin uc tc k (above ++ [FMarker id true]) child below st.
  Proof. reflexivity. Qed.

  Definition begin_kind (e : event) : option ckind :=
    match e with EList => Some KList | EMap => Some KMap | ENode => Some KNode | _ => None end.

  Lemma begin_container e k mk fr r st :
    begin_kind e = Some k ->
    stack st = mkframes mk false ++ fr :: r ->
    plain fr = true ->
    exists st', step uc tc st e = ROk st' /\
                stack st' = new_frame k (next st + 1) :: mkframes mk true ++ fr :: r /\
                tobj st' = tobj st /\ marked st' = marked st /\ pending st' = pending st.
  Proof.
    intros Hk Hst Hpl.
    assert (Hstep : step uc tc st e =
                    match stack st with fr :: below => recv_begin uc tc k [] fr below st | [] => RPanic st end).
    { destruct e; try discriminate; inversion Hk; subst; reflexivity. }
    rewrite Hstep, Hst. destruct mk as [id|]; cbn [mkframes app].
    - rewrite recv_begin_marker, recv_begin_plain by exact Hpl.
      eexists. split; [reflexivity|]. cbn. auto.
    - rewrite recv_begin_plain by exact Hpl. eexists. split; [reflexivity|]. cbn. auto.
  Qed.

  (* a finished container handed to the builder below (through its marker, if any) *)
  Lemma finish_container v mk base st s' t' :
    stack st = mkframes mk true ++ base ->
    pending st = [] ->
    has_hole v = false ->
    put v true base (tobj st) = Some (s', t') ->
    (forall id, mk = Some id -> mem_id id (map fst (marked st)) = false) ->
    exists st', notify_done v st = ROk st' /\ stack st' = s' /\ tobj st' = t' /\
                marked st' = mkentry mk v ++ marked st /\ pending st' = [].
  Proof.
    intros Hst Hp Hh Hput Hfresh. unfold notify_done. rewrite Hst.
    pose proof (snap_no_hole v Hh) as Hsnap.
    destruct base as [|fr r]; [destruct mk; discriminate|].
    destruct mk as [id|]; cbn [mkframes app mkentry length].
    - specialize (Hfresh id eq_refl).
      cbn [done_to]. rewrite Hst. cbn [mkframes app].
      rewrite notify_marker_nopending by exact Hp. cbn [rbind].
      cbn [marked set_refs lookup_marked]. rewrite bytes_eqb_refl.
      cbn [stack set_refs tl]. rewrite Hst. cbn [mkframes app tl].
      rewrite filter_fresh by exact Hfresh.
      destruct fr; cbn [put] in Hput; try discriminate; cbn [done_to stack set_stack set_refs].
      + destruct (tobj st) eqn:Et; [|discriminate]. inversion Hput; subst.
        eexists. split; [reflexivity|]. cbn. auto.
      + inversion Hput; subst. rewrite Hsnap. eexists. split; [reflexivity|]. cbn. auto.
      + destruct rec; [destruct key, want_value; discriminate|]. rewrite Hsnap.
        destruct want_value.
        * destruct key as [k|]; [|discriminate]. destruct (hashable k) eqn:Hk; [|discriminate].
          inversion Hput; subst. cbn [map_store]. rewrite Hk.
          eexists. split; [reflexivity|]. cbn. auto.
        * destruct key; inversion Hput; subst; cbn [map_store];
            (eexists; split; [reflexivity|]; cbn; auto).
      + destruct children_mode; [discriminate|]. inversion Hput; subst. rewrite Hsnap.
        eexists. split; [reflexivity|]. cbn. auto.
    - destruct fr; cbn [put] in Hput; try discriminate; cbn [done_to]; rewrite Hst; cbn [mkframes app].
      + destruct (tobj st) eqn:Et; [|discriminate]. inversion Hput; subst.
        eexists. split; [reflexivity|]. cbn. auto.
      + inversion Hput; subst. rewrite Hsnap. eexists. split; [reflexivity|]. cbn. auto.
      + destruct rec; [destruct key, want_value; discriminate|]. rewrite Hsnap.
        destruct want_value.
        * destruct key as [k|]; [|discriminate]. destruct (hashable k) eqn:Hk; [|discriminate].
          inversion Hput; subst. cbn [map_store]. rewrite Hk.
          eexists. split; [reflexivity|]. cbn. auto.
        * destruct key; inversion Hput; subst; cbn [map_store];
            (eexists; split; [reflexivity|]; cbn; auto).
      + destruct children_mode; [discriminate|]. inversion Hput; subst. rewrite Hsnap.
        eexists. split; [reflexivity|]. cbn. auto.
  Qed.

  (* a reference to a marker that is already complete *)
  Lemma ref_arrival id v fr r st s' t' :
    stack st = fr :: r ->
    lookup_marked id (marked st) = Some v ->
    has_hole v = false ->
    (match fr with FTop => False | _ => True end) ->
    put v false (fr :: r) (tobj st) = Some (s', t') ->
    (match fr with FMap _ _ _ false _ => False | _ => True end) ->
    exists st', step uc tc st (ERefLocal id) = ROk st' /\ stack st' = s' /\ tobj st' = t' /\
                marked st' = marked st /\ pending st' = pending st.
  Proof.
    intros Hst Hl Hh Hnt Hput Hnk. cbn [step]. rewrite Hst. unfold recv_ref.
    pose proof (snap_no_hole v Hh) as Hsnap.
    destruct fr; cbn [put] in Hput; try discriminate; try contradiction.
    - inversion Hput; subst. cbn [send_key marked bump]. rewrite Hl, Hsnap.
      eexists. split; [reflexivity|]. cbn. auto.
    - destruct rec; [destruct key, want_value; discriminate|].
      destruct want_value; [|contradiction].
      destruct key as [k|]; [|discriminate]. destruct (hashable k) eqn:Hk; [|discriminate].
      inversion Hput; subst. cbn [send_key marked bump]. rewrite Hl, Hk, Hsnap.
      eexists. split; [reflexivity|]. cbn. auto.
    - destruct children_mode; [discriminate|]. inversion Hput; subst.
      cbn [send_key marked bump]. rewrite Hl, Hsnap.
      eexists. split; [reflexivity|]. cbn. auto.
  Qed.
End Containers.

(* ------------------------------------------------------------------ *)
(* Leaves of the fragment                                               *)
(* ------------------------------------------------------------------ *)

(* values that may be map keys in the fragment: comparable, compared by content *)
Definition keyval (x : uval) : bool :=
  match x with
  | UBool _ | UInt _ | UUint _ | UStr _ | UUid _ | UCTime _ => true
  | UTime i o => bytes_eqb i o
  | _ => false
  end.

Lemma keyval_hashable x : keyval x = true -> hashable x = true.
Proof. destruct x; cbn; congruence. Qed.

Lemma keyval_no_hole x : keyval x = true -> has_hole x = false.
Proof. destruct x; cbn; congruence. Qed.

Lemma keyval_eq a b :
  keyval a = true -> keyval b = true -> key_eqb a b = true -> dkey_eqb (to_dv a) (to_dv b) = true.
Proof.
  destruct a, b; cbn [keyval key_eqb to_dv dkey_eqb]; try congruence; try (intros _ _ H; exact H).
  - intros _ _ H. apply N.eqb_eq in H. subst. apply Z.eqb_refl.
  - intros Ha Hb H. apply bytes_eqb_eq in Ha, Hb, H. subst. apply bytes_eqb_eq. reflexivity.
Qed.

Section Leaves.
  Variable uc : bytes -> option bytes.
  Variable tc : bytes -> option (bytes * bytes).

  Lemma url_ok_conv s : url_ok uc s = true -> uc s = Some s.
  Proof.
    unfold url_ok. destruct (uc s) as [o|]; [|discriminate].
    intro H. apply bytes_eqb_eq in H. subst. reflexivity.
  Qed.

  Lemma mod_nat_of_N (n : nat) (w : N) :
    0 < w -> N.of_nat n mod w = 0 -> (n mod N.to_nat w = 0)%nat.
  Proof.
    intros Hw H. rewrite <- (Nat2N.id n) at 1. rewrite <- N2Nat.inj_mod. rewrite H. reflexivity.
  Qed.

  Lemma wide_conv T w data n :
    0 < w -> bytes_wfb data = true -> N.of_nat (length data) mod w = 0 ->
    conv uc tc n (SArr T data) = Some (UTyped T (bytes_to_slice w data)) ->
    typed_bytes T (bytes_to_slice w data) = slice_to_bytes w (bytes_to_slice w data) ->
    array_dv T data = DArr T data ->
    exists x, conv uc tc n (SArr T data) = Some x /\ to_dv x = array_dv T data /\ has_hole x = false.
  Proof.
    intros Hw Hwf Hm Hc Ht Ha. eexists. split; [exact Hc|]. split; [|reflexivity].
    cbn [to_dv]. rewrite Ht, Ha.
    rewrite slice_to_bytes_of_bytes_to_slice_exact; [reflexivity|exact Hw| |].
    - apply bytes_wfb_wf. exact Hwf.
    - apply mod_nat_of_N; assumption.
  Qed.

  Lemma array_conv t data n :
    array_ok uc t data = true ->
    exists x, conv uc tc n (SArr t data) = Some x /\ to_dv x = array_dv t data /\ has_hole x = false.
  Proof.
    unfold array_ok. intro H. repeat (apply orb_true_iff in H as [H|H]).
    - apply N.eqb_eq in H. subst. eexists. split; [reflexivity|]. split; reflexivity.
    - apply N.eqb_eq in H. subst. eexists. split; [reflexivity|]. split; reflexivity.
    - apply andb_true_iff in H as [H Hu]. apply N.eqb_eq in H. subst.
      apply url_ok_conv in Hu. cbn. unfold rid_value. rewrite Hu.
      eexists. split; [reflexivity|]. split; reflexivity.
    - apply andb_true_iff in H as [H Hm]. apply andb_true_iff in H as [Hw Hwf].
      apply N.eqb_eq in Hm. apply negb_true_iff in Hw. apply N.eqb_neq in Hw.
      unfold wide_width in *.
      destruct (N.eqb_spec t AT_Uint16); [subst; apply (wide_conv AT_Uint16 2); try assumption; try reflexivity|].
      destruct (N.eqb_spec t AT_Int16); [subst; apply (wide_conv AT_Int16 2); try assumption; try reflexivity|].
      cbn [orb] in *.
      destruct (N.eqb_spec t AT_Uint32); [subst; apply (wide_conv AT_Uint32 4); try assumption; try reflexivity|].
      destruct (N.eqb_spec t AT_Int32); [subst; apply (wide_conv AT_Int32 4); try assumption; try reflexivity|].
      cbn [orb] in *.
      destruct (N.eqb_spec t AT_Uint64); [subst; apply (wide_conv AT_Uint64 8); try assumption; try reflexivity|].
      destruct (N.eqb_spec t AT_Int64); [subst; apply (wide_conv AT_Int64 8); try assumption; try reflexivity|].
      destruct (N.eqb_spec t AT_Float64); [subst; apply (wide_conv AT_Float64 8); try assumption; try reflexivity|].
      cbn [orb] in *.
      destruct (N.eqb_spec t AT_Int8); [subst; apply (wide_conv AT_Int8 1); try assumption; try reflexivity|].
      contradiction.
    - apply andb_true_iff in H as [H Hs]. apply andb_true_iff in H as [H Hm].
      apply andb_true_iff in H as [H Hwf]. apply N.eqb_eq in H, Hm. subst.
      eexists. split; [reflexivity|]. split; [|reflexivity].
      cbn [to_dv]. unfold typed_bytes. change (typed_width AT_Float32) with 4.
      change (AT_Float32 =? AT_Float32) with true.
      rewrite iter_tie_float32.
      + rewrite slice_to_bytes_of_bytes_to_slice_exact; [reflexivity|reflexivity| |].
        * apply bytes_wfb_wf. exact Hwf.
        * apply (mod_nat_of_N _ 4); [reflexivity|exact Hm].
      + apply Forall_forall. intros f Hf. rewrite forallb_forall in Hs.
        apply negb_true_iff. apply Hs. exact Hf.
  Qed.

  Lemma stringlike_conv t data n :
    stringlike_ok uc t data = true ->
    exists x, conv uc tc n (SStr t data) = Some x /\ to_dv x = array_dv t data /\ has_hole x = false.
  Proof.
    unfold stringlike_ok. intro H. apply orb_true_iff in H as [H|H].
    - apply N.eqb_eq in H. subst. eexists. split; [reflexivity|]. split; reflexivity.
    - apply andb_true_iff in H as [H Hu]. apply N.eqb_eq in H. subst.
      apply url_ok_conv in Hu. cbn. unfold rid_value. rewrite Hu.
      eexists. split; [reflexivity|]. split; reflexivity.
  Qed.

  Lemma time_conv_ok key s n :
    time_ok tc key s = true ->
    exists x, conv uc tc n (STime s) = Some x /\ to_dv x = DTime s /\ has_hole x = false /\
              (key = true -> keyval x = true).
  Proof.
    unfold time_ok. cbn [conv]. destruct (tc s) as [[i o]|].
    - intro H. apply andb_true_iff in H as [Ho Hi]. apply bytes_eqb_eq in Ho. subst.
      eexists. split; [reflexivity|]. split; [reflexivity|]. split; [reflexivity|].
      intro Hk. subst. cbn in Hi. cbn [keyval]. exact Hi.
    - intros _. eexists. split; [reflexivity|]. split; [reflexivity|]. split; [reflexivity|]. reflexivity.
  Qed.

  Lemma step_value e sc st :
    event_scalar e = Some sc -> step uc tc st e = on_scalar uc tc sc st.
  Proof. destruct e; cbn [event_scalar]; intro H; inversion H; subst; reflexivity. Qed.

  Lemma leaf_conv p e :
    leaf_ok uc tc p e = true ->
    exists sc d, event_scalar e = Some sc /\ event_dv e = Some d /\
      forall n, exists x, conv uc tc n sc = Some x /\ to_dv x = d /\ has_hole x = false /\
                          (p = PKey -> keyval x = true).
  Proof.
    intro H. destruct e; cbn [leaf_ok] in H; try discriminate;
      try (do 2 eexists; split; [reflexivity|]; split; [reflexivity|]; intro k0;
           eexists; split; [reflexivity|]; split; [reflexivity|]; split; [reflexivity|];
           intro Hp; subst; first [reflexivity | discriminate]).
    - (* ENegInt *)
      apply andb_true_iff in H as [H0 Hk]. apply negb_true_iff in H0.
      do 2 eexists. split; [reflexivity|]. split; [reflexivity|]. intro k.
      cbn [event_dv]. rewrite H0. unfold negint_scalar. rewrite H0.
      destruct (n <=? max_int64) eqn:Hm.
      + eexists. split; [reflexivity|]. split; [reflexivity|]. split; [reflexivity|]. reflexivity.
      + eexists. split; [reflexivity|]. split; [reflexivity|]. split; [reflexivity|].
        intro Hp. subst. cbn in Hk. congruence.
    - (* EBigInt *) destruct v; do 2 eexists; (split; [reflexivity|]); (split; [reflexivity|]); intro k0;
        eexists; (split; [reflexivity|]); (split; [reflexivity|]); (split; [reflexivity|]);
        intro Hp; subst; discriminate.
    - (* EBigFloat *) destruct v; do 2 eexists; (split; [reflexivity|]); (split; [reflexivity|]); intro k0;
        eexists; (split; [reflexivity|]); (split; [reflexivity|]); (split; [reflexivity|]);
        intro Hp; subst; discriminate.
    - (* EBigDecimal *) destruct v; do 2 eexists; (split; [reflexivity|]); (split; [reflexivity|]); intro k0;
        eexists; (split; [reflexivity|]); (split; [reflexivity|]); (split; [reflexivity|]);
        intro Hp; subst; discriminate.
    - (* ENan *)
      do 2 eexists. split; [reflexivity|]. split; [reflexivity|]. intro k0.
      eexists. split; [reflexivity|]. split; [destruct signaling; vm_compute; reflexivity|].
      split; [reflexivity|]. intro Hp; subst; discriminate.
    - (* EUid *)
      do 2 eexists. split; [reflexivity|]. split; [reflexivity|]. intro k0.
      cbn [conv]. rewrite H. eexists. split; [reflexivity|]. split; [reflexivity|]. split; reflexivity.
    - (* ETime *)
      do 2 eexists. split; [reflexivity|]. split; [reflexivity|]. intro k0.
      destruct (time_conv_ok (is_key p) s k0 H) as [x [Hc [Hd [Hh Hk]]]].
      exists x. split; [exact Hc|]. split; [exact Hd|]. split; [exact Hh|].
      intro Hp. subst. apply Hk. reflexivity.
    - (* EArray *)
      do 2 eexists. split; [reflexivity|]. split; [reflexivity|]. intro k0.
      destruct (is_key p) eqn:Hkp.
      + apply N.eqb_eq in H. subst. eexists. split; [reflexivity|]. split; [reflexivity|]. split; reflexivity.
      + destruct (array_conv t data k0 H) as [x [Hc [Hd Hh]]].
        exists x. split; [exact Hc|]. split; [exact Hd|]. split; [exact Hh|].
        intro Hp. subst. discriminate.
    - (* EStringArray *)
      do 2 eexists. split; [reflexivity|]. split; [reflexivity|]. intro k0.
      destruct (is_key p) eqn:Hkp.
      + apply N.eqb_eq in H. subst. eexists. split; [reflexivity|]. split; [reflexivity|]. split; reflexivity.
      + destruct (stringlike_conv t data k0 H) as [x [Hc [Hd Hh]]].
        exists x. split; [exact Hc|]. split; [exact Hd|]. split; [exact Hh|].
        intro Hp. subst. discriminate.
    - (* EMedia *)
      apply andb_true_iff in H as [Hk _].
      do 2 eexists. split; [reflexivity|]. split; [reflexivity|]. intro k0.
      eexists. split; [reflexivity|]. split; [reflexivity|]. split; [reflexivity|].
      intro Hp; subst; discriminate.
  Qed.
End Leaves.
