(* Lemmas about the untyped builder model (Model/Build.v), for C06.
   Main results:
   - [fragment_builds]: every document of the fragment [supported6] is built
     without a panic, and the data of the value built ([to_dv], which is what
     marshaling it again produces, [iterate_denotes]) are the data of the
     document with references replaced by their targets and markers dropped;
   - refutations of the full property on the constructs outside the fragment. *)
From CE Require Import Model.Build Proofs.ArraysProofs.
From Coq Require Import ZifyN ZifyNat ZifyBool.
Open Scope N_scope.

#[local] Arguments N.pow : simpl never.
#[local] Arguments N.div : simpl never.
#[local] Arguments N.modulo : simpl never.
#[local] Arguments N.mul : simpl never.

(* ------------------------------------------------------------------ *)
(* Running a list of events                                             *)
(* ------------------------------------------------------------------ *)

Section Exec.
  Variable uc : bytes -> option bytes.
  Variable tc : bytes -> option (bytes * bytes).

  Fixpoint exec (st : mstate) (es : list event) : res :=
    match es with
    | [] => ROk st
    | e :: r => rbind (step uc tc st e) (fun s => exec s r)
    end.

  Lemma run_exec es : forall st i, fst (run uc tc st es i) = exec st es.
  Proof.
    induction es as [|e r IH]; intros st i; cbn [run exec].
    - reflexivity.
    - destruct (step uc tc st e) as [s|s]; cbn [rbind].
      + apply IH.
      + reflexivity.
  Qed.

  Lemma exec_app a b : forall st, exec st (a ++ b) = rbind (exec st a) (fun s => exec s b).
  Proof.
    induction a as [|e r IH]; intro st; cbn [app exec].
    - reflexivity.
    - destruct (step uc tc st e) as [s|s]; cbn [rbind].
      + apply IH.
      + reflexivity.
  Qed.

  Lemma exec_app_ok a b st s : exec st a = ROk s -> exec st (a ++ b) = exec s b.
  Proof. intro H. rewrite exec_app, H. reflexivity. Qed.

  Lemma exec_cons e r st : exec st (e :: r) = rbind (step uc tc st e) (fun s => exec s r).
  Proof. reflexivity. Qed.

  (* padding and comments do not reach any builder *)
  Lemma exec_strip es : forall st, exec st es = exec st (strip es).
  Proof.
    induction es as [|e r IH]; intro st.
    - reflexivity.
    - unfold strip. cbn [filter]. fold (strip r).
      destruct e; cbn [is_trivia negb exec]; try (destruct (step uc tc st _); cbn [rbind]; [apply IH|reflexivity]).
      + cbn [step rbind]. apply IH.
      + cbn [step rbind]. apply IH.
  Qed.
End Exec.

(* ------------------------------------------------------------------ *)
(* Induction on document trees                                          *)
(* ------------------------------------------------------------------ *)

Section DtInd.
  Variable P : dt -> Prop.
  Hypothesis Hleaf : forall e, P (TLeaf e).
  Hypothesis Hchunk : forall b body, P (TChunked b body).
  Hypothesis Hlist : forall l, Forall P l -> P (TList l).
  Hypothesis Hmap : forall kvs, Forall (fun kv => P (fst kv) /\ P (snd kv)) kvs -> P (TMap kvs).
  Hypothesis Hnode : forall v ch, P v -> Forall P ch -> P (TNode v ch).
  Hypothesis Hedge : forall a b c, P a -> P b -> P c -> P (TEdge a b c).
  Hypothesis Hrec : forall n vals, Forall P vals -> P (TRecord n vals).
  Hypothesis Hmark : forall id t, P t -> P (TMark id t).
  Hypothesis Href : forall id, P (TRef id).

  Fixpoint dt_ind2 (t : dt) : P t :=
    let all := fix all (l : list dt) : Forall P l :=
      match l with
      | [] => Forall_nil P
      | x :: r => Forall_cons x (dt_ind2 x) (all r)
      end in
    match t with
    | TLeaf e => Hleaf e
    | TChunked b body => Hchunk b body
    | TList l => Hlist l (all l)
    | TMap kvs =>
        Hmap kvs ((fix allp (l : list (dt * dt)) : Forall (fun kv => P (fst kv) /\ P (snd kv)) l :=
                     match l with
                     | [] => Forall_nil _
                     | (k, v) :: r => Forall_cons (k, v) (conj (dt_ind2 k) (dt_ind2 v)) (allp r)
                     end) kvs)
    | TNode v ch => Hnode v ch (dt_ind2 v) (all ch)
    | TEdge a b c => Hedge a b c (dt_ind2 a) (dt_ind2 b) (dt_ind2 c)
    | TRecord n vals => Hrec n vals (all vals)
    | TMark id t' => Hmark id t' (dt_ind2 t')
    | TRef id => Href id
    end.
End DtInd.

(* ------------------------------------------------------------------ *)
(* Values without placeholders; the marker table and its data            *)
(* ------------------------------------------------------------------ *)

Lemma snap_no_hole v : has_hole v = false -> snap v = v.
Proof.
  destruct v; try reflexivity. cbn [has_hole snap].
  destruct v; try reflexivity. cbn [has_hole orb]. discriminate.
Qed.

Lemma existsb_app_false {A} (f : A -> bool) a b :
  existsb f a = false -> existsb f b = false -> existsb f (a ++ b) = false.
Proof. intros Ha Hb. rewrite existsb_app, Ha, Hb. reflexivity. Qed.

(* the marker table seen as data *)
Definition env_data (m : list (bytes * uval)) : denv := map (fun iv => (fst iv, to_dv (snd iv))) m.
Definition env_clean (m : list (bytes * uval)) : Prop := Forall (fun iv => has_hole (snd iv) = false) m.

Lemma lookup_env_data id m :
  env_lookup id (env_data m) = option_map to_dv (lookup_marked id m).
Proof.
  induction m as [|[i v] r IH]; cbn [env_data map env_lookup lookup_marked fst snd option_map].
  - reflexivity.
  - destruct (bytes_eqb i id); [reflexivity|]. exact IH.
Qed.

Lemma lookup_clean id m v : env_clean m -> lookup_marked id m = Some v -> has_hole v = false.
Proof.
  induction m as [|[i x] r IH]; cbn [lookup_marked]; intros Hc H.
  - discriminate.
  - inversion Hc as [|? ? Hx Hr]; subst. destruct (bytes_eqb i id).
    + inversion H; subst. exact Hx.
    + apply IH; assumption.
Qed.

Lemma mem_id_lookup id m : mem_id id (map fst m) = false -> lookup_marked id m = None.
Proof.
  induction m as [|[i v] r IH]; cbn [map fst mem_id lookup_marked].
  - reflexivity.
  - intro H. apply orb_false_iff in H as [H1 H2]. rewrite H1. apply IH, H2.
Qed.

Lemma lookup_mem_id id m : mem_id id (map fst m) = true -> exists v, lookup_marked id m = Some v.
Proof.
  induction m as [|[i v] r IH]; cbn [map fst mem_id lookup_marked].
  - discriminate.
  - intro H. destruct (bytes_eqb i id).
    + eexists; reflexivity.
    + apply IH. exact H.
Qed.

Lemma filter_fresh id (m : list (bytes * uval)) :
  mem_id id (map fst m) = false ->
  filter (fun '(i, _) => negb (bytes_eqb i id)) m = m.
Proof.
  induction m as [|[i v] r IH]; cbn [map fst mem_id filter].
  - reflexivity.
  - intro H. apply orb_false_iff in H as [H1 H2]. rewrite H1. cbn [negb]. rewrite IH by exact H2. reflexivity.
Qed.

(* ------------------------------------------------------------------ *)
(* One value arriving at a builder                                      *)
(* ------------------------------------------------------------------ *)

(* the effect of a finished value on the builder at the top of [base]
   (isc: the value is a container, which matters only for the top-level builder) *)
Definition put (v : uval) (isc : bool) (base : list frame) (tob : topobj) : option (list frame * topobj) :=
  match base with
  | FTop :: r => match tob with
                 | TSlot _ => Some (FTop :: r, if isc then TDone v else TSlot v)
                 | TDone _ => None
                 end
  | FSlice l :: r => Some (FSlice (l ++ [v]) :: r, tob)
  | FMap id kvs key false None :: r => Some (FMap id kvs (Some v) true None :: r, tob)
  | FMap id kvs (Some k) true None :: r =>
      if hashable k then Some (FMap id (assoc_set k v kvs) (Some k) false None :: r, tob) else None
  | FNode false _ :: r => Some (FSlice [] :: FNode true v :: r, tob)
  | _ => None
  end.

Definition mkframes (mk : option bytes) (isc : bool) : list frame :=
  match mk with Some id => [FMarker id isc] | None => [] end.
Definition mkentry (mk : option bytes) (v : uval) : list (bytes * uval) :=
  match mk with Some id => [(id, v)] | None => [] end.
Definition node_top (base : list frame) : bool :=
  match base with FNode _ _ :: _ => true | _ => false end.

Section Arrival.
  Variable uc : bytes -> option bytes.
  Variable tc : bytes -> option (bytes * bytes).

  Lemma notify_marker_nopending id v st :
    pending st = [] ->
    notify_marker id v st =
    ROk (set_refs st ((id, v) :: filter (fun '(i, _) => negb (bytes_eqb i id)) (marked st)) []).
  Proof. intro H. unfold notify_marker. rewrite H. reflexivity. Qed.

  (* unfolding recv_scalar at the builders that take values *)
  Lemma recv_scalar_top sc above below st :
    recv_scalar uc tc sc above FTop below st =
    match conv uc tc (next st) sc with
    | None => RPanic (set_stack (bump st) (above ++ FTop :: below))
    | Some x => match tobj st with
                | TSlot _ => ROk (set_tobj (set_stack (bump st) (above ++ FTop :: below)) (TSlot x))
                | TDone _ => RPanic (set_stack (bump st) (above ++ FTop :: below))
                end
    end.
  Proof. destruct below; reflexivity. Qed.

  Lemma recv_scalar_slice sc above l below st :
    recv_scalar uc tc sc above (FSlice l) below st =
    match conv uc tc (next st) sc with
    | None => RPanic (set_stack (bump st) (above ++ FSlice l :: below))
    | Some x => ROk (set_stack (bump st) (above ++ FSlice (l ++ [x]) :: below))
    end.
  Proof. destruct below; reflexivity. Qed.

  Lemma recv_scalar_map sc above id kvs key w below st :
    recv_scalar uc tc sc above (FMap id kvs key w None) below st =
    match conv uc tc (next st) sc with
    | None => RPanic (set_stack (bump st) (above ++ FMap id kvs key w None :: below))
    | Some x => match map_store x id kvs key w None with
                | Some fr' => ROk (set_stack (bump st) (above ++ fr' :: below))
                | None => RPanic (set_stack (bump st) (above ++ FMap id kvs key w None :: below))
                end
    end.
  Proof. destruct below; reflexivity. Qed.

  Lemma recv_scalar_node sc above cm v below st :
    recv_scalar uc tc sc above (FNode cm v) below st =
    match conv uc tc (next st) sc with
    | None => RPanic (set_stack (bump st) (above ++ FNode cm v :: below))
    | Some x => ROk (set_stack (bump st) (FSlice [] :: above ++ FNode true x :: below))
    end.
  Proof. destruct below; reflexivity. Qed.

  Lemma recv_scalar_marker sc above id isc child below st :
    recv_scalar uc tc sc above (FMarker id isc) (child :: below) st =
    rbind (recv_scalar uc tc sc (above ++ [FMarker id isc]) child below st)
          (fun st1 => if isc then ROk st1
                      else match conv uc tc (next st) sc with
                           | Some x => notify_marker id x (set_stack st1 (tl (stack st1)))
                           | None => RPanic st1
                           end).
  Proof. reflexivity. Qed.

  Lemma scalar_arrival sc x mk base st s' t' :
    stack st = mkframes mk false ++ base ->
    pending st = [] ->
    conv uc tc (next st) sc = Some x ->
    put x false base (tobj st) = Some (s', t') ->
    (mk <> None -> node_top base = false) ->
    (forall id, mk = Some id -> mem_id id (map fst (marked st)) = false) ->
    exists st', on_scalar uc tc sc st = ROk st' /\ stack st' = s' /\ tobj st' = t' /\
                marked st' = mkentry mk x ++ marked st /\ pending st' = [].
  Proof.
    intros Hst Hp Hc Hput Hnode Hfresh. unfold on_scalar. rewrite Hst.
    destruct base as [|fr r]; [destruct mk; discriminate|].
    destruct mk as [id|]; cbn [mkframes app mkentry].
    - (* through a marker *)
      specialize (Hnode ltac:(discriminate)). specialize (Hfresh id eq_refl).
      rewrite recv_scalar_marker. cbn [app].
      destruct fr; cbn [put node_top] in Hput, Hnode; try discriminate.
      + (* FTop *)
        rewrite recv_scalar_top, Hc. destruct (tobj st) eqn:Et; [|discriminate].
        inversion Hput; subst. cbn [rbind].
        cbn [stack set_tobj set_stack app tl].
        rewrite notify_marker_nopending by exact Hp.
        eexists. split; [reflexivity|]. cbn.
        rewrite filter_fresh by exact Hfresh. auto.
      + (* FSlice *)
        rewrite recv_scalar_slice, Hc. inversion Hput; subst. cbn [rbind].
        cbn [stack set_stack app tl].
        rewrite notify_marker_nopending by exact Hp.
        eexists. split; [reflexivity|]. cbn.
        rewrite filter_fresh by exact Hfresh. auto.
      + (* FMap *)
        destruct rec; [destruct want_value; discriminate|].
        rewrite recv_scalar_map, Hc.
        destruct want_value.
        * destruct key as [k|]; [|discriminate]. destruct (hashable k) eqn:Hh; [|discriminate].
          inversion Hput; subst. cbn [map_store]. rewrite Hh. cbn [rbind].
          cbn [stack set_stack app tl].
          rewrite notify_marker_nopending by exact Hp.
          eexists. split; [reflexivity|]. cbn.
          rewrite filter_fresh by exact Hfresh. auto.
        * inversion Hput; subst. cbn [map_store rbind].
          cbn [stack set_stack app tl].
          rewrite notify_marker_nopending by exact Hp.
          eexists. split; [reflexivity|]. cbn.
          rewrite filter_fresh by exact Hfresh. auto.
    - (* directly *)
      destruct fr; cbn [put] in Hput; try discriminate.
      + rewrite recv_scalar_top, Hc. destruct (tobj st) eqn:Et; [|discriminate].
        inversion Hput; subst. eexists. split; [reflexivity|]. cbn. auto.
      + rewrite recv_scalar_slice, Hc. inversion Hput; subst.
        eexists. split; [reflexivity|]. cbn. auto.
      + destruct rec; [destruct want_value; discriminate|].
        rewrite recv_scalar_map, Hc. destruct want_value.
        * destruct key as [k|]; [|discriminate]. destruct (hashable k) eqn:Hh; [|discriminate].
          inversion Hput; subst. cbn [map_store]. rewrite Hh.
          eexists. split; [reflexivity|]. cbn. auto.
        * inversion Hput; subst. cbn [map_store].
          eexists. split; [reflexivity|]. cbn. auto.
      + destruct children_mode; [discriminate|]. rewrite recv_scalar_node, Hc.
        inversion Hput; subst. eexists. split; [reflexivity|]. cbn. auto.
  Qed.
End Arrival.
