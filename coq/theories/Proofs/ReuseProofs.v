(* C16 — proofs about the reuse machines of Model/Reuse.v. *)
From CE Require Import Model.Rules Model.Reuse.
From CE Require Model.Cbe.
From Coq Require Import ZifyN ZifyNat ZifyBool.
Open Scope N_scope.

(* ------------------------------------------------------------------ *)
(* Generic: an invariant that makes every call answer like a fresh one  *)
(* ------------------------------------------------------------------ *)

Section Machine.
  Context {S Op Obs : Type}.
  Variable init : S.
  Variable call : S -> Op -> S * Obs.
  Variable Inv : S -> Prop.          (* "behaves like a fresh instance" *)
  Variable Good : Op -> Prop.        (* operations that keep it so *)

  Hypothesis inv_init : Inv init.
  Hypothesis inv_obs : forall s op, Inv s -> snd (call s op) = snd (call init op).
  Hypothesis inv_step : forall s op, Inv s -> Good op -> Inv (fst (call s op)).

  Lemma run_hist_inv : forall h s, Inv s -> Forall Good h -> Inv (run_hist call s h).
  Proof.
    induction h as [|op h IH]; intros s Hs Hh; simpl; [exact Hs|].
    inversion Hh; subst. apply IH; [apply inv_step; assumption | assumption].
  Qed.

  Theorem reuse_eq_fresh_when : forall h op,
    Forall Good h -> run_reused init call h op = run_fresh init call op.
  Proof.
    intros h op Hh. unfold run_reused, run_fresh. apply inv_obs.
    apply run_hist_inv; assumption.
  Qed.
End Machine.

Section PairProofs.
  Context {S1 S2 Op1 Op2 Obs1 Obs2 : Type}.
  Variable init1 : S1.
  Variable call1 : S1 -> Op1 -> S1 * Obs1.
  Variable init2 : S2.
  Variable call2 : S2 -> Op2 -> S2 * Obs2.

  Lemma run_hist_pair : forall h s1 s2,
    run_hist (call_pair call1 call2) (s1, s2) h
    = (run_hist call1 s1 (map fst h), run_hist call2 s2 (map snd h)).
  Proof. induction h as [|op h IH]; intros s1 s2; simpl; [reflexivity|]. apply IH. Qed.

  (* the owner behaves like a fresh one as soon as each part does *)
  Lemma pair_reuse h op :
    run_reused init1 call1 (map fst h) (fst op) = run_fresh init1 call1 (fst op) ->
    run_reused init2 call2 (map snd h) (snd op) = run_fresh init2 call2 (snd op) ->
    run_reused (init1, init2) (call_pair call1 call2) h op
    = run_fresh (init1, init2) (call_pair call1 call2) op.
  Proof.
    unfold run_reused, run_fresh. rewrite run_hist_pair. unfold call_pair. simpl.
    intros -> ->. reflexivity.
  Qed.
End PairProofs.

Lemma Forall_True {A} (l : list A) : Forall (fun _ => True) l.
Proof. induction l; constructor; auto. Qed.

(* ------------------------------------------------------------------ *)
(* 2. CBE reader                                                        *)
(* ------------------------------------------------------------------ *)

Lemma reader_call_any max r reads : reader_call max r reads = reader_call max reader_init reads.
Proof. reflexivity. Qed.

Lemma reader_reuse max h reads :
  run_reused reader_init (reader_call max) h reads = run_fresh reader_init (reader_call max) reads.
Proof.
  unfold run_reused, run_fresh. rewrite reader_call_any. reflexivity.
Qed.

(* without the reset in SetReader the property fails: three documents of 8 bytes
   each under a limit of 20 (the count runs on), and, with no limit in the way,
   the end of the first document is still pending when the second one starts *)
Lemma reader_noreset_refuted :
  exists max h reads,
    run_reused reader_init (reader_call_noreset max) h reads
    <> run_fresh reader_init (reader_call_noreset max) reads.
Proof.
  exists 20, [[(1, false); (1, false); (6, false)]; [(1, false); (1, false); (6, false)]],
         [(1, false); (1, false); (6, false)].
  vm_compute. discriminate.
Qed.
Example reader_noreset_pending :
  run_reused reader_init (reader_call_noreset 1000) [[(3, false); (0, true)]] [(3, false); (0, true)] = (0, RPending) /\
  run_fresh reader_init (reader_call_noreset 1000) [(3, false); (0, true)] = (2, RDone).
Proof. vm_compute. split; reflexivity. Qed.

(* ------------------------------------------------------------------ *)
(* 3. CBE encoder                                                       *)
(* ------------------------------------------------------------------ *)

(* arrayType is only read while trySmallArrayHeader is set *)
Definition enc_eqv (a b : Cbe.enc_state) : Prop :=
  Cbe.es_try_small a = Cbe.es_try_small b /\
  (Cbe.es_try_small a = true -> Cbe.es_array_type a = Cbe.es_array_type b).

Definition enc_step_rel (x y : option (Cbe.enc_state * bytes)) : Prop :=
  match x, y with
  | Some (a', o1), Some (b', o2) => enc_eqv a' b' /\ o1 = o2
  | None, None => True
  | _, _ => False
  end.

Lemma enc_eqv_refl a : enc_eqv a a.
Proof. split; auto. Qed.

Lemma keep_rel a b (o : option bytes) : enc_eqv a b ->
  enc_step_rel (Cbe.opt_map (fun x => (a, x)) o) (Cbe.opt_map (fun x => (b, x)) o).
Proof. intro H. destruct o; simpl; auto. Qed.

Lemma enc_step_rel_refl x : enc_step_rel x x.
Proof. destruct x as [[a o]|]; simpl; auto using enc_eqv_refl. Qed.

Lemma enc_event_eqv a b e : enc_eqv a b ->
  enc_step_rel (Cbe.cbe_encode_event a e) (Cbe.cbe_encode_event b e).
Proof.
  intro H. destruct e; unfold Cbe.cbe_encode_event;
    try (apply keep_rel; exact H);
    try (destruct v; apply keep_rel; exact H);
    try apply enc_step_rel_refl.
  - (* EEndDoc *)
    destruct H as [H1 H2]. destruct a as [ta sa], b as [tb sb]; simpl in H1, H2; subst sb; simpl.
    destruct sa.
    + rewrite (H2 eq_refl). apply enc_step_rel_refl.
    + simpl. split; [split; simpl; auto; discriminate | reflexivity].
  - (* EArrayChunk *)
    destruct H as [H1 H2]. destruct a as [ta sa], b as [tb sb]; simpl in H1, H2; subst sb; simpl.
    destruct sa.
    + rewrite (H2 eq_refl). apply enc_step_rel_refl.
    + unfold Cbe.guard. destruct (Cbe.is_u64 n); simpl; auto.
      split; [split; simpl; auto; discriminate | reflexivity].
Qed.

Lemma enc_run_eqv es : forall a b i out, enc_eqv a b ->
  enc_eqv (fst (cbe_enc_run a i es out)) (fst (cbe_enc_run b i es out)) /\
  snd (cbe_enc_run a i es out) = snd (cbe_enc_run b i es out).
Proof.
  induction es as [|e es IH]; intros a b i out H; simpl; [auto|].
  pose proof (enc_event_eqv a b e H) as R. unfold enc_step_rel in R.
  destruct (Cbe.cbe_encode_event a e) as [[a' o1]|], (Cbe.cbe_encode_event b e) as [[b' o2]|];
    try contradiction.
  - destruct R as [R1 R2]. subst o2. apply IH. exact R1.
  - simpl. auto.
Qed.

(* PrepareToEncode makes the history irrelevant *)
Lemma cbe_enc_call_any st es : cbe_enc_call st es = cbe_enc_call Cbe.enc_init es.
Proof. reflexivity. Qed.

Lemma cbe_enc_reuse h es :
  run_reused Cbe.enc_init cbe_enc_call h es = run_fresh Cbe.enc_init cbe_enc_call es.
Proof. unfold run_reused, run_fresh. rewrite cbe_enc_call_any. reflexivity. Qed.

(* What the reset is needed for.  Without it the array state of the previous
   document decides: the encoder answers like a fresh one exactly as long as no
   OnArrayBegin is pending ... *)
Definition enc_clean (st : Cbe.enc_state) : Prop := enc_dangling st = false.

Lemma enc_clean_eqv st : enc_clean st -> enc_eqv st Cbe.enc_init.
Proof. unfold enc_clean, enc_dangling. intro H. split; simpl; [exact H | rewrite H; discriminate]. Qed.

Lemma cbe_enc_noreset_clean h es :
  enc_dangling (run_hist cbe_enc_call_noreset Cbe.enc_init h) = false ->
  run_reused Cbe.enc_init cbe_enc_call_noreset h es = run_fresh Cbe.enc_init cbe_enc_call_noreset es.
Proof. intro H. unfold run_reused, run_fresh, cbe_enc_call_noreset. apply enc_run_eqv, enc_clean_eqv, H. Qed.

(* ... and a document aborted after an array begin leaves a stray array header in the next one *)
Lemma cbe_enc_noreset_refuted : exists h es,
  run_reused Cbe.enc_init cbe_enc_call_noreset h es <> run_fresh Cbe.enc_init cbe_enc_call_noreset es.
Proof.
  exists [[EBeginDoc; EVersion 0; EList; EArrayBegin CbeConsts.cbeAT_Uint8]], [EBeginDoc; EVersion 0; ENull; EEndDoc].
  vm_compute. discriminate.
Qed.

(* the pinned witness: with the reset both give 81 00 7d; without it the reused one gave 81 00 7d 93 *)
Example cbe_enc_witness :
  run_reused Cbe.enc_init cbe_enc_call [[EBeginDoc; EVersion 0; EList; EArrayBegin CbeConsts.cbeAT_Uint8]]
             [EBeginDoc; EVersion 0; ENull; EEndDoc] = (None, [129; 0; 125]) /\
  run_fresh Cbe.enc_init cbe_enc_call [EBeginDoc; EVersion 0; ENull; EEndDoc] = (None, [129; 0; 125]) /\
  run_reused Cbe.enc_init cbe_enc_call_noreset [[EBeginDoc; EVersion 0; EList; EArrayBegin CbeConsts.cbeAT_Uint8]]
             [EBeginDoc; EVersion 0; ENull; EEndDoc] = (None, [129; 0; 125; 147]).
Proof. vm_compute. repeat split. Qed.

(* ------------------------------------------------------------------ *)
(* 5. Type caches                                                       *)
(* ------------------------------------------------------------------ *)

(* induction principle for the nested type *)
Section TyInd.
  Variable P : ty -> Prop.
  Hypothesis Hleaf : forall n, P (TLeaf n).
  Hypothesis Hbad : forall n, P (TBad n).
  Hypothesis Hcomp : forall n cs, Forall (fun c => P (snd c)) cs -> P (TComp n cs).
  Hypothesis Hdyn : forall t, P t -> P (TDyn t).
  Fixpoint ty_ind' (t : ty) : P t :=
    match t with
    | TLeaf n => Hleaf n
    | TBad n => Hbad n
    | TComp n cs =>
        Hcomp n cs ((fix go (l : list (bool * ty)) : Forall (fun c => P (snd c)) l :=
                       match l with
                       | [] => Forall_nil _
                       | c :: r => Forall_cons c (ty_ind' (snd c)) (go r)
                       end) cs)
    | TDyn u => Hdyn u (ty_ind' u)
    end.
End TyInd.

Fixpoint comps_eqb (l m : list (bool * ty)) : bool :=
  match l, m with
  | [], [] => true
  | (f, t) :: l', (g, u) :: m' => Bool.eqb f g && ty_eqb t u && comps_eqb l' m'
  | _, _ => false
  end.

Lemma ty_eqb_comp x cs y ds : ty_eqb (TComp x cs) (TComp y ds) = (x =? y) && comps_eqb cs ds.
Proof.
  simpl. apply f_equal. revert ds. induction cs as [|[f t] cs IH]; intros [|[g u] ds]; simpl; auto.
Qed.

Lemma ty_eqb_eq : forall a b, ty_eqb a b = true <-> a = b.
Proof.
  induction a as [n|n|n cs IH|t IH] using ty_ind'; intros b.
  - destruct b; simpl; try (split; [discriminate|discriminate]). rewrite N.eqb_eq. split; congruence.
  - destruct b; simpl; try (split; [discriminate|discriminate]). rewrite N.eqb_eq. split; congruence.
  - destruct b as [m|m|m ds|u]; try (simpl; split; discriminate).
    rewrite ty_eqb_comp, andb_true_iff, N.eqb_eq.
    assert (E : comps_eqb cs ds = true <-> cs = ds).
    { clear n m. revert ds. induction IH as [|[f t] cs Ht _ IHcs]; intros [|[g u] ds]; simpl;
        try (split; [discriminate|discriminate]); [tauto|].
      rewrite !andb_true_iff, Bool.eqb_true_iff, IHcs. simpl in Ht. rewrite Ht.
      split; [intros [[-> ->] ->]; reflexivity | intro E; inversion E; auto]. }
    rewrite E. split; [intros [-> ->]; reflexivity | intro H; inversion H; auto].
  - destruct b; simpl; try (split; discriminate). rewrite IH. split; congruence.
Qed.

Lemma ty_eqb_refl a : ty_eqb a a = true.
Proof. apply ty_eqb_eq. reflexivity. Qed.

(* ---- lookup / set_ready ---- *)
Lemma lookup_cons k k' st c :
  lookup k ((k', st) :: c) = if ty_eqb k k' then Some st else lookup k c.
Proof. reflexivity. Qed.

Lemma lookup_here k st c : lookup k ((k, st) :: c) = Some st.
Proof. simpl. rewrite ty_eqb_refl. reflexivity. Qed.

Lemma lookup_other k k' st c : k <> k' -> lookup k ((k', st) :: c) = lookup k c.
Proof.
  intro H. simpl. destruct (ty_eqb k k') eqn:E; [apply ty_eqb_eq in E; contradiction | reflexivity].
Qed.

Lemma lookup_set_ready_same k c : lookup k c <> None -> lookup k (set_ready k c) = Some true.
Proof.
  induction c as [|[k' st] c IH]; simpl; intro H; [contradiction|].
  destruct (ty_eqb k k') eqn:E; simpl; rewrite E; [reflexivity | apply IH, H].
Qed.

Lemma lookup_set_ready_other k k' c : k' <> k -> lookup k' (set_ready k c) = lookup k' c.
Proof.
  intro H. induction c as [|[k2 st] c IH]; simpl; [reflexivity|].
  destruct (ty_eqb k k2) eqn:E; simpl.
  - apply ty_eqb_eq in E. subst k2.
    destruct (ty_eqb k' k) eqn:E2; [apply ty_eqb_eq in E2; contradiction | reflexivity].
  - rewrite IH. reflexivity.
Qed.

Lemma lookup_set_ready_mono k u c : lookup u c = Some true -> lookup u (set_ready k c) = Some true.
Proof.
  intro H. destruct (ty_eqb u k) eqn:E.
  - apply ty_eqb_eq in E. subst u. apply lookup_set_ready_same. congruence.
  - rewrite lookup_set_ready_other; [exact H|]. intro; subst. rewrite ty_eqb_refl in E. discriminate.
Qed.

Lemma lookup_remove_same k c : lookup k (remove_key k c) = None.
Proof.
  induction c as [|[k' st] c IH]; simpl; [reflexivity|].
  destruct (ty_eqb k k') eqn:E; [exact IH|]. simpl. rewrite E. exact IH.
Qed.

Lemma lookup_remove_other k k' c : k' <> k -> lookup k' (remove_key k c) = lookup k' c.
Proof.
  intro H. induction c as [|[k2 st] c IH]; simpl; [reflexivity|].
  destruct (ty_eqb k k2) eqn:E.
  - apply ty_eqb_eq in E. subst k2.
    destruct (ty_eqb k' k) eqn:E2; [apply ty_eqb_eq in E2; contradiction | exact IH].
  - simpl. rewrite IH. reflexivity.
Qed.

Lemma remove_key_absent k c : lookup k c = None -> remove_key k c = c.
Proof.
  induction c as [|[k' st] c IH]; intro H; [reflexivity|].
  rewrite lookup_cons in H. cbn [remove_key]. destruct (ty_eqb k k'); [discriminate|].
  rewrite IH by exact H. reflexivity.
Qed.

(* ---- sizes ---- *)
Fixpoint tsize (t : ty) : nat :=
  match t with
  | TLeaf _ | TBad _ => 1
  | TComp _ cs => S (fold_right (fun c acc => tsize (snd c) + acc)%nat O cs)
  | TDyn u => S (tsize u)
  end.

Definition is_dyn (t : ty) : bool := match t with TDyn _ => true | _ => false end.

Lemma tsize_comp_lt n cs u : In u (map snd cs) -> (tsize u < tsize (TComp n cs))%nat.
Proof.
  simpl. induction cs as [|[f t] cs IH]; simpl; [tauto|].
  intros [->|H]; [lia | specialize (IH H); lia].
Qed.

Lemma erase_comp n cs : erase (TComp n cs) = TComp n (map (fun c => (false, erase (snd c))) cs).
Proof. reflexivity. Qed.

Lemma erase_comps_snd cs : map snd (map (fun c : bool * ty => (false, erase (snd c))) cs) = map (fun c => erase (snd c)) cs.
Proof. rewrite map_map. reflexivity. Qed.

Lemma is_dyn_erase t : is_dyn (erase t) = is_dyn t.
Proof. destruct t; reflexivity. Qed.

(* ---- the invariant ---- *)
Definition extends (c c' : cache) : Prop := forall k st, lookup k c = Some st -> lookup k c' = Some st.

Definition comps_ready (k : ty) (c : cache) : Prop :=
  match k with
  | TComp _ cs => forall u, In u (map snd cs) -> is_dyn u = true \/ lookup u c = Some true
  | _ => True
  end.

(* P: keys whose generation is in progress (placeholder stored, WaitGroup not yet released) *)
Definition GInv (P : list ty) (c : cache) : Prop :=
  forall k st, lookup k c = Some st ->
    (st = false /\ In k P) \/ (st = true /\ supported k = true /\ comps_ready k c).

Lemma extends_refl c : extends c c.
Proof. intros k st H; exact H. Qed.
Lemma extends_trans a b c : extends a b -> extends b c -> extends a c.
Proof. intros H1 H2 k st H. apply H2, H1, H. Qed.

Lemma comps_ready_mono k c c' : (forall u, lookup u c = Some true -> lookup u c' = Some true) ->
  comps_ready k c -> comps_ready k c'.
Proof.
  intros M H. destruct k; simpl in *; auto. intros u Hu. destruct (H u Hu) as [D|R]; auto.
Qed.

Lemma supported_erase_comp n cs :
  supported (erase (TComp n cs)) = forallb (fun c => supported (erase (snd c))) cs.
Proof.
  simpl. induction cs as [|c cs IH]; simpl; [reflexivity|]. rewrite IH. reflexivity.
Qed.

(* ---- gen ---- *)
Fixpoint gen_list (c : cache) (l : list (bool * ty)) : cache * bool :=
  match l with
  | [] => (c, true)
  | (_, u) :: l' => let '(c', ok) := gen c u in if ok then gen_list c' l' else (c', false)
  end.

Lemma gen_comp_unfold c n cs :
  gen c (TComp n cs) =
  let k := erase (TComp n cs) in
  match lookup k c with
  | Some _ => (c, true)
  | None =>
      let c1 := (k, false) :: c in
      let '(c2, ok) := gen_list c1 cs in
      if ok then (set_ready k c2, true) else (remove_key k c2, false)
  end.
Proof. reflexivity. Qed.

Definition present (t : ty) (c : cache) : Prop := is_dyn t = true \/ lookup (erase t) c = Some true.

Definition gen_ok (t : ty) : Prop :=
  forall c P, GInv P c -> (forall p, In p P -> (tsize (erase t) < tsize p)%nat) ->
    extends c (fst (gen c t)) /\
    snd (gen c t) = supported (erase t) /\
    GInv P (fst (gen c t)) /\
    (snd (gen c t) = true -> present t (fst (gen c t))).

Lemma GInv_cached_ready P c k st :
  GInv P c -> (forall p, In p P -> (tsize k < tsize p)%nat) -> lookup k c = Some st ->
  st = true /\ supported k = true.
Proof.
  intros G S L. destruct (G k st L) as [[_ I]|[-> [Sp _]]]; [|auto].
  specialize (S k I). lia.
Qed.

Lemma GInv_push P c k : GInv P c -> lookup k c = None -> GInv (k :: P) ((k, false) :: c).
Proof.
  intros G N k' st L. rewrite lookup_cons in L. destruct (ty_eqb k' k) eqn:E.
  - apply ty_eqb_eq in E. subst k'. inversion L; subst. left. split; [reflexivity | left; reflexivity].
  - destruct (G k' st L) as [[-> I]|[-> [Sp R]]].
    + left. split; [reflexivity | right; exact I].
    + right. repeat split; auto. eapply comps_ready_mono; [|exact R].
      intros u Hu. rewrite lookup_cons. destruct (ty_eqb u k) eqn:E2; [|exact Hu].
      apply ty_eqb_eq in E2. subst u. congruence.
Qed.

Lemma gen_leaf_ok n : gen_ok (TLeaf n).
Proof.
  intros c P G S. simpl. destruct (lookup (TLeaf n) c) as [st|] eqn:L; simpl.
  - destruct (GInv_cached_ready P c _ _ G S L) as [-> _].
    split; [apply extends_refl|split; [reflexivity|split; [exact G|intros _; right; exact L]]].
  - rewrite N.eqb_refl. simpl. split; [|split; [reflexivity|split; [|intros _]]].
    + intros k st H. rewrite lookup_cons. destruct (ty_eqb k (TLeaf n)) eqn:E; [|exact H].
      apply ty_eqb_eq in E. subst k. congruence.
    + intros k st H. rewrite lookup_cons in H. destruct (ty_eqb k (TLeaf n)) eqn:E.
      * apply ty_eqb_eq in E. subst k. inversion H; subst. right. repeat split; simpl; auto.
      * destruct (G k st H) as [[-> I]|[-> [Sp R]]]; [left; auto|right; repeat split; auto].
        eapply comps_ready_mono; [|exact R]. intros u Hu. rewrite lookup_cons.
        destruct (ty_eqb u (TLeaf n)) eqn:E2; [|exact Hu]. apply ty_eqb_eq in E2. subst u. congruence.
    + right. simpl. rewrite N.eqb_refl. reflexivity.
Qed.

Lemma gen_bad_ok n : gen_ok (TBad n).
Proof.
  intros c P G S. simpl. destruct (lookup (TBad n) c) as [st|] eqn:L; simpl.
  - destruct (GInv_cached_ready P c _ _ G S L) as [_ F]. simpl in F. discriminate.
  - rewrite N.eqb_refl. simpl.
    rewrite (remove_key_absent _ _ L). split; [apply extends_refl|split; [reflexivity|split; [exact G|discriminate]]].
Qed.

Lemma gen_dyn_ok t : gen_ok (TDyn t).
Proof.
  intros c P G S. simpl. split; [apply extends_refl|split; [reflexivity|split; [exact G|intros _; left; reflexivity]]].
Qed.

Lemma present_extends t c c' : extends c c' -> present t c -> present t c'.
Proof. intros E [D|L]; [left; exact D | right; apply E, L]. Qed.

Lemma gen_list_ok l : Forall (fun c => gen_ok (snd c)) l ->
  forall c P, GInv P c ->
    (forall u, In u (map snd l) -> forall p, In p P -> (tsize (erase u) < tsize p)%nat) ->
    extends c (fst (gen_list c l)) /\
    snd (gen_list c l) = forallb (fun c => supported (erase (snd c))) l /\
    GInv P (fst (gen_list c l)) /\
    (snd (gen_list c l) = true -> forall u, In u (map snd l) -> present u (fst (gen_list c l))).
Proof.
  induction 1 as [|[f u] l Hu _ IH]; intros c P G S; simpl.
  - split; [apply extends_refl|split; [reflexivity|split; [exact G|intros _ u []]]].
  - simpl in Hu. destruct (Hu c P G (fun p => S u (or_introl eq_refl) p)) as [E1 [O1 [G1 R1]]].
    destruct (gen c u) as [c' ok] eqn:Eg. simpl in E1, O1, G1, R1. subst ok.
    destruct (supported (erase u)) eqn:Su; simpl.
    + pose proof (R1 eq_refl) as P1.
      destruct (IH c' P G1 (fun v Hv => S v (or_intror Hv))) as [E2 [O2 [G2 R2]]].
      split; [eapply extends_trans; eassumption|]. split; [exact O2|]. split; [exact G2|].
      intro H. pose proof (R2 H) as P2.
      intros v [<-|Hv]; [eapply present_extends; eassumption | apply P2, Hv].
    + split; [exact E1|split; [reflexivity|split; [exact G1|discriminate]]].
Qed.

Lemma gen_comp_ok n cs : Forall (fun c => gen_ok (snd c)) cs -> gen_ok (TComp n cs).
Proof.
  intros F c P G S. rewrite gen_comp_unfold. set (k := erase (TComp n cs)) in *. cbv zeta.
  destruct (lookup k c) as [st|] eqn:L.
  - destruct (GInv_cached_ready P c _ _ G S L) as [-> Sp]. simpl.
    split; [apply extends_refl|split; [symmetry; exact Sp|split; [exact G|intros _; right; exact L]]].
  - assert (G1 := GInv_push P c k G L).
    assert (S1 : forall u, In u (map snd cs) -> forall p, In p (k :: P) -> (tsize (erase u) < tsize p)%nat).
    { intros u Hu p [<-|Hp].
      - unfold k. rewrite erase_comp. apply tsize_comp_lt. rewrite erase_comps_snd.
        apply in_map_iff. apply in_map_iff in Hu. destruct Hu as [x [<- Hx]]. exists x. split; auto.
      - specialize (S p Hp). assert ((tsize (erase u) < tsize k)%nat); [|lia].
        unfold k. rewrite erase_comp. apply tsize_comp_lt. rewrite erase_comps_snd.
        apply in_map_iff. apply in_map_iff in Hu. destruct Hu as [x [<- Hx]]. exists x. split; auto. }
    destruct (gen_list_ok cs F _ _ G1 S1) as [E2 [O2 [G2 R2]]].
    destruct (gen_list ((k, false) :: c) cs) as [c2 ok] eqn:Eg. simpl in E2, O2, G2, R2.
    assert (Ec : extends c c2).
    { intros k' st H. apply E2. rewrite lookup_other; [exact H|]. intro; subst. congruence. }
    rewrite <- (supported_erase_comp n) in O2. fold k in O2. subst ok.
    assert (Lk : lookup k c2 = Some false) by (apply E2, lookup_here).
    destruct (supported k) eqn:Sk; simpl.
    + pose proof (R2 eq_refl) as P2.
      split; [|split; [reflexivity|split; [|intros _]]].
      * intros k' st H. rewrite lookup_set_ready_other; [apply Ec, H|]. intro; subst. congruence.
      * intros k' st H. destruct (ty_eqb k' k) eqn:E.
        -- apply ty_eqb_eq in E. subst k'. rewrite lookup_set_ready_same in H by congruence.
           inversion H; subst. right. split; [reflexivity|split; [exact Sk|]].
           unfold k. rewrite erase_comp. simpl. rewrite erase_comps_snd. intros u Hu.
           apply in_map_iff in Hu. destruct Hu as [x [<- Hx]].
           destruct (P2 (snd x) (in_map snd _ _ Hx)) as [D|R].
           ++ left. rewrite is_dyn_erase. exact D.
           ++ right. apply lookup_set_ready_mono. exact R.
        -- assert (N : k' <> k) by (intro; subst; rewrite ty_eqb_refl in E; discriminate).
           rewrite lookup_set_ready_other in H by exact N.
           destruct (G2 k' st H) as [[-> [I|I]]|[-> [Sp R]]].
           ++ congruence.
           ++ left. auto.
           ++ right. split; [reflexivity|split; [exact Sp|]].
              eapply comps_ready_mono; [|exact R]. intros u Hu. apply lookup_set_ready_mono, Hu.
      * right. apply lookup_set_ready_same. congruence.
    + (* the generator panicked: the placeholder is deleted again *)
      split; [|split; [reflexivity|split; [|discriminate]]].
      * intros k' st H. rewrite lookup_remove_other; [apply Ec, H|]. intro; subst. congruence.
      * intros k' st H. destruct (ty_eqb k' k) eqn:E.
        -- apply ty_eqb_eq in E. subst k'. rewrite lookup_remove_same in H. discriminate.
        -- assert (N : k' <> k) by (intro; subst; rewrite ty_eqb_refl in E; discriminate).
           rewrite lookup_remove_other in H by exact N.
           destruct (G2 k' st H) as [[-> [I|I]]|[-> [Sp R]]].
           ++ congruence.
           ++ left. auto.
           ++ right. split; [reflexivity|split; [exact Sp|]].
              eapply comps_ready_mono; [|exact R]. intros u Hu.
              rewrite lookup_remove_other; [exact Hu|]. intro; subst. congruence.
Qed.

Lemma gen_all_ok : forall t, gen_ok t.
Proof.
  induction t using ty_ind'; auto using gen_leaf_ok, gen_bad_ok, gen_comp_ok, gen_dyn_ok.
Qed.

(* ---- visit ---- *)
Fixpoint visit_list (dyn : bool) (c : cache) (l : list (bool * ty)) (tr : list N) : cache * cres * list N :=
  match l with
  | [] => (c, COk, tr)
  | (reach, u) :: l' =>
      if reach then
        let '(c', r, tr') := visit dyn c u tr in
        match r with COk => visit_list dyn c' l' tr' | _ => (c', r, tr') end
      else visit_list dyn c l' tr
  end.

Lemma visit_comp_unfold dyn c n cs tr :
  visit dyn c (TComp n cs) tr =
  match lookup (erase (TComp n cs)) c with
  | Some false => (c, CHang, tr)
  | None => (c, CErr, tr)
  | Some true => visit_list dyn c cs (tr ++ [n])
  end.
Proof.
  simpl. destruct (lookup _ c) as [[|]|]; try reflexivity.
  generalize (tr ++ [n]). generalize c. induction cs as [|[reach u] cs IH]; intros c0 tr0; [reflexivity|].
  simpl. destruct reach; [|apply IH].
  destruct (visit dyn c0 u tr0) as [[c' r] tr']. destruct r; try reflexivity. apply IH.
Qed.

(* what an instance whose cache holds no unreleased placeholder answers: a
   function of the operation alone *)
Fixpoint spec (dyn : bool) (t : ty) (tr : list N) : cres * list N :=
  match t with
  | TLeaf n => (COk, tr ++ [n])
  | TBad _ => (CErr, tr)
  | TComp n cs =>
      (fix go (l : list (bool * ty)) (tr : list N) : cres * list N :=
         match l with
         | [] => (COk, tr)
         | (reach, u) :: l' =>
             if reach then
               let '(r, tr') := spec dyn u tr in
               match r with COk => go l' tr' | _ => (r, tr') end
             else go l' tr
         end) cs (tr ++ [n])
  | TDyn inner =>
      if dyn then (if supported (erase inner) then spec dyn inner tr else (CErr, tr)) else (COk, tr)
  end.

Fixpoint spec_list (dyn : bool) (l : list (bool * ty)) (tr : list N) : cres * list N :=
  match l with
  | [] => (COk, tr)
  | (reach, u) :: l' =>
      if reach then
        let '(r, tr') := spec dyn u tr in
        match r with COk => spec_list dyn l' tr' | _ => (r, tr') end
      else spec_list dyn l' tr
  end.
Lemma spec_comp_unfold dyn n cs tr : spec dyn (TComp n cs) tr = spec_list dyn cs (tr ++ [n]).
Proof.
  simpl. generalize (tr ++ [n]). induction cs as [|[reach u] cs IH]; intros tr0; [reflexivity|].
  simpl. destruct reach; [|apply IH].
  destruct (spec dyn u tr0) as [r tr']. destruct r; try reflexivity. apply IH.
Qed.

Definition CInv (c : cache) : Prop := GInv [] c.

Definition visit_ok (dyn : bool) (t : ty) : Prop :=
  forall c tr, CInv c -> present t c ->
    (snd (fst (visit dyn c t tr)), snd (visit dyn c t tr)) = spec dyn t tr /\
    CInv (fst (fst (visit dyn c t tr))) /\ extends c (fst (fst (visit dyn c t tr))).

Lemma CInv_ready c k st : CInv c -> lookup k c = Some st ->
  st = true /\ supported k = true /\ comps_ready k c.
Proof. intros G L. destruct (G k st L) as [[_ []]|[-> R]]. auto. Qed.

Lemma visit_list_ok dyn l : Forall (fun c => visit_ok dyn (snd c)) l ->
  forall c tr, CInv c -> (forall u, In u (map snd l) -> present u c) ->
    (snd (fst (visit_list dyn c l tr)), snd (visit_list dyn c l tr)) = spec_list dyn l tr /\
    CInv (fst (fst (visit_list dyn c l tr))) /\ extends c (fst (fst (visit_list dyn c l tr))).
Proof.
  induction 1 as [|[reach u] l Hu _ IH]; intros c tr G Pr; simpl.
  - split; [reflexivity|split; [exact G|apply extends_refl]].
  - destruct reach.
    + simpl in Hu. destruct (Hu c tr G (Pr u (or_introl eq_refl))) as [E1 [G1 X1]].
      destruct (visit dyn c u tr) as [[c' r] tr'] eqn:Ev. simpl in E1, G1, X1.
      rewrite <- E1. destruct r; simpl; try (split; [reflexivity|split; assumption]).
      destruct (IH c' tr' G1 (fun v Hv => present_extends v c c' X1 (Pr v (or_intror Hv)))) as [E2 [G2 X2]].
      split; [exact E2|]. split; [exact G2|eapply extends_trans; eassumption].
    + apply IH; [exact G|]. intros v Hv. apply Pr. right. exact Hv.
Qed.

Lemma visit_all_ok dyn : forall t, visit_ok dyn t.
Proof.
  induction t as [n|n|n cs IH|t IH] using ty_ind'; intros c tr G Pr.
  - destruct Pr as [D|L]; [discriminate|]. simpl in L. simpl. rewrite L. simpl.
    split; [reflexivity|split; [exact G|apply extends_refl]].
  - destruct Pr as [D|L]; [discriminate|]. simpl in L.
    destruct (CInv_ready c _ _ G L) as [_ [F _]]. simpl in F. discriminate.
  - destruct Pr as [D|L]; [discriminate|]. rewrite visit_comp_unfold, L, spec_comp_unfold.
    destruct (CInv_ready c _ _ G L) as [_ [_ R]]. rewrite erase_comp in R. simpl in R.
    rewrite erase_comps_snd in R.
    apply visit_list_ok; [exact IH|exact G|].
    intros u Hu. destruct (R (erase u)) as [D|L2].
    + apply in_map_iff. apply in_map_iff in Hu. destruct Hu as [x [<- Hx]]. exists x. auto.
    + left. rewrite is_dyn_erase in D. exact D.
    + right. exact L2.
  - simpl. destruct dyn.
    + pose proof (gen_all_ok t c [] G (fun p (F : In p []) => match F with end)) as [E1 [O1 [G1 R1]]].
      destruct (gen c t) as [c1 ok] eqn:Eg. simpl in E1, O1, G1, R1. subst ok.
      destruct (supported (erase t)) eqn:St.
      * pose proof (R1 eq_refl) as P1. destruct (IH c1 tr G1 P1) as [E2 [G2 X2]].
        split; [exact E2|]. split; [exact G2|eapply extends_trans; eassumption].
      * simpl. split; [reflexivity|split; assumption].
    + simpl. split; [reflexivity|split; [exact G|apply extends_refl]].
Qed.

(* ---- one call ---- *)
Definition cache_spec (dyn : bool) (t : ty) : cache_obs :=
  if supported (erase t) then spec dyn t [] else (CErr, []).

Lemma CInv_init : CInv cache_init.
Proof. intros k st L. discriminate. Qed.

Lemma cache_call_obs dyn c t : CInv c -> snd (cache_call dyn c t) = cache_spec dyn t.
Proof.
  intro G. unfold cache_call, cache_spec.
  pose proof (gen_all_ok t c [] G (fun p (F : In p []) => match F with end)) as [E1 [O1 [G1 R1]]].
  destruct (gen c t) as [c1 ok] eqn:Eg. simpl in E1, O1, G1, R1. subst ok.
  destruct (supported (erase t)); [|reflexivity].
  pose proof (R1 eq_refl) as P1. destruct (visit_all_ok dyn t c1 [] G1 P1) as [E2 _].
  destruct (visit dyn c1 t []) as [[c2 r] tr]. exact E2.
Qed.

(* the cache of an instance never holds a placeholder between two calls, whatever
   the calls were: a failed generation removes its placeholders *)
Lemma cache_call_step dyn c t : CInv c -> CInv (fst (cache_call dyn c t)).
Proof.
  intros G. unfold cache_call.
  pose proof (gen_all_ok t c [] G (fun p (F : In p []) => match F with end)) as [E1 [O1 [G1 R1]]].
  destruct (gen c t) as [c1 ok] eqn:Eg. simpl in E1, O1, G1, R1. subst ok.
  destruct (supported (erase t)); [|exact G1].
  pose proof (R1 eq_refl) as P1. destruct (visit_all_ok dyn t c1 [] G1 P1) as [_ [G2 _]].
  destruct (visit dyn c1 t []) as [[c2 r] tr]. exact G2.
Qed.

Lemma cache_reuse dyn h t :
  run_reused cache_init (cache_call dyn) h t = run_fresh cache_init (cache_call dyn) t.
Proof.
  apply (reuse_eq_fresh_when cache_init (cache_call dyn) CInv (fun _ => True)).
  - exact CInv_init.
  - intros s op G. rewrite (cache_call_obs dyn s op G), (cache_call_obs dyn cache_init op CInv_init). reflexivity.
  - intros s op G _. apply cache_call_step; assumption.
  - apply Forall_True.
Qed.

(* an unsupported type, then the same type again, and a type that contains it:
   refused each time, nothing blocks *)
Example cache_after_failure :
  run_all (cache_call true) cache_init [TBad 1; TBad 1; TComp 2 [(true, TLeaf 3); (true, TBad 1)]; TLeaf 3]
  = [(CErr, []); (CErr, []); (CErr, []); (COk, [3])].
Proof. vm_compute. reflexivity. Qed.

(* a failed generation leaves no placeholder, only the finished parts *)
Example cache_state_after_failure :
  fst (cache_call true cache_init (TComp 2 [(true, TLeaf 3); (true, TBad 1)])) = [(TLeaf 3, true)].
Proof. vm_compute. reflexivity. Qed.

(* ------------------------------------------------------------------ *)
(* 4. CTE encoder context                                               *)
(* ------------------------------------------------------------------ *)

(* decorators whose EndContainer reads ContainerHasObjects *)
Definition reads_has (d : deco) : bool :=
  match d with DList | DMapKey | DMapValue | DEdge | DNodeChildren => true | _ => false end.
Definition needs_has (k : list deco) : bool := existsb reads_has k.

Definition sh (h : bool) (w : cw) : cw := (set_has (fst w) h, snd w).

Ltac dw := repeat match goal with
  | w : cw |- _ => destruct w as [[? ? ? ?] ?]
  | s : cte_state |- _ => destruct s as [? ? ? ?]
  end.

Lemma sh_wr h b w : wr b (sh h w) = sh h (wr b w).
Proof. dw; reflexivity. Qed.
Lemma sh_wr_nocol h b w : wr_nocol b (sh h w) = sh h (wr_nocol b w).
Proof. dw; reflexivity. Qed.
Lemma sh_wr_lf h w : wr_lf (sh h w) = sh h (wr_lf w).
Proof. dw; reflexivity. Qed.
Lemma sh_wr_plf h b w : wr_possible_lf b (sh h w) = sh h (wr_possible_lf b w).
Proof. dw; unfold wr_possible_lf; simpl; destruct (after_last_lf b); reflexivity. Qed.
Lemma sh_nl h w : newline_origin_indent (sh h w) = sh h (newline_origin_indent w).
Proof. dw; reflexivity. Qed.
Lemma sh_iio h w : indent_if_origin (sh h w) = sh h (indent_if_origin w).
Proof. dw; unfold indent_if_origin, at_origin, origin_pos; simpl; destruct (_ =? _)%Z; reflexivity. Qed.
Lemma sh_rto h w : return_to_origin (sh h w) = sh h (return_to_origin w).
Proof. dw; unfold return_to_origin, at_origin, origin_pos; simpl; destruct (_ =? _)%Z; reflexivity. Qed.
Lemma sh_push h d w : push d (sh h w) = sh h (push d w).
Proof. dw; reflexivity. Qed.
Lemma sh_indent_more h w : indent_more (sh h w) = sh h (indent_more w).
Proof. dw; reflexivity. Qed.
Lemma sh_unstack h w : unstack (sh h w) = option_map (sh h) (unstack w).
Proof. dw; unfold unstack; simpl. destruct cs_stack as [|? [|? ?]]; reflexivity. Qed.
Lemma sh_switch h d w : switch d (sh h w) = option_map (sh h) (switch d w).
Proof. dw; unfold switch; simpl. destruct cs_stack; reflexivity. Qed.
Lemma sh_indent_less h w : indent_less (sh h w) = option_map (sh h) (indent_less w).
Proof. dw; unfold indent_less; simpl. destruct (_ =? 0); reflexivity. Qed.
Lemma sh_mark h x w : mark_has x (sh h w) = mark_has x w.
Proof. dw; reflexivity. Qed.
Lemma sh_top h w : top (fst (sh h w)) = top (fst w).
Proof. dw; reflexivity. Qed.
Lemma sh_before_value h w : before_value (sh h w) = option_map (sh h) (before_value w).
Proof.
  unfold before_value. rewrite sh_top. destruct (top (fst w)) as [[]|]; simpl;
    rewrite ?sh_nl, ?sh_iio; reflexivity.
Qed.
Lemma sh_before_comment h w : before_comment (sh h w) = option_map (sh h) (before_comment w).
Proof.
  unfold before_comment. rewrite sh_top. destruct (top (fst w)) as [[]|]; simpl;
    rewrite ?sh_nl; reflexivity.
Qed.
Lemma sh_after_comment h w : after_comment (sh h w) = after_comment w.
Proof.
  unfold after_comment. rewrite sh_top. destruct (top (fst w)) as [[]|]; simpl;
    rewrite ?sh_nl, ?sh_rto, ?sh_mark; reflexivity.
Qed.

Lemma sh_after_value h : forall f w, after_value f (sh h w) = after_value f w.
Proof.
  induction f as [|f IH]; intro w; [reflexivity|]. cbn [after_value]. rewrite sh_top.
  destruct (top (fst w)) as [[]|]; try reflexivity; try (rewrite sh_mark; reflexivity).
  - rewrite sh_wr, sh_switch. destruct (switch _ _); simpl; [rewrite sh_mark|]; reflexivity.
  - rewrite sh_switch. destruct (switch _ _); simpl; [rewrite sh_mark|]; reflexivity.
  - rewrite sh_unstack. destruct (unstack w); simpl; [rewrite IH|]; reflexivity.
  - rewrite sh_switch. destruct (switch _ _); simpl; [rewrite sh_mark|]; reflexivity.
Qed.

Lemma sh_fuel h w : after_value_fuel (sh h w) = after_value_fuel w.
Proof. dw; reflexivity. Qed.
Lemma sh_after_val h w : after_val (sh h w) = after_val w.
Proof. unfold after_val. rewrite sh_fuel. apply sh_after_value. Qed.

Lemma before_value_stack w w1 : before_value w = Some w1 -> cs_stack (fst w1) = cs_stack (fst w).
Proof.
  unfold before_value. destruct (top (fst w)) as [[]|]; intro H; inversion H; subst; clear H; dw; try reflexivity.
  unfold indent_if_origin. destruct (at_origin _); reflexivity.
Qed.

Lemma obind_sh {B} h (o : option cw) (f g : cw -> option B) :
  (forall w, f (sh h w) = g w) -> obind (option_map (sh h) o) f = obind o g.
Proof. intro H. destruct o; simpl; auto. Qed.

Lemma top_needs s : needs_has (cs_stack s) = false ->
  top s = None \/ top s = Some DTop \/ top s = Some DConcat \/ top s = Some DNodeValue.
Proof.
  unfold top, needs_has. destruct (cs_stack s) as [|[] k]; simpl; auto; discriminate.
Qed.

Lemma cte_event_has s h e : needs_has (cs_stack s) = false ->
  cte_event (set_has s h) e = cte_event s e \/
  (cte_event (set_has s h) e = option_map (sh h) (cte_event s e) /\
   forall w, cte_event s e = Some w -> needs_has (cs_stack (fst w)) = false).
Proof.
  intro Hn.
  assert (Sh : (set_has s h, @nil N) = sh h (s, @nil N)) by reflexivity.
  destruct e; unfold cte_event; cbv zeta; rewrite ?Sh.
  - (* CBegin *) right. split; [destruct s; reflexivity|]. intros w E. inversion E; subst. destruct s; reflexivity.
  - (* CVersion *) right. rewrite sh_wr_nocol, sh_nl. split; [reflexivity|].
    intros w E. inversion E; subst. destruct s; exact Hn.
  - right. split; [reflexivity|]. intros w E. inversion E; subst. exact Hn.
  - right. split; [reflexivity|]. intros w E. inversion E; subst. exact Hn.
  - (* CComment *) left. rewrite sh_before_comment. apply obind_sh. intro w.
    destruct multi; rewrite ?sh_wr, ?sh_wr_plf, ?sh_wr, sh_after_comment; reflexivity.
  - left. rewrite sh_before_value. apply obind_sh. intro w. rewrite sh_wr, sh_after_val. reflexivity.
  - left. rewrite sh_before_value. apply obind_sh. intro w. rewrite sh_wr, sh_after_val. reflexivity.
  - left. rewrite sh_before_value. apply obind_sh. intro w. rewrite sh_wr, sh_after_val. reflexivity.
  - left. rewrite sh_before_value. apply obind_sh. intro w. rewrite sh_wr_nocol, sh_after_val. reflexivity.
  - left. unfold open_container. rewrite sh_before_value. apply obind_sh. intro w. rewrite sh_mark. reflexivity.
  - left. unfold open_container. rewrite sh_before_value. apply obind_sh. intro w. rewrite sh_mark. reflexivity.
  - left. unfold open_container. rewrite sh_before_value. apply obind_sh. intro w. rewrite sh_mark. reflexivity.
  - (* CNode *) right. unfold open_container. rewrite sh_before_value. split.
    + destruct (before_value (s, [])) as [w1|]; simpl; [|reflexivity].
      rewrite sh_wr, sh_indent_more, sh_push. reflexivity.
    + intros w E. destruct (before_value (s, [])) as [w1|] eqn:B; simpl in E; [|discriminate].
      inversion E; subst. apply before_value_stack in B. simpl in B. dw. simpl in *. subst. exact Hn.
  - (* CEndContainer *) unfold end_container. rewrite sh_top. simpl fst.
    destruct (top_needs s Hn) as [T|[T|[T|T]]]; rewrite T; auto.
    right. split; [reflexivity|]. intros w E. inversion E; subst. exact Hn.
  - (* CMarker *) right. rewrite sh_before_value. split.
    + destruct (before_value (s, [])) as [w1|]; simpl; [|reflexivity].
      rewrite !sh_wr, sh_push. reflexivity.
    + intros w E. destruct (before_value (s, [])) as [w1|] eqn:B; simpl in E; [|discriminate].
      inversion E; subst. apply before_value_stack in B. simpl in B. dw. simpl in *. subst. exact Hn.
  - left. rewrite sh_before_value. apply obind_sh. intro w. rewrite !sh_wr, sh_after_val. reflexivity.
Qed.

Definition cte_rel (s1 s2 : cte_state) : Prop :=
  cs_indent s1 = cs_indent s2 /\ cs_stack s1 = cs_stack s2 /\ cs_column s1 = cs_column s2 /\
  (needs_has (cs_stack s1) = true -> cs_has_objects s1 = cs_has_objects s2).

Lemma cte_rel_refl s : cte_rel s s.
Proof. repeat split; auto. Qed.

Lemma cte_rel_cases s1 s2 : cte_rel s1 s2 ->
  s1 = s2 \/ (needs_has (cs_stack s1) = false /\ s2 = set_has s1 (cs_has_objects s2)).
Proof.
  intros [Hi [Hk [Hc Hh]]]. destruct (needs_has (cs_stack s1)) eqn:N.
  - left. specialize (Hh eq_refl). destruct s1, s2; simpl in *; subst; reflexivity.
  - right. split; [reflexivity|]. destruct s1, s2; simpl in *; subst; reflexivity.
Qed.

Lemma cte_rel_sh s h : needs_has (cs_stack s) = false -> cte_rel s (set_has s h).
Proof. intro N. destruct s; simpl in *. repeat split; simpl; auto. rewrite N. discriminate. Qed.

Definition cte_step_rel (x y : option cw) : Prop :=
  match x, y with
  | Some (a, o1), Some (b, o2) => cte_rel a b /\ o1 = o2
  | None, None => True
  | _, _ => False
  end.

Lemma cte_step_rel_refl x : cte_step_rel x x.
Proof. destruct x as [[a o]|]; simpl; auto using cte_rel_refl. Qed.

Lemma cte_event_rel s1 s2 e : cte_rel s1 s2 -> cte_step_rel (cte_event s1 e) (cte_event s2 e).
Proof.
  intro R. destruct (cte_rel_cases s1 s2 R) as [->|[N E]]; [apply cte_step_rel_refl|].
  rewrite E. destruct (cte_event_has s1 (cs_has_objects s2) e N) as [->|[-> K]].
  - apply cte_step_rel_refl.
  - destruct (cte_event s1 e) as [[a o]|] eqn:Ev; simpl; [|exact I].
    split; [|reflexivity]. apply cte_rel_sh. exact (K _ eq_refl).
Qed.

Lemma cte_run_rel es : forall s1 s2 i out, cte_rel s1 s2 ->
  snd (cte_run s1 i es out) = snd (cte_run s2 i es out).
Proof.
  induction es as [|e es IH]; intros s1 s2 i out R; simpl; [reflexivity|].
  pose proof (cte_event_rel s1 s2 e R) as S. unfold cte_step_rel in S.
  destruct (cte_event s1 e) as [[a o1]|], (cte_event s2 e) as [[b o2]|]; try contradiction.
  - destruct S as [S1 S2]. subst o2. apply IH. exact S1.
  - reflexivity.
Qed.

(* OnBeginDocument (Begin) followed by OnVersion brings every context to the same
   state up to ContainerHasObjects, which no decorator on the new stack reads *)
Lemma cte_header_rel s v :
  exists a b o, cte_event s CBegin = Some (a, [99]) /\ cte_event a (CVersion v) = Some (b, o) /\
    o = dec v ++ [10] /\
    cs_indent b = 0 /\ cs_stack b = [DTop] /\ cs_column b = 0%Z.
Proof.
  destruct s as [i k hs c]. eexists. eexists. eexists. split; [reflexivity|]. split; [reflexivity|].
  simpl. repeat split. apply app_nil_r.
Qed.

Lemma cte_run_cons s i e r out :
  cte_run s i (e :: r) out =
  match cte_event s e with
  | Some (s1, b) => cte_run s1 (N.succ i) r (out ++ b)
  | None => (s, (Some i, out))
  end.
Proof. reflexivity. Qed.

Definition has_header (es : list cev) : Prop := exists v rest, es = CBegin :: CVersion v :: rest.

Lemma cte_obs_any s es : has_header es -> snd (cte_call s es) = snd (cte_call cte_init es).
Proof.
  intros [v [rest ->]]. unfold cte_call.
  destruct (cte_header_rel s v) as [a [b [o [E1 [E2 [Eo [Bi [Bk Bc]]]]]]]].
  destruct (cte_header_rel cte_init v) as [a' [b' [o' [E1' [E2' [Eo' [Bi' [Bk' Bc']]]]]]]].
  rewrite !(cte_run_cons s), E1, cte_run_cons, E2.
  rewrite !(cte_run_cons cte_init), E1', cte_run_cons, E2'.
  subst o o'. apply cte_run_rel. unfold cte_rel. rewrite Bi, Bi', Bk, Bk', Bc, Bc'.
  repeat split. simpl. discriminate.
Qed.

Lemma cte_reuse h es : has_header es ->
  run_reused cte_init cte_call h es = run_fresh cte_init cte_call es.
Proof. intro H. unfold run_reused, run_fresh. apply cte_obs_any, H. Qed.

(* a stream that does not begin with OnBeginDocument runs on whatever the previous document left *)
Lemma cte_refuted : exists h es,
  run_reused cte_init cte_call h es <> run_fresh cte_init cte_call es.
Proof. exists [[CBegin; CVersion 0; CList]], [CVersion 0; CNull]. vm_compute. discriminate. Qed.

(* ------------------------------------------------------------------ *)
(* 1. The rules validator: Reset is as good as a new context            *)
(* ------------------------------------------------------------------ *)

(* The fields Context.Reset leaves alone, in four groups.  A group is VALID when
   it holds the same values in the two contexts compared. *)
Record vset := { vRT : bool; vMK : bool; vA1 : bool; vA2 : bool }.
Definition v_none : vset := {| vRT := false; vMK := false; vA1 := false; vA2 := false |}.
Definition vsub (a b : vset) : Prop :=
  (vRT a = true -> vRT b = true) /\ (vMK a = true -> vMK b = true) /\
  (vA1 a = true -> vA1 b = true) /\ (vA2 a = true -> vA2 b = true).
Definition v_or (a b : vset) : vset :=
  {| vRT := vRT a || vRT b; vMK := vMK a || vMK b; vA1 := vA1 a || vA1 b; vA2 := vA2 a || vA2 b |}.

Lemma vsub_refl a : vsub a a.
Proof. repeat split; auto. Qed.
Lemma vsub_trans a b c : vsub a b -> vsub b c -> vsub a c.
Proof. intros (A1 & A2 & A3 & A4) (B1 & B2 & B3 & B4). repeat split; auto. Qed.
Lemma vsub_or_l a b : vsub a (v_or a b).
Proof. repeat split; simpl; intro H; rewrite H; reflexivity. Qed.
Lemma vsub_or_r a b : vsub b (v_or a b).
Proof. repeat split; simpl; intro H; rewrite H; apply orb_true_r. Qed.
Lemma vsub_or a b c : vsub a c -> vsub b c -> vsub (v_or a b) c.
Proof.
  intros (A1 & A2 & A3 & A4) (B1 & B2 & B3 & B4). repeat split; simpl; intro H;
    apply orb_true_iff in H; destruct H; auto.
Qed.

Definition core (c : rctx) :=
  (cur c, stack c, depth c, objects c, rectypes c, marked c, fwd c, refcount c).
Definition gA1 (c : rctx) := (arr_type c, built c, arr_total c, utf8_rem c, arr_validator c).
Definition gA2 (c : rctx) := (more_chunks c, chunk_expected c, chunk_actual c).

Definition agree (V : vset) (c1 c2 : rctx) : Prop :=
  core c1 = core c2 /\
  (vRT V = true -> rectype_name c1 = rectype_name c2) /\
  (vMK V = true -> marker_id c1 = marker_id c2) /\
  (vA1 V = true -> gA1 c1 = gA1 c2) /\
  (vA2 V = true -> gA2 c1 = gA2 c2).

Definition is_marker (r : rule) : bool :=
  match r with RMarkedObjectKeyable | RMarkedObjectAnyType => true | _ => false end.
Definition is_chunk (r : rule) : bool :=
  match r with RArrayChunk | RStringChunk => true | _ => false end.
Definition is_array (r : rule) : bool :=
  match r with RArray | RString | RArrayChunk | RStringChunk => true | _ => false end.

(* which groups the method bodies of a rule may read *)
Definition rule_demand (r : rule) : vset :=
  {| vRT := false; vMK := is_marker r; vA1 := is_array r; vA2 := is_chunk r |}.
(* data types whose container end is followed by a read of a group *)
Definition dtype_special (dt : N) : bool :=
  (dt =? DT_RecordType) || (dt =? DT_String) || (dt =? DT_ResourceID).
Definition dtype_demand (dt : N) : vset :=
  {| vRT := dt =? DT_RecordType; vMK := false; vA1 := (dt =? DT_String) || (dt =? DT_ResourceID); vA2 := false |}.
Definition entry_demand (e : entry) : vset := v_or (rule_demand (e_rule e)) (dtype_demand (e_dtype e)).

(* every stacked rule finds the groups it reads valid *)
Definition cov (V : vset) (c : rctx) : Prop :=
  Forall (fun e => vsub (entry_demand e) V) (cur c :: stack c).

Definition is_string_dt (dt : N) : bool := (dt =? DT_String) || (dt =? DT_ResourceID).
Definition argok (V : vset) (m : meth) (a : args) : Prop :=
  m = MChildContainerEnded -> is_string_dt (a_dtype a) = true -> vA1 V = true.

Definition orel (V : vset) (x y : option rctx) : Prop :=
  match x, y with
  | Some a, Some b => exists V', vsub V V' /\ agree V' a b /\ cov V' a
  | None, None => True
  | _, _ => False
  end.

Definition meth_eqb (a b : meth) : bool :=
  match a, b with
  | MBeginDocument, MBeginDocument | MEndDocument, MEndDocument | MChildContainerEnded, MChildContainerEnded
  | MVersion, MVersion | MPadding, MPadding | MComment, MComment | MKeyableObject, MKeyableObject
  | MNonKeyableObject, MNonKeyableObject | MNull, MNull | MList, MList | MMap, MMap | MRecordType, MRecordType
  | MRecord, MRecord | MEdge, MEdge | MNode, MNode | MEnd, MEnd | MMarker, MMarker
  | MReferenceLocal, MReferenceLocal | MArray, MArray | MStringlikeArray, MStringlikeArray
  | MArrayBegin, MArrayBegin | MArrayChunk, MArrayChunk | MArrayData, MArrayData => true
  | _, _ => false
  end.
Lemma meth_eqb_eq a b : meth_eqb a b = true <-> a = b.
Proof. destruct a, b; simpl; split; intro H; try reflexivity; discriminate. Qed.

Definition is_child_ended (m : meth) : bool := meth_eqb m MChildContainerEnded.
Definition no_demand (r : rule) : bool := negb (is_marker r || is_array r).

(* static condition on one statement of the body of (r, m) *)
Definition prim_okb (r : rule) (m : meth) (p : prim) : bool :=
  match p with
  | PMarkObject _ => is_marker r
  | PArrayRuleChunk | PStringRuleChunk => is_array r
  | PArrayChunkRuleData | PStringChunkRuleData => is_chunk r
  | PNotifyKeyFromBuilt => is_child_ended m
  | PChangeRule r' => no_demand r'
  | PBeginMarkerAnyType mk | PBeginMarkerKeyable mk => negb (dtype_special (mask_value mk))
  | PForwardCurrent m' | PForwardParent m' => negb (is_child_ended m') || is_child_ended m
  | _ => true
  end.

Definition all_rules : list rule :=
  [RBeginDocument; REndDocument; RTerminal; RVersion; RTopLevel; RList; RMapKey; RMapValue; RRecordType; RRecord;
   RArray; RArrayChunk; RString; RStringChunk; RMarkedObjectKeyable; RMarkedObjectAnyType;
   RStringBuilder; RStringBuilderChunk; REdgeSource; REdgeDescription; REdgeDestination; RNode; RAwaitEnd].
Definition all_meths : list meth :=
  [MBeginDocument; MEndDocument; MChildContainerEnded; MVersion; MPadding; MComment; MKeyableObject; MNonKeyableObject;
   MNull; MList; MMap; MRecordType; MRecord; MEdge; MNode; MEnd; MMarker; MReferenceLocal; MArray; MStringlikeArray;
   MArrayBegin; MArrayChunk; MArrayData].
Lemma all_rules_complete r : In r all_rules.
Proof. destruct r; simpl; tauto. Qed.
Lemma all_meths_complete m : In m all_meths.
Proof. destruct m; simpl; tauto. Qed.

(* the condition on the whole generated table: evaluated, not assumed *)
Definition table_okb : bool :=
  forallb (fun r => forallb (fun m => forallb (prim_okb r m) (dispatch r m)) all_meths) all_rules.
Lemma table_ok_sweep : table_okb = true.
Proof. vm_compute. reflexivity. Qed.
Lemma table_ok r m : Forall (fun p => prim_okb r m p = true) (dispatch r m).
Proof.
  pose proof table_ok_sweep as H. unfold table_okb in H. rewrite forallb_forall in H.
  specialize (H r (all_rules_complete r)). rewrite forallb_forall in H.
  specialize (H m (all_meths_complete m)). rewrite forallb_forall in H.
  apply Forall_forall. exact H.
Qed.

(* closed facts about the generated constants *)
Lemma const_facts :
  dtype_special DT_List = false /\ dtype_special DT_Map = false /\ dtype_special DT_Record = false /\
  dtype_special DT_Edge = false /\ dtype_special DT_Invalid = false /\
  (DT_RecordType =? DT_String) = false /\ (DT_RecordType =? DT_ResourceID) = false /\
  forallb (fun dt => negb (dt =? DT_RecordType)) array_type_to_data_type = true.
Proof. vm_compute. repeat split. Qed.

(* ---- basic facts ---- *)
Lemma agree_refl V c : agree V c c.
Proof. repeat split; auto. Qed.

Lemma agree_cur V c1 c2 : agree V c1 c2 -> cur c1 = cur c2.
Proof. intros [H _]. unfold core in H. congruence. Qed.
Lemma agree_stack V c1 c2 : agree V c1 c2 -> stack c1 = stack c2.
Proof. intros [H _]. unfold core in H. congruence. Qed.

Lemma agree_mono V V' c1 c2 : vsub V' V -> agree V c1 c2 -> agree V' c1 c2.
Proof.
  intros S H. destruct S as (S1 & S2 & S3 & S4). destruct H as (H0 & H1 & H2 & H3 & H4).
  unfold agree. split; [exact H0|]. split; [|split; [|split]]; intro X; auto.
Qed.

Lemma cov_mono V V' c : vsub V V' -> cov V c -> cov V' c.
Proof.
  intros S H. unfold cov in *. eapply Forall_impl; [|exact H]. intros e He. cbv beta in *. eapply vsub_trans; [exact He|exact S].
Qed.

Lemma cov_same V c c' : cur c = cur c' -> stack c = stack c' -> cov V c -> cov V c'.
Proof. unfold cov. intros -> ->. auto. Qed.

Lemma orel_refl_none V : orel V None None.
Proof. exact I. Qed.

Lemma orel_some V V' a b : vsub V V' -> agree V' a b -> cov V' a -> orel V (Some a) (Some b).
Proof. intros. exists V'. auto. Qed.

Lemma orel_weaken V0 V x y : vsub V0 V -> orel V x y -> orel V0 x y.
Proof.
  intros S H. destruct x, y; simpl in *; auto. destruct H as [V' [S' R]]. exists V'. split; [eapply vsub_trans; eassumption|exact R].
Qed.

(* sequencing: the valid set only grows *)
Lemma orel_bind V x y (f g : rctx -> option rctx) :
  orel V x y ->
  (forall V' a b, vsub V V' -> agree V' a b -> cov V' a -> orel V' (f a) (g b)) ->
  orel V (obind x f) (obind y g).
Proof.
  intros H K. destruct x as [a|], y as [b|]; simpl in *; try contradiction; auto.
  destruct H as [V' [S [A C]]]. eapply orel_weaken; [exact S|]. apply K; auto.
Qed.

Ltac ag_destruct H c1 c2 :=
  destruct c1, c2; unfold agree, core, gA1, gA2 in H; simpl in H;
  let Hc := fresh "Hc" in let HRT := fresh "HRT" in let HMK := fresh "HMK" in
  let HA1 := fresh "HA1" in let HA2 := fresh "HA2" in
  destruct H as (Hc & HRT & HMK & HA1 & HA2); inversion Hc; subst; clear Hc.

Ltac ag_solve :=
  unfold agree, core, gA1, gA2; simpl;
  repeat match goal with
  | |- _ /\ _ => split
  | |- _ -> _ => intro
  end;
  repeat match goal with
  | H : ?b = true -> _, H' : ?b = true |- _ => specialize (H H')
  end;
  repeat match goal with
  | H : (_, _) = (_, _) |- _ => inversion H; subst; clear H
  end;
  try reflexivity; try congruence.

(* ---- stack operations ---- *)
Lemma stack_rule_rel V c1 c2 r dt exp :
  agree V c1 c2 -> cov V c1 -> vsub (entry_demand (mk_entry r dt exp)) V ->
  agree V (stack_rule r dt exp c1) (stack_rule r dt exp c2) /\ cov V (stack_rule r dt exp c1).
Proof.
  intros A C D. split.
  - ag_destruct A c1 c2. unfold stack_rule. ag_solve.
  - unfold cov in *. destruct c1; simpl in *. constructor; [exact D|exact C].
Qed.

Lemma unstack_rel V c1 c2 : agree V c1 c2 -> cov V c1 -> orel V (unstack_rule c1) (unstack_rule c2).
Proof.
  intros A C. pose proof (agree_stack _ _ _ A) as Es. unfold unstack_rule. rewrite <- Es.
  destruct (stack c1) as [|e s] eqn:E; [exact I|].
  apply orel_some with V; [apply vsub_refl| |].
  - ag_destruct A c1 c2. simpl in *. subst. ag_solve.
  - unfold cov in *. rewrite E in C. inversion C as [|x l H1 H2]; subst. destruct c1; simpl in *. exact H2.
Qed.

Lemma set_rule_rel V c1 c2 r :
  agree V c1 c2 -> cov V c1 -> vsub (rule_demand r) V ->
  agree V (set_rule c1 r) (set_rule c2 r) /\ cov V (set_rule c1 r).
Proof.
  intros A C D. split.
  - ag_destruct A c1 c2. unfold set_rule. ag_solve.
  - unfold cov in *. destruct c1; simpl in *. inversion C as [|x l H1 H2]; subst. constructor; [|exact H2].
    unfold entry_demand in *. simpl. apply vsub_or; [exact D|].
    eapply vsub_trans; [apply vsub_or_r|exact H1].
Qed.

Definition v_with_A2 (V : vset) : vset := {| vRT := vRT V; vMK := vMK V; vA1 := vA1 V; vA2 := true |}.
Definition v_with_A1 (V : vset) : vset := {| vRT := vRT V; vMK := vMK V; vA1 := true; vA2 := vA2 V |}.
Definition v_with_MK (V : vset) : vset := {| vRT := vRT V; vMK := true; vA1 := vA1 V; vA2 := vA2 V |}.
Definition v_with_RT (V : vset) : vset := {| vRT := true; vMK := vMK V; vA1 := vA1 V; vA2 := vA2 V |}.
Lemma vsub_A2 V : vsub V (v_with_A2 V). Proof. repeat split; simpl; auto. Qed.
Lemma vsub_A1 V : vsub V (v_with_A1 V). Proof. repeat split; simpl; auto. Qed.
Lemma vsub_MK V : vsub V (v_with_MK V). Proof. repeat split; simpl; auto. Qed.
Lemma vsub_RT V : vsub V (v_with_RT V). Proof. repeat split; simpl; auto. Qed.

Lemma set_depth_agree V c1 c2 d : agree V c1 c2 -> agree V (set_depth c1 d) (set_depth c2 d).
Proof. intro A. ag_destruct A c1 c2. unfold set_depth; ag_solve. Qed.
Lemma stack_rule_agree V c1 c2 r dt exp :
  agree V c1 c2 -> agree V (stack_rule r dt exp c1) (stack_rule r dt exp c2).
Proof. intro A. ag_destruct A c1 c2. unfold stack_rule; ag_solve. Qed.
Lemma set_rectypes_agree V c1 c2 id : agree V c1 c2 ->
  agree (v_with_RT V) (set_rectypes c1 (rectypes c1) id) (set_rectypes c2 (rectypes c2) id).
Proof. intro A. ag_destruct A c1 c2. unfold set_rectypes; ag_solve. Qed.
Lemma set_markers_agree V c1 c2 id : agree V c1 c2 ->
  agree (v_with_MK V) (set_markers c1 id (marked c1) (fwd c1) (refcount c1))
                      (set_markers c2 id (marked c2) (fwd c2) (refcount c2)).
Proof. intro A. ag_destruct A c1 c2. unfold set_markers; ag_solve. Qed.

(* BeginRecordType: the new entry and the record type name, written together *)
Lemma begin_rt_agree V c1 c2 id d : agree V c1 c2 ->
  let x1 := stack_rule RRecordType DT_RecordType None (set_depth c1 d) in
  let x2 := stack_rule RRecordType DT_RecordType None (set_depth c2 d) in
  agree (v_with_RT V) (set_rectypes x1 (rectypes x1) id) (set_rectypes x2 (rectypes x2) id).
Proof. intros A x1 x2. apply set_rectypes_agree, stack_rule_agree, set_depth_agree, A. Qed.

Lemma tag_marker_agree V c1 c2 id : agree V c1 c2 -> agree V (tag_marker_entry id c1) (tag_marker_entry id c2).
Proof. intro A. ag_destruct A c1 c2. unfold tag_marker_entry, set_cur; ag_solve. Qed.

(* BeginMarker: the new entry (tagged with the marker id) and the marker id, written together *)
Lemma begin_marker_agree V c1 c2 r dt id : agree V c1 c2 ->
  agree (v_with_MK V)
    (tag_marker_entry id (stack_rule r dt None (set_markers c1 id (marked c1) (fwd c1) (refcount c1))))
    (tag_marker_entry id (stack_rule r dt None (set_markers c2 id (marked c2) (fwd c2) (refcount c2)))).
Proof. intro A. apply tag_marker_agree, stack_rule_agree, set_markers_agree, A. Qed.

Section Sound.
  Variable cfg : rcfg.
  Variable call : rule -> meth -> args -> rctx -> option rctx.
  (* what is known about the callee one nesting level down *)
  Hypothesis call_ok : forall r m a c1 c2 V,
    agree V c1 c2 -> cov V c1 -> vsub (rule_demand r) V -> argok V m a ->
    orel V (call r m a c1) (call r m a c2).

  Lemma cov_cur_rule V c : cov V c -> vsub (rule_demand (e_rule (cur c))) V.
  Proof.
    unfold cov. intro H. inversion H as [|x l H1 H2]; subst.
    eapply vsub_trans; [apply vsub_or_l|exact H1].
  Qed.
  Lemma cov_cur_dtype V c : cov V c -> vsub (dtype_demand (e_dtype (cur c))) V.
  Proof.
    unfold cov. intro H. inversion H as [|x l H1 H2]; subst.
    eapply vsub_trans; [apply vsub_or_r|exact H1].
  Qed.

  Lemma begin_container_rel V c1 c2 r dt exp :
    agree V c1 c2 -> cov V c1 -> no_demand r = true -> dtype_special dt = false ->
    orel V (begin_container cfg r dt exp c1) (begin_container cfg r dt exp c2).
  Proof.
    intros A C Nr Nd. unfold begin_container.
    assert (Ed : depth c1 = depth c2) by (destruct A as [H _]; unfold core in H; congruence).
    rewrite <- Ed. destruct (_ <? _); [exact I|].
    assert (A' : agree V (set_depth c1 (depth c1 + 1)) (set_depth c2 (depth c1 + 1))).
    { ag_destruct A c1 c2. simpl in *. unfold set_depth. ag_solve. }
    assert (C' : cov V (set_depth c1 (depth c1 + 1))) by (eapply cov_same; [| |exact C]; destruct c1; reflexivity).
    destruct (stack_rule_rel V _ _ r dt exp A' C') as [A2 C2].
    - unfold entry_demand. simpl. unfold no_demand in Nr. apply negb_true_iff, orb_false_iff in Nr. destruct Nr as [N1 N2].
      unfold dtype_special in Nd. apply orb_false_iff in Nd. destruct Nd as [Nd N3]. apply orb_false_iff in Nd. destruct Nd as [N4 N5].
      repeat split; simpl; intro H.
      + rewrite N4 in H. discriminate.
      + rewrite N1 in H. discriminate.
      + rewrite N2, N5, N3 in H. discriminate.
      + destruct r; simpl in *; discriminate.
    - eapply orel_some; [apply vsub_refl|exact A2|exact C2].
  Qed.

  (* endContainerLike *)
  Lemma end_container_like_rel V c1 c2 notify :
    agree V c1 c2 -> cov V c1 ->
    orel V (end_container_like call notify c1) (end_container_like call notify c2).
  Proof.
    intros A C. unfold end_container_like. rewrite <- (agree_cur _ _ _ A).
    pose proof (cov_cur_dtype V c1 C) as Dd.
    pose proof (unstack_rel V c1 c2 A C) as U.
    destruct (unstack_rule c1) as [a|], (unstack_rule c2) as [b|]; simpl in U; try contradiction; [|exact I].
    destruct U as [V' [S [A' C']]]. destruct notify; [|exists V'; auto].
    rewrite <- (agree_cur _ _ _ A'). eapply orel_weaken; [exact S|].
    apply call_ok; auto.
    - apply cov_cur_rule. exact C'.
    - intros _ Hs. simpl in Hs. destruct Dd as (_ & _ & D3 & _). destruct S as (_ & _ & S3 & _).
      apply S3, D3. simpl. exact Hs.
  Qed.

  Lemma end_container_rel V c1 c2 notify :
    agree V c1 c2 -> cov V c1 ->
    orel V (Rules.end_container call notify c1) (Rules.end_container call notify c2).
  Proof.
    intros A C. unfold Rules.end_container.
    assert (Ed : depth c1 = depth c2) by (destruct A as [H _]; unfold core in H; congruence).
    assert (Er : rectypes c1 = rectypes c2) by (destruct A as [H _]; unfold core in H; congruence).
    pose proof (agree_cur _ _ _ A) as Ec. rewrite <- Ed, <- Ec, <- Er.
    destruct (depth c1 =? 0); [exact I|].
    destruct (match e_expected (cur c1) with Some x => negb (e_count (cur c1) =? x) | None => false end); [exact I|].
    destruct (e_dtype (cur c1) =? DT_RecordType) eqn:Ert.
    - pose proof (cov_cur_dtype V c1 C) as (D1 & _). simpl in D1. specialize (D1 Ert).
      destruct A as (A0 & A1 & A2 & A3 & A4). pose proof (A1 D1) as En. rewrite <- En.
      destruct (alookup (rectype_name c1) (rectypes c1)); [exact I|].
      apply end_container_like_rel.
      + destruct c1, c2; unfold agree, core, gA1, gA2 in *; simpl in *. inversion A0; subst. ag_solve.
      + eapply cov_same; [| |exact C]; destruct c1; reflexivity.
    - apply end_container_like_rel.
      + ag_destruct A c1 c2. simpl in *. unfold set_depth. ag_solve.
      + eapply cov_same; [| |exact C]; destruct c1; reflexivity.
  Qed.

  Lemma try_end_array_rel V c1 c2 more :
    agree V c1 c2 -> cov V c1 ->
    match try_end_array call more c1, try_end_array call more c2 with
    | Some (a, f1), Some (b, f2) => f1 = f2 /\ orel V (Some a) (Some b)
    | None, None => True
    | _, _ => False
    end.
  Proof.
    intros A C. unfold try_end_array. destruct more.
    - split; [reflexivity|]. exists V. auto using vsub_refl.
    - pose proof (end_container_like_rel V c1 c2 true A C) as H.
      destruct (end_container_like call true c1), (end_container_like call true c2); simpl in *; auto.
  Qed.

  Lemma end_chunk_rel V c1 c2 sr :
    agree V c1 c2 -> cov V c1 -> vA1 V = true -> vA2 V = true ->
    orel V (end_chunk call sr c1) (end_chunk call sr c2).
  Proof.
    intros A C H1 H2. unfold end_chunk.
    pose proof A as (A0 & _ & _ & A3 & A4). specialize (A3 H1). specialize (A4 H2).
    assert (E4 : utf8_rem c1 = utf8_rem c2) by (unfold gA1 in A3; congruence).
    assert (F1 : more_chunks c1 = more_chunks c2) by (unfold gA2 in A4; congruence).
    rewrite <- E4, <- F1.
    destruct (sr && negb (Nat.eqb (length (utf8_rem c1)) 0)); [exact I|].
    pose proof (try_end_array_rel V c1 c2 (more_chunks c1) A C) as T.
    destruct (try_end_array call (more_chunks c1) c1) as [[a f1]|], (try_end_array call (more_chunks c1) c2) as [[b f2]|];
      try contradiction; [|exact I].
    destruct T as [<- T]. destruct f1; [exact T|].
    simpl in T. destruct T as [V' [S [A' C']]].
    assert (D : vsub (rule_demand (if sr then RString else RArray)) V').
    { destruct S as (_ & _ & S3 & _). destruct sr; repeat split; simpl; intro X; try discriminate; auto. }
    destruct (set_rule_rel V' a b _ A' C' D) as [A2 C2]. exists V'. auto.
  Qed.


  Lemma rule_chunk_rel V c1 c2 sr len more :
    agree V c1 c2 -> cov V c1 -> vA1 V = true ->
    orel V (rule_chunk cfg call sr len more c1) (rule_chunk cfg call sr len more c2).
  Proof.
    intros A C H1. unfold rule_chunk. destruct (len =? 0).
    - pose proof (try_end_array_rel V c1 c2 more A C) as T.
      destruct (try_end_array call more c1) as [[a f1]|], (try_end_array call more c2) as [[b f2]|];
        try contradiction; [|exact I]. destruct T as [_ T]. exact T.
    - pose proof A as (A0 & _ & _ & A3 & _). specialize (A3 H1).
      assert (Et : arr_type c1 = arr_type c2) by (unfold gA1 in A3; congruence).
      assert (Eo : arr_total c1 = arr_total c2) by (unfold gA1 in A3; congruence).
      rewrite <- Et, <- Eo.
      destruct (if sr then Some len else match array_bits (arr_type c1) with Some bits => Some (elem_byte_count bits len) | None => None end) as [ex|];
        [|exact I].
      destruct (_ && _); [exact I|].
      set (R := if sr then RStringChunk else RArrayChunk).
      set (x1 := set_array c1 _ _ _ _ _ _ _ _). set (x2 := set_array c2 _ _ _ _ _ _ _ _).
      assert (A' : agree (v_with_A2 V) x1 x2).
      { subst x1 x2. ag_destruct A c1 c2. simpl in *. unfold set_array. ag_solve. }
      assert (C' : cov (v_with_A2 V) x1).
      { eapply cov_same with (c := c1); [| |eapply cov_mono; [apply vsub_A2|exact C]]; destruct c1; reflexivity. }
      destruct (set_rule_rel _ x1 x2 R A' C') as [A2 C2].
      + subst R. destruct sr; repeat split; simpl; intro X; try discriminate; auto.
      + eapply orel_some; [apply vsub_A2|exact A2|exact C2].
  Qed.

  Lemma chunk_data_rel V c1 c2 sr data :
    agree V c1 c2 -> cov V c1 -> vA1 V = true -> vA2 V = true ->
    orel V (chunk_data call sr data c1) (chunk_data call sr data c2).
  Proof.
    intros A C H1 H2. unfold chunk_data.
    pose proof A as (A0 & _ & _ & A3 & A4). specialize (A3 H1). specialize (A4 H2).
    unfold gA1 in A3. unfold gA2 in A4.
    assert (E1 : chunk_actual c1 = chunk_actual c2) by congruence.
    assert (E2 : chunk_expected c1 = chunk_expected c2) by congruence.
    assert (E3 : utf8_rem c1 = utf8_rem c2) by congruence.
    assert (E4 : arr_validator c1 = arr_validator c2) by congruence.
    rewrite <- E1, <- E2, <- E3, <- E4.
    destruct (_ <? _); [exact I|]. destruct sr.
    - destruct (stream_string_data (utf8_rem c1) data) as [[[f n] r]|]; [|exact I].
      destruct (_ && _); [|exact I].
      set (x1 := set_array c1 _ _ _ _ _ _ _ _). set (x2 := set_array c2 _ _ _ _ _ _ _ _).
      assert (A' : agree V x1 x2).
      { subst x1 x2. ag_destruct A c1 c2. simpl in *. unfold set_array. ag_solve. }
      assert (C' : cov V x1) by (eapply cov_same with (c := c1); [| |exact C]; destruct c1; reflexivity).
      destruct (_ =? _); [apply end_chunk_rel; auto|exists V; auto using vsub_refl].
    - set (x1 := set_array c1 _ _ _ _ _ _ _ _). set (x2 := set_array c2 _ _ _ _ _ _ _ _).
      assert (A' : agree V x1 x2).
      { subst x1 x2. ag_destruct A c1 c2. simpl in *. unfold set_array. ag_solve. }
      assert (C' : cov V x1) by (eapply cov_same with (c := c1); [| |exact C]; destruct c1; reflexivity).
      destruct (_ =? _); [apply end_chunk_rel; auto|exists V; auto using vsub_refl].
  Qed.

  Lemma notify_key_rel V c1 c2 k : agree V c1 c2 -> cov V c1 -> orel V (notify_key k c1) (notify_key k c2).
  Proof.
    intros A C. unfold notify_key. rewrite <- (agree_cur _ _ _ A).
    destruct (existsb _ _); [exact I|].
    eapply orel_some; [apply vsub_refl| |].
    - ag_destruct A c1 c2. simpl in *. ag_solve.
    - unfold cov in *. destruct c1; simpl in *. inversion C; subst. constructor; auto.
  Qed.

  Lemma mark_object_rel V c1 c2 dt : agree V c1 c2 -> cov V c1 -> vMK V = true ->
    orel V (mark_object cfg dt c1) (mark_object cfg dt c2).
  Proof.
    intros A C H. unfold mark_object.
    pose proof A as (A0 & _ & A2 & _). specialize (A2 H). unfold core in A0.
    assert (E1 : refcount c1 = refcount c2) by congruence.
    assert (E2 : marked c1 = marked c2) by congruence.
    assert (E3 : fwd c1 = fwd c2) by congruence.
    rewrite <- E1, <- E2, <- E3, <- A2.
    destruct (_ <? _); [exact I|]. destruct (alookup _ (marked c1)); [exact I|].
    destruct (alookup _ (fwd c1)).
    - destruct (_ =? 0); [exact I|]. eapply orel_some; [apply vsub_refl| |].
      + ag_destruct A c1 c2. simpl in *. ag_solve.
      + eapply cov_same; [| |exact C]; destruct c1; reflexivity.
    - eapply orel_some; [apply vsub_refl| |].
      + ag_destruct A c1 c2. simpl in *. ag_solve.
      + eapply cov_same; [| |exact C]; destruct c1; reflexivity.
  Qed.

  Lemma local_reference_rel V c1 c2 id allowed : agree V c1 c2 -> cov V c1 ->
    orel V (local_reference id allowed c1) (local_reference id allowed c2).
  Proof.
    intros A C. unfold local_reference.
    pose proof A as (A0 & _). unfold core in A0.
    assert (E2 : marked c1 = marked c2) by congruence.
    assert (E3 : fwd c1 = fwd c2) by congruence.
    rewrite <- E2, <- E3.
    destruct (alookup id (marked c1)).
    - destruct (_ =? 0); [exact I|]. exists V. auto using vsub_refl.
    - eapply orel_some; [apply vsub_refl| |].
      + ag_destruct A c1 c2. simpl in *. ag_solve.
      + eapply cov_same; [| |exact C]; destruct c1; reflexivity.
  Qed.

  Lemma array_dtype_not_rt t dt : array_dtype t = Some dt -> (dt =? DT_RecordType) = false.
  Proof.
    unfold array_dtype. intro H. apply nth_error_In in H.
    destruct const_facts as (_ & _ & _ & _ & _ & _ & _ & F). rewrite forallb_forall in F.
    specialize (F dt H). apply negb_true_iff in F. exact F.
  Qed.

  Lemma begin_array_rel V c1 c2 t r dt v : agree V c1 c2 -> cov V c1 ->
    is_marker r = false -> is_chunk r = false -> (dt =? DT_RecordType) = false ->
    orel V (Some (begin_array t r dt v c1)) (Some (begin_array t r dt v c2)).
  Proof.
    intros A C Rm Rc Nd. unfold begin_array, stack_rule.
    eapply orel_some; [apply vsub_A1| |].
    - ag_destruct A c1 c2. simpl in *. unfold set_array, set_cur, set_stack. ag_solve.
    - unfold cov in *. destruct c1; simpl in *. constructor.
      + unfold entry_demand, v_or, rule_demand, dtype_demand, vsub, mk_entry.
        cbn [vRT vMK vA1 vA2 e_rule e_dtype v_with_A1]. rewrite Rm, Rc, Nd. repeat split; simpl; intro X; try discriminate; auto.
      + eapply Forall_impl; [|exact C]. intros e He. cbv beta in *. eapply vsub_trans; [exact He|apply vsub_A1].
  Qed.

  Lemma begin_array_any_rel V c1 c2 t : agree V c1 c2 -> cov V c1 ->
    orel V (begin_array_any t c1) (begin_array_any t c2).
  Proof.
    intros A C. unfold begin_array_any. destruct (array_dtype t) as [dt|] eqn:E; [|exact I].
    pose proof (array_dtype_not_rt t dt E) as N.
    destruct (is_stringlike_validated t); apply begin_array_rel; auto.
  Qed.

  Lemma orel_id V c1 c2 : agree V c1 c2 -> cov V c1 -> orel V (Some c1) (Some c2).
  Proof. intros. exists V. auto using vsub_refl. Qed.

  Lemma stack_empty_eq V c1 c2 : agree V c1 c2 -> stack c1 = stack c2.
  Proof. apply agree_stack. Qed.

  Lemma exec_prim_rel V r m a p c1 c2 :
    agree V c1 c2 -> cov V c1 -> vsub (rule_demand r) V -> argok V m a -> prim_okb r m p = true ->
    orel V (exec_prim cfg call r m a p c1) (exec_prim cfg call r m a p c2).
  Proof.
    intros A C D G K.
    pose proof (agree_cur _ _ _ A) as Ec. pose proof (agree_stack _ _ _ A) as Es.
    destruct p; cbn [exec_prim]; cbn [prim_okb] in K.
    - exact I.
    - (* PChangeRule *)
      unfold no_demand in K. apply negb_true_iff, orb_false_iff in K. destruct K as [K1 K2].
      destruct (set_rule_rel V c1 c2 r0 A C) as [A' C'].
      + repeat split; simpl; intro X; try discriminate; try congruence.
        destruct r0; simpl in *; discriminate.
      + exists V. auto using vsub_refl.
    - apply begin_container_rel; auto; apply const_facts.
    - apply begin_container_rel; auto; apply const_facts.
    - (* PBeginRecordType *)
      destruct const_facts as (_ & _ & _ & _ & _ & F6 & F7 & _).
      rewrite <- Es. destruct (stack c1); [|exact I].
      unfold begin_container.
      assert (Ed : depth c1 = depth c2) by (destruct A as [H _]; unfold core in H; congruence).
      rewrite <- Ed. destruct (_ <? _); [exact I|].
      eapply orel_some; [apply vsub_RT| |].
      + apply begin_rt_agree. exact A.
      + unfold cov in *. destruct c1; simpl in *. constructor.
        * unfold entry_demand, v_or, rule_demand, dtype_demand, vsub, mk_entry.
          cbn [vRT vMK vA1 vA2 e_rule e_dtype v_with_RT is_marker is_array is_chunk]. rewrite ?N.eqb_refl, ?F6, ?F7.
          repeat split; simpl; intro X; try discriminate; auto.
        * eapply Forall_impl; [|exact C]. intros e He. cbv beta in *. eapply vsub_trans; [exact He|apply vsub_RT].
    - (* PBeginRecord *)
      assert (Er : rectypes c1 = rectypes c2) by (destruct A as [H _]; unfold core in H; congruence).
      rewrite <- Er. destruct (alookup _ _); [|exact I]. apply begin_container_rel; auto; apply const_facts.
    - apply begin_container_rel; auto; apply const_facts.
    - apply begin_container_rel; auto; apply const_facts.
    - apply end_container_rel; auto.
    - (* PBeginMarkerAnyType *)
      apply negb_true_iff in K.
      eapply orel_some; [apply vsub_MK| |].
      + apply begin_marker_agree. exact A.
      + unfold cov in *. destruct c1; simpl in *. constructor.
        * unfold entry_demand, v_or, rule_demand, dtype_demand, vsub, mk_entry.
          cbn [vRT vMK vA1 vA2 e_rule e_dtype v_with_MK is_marker is_array is_chunk].
          unfold dtype_special in K. apply orb_false_iff in K. destruct K as [K K3]. apply orb_false_iff in K. destruct K as [K1 K2].
          rewrite K1, K2, K3. repeat split; simpl; intro X; try discriminate; auto.
        * eapply Forall_impl; [|exact C]. intros e He. cbv beta in *. eapply vsub_trans; [exact He|apply vsub_MK].
    - (* PBeginMarkerKeyable *)
      apply negb_true_iff in K.
      eapply orel_some; [apply vsub_MK| |].
      + apply begin_marker_agree. exact A.
      + unfold cov in *. destruct c1; simpl in *. constructor.
        * unfold entry_demand, v_or, rule_demand, dtype_demand, vsub, mk_entry.
          cbn [vRT vMK vA1 vA2 e_rule e_dtype v_with_MK is_marker is_array is_chunk].
          unfold dtype_special in K. apply orb_false_iff in K. destruct K as [K K3]. apply orb_false_iff in K. destruct K as [K1 K2].
          rewrite K1, K2, K3. repeat split; simpl; intro X; try discriminate; auto.
        * eapply Forall_impl; [|exact C]. intros e He. cbv beta in *. eapply vsub_trans; [exact He|apply vsub_MK].
    - apply local_reference_rel; auto.
    - apply local_reference_rel; auto.
    - destruct (validate_full_array_any _ _ _ _); [apply orel_id; auto|exact I].
    - destruct (validate_full_array_stringlike _ _ _); [apply orel_id; auto|exact I].
    - destruct (_ && _); [apply orel_id; auto|exact I].
    - destruct (_ && _); [apply orel_id; auto|exact I].
    - destruct (assert_array_type _ _); [apply orel_id; auto|exact I].
    - apply begin_array_any_rel; auto.
    - destruct (assert_array_type _ _); [apply begin_array_any_rel; auto|exact I].
    - destruct (a_key a); [apply notify_key_rel; auto|exact I].
    - (* PNotifyKeyFromArrayData *)
      unfold key_from_array. destruct (_ =? AT_String); [apply notify_key_rel; auto|].
      destruct (_ =? AT_ResourceID); [apply notify_key_rel; auto|apply orel_id; auto].
    - (* PNotifyKeyFromBuilt *)
      apply meth_eqb_eq in K. unfold argok, is_string_dt in G. specialize (G K).
      destruct (a_dtype a =? DT_String) eqn:E1.
      + assert (H1 : vA1 V = true) by (apply G; reflexivity).
        destruct A as (A0 & A1 & A2 & A3 & A4). pose proof (A3 H1) as E. unfold gA1 in E.
        assert (Eb : built c1 = built c2) by congruence. rewrite <- Eb.
        apply notify_key_rel; auto. repeat split; auto.
      + destruct (a_dtype a =? DT_ResourceID) eqn:E2; [|apply orel_id; auto].
        assert (H1 : vA1 V = true) by (apply G; reflexivity).
        destruct A as (A0 & A1 & A2 & A3 & A4). pose proof (A3 H1) as E. unfold gA1 in E.
        assert (Eb : built c1 = built c2) by congruence. rewrite <- Eb.
        apply notify_key_rel; auto. repeat split; auto.
    - destruct (_ =? _); [apply orel_id; auto|exact I].
    - (* PEndDocument *)
      assert (Ef : fwd c1 = fwd c2) by (destruct A as [H _]; unfold core in H; congruence).
      rewrite <- Ef. destruct (fwd c1); [|exact I].
      destruct (set_rule_rel V c1 c2 RTerminal A C) as [A' C']; [repeat split; simpl; intro X; discriminate|].
      exists V. auto using vsub_refl.
    - apply unstack_rel; auto.
    - (* PForwardCurrent *)
      rewrite <- Ec. apply call_ok; auto.
      + apply cov_cur_rule; auto.
      + intros Hm Hs. apply G; auto. subst m0. simpl in K. apply meth_eqb_eq in K. exact K.
    - (* PForwardCurrentKeyableEmptyKey *)
      rewrite <- Ec. apply call_ok; auto.
      + apply cov_cur_rule; auto.
      + intros Hm; discriminate.
    - (* PForwardParent *)
      rewrite <- Es. destruct (stack c1) as [|e s] eqn:E; [exact I|].
      apply call_ok; auto.
      + unfold cov in C. rewrite E in C. inversion C as [|x l H1 H2]; subst. inversion H2 as [|y l' H3 H4]; subst.
        eapply vsub_trans; [apply vsub_or_l|exact H3].
      + intros Hm Hs. apply G; auto. subst m0. simpl in K. apply meth_eqb_eq in K. exact K.
    - (* PMarkObject *)
      assert (H : vMK V = true) by (destruct D as (_ & D2 & _); apply D2; exact K).
      destruct s; [apply mark_object_rel; auto| |apply mark_object_rel; auto].
      destruct (array_dtype _); [apply mark_object_rel; auto|exact I].
    - (* PMarkContainer: the marker id is taken from the current entry first *)
      rewrite <- Ec.
      assert (X : forall id, orel V (mark_object cfg (a_dtype a) (set_markers c1 id (marked c1) (fwd c1) (refcount c1)))
                                    (mark_object cfg (a_dtype a) (set_markers c2 id (marked c2) (fwd c2) (refcount c2)))).
      { intro id. eapply orel_weaken; [apply vsub_MK|]. apply mark_object_rel; [apply set_markers_agree, A| |reflexivity].
        eapply cov_same with (c := c1); [| |eapply cov_mono; [apply vsub_MK|exact C]]; destruct c1; reflexivity. }
      destruct (entry_marker_id (cur c1)); apply X.
    - (* PArrayRuleChunk *)
      apply rule_chunk_rel; auto. destruct D as (_ & _ & D3 & _). apply D3. exact K.
    - apply rule_chunk_rel; auto. destruct D as (_ & _ & D3 & _). apply D3. exact K.
    - exact I.
    - (* PArrayChunkRuleData *)
      destruct D as (_ & _ & D3 & D4). apply chunk_data_rel; auto.
      apply D3. simpl. destruct r; simpl in *; try discriminate; reflexivity.
    - destruct D as (_ & _ & D3 & D4). apply chunk_data_rel; auto.
      apply D3. simpl. destruct r; simpl in *; try discriminate; reflexivity.
    - exact I.
  Qed.

  Lemma exec_prims_rel r m a ps : Forall (fun p => prim_okb r m p = true) ps ->
    forall V c1 c2, agree V c1 c2 -> cov V c1 -> vsub (rule_demand r) V -> argok V m a ->
    orel V (exec_prims cfg call r m a ps c1) (exec_prims cfg call r m a ps c2).
  Proof.
    induction 1 as [|p ps Hp _ IH]; intros V c1 c2 A C D G; simpl.
    - apply orel_id; auto.
    - pose proof (exec_prim_rel V r m a p c1 c2 A C D G Hp) as R.
      destruct (exec_prim cfg call r m a p c1) as [x|], (exec_prim cfg call r m a p c2) as [y|];
        simpl in R; try contradiction; [|exact I].
      destruct R as [V' [S [A' C']]]. eapply orel_weaken; [exact S|].
      apply IH; auto.
      + eapply vsub_trans; eassumption.
      + intros Hm Hs. destruct S as (_ & _ & S3 & _). apply S3, G; auto.
  Qed.
End Sound.

Lemma call_rule_rel cfg : forall fuel r m a c1 c2 V,
  agree V c1 c2 -> cov V c1 -> vsub (rule_demand r) V -> argok V m a ->
  orel V (call_rule fuel cfg r m a c1) (call_rule fuel cfg r m a c2).
Proof.
  induction fuel as [|f IH]; intros r m a c1 c2 V A C D G; simpl; [exact I|].
  apply exec_prims_rel; auto. apply table_ok.
Qed.

Lemma call_current_rel cfg m a c1 c2 V :
  agree V c1 c2 -> cov V c1 -> m <> MChildContainerEnded ->
  orel V (call_current cfg m a c1) (call_current cfg m a c2).
Proof.
  intros A C N. unfold call_current. rewrite <- (agree_cur _ _ _ A).
  apply call_rule_rel; auto.
  - apply cov_cur_rule. exact C.
  - intro H. contradiction.
Qed.

Lemma notify_new_object_rel cfg real c1 c2 V :
  agree V c1 c2 -> cov V c1 -> orel V (notify_new_object cfg real c1) (notify_new_object cfg real c2).
Proof.
  intros A C. unfold notify_new_object. rewrite <- (agree_cur _ _ _ A).
  assert (Eo : objects c1 = objects c2) by (destruct A as [H _]; unfold core in H; congruence).
  rewrite <- Eo.
  destruct (match e_expected (cur c1) with Some x => real && (x <? (if real then e_count (cur c1) + 1 else e_count (cur c1))) | None => false end);
    [exact I|].
  destruct (_ <? _); [exact I|].
  eapply orel_some; [apply vsub_refl| |].
  - ag_destruct A c1 c2. simpl in *. unfold set_objects, set_cur. ag_solve.
  - unfold cov in *. destruct c1; simpl in *. inversion C; subst. constructor; auto.
Qed.

Definition srel (V : vset) (x y : option (rctx * list event)) : Prop :=
  match x, y with
  | Some (a, o1), Some (b, o2) => o1 = o2 /\ exists V', vsub V V' /\ agree V' a b /\ cov V' a
  | None, None => True
  | _, _ => False
  end.

Definition lift_ev (ev : list event) (o : option rctx) : option (rctx * list event) :=
  match o with Some c => Some (c, ev) | None => None end.

Lemma srel_lift V ev x y : orel V x y -> srel V (lift_ev ev x) (lift_ev ev y).
Proof. destruct x, y; simpl; auto. Qed.

Lemma orel_bind_r V x y (f g : rctx -> option rctx) :
  orel V x y ->
  (forall V' a b, vsub V V' -> agree V' a b -> cov V' a -> orel V' (f a) (g b)) ->
  orel V (Rules.obind x f) (Rules.obind y g).
Proof.
  intros H K. destruct x as [a|], y as [b|]; simpl in *; try contradiction; auto.
  destruct H as [V' [S [A C]]]. eapply orel_weaken; [exact S|]. apply K; auto.
Qed.

Lemma obj_call_rel cfg V real m a c1 c2 : agree V c1 c2 -> cov V c1 -> m <> MChildContainerEnded ->
  orel V (Rules.obind (notify_new_object cfg real c1) (call_current cfg m a))
         (Rules.obind (notify_new_object cfg real c2) (call_current cfg m a)).
Proof.
  intros A C N. apply orel_bind_r; [apply notify_new_object_rel; auto|].
  intros. apply call_current_rel; auto.
Qed.

Lemma rstep_rel cfg V c1 c2 e : agree V c1 c2 -> cov V c1 -> srel V (rstep cfg c1 e) (rstep cfg c2 e).
Proof.
  intros A C.
  assert (L : forall ev x y, orel V x y ->
     srel V (match x with Some c => Some (c, ev) | None => None end)
            (match y with Some c => Some (c, ev) | None => None end)).
  { intros ev x y H. apply (srel_lift V ev x y H). }
  destruct e; unfold rstep, keyable, nonkeyable, simple;
    repeat match goal with
    | |- srel _ (match ?v with _ => _ end) _ => is_var v; destruct v
    | |- srel _ (if ?b then _ else _) _ => destruct b
    end;
    try exact I;
    try (apply L; first
      [ apply obj_call_rel; auto; discriminate
      | apply call_current_rel; auto; discriminate
      | apply orel_bind_r; [apply notify_new_object_rel; auto|];
        intros V' a b S A' C'; destruct (validate_identifier _ _); [apply call_current_rel; auto; discriminate|exact I] ]).
Qed.

Lemma run_from_rel cfg es : forall c1 c2 V i out, agree V c1 c2 -> cov V c1 ->
  snd (fst (run_from cfg c1 i es out)) = snd (fst (run_from cfg c2 i es out)) /\
  snd (run_from cfg c1 i es out) = snd (run_from cfg c2 i es out).
Proof.
  induction es as [|e es IH]; intros c1 c2 V i out A C; simpl; [auto|].
  pose proof (rstep_rel cfg V c1 c2 e A C) as R. unfold srel in R.
  destruct (rstep cfg c1 e) as [[a o1]|], (rstep cfg c2 e) as [[b o2]|]; try contradiction.
  - destruct R as [<- [V' [S [A' C']]]]. eapply IH; eassumption.
  - simpl. auto.
Qed.

(* Reset brings every context to the initial one up to the four groups, none of which a
   stacked rule may read at that point *)
Lemma reset_agree c : agree v_none (reset_rctx c) (reset_rctx init_rctx).
Proof. unfold agree. split; [reflexivity|]. repeat split; simpl; discriminate. Qed.

Lemma reset_cov c : cov v_none (reset_rctx c).
Proof.
  unfold cov. simpl. constructor; [|constructor].
  vm_compute. repeat split; intro; discriminate.
Qed.

Lemma rules_call_any cfg c es : snd (rules_call cfg c es) = snd (rules_call cfg init_rctx es).
Proof.
  unfold rules_call.
  destruct (run_from_rel cfg es _ _ v_none 0 [] (reset_agree c) (reset_cov c)) as [E1 E2].
  destruct (run_from cfg (reset_rctx c) 0 es []) as [[c1 o1] r1].
  destruct (run_from cfg (reset_rctx init_rctx) 0 es []) as [[c2 o2] r2].
  simpl in *. congruence.
Qed.

Lemma rules_reuse cfg h es :
  run_reused init_rctx (rules_call cfg) h es = run_fresh init_rctx (rules_call cfg) es.
Proof. unfold run_reused, run_fresh. apply rules_call_any. Qed.

(* a freshly initialised context (Init = allocate + Reset) is the reset of the zero context *)
Lemma reset_init : reset_rctx init_rctx = init_rctx.
Proof. reflexivity. Qed.

(* ------------------------------------------------------------------ *)
(* 4b. Type caches over type graphs: a failed generation inside a CYCLE   *)
(* ------------------------------------------------------------------ *)

(* 1 = struct T { Next *T; Bad chan int }, 2 = *T, 3 = chan int *)
Definition tb_cycle : gtable := [(1, GComp [2; 3]); (2, GComp [1]); (3, GBad)].
(* T{} : the nil field Next is omitted (OmitFieldEmpty), Bad is never reached *)
Definition v_T0 : vtree := VT [None; None].
(* a nil pointer to T, and &T{} *)
Definition v_nilptr : vtree := VT [None].
Definition v_ptrT0 : vtree := VT [Some v_T0].

(* Marshal(T{}) fails (chan int), as on a fresh marshaler; but the iterator of *T, finished
   while T was in progress, stays in the map with T's placeholder inside.  A later
   Marshal of a nil *T is ANSWERED by the reused marshaler and refused by a fresh one. *)
Lemma gcache_cycle_witness :
  run_all (gcache_call tb_cycle) gcache_init [(1, v_T0); (2, v_nilptr); (2, v_ptrT0); (1, v_T0)] = [CErr; COk; CErr; CErr] /\
  run_fresh gcache_init (gcache_call tb_cycle) (2, v_nilptr) = CErr /\
  g_map (fst (gcache_call tb_cycle gcache_init (1, v_T0))) = [(2, 2)].
Proof. vm_compute. repeat split; reflexivity. Qed.

Lemma gcache_cycle_refuted : exists tb h op,
  run_reused gcache_init (gcache_call tb) h op <> run_fresh gcache_init (gcache_call tb) op.
Proof. exists tb_cycle, [(1, v_T0)], (2, v_nilptr). vm_compute. discriminate. Qed.

(* without the cycle (the unsupported kind behind a pointer, 1 = struct { P *S }, 2 = *S,
   3 = struct S { C chan int }, 4 = chan int) nothing of the failed generation stays behind *)
Example gcache_acyclic_clean :
  g_map (fst (gcache_call [(1, GComp [2]); (2, GComp [3]); (3, GComp [4]); (4, GBad)] gcache_init (1, VT [Some (VT [None])]))) = [].
Proof. vm_compute. reflexivity. Qed.

(* ------------------------------------------------------------------ *)
(* 4c. Marker names restart with every document                         *)
(* ------------------------------------------------------------------ *)

Lemma marker_call_any next k : snd (marker_call next k) = snd (marker_call marker_init k).
Proof. reflexivity. Qed.

Lemma marker_reuse h k :
  run_reused marker_init marker_call h k = run_fresh marker_init marker_call k.
Proof. unfold run_reused, run_fresh. apply marker_call_any. Qed.

(* every document's names are 0, 1, ..., k-1 *)
Lemma names_from_length s k : length (names_from s k) = k.
Proof. revert s. induction k as [|k IH]; intros s; simpl; [reflexivity|]. rewrite IH. reflexivity. Qed.

Lemma names_from_nth s k i : (i < k)%nat -> nth i (names_from s k) 0 = s + N.of_nat i.
Proof.
  revert s i. induction k as [|k IH]; intros s i Hi; [lia|].
  destruct i as [|i]; simpl.
  - lia.
  - rewrite IH by lia. lia.
Qed.

Lemma marker_names_spec h k i : (i < N.to_nat k)%nat ->
  nth i (run_reused marker_init marker_call h k) 0 = N.of_nat i.
Proof.
  intros Hi. rewrite marker_reuse. unfold run_fresh, marker_call. cbn [snd].
  rewrite names_from_nth by exact Hi. lia.
Qed.

(* with one root iterator kept by the marshaler the second marked value is numbered on *)
Lemma marker_noreset_refuted : exists h k,
  run_reused marker_init marker_call_noreset h k <> run_fresh marker_init marker_call_noreset k.
Proof. exists [1], 1. vm_compute. discriminate. Qed.

Example marker_witness :
  run_all marker_call marker_init [1; 0; 2; 1] = [[0]; []; [0; 1]; [0]] /\
  run_all marker_call_noreset marker_init [1; 0; 2; 1] = [[0]; []; [1; 2]; [3]].
Proof. vm_compute. split; reflexivity. Qed.

(* ------------------------------------------------------------------ *)
(* 6. Marshaler and unmarshaler as owners of their parts                *)
(* ------------------------------------------------------------------ *)

Lemma cbe_unmarshaler_reuse max cfg h op :
  run_reused cbe_unmarshaler_init (cbe_unmarshaler_call max cfg) h op
  = run_fresh cbe_unmarshaler_init (cbe_unmarshaler_call max cfg) op.
Proof.
  unfold cbe_unmarshaler_init, cbe_unmarshaler_call. apply pair_reuse.
  - apply cache_reuse.
  - apply pair_reuse; [apply reader_reuse|apply rules_reuse].
Qed.

Lemma cte_marshaler_reuse h op : has_header (snd op) ->
  run_reused cte_marshaler_init cte_marshaler_call h op = run_fresh cte_marshaler_init cte_marshaler_call op.
Proof.
  intro H. unfold cte_marshaler_init, cte_marshaler_call. apply pair_reuse; [apply cache_reuse|apply cte_reuse, H].
Qed.

Lemma cbe_marshaler_reuse h op :
  run_reused cbe_marshaler_init cbe_marshaler_call h op = run_fresh cbe_marshaler_init cbe_marshaler_call op.
Proof.
  unfold cbe_marshaler_init, cbe_marshaler_call. apply pair_reuse; [apply cache_reuse|apply cbe_enc_reuse].
Qed.

(* the five statements together fail (the CTE encoder's does, for streams without OnBeginDocument) *)
Lemma full_refuted :
  ~ ((forall cfg history es,
        run_reused init_rctx (rules_call cfg) history es = run_fresh init_rctx (rules_call cfg) es) /\
     (forall max history reads,
        run_reused reader_init (reader_call max) history reads = run_fresh reader_init (reader_call max) reads) /\
     (forall history es,
        run_reused Cbe.enc_init cbe_enc_call history es = run_fresh Cbe.enc_init cbe_enc_call es) /\
     (forall history es,
        run_reused cte_init cte_call history es = run_fresh cte_init cte_call es) /\
     (forall dynamic history t,
        run_reused cache_init (cache_call dynamic) history t = run_fresh cache_init (cache_call dynamic) t) /\
     (forall tb history op,
        run_reused gcache_init (gcache_call tb) history op = run_fresh gcache_init (gcache_call tb) op)).
Proof.
  intros (_ & _ & _ & H & _). destruct cte_refuted as [h [es N]]. apply N, H.
Qed.

(* ... and so does the statement for the type caches alone, over self-referential types *)
Lemma cache_graph_refuted :
  ~ (forall tb history op,
       run_reused gcache_init (gcache_call tb) history op = run_fresh gcache_init (gcache_call tb) op).
Proof. intros H. destruct gcache_cycle_refuted as [tb [h [op N]]]. apply N, H. Qed.
