(* C16 — proofs about the reuse machines of Model/Reuse.v. *)
From CE Require Import Model.Rules Model.Reuse.
From CE Require Model.Cbe.
From Coq Require Import ZifyN ZifyNat ZifyBool.
Open Scope N_scope.

(* ------------------------------------------------------------------ *)
(* Generic: an invariant that makes every call answer like a fresh one  *)
(* ------------------------------------------------------------------ *)

Section Machine.
  Context {S Op Obs : Type}.
  Variable init : S.
  Variable call : S -> Op -> S * Obs.
  Variable Inv : S -> Prop.          (* "behaves like a fresh instance" *)
  Variable Good : Op -> Prop.        (* operations that keep it so *)

  Hypothesis inv_init : Inv init.
  Hypothesis inv_obs : forall s op, Inv s -> snd (call s op) = snd (call init op).
  Hypothesis inv_step : forall s op, Inv s -> Good op -> Inv (fst (call s op)).

  Lemma run_hist_inv : forall h s, Inv s -> Forall Good h -> Inv (run_hist call s h).
  Proof.
    induction h as [|op h IH]; intros s Hs Hh; simpl; [exact Hs|].
    inversion Hh; subst. apply IH; [apply inv_step; assumption | assumption].
  Qed.

  Theorem reuse_eq_fresh_when : forall h op,
    Forall Good h -> run_reused init call h op = run_fresh init call op.
  Proof.
    intros h op Hh. unfold run_reused, run_fresh. apply inv_obs.
    apply run_hist_inv; assumption.
  Qed.
End Machine.

Lemma Forall_True {A} (l : list A) : Forall (fun _ => True) l.
Proof. induction l; constructor; auto. Qed.

(* ------------------------------------------------------------------ *)
(* 2. CBE reader                                                        *)
(* ------------------------------------------------------------------ *)

Lemma reader_call_any max r reads : reader_call max r reads = reader_call max reader_init reads.
Proof. reflexivity. Qed.

Lemma reader_reuse max h reads :
  run_reused reader_init (reader_call max) h reads = run_fresh reader_init (reader_call max) reads.
Proof.
  unfold run_reused, run_fresh. rewrite reader_call_any. reflexivity.
Qed.

(* without the reset in SetReader the property fails: three documents of 8
   bytes each under a limit of 20 *)
Lemma reader_noreset_refuted :
  exists max h reads,
    run_reused reader_init (reader_call_noreset max) h reads
    <> run_fresh reader_init (reader_call_noreset max) reads.
Proof.
  exists 20, [[1; 1; 6]; [1; 1; 6]], [1; 1; 6]. vm_compute. discriminate.
Qed.

(* ------------------------------------------------------------------ *)
(* 3. CBE encoder                                                       *)
(* ------------------------------------------------------------------ *)

(* arrayType is only read while trySmallArrayHeader is set *)
Definition enc_eqv (a b : Cbe.enc_state) : Prop :=
  Cbe.es_try_small a = Cbe.es_try_small b /\
  (Cbe.es_try_small a = true -> Cbe.es_array_type a = Cbe.es_array_type b).

Definition enc_step_rel (x y : option (Cbe.enc_state * bytes)) : Prop :=
  match x, y with
  | Some (a', o1), Some (b', o2) => enc_eqv a' b' /\ o1 = o2
  | None, None => True
  | _, _ => False
  end.

Lemma enc_eqv_refl a : enc_eqv a a.
Proof. split; auto. Qed.

Lemma keep_rel a b (o : option bytes) : enc_eqv a b ->
  enc_step_rel (Cbe.opt_map (fun x => (a, x)) o) (Cbe.opt_map (fun x => (b, x)) o).
Proof. intro H. destruct o; simpl; auto. Qed.

Lemma enc_step_rel_refl x : enc_step_rel x x.
Proof. destruct x as [[a o]|]; simpl; auto using enc_eqv_refl. Qed.

Lemma enc_event_eqv a b e : enc_eqv a b ->
  enc_step_rel (Cbe.cbe_encode_event a e) (Cbe.cbe_encode_event b e).
Proof.
  intro H. destruct e; unfold Cbe.cbe_encode_event;
    try (apply keep_rel; exact H);
    try (destruct v; apply keep_rel; exact H);
    try apply enc_step_rel_refl.
  - (* EEndDoc *)
    destruct H as [H1 H2]. destruct a as [ta sa], b as [tb sb]; simpl in H1, H2; subst sb; simpl.
    destruct sa.
    + rewrite (H2 eq_refl). apply enc_step_rel_refl.
    + simpl. split; [split; simpl; auto; discriminate | reflexivity].
  - (* EArrayChunk *)
    destruct H as [H1 H2]. destruct a as [ta sa], b as [tb sb]; simpl in H1, H2; subst sb; simpl.
    destruct sa.
    + rewrite (H2 eq_refl). apply enc_step_rel_refl.
    + unfold Cbe.guard. destruct (Cbe.is_u64 n); simpl; auto.
      split; [split; simpl; auto; discriminate | reflexivity].
Qed.

Lemma enc_run_eqv es : forall a b i out, enc_eqv a b ->
  enc_eqv (fst (cbe_enc_run a i es out)) (fst (cbe_enc_run b i es out)) /\
  snd (cbe_enc_run a i es out) = snd (cbe_enc_run b i es out).
Proof.
  induction es as [|e es IH]; intros a b i out H; simpl; [auto|].
  pose proof (enc_event_eqv a b e H) as R. unfold enc_step_rel in R.
  destruct (Cbe.cbe_encode_event a e) as [[a' o1]|], (Cbe.cbe_encode_event b e) as [[b' o2]|];
    try contradiction.
  - destruct R as [R1 R2]. subst o2. apply IH. exact R1.
  - simpl. auto.
Qed.

Definition enc_clean (st : Cbe.enc_state) : Prop := enc_dangling st = false.
(* a document that a fresh encoder finishes without a pending array begin *)
Definition enc_closes (es : list event) : Prop :=
  enc_dangling (fst (cbe_enc_call Cbe.enc_init es)) = false.

Lemma enc_clean_eqv st : enc_clean st -> enc_eqv st Cbe.enc_init.
Proof. unfold enc_clean, enc_dangling. intro H. split; simpl; [exact H | rewrite H; discriminate]. Qed.

Lemma cbe_enc_obs st es : enc_clean st ->
  snd (cbe_enc_call st es) = snd (cbe_enc_call Cbe.enc_init es).
Proof. intro H. apply enc_run_eqv, enc_clean_eqv, H. Qed.

Lemma cbe_enc_step st es : enc_clean st -> enc_closes es -> enc_clean (fst (cbe_enc_call st es)).
Proof.
  intros H C. destruct (enc_run_eqv es st Cbe.enc_init 0 [] (enc_clean_eqv st H)) as [[E _] _].
  unfold enc_clean, enc_dangling, enc_closes, enc_dangling, cbe_enc_call in *. congruence.
Qed.

Lemma cbe_enc_reuse_when h es : Forall enc_closes h ->
  run_reused Cbe.enc_init cbe_enc_call h es = run_fresh Cbe.enc_init cbe_enc_call es.
Proof.
  apply (reuse_eq_fresh_when Cbe.enc_init cbe_enc_call enc_clean enc_closes).
  - reflexivity.
  - intros; apply cbe_enc_obs; assumption.
  - intros; apply cbe_enc_step; assumption.
Qed.

(* the same, stated on the instance: no pending array begin when the document starts *)
Lemma cbe_enc_reuse_clean h es : enc_dangling (run_hist cbe_enc_call Cbe.enc_init h) = false ->
  run_reused Cbe.enc_init cbe_enc_call h es = run_fresh Cbe.enc_init cbe_enc_call es.
Proof. intro H. apply cbe_enc_obs. exact H. Qed.

(* a document aborted after an array begin, then a complete document: a stray array header *)
Lemma cbe_enc_refuted : exists h es,
  run_reused Cbe.enc_init cbe_enc_call h es <> run_fresh Cbe.enc_init cbe_enc_call es.
Proof.
  exists [[EBeginDoc; EVersion 0; EList; EArrayBegin CbeConsts.cbeAT_Uint8]], [EBeginDoc; EVersion 0; ENull; EEndDoc].
  vm_compute. discriminate.
Qed.
Example cbe_enc_refuted_bytes :
  run_reused Cbe.enc_init cbe_enc_call [[EBeginDoc; EVersion 0; EList; EArrayBegin CbeConsts.cbeAT_Uint8]]
             [EBeginDoc; EVersion 0; ENull; EEndDoc] = (None, [129; 0; 125; 147]) /\
  run_fresh Cbe.enc_init cbe_enc_call [EBeginDoc; EVersion 0; ENull; EEndDoc] = (None, [129; 0; 125]).
Proof. vm_compute. split; reflexivity. Qed.

(* ------------------------------------------------------------------ *)
(* 5. Type caches                                                       *)
(* ------------------------------------------------------------------ *)

(* induction principle for the nested type *)
Section TyInd.
  Variable P : ty -> Prop.
  Hypothesis Hleaf : forall n, P (TLeaf n).
  Hypothesis Hbad : forall n, P (TBad n).
  Hypothesis Hcomp : forall n cs, Forall (fun c => P (snd c)) cs -> P (TComp n cs).
  Hypothesis Hdyn : forall t, P t -> P (TDyn t).
  Fixpoint ty_ind' (t : ty) : P t :=
    match t with
    | TLeaf n => Hleaf n
    | TBad n => Hbad n
    | TComp n cs =>
        Hcomp n cs ((fix go (l : list (bool * ty)) : Forall (fun c => P (snd c)) l :=
                       match l with
                       | [] => Forall_nil _
                       | c :: r => Forall_cons c (ty_ind' (snd c)) (go r)
                       end) cs)
    | TDyn u => Hdyn u (ty_ind' u)
    end.
End TyInd.

Fixpoint comps_eqb (l m : list (bool * ty)) : bool :=
  match l, m with
  | [], [] => true
  | (f, t) :: l', (g, u) :: m' => Bool.eqb f g && ty_eqb t u && comps_eqb l' m'
  | _, _ => false
  end.

Lemma ty_eqb_comp x cs y ds : ty_eqb (TComp x cs) (TComp y ds) = (x =? y) && comps_eqb cs ds.
Proof.
  simpl. apply f_equal. revert ds. induction cs as [|[f t] cs IH]; intros [|[g u] ds]; simpl; auto.
Qed.

Lemma ty_eqb_eq : forall a b, ty_eqb a b = true <-> a = b.
Proof.
  induction a as [n|n|n cs IH|t IH] using ty_ind'; intros b.
  - destruct b; simpl; try (split; [discriminate|discriminate]). rewrite N.eqb_eq. split; congruence.
  - destruct b; simpl; try (split; [discriminate|discriminate]). rewrite N.eqb_eq. split; congruence.
  - destruct b as [m|m|m ds|u]; try (simpl; split; discriminate).
    rewrite ty_eqb_comp, andb_true_iff, N.eqb_eq.
    assert (E : comps_eqb cs ds = true <-> cs = ds).
    { clear n m. revert ds. induction IH as [|[f t] cs Ht _ IHcs]; intros [|[g u] ds]; simpl;
        try (split; [discriminate|discriminate]); [tauto|].
      rewrite !andb_true_iff, Bool.eqb_true_iff, IHcs. simpl in Ht. rewrite Ht.
      split; [intros [[-> ->] ->]; reflexivity | intro E; inversion E; auto]. }
    rewrite E. split; [intros [-> ->]; reflexivity | intro H; inversion H; auto].
  - destruct b; simpl; try (split; discriminate). rewrite IH. split; congruence.
Qed.

Lemma ty_eqb_refl a : ty_eqb a a = true.
Proof. apply ty_eqb_eq. reflexivity. Qed.

(* ---- lookup / set_ready ---- *)
Lemma lookup_cons k k' st c :
  lookup k ((k', st) :: c) = if ty_eqb k k' then Some st else lookup k c.
Proof. reflexivity. Qed.

Lemma lookup_here k st c : lookup k ((k, st) :: c) = Some st.
Proof. simpl. rewrite ty_eqb_refl. reflexivity. Qed.

Lemma lookup_other k k' st c : k <> k' -> lookup k ((k', st) :: c) = lookup k c.
Proof.
  intro H. simpl. destruct (ty_eqb k k') eqn:E; [apply ty_eqb_eq in E; contradiction | reflexivity].
Qed.

Lemma lookup_set_ready_same k c : lookup k c <> None -> lookup k (set_ready k c) = Some true.
Proof.
  induction c as [|[k' st] c IH]; simpl; intro H; [contradiction|].
  destruct (ty_eqb k k') eqn:E; simpl; rewrite E; [reflexivity | apply IH, H].
Qed.

Lemma lookup_set_ready_other k k' c : k' <> k -> lookup k' (set_ready k c) = lookup k' c.
Proof.
  intro H. induction c as [|[k2 st] c IH]; simpl; [reflexivity|].
  destruct (ty_eqb k k2) eqn:E; simpl.
  - apply ty_eqb_eq in E. subst k2.
    destruct (ty_eqb k' k) eqn:E2; [apply ty_eqb_eq in E2; contradiction | reflexivity].
  - rewrite IH. reflexivity.
Qed.

Lemma lookup_set_ready_mono k u c : lookup u c = Some true -> lookup u (set_ready k c) = Some true.
Proof.
  intro H. destruct (ty_eqb u k) eqn:E.
  - apply ty_eqb_eq in E. subst u. apply lookup_set_ready_same. congruence.
  - rewrite lookup_set_ready_other; [exact H|]. intro; subst. rewrite ty_eqb_refl in E. discriminate.
Qed.

(* ---- sizes ---- *)
Fixpoint tsize (t : ty) : nat :=
  match t with
  | TLeaf _ | TBad _ => 1
  | TComp _ cs => S (fold_right (fun c acc => tsize (snd c) + acc)%nat O cs)
  | TDyn u => S (tsize u)
  end.

Definition is_dyn (t : ty) : bool := match t with TDyn _ => true | _ => false end.

Lemma tsize_comp_lt n cs u : In u (map snd cs) -> (tsize u < tsize (TComp n cs))%nat.
Proof.
  simpl. induction cs as [|[f t] cs IH]; simpl; [tauto|].
  intros [->|H]; [lia | specialize (IH H); lia].
Qed.

Lemma erase_comp n cs : erase (TComp n cs) = TComp n (map (fun c => (false, erase (snd c))) cs).
Proof. reflexivity. Qed.

Lemma erase_comps_snd cs : map snd (map (fun c : bool * ty => (false, erase (snd c))) cs) = map (fun c => erase (snd c)) cs.
Proof. rewrite map_map. reflexivity. Qed.

Lemma is_dyn_erase t : is_dyn (erase t) = is_dyn t.
Proof. destruct t; reflexivity. Qed.

(* ---- the invariant ---- *)
Definition extends (c c' : cache) : Prop := forall k st, lookup k c = Some st -> lookup k c' = Some st.

Definition comps_ready (k : ty) (c : cache) : Prop :=
  match k with
  | TComp _ cs => forall u, In u (map snd cs) -> is_dyn u = true \/ lookup u c = Some true
  | _ => True
  end.

(* P: keys whose generation is in progress (placeholder stored, WaitGroup not yet released) *)
Definition GInv (P : list ty) (c : cache) : Prop :=
  forall k st, lookup k c = Some st ->
    (st = false /\ In k P) \/ (st = true /\ supported k = true /\ comps_ready k c).

Lemma extends_refl c : extends c c.
Proof. intros k st H; exact H. Qed.
Lemma extends_trans a b c : extends a b -> extends b c -> extends a c.
Proof. intros H1 H2 k st H. apply H2, H1, H. Qed.

Lemma comps_ready_mono k c c' : (forall u, lookup u c = Some true -> lookup u c' = Some true) ->
  comps_ready k c -> comps_ready k c'.
Proof.
  intros M H. destruct k; simpl in *; auto. intros u Hu. destruct (H u Hu) as [D|R]; auto.
Qed.

Lemma supported_erase_comp n cs :
  supported (erase (TComp n cs)) = forallb (fun c => supported (erase (snd c))) cs.
Proof.
  simpl. induction cs as [|c cs IH]; simpl; [reflexivity|]. rewrite IH. reflexivity.
Qed.

(* ---- gen ---- *)
Fixpoint gen_list (c : cache) (l : list (bool * ty)) : cache * bool :=
  match l with
  | [] => (c, true)
  | (_, u) :: l' => let '(c', ok) := gen c u in if ok then gen_list c' l' else (c', false)
  end.

Lemma gen_comp_unfold c n cs :
  gen c (TComp n cs) =
  let k := erase (TComp n cs) in
  match lookup k c with
  | Some _ => (c, true)
  | None =>
      let c1 := (k, false) :: c in
      let '(c2, ok) := gen_list c1 cs in
      if ok then (set_ready k c2, true) else (c2, false)
  end.
Proof. reflexivity. Qed.

Definition present (t : ty) (c : cache) : Prop := is_dyn t = true \/ lookup (erase t) c = Some true.

Definition gen_ok (t : ty) : Prop :=
  forall c P, GInv P c -> (forall p, In p P -> (tsize (erase t) < tsize p)%nat) ->
    extends c (fst (gen c t)) /\
    snd (gen c t) = supported (erase t) /\
    (snd (gen c t) = true -> GInv P (fst (gen c t)) /\ present t (fst (gen c t))).

Lemma GInv_cached_ready P c k st :
  GInv P c -> (forall p, In p P -> (tsize k < tsize p)%nat) -> lookup k c = Some st ->
  st = true /\ supported k = true.
Proof.
  intros G S L. destruct (G k st L) as [[_ I]|[-> [Sp _]]]; [|auto].
  specialize (S k I). lia.
Qed.

Lemma GInv_push P c k : GInv P c -> lookup k c = None -> GInv (k :: P) ((k, false) :: c).
Proof.
  intros G N k' st L. rewrite lookup_cons in L. destruct (ty_eqb k' k) eqn:E.
  - apply ty_eqb_eq in E. subst k'. inversion L; subst. left. split; [reflexivity | left; reflexivity].
  - destruct (G k' st L) as [[-> I]|[-> [Sp R]]].
    + left. split; [reflexivity | right; exact I].
    + right. repeat split; auto. eapply comps_ready_mono; [|exact R].
      intros u Hu. rewrite lookup_cons. destruct (ty_eqb u k) eqn:E2; [|exact Hu].
      apply ty_eqb_eq in E2. subst u. congruence.
Qed.

Lemma gen_leaf_ok n : gen_ok (TLeaf n).
Proof.
  intros c P G S. simpl. destruct (lookup (TLeaf n) c) as [st|] eqn:L; simpl.
  - destruct (GInv_cached_ready P c _ _ G S L) as [-> _].
    split; [apply extends_refl|split; [reflexivity|intros _; split; [exact G|right; exact L]]].
  - rewrite N.eqb_refl. simpl. split; [|split; [reflexivity|intros _; split]].
    + intros k st H. rewrite lookup_cons. destruct (ty_eqb k (TLeaf n)) eqn:E; [|exact H].
      apply ty_eqb_eq in E. subst k. congruence.
    + intros k st H. rewrite lookup_cons in H. destruct (ty_eqb k (TLeaf n)) eqn:E.
      * apply ty_eqb_eq in E. subst k. inversion H; subst. right. repeat split; simpl; auto.
      * destruct (G k st H) as [[-> I]|[-> [Sp R]]]; [left; auto|right; repeat split; auto].
        eapply comps_ready_mono; [|exact R]. intros u Hu. rewrite lookup_cons.
        destruct (ty_eqb u (TLeaf n)) eqn:E2; [|exact Hu]. apply ty_eqb_eq in E2. subst u. congruence.
    + right. simpl. rewrite N.eqb_refl. reflexivity.
Qed.

Lemma gen_bad_ok n : gen_ok (TBad n).
Proof.
  intros c P G S. simpl. destruct (lookup (TBad n) c) as [st|] eqn:L; simpl.
  - destruct (GInv_cached_ready P c _ _ G S L) as [_ F]. simpl in F. discriminate.
  - split; [|split; [reflexivity|discriminate]].
    intros k st H. rewrite lookup_cons. destruct (ty_eqb k (TBad n)) eqn:E; [|exact H].
    apply ty_eqb_eq in E. subst k. congruence.
Qed.

Lemma gen_dyn_ok t : gen_ok (TDyn t).
Proof.
  intros c P G S. simpl. split; [apply extends_refl|split; [reflexivity|intros _; split; [exact G|left; reflexivity]]].
Qed.

Lemma present_extends t c c' : extends c c' -> present t c -> present t c'.
Proof. intros E [D|L]; [left; exact D | right; apply E, L]. Qed.

Lemma gen_list_ok l : Forall (fun c => gen_ok (snd c)) l ->
  forall c P, GInv P c ->
    (forall u, In u (map snd l) -> forall p, In p P -> (tsize (erase u) < tsize p)%nat) ->
    extends c (fst (gen_list c l)) /\
    snd (gen_list c l) = forallb (fun c => supported (erase (snd c))) l /\
    (snd (gen_list c l) = true ->
       GInv P (fst (gen_list c l)) /\ forall u, In u (map snd l) -> present u (fst (gen_list c l))).
Proof.
  induction 1 as [|[f u] l Hu _ IH]; intros c P G S; simpl.
  - split; [apply extends_refl|split; [reflexivity|intros _; split; [exact G|intros u []]]].
  - simpl in Hu. destruct (Hu c P G (fun p => S u (or_introl eq_refl) p)) as [E1 [O1 R1]].
    destruct (gen c u) as [c' ok] eqn:Eg. simpl in E1, O1, R1. subst ok.
    destruct (supported (erase u)) eqn:Su; simpl.
    + destruct (R1 eq_refl) as [G1 P1].
      destruct (IH c' P G1 (fun v Hv => S v (or_intror Hv))) as [E2 [O2 R2]].
      split; [eapply extends_trans; eassumption|]. split; [exact O2|].
      intro H. destruct (R2 H) as [G2 P2]. split; [exact G2|].
      intros v [<-|Hv]; [eapply present_extends; eassumption | apply P2, Hv].
    + split; [exact E1|split; [reflexivity|discriminate]].
Qed.

Lemma gen_comp_ok n cs : Forall (fun c => gen_ok (snd c)) cs -> gen_ok (TComp n cs).
Proof.
  intros F c P G S. rewrite gen_comp_unfold. set (k := erase (TComp n cs)) in *. cbv zeta.
  destruct (lookup k c) as [st|] eqn:L.
  - destruct (GInv_cached_ready P c _ _ G S L) as [-> Sp]. simpl.
    split; [apply extends_refl|split; [symmetry; exact Sp|intros _; split; [exact G|right; exact L]]].
  - assert (G1 := GInv_push P c k G L).
    assert (S1 : forall u, In u (map snd cs) -> forall p, In p (k :: P) -> (tsize (erase u) < tsize p)%nat).
    { intros u Hu p [<-|Hp].
      - unfold k. rewrite erase_comp. apply tsize_comp_lt. rewrite erase_comps_snd.
        apply in_map_iff. apply in_map_iff in Hu. destruct Hu as [x [<- Hx]]. exists x. split; auto.
      - specialize (S p Hp). assert ((tsize (erase u) < tsize k)%nat); [|lia].
        unfold k. rewrite erase_comp. apply tsize_comp_lt. rewrite erase_comps_snd.
        apply in_map_iff. apply in_map_iff in Hu. destruct Hu as [x [<- Hx]]. exists x. split; auto. }
    destruct (gen_list_ok cs F _ _ G1 S1) as [E2 [O2 R2]].
    destruct (gen_list ((k, false) :: c) cs) as [c2 ok] eqn:Eg. simpl in E2, O2, R2.
    assert (Ec : extends c c2).
    { intros k' st H. apply E2. rewrite lookup_other; [exact H|]. intro; subst. congruence. }
    rewrite <- (supported_erase_comp n) in O2. fold k in O2. subst ok.
    destruct (supported k) eqn:Sk; simpl.
    + destruct (R2 eq_refl) as [G2 P2].
      assert (Lk : lookup k c2 = Some false) by (apply E2, lookup_here).
      split; [|split; [reflexivity|intros _; split]].
      * intros k' st H. rewrite lookup_set_ready_other; [apply Ec, H|]. intro; subst. congruence.
      * intros k' st H. destruct (ty_eqb k' k) eqn:E.
        -- apply ty_eqb_eq in E. subst k'. rewrite lookup_set_ready_same in H by congruence.
           inversion H; subst. right. split; [reflexivity|split; [exact Sk|]].
           unfold k. rewrite erase_comp. simpl. rewrite erase_comps_snd. intros u Hu.
           apply in_map_iff in Hu. destruct Hu as [x [<- Hx]].
           destruct (P2 (snd x) (in_map snd _ _ Hx)) as [D|R].
           ++ left. rewrite is_dyn_erase. exact D.
           ++ right. apply lookup_set_ready_mono. exact R.
        -- assert (N : k' <> k) by (intro; subst; rewrite ty_eqb_refl in E; discriminate).
           rewrite lookup_set_ready_other in H by exact N.
           destruct (G2 k' st H) as [[-> [I|I]]|[-> [Sp R]]].
           ++ congruence.
           ++ left. auto.
           ++ right. split; [reflexivity|split; [exact Sp|]].
              eapply comps_ready_mono; [|exact R]. intros u Hu. apply lookup_set_ready_mono, Hu.
      * right. apply lookup_set_ready_same. congruence.
    + split; [exact Ec|split; [reflexivity|discriminate]].
Qed.

Lemma gen_all_ok : forall t, gen_ok t.
Proof.
  induction t using ty_ind'; auto using gen_leaf_ok, gen_bad_ok, gen_comp_ok, gen_dyn_ok.
Qed.

(* ---- visit ---- *)
Fixpoint visit_list (dyn : bool) (c : cache) (l : list (bool * ty)) (tr : list N) : cache * cres * list N :=
  match l with
  | [] => (c, COk, tr)
  | (reach, u) :: l' =>
      if reach then
        let '(c', r, tr') := visit dyn c u tr in
        match r with COk => visit_list dyn c' l' tr' | _ => (c', r, tr') end
      else visit_list dyn c l' tr
  end.

Lemma visit_comp_unfold dyn c n cs tr :
  visit dyn c (TComp n cs) tr =
  match lookup (erase (TComp n cs)) c with
  | Some false => (c, CHang, tr)
  | None => (c, CErr, tr)
  | Some true => visit_list dyn c cs (tr ++ [n])
  end.
Proof.
  simpl. destruct (lookup _ c) as [[|]|]; try reflexivity.
  generalize (tr ++ [n]). generalize c. induction cs as [|[reach u] cs IH]; intros c0 tr0; [reflexivity|].
  simpl. destruct reach; [|apply IH].
  destruct (visit dyn c0 u tr0) as [[c' r] tr']. destruct r; try reflexivity. apply IH.
Qed.

(* what an instance whose cache holds no unreleased placeholder answers: a
   function of the operation alone *)
Fixpoint spec (dyn : bool) (t : ty) (tr : list N) : cres * list N :=
  match t with
  | TLeaf n => (COk, tr ++ [n])
  | TBad _ => (CErr, tr)
  | TComp n cs =>
      (fix go (l : list (bool * ty)) (tr : list N) : cres * list N :=
         match l with
         | [] => (COk, tr)
         | (reach, u) :: l' =>
             if reach then
               let '(r, tr') := spec dyn u tr in
               match r with COk => go l' tr' | _ => (r, tr') end
             else go l' tr
         end) cs (tr ++ [n])
  | TDyn inner =>
      if dyn then (if supported (erase inner) then spec dyn inner tr else (CErr, tr)) else (COk, tr)
  end.

Fixpoint spec_list (dyn : bool) (l : list (bool * ty)) (tr : list N) : cres * list N :=
  match l with
  | [] => (COk, tr)
  | (reach, u) :: l' =>
      if reach then
        let '(r, tr') := spec dyn u tr in
        match r with COk => spec_list dyn l' tr' | _ => (r, tr') end
      else spec_list dyn l' tr
  end.
Lemma spec_comp_unfold dyn n cs tr : spec dyn (TComp n cs) tr = spec_list dyn cs (tr ++ [n]).
Proof.
  simpl. generalize (tr ++ [n]). induction cs as [|[reach u] cs IH]; intros tr0; [reflexivity|].
  simpl. destruct reach; [|apply IH].
  destruct (spec dyn u tr0) as [r tr']. destruct r; try reflexivity. apply IH.
Qed.

Definition CInv (c : cache) : Prop := GInv [] c.

Definition visit_ok (dyn : bool) (t : ty) : Prop :=
  forall c tr, CInv c -> present t c ->
    (snd (fst (visit dyn c t tr)), snd (visit dyn c t tr)) = spec dyn t tr /\
    (snd (fst (visit dyn c t tr)) = COk ->
       CInv (fst (fst (visit dyn c t tr))) /\ extends c (fst (fst (visit dyn c t tr)))).

Lemma CInv_ready c k st : CInv c -> lookup k c = Some st ->
  st = true /\ supported k = true /\ comps_ready k c.
Proof. intros G L. destruct (G k st L) as [[_ []]|[-> R]]. auto. Qed.

Lemma visit_list_ok dyn l : Forall (fun c => visit_ok dyn (snd c)) l ->
  forall c tr, CInv c -> (forall u, In u (map snd l) -> present u c) ->
    (snd (fst (visit_list dyn c l tr)), snd (visit_list dyn c l tr)) = spec_list dyn l tr /\
    (snd (fst (visit_list dyn c l tr)) = COk ->
       CInv (fst (fst (visit_list dyn c l tr))) /\ extends c (fst (fst (visit_list dyn c l tr)))).
Proof.
  induction 1 as [|[reach u] l Hu _ IH]; intros c tr G Pr; simpl.
  - split; [reflexivity|intros _; split; [exact G|apply extends_refl]].
  - destruct reach.
    + simpl in Hu. destruct (Hu c tr G (Pr u (or_introl eq_refl))) as [E1 R1].
      destruct (visit dyn c u tr) as [[c' r] tr'] eqn:Ev. simpl in E1, R1.
      rewrite <- E1. destruct r; simpl; try (split; [reflexivity|discriminate]).
      destruct (R1 eq_refl) as [G1 X1].
      destruct (IH c' tr' G1 (fun v Hv => present_extends v c c' X1 (Pr v (or_intror Hv)))) as [E2 R2].
      split; [exact E2|]. intro H. destruct (R2 H) as [G2 X2]. split; [exact G2|eapply extends_trans; eassumption].
    + apply IH; [exact G|]. intros v Hv. apply Pr. right. exact Hv.
Qed.

Lemma visit_all_ok dyn : forall t, visit_ok dyn t.
Proof.
  induction t as [n|n|n cs IH|t IH] using ty_ind'; intros c tr G Pr.
  - destruct Pr as [D|L]; [discriminate|]. simpl in L. simpl. rewrite L. simpl.
    split; [reflexivity|intros _; split; [exact G|apply extends_refl]].
  - destruct Pr as [D|L]; [discriminate|]. simpl in L.
    destruct (CInv_ready c _ _ G L) as [_ [F _]]. simpl in F. discriminate.
  - destruct Pr as [D|L]; [discriminate|]. rewrite visit_comp_unfold, L, spec_comp_unfold.
    destruct (CInv_ready c _ _ G L) as [_ [_ R]]. rewrite erase_comp in R. simpl in R.
    rewrite erase_comps_snd in R.
    apply visit_list_ok; [exact IH|exact G|].
    intros u Hu. destruct (R (erase u)) as [D|L2].
    + apply in_map_iff. apply in_map_iff in Hu. destruct Hu as [x [<- Hx]]. exists x. auto.
    + left. rewrite is_dyn_erase in D. exact D.
    + right. exact L2.
  - simpl. destruct dyn.
    + pose proof (gen_all_ok t c [] G (fun p (F : In p []) => match F with end)) as [E1 [O1 R1]].
      destruct (gen c t) as [c1 ok] eqn:Eg. simpl in E1, O1, R1. subst ok.
      destruct (supported (erase t)) eqn:St.
      * destruct (R1 eq_refl) as [G1 P1]. destruct (IH c1 tr G1 P1) as [E2 R2].
        split; [exact E2|]. intro H. destruct (R2 H) as [G2 X2].
        split; [exact G2|eapply extends_trans; eassumption].
      * simpl. split; [reflexivity|discriminate].
    + simpl. split; [reflexivity|intros _; split; [exact G|apply extends_refl]].
Qed.

(* ---- one call ---- *)
Definition cache_spec (dyn : bool) (t : ty) : cache_obs :=
  if supported (erase t) then spec dyn t [] else (CErr, []).

Lemma CInv_init : CInv cache_init.
Proof. intros k st L. discriminate. Qed.

Lemma cache_call_obs dyn c t : CInv c -> snd (cache_call dyn c t) = cache_spec dyn t.
Proof.
  intro G. unfold cache_call, cache_spec.
  pose proof (gen_all_ok t c [] G (fun p (F : In p []) => match F with end)) as [E1 [O1 R1]].
  destruct (gen c t) as [c1 ok] eqn:Eg. simpl in E1, O1, R1. subst ok.
  destruct (supported (erase t)); [|reflexivity].
  destruct (R1 eq_refl) as [G1 P1]. destruct (visit_all_ok dyn t c1 [] G1 P1) as [E2 _].
  destruct (visit dyn c1 t []) as [[c2 r] tr]. exact E2.
Qed.

Lemma supported_erase : forall t, supported t = true -> supported (erase t) = true.
Proof.
  induction t as [n|n|n cs IH|t IH] using ty_ind'; simpl; auto.
  intro H. rewrite forallb_forall in H. apply forallb_forall. intros x Hx.
  apply in_map_iff in Hx. destruct Hx as [y [<- Hy]]. simpl.
  rewrite Forall_forall in IH. apply IH; auto.
Qed.

Lemma spec_list_supported dyn l : Forall (fun c => forall tr, fst (spec dyn (snd c) tr) = COk) l ->
  forall tr, fst (spec_list dyn l tr) = COk.
Proof.
  induction 1 as [|[reach u] l Hu _ IH]; intro tr; simpl; [reflexivity|].
  destruct reach; [|apply IH]. simpl in Hu. specialize (Hu tr).
  destruct (spec dyn u tr) as [r tr']. simpl in Hu. subst r. apply IH.
Qed.

Lemma spec_supported dyn : forall t, supported t = true -> forall tr, fst (spec dyn t tr) = COk.
Proof.
  induction t as [n|n|n cs IH|t IH] using ty_ind'; intros S tr.
  - reflexivity.
  - discriminate.
  - rewrite spec_comp_unfold. apply spec_list_supported. simpl in S. rewrite forallb_forall in S.
    rewrite Forall_forall in *. intros x Hx. apply IH; auto.
  - simpl in *. destruct dyn; [|reflexivity]. rewrite supported_erase by exact S. apply IH, S.
Qed.

Lemma cache_call_step dyn c t : CInv c -> supported t = true -> CInv (fst (cache_call dyn c t)).
Proof.
  intros G S. unfold cache_call.
  pose proof (gen_all_ok t c [] G (fun p (F : In p []) => match F with end)) as [E1 [O1 R1]].
  destruct (gen c t) as [c1 ok] eqn:Eg. simpl in E1, O1, R1. subst ok.
  rewrite supported_erase in * by exact S.
  destruct (R1 eq_refl) as [G1 P1]. destruct (visit_all_ok dyn t c1 [] G1 P1) as [E2 R2].
  pose proof (spec_supported dyn t S []) as Ok.
  destruct (visit dyn c1 t []) as [[c2 r] tr]. simpl in *. rewrite <- E2 in Ok. simpl in Ok.
  apply R2, Ok.
Qed.

Definition all_supported (t : ty) : Prop := supported t = true.

Lemma cache_reuse_when dyn h t : Forall all_supported h ->
  run_reused cache_init (cache_call dyn) h t = run_fresh cache_init (cache_call dyn) t.
Proof.
  apply (reuse_eq_fresh_when cache_init (cache_call dyn) CInv all_supported).
  - exact CInv_init.
  - intros s op G. rewrite (cache_call_obs dyn s op G), (cache_call_obs dyn cache_init op CInv_init). reflexivity.
  - intros s op G S. apply cache_call_step; assumption.
Qed.

(* an unsupported type, then the same type again: the second call blocks forever *)
Lemma cache_refuted dyn : exists h t,
  run_reused cache_init (cache_call dyn) h t <> run_fresh cache_init (cache_call dyn) t.
Proof. exists [TBad 1], (TBad 1). destruct dyn; vm_compute; discriminate. Qed.

Example cache_refuted_hang :
  run_reused cache_init (cache_call true) [TBad 1] (TBad 1) = (CHang, []) /\
  run_fresh cache_init (cache_call true) (TBad 1) = (CErr, []).
Proof. vm_compute. split; reflexivity. Qed.

(* ... and a type that merely contains it is then accepted instead of refused *)
Example cache_refuted_accepts :
  run_reused cache_init (cache_call false) [TBad 1] (TComp 2 [(true, TLeaf 3); (false, TBad 1)]) = (COk, [2; 3]) /\
  run_fresh cache_init (cache_call false) (TComp 2 [(true, TLeaf 3); (false, TBad 1)]) = (CErr, []).
Proof. vm_compute. split; reflexivity. Qed.

(* ------------------------------------------------------------------ *)
(* 4. CTE encoder context                                               *)
(* ------------------------------------------------------------------ *)

(* decorators whose EndContainer reads ContainerHasObjects *)
Definition reads_has (d : deco) : bool :=
  match d with DList | DMapKey | DMapValue | DEdge | DNodeChildren => true | _ => false end.
Definition needs_has (k : list deco) : bool := existsb reads_has k.

Definition sh (h : bool) (w : cw) : cw := (set_has (fst w) h, snd w).

Ltac dw := repeat match goal with
  | w : cw |- _ => destruct w as [[? ? ? ?] ?]
  | s : cte_state |- _ => destruct s as [? ? ? ?]
  end.

Lemma sh_wr h b w : wr b (sh h w) = sh h (wr b w).
Proof. dw; reflexivity. Qed.
Lemma sh_wr_nocol h b w : wr_nocol b (sh h w) = sh h (wr_nocol b w).
Proof. dw; reflexivity. Qed.
Lemma sh_wr_lf h w : wr_lf (sh h w) = sh h (wr_lf w).
Proof. dw; reflexivity. Qed.
Lemma sh_wr_plf h b w : wr_possible_lf b (sh h w) = sh h (wr_possible_lf b w).
Proof. dw; unfold wr_possible_lf; simpl; destruct (after_last_lf b); reflexivity. Qed.
Lemma sh_nl h w : newline_origin_indent (sh h w) = sh h (newline_origin_indent w).
Proof. dw; reflexivity. Qed.
Lemma sh_iio h w : indent_if_origin (sh h w) = sh h (indent_if_origin w).
Proof. dw; unfold indent_if_origin, at_origin, origin_pos; simpl; destruct (_ =? _)%Z; reflexivity. Qed.
Lemma sh_rto h w : return_to_origin (sh h w) = sh h (return_to_origin w).
Proof. dw; unfold return_to_origin, at_origin, origin_pos; simpl; destruct (_ =? _)%Z; reflexivity. Qed.
Lemma sh_push h d w : push d (sh h w) = sh h (push d w).
Proof. dw; reflexivity. Qed.
Lemma sh_indent_more h w : indent_more (sh h w) = sh h (indent_more w).
Proof. dw; reflexivity. Qed.
Lemma sh_unstack h w : unstack (sh h w) = option_map (sh h) (unstack w).
Proof. dw; unfold unstack; simpl. destruct cs_stack as [|? [|? ?]]; reflexivity. Qed.
Lemma sh_switch h d w : switch d (sh h w) = option_map (sh h) (switch d w).
Proof. dw; unfold switch; simpl. destruct cs_stack; reflexivity. Qed.
Lemma sh_indent_less h w : indent_less (sh h w) = option_map (sh h) (indent_less w).
Proof. dw; unfold indent_less; simpl. destruct (_ =? 0); reflexivity. Qed.
Lemma sh_mark h x w : mark_has x (sh h w) = mark_has x w.
Proof. dw; reflexivity. Qed.
Lemma sh_top h w : top (fst (sh h w)) = top (fst w).
Proof. dw; reflexivity. Qed.
Lemma sh_before_value h w : before_value (sh h w) = option_map (sh h) (before_value w).
Proof.
  unfold before_value. rewrite sh_top. destruct (top (fst w)) as [[]|]; simpl;
    rewrite ?sh_nl, ?sh_iio; reflexivity.
Qed.
Lemma sh_before_comment h w : before_comment (sh h w) = option_map (sh h) (before_comment w).
Proof.
  unfold before_comment. rewrite sh_top. destruct (top (fst w)) as [[]|]; simpl;
    rewrite ?sh_nl; reflexivity.
Qed.
Lemma sh_after_comment h w : after_comment (sh h w) = after_comment w.
Proof.
  unfold after_comment. rewrite sh_top. destruct (top (fst w)) as [[]|]; simpl;
    rewrite ?sh_nl, ?sh_rto, ?sh_mark; reflexivity.
Qed.

Lemma sh_after_value h : forall f w, after_value f (sh h w) = after_value f w.
Proof.
  induction f as [|f IH]; intro w; [reflexivity|]. cbn [after_value]. rewrite sh_top.
  destruct (top (fst w)) as [[]|]; try reflexivity; try (rewrite sh_mark; reflexivity).
  - rewrite sh_wr, sh_switch. destruct (switch _ _); simpl; [rewrite sh_mark|]; reflexivity.
  - rewrite sh_switch. destruct (switch _ _); simpl; [rewrite sh_mark|]; reflexivity.
  - rewrite sh_unstack. destruct (unstack w); simpl; [rewrite IH|]; reflexivity.
  - rewrite sh_switch. destruct (switch _ _); simpl; [rewrite sh_mark|]; reflexivity.
Qed.

Lemma sh_fuel h w : after_value_fuel (sh h w) = after_value_fuel w.
Proof. dw; reflexivity. Qed.
Lemma sh_after_val h w : after_val (sh h w) = after_val w.
Proof. unfold after_val. rewrite sh_fuel. apply sh_after_value. Qed.

Lemma before_value_stack w w1 : before_value w = Some w1 -> cs_stack (fst w1) = cs_stack (fst w).
Proof.
  unfold before_value. destruct (top (fst w)) as [[]|]; intro H; inversion H; subst; clear H; dw; try reflexivity.
  unfold indent_if_origin. destruct (at_origin _); reflexivity.
Qed.

Lemma obind_sh {B} h (o : option cw) (f g : cw -> option B) :
  (forall w, f (sh h w) = g w) -> obind (option_map (sh h) o) f = obind o g.
Proof. intro H. destruct o; simpl; auto. Qed.

Lemma top_needs s : needs_has (cs_stack s) = false ->
  top s = None \/ top s = Some DTop \/ top s = Some DConcat \/ top s = Some DNodeValue.
Proof.
  unfold top, needs_has. destruct (cs_stack s) as [|[] k]; simpl; auto; discriminate.
Qed.

Lemma cte_event_has s h e : needs_has (cs_stack s) = false ->
  cte_event (set_has s h) e = cte_event s e \/
  (cte_event (set_has s h) e = option_map (sh h) (cte_event s e) /\
   forall w, cte_event s e = Some w -> needs_has (cs_stack (fst w)) = false).
Proof.
  intro Hn.
  assert (Sh : (set_has s h, @nil N) = sh h (s, @nil N)) by reflexivity.
  destruct e; unfold cte_event; cbv zeta; rewrite ?Sh.
  - (* CBegin *) right. split; [destruct s; reflexivity|]. intros w E. inversion E; subst. destruct s; reflexivity.
  - (* CVersion *) right. rewrite sh_wr_nocol, sh_nl. split; [reflexivity|].
    intros w E. inversion E; subst. destruct s; exact Hn.
  - right. split; [reflexivity|]. intros w E. inversion E; subst. exact Hn.
  - right. split; [reflexivity|]. intros w E. inversion E; subst. exact Hn.
  - (* CComment *) left. rewrite sh_before_comment. apply obind_sh. intro w.
    destruct multi; rewrite ?sh_wr, ?sh_wr_plf, ?sh_wr, sh_after_comment; reflexivity.
  - left. rewrite sh_before_value. apply obind_sh. intro w. rewrite sh_wr, sh_after_val. reflexivity.
  - left. rewrite sh_before_value. apply obind_sh. intro w. rewrite sh_wr, sh_after_val. reflexivity.
  - left. rewrite sh_before_value. apply obind_sh. intro w. rewrite sh_wr, sh_after_val. reflexivity.
  - left. rewrite sh_before_value. apply obind_sh. intro w. rewrite sh_wr_nocol, sh_after_val. reflexivity.
  - left. unfold open_container. rewrite sh_before_value. apply obind_sh. intro w. rewrite sh_mark. reflexivity.
  - left. unfold open_container. rewrite sh_before_value. apply obind_sh. intro w. rewrite sh_mark. reflexivity.
  - left. unfold open_container. rewrite sh_before_value. apply obind_sh. intro w. rewrite sh_mark. reflexivity.
  - (* CNode *) right. unfold open_container. rewrite sh_before_value. split.
    + destruct (before_value (s, [])) as [w1|]; simpl; [|reflexivity].
      rewrite sh_wr, sh_indent_more, sh_push. reflexivity.
    + intros w E. destruct (before_value (s, [])) as [w1|] eqn:B; simpl in E; [|discriminate].
      inversion E; subst. apply before_value_stack in B. simpl in B. dw. simpl in *. subst. exact Hn.
  - (* CEndContainer *) unfold end_container. rewrite sh_top. simpl fst.
    destruct (top_needs s Hn) as [T|[T|[T|T]]]; rewrite T; auto.
    right. split; [reflexivity|]. intros w E. inversion E; subst. exact Hn.
  - (* CMarker *) right. rewrite sh_before_value. split.
    + destruct (before_value (s, [])) as [w1|]; simpl; [|reflexivity].
      rewrite !sh_wr, sh_push. reflexivity.
    + intros w E. destruct (before_value (s, [])) as [w1|] eqn:B; simpl in E; [|discriminate].
      inversion E; subst. apply before_value_stack in B. simpl in B. dw. simpl in *. subst. exact Hn.
  - left. rewrite sh_before_value. apply obind_sh. intro w. rewrite !sh_wr, sh_after_val. reflexivity.
Qed.

Definition cte_rel (s1 s2 : cte_state) : Prop :=
  cs_indent s1 = cs_indent s2 /\ cs_stack s1 = cs_stack s2 /\ cs_column s1 = cs_column s2 /\
  (needs_has (cs_stack s1) = true -> cs_has_objects s1 = cs_has_objects s2).

Lemma cte_rel_refl s : cte_rel s s.
Proof. repeat split; auto. Qed.

Lemma cte_rel_cases s1 s2 : cte_rel s1 s2 ->
  s1 = s2 \/ (needs_has (cs_stack s1) = false /\ s2 = set_has s1 (cs_has_objects s2)).
Proof.
  intros [Hi [Hk [Hc Hh]]]. destruct (needs_has (cs_stack s1)) eqn:N.
  - left. specialize (Hh eq_refl). destruct s1, s2; simpl in *; subst; reflexivity.
  - right. split; [reflexivity|]. destruct s1, s2; simpl in *; subst; reflexivity.
Qed.

Lemma cte_rel_sh s h : needs_has (cs_stack s) = false -> cte_rel s (set_has s h).
Proof. intro N. destruct s; simpl in *. repeat split; simpl; auto. rewrite N. discriminate. Qed.

Definition cte_step_rel (x y : option cw) : Prop :=
  match x, y with
  | Some (a, o1), Some (b, o2) => cte_rel a b /\ o1 = o2
  | None, None => True
  | _, _ => False
  end.

Lemma cte_step_rel_refl x : cte_step_rel x x.
Proof. destruct x as [[a o]|]; simpl; auto using cte_rel_refl. Qed.

Lemma cte_event_rel s1 s2 e : cte_rel s1 s2 -> cte_step_rel (cte_event s1 e) (cte_event s2 e).
Proof.
  intro R. destruct (cte_rel_cases s1 s2 R) as [->|[N E]]; [apply cte_step_rel_refl|].
  rewrite E. destruct (cte_event_has s1 (cs_has_objects s2) e N) as [->|[-> K]].
  - apply cte_step_rel_refl.
  - destruct (cte_event s1 e) as [[a o]|] eqn:Ev; simpl; [|exact I].
    split; [|reflexivity]. apply cte_rel_sh. exact (K _ eq_refl).
Qed.

Lemma cte_run_rel es : forall s1 s2 i out, cte_rel s1 s2 ->
  snd (cte_run s1 i es out) = snd (cte_run s2 i es out).
Proof.
  induction es as [|e es IH]; intros s1 s2 i out R; simpl; [reflexivity|].
  pose proof (cte_event_rel s1 s2 e R) as S. unfold cte_step_rel in S.
  destruct (cte_event s1 e) as [[a o1]|], (cte_event s2 e) as [[b o2]|]; try contradiction.
  - destruct S as [S1 S2]. subst o2. apply IH. exact S1.
  - reflexivity.
Qed.

(* OnBeginDocument (Begin) followed by OnVersion brings every context to the same
   state up to ContainerHasObjects, which no decorator on the new stack reads *)
Lemma cte_header_rel s v :
  exists a b o, cte_event s CBegin = Some (a, [99]) /\ cte_event a (CVersion v) = Some (b, o) /\
    o = dec v ++ [10] /\
    cs_indent b = 0 /\ cs_stack b = [DTop] /\ cs_column b = 0%Z.
Proof.
  destruct s as [i k hs c]. eexists. eexists. eexists. split; [reflexivity|]. split; [reflexivity|].
  simpl. repeat split. apply app_nil_r.
Qed.

Lemma cte_run_cons s i e r out :
  cte_run s i (e :: r) out =
  match cte_event s e with
  | Some (s1, b) => cte_run s1 (N.succ i) r (out ++ b)
  | None => (s, (Some i, out))
  end.
Proof. reflexivity. Qed.

Definition has_header (es : list cev) : Prop := exists v rest, es = CBegin :: CVersion v :: rest.

Lemma cte_obs_any s es : has_header es -> snd (cte_call s es) = snd (cte_call cte_init es).
Proof.
  intros [v [rest ->]]. unfold cte_call.
  destruct (cte_header_rel s v) as [a [b [o [E1 [E2 [Eo [Bi [Bk Bc]]]]]]]].
  destruct (cte_header_rel cte_init v) as [a' [b' [o' [E1' [E2' [Eo' [Bi' [Bk' Bc']]]]]]]].
  rewrite !(cte_run_cons s), E1, cte_run_cons, E2.
  rewrite !(cte_run_cons cte_init), E1', cte_run_cons, E2'.
  subst o o'. apply cte_run_rel. unfold cte_rel. rewrite Bi, Bi', Bk, Bk', Bc, Bc'.
  repeat split. simpl. discriminate.
Qed.

Lemma cte_reuse h es : has_header es ->
  run_reused cte_init cte_call h es = run_fresh cte_init cte_call es.
Proof. intro H. unfold run_reused, run_fresh. apply cte_obs_any, H. Qed.

(* a stream that does not begin with OnBeginDocument runs on whatever the previous document left *)
Lemma cte_refuted : exists h es,
  run_reused cte_init cte_call h es <> run_fresh cte_init cte_call es.
Proof. exists [[CBegin; CVersion 0; CList]], [CVersion 0; CNull]. vm_compute. discriminate. Qed.
