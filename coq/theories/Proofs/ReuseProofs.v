(* C16 — proofs about the reuse machines of Model/Reuse.v. *)
From CE Require Import Model.Reuse Model.Rules.
From CE Require Model.Cbe.
From Coq Require Import ZifyN ZifyNat ZifyBool.
Open Scope N_scope.

(* ------------------------------------------------------------------ *)
(* Generic: an invariant that makes every call answer like a fresh one  *)
(* ------------------------------------------------------------------ *)

Section Machine.
  Context {S Op Obs : Type}.
  Variable init : S.
  Variable call : S -> Op -> S * Obs.
  Variable Inv : S -> Prop.          (* "behaves like a fresh instance" *)
  Variable Good : Op -> Prop.        (* operations that keep it so *)

  Hypothesis inv_init : Inv init.
  Hypothesis inv_obs : forall s op, Inv s -> snd (call s op) = snd (call init op).
  Hypothesis inv_step : forall s op, Inv s -> Good op -> Inv (fst (call s op)).

  Lemma run_hist_inv : forall h s, Inv s -> Forall Good h -> Inv (run_hist call s h).
  Proof.
    induction h as [|op h IH]; intros s Hs Hh; simpl; [exact Hs|].
    inversion Hh; subst. apply IH; [apply inv_step; assumption | assumption].
  Qed.

  Theorem reuse_eq_fresh_when : forall h op,
    Forall Good h -> run_reused init call h op = run_fresh init call op.
  Proof.
    intros h op Hh. unfold run_reused, run_fresh. apply inv_obs.
    apply run_hist_inv; assumption.
  Qed.
End Machine.

Lemma Forall_True {A} (l : list A) : Forall (fun _ => True) l.
Proof. induction l; constructor; auto. Qed.

(* ------------------------------------------------------------------ *)
(* 2. CBE reader                                                        *)
(* ------------------------------------------------------------------ *)

Lemma reader_call_any max r reads : reader_call max r reads = reader_call max reader_init reads.
Proof. reflexivity. Qed.

Lemma reader_reuse max h reads :
  run_reused reader_init (reader_call max) h reads = run_fresh reader_init (reader_call max) reads.
Proof.
  unfold run_reused, run_fresh. rewrite reader_call_any. reflexivity.
Qed.

(* without the reset in SetReader the property fails: three documents of 8
   bytes each under a limit of 20 *)
Lemma reader_noreset_refuted :
  exists max h reads,
    run_reused reader_init (reader_call_noreset max) h reads
    <> run_fresh reader_init (reader_call_noreset max) reads.
Proof.
  exists 20, [[1; 1; 6]; [1; 1; 6]], [1; 1; 6]. vm_compute. discriminate.
Qed.

(* ------------------------------------------------------------------ *)
(* 3. CBE encoder                                                       *)
(* ------------------------------------------------------------------ *)

(* arrayType is only read while trySmallArrayHeader is set *)
Definition enc_eqv (a b : Cbe.enc_state) : Prop :=
  Cbe.es_try_small a = Cbe.es_try_small b /\
  (Cbe.es_try_small a = true -> Cbe.es_array_type a = Cbe.es_array_type b).

Definition enc_step_rel (x y : option (Cbe.enc_state * bytes)) : Prop :=
  match x, y with
  | Some (a', o1), Some (b', o2) => enc_eqv a' b' /\ o1 = o2
  | None, None => True
  | _, _ => False
  end.

Lemma enc_eqv_refl a : enc_eqv a a.
Proof. split; auto. Qed.

Lemma keep_rel a b (o : option bytes) : enc_eqv a b ->
  enc_step_rel (Cbe.opt_map (fun x => (a, x)) o) (Cbe.opt_map (fun x => (b, x)) o).
Proof. intro H. destruct o; simpl; auto. Qed.

Lemma enc_step_rel_refl x : enc_step_rel x x.
Proof. destruct x as [[a o]|]; simpl; auto using enc_eqv_refl. Qed.

Lemma enc_event_eqv a b e : enc_eqv a b ->
  enc_step_rel (Cbe.cbe_encode_event a e) (Cbe.cbe_encode_event b e).
Proof.
  intro H. destruct e; unfold Cbe.cbe_encode_event;
    try (apply keep_rel; exact H);
    try (destruct v; apply keep_rel; exact H);
    try apply enc_step_rel_refl.
  - (* EEndDoc *)
    destruct H as [H1 H2]. destruct a as [ta sa], b as [tb sb]; simpl in H1, H2; subst sb; simpl.
    destruct sa.
    + rewrite (H2 eq_refl). apply enc_step_rel_refl.
    + simpl. split; [split; simpl; auto; discriminate | reflexivity].
  - (* EArrayChunk *)
    destruct H as [H1 H2]. destruct a as [ta sa], b as [tb sb]; simpl in H1, H2; subst sb; simpl.
    destruct sa.
    + rewrite (H2 eq_refl). apply enc_step_rel_refl.
    + unfold Cbe.guard. destruct (Cbe.is_u64 n); simpl; auto.
      split; [split; simpl; auto; discriminate | reflexivity].
Qed.

Lemma enc_run_eqv es : forall a b i out, enc_eqv a b ->
  enc_eqv (fst (cbe_enc_run a i es out)) (fst (cbe_enc_run b i es out)) /\
  snd (cbe_enc_run a i es out) = snd (cbe_enc_run b i es out).
Proof.
  induction es as [|e es IH]; intros a b i out H; simpl; [auto|].
  pose proof (enc_event_eqv a b e H) as R. unfold enc_step_rel in R.
  destruct (Cbe.cbe_encode_event a e) as [[a' o1]|], (Cbe.cbe_encode_event b e) as [[b' o2]|];
    try contradiction.
  - destruct R as [R1 R2]. subst o2. apply IH. exact R1.
  - simpl. auto.
Qed.

Definition enc_clean (st : Cbe.enc_state) : Prop := enc_dangling st = false.
(* a document that a fresh encoder finishes without a pending array begin *)
Definition enc_closes (es : list event) : Prop :=
  enc_dangling (fst (cbe_enc_call Cbe.enc_init es)) = false.

Lemma enc_clean_eqv st : enc_clean st -> enc_eqv st Cbe.enc_init.
Proof. unfold enc_clean, enc_dangling. intro H. split; simpl; [exact H | rewrite H; discriminate]. Qed.

Lemma cbe_enc_obs st es : enc_clean st ->
  snd (cbe_enc_call st es) = snd (cbe_enc_call Cbe.enc_init es).
Proof. intro H. apply enc_run_eqv, enc_clean_eqv, H. Qed.

Lemma cbe_enc_step st es : enc_clean st -> enc_closes es -> enc_clean (fst (cbe_enc_call st es)).
Proof.
  intros H C. destruct (enc_run_eqv es st Cbe.enc_init 0 [] (enc_clean_eqv st H)) as [[E _] _].
  unfold enc_clean, enc_dangling, enc_closes, enc_dangling, cbe_enc_call in *. congruence.
Qed.

Lemma cbe_enc_reuse_when h es : Forall enc_closes h ->
  run_reused Cbe.enc_init cbe_enc_call h es = run_fresh Cbe.enc_init cbe_enc_call es.
Proof.
  apply (reuse_eq_fresh_when Cbe.enc_init cbe_enc_call enc_clean enc_closes).
  - reflexivity.
  - intros; apply cbe_enc_obs; assumption.
  - intros; apply cbe_enc_step; assumption.
Qed.

(* the same, stated on the instance: no pending array begin when the document starts *)
Lemma cbe_enc_reuse_clean h es : enc_dangling (run_hist cbe_enc_call Cbe.enc_init h) = false ->
  run_reused Cbe.enc_init cbe_enc_call h es = run_fresh Cbe.enc_init cbe_enc_call es.
Proof. intro H. apply cbe_enc_obs. exact H. Qed.

(* a document aborted after an array begin, then a complete document: a stray array header *)
Lemma cbe_enc_refuted : exists h es,
  run_reused Cbe.enc_init cbe_enc_call h es <> run_fresh Cbe.enc_init cbe_enc_call es.
Proof.
  exists [[EBeginDoc; EVersion 0; EList; EArrayBegin CbeConsts.cbeAT_Uint8]], [EBeginDoc; EVersion 0; ENull; EEndDoc].
  vm_compute. discriminate.
Qed.
Example cbe_enc_refuted_bytes :
  run_reused Cbe.enc_init cbe_enc_call [[EBeginDoc; EVersion 0; EList; EArrayBegin CbeConsts.cbeAT_Uint8]]
             [EBeginDoc; EVersion 0; ENull; EEndDoc] = (None, [129; 0; 125; 147]) /\
  run_fresh Cbe.enc_init cbe_enc_call [EBeginDoc; EVersion 0; ENull; EEndDoc] = (None, [129; 0; 125]).
Proof. vm_compute. split; reflexivity. Qed.
