(* C16 — proofs about the reuse machines of Model/Reuse.v. *)
From CE Require Import Model.Reuse Model.Rules.
From CE Require Model.Cbe.
From Coq Require Import ZifyN ZifyNat ZifyBool.
Open Scope N_scope.

(* ------------------------------------------------------------------ *)
(* Generic: an invariant that makes every call answer like a fresh one  *)
(* ------------------------------------------------------------------ *)

Section Machine.
  Context {S Op Obs : Type}.
  Variable init : S.
  Variable call : S -> Op -> S * Obs.
  Variable Inv : S -> Prop.          (* "behaves like a fresh instance" *)
  Variable Good : Op -> Prop.        (* operations that keep it so *)

  Hypothesis inv_init : Inv init.
  Hypothesis inv_obs : forall s op, Inv s -> snd (call s op) = snd (call init op).
  Hypothesis inv_step : forall s op, Inv s -> Good op -> Inv (fst (call s op)).

  Lemma run_hist_inv : forall h s, Inv s -> Forall Good h -> Inv (run_hist call s h).
  Proof.
    induction h as [|op h IH]; intros s Hs Hh; simpl; [exact Hs|].
    inversion Hh; subst. apply IH; [apply inv_step; assumption | assumption].
  Qed.

  Theorem reuse_eq_fresh_when : forall h op,
    Forall Good h -> run_reused init call h op = run_fresh init call op.
  Proof.
    intros h op Hh. unfold run_reused, run_fresh. apply inv_obs.
    apply run_hist_inv; assumption.
  Qed.
End Machine.

Lemma Forall_True {A} (l : list A) : Forall (fun _ => True) l.
Proof. induction l; constructor; auto. Qed.

(* ------------------------------------------------------------------ *)
(* 2. CBE reader                                                        *)
(* ------------------------------------------------------------------ *)

Lemma reader_call_any max r reads : reader_call max r reads = reader_call max reader_init reads.
Proof. reflexivity. Qed.

Lemma reader_reuse max h reads :
  run_reused reader_init (reader_call max) h reads = run_fresh reader_init (reader_call max) reads.
Proof.
  unfold run_reused, run_fresh. rewrite reader_call_any. reflexivity.
Qed.

(* without the reset in SetReader the property fails: three documents of 8
   bytes each under a limit of 20 *)
Lemma reader_noreset_refuted :
  exists max h reads,
    run_reused reader_init (reader_call_noreset max) h reads
    <> run_fresh reader_init (reader_call_noreset max) reads.
Proof.
  exists 20, [[1; 1; 6]; [1; 1; 6]], [1; 1; 6]. vm_compute. discriminate.
Qed.
