(* Proofs about Model/CteArrFmt.v: which (kind, format setting) pairs the CTE
   array encoder writes text for that the CTE decoder reads back as the same
   elements, for arrays of every length and every element value. *)
From CE Require Import Model.CteArrFmt Proofs.FloatBitsProofs.
From Coq Require Import ZifyN ZifyNat ZifyBool Zify.
Local Open Scope N_scope.

#[local] Arguments N.pow : simpl never.
#[local] Arguments N.div : simpl never.
#[local] Arguments N.modulo : simpl never.
#[local] Arguments N.mul : simpl never.
#[local] Arguments N.add : simpl never.
#[local] Arguments N.sub : simpl never.
#[local] Arguments N.log2 : simpl never.
#[local] Arguments Z.pow : simpl never.
#[local] Arguments Z.mul : simpl never.
#[local] Arguments Z.add : simpl never.
#[local] Arguments Z.sub : simpl never.

Ltac dlia := zify; Z.to_euclidean_division_equations; lia.

(* ------------------------------------------------------------------ *)
(** * Characters *)

Lemma digit_val_digit_char d : d < 36 -> digit_val (digit_char d) = Some d.
Proof.
  intro Hd. unfold digit_val, digit_char, is_dec, is_letter, lower.
  destruct (N.ltb_spec d 10) as [H|H].
  - replace ((48 <=? 48 + d) && (48 + d <=? 57)) with true by (symmetry; apply andb_true_iff; split; apply N.leb_le; lia).
    f_equal. lia.
  - replace ((48 <=? 87 + d) && (87 + d <=? 57)) with false
      by (symmetry; apply andb_false_iff; right; apply N.leb_gt; lia).
    replace ((65 <=? 87 + d) && (87 + d <=? 90)) with false
      by (symmetry; apply andb_false_iff; right; apply N.leb_gt; lia).
    replace ((97 <=? 87 + d) && (87 + d <=? 122)) with true
      by (symmetry; apply andb_true_iff; split; apply N.leb_le; lia).
    f_equal. lia.
Qed.

Lemma is_digit_of_digit_char base d : d < base -> base <= 36 -> is_digit_of base (digit_char d) = true.
Proof.
  intros Hd Hb. unfold is_digit_of. rewrite digit_val_digit_char by lia. apply N.ltb_lt. exact Hd.
Qed.

(* what a digit character of a base up to 16 can be *)
Lemma is_digit_of_16_range c :
  is_digit_of 16 c = true -> (48 <= c <= 57) \/ (65 <= c <= 70) \/ (97 <= c <= 102).
Proof.
  unfold is_digit_of, digit_val.
  destruct (is_dec c) eqn:Hd.
  - intros _. unfold is_dec in Hd. apply andb_true_iff in Hd as [H1 H2].
    apply N.leb_le in H1, H2. lia.
  - destruct (is_letter c) eqn:Hl; [|discriminate].
    unfold is_letter, lower in *.
    destruct ((65 <=? c) && (c <=? 90)) eqn:Hu.
    + apply andb_true_iff in Hu as [H1 H2]. apply N.leb_le in H1, H2.
      intro H. apply N.ltb_lt in H. lia.
    + apply andb_true_iff in Hl as [H1 H2]. apply N.leb_le in H1, H2.
      intro H. apply N.ltb_lt in H. lia.
Qed.

Lemma is_digit_of_mono b1 b2 c : b1 <= b2 -> is_digit_of b1 c = true -> is_digit_of b2 c = true.
Proof.
  unfold is_digit_of. destruct (digit_val c); [|discriminate].
  intros Hb H. apply N.ltb_lt in H. apply N.ltb_lt. lia.
Qed.

Lemma is_dec_digit_of_10 c : is_dec c = true -> is_digit_of 10 c = true.
Proof.
  unfold is_digit_of, digit_val. intro H. rewrite H. unfold is_dec in H.
  apply andb_true_iff in H as [H1 H2]. apply N.leb_le in H1, H2. apply N.ltb_lt. lia.
Qed.

Lemma digit_of_10_is_dec c : is_digit_of 10 c = true -> is_dec c = true.
Proof.
  unfold is_digit_of, digit_val. destruct (is_dec c); [reflexivity|].
  destruct (is_letter c); [|discriminate]. intro H. apply N.ltb_lt in H. lia.
Qed.

Definition plain_char (c : N) : Prop := (48 <= c <= 57) \/ (65 <= c <= 70) \/ (97 <= c <= 102).

Lemma plain_run_char c : plain_char c -> is_run_char c = true.
Proof.
  intro H. unfold is_run_char, is_ws, ch_rbr.
  repeat match goal with |- context [N.eqb ?a ?b] => destruct (N.eqb_spec a b) end; try reflexivity; unfold plain_char in H; lia.
Qed.

(* ------------------------------------------------------------------ *)
(** * Digit strings *)

Lemma of_digits_from_app base a s t :
  of_digits_from base a (s ++ t) =
  match of_digits_from base a s with Some v => of_digits_from base v t | None => None end.
Proof.
  revert a; induction s as [|c s IH]; intro a; cbn [app of_digits_from]; [reflexivity|].
  destruct (digit_val c) as [d|]; [|reflexivity]. destruct (d <? base); [apply IH|reflexivity].
Qed.

Lemma to_digits_aux_spec base : 2 <= base -> base <= 36 ->
  forall fuel n acc, n < base ^ N.of_nat fuel ->
    of_digits_from base 0 (to_digits_aux fuel base n acc) = of_digits_from base n acc.
Proof.
  intros Hb1 Hb2. induction fuel as [|f IH]; intros n acc Hn.
  - cbn [to_digits_aux]. change (N.of_nat 0) with 0 in Hn. rewrite N.pow_0_r in Hn.
    replace n with 0 by lia. reflexivity.
  - cbn [to_digits_aux].
    assert (Hmod : n mod base < base) by (apply N.mod_lt; lia).
    assert (Hdm : n = base * (n / base) + n mod base) by (apply N.div_mod; lia).
    destruct (N.eqb_spec (n / base) 0) as [Hq|Hq].
    + cbn [of_digits_from]. rewrite digit_val_digit_char by lia.
      replace (n mod base <? base) with true by (symmetry; apply N.ltb_lt; lia).
      f_equal. rewrite Hq in Hdm. lia.
    + rewrite IH.
      * cbn [of_digits_from]. rewrite digit_val_digit_char by lia.
        replace (n mod base <? base) with true by (symmetry; apply N.ltb_lt; lia).
        f_equal. lia.
      * rewrite Nat2N.inj_succ, N.pow_succ_r' in Hn.
        apply N.div_lt_upper_bound; lia.
Qed.

Lemma lt_pow_size base n : 2 <= base -> n < base ^ N.of_nat (S (N.to_nat (N.size n))).
Proof.
  intro Hb. rewrite Nat2N.inj_succ, N2Nat.id.
  apply N.lt_le_trans with (2 ^ N.size n); [apply N.size_gt|].
  apply N.le_trans with (base ^ N.size n).
  - apply N.pow_le_mono_l. exact Hb.
  - apply N.pow_le_mono_r; lia.
Qed.

Lemma of_digits_to_digits base n : 2 <= base -> base <= 36 -> of_digits base (to_digits base n) = Some n.
Proof.
  intros Hb1 Hb2. unfold of_digits, to_digits.
  rewrite to_digits_aux_spec by (try assumption; apply lt_pow_size; assumption). reflexivity.
Qed.

Lemma to_digits_aux_chars base : 2 <= base -> base <= 36 ->
  forall fuel n acc, Forall (fun c => is_digit_of base c = true) acc ->
    Forall (fun c => is_digit_of base c = true) (to_digits_aux fuel base n acc).
Proof.
  intros Hb1 Hb2. induction fuel as [|f IH]; intros n acc Hacc; cbn [to_digits_aux]; [exact Hacc|].
  assert (Hc : Forall (fun c => is_digit_of base c = true) (digit_char (n mod base) :: acc)).
  { constructor; [|exact Hacc]. apply is_digit_of_digit_char; [apply N.mod_lt; lia|assumption]. }
  destruct (n / base =? 0); [exact Hc|apply IH; exact Hc].
Qed.

Lemma to_digits_chars base n : 2 <= base -> base <= 36 ->
  Forall (fun c => is_digit_of base c = true) (to_digits base n).
Proof. intros. apply to_digits_aux_chars; try assumption. constructor. Qed.

Lemma to_digits_aux_nonempty fuel base n acc : to_digits_aux (S fuel) base n acc <> [].
Proof.
  revert n acc; induction fuel as [|f IH]; intros n acc; cbn [to_digits_aux].
  - destruct (n / base =? 0); discriminate.
  - destruct (n / base =? 0); [discriminate|]. apply (IH (n / base)).
Qed.

Lemma to_digits_nonempty base n : to_digits base n <> [].
Proof. apply to_digits_aux_nonempty. Qed.

(* the leading digit of a non-zero number is not '0' *)
Lemma to_digits_aux_head base : 2 <= base -> base <= 36 ->
  forall fuel n acc, n <> 0 -> n < base ^ N.of_nat fuel ->
    exists d r, to_digits_aux fuel base n acc = digit_char d :: r /\ d <> 0 /\ d < base.
Proof.
  intros Hb1 Hb2. induction fuel as [|f IH]; intros n acc Hn0 Hn.
  - change (N.of_nat 0) with 0 in Hn. rewrite N.pow_0_r in Hn. lia.
  - cbn [to_digits_aux].
    assert (Hmod : n mod base < base) by (apply N.mod_lt; lia).
    assert (Hdm : n = base * (n / base) + n mod base) by (apply N.div_mod; lia).
    destruct (N.eqb_spec (n / base) 0) as [Hq|Hq].
    + exists (n mod base), acc. split; [reflexivity|]. rewrite Hq in Hdm. split; lia.
    + apply IH; [exact Hq|]. rewrite Nat2N.inj_succ, N.pow_succ_r' in Hn.
      apply N.div_lt_upper_bound; lia.
Qed.

Lemma to_digits_head base n : 2 <= base -> base <= 36 -> n <> 0 ->
  exists d r, to_digits base n = digit_char d :: r /\ d <> 0 /\ d < base.
Proof. intros. apply to_digits_aux_head; try assumption. apply lt_pow_size; assumption. Qed.

Lemma to_digits_0 base : to_digits base 0 = [48].
Proof.
  unfold to_digits. change (N.size 0) with 0. cbn [N.to_nat to_digits_aux].
  destruct base as [|p]; reflexivity.
Qed.

Lemma of_digits_from_zeros base k s : 1 <= base ->
  of_digits_from base 0 (repeat ch_0 k ++ s) = of_digits_from base 0 s.
Proof.
  intro Hb. induction k as [|k IH]; cbn [repeat app]; [reflexivity|].
  cbn [of_digits_from]. change (digit_val ch_0) with (Some 0). cbv beta iota.
  replace (0 <? base) with true by (symmetry; apply N.ltb_lt; lia).
  replace (0 * base + 0) with 0 by lia. exact IH.
Qed.

(* ------------------------------------------------------------------ *)
(** * Lists: spans, runs, tokenizer *)

Lemma span_all p a s :
  forallb p a = true -> match s with [] => True | c :: _ => p c = false end ->
  span p (a ++ s) = (a, s).
Proof.
  intros Ha Hs. induction a as [|c a IH]; cbn [app span].
  - destruct s as [|c s]; [reflexivity|]. cbn [span]. rewrite Hs. reflexivity.
  - cbn [forallb] in Ha. apply andb_true_iff in Ha as [Hc Ha]. rewrite Hc, (IH Ha). reflexivity.
Qed.

Lemma Forall_forallb {A} (p : A -> bool) l : Forall (fun x => p x = true) l -> forallb p l = true.
Proof. intro H. apply forallb_forall. apply Forall_forall. exact H. Qed.

Lemma last_Forall {A} (P : A -> Prop) l d : Forall P l -> l <> [] -> P (last l d).
Proof.
  induction l as [|x l IH]; intros H Hne; [congruence|].
  inversion H as [|? ? Hx Hl]; subst. destruct l as [|y l]; [exact Hx|].
  change (last (x :: y :: l) d) with (last (y :: l) d). apply IH; [exact Hl|discriminate].
Qed.

Lemma map_opt_map {A B C} (f : B -> option C) (g : A -> B) (h : A -> C) xs :
  (forall x, In x xs -> f (g x) = Some (h x)) -> map_opt f (map g xs) = Some (map h xs).
Proof.
  induction xs as [|x xs IH]; intro H; cbn [map map_opt]; [reflexivity|].
  rewrite (H x (or_introl eq_refl)), IH by (intros y Hy; apply H; right; exact Hy). reflexivity.
Qed.

Lemma map_opt_some {A B} (f : A -> option B) (g : A -> B) xs :
  (forall x, In x xs -> f x = Some (g x)) -> map_opt f xs = Some (map g xs).
Proof.
  intro H. rewrite <- (map_id xs) at 1. apply map_opt_map. exact H.
Qed.

Definition run_ok (r : bytes) : Prop := r <> [] /\ forallb is_run_char r = true.

Lemma run_ok_head r : run_ok r -> exists c r', r = c :: r' /\ is_run_char c = true.
Proof.
  intros [Hne Hall]. destruct r as [|c r']; [congruence|]. exists c, r'. split; [reflexivity|].
  cbn [forallb] in Hall. apply andb_true_iff in Hall. tauto.
Qed.

Lemma run_char_not_ws c : is_run_char c = true -> is_ws c = false /\ (c =? ch_rbr) = false.
Proof.
  unfold is_run_char. intro H. apply negb_true_iff in H. apply orb_false_iff in H. exact H.
Qed.

Lemma join_sp_cons2 x y r : join_sp (x :: y :: r) = x ++ ch_sp :: join_sp (y :: r).
Proof. reflexivity. Qed.

Lemma join_sp_head x l : run_ok x -> exists c t, join_sp (x :: l) ++ [ch_rbr] = c :: t /\ is_run_char c = true.
Proof.
  intro Hx. destruct (run_ok_head x Hx) as (c & x' & -> & Hc).
  destruct l as [|y l].
  - exists c, (x' ++ [ch_rbr]). split; [reflexivity|exact Hc].
  - exists c, (x' ++ ch_sp :: join_sp (y :: l) ++ [ch_rbr]). split; [|exact Hc].
    rewrite join_sp_cons2. cbn [app]. rewrite <- app_assoc. reflexivity.
Qed.

Lemma drop_ws_run c t : is_run_char c = true -> drop_ws (c :: t) = c :: t.
Proof. intro H. cbn [drop_ws]. destruct (run_char_not_ws c H) as [-> _]. reflexivity. Qed.

Lemma tokenize_join l :
  Forall run_ok l ->
  forall fuel s, drop_ws s = join_sp l ++ [ch_rbr] -> (length (join_sp l) < fuel)%nat ->
    tokenize fuel s = Some (l, []).
Proof.
  induction l as [|x l IH]; intros Hl fuel s Hs Hfuel.
  - destruct fuel as [|f]; [lia|]. cbn [tokenize]. rewrite Hs. cbn [join_sp app]. rewrite N.eqb_refl. reflexivity.
  - inversion Hl as [|? ? Hx Hl']; subst.
    destruct (run_ok_head x Hx) as (c & x' & Ex & Hc). subst x.
    destruct fuel as [|f]; [lia|]. cbn [tokenize]. rewrite Hs.
    destruct (run_char_not_ws c Hc) as [Hws Hrb].
    destruct l as [|y l].
    + cbn [join_sp app] in *. rewrite Hrb.
      pose proof (span_all is_run_char (c :: x') [ch_rbr] (proj2 Hx) eq_refl) as Hsp.
      cbn [app] in Hsp. rewrite Hsp.
      rewrite (IH Hl' f [ch_rbr]); [reflexivity|reflexivity|]. cbn [length] in *. lia.
    + rewrite join_sp_cons2 in *. rewrite <- app_assoc. cbn [app]. rewrite Hrb.
      pose proof (span_all is_run_char (c :: x') (ch_sp :: join_sp (y :: l) ++ [ch_rbr]) (proj2 Hx) eq_refl) as Hsp.
      cbn [app] in Hsp. rewrite Hsp.
      rewrite (IH Hl' f (ch_sp :: join_sp (y :: l) ++ [ch_rbr])); [reflexivity| |].
      * inversion Hl' as [|? ? Hy _]; subst.
        destruct (join_sp_head y l Hy) as (c' & t & Et & Hc').
        cbn [drop_ws]. change (is_ws ch_sp) with true. cbv iota. rewrite Et. apply drop_ws_run. exact Hc'.
      * rewrite app_length in Hfuel. cbn [length] in Hfuel. lia.
Qed.

Lemma split_header_app h : split_header h = Some (h, []) -> forall body, split_header (h ++ body) = Some (h, body).
Proof.
  induction h as [|c h IH]; intros H body; [discriminate|].
  cbn [split_header app] in *. destruct (c =? ch_lbr).
  - injection H as E. subst h. reflexivity.
  - destruct (split_header h) as [[h' b']|] eqn:E; [|discriminate].
    injection H as E1 E2. subst h' b'. rewrite (IH eq_refl body). reflexivity.
Qed.

(* ------------------------------------------------------------------ *)
(** * Integer elements *)

Definition mb_ok (m : amode) (base : N) (zero : bool) : bool :=
  match m with
  | MDec => (base =? 10) && negb zero
  | MBin => base =? 2
  | MOct => base =? 8
  | MHex => base =? 16
  end.

Lemma digit_not_special base c : base <= 16 -> is_digit_of base c = true ->
  plain_char c.
Proof. intros Hb H. apply is_digit_of_16_range. apply (is_digit_of_mono base 16); assumption. Qed.

Lemma parse_uint_digits_plain base base0 a s :
  Forall plain_char s -> parse_uint_digits base base0 a s = of_digits_from base a s.
Proof.
  revert a; induction s as [|c s IH]; intros a H; cbn [parse_uint_digits of_digits_from]; [reflexivity|].
  inversion H as [|? ? Hc Hs]; subst.
  replace (c =? ch_us) with false by (symmetry; apply N.eqb_neq; unfold plain_char, ch_us in *; lia).
  cbn [andb]. destruct (digit_val c) as [d|]; [|reflexivity].
  destruct (d <? base); [apply IH; exact Hs|reflexivity].
Qed.

Lemma existsb_us_plain s : Forall plain_char s -> existsb (N.eqb ch_us) s = false.
Proof.
  induction s as [|c s IH]; intro H; cbn [existsb]; [reflexivity|].
  inversion H as [|? ? Hc Hs]; subst. rewrite (IH Hs).
  replace (ch_us =? c) with false by (symmetry; apply N.eqb_neq; unfold plain_char, ch_us in *; lia).
  reflexivity.
Qed.

Lemma digits_ok_all (isd : N -> bool) s : s <> [] -> Forall (fun c => isd c = true) s -> digits_ok isd s = true.
Proof.
  intros Hne H. destruct s as [|c s]; [congruence|]. unfold digits_ok.
  assert (Hc : isd c = true) by (inversion H; assumption).
  rewrite Hc. rewrite (last_Forall _ _ 0 H Hne). cbn [andb].
  apply forallb_forall. intros x Hx. rewrite Forall_forall in H. rewrite (H x Hx). reflexivity.
Qed.

Lemma base_cases m base zero : mb_ok m base zero = true ->
  (m = MDec /\ base = 10 /\ zero = false) \/ (m = MBin /\ base = 2) \/ (m = MOct /\ base = 8) \/ (m = MHex /\ base = 16).
Proof.
  intro Hmb. destruct m; cbn [mb_ok] in Hmb.
  - apply andb_true_iff in Hmb as [H1 H2]. apply N.eqb_eq in H1. apply negb_true_iff in H2. tauto.
  - apply N.eqb_eq in Hmb. tauto.
  - apply N.eqb_eq in Hmb. tauto.
  - apply N.eqb_eq in Hmb. tauto.
Qed.

Lemma base_le16 m base zero : mb_ok m base zero = true -> base <= 16.
Proof. intro H. destruct (base_cases _ _ _ H) as [(_ & -> & _)|[(_ & ->)|[(_ & ->)|(_ & ->)]]]; lia. Qed.

Lemma base_ge2 m base zero : mb_ok m base zero = true -> 2 <= base.
Proof. intro H. destruct (base_cases _ _ _ H) as [(_ & -> & _)|[(_ & ->)|[(_ & ->)|(_ & ->)]]]; lia. Qed.

Lemma D_plain m base zero D : mb_ok m base zero = true ->
  Forall (fun c => is_digit_of base c = true) D -> Forall plain_char D.
Proof.
  intros Hmb HD. eapply Forall_impl; [|exact HD]. intros c Hc.
  apply (digit_not_special base); [apply (base_le16 _ _ _ Hmb)|exact Hc].
Qed.

(* digits D (possibly zero padded) of [mag] in the base of mode [m] *)
Lemma unsigned_token_ok m base zero D : mb_ok m base zero = true ->
  Forall (fun c => is_digit_of base c = true) D -> D <> [] -> int_token_ok false m D = true.
Proof.
  intros Hmb HD HDne.
  unfold int_token_ok. destruct D as [|c r] eqn:ED; [congruence|]. cbn [andb]. rewrite <- ED in *.
  destruct (base_cases _ _ _ Hmb) as [(-> & Hb & _)|[(-> & Hb)|[(-> & Hb)|(-> & Hb)]]]; subst base.
  - apply orb_true_iff. left. apply digits_ok_all; [exact HDne|].
    eapply Forall_impl; [|exact HD]. intros x Hx. apply digit_of_10_is_dec. exact Hx.
  - apply digits_ok_all; assumption.
  - apply digits_ok_all; assumption.
  - apply digits_ok_all; assumption.
Qed.

Lemma unsigned_parse m base zero bits mag D : mb_ok m base zero = true ->
  mag < 2 ^ bits ->
  Forall (fun c => is_digit_of base c = true) D -> D <> [] ->
  of_digits_from base 0 D = Some mag ->
  (m = MDec -> D = to_digits 10 mag) ->
  parse_uint_go D (mode_base m) bits = Some mag.
Proof.
  intros Hmb Hmag HD HDne HDval HDdec.
  pose proof (D_plain _ _ _ _ Hmb HD) as Hplain.
  destruct (base_cases _ _ _ Hmb) as [(Em & Hb & _)|Hother].
  - (* decimal: base 0 prefix detection *)
    subst base. rewrite Em. cbn [mode_base]. specialize (HDdec Em).
    destruct (N.eq_dec mag 0) as [E0|N0].
    + rewrite HDdec, E0, to_digits_0. unfold parse_uint_go. cbn.
      rewrite E0 in Hmag. replace (0 <? 2 ^ bits) with true by (symmetry; apply N.ltb_lt; exact Hmag). reflexivity.
    + destruct (to_digits_head 10 mag) as (d & r & Ed & Hd0 & Hd10); try lia.
      assert (EDr : D = digit_char d :: r) by (rewrite HDdec; exact Ed).
      unfold parse_uint_go. rewrite EDr at 1. change (0 =? 0) with true. cbv iota.
      replace (digit_char d =? 48) with false
        by (symmetry; apply N.eqb_neq; unfold digit_char; destruct (N.ltb_spec d 10); lia).
      rewrite parse_uint_digits_plain by exact Hplain.
      rewrite HDval. replace (mag <? 2 ^ bits) with true by (symmetry; apply N.ltb_lt; exact Hmag).
      rewrite existsb_us_plain by exact Hplain. reflexivity.
  - assert (Hb0 : (mode_base m =? 0) = false /\ mode_base m = base).
    { destruct Hother as [(-> & ->)|[(-> & ->)|(-> & ->)]]; split; reflexivity. }
    destruct Hb0 as [Hb0 Hbm]. unfold parse_uint_go. destruct D as [|c0 r0] eqn:ED; [congruence|].
    rewrite Hb0, Hbm. rewrite <- ED in *. rewrite parse_uint_digits_plain by exact Hplain.
    rewrite HDval. replace (mag <? 2 ^ bits) with true by (symmetry; apply N.ltb_lt; exact Hmag).
    rewrite existsb_us_plain by exact Hplain. reflexivity.
Qed.
