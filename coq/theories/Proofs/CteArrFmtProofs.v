(* Proofs about Model/CteArrFmt.v: which (kind, format setting) pairs the CTE
   array encoder writes text for that the CTE decoder reads back as the same
   elements, for arrays of every length and every element value. *)
From CE Require Import Model.CteArrFmt Proofs.FloatBitsProofs.
From Coq Require Import ZifyN ZifyNat ZifyBool Zify.
Local Open Scope N_scope.

#[local] Arguments N.pow : simpl never.
#[local] Arguments N.div : simpl never.
#[local] Arguments N.modulo : simpl never.
#[local] Arguments N.mul : simpl never.
#[local] Arguments N.add : simpl never.
#[local] Arguments N.sub : simpl never.
#[local] Arguments N.log2 : simpl never.
#[local] Arguments Z.pow : simpl never.
#[local] Arguments Z.mul : simpl never.
#[local] Arguments Z.add : simpl never.
#[local] Arguments Z.sub : simpl never.

Ltac dlia := zify; Z.to_euclidean_division_equations; lia.

(* ------------------------------------------------------------------ *)
(** * Characters *)

Lemma digit_val_digit_char d : d < 36 -> digit_val (digit_char d) = Some d.
Proof.
  intro Hd. unfold digit_val, digit_char, is_dec, is_letter, lower.
  destruct (N.ltb_spec d 10) as [H|H].
  - replace ((48 <=? 48 + d) && (48 + d <=? 57)) with true by (symmetry; apply andb_true_iff; split; apply N.leb_le; lia).
    f_equal. lia.
  - replace ((48 <=? 87 + d) && (87 + d <=? 57)) with false
      by (symmetry; apply andb_false_iff; right; apply N.leb_gt; lia).
    replace ((65 <=? 87 + d) && (87 + d <=? 90)) with false
      by (symmetry; apply andb_false_iff; right; apply N.leb_gt; lia).
    replace ((97 <=? 87 + d) && (87 + d <=? 122)) with true
      by (symmetry; apply andb_true_iff; split; apply N.leb_le; lia).
    f_equal. lia.
Qed.

Lemma is_digit_of_digit_char base d : d < base -> base <= 36 -> is_digit_of base (digit_char d) = true.
Proof.
  intros Hd Hb. unfold is_digit_of. rewrite digit_val_digit_char by lia. apply N.ltb_lt. exact Hd.
Qed.

(* what a digit character of a base up to 16 can be *)
Lemma is_digit_of_16_range c :
  is_digit_of 16 c = true -> (48 <= c <= 57) \/ (65 <= c <= 70) \/ (97 <= c <= 102).
Proof.
  unfold is_digit_of, digit_val.
  destruct (is_dec c) eqn:Hd.
  - intros _. unfold is_dec in Hd. apply andb_true_iff in Hd as [H1 H2].
    apply N.leb_le in H1, H2. lia.
  - destruct (is_letter c) eqn:Hl; [|discriminate].
    unfold is_letter, lower in *.
    destruct ((65 <=? c) && (c <=? 90)) eqn:Hu.
    + apply andb_true_iff in Hu as [H1 H2]. apply N.leb_le in H1, H2.
      intro H. apply N.ltb_lt in H. lia.
    + apply andb_true_iff in Hl as [H1 H2]. apply N.leb_le in H1, H2.
      intro H. apply N.ltb_lt in H. lia.
Qed.

Lemma is_digit_of_mono b1 b2 c : b1 <= b2 -> is_digit_of b1 c = true -> is_digit_of b2 c = true.
Proof.
  unfold is_digit_of. destruct (digit_val c); [|discriminate].
  intros Hb H. apply N.ltb_lt in H. apply N.ltb_lt. lia.
Qed.

Lemma is_dec_digit_of_10 c : is_dec c = true -> is_digit_of 10 c = true.
Proof.
  unfold is_digit_of, digit_val. intro H. rewrite H. unfold is_dec in H.
  apply andb_true_iff in H as [H1 H2]. apply N.leb_le in H1, H2. apply N.ltb_lt. lia.
Qed.

Lemma digit_of_10_is_dec c : is_digit_of 10 c = true -> is_dec c = true.
Proof.
  unfold is_digit_of, digit_val. destruct (is_dec c); [reflexivity|].
  destruct (is_letter c); [|discriminate]. intro H. apply N.ltb_lt in H. lia.
Qed.

Definition plain_char (c : N) : Prop := (48 <= c <= 57) \/ (65 <= c <= 70) \/ (97 <= c <= 102).

Lemma plain_run_char c : plain_char c -> is_run_char c = true.
Proof.
  intro H. unfold is_run_char, is_ws, ch_rbr.
  repeat match goal with |- context [N.eqb ?a ?b] => destruct (N.eqb_spec a b) end; try reflexivity; unfold plain_char in H; lia.
Qed.

(* ------------------------------------------------------------------ *)
(** * Digit strings *)

Lemma of_digits_from_app base a s t :
  of_digits_from base a (s ++ t) =
  match of_digits_from base a s with Some v => of_digits_from base v t | None => None end.
Proof.
  revert a; induction s as [|c s IH]; intro a; cbn [app of_digits_from]; [reflexivity|].
  destruct (digit_val c) as [d|]; [|reflexivity]. destruct (d <? base); [apply IH|reflexivity].
Qed.

Lemma to_digits_aux_spec base : 2 <= base -> base <= 36 ->
  forall fuel n acc, n < base ^ N.of_nat fuel ->
    of_digits_from base 0 (to_digits_aux fuel base n acc) = of_digits_from base n acc.
Proof.
  intros Hb1 Hb2. induction fuel as [|f IH]; intros n acc Hn.
  - cbn [to_digits_aux]. change (N.of_nat 0) with 0 in Hn. rewrite N.pow_0_r in Hn.
    replace n with 0 by lia. reflexivity.
  - cbn [to_digits_aux].
    assert (Hmod : n mod base < base) by (apply N.mod_lt; lia).
    assert (Hdm : n = base * (n / base) + n mod base) by (apply N.div_mod; lia).
    destruct (N.eqb_spec (n / base) 0) as [Hq|Hq].
    + cbn [of_digits_from]. rewrite digit_val_digit_char by lia.
      replace (n mod base <? base) with true by (symmetry; apply N.ltb_lt; lia).
      f_equal. rewrite Hq in Hdm. lia.
    + rewrite IH.
      * cbn [of_digits_from]. rewrite digit_val_digit_char by lia.
        replace (n mod base <? base) with true by (symmetry; apply N.ltb_lt; lia).
        f_equal. lia.
      * rewrite Nat2N.inj_succ, N.pow_succ_r' in Hn.
        apply N.div_lt_upper_bound; lia.
Qed.

Lemma lt_pow_size base n : 2 <= base -> n < base ^ N.of_nat (S (N.to_nat (N.size n))).
Proof.
  intro Hb. rewrite Nat2N.inj_succ, N2Nat.id.
  apply N.lt_le_trans with (2 ^ N.size n); [apply N.size_gt|].
  apply N.le_trans with (base ^ N.size n).
  - apply N.pow_le_mono_l. exact Hb.
  - apply N.pow_le_mono_r; lia.
Qed.

Lemma of_digits_to_digits base n : 2 <= base -> base <= 36 -> of_digits base (to_digits base n) = Some n.
Proof.
  intros Hb1 Hb2. unfold of_digits, to_digits.
  rewrite to_digits_aux_spec by (try assumption; apply lt_pow_size; assumption). reflexivity.
Qed.

Lemma to_digits_aux_chars base : 2 <= base -> base <= 36 ->
  forall fuel n acc, Forall (fun c => is_digit_of base c = true) acc ->
    Forall (fun c => is_digit_of base c = true) (to_digits_aux fuel base n acc).
Proof.
  intros Hb1 Hb2. induction fuel as [|f IH]; intros n acc Hacc; cbn [to_digits_aux]; [exact Hacc|].
  assert (Hc : Forall (fun c => is_digit_of base c = true) (digit_char (n mod base) :: acc)).
  { constructor; [|exact Hacc]. apply is_digit_of_digit_char; [apply N.mod_lt; lia|assumption]. }
  destruct (n / base =? 0); [exact Hc|apply IH; exact Hc].
Qed.

Lemma to_digits_chars base n : 2 <= base -> base <= 36 ->
  Forall (fun c => is_digit_of base c = true) (to_digits base n).
Proof. intros. apply to_digits_aux_chars; try assumption. constructor. Qed.

Lemma to_digits_aux_nonempty fuel base n acc : to_digits_aux (S fuel) base n acc <> [].
Proof.
  revert n acc; induction fuel as [|f IH]; intros n acc; cbn [to_digits_aux].
  - destruct (n / base =? 0); discriminate.
  - destruct (n / base =? 0); [discriminate|]. apply (IH (n / base)).
Qed.

Lemma to_digits_nonempty base n : to_digits base n <> [].
Proof. apply to_digits_aux_nonempty. Qed.

(* the leading digit of a non-zero number is not '0' *)
Lemma to_digits_aux_head base : 2 <= base -> base <= 36 ->
  forall fuel n acc, n <> 0 -> n < base ^ N.of_nat fuel ->
    exists d r, to_digits_aux fuel base n acc = digit_char d :: r /\ d <> 0 /\ d < base.
Proof.
  intros Hb1 Hb2. induction fuel as [|f IH]; intros n acc Hn0 Hn.
  - change (N.of_nat 0) with 0 in Hn. rewrite N.pow_0_r in Hn. lia.
  - cbn [to_digits_aux].
    assert (Hmod : n mod base < base) by (apply N.mod_lt; lia).
    assert (Hdm : n = base * (n / base) + n mod base) by (apply N.div_mod; lia).
    destruct (N.eqb_spec (n / base) 0) as [Hq|Hq].
    + exists (n mod base), acc. split; [reflexivity|]. rewrite Hq in Hdm. split; lia.
    + apply IH; [exact Hq|]. rewrite Nat2N.inj_succ, N.pow_succ_r' in Hn.
      apply N.div_lt_upper_bound; lia.
Qed.

Lemma to_digits_head base n : 2 <= base -> base <= 36 -> n <> 0 ->
  exists d r, to_digits base n = digit_char d :: r /\ d <> 0 /\ d < base.
Proof. intros. apply to_digits_aux_head; try assumption. apply lt_pow_size; assumption. Qed.

Lemma to_digits_0 base : to_digits base 0 = [48].
Proof.
  unfold to_digits. change (N.size 0) with 0. cbn [N.to_nat to_digits_aux].
  destruct base as [|p]; reflexivity.
Qed.

Lemma of_digits_from_zeros base k s : 1 <= base ->
  of_digits_from base 0 (repeat ch_0 k ++ s) = of_digits_from base 0 s.
Proof.
  intro Hb. induction k as [|k IH]; cbn [repeat app]; [reflexivity|].
  cbn [of_digits_from]. change (digit_val ch_0) with (Some 0). cbv beta iota.
  replace (0 <? base) with true by (symmetry; apply N.ltb_lt; lia).
  replace (0 * base + 0) with 0 by lia. exact IH.
Qed.

(* ------------------------------------------------------------------ *)
(** * Lists: spans, runs, tokenizer *)

Lemma span_all p a s :
  forallb p a = true -> match s with [] => True | c :: _ => p c = false end ->
  span p (a ++ s) = (a, s).
Proof.
  intros Ha Hs. induction a as [|c a IH]; cbn [app span].
  - destruct s as [|c s]; [reflexivity|]. cbn [span]. rewrite Hs. reflexivity.
  - cbn [forallb] in Ha. apply andb_true_iff in Ha as [Hc Ha]. rewrite Hc, (IH Ha). reflexivity.
Qed.

Lemma Forall_forallb {A} (p : A -> bool) l : Forall (fun x => p x = true) l -> forallb p l = true.
Proof. intro H. apply forallb_forall. apply Forall_forall. exact H. Qed.

Lemma last_Forall {A} (P : A -> Prop) l d : Forall P l -> l <> [] -> P (last l d).
Proof.
  induction l as [|x l IH]; intros H Hne; [congruence|].
  inversion H as [|? ? Hx Hl]; subst. destruct l as [|y l]; [exact Hx|].
  change (last (x :: y :: l) d) with (last (y :: l) d). apply IH; [exact Hl|discriminate].
Qed.

Lemma map_opt_map {A B C} (f : B -> option C) (g : A -> B) (h : A -> C) xs :
  (forall x, In x xs -> f (g x) = Some (h x)) -> map_opt f (map g xs) = Some (map h xs).
Proof.
  induction xs as [|x xs IH]; intro H; cbn [map map_opt]; [reflexivity|].
  rewrite (H x (or_introl eq_refl)), IH by (intros y Hy; apply H; right; exact Hy). reflexivity.
Qed.

Lemma map_opt_some {A B} (f : A -> option B) (g : A -> B) xs :
  (forall x, In x xs -> f x = Some (g x)) -> map_opt f xs = Some (map g xs).
Proof.
  intro H. rewrite <- (map_id xs) at 1. apply map_opt_map. exact H.
Qed.

Definition run_ok (r : bytes) : Prop := r <> [] /\ forallb is_run_char r = true.

Lemma run_ok_head r : run_ok r -> exists c r', r = c :: r' /\ is_run_char c = true.
Proof.
  intros [Hne Hall]. destruct r as [|c r']; [congruence|]. exists c, r'. split; [reflexivity|].
  cbn [forallb] in Hall. apply andb_true_iff in Hall. tauto.
Qed.

Lemma run_char_not_ws c : is_run_char c = true -> is_ws c = false /\ (c =? ch_rbr) = false.
Proof.
  unfold is_run_char. intro H. apply negb_true_iff in H. apply orb_false_iff in H. exact H.
Qed.

Lemma join_sp_cons2 x y r : join_sp (x :: y :: r) = x ++ ch_sp :: join_sp (y :: r).
Proof. reflexivity. Qed.

Lemma join_sp_head x l : run_ok x -> exists c t, join_sp (x :: l) ++ [ch_rbr] = c :: t /\ is_run_char c = true.
Proof.
  intro Hx. destruct (run_ok_head x Hx) as (c & x' & -> & Hc).
  destruct l as [|y l].
  - exists c, (x' ++ [ch_rbr]). split; [reflexivity|exact Hc].
  - exists c, (x' ++ ch_sp :: join_sp (y :: l) ++ [ch_rbr]). split; [|exact Hc].
    rewrite join_sp_cons2. cbn [app]. rewrite <- app_assoc. reflexivity.
Qed.

Lemma drop_ws_run c t : is_run_char c = true -> drop_ws (c :: t) = c :: t.
Proof. intro H. cbn [drop_ws]. destruct (run_char_not_ws c H) as [-> _]. reflexivity. Qed.

Lemma tokenize_join l :
  Forall run_ok l ->
  forall fuel s, drop_ws s = join_sp l ++ [ch_rbr] -> (length (join_sp l) < fuel)%nat ->
    tokenize fuel s = Some (l, []).
Proof.
  induction l as [|x l IH]; intros Hl fuel s Hs Hfuel.
  - destruct fuel as [|f]; [lia|]. cbn [tokenize]. rewrite Hs. cbn [join_sp app]. rewrite N.eqb_refl. reflexivity.
  - inversion Hl as [|? ? Hx Hl']; subst.
    destruct (run_ok_head x Hx) as (c & x' & Ex & Hc). subst x.
    destruct fuel as [|f]; [lia|]. cbn [tokenize]. rewrite Hs.
    destruct (run_char_not_ws c Hc) as [Hws Hrb].
    destruct l as [|y l].
    + cbn [join_sp app] in *. rewrite Hrb.
      pose proof (span_all is_run_char (c :: x') [ch_rbr] (proj2 Hx) eq_refl) as Hsp.
      cbn [app] in Hsp. rewrite Hsp.
      rewrite (IH Hl' f [ch_rbr]); [reflexivity|reflexivity|]. cbn [length] in *. lia.
    + rewrite join_sp_cons2 in *. rewrite <- app_assoc. cbn [app]. rewrite Hrb.
      pose proof (span_all is_run_char (c :: x') (ch_sp :: join_sp (y :: l) ++ [ch_rbr]) (proj2 Hx) eq_refl) as Hsp.
      cbn [app] in Hsp. rewrite Hsp.
      rewrite (IH Hl' f (ch_sp :: join_sp (y :: l) ++ [ch_rbr])); [reflexivity| |].
      * inversion Hl' as [|? ? Hy _]; subst.
        destruct (join_sp_head y l Hy) as (c' & t & Et & Hc').
        cbn [drop_ws]. change (is_ws ch_sp) with true. cbv iota. rewrite Et. apply drop_ws_run. exact Hc'.
      * rewrite app_length in Hfuel. cbn [length] in Hfuel. lia.
Qed.

Lemma split_header_app h : split_header h = Some (h, []) -> forall body, split_header (h ++ body) = Some (h, body).
Proof.
  induction h as [|c h IH]; intros H body; [discriminate|].
  cbn [split_header app] in *. destruct (c =? ch_lbr).
  - injection H as E. subst h. reflexivity.
  - destruct (split_header h) as [[h' b']|] eqn:E; [|discriminate].
    injection H as E1 E2. subst h' b'. rewrite (IH eq_refl body). reflexivity.
Qed.

(* ------------------------------------------------------------------ *)
(** * Integer elements *)

Definition mb_ok (m : amode) (base : N) (zero : bool) : bool :=
  match m with
  | MDec => (base =? 10) && negb zero
  | MBin => base =? 2
  | MOct => base =? 8
  | MHex => base =? 16
  end.

Lemma digit_not_special base c : base <= 16 -> is_digit_of base c = true ->
  plain_char c.
Proof. intros Hb H. apply is_digit_of_16_range. apply (is_digit_of_mono base 16); assumption. Qed.

Lemma parse_uint_digits_plain base base0 a s :
  Forall plain_char s -> parse_uint_digits base base0 a s = of_digits_from base a s.
Proof.
  revert a; induction s as [|c s IH]; intros a H; cbn [parse_uint_digits of_digits_from]; [reflexivity|].
  inversion H as [|? ? Hc Hs]; subst.
  replace (c =? ch_us) with false by (symmetry; apply N.eqb_neq; unfold plain_char, ch_us in *; lia).
  cbn [andb]. destruct (digit_val c) as [d|]; [|reflexivity].
  destruct (d <? base); [apply IH; exact Hs|reflexivity].
Qed.

Lemma existsb_us_plain s : Forall plain_char s -> existsb (N.eqb ch_us) s = false.
Proof.
  induction s as [|c s IH]; intro H; cbn [existsb]; [reflexivity|].
  inversion H as [|? ? Hc Hs]; subst. rewrite (IH Hs).
  replace (ch_us =? c) with false by (symmetry; apply N.eqb_neq; unfold plain_char, ch_us in *; lia).
  reflexivity.
Qed.

Lemma digits_ok_all (isd : N -> bool) s : s <> [] -> Forall (fun c => isd c = true) s -> digits_ok isd s = true.
Proof.
  intros Hne H. destruct s as [|c s]; [congruence|]. unfold digits_ok.
  assert (Hc : isd c = true) by (inversion H; assumption).
  rewrite Hc. rewrite (last_Forall _ _ 0 H Hne). cbn [andb].
  apply forallb_forall. intros x Hx. rewrite Forall_forall in H. rewrite (H x Hx). reflexivity.
Qed.

Lemma base_cases m base zero : mb_ok m base zero = true ->
  (m = MDec /\ base = 10 /\ zero = false) \/ (m = MBin /\ base = 2) \/ (m = MOct /\ base = 8) \/ (m = MHex /\ base = 16).
Proof.
  intro Hmb. destruct m; cbn [mb_ok] in Hmb.
  - apply andb_true_iff in Hmb as [H1 H2]. apply N.eqb_eq in H1. apply negb_true_iff in H2. tauto.
  - apply N.eqb_eq in Hmb. tauto.
  - apply N.eqb_eq in Hmb. tauto.
  - apply N.eqb_eq in Hmb. tauto.
Qed.

Lemma base_le16 m base zero : mb_ok m base zero = true -> base <= 16.
Proof. intro H. destruct (base_cases _ _ _ H) as [(_ & -> & _)|[(_ & ->)|[(_ & ->)|(_ & ->)]]]; lia. Qed.

Lemma base_ge2 m base zero : mb_ok m base zero = true -> 2 <= base.
Proof. intro H. destruct (base_cases _ _ _ H) as [(_ & -> & _)|[(_ & ->)|[(_ & ->)|(_ & ->)]]]; lia. Qed.

Lemma D_plain m base zero D : mb_ok m base zero = true ->
  Forall (fun c => is_digit_of base c = true) D -> Forall plain_char D.
Proof.
  intros Hmb HD. eapply Forall_impl; [|exact HD]. intros c Hc.
  apply (digit_not_special base); [apply (base_le16 _ _ _ Hmb)|exact Hc].
Qed.

(* digits D (possibly zero padded) of [mag] in the base of mode [m] *)
Lemma unsigned_token_ok m base zero D : mb_ok m base zero = true ->
  Forall (fun c => is_digit_of base c = true) D -> D <> [] -> int_token_ok false m D = true.
Proof.
  intros Hmb HD HDne.
  unfold int_token_ok. destruct D as [|c r] eqn:ED; [congruence|]. cbn [andb]. rewrite <- ED in *.
  destruct (base_cases _ _ _ Hmb) as [(-> & Hb & _)|[(-> & Hb)|[(-> & Hb)|(-> & Hb)]]]; subst base.
  - apply orb_true_iff. left. apply digits_ok_all; [exact HDne|].
    eapply Forall_impl; [|exact HD]. intros x Hx. apply digit_of_10_is_dec. exact Hx.
  - apply digits_ok_all; assumption.
  - apply digits_ok_all; assumption.
  - apply digits_ok_all; assumption.
Qed.

Lemma unsigned_parse m base zero bits mag D : mb_ok m base zero = true ->
  mag < 2 ^ bits ->
  Forall (fun c => is_digit_of base c = true) D -> D <> [] ->
  of_digits_from base 0 D = Some mag ->
  (m = MDec -> D = to_digits 10 mag) ->
  parse_uint_go D (mode_base m) bits = Some mag.
Proof.
  intros Hmb Hmag HD HDne HDval HDdec.
  pose proof (D_plain _ _ _ _ Hmb HD) as Hplain.
  destruct (base_cases _ _ _ Hmb) as [(Em & Hb & _)|Hother].
  - (* decimal: base 0 prefix detection *)
    subst base. rewrite Em. cbn [mode_base]. specialize (HDdec Em).
    destruct (N.eq_dec mag 0) as [E0|N0].
    + rewrite HDdec, E0, to_digits_0. unfold parse_uint_go. cbn.
      rewrite E0 in Hmag. replace (0 <? 2 ^ bits) with true by (symmetry; apply N.ltb_lt; exact Hmag). reflexivity.
    + destruct (to_digits_head 10 mag) as (d & r & Ed & Hd0 & Hd10); try lia.
      assert (EDr : D = digit_char d :: r) by (rewrite HDdec; exact Ed).
      unfold parse_uint_go. rewrite EDr at 1. change (0 =? 0) with true. cbv iota.
      replace (digit_char d =? 48) with false
        by (symmetry; apply N.eqb_neq; unfold digit_char; destruct (N.ltb_spec d 10); lia).
      rewrite parse_uint_digits_plain by exact Hplain.
      rewrite HDval. replace (mag <? 2 ^ bits) with true by (symmetry; apply N.ltb_lt; exact Hmag).
      rewrite existsb_us_plain by exact Hplain. reflexivity.
  - assert (Hb0 : (mode_base m =? 0) = false /\ mode_base m = base).
    { destruct Hother as [(-> & ->)|[(-> & ->)|(-> & ->)]]; split; reflexivity. }
    destruct Hb0 as [Hb0 Hbm]. unfold parse_uint_go. destruct D as [|c0 r0] eqn:ED; [congruence|].
    rewrite Hb0, Hbm. rewrite <- ED in *. rewrite parse_uint_digits_plain by exact Hplain.
    rewrite HDval. replace (mag <? 2 ^ bits) with true by (symmetry; apply N.ltb_lt; exact Hmag).
    rewrite existsb_us_plain by exact Hplain. reflexivity.
Qed.

Definition is_signed (k : kind) : bool := match kind_class k with CInt => true | _ => false end.

Lemma kind_bits_range k : 1 <= kind_bits k /\ kind_bits k <= 64.
Proof. destruct k; cbn; lia. Qed.

Lemma pow_bits_split bits : 1 <= bits -> 2 ^ bits = 2 * 2 ^ (bits - 1).
Proof. intro H. rewrite <- N.pow_succ_r'. f_equal. lia. Qed.

Lemma pad_left_nop c width s : (N.to_nat width <= length s)%nat -> pad_left c width s = s.
Proof. intro H. unfold pad_left. replace (N.to_nat width - length s)%nat with 0%nat by lia. reflexivity. Qed.

Lemma digit_zero_ok base : 1 <= base -> is_digit_of base ch_0 = true.
Proof. intro H. unfold is_digit_of. change (digit_val ch_0) with (Some 0). apply N.ltb_lt. lia. Qed.

(* zero padded digits of [mag] *)
Lemma padded_digits m base zero prec mag :
  mb_ok m base zero = true -> (zero = false -> prec = 0) ->
  let D := pad_left ch_0 prec (to_digits base mag) in
  Forall (fun c => is_digit_of base c = true) D /\ D <> [] /\
  of_digits_from base 0 D = Some mag /\ (m = MDec -> D = to_digits 10 mag).
Proof.
  intros Hmb Hz D. pose proof (base_ge2 _ _ _ Hmb) as Hb2. pose proof (base_le16 _ _ _ Hmb) as Hb16.
  subst D. unfold pad_left. repeat split.
  - apply Forall_app. split.
    + apply Forall_forall. intros c Hc. apply repeat_spec in Hc. subst c. apply digit_zero_ok. lia.
    + apply to_digits_chars; lia.
  - intro E. apply app_eq_nil in E as [_ E]. exact (to_digits_nonempty _ _ E).
  - rewrite of_digits_from_zeros by lia. apply of_digits_to_digits; lia.
  - intro Em. destruct (base_cases _ _ _ Hmb) as [(_ & -> & Ez)|[(E & _)|[(E & _)|(E & _)]]]; try congruence.
    rewrite (Hz Ez). reflexivity.
Qed.

Lemma plain_not_sign c : plain_char c -> (c =? ch_minus) = false /\ (c =? ch_plus) = false.
Proof. unfold plain_char, ch_minus, ch_plus. intro H. split; apply N.eqb_neq; lia. Qed.

Lemma int_text_shape signed bits x base zero width :
  (zero = true \/ width = 0) ->
  let neg := signed && (2 ^ (bits - 1) <=? x) in
  let mag := if neg then (2 ^ bits - x) mod 2 ^ 64 else x in
  let prec := if zero then (if neg then width - 1 else width) else 0 in
  go_int_text signed bits x base zero width =
  (if neg then [ch_minus] else []) ++ pad_left ch_0 prec (to_digits base mag).
Proof.
  intros Hzw neg mag prec. unfold go_int_text. fold neg. fold mag. fold prec.
  apply pad_left_nop. rewrite app_length. unfold pad_left at 1. rewrite app_length, repeat_length.
  destruct Hzw as [-> | ->]; [|lia].
  subst prec. destruct neg; cbn [length]; lia.
Qed.

Lemma run_ok_int_text neg D : Forall plain_char D -> D <> [] -> run_ok ((if neg : bool then [ch_minus] else []) ++ D).
Proof.
  intros HD Hne. split.
  - destruct neg; [discriminate|exact Hne].
  - rewrite forallb_app. apply andb_true_iff. split.
    + destruct neg; reflexivity.
    + apply Forall_forallb. eapply Forall_impl; [|exact HD]. intros c Hc. apply plain_run_char. exact Hc.
Qed.

Lemma int_elem_roundtrip k m base zero width x :
  kind_class k <> CFloat -> x < 2 ^ kind_bits k ->
  mb_ok m base zero = true -> (zero = true \/ width = 0) ->
  let t := go_int_text (is_signed k) (kind_bits k) x base zero width in
  read_int_elem k m t = Some x /\ run_ok t.
Proof.
  intros Hk Hx Hmb Hzw t. subst t. rewrite int_text_shape by exact Hzw.
  destruct (kind_bits_range k) as [Hb1 Hb64]. pose proof (pow_bits_split _ Hb1) as Hsplit.
  set (bits := kind_bits k) in *. set (P := 2 ^ (bits - 1)) in *.
  assert (H64 : 2 ^ bits <= 2 ^ 64) by (apply N.pow_le_mono_r; lia).
  set (neg := is_signed k && (P <=? x)).
  set (mag := if neg then (2 ^ bits - x) mod 2 ^ 64 else x).
  set (prec := if zero then (if neg then width - 1 else width) else 0).
  assert (Hprec : zero = false -> prec = 0) by (intro E; subst prec; rewrite E; reflexivity).
  destruct (padded_digits m base zero prec mag Hmb Hprec) as (HD & HDne & HDval & HDdec).
  set (D := pad_left ch_0 prec (to_digits base mag)) in *.
  pose proof (D_plain _ _ _ _ Hmb HD) as Hplain.
  split; [|apply run_ok_int_text; assumption].
  unfold read_int_elem, is_signed in *.
  destruct (kind_class k) eqn:Ek; [| |congruence].
  - (* unsigned *)
    cbn [andb] in neg. subst neg. cbn [app]. subst mag.
    rewrite (unsigned_token_ok m base zero D Hmb HD HDne).
    apply (unsigned_parse m base zero bits x D); assumption.
  - (* signed *)
    cbn [andb] in neg.
    assert (Hmag : mag < 2 ^ bits /\ (neg = true -> P <= x /\ mag = 2 ^ bits - x) /\ (neg = false -> x < P /\ mag = x)).
    { subst mag neg. destruct (N.leb_spec P x) as [Hle|Hlt].
      - rewrite N.mod_small by lia. repeat split; try lia; intro; try discriminate; lia.
      - repeat split; try lia; intro; try discriminate; lia. }
    destruct Hmag as (Hmag & Hn1 & Hn0).
    pose proof (unsigned_token_ok m base zero D Hmb HD HDne) as Htok.
    pose proof (unsigned_parse m base zero bits mag D Hmb Hmag HD HDne HDval HDdec) as Hparse.
    destruct neg eqn:Eneg.
    + cbn [app]. destruct (Hn1 eq_refl) as [Hle Emag].
      assert (Htok' : int_token_ok true m (ch_minus :: D) = true).
      { unfold int_token_ok in *. cbn [andb]. rewrite N.eqb_refl.
        destruct D as [|c r]; [congruence|]. cbn [andb] in Htok. exact Htok. }
      rewrite Htok'. unfold parse_int_go. rewrite N.eqb_refl. cbn [orb]. fold bits. rewrite Hparse.
      fold P. replace (P <? mag) with false by (symmetry; apply N.ltb_ge; lia).
      f_equal. rewrite Emag. replace (2 ^ bits - (2 ^ bits - x)) with x by lia. apply N.mod_small. exact Hx.
    + cbn [app]. destruct (Hn0 eq_refl) as [Hlt Emag].
      destruct D as [|c r] eqn:ED; [congruence|].
      assert (Hc : plain_char c) by (inversion Hplain; assumption).
      destruct (plain_not_sign c Hc) as [Hm Hp].
      assert (Htok' : int_token_ok true m (c :: r) = true).
      { unfold int_token_ok in *. cbn [andb] in *. rewrite Hm. exact Htok. }
      rewrite Htok'. unfold parse_int_go. rewrite Hm, Hp. cbn [orb]. fold bits. rewrite Hparse.
      fold P. replace (P <=? mag) with false by (symmetry; apply N.leb_gt; lia).
      f_equal; exact Emag.
Qed.

(* ------------------------------------------------------------------ *)
(** * Array level *)

Lemma kind_eqb_eq a b : kind_eqb a b = true -> a = b.
Proof. destruct a, b; cbn; congruence. Qed.

Section ArrayLevel.
  Variables (fmt_g : N -> bytes) (parse_dec : N -> bytes -> option N).

  Lemma array_roundtrip_gen k f m xs (pe : N -> bytes) :
    f < N.of_nat (length (headers_of k)) -> f < N.of_nat (length (verbs_of k)) ->
    let h := nth (N.to_nat f) (headers_of k) [] in
    split_header h = Some (h, []) -> find_header h = Some (k, m) ->
    (forall x, In x xs -> print_elem fmt_g k f x = Some (pe x) /\
                          read_elem parse_dec k m (pe x) = Some (canon_elem k x) /\ run_ok (pe x)) ->
    roundtrip fmt_g parse_dec k f xs = Ok (k, map (canon_elem k) xs).
  Proof.
    intros Hf1 Hf2 h Hsplit Hfind Hel.
    unfold roundtrip, print_elems.
    replace (N.of_nat (length (headers_of k)) <=? f) with false by (symmetry; apply N.leb_gt; exact Hf1).
    replace (N.of_nat (length (verbs_of k)) <=? f) with false by (symmetry; apply N.leb_gt; exact Hf2).
    cbn [orb]. rewrite (map_opt_some _ pe) by (intros x Hx; apply (Hel x Hx)).
    cbn [outcome_bind]. fold h. unfold read_elems, lex_header.
    rewrite (split_header_app h Hsplit). rewrite Hfind.
    assert (Hruns : Forall run_ok (map pe xs)).
    { apply Forall_forall. intros r Hr. apply in_map_iff in Hr as (x & <- & Hx). apply (Hel x Hx). }
    rewrite (tokenize_join (map pe xs) Hruns).
    - rewrite (map_opt_map _ pe (canon_elem k)) by (intros x Hx; apply (Hel x Hx)). reflexivity.
    - destruct (map pe xs) as [|r l] eqn:E; [reflexivity|].
      inversion Hruns as [|? ? Hr _]; subst.
      destruct (join_sp_head r l Hr) as (c & t & Et & Hc). rewrite Et. apply drop_ws_run. exact Hc.
    - rewrite app_length. cbn [length]. lia.
  Qed.
End ArrayLevel.

(* facts about one (kind, setting) pair of the regenerated tables, checked by evaluation *)
Definition int_pair_ok (k : kind) (f : N) : bool :=
  (f <? N.of_nat (length (headers_of k))) && (f <? N.of_nat (length (verbs_of k))) &&
  let h := nth (N.to_nat f) (headers_of k) [] in
  match split_header h, find_header h, parse_directive (nth (N.to_nat f) (verbs_of k) []) with
  | Some (h', []), Some (k', m), DVerb zero w c =>
      bytes_eqb h' h && kind_eqb k' k &&
      match verb_base c with
      | Some base => mb_ok m base zero && (zero || (w =? 0))
      | None => false
      end
  | _, _, _ => false
  end.

Definition int_kinds : list kind := [KU8; KU16; KU32; KU64; KI8; KI16; KI32; KI64].
Definition int_formats : list N :=
  [cfg_CTEEncodingFormatDecimal; cfg_CTEEncodingFormatBinary; cfg_CTEEncodingFormatBinaryZeroFilled;
   cfg_CTEEncodingFormatOctal; cfg_CTEEncodingFormatOctalZeroFilled;
   cfg_CTEEncodingFormatHexadecimal; cfg_CTEEncodingFormatHexadecimalZeroFilled].

Lemma int_pairs_sweep : forallb (fun k => forallb (int_pair_ok k) int_formats) int_kinds = true.
Proof. vm_compute. reflexivity. Qed.

Lemma int_kind_in k : kind_class k <> CFloat -> In k int_kinds.
Proof. destruct k; cbn; intro H; try tauto; congruence. Qed.

Lemma int_format_in k f : kind_class k <> CFloat -> supported_fmt k f = true -> In f int_formats.
Proof.
  intros Hk. unfold supported_fmt. destruct (kind_class k); [| |congruence];
    intro H; repeat (apply orb_true_iff in H as [H|H]); apply N.eqb_eq in H; subst f; cbn; tauto.
Qed.

Lemma canon_elem_int k x : kind_class k <> CFloat -> canon_elem k x = x.
Proof. destruct k; cbn; intro H; try reflexivity; congruence. Qed.

Theorem int_array_roundtrip fmt_g parse_dec k f xs :
  kind_class k <> CFloat -> supported_fmt k f = true -> elems_wf k xs ->
  roundtrip fmt_g parse_dec k f xs = Ok (k, map (canon_elem k) xs).
Proof.
  intros Hk Hf Hwf.
  pose proof int_pairs_sweep as Hsweep. rewrite forallb_forall in Hsweep.
  specialize (Hsweep k (int_kind_in k Hk)). rewrite forallb_forall in Hsweep.
  specialize (Hsweep f (int_format_in k f Hk Hf)). unfold int_pair_ok in Hsweep.
  apply andb_true_iff in Hsweep as [Hlen Hrest]. apply andb_true_iff in Hlen as [Hl1 Hl2].
  apply N.ltb_lt in Hl1, Hl2. cbv zeta in Hrest.
  set (h := nth (N.to_nat f) (headers_of k) []) in *.
  destruct (split_header h) as [[h' [|? ?]]|] eqn:Esplit; try discriminate.
  destruct (find_header h) as [[k' m]|] eqn:Efind; try discriminate.
  destruct (parse_directive (nth (N.to_nat f) (verbs_of k) [])) as [|zero w c|] eqn:Edir; try discriminate.
  apply andb_true_iff in Hrest as [Hhk Hverb]. apply andb_true_iff in Hhk as [Hh' Hk'].
  apply bytes_eqb_eq in Hh'. apply kind_eqb_eq in Hk'. subst h' k'.
  destruct (verb_base c) as [base|] eqn:Ebase; [|discriminate].
  apply andb_true_iff in Hverb as [Hmb Hzw].
  assert (Hzw' : zero = true \/ w = 0).
  { apply orb_true_iff in Hzw as [Hz|Hw]; [left; exact Hz|right; apply N.eqb_eq; exact Hw]. }
  apply (array_roundtrip_gen fmt_g parse_dec k f m xs
           (fun x => go_int_text (is_signed k) (kind_bits k) x base zero w)); try assumption.
  intros x Hx. unfold elems_wf in Hwf. rewrite Forall_forall in Hwf. specialize (Hwf x Hx).
  destruct (int_elem_roundtrip k m base zero w x Hk Hwf Hmb Hzw') as [Hread Hrun].
  rewrite (canon_elem_int k x Hk). split; [|split; [|exact Hrun]].
  - unfold print_elem. destruct (kind_class k) eqn:Ek; [| |congruence];
      rewrite Edir; unfold go_sprintf_int, is_signed; rewrite Ebase, Ek; reflexivity.
  - unfold read_elem. destruct (kind_class k) eqn:Ek2; [exact Hread|exact Hread|congruence].
Qed.

(* ------------------------------------------------------------------ *)
(** * Correct rounding is the identity on representable values *)

Definition ff_qmin (F : ffmt) : Z := (ff_emin F - (Z.of_N (ff_p F) - 1))%Z.

Definition canonical (F : ffmt) (m0 : N) (q0 : Z) : Prop :=
  (2 ^ (ff_p F - 1) <= m0 < 2 ^ ff_p F /\ (ff_qmin F <= q0)%Z) \/
  (0 < m0 < 2 ^ (ff_p F - 1) /\ q0 = ff_qmin F).

Lemma pow2_pos k : 0 < 2 ^ k.
Proof. apply N.neq_0_lt_0. apply N.pow_nonzero. discriminate. Qed.

Lemma log2_mul_pow2 x k : x <> 0 -> N.log2 (x * 2 ^ k) = N.log2 x + k.
Proof. intro H. rewrite N.log2_mul_pow2 by lia. lia. Qed.

Lemma canonical_log2 F m0 q0 : 1 <= ff_p F -> canonical F m0 q0 ->
  m0 <> 0 /\ m0 < 2 ^ ff_p F /\
  Z.max (Z.of_N (N.log2 m0) + q0 - (Z.of_N (ff_p F) - 1)) (ff_qmin F) = q0.
Proof.
  intros Hp [[[H1 H2] Hq] | [[H1 H2] Hq]].
  - assert (0 < 2 ^ (ff_p F - 1)) by apply pow2_pos.
    assert (E : N.log2 m0 = ff_p F - 1).
    { apply N.log2_unique; [lia|]. split; [exact H1|]. replace (N.succ (ff_p F - 1)) with (ff_p F) by lia. exact H2. }
    repeat split; try lia.
  - assert (Hlt : N.log2 m0 < ff_p F - 1) by (apply N.log2_lt_pow2; lia).
    assert (2 ^ (ff_p F - 1) <= 2 ^ ff_p F) by (apply N.pow_le_mono_r; lia).
    repeat split; try lia.
Qed.

Lemma round_bin_exact F M E m0 q0 a b :
  1 <= ff_p F -> canonical F m0 q0 ->
  M * 2 ^ a = m0 * 2 ^ b -> (E - Z.of_N a = q0 - Z.of_N b)%Z ->
  round_bin F M E = (m0, q0).
Proof.
  intros Hp Hcan Hval Hexp.
  destruct (canonical_log2 F m0 q0 Hp Hcan) as (Hm0 & Hmlt & Hmax).
  assert (HM0 : M <> 0).
  { intro E0. rewrite E0 in Hval. pose proof (pow2_pos b). rewrite N.mul_0_l in Hval. symmetry in Hval.
    apply N.eq_mul_0 in Hval. lia. }
  unfold round_bin. fold (ff_qmin F).
  destruct (N.le_gt_cases b a) as [Hba|Hab].
  - (* E >= q0: the mantissa is shifted left *)
    set (d := a - b).
    assert (Em0 : m0 = M * 2 ^ d).
    { replace a with (d + b) in Hval by lia. rewrite N.pow_add_r, N.mul_assoc in Hval.
      apply N.mul_cancel_r in Hval; [lia|]. pose proof (pow2_pos b). lia. }
    assert (El : N.log2 m0 = N.log2 M + d) by (rewrite Em0; apply log2_mul_pow2; exact HM0).
    replace (Z.of_N (N.log2 M) + E - (Z.of_N (ff_p F) - 1))%Z
      with (Z.of_N (N.log2 m0) + q0 - (Z.of_N (ff_p F) - 1))%Z by lia.
    rewrite Hmax.
    replace (q0 - E <=? 0)%Z with true by (symmetry; apply Z.leb_le; lia).
    replace (Z.to_N (- (q0 - E))) with d by lia.
    rewrite <- Em0.
    replace (m0 =? 2 ^ ff_p F) with false by (symmetry; apply N.eqb_neq; lia).
    reflexivity.
  - (* E < q0: trailing zero bits are shifted out *)
    set (d := b - a).
    assert (EM : M = m0 * 2 ^ d).
    { replace b with (d + a) in Hval by lia. rewrite N.pow_add_r, N.mul_assoc in Hval.
      apply N.mul_cancel_r in Hval; [lia|]. pose proof (pow2_pos a). lia. }
    assert (El : N.log2 M = N.log2 m0 + d) by (rewrite EM; apply log2_mul_pow2; exact Hm0).
    replace (Z.of_N (N.log2 M) + E - (Z.of_N (ff_p F) - 1))%Z
      with (Z.of_N (N.log2 m0) + q0 - (Z.of_N (ff_p F) - 1))%Z by lia.
    rewrite Hmax.
    replace (q0 - E <=? 0)%Z with false by (symmetry; apply Z.leb_gt; lia).
    replace (Z.to_N (q0 - E)) with d by lia.
    unfold rne_shift. rewrite EM.
    assert (Hd : 2 ^ d <> 0) by (pose proof (pow2_pos d); lia).
    rewrite N.div_mul by exact Hd. rewrite N.mod_mul by exact Hd.
    replace (0 <? 2 ^ (d - 1)) with true by (symmetry; apply N.ltb_lt; apply pow2_pos).
    replace (m0 =? 2 ^ ff_p F) with false by (symmetry; apply N.eqb_neq; lia).
    reflexivity.
Qed.

(* a finite non-zero magnitude pattern with exponent field ef and mantissa field mf *)
Lemma round_assemble_exact F ef mf M E a c :
  1 <= ff_p F -> mf < 2 ^ (ff_p F - 1) -> ef < 2 ^ ff_expbits F - 1 -> (ef <> 0 \/ mf <> 0) ->
  M * 2 ^ a = (if ef =? 0 then mf else (2 ^ (ff_p F - 1) + mf) * 2 ^ (ef - 1)) * 2 ^ c ->
  (E - Z.of_N a = ff_qmin F - Z.of_N c)%Z ->
  (let (m, q) := round_bin F M E in assemble F m q) = Some (ef * 2 ^ (ff_p F - 1) + mf).
Proof.
  intros Hp Hmf Hef Hnz Hval Hexp.
  set (P := 2 ^ (ff_p F - 1)) in *.
  assert (HP2 : 2 ^ ff_p F = 2 * P) by (subst P; rewrite <- N.pow_succ_r'; f_equal; lia).
  assert (HPpos : 0 < P) by apply pow2_pos.
  destruct (N.eqb_spec ef 0) as [E0|N0].
  - (* subnormal *)
    assert (Hcan : canonical F mf (ff_qmin F)) by (right; fold P; split; [lia|reflexivity]).
    rewrite (round_bin_exact F M E mf (ff_qmin F) a c Hp Hcan Hval Hexp).
    unfold assemble. fold P. replace (mf <? P) with true by (symmetry; apply N.ltb_lt; exact Hmf).
    f_equal. lia.
  - (* normal *)
    assert (Hcan : canonical F (P + mf) (ff_qmin F + Z.of_N (ef - 1))).
    { left. fold P. split; lia. }
    rewrite (round_bin_exact F M E (P + mf) (ff_qmin F + Z.of_N (ef - 1)) a (ef - 1 + c) Hp Hcan).
    + unfold assemble. fold P. replace (P + mf <? P) with false by (symmetry; apply N.ltb_ge; lia).
      unfold ff_qmin.
      replace (ff_emin F - (Z.of_N (ff_p F) - 1) + Z.of_N (ef - 1) + (Z.of_N (ff_p F) - 1) - ff_emin F + 1)%Z
        with (Z.of_N ef) by lia.
      replace (Z.of_N (2 ^ ff_expbits F - 1) <=? Z.of_N ef)%Z with false by (symmetry; apply Z.leb_gt; lia).
      f_equal. rewrite N2Z.id. lia.
    + rewrite Hval. rewrite N.pow_add_r. lia.
    + lia.
Qed.

(* ------------------------------------------------------------------ *)
(** * Scanning hexadecimal float text *)

Definition hex_text (neg : bool) (ip fp : bytes) (eo : option (bool * bytes)) : bytes :=
  (if neg then [ch_minus] else []) ++ ip ++
  (match fp with [] => [] | _ => ch_dot :: fp end) ++
  (match eo with None => [] | Some (eneg, ed) => 112 :: (if eneg : bool then ch_minus else ch_plus) :: ed end).

Definition hexd (c : N) : Prop := is_digit_of 16 c = true.

Lemma hexd_plain c : hexd c -> plain_char c.
Proof. apply is_digit_of_16_range. Qed.

Lemma hexd_isdu l : Forall hexd l -> forallb (fun c => is_digit_of 16 c || (c =? ch_us)) l = true.
Proof.
  intro H. apply Forall_forallb. eapply Forall_impl; [|exact H]. intros c Hc. unfold hexd in Hc. rewrite Hc. reflexivity.
Qed.

Lemma exp_part_head eo :
  match (match eo with None => [] | Some (eneg, ed) => 112 :: (if eneg : bool then ch_minus else ch_plus) :: ed end) with
  | [] => True
  | c :: _ => (fun c => is_digit_of 16 c || (c =? ch_us)) c = false
  end.
Proof. destruct eo as [[eneg ed]|]; [reflexivity|exact I]. Qed.

(* scan_float for un-prefixed hexadecimal text, after the sign *)
Definition scan_hex_tail (neg : bool) (s2 : bytes) : option fnum :=
  let isdu := fun c => is_digit_of 16 c || (c =? ch_us) in
  let (ip, s3) := span isdu s2 in
  if negb (digits_ok (is_digit_of 16) ip) then None else
  let '(fp, s4, fok) :=
    match s3 with
    | c :: r => if c =? ch_dot then let (fp, s4) := span isdu r in (fp, s4, digits_ok (is_digit_of 16) fp)
                else ([], s3, true)
    | [] => ([], s3, true)
    end in
  if negb fok then None else
  match s4 with
  | [] => Some {| fn_neg := neg; fn_int := ip; fn_frac := fp; fn_exp := None |}
  | c :: r =>
      if lower c =? 112 then
        let '(eneg, r1) := match r with
                           | c' :: r' => if c' =? ch_minus then (true, r')
                                         else if c' =? ch_plus then (false, r') else (false, r)
                           | [] => (false, r)
                           end in
        if digits_ok is_dec r1
        then Some {| fn_neg := neg; fn_int := ip; fn_frac := fp; fn_exp := Some (eneg, r1) |}
        else None
      else None
  end.

Lemma scan_float_hex_neg s : scan_float true false (ch_minus :: s) = scan_hex_tail true s.
Proof. reflexivity. Qed.

Lemma scan_float_hex_pos c s : (c =? ch_minus) = false -> scan_float true false (c :: s) = scan_hex_tail false (c :: s).
Proof. intro H. unfold scan_float. rewrite H. reflexivity. Qed.

Lemma scan_hex_text neg ip fp eo :
  Forall hexd ip -> ip <> [] -> Forall hexd fp ->
  (forall eneg ed, eo = Some (eneg, ed) -> Forall (fun c => is_dec c = true) ed /\ ed <> []) ->
  scan_float true false (hex_text neg ip fp eo) =
  Some {| fn_neg := neg; fn_int := ip; fn_frac := fp; fn_exp := eo |}.
Proof.
  intros Hip Hipne Hfp Heo.
  set (X := match eo with None => [] | Some (eneg, ed) => 112 :: (if eneg : bool then ch_minus else ch_plus) :: ed end).
  set (R := (match fp with [] => [] | _ => ch_dot :: fp end) ++ X).
  assert (Htext : hex_text neg ip fp eo = (if neg then [ch_minus] else []) ++ ip ++ R) by reflexivity.
  rewrite Htext. clear Htext.
  assert (Hsign : scan_float true false ((if neg then [ch_minus] else []) ++ ip ++ R) = scan_hex_tail neg (ip ++ R)).
  { destruct neg; cbn [app]; [apply scan_float_hex_neg|].
    destruct ip as [|c ip']; [congruence|]. cbn [app].
    assert (Hc : plain_char c) by (apply hexd_plain; inversion Hip; assumption).
    apply scan_float_hex_pos. apply (plain_not_sign c Hc). }
  rewrite Hsign. unfold scan_hex_tail.
  set (isdu := fun c => is_digit_of 16 c || (c =? ch_us)).
  (* integer part *)
  assert (HRhead : match R with [] => True | c :: _ => isdu c = false end).
  { subst R. destruct fp as [|f0 fp']; cbn [app]; [apply exp_part_head|reflexivity]. }
  rewrite (span_all isdu ip R (hexd_isdu ip Hip) HRhead).
  rewrite (digits_ok_all (is_digit_of 16) ip Hipne Hip). cbn [negb].
  (* fraction and exponent *)
  assert (HX : (match X with
                | [] => Some {| fn_neg := neg; fn_int := ip; fn_frac := fp; fn_exp := None |}
                | c :: r =>
                    if lower c =? 112
                    then let '(eneg, r1) := match r with
                                            | c' :: r' => if c' =? ch_minus then (true, r')
                                                          else if c' =? ch_plus then (false, r') else (false, r)
                                            | [] => (false, r)
                                            end in
                         if digits_ok is_dec r1
                         then Some {| fn_neg := neg; fn_int := ip; fn_frac := fp; fn_exp := Some (eneg, r1) |}
                         else None
                    else None
                end) = Some {| fn_neg := neg; fn_int := ip; fn_frac := fp; fn_exp := eo |}).
  { subst X. destruct eo as [[eneg ed]|]; [|reflexivity].
    destruct (Heo eneg ed eq_refl) as [Hed Hedne].
    change (lower 112 =? 112) with true. cbv iota.
    destruct eneg; cbn; rewrite (digits_ok_all is_dec ed Hedne Hed); reflexivity. }
  subst R. destruct fp as [|f0 fp'].
  - cbn [app]. destruct X as [|c r] eqn:EX.
    + exact HX.
    + assert (Ec : c = 112) by (subst X; destruct eo as [[? ?]|]; congruence).
      subst c. change (112 =? ch_dot) with false. cbv iota. exact HX.
  - cbn [app]. rewrite N.eqb_refl.
    pose proof (span_all isdu (f0 :: fp') X (hexd_isdu _ Hfp) (exp_part_head eo)) as Hsp.
    cbn [app] in Hsp. rewrite Hsp.
    rewrite (digits_ok_all (is_digit_of 16) (f0 :: fp') ltac:(discriminate) Hfp). cbn [negb].
    exact HX.
Qed.

Lemma lower_plain c : plain_char c -> (48 <= lower c <= 57) \/ (97 <= lower c <= 102).
Proof.
  unfold plain_char, lower. intro H.
  destruct (N.leb_spec 65 c), (N.leb_spec c 90); cbn [andb]; lia.
Qed.

Lemma strip_us_plain s : Forall plain_char s -> strip_us s = s.
Proof.
  induction s as [|c s IH]; intro H; [reflexivity|]. inversion H as [|? ? Hc Hs]; subst.
  unfold strip_us in *. cbn [filter].
  replace (c =? ch_us) with false by (symmetry; apply N.eqb_neq; unfold plain_char, ch_us in *; lia).
  cbn [negb]. rewrite (IH Hs). reflexivity.
Qed.

Lemma hexd_Forall_plain l : Forall hexd l -> Forall plain_char l.
Proof. intro H. eapply Forall_impl; [|exact H]. exact hexd_plain. Qed.

Lemma neqb_of (a b : N) : a <> b -> (a =? b) = false.
Proof. apply N.eqb_neq. Qed.

Lemma hex_text_not_special neg ip fp eo : Forall hexd ip -> ip <> [] ->
  let t := map lower (hex_text neg ip fp eo) in
  bytes_eqb t t_nan = false /\ bytes_eqb t t_snan = false /\
  bytes_eqb t t_inf = false /\ bytes_eqb t t_ninf = false.
Proof.
  intros Hip Hne. destruct ip as [|c ip']; [congruence|].
  assert (Hc : plain_char c) by (apply hexd_plain; inversion Hip; assumption).
  pose proof (lower_plain c Hc) as Hl.
  unfold hex_text, t_nan, t_snan, t_inf, t_ninf, bytes_eqb.
  destruct neg; cbn [app map list_eqb]; change (lower ch_minus) with 45.
  - change (45 =? 110) with false. change (45 =? 115) with false. change (45 =? 105) with false.
    change (45 =? 45) with true. cbn [andb]. rewrite (neqb_of (lower c) 105) by lia. repeat split; reflexivity.
  - rewrite (neqb_of (lower c) 110), (neqb_of (lower c) 115), (neqb_of (lower c) 105), (neqb_of (lower c) 45) by lia.
    repeat split; reflexivity.
Qed.

(* value of the exponent field of a scanned number *)
Definition exp_value (eo : option (bool * bytes)) : Z :=
  match eo with
  | Some (eneg, ds) => let a := Z.of_N (exp_accum 0 (strip_us ds)) in if eneg then (- a)%Z else a
  | None => 0%Z
  end.

Section ReadHexText.
  Variable parse_dec : N -> bytes -> option N.

  Lemma read_hex_text k neg ip fp eo M :
    kind_class k = CFloat ->
    Forall hexd ip -> ip <> [] -> Forall hexd fp ->
    (forall eneg ed, eo = Some (eneg, ed) -> Forall (fun c => is_dec c = true) ed /\ ed <> []) ->
    of_digits 16 (ip ++ fp) = Some M ->
    read_elem parse_dec k MHex (hex_text neg ip fp eo) =
    finish_float k neg (all_zero_digits ip && all_zero_digits fp)
      (let (m, q) := round_bin (float_ffmt k) M (exp_value eo - 4 * Z.of_nat (length fp))%Z in
       assemble (float_ffmt k) m q).
  Proof.
    intros Hk Hip Hne Hfp Heo HM.
    unfold read_elem. rewrite Hk. unfold read_float_elem.
    destruct (hex_text_not_special neg ip fp eo Hip Hne) as (H1 & H2 & H3 & H4).
    cbv zeta in H1, H2, H3, H4. rewrite H1, H2, H3, H4.
    rewrite (scan_hex_text neg ip fp eo Hip Hne Hfp Heo).
    unfold read_hex_float, parse_hex_mag, fnum_is_zero. cbn [fn_neg fn_int fn_frac fn_exp].
    rewrite (strip_us_plain ip (hexd_Forall_plain ip Hip)), (strip_us_plain fp (hexd_Forall_plain fp Hfp)).
    rewrite HM. reflexivity.
  Qed.
End ReadHexText.

(* ------------------------------------------------------------------ *)
(** * strconv 'x' formatting *)

Lemma dec_char_ok d : d < 10 -> is_dec (48 + d) = true.
Proof. intro H. unfold is_dec. apply andb_true_iff. split; apply N.leb_le; lia. Qed.

Lemma fmtx_exp_digits_spec e : e < 10000 ->
  Forall (fun c => is_dec c = true) (fmtx_exp_digits e) /\ fmtx_exp_digits e <> [] /\
  exp_accum 0 (fmtx_exp_digits e) = e.
Proof.
  intro He. unfold fmtx_exp_digits.
  destruct (N.ltb_spec e 100) as [H1|H1]; [|destruct (N.ltb_spec e 1000) as [H2|H2]].
  - repeat split; [|discriminate|].
    + repeat constructor; apply dec_char_ok; dlia.
    + cbn [exp_accum]. change (0 <? 10000) with true. cbv iota.
      replace (0 * 10 + (48 + e / 10 - 48)) with (e / 10) by lia.
      replace (e / 10 <? 10000) with true by (symmetry; apply N.ltb_lt; dlia). dlia.
  - repeat split; [|discriminate|].
    + repeat constructor; apply dec_char_ok; dlia.
    + cbn [exp_accum]. change (0 <? 10000) with true. cbv iota.
      replace (0 * 10 + (48 + e / 100 - 48)) with (e / 100) by lia.
      replace (e / 100 <? 10000) with true by (symmetry; apply N.ltb_lt; dlia).
      replace (e / 100 * 10 + (48 + (e / 10) mod 10 - 48)) with (e / 10) by dlia.
      replace (e / 10 <? 10000) with true by (symmetry; apply N.ltb_lt; dlia). dlia.
  - repeat split; [|discriminate|].
    + repeat constructor; apply dec_char_ok; dlia.
    + cbn [exp_accum]. change (0 <? 10000) with true. cbv iota.
      replace (0 * 10 + (48 + e / 1000 - 48)) with (e / 1000) by lia.
      replace (e / 1000 <? 10000) with true by (symmetry; apply N.ltb_lt; dlia).
      replace (e / 1000 * 10 + (48 + (e / 100) mod 10 - 48)) with (e / 100) by dlia.
      replace (e / 100 <? 10000) with true by (symmetry; apply N.ltb_lt; dlia).
      replace (e / 100 * 10 + (48 + (e / 10) mod 10 - 48)) with (e / 10) by dlia.
      replace (e / 10 <? 10000) with true by (symmetry; apply N.ltb_lt; dlia). dlia.
Qed.

Lemma testbit60 mant : mant < 2 ^ 61 -> N.testbit mant 60 = (2 ^ 60 <=? mant).
Proof.
  intro H. rewrite N.testbit_eqb.
  assert (E61 : 2 ^ 61 = 2 * 2 ^ 60) by (rewrite <- N.pow_succ_r'; reflexivity).
  pose proof (pow2_pos 60) as Hpos.
  destruct (N.leb_spec (2 ^ 60) mant) as [Hle|Hlt].
  - assert (mant / 2 ^ 60 = 1).
    { apply (N.div_unique mant (2 ^ 60) 1 (mant - 2 ^ 60)); lia. }
    rewrite H0. reflexivity.
  - rewrite N.div_small by exact Hlt. reflexivity.
Qed.

Lemma fmtx_norm_spec fuel : forall mant exp,
  mant <> 0 -> mant < 2 ^ 61 -> 2 ^ 60 <= mant * 2 ^ N.of_nat fuel ->
  exists s, fmtx_norm fuel mant exp = (mant * 2 ^ s, (exp - Z.of_N s)%Z) /\
            2 ^ 60 <= mant * 2 ^ s /\ mant * 2 ^ s < 2 ^ 61.
Proof.
  induction fuel as [|f IH]; intros mant exp H0 Hlt Hge.
  - exists 0. cbn [fmtx_norm]. change (N.of_nat 0) with 0 in Hge. rewrite N.pow_0_r, N.mul_1_r in *.
    split; [f_equal; lia|split; assumption].
  - cbn [fmtx_norm]. replace (mant =? 0) with false by (symmetry; apply N.eqb_neq; exact H0).
    cbn [orb]. rewrite (testbit60 mant Hlt).
    assert (E61 : 2 ^ 61 = 2 * 2 ^ 60) by (rewrite <- N.pow_succ_r'; reflexivity).
    destruct (N.leb_spec (2 ^ 60) mant) as [Hle|Hlt60].
    + exists 0. rewrite N.pow_0_r, N.mul_1_r. split; [f_equal; lia|split; assumption].
    + destruct (IH (mant * 2) (exp - 1)%Z) as (s & Es & Hs1 & Hs2); try lia.
      * rewrite Nat2N.inj_succ, N.pow_succ_r' in Hge. lia.
      * exists (N.succ s). rewrite N.pow_succ_r'. rewrite Es.
        replace (mant * 2 * 2 ^ s) with (mant * (2 * 2 ^ s)) in * by lia.
        split; [f_equal; lia|split; assumption].
Qed.

Lemma fmtx_frac_spec fuel : forall s t a,
  s + 4 * N.of_nat fuel = 64 -> t < 2 ^ (4 * N.of_nat fuel) ->
  let ds := fmtx_frac fuel (t * 2 ^ s) in
  Forall hexd ds /\
  exists v, of_digits_from 16 a ds = Some (a * 16 ^ N.of_nat (length ds) + v) /\
            v * 2 ^ 64 = (t * 2 ^ s) * 16 ^ N.of_nat (length ds).
Proof.
  induction fuel as [|f IH]; intros s t a Hs Ht ds; subst ds.
  - cbn [fmtx_frac]. split; [constructor|]. exists 0. cbn [of_digits_from length].
    change (N.of_nat 0) with 0 in *. rewrite N.mul_0_r, N.pow_0_r in *. replace t with 0 by lia.
    split; [f_equal; lia|lia].
  - cbn [fmtx_frac].
    destruct (N.eqb_spec (t * 2 ^ s) 0) as [E0|N0].
    + split; [constructor|]. exists 0. cbn [of_digits_from length]. change (N.of_nat 0) with 0.
      rewrite N.pow_0_r. rewrite E0. split; [f_equal; lia|lia].
    + set (F4 := 4 * N.of_nat f) in *.
      assert (HF : 4 * N.of_nat (S f) = F4 + 4) by (subst F4; lia).
      rewrite HF in Ht, Hs.
      assert (E60 : 2 ^ 60 = 2 ^ F4 * 2 ^ s) by (rewrite <- N.pow_add_r; f_equal; lia).
      assert (E64 : 2 ^ 64 = 2 ^ F4 * 2 ^ (s + 4)) by (rewrite <- N.pow_add_r; f_equal; lia).
      assert (E16 : 2 ^ (s + 4) = 2 ^ s * 16) by (rewrite N.pow_add_r; reflexivity).
      assert (EF4 : 2 ^ (F4 + 4) = 2 ^ F4 * 16) by (rewrite N.pow_add_r; reflexivity).
      pose proof (pow2_pos F4) as HpF. pose proof (pow2_pos s) as Hps.
      set (d := t / 2 ^ F4). set (t' := t mod 2 ^ F4).
      assert (Hd : d < 16) by (subst d; apply N.div_lt_upper_bound; lia).
      assert (Ht' : t' < 2 ^ F4) by (subst t'; apply N.mod_lt; lia).
      assert (Et : t = 2 ^ F4 * d + t') by (subst d t'; apply N.div_mod; lia).
      assert (Ediv : t * 2 ^ s / 2 ^ 60 = d).
      { rewrite E60. rewrite N.div_mul_cancel_r by lia. reflexivity. }
      assert (Emod : (t * 2 ^ s * 16) mod 2 ^ 64 = t' * 2 ^ (s + 4)).
      { rewrite E64. replace (t * 2 ^ s * 16) with (t * 2 ^ (s + 4)) by lia.
        rewrite N.mul_mod_distr_r by lia. reflexivity. }
      rewrite Ediv, Emod. rewrite (N.mod_small d 16) by exact Hd.
      destruct (IH (s + 4) t' (a * 16 + d)) as (Hall & v' & Hv1 & Hv2); [subst F4; lia|exact Ht'|].
      set (ds' := fmtx_frac f (t' * 2 ^ (s + 4))) in *.
      split.
      * constructor; [|exact Hall]. apply is_digit_of_digit_char; lia.
      * exists (d * 16 ^ N.of_nat (length ds') + v').
        cbn [of_digits_from length]. rewrite digit_val_digit_char by lia.
        replace (d <? 16) with true by (symmetry; apply N.ltb_lt; exact Hd).
        rewrite Hv1. rewrite Nat2N.inj_succ, N.pow_succ_r'. split; [f_equal; lia|].
        rewrite N.mul_add_distr_r, Hv2. rewrite Et at 2. rewrite E64, E16. lia.
Qed.
