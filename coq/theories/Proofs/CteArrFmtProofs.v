(* Proofs about Model/CteArrFmt.v: which (kind, format setting) pairs the CTE
   array encoder writes text for that the CTE decoder reads back as the same
   elements, for arrays of every length and every element value. *)
From CE Require Import Model.CteArrFmt Proofs.FloatBitsProofs.
From Coq Require Import ZifyN ZifyNat ZifyBool Zify.
Local Open Scope N_scope.

#[local] Arguments N.pow : simpl never.
#[local] Arguments N.div : simpl never.
#[local] Arguments N.modulo : simpl never.
#[local] Arguments N.mul : simpl never.
#[local] Arguments N.add : simpl never.
#[local] Arguments N.sub : simpl never.
#[local] Arguments N.log2 : simpl never.
#[local] Arguments Z.pow : simpl never.
#[local] Arguments Z.mul : simpl never.
#[local] Arguments Z.add : simpl never.
#[local] Arguments Z.sub : simpl never.

Ltac dlia := zify; Z.to_euclidean_division_equations; lia.

(* ------------------------------------------------------------------ *)
(** * Characters *)

Lemma digit_val_digit_char d : d < 36 -> digit_val (digit_char d) = Some d.
Proof.
  intro Hd. unfold digit_val, digit_char, is_dec, is_letter, lower.
  destruct (N.ltb_spec d 10) as [H|H].
  - replace ((48 <=? 48 + d) && (48 + d <=? 57)) with true by (symmetry; apply andb_true_iff; split; apply N.leb_le; lia).
    f_equal. lia.
  - replace ((48 <=? 87 + d) && (87 + d <=? 57)) with false
      by (symmetry; apply andb_false_iff; right; apply N.leb_gt; lia).
    replace ((65 <=? 87 + d) && (87 + d <=? 90)) with false
      by (symmetry; apply andb_false_iff; right; apply N.leb_gt; lia).
    replace ((97 <=? 87 + d) && (87 + d <=? 122)) with true
      by (symmetry; apply andb_true_iff; split; apply N.leb_le; lia).
    f_equal. lia.
Qed.

Lemma is_digit_of_digit_char base d : d < base -> base <= 36 -> is_digit_of base (digit_char d) = true.
Proof.
  intros Hd Hb. unfold is_digit_of. rewrite digit_val_digit_char by lia. apply N.ltb_lt. exact Hd.
Qed.

(* what a digit character of a base up to 16 can be *)
Lemma is_digit_of_16_range c :
  is_digit_of 16 c = true -> (48 <= c <= 57) \/ (65 <= c <= 70) \/ (97 <= c <= 102).
Proof.
  unfold is_digit_of, digit_val.
  destruct (is_dec c) eqn:Hd.
  - intros _. unfold is_dec in Hd. apply andb_true_iff in Hd as [H1 H2].
    apply N.leb_le in H1, H2. lia.
  - destruct (is_letter c) eqn:Hl; [|discriminate].
    unfold is_letter, lower in *.
    destruct ((65 <=? c) && (c <=? 90)) eqn:Hu.
    + apply andb_true_iff in Hu as [H1 H2]. apply N.leb_le in H1, H2.
      intro H. apply N.ltb_lt in H. lia.
    + apply andb_true_iff in Hl as [H1 H2]. apply N.leb_le in H1, H2.
      intro H. apply N.ltb_lt in H. lia.
Qed.

Lemma is_digit_of_mono b1 b2 c : b1 <= b2 -> is_digit_of b1 c = true -> is_digit_of b2 c = true.
Proof.
  unfold is_digit_of. destruct (digit_val c); [|discriminate].
  intros Hb H. apply N.ltb_lt in H. apply N.ltb_lt. lia.
Qed.

Lemma is_dec_digit_of_10 c : is_dec c = true -> is_digit_of 10 c = true.
Proof.
  unfold is_digit_of, digit_val. intro H. rewrite H. unfold is_dec in H.
  apply andb_true_iff in H as [H1 H2]. apply N.leb_le in H1, H2. apply N.ltb_lt. lia.
Qed.

Lemma digit_of_10_is_dec c : is_digit_of 10 c = true -> is_dec c = true.
Proof.
  unfold is_digit_of, digit_val. destruct (is_dec c); [reflexivity|].
  destruct (is_letter c); [|discriminate]. intro H. apply N.ltb_lt in H. lia.
Qed.

Definition plain_char (c : N) : Prop := (48 <= c <= 57) \/ (65 <= c <= 70) \/ (97 <= c <= 102).

Lemma plain_run_char c : plain_char c -> is_run_char c = true.
Proof.
  intro H. unfold is_run_char, is_ws, ch_rbr.
  repeat match goal with |- context [N.eqb ?a ?b] => destruct (N.eqb_spec a b) end; try reflexivity; unfold plain_char in H; lia.
Qed.

(* ------------------------------------------------------------------ *)
(** * Digit strings *)

Lemma of_digits_from_app base a s t :
  of_digits_from base a (s ++ t) =
  match of_digits_from base a s with Some v => of_digits_from base v t | None => None end.
Proof.
  revert a; induction s as [|c s IH]; intro a; cbn [app of_digits_from]; [reflexivity|].
  destruct (digit_val c) as [d|]; [|reflexivity]. destruct (d <? base); [apply IH|reflexivity].
Qed.

Lemma to_digits_aux_spec base : 2 <= base -> base <= 36 ->
  forall fuel n acc, n < base ^ N.of_nat fuel ->
    of_digits_from base 0 (to_digits_aux fuel base n acc) = of_digits_from base n acc.
Proof.
  intros Hb1 Hb2. induction fuel as [|f IH]; intros n acc Hn.
  - cbn [to_digits_aux]. change (N.of_nat 0) with 0 in Hn. rewrite N.pow_0_r in Hn.
    replace n with 0 by lia. reflexivity.
  - cbn [to_digits_aux].
    assert (Hmod : n mod base < base) by (apply N.mod_lt; lia).
    assert (Hdm : n = base * (n / base) + n mod base) by (apply N.div_mod; lia).
    destruct (N.eqb_spec (n / base) 0) as [Hq|Hq].
    + cbn [of_digits_from]. rewrite digit_val_digit_char by lia.
      replace (n mod base <? base) with true by (symmetry; apply N.ltb_lt; lia).
      f_equal. rewrite Hq in Hdm. lia.
    + rewrite IH.
      * cbn [of_digits_from]. rewrite digit_val_digit_char by lia.
        replace (n mod base <? base) with true by (symmetry; apply N.ltb_lt; lia).
        f_equal. lia.
      * rewrite Nat2N.inj_succ, N.pow_succ_r' in Hn.
        apply N.div_lt_upper_bound; lia.
Qed.

Lemma lt_pow_size base n : 2 <= base -> n < base ^ N.of_nat (S (N.to_nat (N.size n))).
Proof.
  intro Hb. rewrite Nat2N.inj_succ, N2Nat.id.
  apply N.lt_le_trans with (2 ^ N.size n); [apply N.size_gt|].
  apply N.le_trans with (base ^ N.size n).
  - apply N.pow_le_mono_l. exact Hb.
  - apply N.pow_le_mono_r; lia.
Qed.

Lemma of_digits_to_digits base n : 2 <= base -> base <= 36 -> of_digits base (to_digits base n) = Some n.
Proof.
  intros Hb1 Hb2. unfold of_digits, to_digits.
  rewrite to_digits_aux_spec by (try assumption; apply lt_pow_size; assumption). reflexivity.
Qed.

Lemma to_digits_aux_chars base : 2 <= base -> base <= 36 ->
  forall fuel n acc, Forall (fun c => is_digit_of base c = true) acc ->
    Forall (fun c => is_digit_of base c = true) (to_digits_aux fuel base n acc).
Proof.
  intros Hb1 Hb2. induction fuel as [|f IH]; intros n acc Hacc; cbn [to_digits_aux]; [exact Hacc|].
  assert (Hc : Forall (fun c => is_digit_of base c = true) (digit_char (n mod base) :: acc)).
  { constructor; [|exact Hacc]. apply is_digit_of_digit_char; [apply N.mod_lt; lia|assumption]. }
  destruct (n / base =? 0); [exact Hc|apply IH; exact Hc].
Qed.

Lemma to_digits_chars base n : 2 <= base -> base <= 36 ->
  Forall (fun c => is_digit_of base c = true) (to_digits base n).
Proof. intros. apply to_digits_aux_chars; try assumption. constructor. Qed.

Lemma to_digits_aux_nonempty fuel base n acc : to_digits_aux (S fuel) base n acc <> [].
Proof.
  revert n acc; induction fuel as [|f IH]; intros n acc; cbn [to_digits_aux].
  - destruct (n / base =? 0); discriminate.
  - destruct (n / base =? 0); [discriminate|]. apply (IH (n / base)).
Qed.

Lemma to_digits_nonempty base n : to_digits base n <> [].
Proof. apply to_digits_aux_nonempty. Qed.

(* the leading digit of a non-zero number is not '0' *)
Lemma to_digits_aux_head base : 2 <= base -> base <= 36 ->
  forall fuel n acc, n <> 0 -> n < base ^ N.of_nat fuel ->
    exists d r, to_digits_aux fuel base n acc = digit_char d :: r /\ d <> 0 /\ d < base.
Proof.
  intros Hb1 Hb2. induction fuel as [|f IH]; intros n acc Hn0 Hn.
  - change (N.of_nat 0) with 0 in Hn. rewrite N.pow_0_r in Hn. lia.
  - cbn [to_digits_aux].
    assert (Hmod : n mod base < base) by (apply N.mod_lt; lia).
    assert (Hdm : n = base * (n / base) + n mod base) by (apply N.div_mod; lia).
    destruct (N.eqb_spec (n / base) 0) as [Hq|Hq].
    + exists (n mod base), acc. split; [reflexivity|]. rewrite Hq in Hdm. split; lia.
    + apply IH; [exact Hq|]. rewrite Nat2N.inj_succ, N.pow_succ_r' in Hn.
      apply N.div_lt_upper_bound; lia.
Qed.

Lemma to_digits_head base n : 2 <= base -> base <= 36 -> n <> 0 ->
  exists d r, to_digits base n = digit_char d :: r /\ d <> 0 /\ d < base.
Proof. intros. apply to_digits_aux_head; try assumption. apply lt_pow_size; assumption. Qed.

Lemma to_digits_0 base : to_digits base 0 = [48].
Proof.
  unfold to_digits. change (N.size 0) with 0. cbn [N.to_nat to_digits_aux].
  destruct base as [|p]; reflexivity.
Qed.

Lemma of_digits_from_zeros base k s : 1 <= base ->
  of_digits_from base 0 (repeat ch_0 k ++ s) = of_digits_from base 0 s.
Proof.
  intro Hb. induction k as [|k IH]; cbn [repeat app]; [reflexivity|].
  cbn [of_digits_from]. change (digit_val ch_0) with (Some 0). cbv beta iota.
  replace (0 <? base) with true by (symmetry; apply N.ltb_lt; lia).
  replace (0 * base + 0) with 0 by lia. exact IH.
Qed.

(* ------------------------------------------------------------------ *)
(** * Lists: spans, runs, tokenizer *)

Lemma span_all p a s :
  forallb p a = true -> match s with [] => True | c :: _ => p c = false end ->
  span p (a ++ s) = (a, s).
Proof.
  intros Ha Hs. induction a as [|c a IH]; cbn [app span].
  - destruct s as [|c s]; [reflexivity|]. cbn [span]. rewrite Hs. reflexivity.
  - cbn [forallb] in Ha. apply andb_true_iff in Ha as [Hc Ha]. rewrite Hc, (IH Ha). reflexivity.
Qed.

Lemma Forall_forallb {A} (p : A -> bool) l : Forall (fun x => p x = true) l -> forallb p l = true.
Proof. intro H. apply forallb_forall. apply Forall_forall. exact H. Qed.

Lemma last_Forall {A} (P : A -> Prop) l d : Forall P l -> l <> [] -> P (last l d).
Proof.
  induction l as [|x l IH]; intros H Hne; [congruence|].
  inversion H as [|? ? Hx Hl]; subst. destruct l as [|y l]; [exact Hx|].
  change (last (x :: y :: l) d) with (last (y :: l) d). apply IH; [exact Hl|discriminate].
Qed.

Lemma map_opt_map {A B C} (f : B -> option C) (g : A -> B) (h : A -> C) xs :
  (forall x, In x xs -> f (g x) = Some (h x)) -> map_opt f (map g xs) = Some (map h xs).
Proof.
  induction xs as [|x xs IH]; intro H; cbn [map map_opt]; [reflexivity|].
  rewrite (H x (or_introl eq_refl)), IH by (intros y Hy; apply H; right; exact Hy). reflexivity.
Qed.

Lemma map_opt_some {A B} (f : A -> option B) (g : A -> B) xs :
  (forall x, In x xs -> f x = Some (g x)) -> map_opt f xs = Some (map g xs).
Proof.
  intro H. rewrite <- (map_id xs) at 1. apply map_opt_map. exact H.
Qed.

Definition run_ok (r : bytes) : Prop := r <> [] /\ forallb is_run_char r = true.

Lemma run_ok_head r : run_ok r -> exists c r', r = c :: r' /\ is_run_char c = true.
Proof.
  intros [Hne Hall]. destruct r as [|c r']; [congruence|]. exists c, r'. split; [reflexivity|].
  cbn [forallb] in Hall. apply andb_true_iff in Hall. tauto.
Qed.

Lemma run_char_not_ws c : is_run_char c = true -> is_ws c = false /\ (c =? ch_rbr) = false.
Proof.
  unfold is_run_char. intro H. apply negb_true_iff in H. apply orb_false_iff in H. exact H.
Qed.

Lemma join_sp_cons2 x y r : join_sp (x :: y :: r) = x ++ ch_sp :: join_sp (y :: r).
Proof. reflexivity. Qed.

Lemma join_sp_head x l : run_ok x -> exists c t, join_sp (x :: l) ++ [ch_rbr] = c :: t /\ is_run_char c = true.
Proof.
  intro Hx. destruct (run_ok_head x Hx) as (c & x' & -> & Hc).
  destruct l as [|y l].
  - exists c, (x' ++ [ch_rbr]). split; [reflexivity|exact Hc].
  - exists c, (x' ++ ch_sp :: join_sp (y :: l) ++ [ch_rbr]). split; [|exact Hc].
    rewrite join_sp_cons2. cbn [app]. rewrite <- app_assoc. reflexivity.
Qed.

Lemma drop_ws_run c t : is_run_char c = true -> drop_ws (c :: t) = c :: t.
Proof. intro H. cbn [drop_ws]. destruct (run_char_not_ws c H) as [-> _]. reflexivity. Qed.

Lemma tokenize_join l :
  Forall run_ok l ->
  forall fuel s, drop_ws s = join_sp l ++ [ch_rbr] -> (length (join_sp l) < fuel)%nat ->
    tokenize fuel s = Some (l, []).
Proof.
  induction l as [|x l IH]; intros Hl fuel s Hs Hfuel.
  - destruct fuel as [|f]; [lia|]. cbn [tokenize]. rewrite Hs. cbn [join_sp app]. rewrite N.eqb_refl. reflexivity.
  - inversion Hl as [|? ? Hx Hl']; subst.
    destruct (run_ok_head x Hx) as (c & x' & Ex & Hc). subst x.
    destruct fuel as [|f]; [lia|]. cbn [tokenize]. rewrite Hs.
    destruct (run_char_not_ws c Hc) as [Hws Hrb].
    destruct l as [|y l].
    + cbn [join_sp app] in *. rewrite Hrb.
      pose proof (span_all is_run_char (c :: x') [ch_rbr] (proj2 Hx) eq_refl) as Hsp.
      cbn [app] in Hsp. rewrite Hsp.
      rewrite (IH Hl' f [ch_rbr]); [reflexivity|reflexivity|]. cbn [length] in *. lia.
    + rewrite join_sp_cons2 in *. rewrite <- app_assoc. cbn [app]. rewrite Hrb.
      pose proof (span_all is_run_char (c :: x') (ch_sp :: join_sp (y :: l) ++ [ch_rbr]) (proj2 Hx) eq_refl) as Hsp.
      cbn [app] in Hsp. rewrite Hsp.
      rewrite (IH Hl' f (ch_sp :: join_sp (y :: l) ++ [ch_rbr])); [reflexivity| |].
      * inversion Hl' as [|? ? Hy _]; subst.
        destruct (join_sp_head y l Hy) as (c' & t & Et & Hc').
        cbn [drop_ws]. change (is_ws ch_sp) with true. cbv iota. rewrite Et. apply drop_ws_run. exact Hc'.
      * rewrite app_length in Hfuel. cbn [length] in Hfuel. lia.
Qed.

Lemma split_header_app h : split_header h = Some (h, []) -> forall body, split_header (h ++ body) = Some (h, body).
Proof.
  induction h as [|c h IH]; intros H body; [discriminate|].
  cbn [split_header app] in *. destruct (c =? ch_lbr).
  - injection H as E. subst h. reflexivity.
  - destruct (split_header h) as [[h' b']|] eqn:E; [|discriminate].
    injection H as E1 E2. subst h' b'. rewrite (IH eq_refl body). reflexivity.
Qed.

(* ------------------------------------------------------------------ *)
(** * Integer elements *)

Definition mb_ok (m : amode) (base : N) (zero : bool) : bool :=
  match m with
  | MDec => base =? 10
  | MBin => base =? 2
  | MOct => base =? 8
  | MHex => base =? 16
  end.

Lemma digit_not_special base c : base <= 16 -> is_digit_of base c = true ->
  plain_char c.
Proof. intros Hb H. apply is_digit_of_16_range. apply (is_digit_of_mono base 16); assumption. Qed.

Lemma parse_uint_digits_plain base base0 a s :
  Forall plain_char s -> parse_uint_digits base base0 a s = of_digits_from base a s.
Proof.
  revert a; induction s as [|c s IH]; intros a H; cbn [parse_uint_digits of_digits_from]; [reflexivity|].
  inversion H as [|? ? Hc Hs]; subst.
  replace (c =? ch_us) with false by (symmetry; apply N.eqb_neq; unfold plain_char, ch_us in *; lia).
  cbn [andb]. destruct (digit_val c) as [d|]; [|reflexivity].
  destruct (d <? base); [apply IH; exact Hs|reflexivity].
Qed.

Lemma existsb_us_plain s : Forall plain_char s -> existsb (N.eqb ch_us) s = false.
Proof.
  induction s as [|c s IH]; intro H; cbn [existsb]; [reflexivity|].
  inversion H as [|? ? Hc Hs]; subst. rewrite (IH Hs).
  replace (ch_us =? c) with false by (symmetry; apply N.eqb_neq; unfold plain_char, ch_us in *; lia).
  reflexivity.
Qed.

Lemma digits_ok_all (isd : N -> bool) s : s <> [] -> Forall (fun c => isd c = true) s -> digits_ok isd s = true.
Proof.
  intros Hne H. destruct s as [|c s]; [congruence|]. unfold digits_ok.
  assert (Hc : isd c = true) by (inversion H; assumption).
  rewrite Hc. rewrite (last_Forall _ _ 0 H Hne). cbn [andb].
  apply forallb_forall. intros x Hx. rewrite Forall_forall in H. rewrite (H x Hx). reflexivity.
Qed.

Lemma base_cases m base zero : mb_ok m base zero = true ->
  (m = MDec /\ base = 10) \/ (m = MBin /\ base = 2) \/ (m = MOct /\ base = 8) \/ (m = MHex /\ base = 16).
Proof.
  intro Hmb. destruct m; cbn [mb_ok] in Hmb.
  - apply N.eqb_eq in Hmb. tauto.
  - apply N.eqb_eq in Hmb. tauto.
  - apply N.eqb_eq in Hmb. tauto.
  - apply N.eqb_eq in Hmb. tauto.
Qed.

Lemma base_le16 m base zero : mb_ok m base zero = true -> base <= 16.
Proof. intro H. destruct (base_cases _ _ _ H) as [(_ & ->)|[(_ & ->)|[(_ & ->)|(_ & ->)]]]; lia. Qed.

Lemma base_ge2 m base zero : mb_ok m base zero = true -> 2 <= base.
Proof. intro H. destruct (base_cases _ _ _ H) as [(_ & ->)|[(_ & ->)|[(_ & ->)|(_ & ->)]]]; lia. Qed.

Lemma D_plain m base zero D : mb_ok m base zero = true ->
  Forall (fun c => is_digit_of base c = true) D -> Forall plain_char D.
Proof.
  intros Hmb HD. eapply Forall_impl; [|exact HD]. intros c Hc.
  apply (digit_not_special base); [apply (base_le16 _ _ _ Hmb)|exact Hc].
Qed.

(* digits D (possibly zero padded) of [mag] in the base of mode [m] *)
Lemma unsigned_token_ok m base zero D : mb_ok m base zero = true ->
  Forall (fun c => is_digit_of base c = true) D -> D <> [] -> int_token_ok false m D = true.
Proof.
  intros Hmb HD HDne.
  unfold int_token_ok. destruct D as [|c r] eqn:ED; [congruence|]. cbn [andb]. rewrite <- ED in *.
  destruct (base_cases _ _ _ Hmb) as [(-> & Hb)|[(-> & Hb)|[(-> & Hb)|(-> & Hb)]]]; subst base.
  - apply orb_true_iff. left. apply digits_ok_all; [exact HDne|].
    eapply Forall_impl; [|exact HD]. intros x Hx. apply digit_of_10_is_dec. exact Hx.
  - apply digits_ok_all; assumption.
  - apply digits_ok_all; assumption.
  - apply digits_ok_all; assumption.
Qed.

Lemma unsigned_parse m base zero bits mag D : mb_ok m base zero = true ->
  mag < 2 ^ bits ->
  Forall (fun c => is_digit_of base c = true) D -> D <> [] ->
  of_digits_from base 0 D = Some mag ->
  (m = MDec -> D = to_digits 10 mag) ->
  parse_uint_go D (mode_base m) bits = Some mag.
Proof.
  intros Hmb Hmag HD HDne HDval HDdec.
  pose proof (D_plain _ _ _ _ Hmb HD) as Hplain.
  destruct (base_cases _ _ _ Hmb) as [(Em & Hb)|Hother].
  - (* decimal: base 0 prefix detection *)
    subst base. rewrite Em. cbn [mode_base]. specialize (HDdec Em).
    destruct (N.eq_dec mag 0) as [E0|N0].
    + rewrite HDdec, E0, to_digits_0. unfold parse_uint_go. cbn.
      rewrite E0 in Hmag. replace (0 <? 2 ^ bits) with true by (symmetry; apply N.ltb_lt; exact Hmag). reflexivity.
    + destruct (to_digits_head 10 mag) as (d & r & Ed & Hd0 & Hd10); try lia.
      assert (EDr : D = digit_char d :: r) by (rewrite HDdec; exact Ed).
      unfold parse_uint_go. rewrite EDr at 1. change (0 =? 0) with true. cbv iota.
      replace (digit_char d =? 48) with false
        by (symmetry; apply N.eqb_neq; unfold digit_char; destruct (N.ltb_spec d 10); lia).
      rewrite parse_uint_digits_plain by exact Hplain.
      rewrite HDval. replace (mag <? 2 ^ bits) with true by (symmetry; apply N.ltb_lt; exact Hmag).
      rewrite existsb_us_plain by exact Hplain. reflexivity.
  - assert (Hb0 : (mode_base m =? 0) = false /\ mode_base m = base).
    { destruct Hother as [(-> & ->)|[(-> & ->)|(-> & ->)]]; split; reflexivity. }
    destruct Hb0 as [Hb0 Hbm]. unfold parse_uint_go. destruct D as [|c0 r0] eqn:ED; [congruence|].
    rewrite Hb0, Hbm. rewrite <- ED in *. rewrite parse_uint_digits_plain by exact Hplain.
    rewrite HDval. replace (mag <? 2 ^ bits) with true by (symmetry; apply N.ltb_lt; exact Hmag).
    rewrite existsb_us_plain by exact Hplain. reflexivity.
Qed.

Definition is_signed (k : kind) : bool := match kind_class k with CInt => true | _ => false end.

Lemma kind_bits_range k : 1 <= kind_bits k /\ kind_bits k <= 64.
Proof. destruct k; cbn; lia. Qed.

Lemma pow_bits_split bits : 1 <= bits -> 2 ^ bits = 2 * 2 ^ (bits - 1).
Proof. intro H. rewrite <- N.pow_succ_r'. f_equal. lia. Qed.

Lemma pad_left_nop c width s : (N.to_nat width <= length s)%nat -> pad_left c width s = s.
Proof. intro H. unfold pad_left. replace (N.to_nat width - length s)%nat with 0%nat by lia. reflexivity. Qed.

Lemma digit_zero_ok base : 1 <= base -> is_digit_of base ch_0 = true.
Proof. intro H. unfold is_digit_of. change (digit_val ch_0) with (Some 0). apply N.ltb_lt. lia. Qed.

(* zero padded digits of [mag] *)
Lemma padded_digits m base zero prec mag :
  mb_ok m base zero = true ->
  let D := pad_left ch_0 prec (to_digits base mag) in
  Forall (fun c => is_digit_of base c = true) D /\ D <> [] /\
  of_digits_from base 0 D = Some mag.
Proof.
  intros Hmb D. pose proof (base_ge2 _ _ _ Hmb) as Hb2. pose proof (base_le16 _ _ _ Hmb) as Hb16.
  subst D. unfold pad_left. repeat split.
  - apply Forall_app. split.
    + apply Forall_forall. intros c Hc. apply repeat_spec in Hc. subst c. apply digit_zero_ok. lia.
    + apply to_digits_chars; lia.
  - intro E. apply app_eq_nil in E as [_ E]. exact (to_digits_nonempty _ _ E).
  - rewrite of_digits_from_zeros by lia. apply of_digits_to_digits; lia.
Qed.

(* stripDecimalLeadingZeros removes exactly the padding of a decimal number *)
Lemma strip_zeros_aux_digits fuel mag : strip_zeros_aux fuel (to_digits 10 mag) = to_digits 10 mag.
Proof.
  destruct fuel as [|f]; [reflexivity|].
  destruct (N.eq_dec mag 0) as [->|Hne]; [rewrite to_digits_0; reflexivity|].
  destruct (to_digits_head 10 mag) as (d & r & E & Hd0 & Hd); try lia. rewrite E.
  assert (Hc : (digit_char d =? ch_0) = false).
  { apply N.eqb_neq. unfold digit_char, ch_0. destruct (N.ltb_spec d 10); lia. }
  cbn [strip_zeros_aux]. rewrite Hc. reflexivity.
Qed.

Lemma strip_zeros_aux_padded mag : forall n fuel, (n <= fuel)%nat ->
  strip_zeros_aux fuel (repeat ch_0 n ++ to_digits 10 mag) = to_digits 10 mag.
Proof.
  induction n as [|n IH]; intros fuel Hf; cbn [repeat app]; [apply strip_zeros_aux_digits|].
  destruct fuel as [|f]; [lia|].
  destruct (repeat ch_0 n ++ to_digits 10 mag) as [|c1 r] eqn:E.
  - exfalso. apply app_eq_nil in E as [_ E]. exact (to_digits_nonempty _ _ E).
  - assert (Hc1 : is_dec c1 = true).
    { destruct n as [|n']; cbn [repeat app] in E.
      - assert (Hall : Forall (fun c => is_digit_of 10 c = true) (to_digits 10 mag)) by (apply to_digits_chars; lia).
        rewrite E in Hall. inversion Hall; subst. apply digit_of_10_is_dec. assumption.
      - injection E as <- _. reflexivity. }
    assert (Hus : (c1 =? ch_us) = false).
    { unfold is_dec in Hc1. apply andb_true_iff in Hc1 as [H1 H2]. apply N.leb_le in H1, H2.
      apply N.eqb_neq. unfold ch_us. lia. }
    cbn [strip_zeros_aux drop_us]. rewrite N.eqb_refl, Hus, Hc1. apply IH. lia.
Qed.

Lemma strip_zeros_padded n mag : strip_zeros (repeat ch_0 n ++ to_digits 10 mag) = to_digits 10 mag.
Proof.
  unfold strip_zeros. apply strip_zeros_aux_padded. rewrite app_length, repeat_length. lia.
Qed.

(* the text handed to strconv for an element written as sign, padding, digits *)
Lemma elem_text_padded m base zero (neg : bool) prec mag :
  mb_ok m base zero = true ->
  elem_text m ((if neg then [ch_minus] else []) ++ pad_left ch_0 prec (to_digits base mag)) =
  (if neg then [ch_minus] else []) ++
  match m with MDec => to_digits 10 mag | _ => pad_left ch_0 prec (to_digits base mag) end.
Proof.
  intro Hmb. destruct (base_cases _ _ _ Hmb) as [(-> & ->)|[(-> & _)|[(-> & _)|(-> & _)]]]; try reflexivity.
  unfold elem_text, pad_left. destruct neg; cbn [app].
  - unfold strip_dec_leading_zeros. rewrite N.eqb_refl. cbn [orb]. rewrite strip_zeros_padded. reflexivity.
  - unfold strip_dec_leading_zeros.
    destruct (repeat ch_0 (N.to_nat prec - length (to_digits 10 mag)) ++ to_digits 10 mag) as [|c r] eqn:E.
    + exfalso. apply app_eq_nil in E as [_ E]. exact (to_digits_nonempty _ _ E).
    + assert (Hc : plain_char c).
      { assert (Hall : Forall (fun c => is_digit_of 10 c = true) (c :: r)).
        { rewrite <- E. apply Forall_app. split.
          - apply Forall_forall. intros x Hx. apply repeat_spec in Hx. subst x. apply digit_zero_ok. lia.
          - apply to_digits_chars; lia. }
        inversion Hall; subst. apply (digit_not_special 10); [lia|assumption]. }
      assert (Hs : (c =? ch_minus) = false /\ (c =? ch_plus) = false).
      { unfold plain_char, ch_minus, ch_plus in *. split; apply N.eqb_neq; lia. }
      destruct Hs as [-> ->]. cbn [orb]. rewrite <- E. apply strip_zeros_padded.
Qed.

Lemma plain_not_sign c : plain_char c -> (c =? ch_minus) = false /\ (c =? ch_plus) = false.
Proof. unfold plain_char, ch_minus, ch_plus. intro H. split; apply N.eqb_neq; lia. Qed.

Lemma int_text_shape signed bits x base zero width :
  (zero = true \/ width = 0) ->
  let neg := signed && (2 ^ (bits - 1) <=? x) in
  let mag := if neg then (2 ^ bits - x) mod 2 ^ 64 else x in
  let prec := if zero then (if neg then width - 1 else width) else 0 in
  go_int_text signed bits x base zero width =
  (if neg then [ch_minus] else []) ++ pad_left ch_0 prec (to_digits base mag).
Proof.
  intros Hzw neg mag prec. unfold go_int_text. fold neg. fold mag. fold prec.
  apply pad_left_nop. rewrite app_length. unfold pad_left at 1. rewrite app_length, repeat_length.
  destruct Hzw as [-> | ->]; [|lia].
  subst prec. destruct neg; cbn [length]; lia.
Qed.

Lemma run_ok_int_text neg D : Forall plain_char D -> D <> [] -> run_ok ((if neg : bool then [ch_minus] else []) ++ D).
Proof.
  intros HD Hne. split.
  - destruct neg; [discriminate|exact Hne].
  - rewrite forallb_app. apply andb_true_iff. split.
    + destruct neg; reflexivity.
    + apply Forall_forallb. eapply Forall_impl; [|exact HD]. intros c Hc. apply plain_run_char. exact Hc.
Qed.

Lemma int_elem_roundtrip k m base zero width x :
  kind_class k <> CFloat -> x < 2 ^ kind_bits k ->
  mb_ok m base zero = true -> (zero = true \/ width = 0) ->
  let t := go_int_text (is_signed k) (kind_bits k) x base zero width in
  read_int_elem k m t = Some x /\ run_ok t.
Proof.
  intros Hk Hx Hmb Hzw t. subst t. rewrite int_text_shape by exact Hzw.
  destruct (kind_bits_range k) as [Hb1 Hb64]. pose proof (pow_bits_split _ Hb1) as Hsplit.
  set (bits := kind_bits k) in *. set (P := 2 ^ (bits - 1)) in *.
  assert (H64 : 2 ^ bits <= 2 ^ 64) by (apply N.pow_le_mono_r; lia).
  set (neg := is_signed k && (P <=? x)).
  set (mag := if neg then (2 ^ bits - x) mod 2 ^ 64 else x).
  set (prec := if zero then (if neg then width - 1 else width) else 0).
  destruct (padded_digits m base zero prec mag Hmb) as (HD & HDne & HDval).
  pose proof (elem_text_padded m base zero neg prec mag Hmb) as Etext.
  set (D := pad_left ch_0 prec (to_digits base mag)) in *.
  (* the digits strconv sees: padding removed in decimal mode *)
  set (D' := match m with MDec => to_digits 10 mag | _ => D end) in *.
  assert (HD' : Forall (fun c => is_digit_of base c = true) D' /\ D' <> [] /\
                of_digits_from base 0 D' = Some mag /\ (m = MDec -> D' = to_digits 10 mag)).
  { subst D'. destruct (base_cases _ _ _ Hmb) as [(-> & ->)|[(-> & _)|[(-> & _)|(-> & _)]]];
      try (repeat split; try assumption; discriminate).
    repeat split.
    - apply to_digits_chars; lia.
    - apply to_digits_nonempty.
    - apply of_digits_to_digits; lia. }
  destruct HD' as (HD' & HDne' & HDval' & HDdec').
  assert (Etext' : elem_text m ((if neg then [ch_minus] else []) ++ D) = (if neg then [ch_minus] else []) ++ D') by exact Etext.
  clear Etext. clearbody D'.
  pose proof (D_plain _ _ _ _ Hmb HD) as Hplain.
  pose proof (D_plain _ _ _ _ Hmb HD') as Hplain'.
  split; [|apply run_ok_int_text; assumption].
  unfold read_int_elem, is_signed in *. rewrite Etext'.
  destruct (kind_class k) eqn:Ek; [| |congruence].
  - (* unsigned *)
    cbn [andb] in neg. subst neg. cbn [app]. subst mag.
    rewrite (unsigned_token_ok m base zero D Hmb HD HDne).
    apply (unsigned_parse m base zero bits x D'); assumption.
  - (* signed *)
    cbn [andb] in neg.
    assert (Hmag : mag < 2 ^ bits /\ (neg = true -> P <= x /\ mag = 2 ^ bits - x) /\ (neg = false -> x < P /\ mag = x)).
    { subst mag neg. destruct (N.leb_spec P x) as [Hle|Hlt].
      - rewrite N.mod_small by lia. repeat split; try lia; intro; try discriminate; lia.
      - repeat split; try lia; intro; try discriminate; lia. }
    destruct Hmag as (Hmag & Hn1 & Hn0).
    pose proof (unsigned_token_ok m base zero D Hmb HD HDne) as Htok.
    pose proof (unsigned_parse m base zero bits mag D' Hmb Hmag HD' HDne' HDval' HDdec') as Hparse.
    destruct neg eqn:Eneg.
    + cbn [app]. destruct (Hn1 eq_refl) as [Hle Emag].
      assert (Htok' : int_token_ok true m (ch_minus :: D) = true).
      { unfold int_token_ok in *. cbn [andb]. rewrite N.eqb_refl.
        destruct D as [|c r]; [congruence|]. cbn [andb] in Htok. exact Htok. }
      rewrite Htok'. unfold parse_int_go. rewrite N.eqb_refl. cbn [orb]. fold bits. rewrite Hparse.
      fold P. replace (P <? mag) with false by (symmetry; apply N.ltb_ge; lia).
      f_equal. rewrite Emag. replace (2 ^ bits - (2 ^ bits - x)) with x by lia. apply N.mod_small. exact Hx.
    + cbn [app]. destruct (Hn0 eq_refl) as [Hlt Emag].
      destruct D as [|c r] eqn:ED; [congruence|].
      assert (Hc : plain_char c) by (inversion Hplain; assumption).
      destruct (plain_not_sign c Hc) as [Hm Hp].
      assert (Htok' : int_token_ok true m (c :: r) = true).
      { unfold int_token_ok in *. cbn [andb] in *. rewrite Hm. exact Htok. }
      rewrite Htok'.
      destruct D' as [|c' r'] eqn:ED'; [congruence|].
      assert (Hc' : plain_char c') by (inversion Hplain'; assumption).
      destruct (plain_not_sign c' Hc') as [Hm' Hp'].
      unfold parse_int_go. rewrite Hm', Hp'. cbn [orb]. fold bits. rewrite Hparse.
      fold P. replace (P <=? mag) with false by (symmetry; apply N.leb_gt; lia).
      f_equal; exact Emag.
Qed.

(* ------------------------------------------------------------------ *)
(** * Array level *)

Lemma kind_eqb_eq a b : kind_eqb a b = true -> a = b.
Proof. destruct a, b; cbn; congruence. Qed.

Section ArrayLevel.
  Variables (fmt_g : N -> bytes) (parse_dec : N -> bytes -> option N).

  Lemma array_roundtrip_gen k f m xs (pe : N -> bytes) :
    f < N.of_nat (length (headers_of k)) -> f < N.of_nat (length (verbs_of k)) ->
    let h := nth (N.to_nat f) (headers_of k) [] in
    split_header h = Some (h, []) -> find_header h = Some (k, m) ->
    (forall x, In x xs -> print_elem fmt_g k f x = Some (pe x) /\
                          read_elem parse_dec k m (pe x) = Some (canon_elem k x) /\ run_ok (pe x)) ->
    roundtrip fmt_g parse_dec k f xs = Ok (k, map (canon_elem k) xs).
  Proof.
    intros Hf1 Hf2 h Hsplit Hfind Hel.
    unfold roundtrip, print_elems.
    replace (N.of_nat (length (headers_of k)) <=? f) with false by (symmetry; apply N.leb_gt; exact Hf1).
    replace (N.of_nat (length (verbs_of k)) <=? f) with false by (symmetry; apply N.leb_gt; exact Hf2).
    cbn [orb]. rewrite (map_opt_some _ pe) by (intros x Hx; apply (Hel x Hx)).
    cbn [outcome_bind]. fold h. unfold read_elems, lex_header.
    rewrite (split_header_app h Hsplit). rewrite Hfind.
    assert (Hruns : Forall run_ok (map pe xs)).
    { apply Forall_forall. intros r Hr. apply in_map_iff in Hr as (x & <- & Hx). apply (Hel x Hx). }
    rewrite (tokenize_join (map pe xs) Hruns).
    - rewrite (map_opt_map _ pe (canon_elem k)) by (intros x Hx; apply (Hel x Hx)). reflexivity.
    - destruct (map pe xs) as [|r l] eqn:E; [reflexivity|].
      inversion Hruns as [|? ? Hr _]; subst.
      destruct (join_sp_head r l Hr) as (c & t & Et & Hc). rewrite Et. apply drop_ws_run. exact Hc.
    - rewrite app_length. cbn [length]. lia.
  Qed.
End ArrayLevel.

(* facts about one (kind, setting) pair of the regenerated tables, checked by evaluation *)
Definition int_pair_ok (k : kind) (f : N) : bool :=
  (f <? N.of_nat (length (headers_of k))) && (f <? N.of_nat (length (verbs_of k))) &&
  let h := nth (N.to_nat f) (headers_of k) [] in
  match split_header h, find_header h, parse_directive (nth (N.to_nat f) (verbs_of k) []) with
  | Some (h', []), Some (k', m), DVerb zero w c =>
      bytes_eqb h' h && kind_eqb k' k &&
      match verb_base c with
      | Some base => mb_ok m base zero && (zero || (w =? 0))
      | None => false
      end
  | _, _, _ => false
  end.

Definition int_kinds : list kind := [KU8; KU16; KU32; KU64; KI8; KI16; KI32; KI64].
Definition int_formats : list N :=
  [cfg_CTEEncodingFormatDecimal; cfg_CTEEncodingFormatBinary; cfg_CTEEncodingFormatBinaryZeroFilled;
   cfg_CTEEncodingFormatOctal; cfg_CTEEncodingFormatOctalZeroFilled;
   cfg_CTEEncodingFormatHexadecimal; cfg_CTEEncodingFormatHexadecimalZeroFilled].

Lemma int_pairs_sweep : forallb (fun k => forallb (int_pair_ok k) int_formats) int_kinds = true.
Proof. vm_compute. reflexivity. Qed.

Lemma int_kind_in k : kind_class k <> CFloat -> In k int_kinds.
Proof. destruct k; cbn; intro H; try tauto; congruence. Qed.

Lemma int_format_in k f : kind_class k <> CFloat -> supported_fmt k f = true -> In f int_formats.
Proof.
  intros Hk. unfold supported_fmt. destruct (kind_class k); [| |congruence];
    intro H; repeat (apply orb_true_iff in H as [H|H]); apply N.eqb_eq in H; subst f; cbn; tauto.
Qed.

Lemma canon_elem_int k x : kind_class k <> CFloat -> canon_elem k x = x.
Proof. destruct k; cbn; intro H; try reflexivity; congruence. Qed.

Theorem int_array_roundtrip fmt_g parse_dec k f xs :
  kind_class k <> CFloat -> supported_fmt k f = true -> elems_wf k xs ->
  roundtrip fmt_g parse_dec k f xs = Ok (k, map (canon_elem k) xs).
Proof.
  intros Hk Hf Hwf.
  pose proof int_pairs_sweep as Hsweep. rewrite forallb_forall in Hsweep.
  specialize (Hsweep k (int_kind_in k Hk)). rewrite forallb_forall in Hsweep.
  specialize (Hsweep f (int_format_in k f Hk Hf)). unfold int_pair_ok in Hsweep.
  apply andb_true_iff in Hsweep as [Hlen Hrest]. apply andb_true_iff in Hlen as [Hl1 Hl2].
  apply N.ltb_lt in Hl1, Hl2. cbv zeta in Hrest.
  set (h := nth (N.to_nat f) (headers_of k) []) in *.
  destruct (split_header h) as [[h' [|? ?]]|] eqn:Esplit; try discriminate.
  destruct (find_header h) as [[k' m]|] eqn:Efind; try discriminate.
  destruct (parse_directive (nth (N.to_nat f) (verbs_of k) [])) as [|zero w c|] eqn:Edir; try discriminate.
  apply andb_true_iff in Hrest as [Hhk Hverb]. apply andb_true_iff in Hhk as [Hh' Hk'].
  apply bytes_eqb_eq in Hh'. apply kind_eqb_eq in Hk'. subst h' k'.
  destruct (verb_base c) as [base|] eqn:Ebase; [|discriminate].
  apply andb_true_iff in Hverb as [Hmb Hzw].
  assert (Hzw' : zero = true \/ w = 0).
  { apply orb_true_iff in Hzw as [Hz|Hw]; [left; exact Hz|right; apply N.eqb_eq; exact Hw]. }
  apply (array_roundtrip_gen fmt_g parse_dec k f m xs
           (fun x => go_int_text (is_signed k) (kind_bits k) x base zero w)); try assumption.
  intros x Hx. unfold elems_wf in Hwf. rewrite Forall_forall in Hwf. specialize (Hwf x Hx).
  destruct (int_elem_roundtrip k m base zero w x Hk Hwf Hmb Hzw') as [Hread Hrun].
  rewrite (canon_elem_int k x Hk). split; [|split; [|exact Hrun]].
  - unfold print_elem. destruct (kind_class k) eqn:Ek; [| |congruence];
      rewrite Edir; unfold go_sprintf_int, is_signed; rewrite Ebase, Ek; reflexivity.
  - unfold read_elem. destruct (kind_class k) eqn:Ek2; [exact Hread|exact Hread|congruence].
Qed.

(* ------------------------------------------------------------------ *)
(** * Correct rounding is the identity on representable values *)

Definition ff_qmin (F : ffmt) : Z := (ff_emin F - (Z.of_N (ff_p F) - 1))%Z.

Definition canonical (F : ffmt) (m0 : N) (q0 : Z) : Prop :=
  (2 ^ (ff_p F - 1) <= m0 < 2 ^ ff_p F /\ (ff_qmin F <= q0)%Z) \/
  (0 < m0 < 2 ^ (ff_p F - 1) /\ q0 = ff_qmin F).

Lemma pow2_pos k : 0 < 2 ^ k.
Proof. apply N.neq_0_lt_0. apply N.pow_nonzero. discriminate. Qed.

Lemma log2_mul_pow2 x k : x <> 0 -> N.log2 (x * 2 ^ k) = N.log2 x + k.
Proof. intro H. rewrite N.log2_mul_pow2 by lia. lia. Qed.

Lemma canonical_log2 F m0 q0 : 1 <= ff_p F -> canonical F m0 q0 ->
  m0 <> 0 /\ m0 < 2 ^ ff_p F /\
  Z.max (Z.of_N (N.log2 m0) + q0 - (Z.of_N (ff_p F) - 1)) (ff_qmin F) = q0.
Proof.
  intros Hp [[[H1 H2] Hq] | [[H1 H2] Hq]].
  - assert (0 < 2 ^ (ff_p F - 1)) by apply pow2_pos.
    assert (E : N.log2 m0 = ff_p F - 1).
    { apply N.log2_unique; [lia|]. split; [exact H1|]. replace (N.succ (ff_p F - 1)) with (ff_p F) by lia. exact H2. }
    repeat split; try lia.
  - assert (Hlt : N.log2 m0 < ff_p F - 1) by (apply N.log2_lt_pow2; lia).
    assert (2 ^ (ff_p F - 1) <= 2 ^ ff_p F) by (apply N.pow_le_mono_r; lia).
    repeat split; try lia.
Qed.

Lemma round_bin_exact F M E m0 q0 a b :
  1 <= ff_p F -> canonical F m0 q0 ->
  M * 2 ^ a = m0 * 2 ^ b -> (E - Z.of_N a = q0 - Z.of_N b)%Z ->
  round_bin F M E = (m0, q0).
Proof.
  intros Hp Hcan Hval Hexp.
  destruct (canonical_log2 F m0 q0 Hp Hcan) as (Hm0 & Hmlt & Hmax).
  assert (HM0 : M <> 0).
  { intro E0. rewrite E0 in Hval. pose proof (pow2_pos b). rewrite N.mul_0_l in Hval. symmetry in Hval.
    apply N.eq_mul_0 in Hval. lia. }
  unfold round_bin. fold (ff_qmin F).
  destruct (N.le_gt_cases b a) as [Hba|Hab].
  - (* E >= q0: the mantissa is shifted left *)
    set (d := a - b).
    assert (Em0 : m0 = M * 2 ^ d).
    { replace a with (d + b) in Hval by lia. rewrite N.pow_add_r, N.mul_assoc in Hval.
      apply N.mul_cancel_r in Hval; [lia|]. pose proof (pow2_pos b). lia. }
    assert (El : N.log2 m0 = N.log2 M + d) by (rewrite Em0; apply log2_mul_pow2; exact HM0).
    replace (Z.of_N (N.log2 M) + E - (Z.of_N (ff_p F) - 1))%Z
      with (Z.of_N (N.log2 m0) + q0 - (Z.of_N (ff_p F) - 1))%Z by lia.
    rewrite Hmax.
    replace (q0 - E <=? 0)%Z with true by (symmetry; apply Z.leb_le; lia).
    replace (Z.to_N (- (q0 - E))) with d by lia.
    rewrite <- Em0.
    replace (m0 =? 2 ^ ff_p F) with false by (symmetry; apply N.eqb_neq; lia).
    reflexivity.
  - (* E < q0: trailing zero bits are shifted out *)
    set (d := b - a).
    assert (EM : M = m0 * 2 ^ d).
    { replace b with (d + a) in Hval by lia. rewrite N.pow_add_r, N.mul_assoc in Hval.
      apply N.mul_cancel_r in Hval; [lia|]. pose proof (pow2_pos a). lia. }
    assert (El : N.log2 M = N.log2 m0 + d) by (rewrite EM; apply log2_mul_pow2; exact Hm0).
    replace (Z.of_N (N.log2 M) + E - (Z.of_N (ff_p F) - 1))%Z
      with (Z.of_N (N.log2 m0) + q0 - (Z.of_N (ff_p F) - 1))%Z by lia.
    rewrite Hmax.
    replace (q0 - E <=? 0)%Z with false by (symmetry; apply Z.leb_gt; lia).
    replace (Z.to_N (q0 - E)) with d by lia.
    unfold rne_shift. rewrite EM.
    assert (Hd : 2 ^ d <> 0) by (pose proof (pow2_pos d); lia).
    rewrite N.div_mul by exact Hd. rewrite N.mod_mul by exact Hd.
    replace (0 <? 2 ^ (d - 1)) with true by (symmetry; apply N.ltb_lt; apply pow2_pos).
    replace (m0 =? 2 ^ ff_p F) with false by (symmetry; apply N.eqb_neq; lia).
    reflexivity.
Qed.

(* a finite non-zero magnitude pattern with exponent field ef and mantissa field mf *)
Lemma round_assemble_exact F ef mf M E a c :
  1 <= ff_p F -> mf < 2 ^ (ff_p F - 1) -> ef < 2 ^ ff_expbits F - 1 -> (ef <> 0 \/ mf <> 0) ->
  M * 2 ^ a = (if ef =? 0 then mf else (2 ^ (ff_p F - 1) + mf) * 2 ^ (ef - 1)) * 2 ^ c ->
  (E - Z.of_N a = ff_qmin F - Z.of_N c)%Z ->
  (let (m, q) := round_bin F M E in assemble F m q) = Some (ef * 2 ^ (ff_p F - 1) + mf).
Proof.
  intros Hp Hmf Hef Hnz Hval Hexp.
  set (P := 2 ^ (ff_p F - 1)) in *.
  assert (HP2 : 2 ^ ff_p F = 2 * P) by (subst P; rewrite <- N.pow_succ_r'; f_equal; lia).
  assert (HPpos : 0 < P) by apply pow2_pos.
  destruct (N.eqb_spec ef 0) as [E0|N0].
  - (* subnormal *)
    assert (Hcan : canonical F mf (ff_qmin F)) by (right; fold P; split; [lia|reflexivity]).
    rewrite (round_bin_exact F M E mf (ff_qmin F) a c Hp Hcan Hval Hexp).
    unfold assemble. fold P. replace (mf <? P) with true by (symmetry; apply N.ltb_lt; exact Hmf).
    f_equal. lia.
  - (* normal *)
    assert (Hcan : canonical F (P + mf) (ff_qmin F + Z.of_N (ef - 1))).
    { left. fold P. split; lia. }
    rewrite (round_bin_exact F M E (P + mf) (ff_qmin F + Z.of_N (ef - 1)) a (ef - 1 + c) Hp Hcan).
    + unfold assemble. fold P. replace (P + mf <? P) with false by (symmetry; apply N.ltb_ge; lia).
      unfold ff_qmin.
      replace (ff_emin F - (Z.of_N (ff_p F) - 1) + Z.of_N (ef - 1) + (Z.of_N (ff_p F) - 1) - ff_emin F + 1)%Z
        with (Z.of_N ef) by lia.
      replace (Z.of_N (2 ^ ff_expbits F - 1) <=? Z.of_N ef)%Z with false by (symmetry; apply Z.leb_gt; lia).
      f_equal. rewrite N2Z.id. lia.
    + rewrite Hval. rewrite N.pow_add_r. lia.
    + lia.
Qed.

(* ------------------------------------------------------------------ *)
(** * Scanning hexadecimal float text *)

Definition hex_text (neg : bool) (ip fp : bytes) (eo : option (bool * bytes)) : bytes :=
  (if neg then [ch_minus] else []) ++ ip ++
  (match fp with [] => [] | _ => ch_dot :: fp end) ++
  (match eo with None => [] | Some (eneg, ed) => 112 :: (if eneg : bool then ch_minus else ch_plus) :: ed end).

Definition hexd (c : N) : Prop := is_digit_of 16 c = true.

Lemma hexd_plain c : hexd c -> plain_char c.
Proof. apply is_digit_of_16_range. Qed.

Lemma hexd_isdu l : Forall hexd l -> forallb (fun c => is_digit_of 16 c || (c =? ch_us)) l = true.
Proof.
  intro H. apply Forall_forallb. eapply Forall_impl; [|exact H]. intros c Hc. unfold hexd in Hc. rewrite Hc. reflexivity.
Qed.

Lemma exp_part_head eo :
  match (match eo with None => [] | Some (eneg, ed) => 112 :: (if eneg : bool then ch_minus else ch_plus) :: ed end) with
  | [] => True
  | c :: _ => (fun c => is_digit_of 16 c || (c =? ch_us)) c = false
  end.
Proof. destruct eo as [[eneg ed]|]; [reflexivity|exact I]. Qed.

(* scan_float for un-prefixed hexadecimal text, after the sign *)
Definition scan_hex_tail (neg : bool) (s2 : bytes) : option fnum :=
  let isdu := fun c => is_digit_of 16 c || (c =? ch_us) in
  let (ip, s3) := span isdu s2 in
  if negb (digits_ok (is_digit_of 16) ip) then None else
  let '(fp, s4, fok) :=
    match s3 with
    | c :: r => if c =? ch_dot then let (fp, s4) := span isdu r in (fp, s4, digits_ok (is_digit_of 16) fp)
                else ([], s3, true)
    | [] => ([], s3, true)
    end in
  if negb fok then None else
  match s4 with
  | [] => Some {| fn_neg := neg; fn_int := ip; fn_frac := fp; fn_exp := None |}
  | c :: r =>
      if lower c =? 112 then
        let '(eneg, r1) := match r with
                           | c' :: r' => if c' =? ch_minus then (true, r')
                                         else if c' =? ch_plus then (false, r') else (false, r)
                           | [] => (false, r)
                           end in
        if digits_ok is_dec r1
        then Some {| fn_neg := neg; fn_int := ip; fn_frac := fp; fn_exp := Some (eneg, r1) |}
        else None
      else None
  end.

Lemma scan_float_hex_neg s : scan_float true false (ch_minus :: s) = scan_hex_tail true s.
Proof. reflexivity. Qed.

Lemma scan_float_hex_pos c s : (c =? ch_minus) = false -> scan_float true false (c :: s) = scan_hex_tail false (c :: s).
Proof. intro H. unfold scan_float. rewrite H. reflexivity. Qed.

Lemma scan_hex_text neg ip fp eo :
  Forall hexd ip -> ip <> [] -> Forall hexd fp ->
  (forall eneg ed, eo = Some (eneg, ed) -> Forall (fun c => is_dec c = true) ed /\ ed <> []) ->
  scan_float true false (hex_text neg ip fp eo) =
  Some {| fn_neg := neg; fn_int := ip; fn_frac := fp; fn_exp := eo |}.
Proof.
  intros Hip Hipne Hfp Heo.
  set (X := match eo with None => [] | Some (eneg, ed) => 112 :: (if eneg : bool then ch_minus else ch_plus) :: ed end).
  set (R := (match fp with [] => [] | _ => ch_dot :: fp end) ++ X).
  assert (Htext : hex_text neg ip fp eo = (if neg then [ch_minus] else []) ++ ip ++ R) by reflexivity.
  rewrite Htext. clear Htext.
  assert (Hsign : scan_float true false ((if neg then [ch_minus] else []) ++ ip ++ R) = scan_hex_tail neg (ip ++ R)).
  { destruct neg; cbn [app]; [apply scan_float_hex_neg|].
    destruct ip as [|c ip']; [congruence|]. cbn [app].
    assert (Hc : plain_char c) by (apply hexd_plain; inversion Hip; assumption).
    apply scan_float_hex_pos. apply (plain_not_sign c Hc). }
  rewrite Hsign. unfold scan_hex_tail.
  set (isdu := fun c => is_digit_of 16 c || (c =? ch_us)).
  (* integer part *)
  assert (HRhead : match R with [] => True | c :: _ => isdu c = false end).
  { subst R. destruct fp as [|f0 fp']; cbn [app]; [apply exp_part_head|reflexivity]. }
  rewrite (span_all isdu ip R (hexd_isdu ip Hip) HRhead).
  rewrite (digits_ok_all (is_digit_of 16) ip Hipne Hip). cbn [negb].
  (* fraction and exponent *)
  assert (HX : (match X with
                | [] => Some {| fn_neg := neg; fn_int := ip; fn_frac := fp; fn_exp := None |}
                | c :: r =>
                    if lower c =? 112
                    then let '(eneg, r1) := match r with
                                            | c' :: r' => if c' =? ch_minus then (true, r')
                                                          else if c' =? ch_plus then (false, r') else (false, r)
                                            | [] => (false, r)
                                            end in
                         if digits_ok is_dec r1
                         then Some {| fn_neg := neg; fn_int := ip; fn_frac := fp; fn_exp := Some (eneg, r1) |}
                         else None
                    else None
                end) = Some {| fn_neg := neg; fn_int := ip; fn_frac := fp; fn_exp := eo |}).
  { subst X. destruct eo as [[eneg ed]|]; [|reflexivity].
    destruct (Heo eneg ed eq_refl) as [Hed Hedne].
    change (lower 112 =? 112) with true. cbv iota.
    destruct eneg; cbn; rewrite (digits_ok_all is_dec ed Hedne Hed); reflexivity. }
  subst R. destruct fp as [|f0 fp'].
  - cbn [app]. destruct X as [|c r] eqn:EX.
    + exact HX.
    + assert (Ec : c = 112) by (subst X; destruct eo as [[? ?]|]; congruence).
      subst c. change (112 =? ch_dot) with false. cbv iota. exact HX.
  - cbn [app]. rewrite N.eqb_refl.
    pose proof (span_all isdu (f0 :: fp') X (hexd_isdu _ Hfp) (exp_part_head eo)) as Hsp.
    cbn [app] in Hsp. rewrite Hsp.
    rewrite (digits_ok_all (is_digit_of 16) (f0 :: fp') ltac:(discriminate) Hfp). cbn [negb].
    exact HX.
Qed.

Lemma lower_plain c : plain_char c -> (48 <= lower c <= 57) \/ (97 <= lower c <= 102).
Proof.
  unfold plain_char, lower. intro H.
  destruct (N.leb_spec 65 c), (N.leb_spec c 90); cbn [andb]; lia.
Qed.

Lemma strip_us_plain s : Forall plain_char s -> strip_us s = s.
Proof.
  induction s as [|c s IH]; intro H; [reflexivity|]. inversion H as [|? ? Hc Hs]; subst.
  unfold strip_us in *. cbn [filter].
  replace (c =? ch_us) with false by (symmetry; apply N.eqb_neq; unfold plain_char, ch_us in *; lia).
  cbn [negb]. rewrite (IH Hs). reflexivity.
Qed.

Lemma hexd_Forall_plain l : Forall hexd l -> Forall plain_char l.
Proof. intro H. eapply Forall_impl; [|exact H]. exact hexd_plain. Qed.

Lemma neqb_of (a b : N) : a <> b -> (a =? b) = false.
Proof. apply N.eqb_neq. Qed.

Lemma hex_text_not_special neg ip fp eo : Forall hexd ip -> ip <> [] ->
  let t := map lower (hex_text neg ip fp eo) in
  bytes_eqb t t_nan = false /\ bytes_eqb t t_snan = false /\
  bytes_eqb t t_inf = false /\ bytes_eqb t t_ninf = false.
Proof.
  intros Hip Hne. destruct ip as [|c ip']; [congruence|].
  assert (Hc : plain_char c) by (apply hexd_plain; inversion Hip; assumption).
  pose proof (lower_plain c Hc) as Hl.
  unfold hex_text, t_nan, t_snan, t_inf, t_ninf, bytes_eqb.
  destruct neg; cbn [app map list_eqb]; change (lower ch_minus) with 45.
  - change (45 =? 110) with false. change (45 =? 115) with false. change (45 =? 105) with false.
    change (45 =? 45) with true. cbn [andb]. rewrite (neqb_of (lower c) 105) by lia. repeat split; reflexivity.
  - rewrite (neqb_of (lower c) 110), (neqb_of (lower c) 115), (neqb_of (lower c) 105), (neqb_of (lower c) 45) by lia.
    repeat split; reflexivity.
Qed.

(* value of the exponent field of a scanned number *)
Definition exp_value (eo : option (bool * bytes)) : Z :=
  match eo with
  | Some (eneg, ds) => let a := Z.of_N (exp_accum 0 (strip_us ds)) in if eneg then (- a)%Z else a
  | None => 0%Z
  end.

Section ReadHexText.
  Variable parse_dec : N -> bytes -> option N.

  Lemma read_hex_text k neg ip fp eo M :
    kind_class k = CFloat ->
    Forall hexd ip -> ip <> [] -> Forall hexd fp ->
    (forall eneg ed, eo = Some (eneg, ed) -> Forall (fun c => is_dec c = true) ed /\ ed <> []) ->
    of_digits 16 (ip ++ fp) = Some M ->
    read_elem parse_dec k MHex (hex_text neg ip fp eo) =
    finish_float k neg (all_zero_digits ip && all_zero_digits fp)
      (let (m, q) := round_bin (float_ffmt k) M (exp_value eo - 4 * Z.of_nat (length fp))%Z in
       assemble (float_ffmt k) m q).
  Proof.
    intros Hk Hip Hne Hfp Heo HM.
    unfold read_elem. rewrite Hk. unfold read_float_elem.
    destruct (hex_text_not_special neg ip fp eo Hip Hne) as (H1 & H2 & H3 & H4).
    cbv zeta in H1, H2, H3, H4. rewrite H1, H2, H3, H4.
    rewrite (scan_hex_text neg ip fp eo Hip Hne Hfp Heo).
    unfold read_hex_float, parse_hex_mag, fnum_is_zero. cbn [fn_neg fn_int fn_frac fn_exp].
    rewrite (strip_us_plain ip (hexd_Forall_plain ip Hip)), (strip_us_plain fp (hexd_Forall_plain fp Hfp)).
    rewrite HM. reflexivity.
  Qed.
End ReadHexText.

(* ------------------------------------------------------------------ *)
(** * strconv 'x' formatting *)

Lemma dec_char_ok d : d < 10 -> is_dec (48 + d) = true.
Proof. intro H. unfold is_dec. apply andb_true_iff. split; apply N.leb_le; lia. Qed.

Lemma fmtx_exp_digits_spec e : e < 10000 ->
  Forall (fun c => is_dec c = true) (fmtx_exp_digits e) /\ fmtx_exp_digits e <> [] /\
  exp_accum 0 (fmtx_exp_digits e) = e.
Proof.
  intro He. unfold fmtx_exp_digits.
  destruct (N.ltb_spec e 100) as [H1|H1]; [|destruct (N.ltb_spec e 1000) as [H2|H2]].
  - repeat split; [|discriminate|].
    + repeat constructor; apply dec_char_ok; dlia.
    + cbn [exp_accum]. change (0 <? 10000) with true. cbv iota.
      replace (0 * 10 + (48 + e / 10 - 48)) with (e / 10) by lia.
      replace (e / 10 <? 10000) with true by (symmetry; apply N.ltb_lt; dlia). dlia.
  - repeat split; [|discriminate|].
    + repeat constructor; apply dec_char_ok; dlia.
    + cbn [exp_accum]. change (0 <? 10000) with true. cbv iota.
      replace (0 * 10 + (48 + e / 100 - 48)) with (e / 100) by lia.
      replace (e / 100 <? 10000) with true by (symmetry; apply N.ltb_lt; dlia).
      replace (e / 100 * 10 + (48 + (e / 10) mod 10 - 48)) with (e / 10) by dlia.
      replace (e / 10 <? 10000) with true by (symmetry; apply N.ltb_lt; dlia). dlia.
  - repeat split; [|discriminate|].
    + repeat constructor; apply dec_char_ok; dlia.
    + cbn [exp_accum]. change (0 <? 10000) with true. cbv iota.
      replace (0 * 10 + (48 + e / 1000 - 48)) with (e / 1000) by lia.
      replace (e / 1000 <? 10000) with true by (symmetry; apply N.ltb_lt; dlia).
      replace (e / 1000 * 10 + (48 + (e / 100) mod 10 - 48)) with (e / 100) by dlia.
      replace (e / 100 <? 10000) with true by (symmetry; apply N.ltb_lt; dlia).
      replace (e / 100 * 10 + (48 + (e / 10) mod 10 - 48)) with (e / 10) by dlia.
      replace (e / 10 <? 10000) with true by (symmetry; apply N.ltb_lt; dlia). dlia.
Qed.

Lemma testbit60 mant : mant < 2 ^ 61 -> N.testbit mant 60 = (2 ^ 60 <=? mant).
Proof.
  intro H. rewrite N.testbit_eqb.
  assert (E61 : 2 ^ 61 = 2 * 2 ^ 60) by (rewrite <- N.pow_succ_r'; reflexivity).
  pose proof (pow2_pos 60) as Hpos.
  destruct (N.leb_spec (2 ^ 60) mant) as [Hle|Hlt].
  - assert (mant / 2 ^ 60 = 1).
    { symmetry. apply (N.div_unique mant (2 ^ 60) 1 (mant - 2 ^ 60)); lia. }
    rewrite H0. reflexivity.
  - rewrite N.div_small by exact Hlt. reflexivity.
Qed.

Lemma fmtx_norm_spec fuel : forall mant exp,
  mant <> 0 -> mant < 2 ^ 61 -> 2 ^ 60 <= mant * 2 ^ N.of_nat fuel ->
  exists s, fmtx_norm fuel mant exp = (mant * 2 ^ s, (exp - Z.of_N s)%Z) /\
            2 ^ 60 <= mant * 2 ^ s /\ mant * 2 ^ s < 2 ^ 61.
Proof.
  induction fuel as [|f IH]; intros mant exp H0 Hlt Hge.
  - exists 0. cbn [fmtx_norm]. change (N.of_nat 0) with 0 in Hge. rewrite N.pow_0_r, N.mul_1_r in *.
    split; [f_equal; lia|split; assumption].
  - cbn [fmtx_norm]. replace (mant =? 0) with false by (symmetry; apply N.eqb_neq; exact H0).
    cbn [orb]. rewrite (testbit60 mant Hlt).
    assert (E61 : 2 ^ 61 = 2 * 2 ^ 60) by (rewrite <- N.pow_succ_r'; reflexivity).
    destruct (N.leb_spec (2 ^ 60) mant) as [Hle|Hlt60].
    + exists 0. rewrite N.pow_0_r, N.mul_1_r. split; [f_equal; lia|split; assumption].
    + destruct (IH (mant * 2) (exp - 1)%Z) as (s & Es & Hs1 & Hs2); try lia.
      * rewrite Nat2N.inj_succ, N.pow_succ_r' in Hge. lia.
      * exists (N.succ s). rewrite N.pow_succ_r'. rewrite Es.
        replace (mant * 2 * 2 ^ s) with (mant * (2 * 2 ^ s)) in * by lia.
        split; [f_equal; lia|split; assumption].
Qed.

Lemma fmtx_frac_spec fuel : forall s t a,
  s + 4 * N.of_nat fuel = 64 -> t < 2 ^ (4 * N.of_nat fuel) ->
  let ds := fmtx_frac fuel (t * 2 ^ s) in
  Forall hexd ds /\
  exists v, of_digits_from 16 a ds = Some (a * 16 ^ N.of_nat (length ds) + v) /\
            v * 2 ^ 64 = (t * 2 ^ s) * 16 ^ N.of_nat (length ds).
Proof.
  induction fuel as [|f IH]; intros s t a Hs Ht ds; subst ds.
  - cbn [fmtx_frac]. split; [constructor|]. exists 0. cbn [of_digits_from length].
    change (N.of_nat 0) with 0 in *. rewrite N.mul_0_r, N.pow_0_r in *. replace t with 0 by lia.
    split; [f_equal; lia|lia].
  - cbn [fmtx_frac].
    destruct (N.eqb_spec (t * 2 ^ s) 0) as [E0|N0].
    + split; [constructor|]. exists 0. cbn [of_digits_from length]. change (N.of_nat 0) with 0.
      rewrite N.pow_0_r. rewrite E0. split; [f_equal; lia|lia].
    + set (F4 := 4 * N.of_nat f) in *.
      assert (HF : 4 * N.of_nat (S f) = F4 + 4) by (subst F4; lia).
      rewrite HF in Ht, Hs.
      assert (E60 : 2 ^ 60 = 2 ^ F4 * 2 ^ s) by (rewrite <- N.pow_add_r; f_equal; lia).
      assert (E64 : 2 ^ 64 = 2 ^ F4 * 2 ^ (s + 4)) by (rewrite <- N.pow_add_r; f_equal; lia).
      assert (E16 : 2 ^ (s + 4) = 2 ^ s * 16) by (rewrite N.pow_add_r; reflexivity).
      assert (EF4 : 2 ^ (F4 + 4) = 2 ^ F4 * 16) by (rewrite N.pow_add_r; reflexivity).
      pose proof (pow2_pos F4) as HpF. pose proof (pow2_pos s) as Hps.
      set (d := t / 2 ^ F4). set (t' := t mod 2 ^ F4).
      assert (Hd : d < 16) by (subst d; apply N.div_lt_upper_bound; lia).
      assert (Ht' : t' < 2 ^ F4) by (subst t'; apply N.mod_lt; lia).
      assert (Et : t = 2 ^ F4 * d + t') by (subst d t'; apply N.div_mod; lia).
      assert (Ediv : t * 2 ^ s / 2 ^ 60 = d).
      { rewrite E60. rewrite N.div_mul_cancel_r by lia. reflexivity. }
      assert (Emod : (t * 2 ^ s * 16) mod 2 ^ 64 = t' * 2 ^ (s + 4)).
      { rewrite E64. replace (t * 2 ^ s * 16) with (t * 2 ^ (s + 4)) by lia.
        rewrite N.mul_mod_distr_r by lia. reflexivity. }
      rewrite Ediv, Emod. rewrite (N.mod_small d 16) by exact Hd.
      destruct (IH (s + 4) t' (a * 16 + d)) as (Hall & v' & Hv1 & Hv2); [subst F4; lia|exact Ht'|].
      set (ds' := fmtx_frac f (t' * 2 ^ (s + 4))) in *.
      split.
      * constructor; [|exact Hall]. apply is_digit_of_digit_char; lia.
      * exists (d * 16 ^ N.of_nat (length ds') + v').
        cbn [of_digits_from length]. rewrite digit_val_digit_char by lia.
        replace (d <? 16) with true by (symmetry; apply N.ltb_lt; exact Hd).
        rewrite Hv1. rewrite Nat2N.inj_succ, N.pow_succ_r'. split; [f_equal; lia|].
        rewrite N.mul_add_distr_r, Hv2. clearbody d t'. rewrite E64, E16. subst t. ring.
Qed.

Lemma has_prefix_app q : forall y z, (length q <= length y)%nat -> has_prefix q (y ++ z) = has_prefix q y.
Proof.
  induction q as [|x q IH]; intros y z H; [reflexivity|].
  destruct y as [|c y]; [cbn [length] in H; lia|]. cbn [app has_prefix].
  rewrite IH by (cbn [length] in H; lia). reflexivity.
Qed.

Lemma has_suffix_app p a x : (length p <= length x)%nat -> has_suffix p (a ++ x) = has_suffix p x.
Proof.
  intro H. unfold has_suffix. rewrite rev_app_distr. apply has_prefix_app. rewrite !rev_length. exact H.
Qed.

Lemma firstn_app_drop {A} (a x : list A) : firstn (length (a ++ x) - length x) (a ++ x) = a.
Proof.
  rewrite app_length. replace (length a + length x - length x)%nat with (length a) by lia.
  rewrite firstn_app. rewrite firstn_all. replace (length a - length a)%nat with 0%nat by lia.
  cbn [firstn]. apply app_nil_r.
Qed.

(* the exponent part of fmt_x and what WriteFloatHexNoPrefix makes of it *)
Definition exp_part (en : Z) : bytes :=
  [112] ++ (if (en <? 0)%Z then [ch_minus] else [ch_plus]) ++ fmtx_exp_digits (Z.abs_N en).

Definition exp_opt (en : Z) : option (bool * bytes) :=
  if (en =? 0)%Z then None else Some ((en <? 0)%Z, fmtx_exp_digits (Z.abs_N en)).

Lemma exp_part_suffix en : (Z.abs en < 10000)%Z ->
  (4 <= length (exp_part en))%nat /\
  has_suffix t_p00 (exp_part en) = (en =? 0)%Z /\
  (en = 0%Z -> exp_part en = t_p00).
Proof.
  intro Hen. unfold exp_part. set (e := Z.abs_N en). assert (He : e < 10000) by lia.
  assert (Hsg : forall sg, sg = ch_minus \/ sg = ch_plus -> True) by trivial.
  split; [|split].
  - unfold fmtx_exp_digits. destruct (e <? 100); [|destruct (e <? 1000)]; destruct (en <? 0)%Z; cbn; lia.
  - destruct (Z.eqb_spec en 0) as [E0|N0].
    + subst en. reflexivity.
    + assert (He0 : e <> 0) by lia.
      unfold fmtx_exp_digits, has_suffix, t_p00.
      destruct (N.ltb_spec e 100) as [H1|H1]; [|destruct (N.ltb_spec e 1000) as [H2|H2]];
        destruct (en <? 0)%Z; cbn [app rev has_prefix ch_minus ch_plus].
      all: try (rewrite (neqb_of 43 (48 + _)) by lia; cbn [andb]; rewrite ?andb_false_r; reflexivity).
      all: try (rewrite (neqb_of 112 (48 + _)) by dlia; cbn [andb]; rewrite ?andb_false_r; reflexivity).
      all: try (change (43 =? 45) with false; cbn [andb]; rewrite ?andb_false_r; reflexivity).
      all: destruct (N.eqb_spec 48 (48 + e mod 10)) as [Ea|Na]; [|reflexivity];
           destruct (N.eqb_spec 48 (48 + e / 10)) as [Eb|Nb]; [|reflexivity]; exfalso; dlia.
  - intros ->. reflexivity.
Qed.

Lemma exp_opt_value en : (Z.abs en < 10000)%Z ->
  exp_value (exp_opt en) = en /\
  (forall eneg ed, exp_opt en = Some (eneg, ed) -> Forall (fun c => is_dec c = true) ed /\ ed <> []).
Proof.
  intro Hen. unfold exp_opt. destruct (Z.eqb_spec en 0) as [E0|N0].
  - split; [cbn; lia|discriminate].
  - destruct (fmtx_exp_digits_spec (Z.abs_N en)) as (Hd & Hne & Hacc); [lia|].
    split.
    + unfold exp_value. rewrite strip_us_plain.
      * rewrite Hacc. destruct (Z.ltb_spec en 0); lia.
      * eapply Forall_impl; [|exact Hd]. intros c Hc. unfold is_dec in Hc. apply andb_true_iff in Hc as [H1 H2].
        apply N.leb_le in H1, H2. unfold plain_char. lia.
    + intros eneg ed [= <- <-]. split; assumption.
Qed.

Lemma strip_prefix_shape (neg : bool) b0 B :
  let used := (if neg then [ch_minus] else []) ++ 48 :: 120 :: b0 :: B in
  match used with
  | c0 :: _ :: _ :: r => if c0 =? ch_minus then ch_minus :: r else skipn 2 used
  | _ => skipn 2 used
  end = (if neg then [ch_minus] else []) ++ b0 :: B.
Proof. destruct neg; reflexivity. Qed.

(* the strconv-'x' branch of WriteFloatHexNoPrefix *)
Definition hex_frac_text (b : N) : bytes :=
  let used := fmt_x b in
  let used := if has_suffix t_p00 used then firstn (length used - 4) used else used in
  match used with
  | c0 :: _ :: _ :: r => if c0 =? ch_minus then ch_minus :: r else skipn 2 used
  | _ => skipn 2 used
  end.

Lemma f64_fields_lt b : f64_expo b < 2048 /\ f64_mant b < p2_52.
Proof. unfold f64_expo, f64_mant, p2_52. split; apply N.mod_lt; discriminate. Qed.

(* mantissa/exponent view of a finite non-zero float64 *)
Lemma f64_parts_mag b :
  f64_expo b <> 2047 -> (f64_expo b <> 0 \/ f64_mant b <> 0) ->
  exists mant0 exp0,
    f64_parts b = (mant0, exp0) /\ mant0 <> 0 /\ mant0 < 2 ^ 53 /\ (-1022 <= exp0 <= 1023)%Z /\
    f64_mag b = Some (mant0 * 2 ^ Z.to_N (exp0 + 1022)).
Proof.
  intros Hfin Hnz. destruct (f64_fields_lt b) as [He Hm]. unfold f64_parts, f64_mag.
  assert (E53 : 2 ^ 53 = 2 * p2_52) by reflexivity.
  replace (f64_expo b =? 2047) with false by (symmetry; apply N.eqb_neq; exact Hfin).
  destruct (N.eqb_spec (f64_expo b) 0) as [E0|N0].
  - exists (f64_mant b), (-1022)%Z. repeat split; try lia.
    change (Z.to_N (-1022 + 1022)) with 0. rewrite N.pow_0_r, N.mul_1_r. reflexivity.
  - exists (f64_mant b + p2_52), (Z.of_N (f64_expo b) - 1023)%Z.
    assert (Hp : p2_52 = 4503599627370496) by reflexivity.
    repeat split; try lia.
    replace (Z.to_N (Z.of_N (f64_expo b) - 1023 + 1022)) with (f64_expo b - 1) by lia.
    rewrite (N.add_comm (f64_mant b)). reflexivity.
Qed.

Lemma hex_frac_text_spec b mag :
  f64_expo b <> 2047 -> (f64_expo b <> 0 \/ f64_mant b <> 0) -> f64_mag b = Some mag ->
  exists ds en M a c,
    hex_frac_text b = hex_text (f64_sign b =? 1) [49] ds (exp_opt en) /\
    Forall hexd ds /\ (Z.abs en < 10000)%Z /\
    of_digits 16 ([49] ++ ds) = Some M /\
    M * 2 ^ a = mag * 2 ^ c /\
    (en - 4 * Z.of_nat (length ds) - Z.of_N a = -1074 - Z.of_N c)%Z.
Proof.
  intros Hfin Hnz Hmag.
  destruct (f64_parts_mag b Hfin Hnz) as (mant0 & exp0 & Eparts & Hm0 & Hm53 & Hexp0 & Emag).
  rewrite Emag in Hmag. injection Hmag as Hmag. subst mag.
  assert (E61 : 2 ^ 61 = 2 ^ 53 * 2 ^ 8) by reflexivity.
  assert (E61' : 2 ^ 61 = 2 * 2 ^ 60) by reflexivity.
  assert (E64 : 2 ^ 64 = 16 * 2 ^ 60) by reflexivity.
  pose proof (pow2_pos 60) as Hp60.
  destruct (fmtx_norm_spec 64 (mant0 * 2 ^ 8) exp0) as (s & Enorm & Hn1 & Hn2).
  { pose proof (pow2_pos 8). lia. }
  { rewrite E61. apply N.mul_lt_mono_pos_r; [apply pow2_pos|exact Hm53]. }
  { change (N.of_nat 64) with 64. rewrite <- N.mul_assoc, <- N.pow_add_r. change (8 + 64) with (60 + 12).
    rewrite N.pow_add_r. pose proof (pow2_pos 12). nia. }
  set (mn := mant0 * 2 ^ 8 * 2 ^ s) in *. set (en := (exp0 - Z.of_N s)%Z) in *.
  assert (Hs : s < 53).
  { destruct (N.lt_ge_cases s 53) as [H|H]; [exact H|exfalso].
    assert (2 ^ 53 <= 2 ^ s) by (apply N.pow_le_mono_r; lia).
    assert (2 ^ 8 * 2 ^ 53 <= mn) by (subst mn; pose proof (pow2_pos 8); nia).
    change (2 ^ 8 * 2 ^ 53) with (2 ^ 61) in H1. lia. }
  assert (Hlead : (mn / 2 ^ 60) mod 2 = 1).
  { replace (mn / 2 ^ 60) with 1; [reflexivity|]. apply (N.div_unique mn (2 ^ 60) 1 (mn - 2 ^ 60)); lia. }
  set (fr := (mn * 16) mod 2 ^ 64).
  assert (Efr : fr = (mn - 2 ^ 60) * 16).
  { subst fr. symmetry. apply (N.mod_unique (mn * 16) (2 ^ 64) 1); lia. }
  destruct (fmtx_frac_spec 16 0 fr 1) as (Hds & v & Hv1 & Hv2).
  { reflexivity. }
  { change (4 * N.of_nat 16) with 64. subst fr. apply N.mod_lt. discriminate. }
  rewrite N.pow_0_r, N.mul_1_r in Hds, Hv1, Hv2.
  set (ds := fmtx_frac 16 fr) in *. set (k := N.of_nat (length ds)) in *.
  exists ds, en, (16 ^ k + v), (64 + Z.to_N (exp0 + 1022)), (4 * k + 12 + s).
  assert (Hen : (Z.abs en < 10000)%Z) by lia.
  split; [|split; [exact Hds|split; [exact Hen|split; [|split]]]].
  - (* shape of the text *)
    unfold hex_frac_text, fmt_x. rewrite Eparts.
    replace (mant0 =? 0) with false by (symmetry; apply N.eqb_neq; exact Hm0).
    rewrite Enorm. fold mn. fold fr. rewrite Hlead. change (48 + 1) with 49.
    fold (exp_part en).
    assert (EFP : (if fr =? 0 then [] else ch_dot :: fmtx_frac 16 fr) = match ds with [] => [] | _ => ch_dot :: ds end).
    { fold ds. destruct (N.eqb_spec fr 0) as [E0|N0].
      - subst ds. rewrite E0. reflexivity.
      - subst ds. cbn [fmtx_frac]. replace (fr =? 0) with false by (symmetry; apply N.eqb_neq; exact N0). reflexivity. }
    rewrite EFP. set (FP := match ds with [] => [] | _ => ch_dot :: ds end).
    set (S := if f64_sign b =? 1 then [ch_minus] else []).
    replace (S ++ [48; 120; 49] ++ FP ++ exp_part en) with ((S ++ [48; 120; 49] ++ FP) ++ exp_part en)
      by (rewrite <- !app_assoc; reflexivity).
    destruct (exp_part_suffix en Hen) as (Hlen & Hsuf & Hzero).
    rewrite has_suffix_app by exact Hlen. rewrite Hsuf.
    unfold hex_text, exp_opt. fold S. fold FP.
    destruct (Z.eqb_spec en 0) as [E0|N0].
    + rewrite (Hzero E0). change 4%nat with (length t_p00). rewrite firstn_app_drop.
      subst S. destruct (f64_sign b =? 1); cbn [app]; rewrite ?app_nil_r; reflexivity.
    + subst S. unfold exp_part. destruct (f64_sign b =? 1); destruct (en <? 0)%Z; cbn [app];
        rewrite <- ?app_assoc; reflexivity.
  - (* digits *)
    unfold of_digits. cbn [app of_digits_from]. change (digit_val 49) with (Some 1). cbv beta iota.
    change (1 <? 16) with true. cbv iota. change (0 * 16 + 1) with 1. rewrite Hv1. f_equal. fold k. lia.
  - (* value *)
    rewrite N.pow_add_r. rewrite N.mul_assoc. rewrite N.mul_add_distr_r. fold k in Hv2. rewrite Hv2.
    rewrite Efr.
    replace (16 ^ k * 2 ^ 64 + (mn - 2 ^ 60) * 16 * 16 ^ k) with (16 ^ k * (16 * mn)) by (rewrite E64; nia).
    subst mn. rewrite !N.pow_add_r. replace (2 ^ (4 * k)) with (16 ^ k) by (change 16 with (2 ^ 4); rewrite <- N.pow_mul_r; reflexivity).
    change (2 ^ 12) with (16 * 2 ^ 8). ring.
  - subst en k. lia.
Qed.

(* the integer branch of WriteFloatHexNoPrefix *)
Lemma hex_int_text_spec b z mag :
  b < 2 ^ 64 -> f64_expo b <> 2047 -> (f64_expo b <> 0 \/ f64_mant b <> 0) ->
  f64_mag b = Some mag -> f64_as_int b = Some z ->
  exists M, write_int_hex z = hex_text (f64_sign b =? 1) (to_digits 16 M) [] None /\
            M * 2 ^ 1074 = mag.
Proof.
  intros Hb Hfin Hnz Hmag Hint.
  destruct (f64_parts_mag b Hfin Hnz) as (mant0 & exp0 & Eparts & Hm0 & Hm53 & Hexp0 & Emag).
  rewrite Emag in Hmag. injection Hmag as Hmag. subst mag.
  destruct (f64_decompose b Hb) as (Hs & _ & _ & _).
  unfold f64_as_int in Hint. rewrite Eparts in Hint.
  set (sh := (exp0 - 52)%Z) in *.
  assert (Ha : exists a, (if (0 <=? sh)%Z then Some (mant0 * 2 ^ Z.to_N sh)
                          else if mant0 mod 2 ^ Z.to_N (- sh) =? 0 then Some (mant0 / 2 ^ Z.to_N (- sh)) else None) = Some a
                         /\ a <> 0 /\ a * 2 ^ 1074 = mant0 * 2 ^ Z.to_N (exp0 + 1022)).
  { destruct (Z.leb_spec 0 sh) as [Hsh|Hsh].
    - exists (mant0 * 2 ^ Z.to_N sh). split; [reflexivity|]. split.
      + pose proof (pow2_pos (Z.to_N sh)). nia.
      + rewrite <- N.mul_assoc, <- N.pow_add_r. f_equal. f_equal. lia.
    - set (d := 2 ^ Z.to_N (- sh)) in *. assert (Hd : 0 < d) by apply pow2_pos.
      destruct (N.eqb_spec (mant0 mod d) 0) as [Emod|Nmod].
      + exists (mant0 / d). split; [reflexivity|].
        assert (Ediv : mant0 = d * (mant0 / d)) by (rewrite (N.div_mod mant0 d) at 1 by lia; lia).
        split; [intro E0; rewrite E0 in Ediv; lia|].
        rewrite Ediv at 2. subst d.
        replace (2 ^ 1074) with (2 ^ Z.to_N (- sh) * 2 ^ Z.to_N (exp0 + 1022)); [ring|].
        rewrite <- N.pow_add_r. f_equal. lia.
      + destruct (0 <=? sh)%Z; discriminate. }
  destruct Ha as (a & Ea & Ha0 & Hval).
  cbv zeta in Hint. rewrite Ea in Hint.
  exists a. split; [|exact Hval].
  unfold write_int_hex, hex_text. rewrite !app_nil_r.
  destruct (N.eqb_spec (f64_sign b) 1) as [E1|N1].
  - destruct ((- 2 ^ 63 <=? - Z.of_N a) && (- Z.of_N a <? 2 ^ 63))%Z eqn:Er; [|discriminate].
    injection Hint as <-. apply andb_true_iff in Er as [Hr1 Hr2]. apply Z.leb_le in Hr1.
    replace (0 <=? - Z.of_N a)%Z with false by (symmetry; apply Z.leb_gt; lia).
    replace (Z.to_N (- - Z.of_N a)) with a by lia.
    assert (Hr1' : (Z.of_N a <= 2 ^ 63)%Z) by lia.
    rewrite N.mod_small; [reflexivity|].
    apply N2Z.inj_lt. change (Z.of_N (2 ^ 64)) with (2 ^ 64)%Z.
    assert ((2 ^ 63 < 2 ^ 64)%Z) by reflexivity. lia.
  - destruct ((- 2 ^ 63 <=? Z.of_N a) && (Z.of_N a <? 2 ^ 63))%Z eqn:Er; [|discriminate].
    injection Hint as <-.
    replace (0 <=? Z.of_N a)%Z with true by (symmetry; apply Z.leb_le; lia).
    rewrite N2Z.id. reflexivity.
Qed.

Lemma run_ok_hex_text neg ip fp eo :
  Forall hexd ip -> ip <> [] -> Forall hexd fp ->
  (forall eneg ed, eo = Some (eneg, ed) -> Forall (fun c => is_dec c = true) ed /\ ed <> []) ->
  run_ok (hex_text neg ip fp eo).
Proof.
  intros Hip Hne Hfp Heo. unfold hex_text. split.
  - destruct neg; [discriminate|]. destruct ip; [congruence|discriminate].
  - assert (Hh : forall l, Forall hexd l -> forallb is_run_char l = true).
    { intros l Hl. apply Forall_forallb. eapply Forall_impl; [|exact Hl]. intros c Hc. apply plain_run_char, hexd_plain, Hc. }
    rewrite !forallb_app. rewrite (Hh ip Hip).
    replace (forallb is_run_char (if neg then [ch_minus] else [])) with true by (destruct neg; reflexivity).
    replace (forallb is_run_char match fp with [] => [] | _ :: _ => ch_dot :: fp end) with true
      by (destruct fp; [reflexivity|]; cbn [forallb]; rewrite <- (Hh _ Hfp); reflexivity).
    cbn [andb]. destruct eo as [[eneg ed]|]; [|reflexivity].
    destruct (Heo eneg ed eq_refl) as [Hed _]. cbn [forallb].
    replace (forallb is_run_char ed) with true.
    + destruct eneg; reflexivity.
    + symmetry. apply Forall_forallb. eapply Forall_impl; [|exact Hed]. intros c Hc. apply plain_run_char.
      unfold is_dec in Hc. apply andb_true_iff in Hc as [H1 H2]. apply N.leb_le in H1, H2. unfold plain_char. lia.
Qed.

Section HexFloat.
  Variable parse_dec : N -> bytes -> option N.

  (* a finite non-zero float64 [b] whose value is the magnitude pattern (ef, mf)
     of the element format of kind k *)
  Lemma hex_finite_roundtrip k b x ef mf cshift :
    kind_class k = CFloat -> b < 2 ^ 64 ->
    f64_expo b <> 2047 -> (f64_expo b <> 0 \/ f64_mant b <> 0) ->
    let F := float_ffmt k in
    mf < 2 ^ (ff_p F - 1) -> ef < 2 ^ ff_expbits F - 1 -> (ef <> 0 \/ mf <> 0) ->
    f64_mag b = Some ((if ef =? 0 then mf else (2 ^ (ff_p F - 1) + mf) * 2 ^ (ef - 1)) * 2 ^ cshift) ->
    (ff_qmin F - Z.of_N cshift = -1074)%Z ->
    (forall zt, finish_float k (f64_sign b =? 1) zt (Some (ef * 2 ^ (ff_p F - 1) + mf)) = Some x) ->
    let t := write_float_hex_noprefix b in
    read_elem parse_dec k MHex t = Some x /\ run_ok t.
  Proof.
    intros Hk Hb Hfin Hnz F Hmf Hef Hnzf Hmag Hq Hfinish t. subst t.
    assert (Hp : 1 <= ff_p F) by (subst F; destruct k; cbn; lia).
    unfold write_float_hex_noprefix.
    assert (Hspec : write_special b = None).
    { unfold write_special, f64_is_nan, f64_is_inf.
      replace (f64_expo b =? 2047) with false by (symmetry; apply N.eqb_neq; exact Hfin). reflexivity. }
    rewrite Hspec.
    assert (Hz : f64_is_zero b = false).
    { unfold f64_is_zero. destruct Hnz as [H|H]; [rewrite (neqb_of _ _ H); reflexivity|].
      rewrite (neqb_of _ _ H). apply andb_false_r. }
    rewrite Hz.
    set (magF := if ef =? 0 then mf else (2 ^ (ff_p F - 1) + mf) * 2 ^ (ef - 1)) in *.
    destruct (f64_as_int b) as [z|] eqn:Eint.
    - destruct (hex_int_text_spec b z _ Hb Hfin Hnz Hmag Eint) as (M & Etext & Hval).
      rewrite Etext.
      assert (Hip : Forall hexd (to_digits 16 M)) by (apply to_digits_chars; lia).
      assert (Hne : to_digits 16 M <> []) by apply to_digits_nonempty.
      assert (Heo : forall eneg ed, @None (bool * bytes) = Some (eneg, ed) -> Forall (fun c => is_dec c = true) ed /\ ed <> []) by discriminate.
      split; [|apply run_ok_hex_text; try assumption; constructor].
      rewrite (read_hex_text parse_dec k _ _ [] None M Hk Hip Hne (Forall_nil _) Heo).
      + fold F. cbn [length exp_value]. change (0 - 4 * Z.of_nat 0)%Z with 0%Z.
        rewrite (round_assemble_exact F ef mf M 0 1074 cshift Hp Hmf Hef Hnzf).
        * apply Hfinish.
        * fold magF. exact Hval.
        * lia.
      + rewrite app_nil_r. apply of_digits_to_digits; lia.
    - fold (hex_frac_text b).
      destruct (hex_frac_text_spec b _ Hfin Hnz Hmag) as (ds & en & M & a & c & Etext & Hds & Hen & HM & Hval & Hexp).
      rewrite Etext.
      destruct (exp_opt_value en Hen) as [Hev Heo].
      assert (Hip : Forall hexd [49]) by (repeat constructor).
      assert (Hne : [49] <> []) by discriminate.
      split; [|apply run_ok_hex_text; assumption].
      rewrite (read_hex_text parse_dec k _ [49] ds (exp_opt en) M Hk Hip Hne Hds Heo HM).
      fold F. rewrite Hev.
      rewrite (round_assemble_exact F ef mf M _ a (cshift + c) Hp Hmf Hef Hnzf).
      + apply Hfinish.
      + fold magF. rewrite Hval. rewrite N.pow_add_r. ring.
      + lia.
  Qed.
End HexFloat.

(* ------------------------------------------------------------------ *)
(** * Float elements, hexadecimal and special spellings *)

Lemma f64_class b : b < 2 ^ 64 ->
  (f64_is_nan b = true /\ f64_expo b = 2047 /\ f64_mant b <> 0) \/
  (f64_is_inf b = true /\ f64_is_nan b = false /\ f64_expo b = 2047 /\ f64_mant b = 0) \/
  (f64_is_zero b = true /\ f64_is_nan b = false /\ f64_is_inf b = false /\ f64_expo b = 0 /\ f64_mant b = 0) \/
  (f64_is_nan b = false /\ f64_is_inf b = false /\ f64_is_zero b = false /\
   f64_expo b <> 2047 /\ (f64_expo b <> 0 \/ f64_mant b <> 0)).
Proof.
  intros _. unfold f64_is_nan, f64_is_inf, f64_is_zero.
  destruct (N.eqb_spec (f64_expo b) 2047) as [E1|N1]; destruct (N.eqb_spec (f64_mant b) 0) as [E2|N2];
    destruct (N.eqb_spec (f64_expo b) 0) as [E3|N3]; cbn [andb negb]; try lia;
    try (left; repeat split; assumption);
    try (right; left; repeat split; assumption);
    try (right; right; left; repeat split; assumption);
    right; right; right; repeat split; try assumption; tauto.
Qed.

Lemma f32_class w : w < 2 ^ 32 ->
  (f32_is_nan w = true) \/
  (f32_is_inf w = true /\ f32_is_nan w = false /\ f32_expo w = 255 /\ f32_mant w = 0) \/
  (f32_is_zero w = true /\ f32_is_nan w = false /\ f32_is_inf w = false /\ f32_expo w = 0 /\ f32_mant w = 0) \/
  (f32_is_nan w = false /\ f32_is_inf w = false /\ f32_is_zero w = false /\
   f32_expo w <> 255 /\ (f32_expo w <> 0 \/ f32_mant w <> 0)).
Proof.
  intros _. unfold f32_is_nan, f32_is_inf, f32_is_zero.
  destruct (N.eqb_spec (f32_expo w) 255) as [E1|N1]; destruct (N.eqb_spec (f32_mant w) 0) as [E2|N2];
    destruct (N.eqb_spec (f32_expo w) 0) as [E3|N3]; cbn [andb negb]; try lia;
    try (left; reflexivity);
    try (right; left; repeat split; assumption);
    try (right; right; left; repeat split; assumption);
    right; right; right; repeat split; try assumption; tauto.
Qed.

Lemma run_ok_const t : t <> [] -> forallb is_run_char t = true -> run_ok t.
Proof. intros; split; assumption. Qed.

Section FloatHex.
  Variable parse_dec : N -> bytes -> option N.

  (* special spellings are read in both float modes *)
  Lemma read_specials k m : kind_class k = CFloat -> m = MDec \/ m = MHex ->
    read_elem parse_dec k m t_nan = Some (special_bits k 0) /\
    read_elem parse_dec k m t_snan = Some (special_bits k 1) /\
    read_elem parse_dec k m t_inf = Some (special_bits k 2) /\
    read_elem parse_dec k m t_ninf = Some (special_bits k 3).
  Proof. intros Hk [-> | ->]; destruct k; try discriminate; repeat split; reflexivity. Qed.

  Lemma read_zero_texts k m : kind_class k = CFloat -> m = MHex ->
    read_elem parse_dec k m [48] = Some 0 /\
    read_elem parse_dec k m [ch_minus; 48] = Some (2 ^ (kind_bits k - 1)).
  Proof. intros Hk ->; destruct k; try discriminate; split; vm_compute; reflexivity. Qed.

  (* float64 *)
  Lemma f64_hex_elem x : x < 2 ^ 64 ->
    let t := write_float_hex_noprefix x in
    read_elem parse_dec KF64 MHex t = Some (canon_elem KF64 x) /\ run_ok t.
  Proof.
    intros Hx t. subst t.
    destruct (f64_decompose x Hx) as (Hs & He & Hm & Ex).
    destruct (read_specials KF64 MHex eq_refl (or_intror eq_refl)) as (R0 & R1 & R2 & R3).
    destruct (f64_class x Hx) as [(Hn & _ & _)|[(Hi & Hn & E1 & E2)|[(Hz & Hn & Hi & E1 & E2)|(Hn & Hi & Hz & Hfin & Hnz)]]].
    - unfold write_float_hex_noprefix, write_special, canon_elem. rewrite Hn.
      destruct (f64_quiet_bit x); split; try assumption; apply run_ok_const; try discriminate; reflexivity.
    - unfold write_float_hex_noprefix, write_special, canon_elem. rewrite Hn, Hi.
      assert (Ex' : x = f64_sign x * p2_63 + 2047 * p2_52) by (rewrite Ex at 1; unfold f64_make; rewrite E1, E2; lia).
      destruct (N.eqb_spec (f64_sign x) 1) as [S1|S0]; (split; [|apply run_ok_const; [discriminate|reflexivity]]).
      + rewrite R3. f_equal. rewrite Ex', S1. reflexivity.
      + rewrite R2. f_equal. rewrite Ex'. replace (f64_sign x) with 0 by lia. reflexivity.
    - unfold write_float_hex_noprefix, write_special, canon_elem. rewrite Hn, Hi, Hz.
      assert (Ex' : x = f64_sign x * p2_63) by (rewrite Ex at 1; unfold f64_make; rewrite E1, E2; lia).
      destruct (read_zero_texts KF64 MHex eq_refl eq_refl) as [Z0 Z1].
      destruct (N.eqb_spec (f64_sign x) 1) as [S1|S0]; (split; [|apply run_ok_const; [discriminate|reflexivity]]).
      + rewrite Z1. f_equal. rewrite Ex', S1. reflexivity.
      + rewrite Z0. f_equal. rewrite Ex'. replace (f64_sign x) with 0 by lia. reflexivity.
    - unfold canon_elem. rewrite Hn.
      apply (hex_finite_roundtrip parse_dec KF64 x x (f64_expo x) (f64_mant x) 0 eq_refl Hx Hfin Hnz).
      + exact Hm.
      + change (2 ^ ff_expbits (float_ffmt KF64) - 1) with 2047. lia.
      + exact Hnz.
      + unfold f64_mag. rewrite (neqb_of _ _ Hfin). rewrite N.pow_0_r, N.mul_1_r.
        destruct (f64_expo x =? 0); reflexivity.
      + reflexivity.
      + intro zt. unfold finish_float. change (2 ^ (ff_p (float_ffmt KF64) - 1)) with p2_52.
        assert (Hv : f64_expo x * p2_52 + f64_mant x <> 0).
        { unfold p2_52. destruct Hnz; lia. }
        rewrite (neqb_of _ _ Hv). cbn [andb]. f_equal.
        transitivity (f64_make (f64_sign x) (f64_expo x) (f64_mant x)); [|symmetry; exact Ex]. unfold f64_make.
        destruct (N.eqb_spec (f64_sign x) 1) as [S1|S0]; [rewrite S1|replace (f64_sign x) with 0 by lia]; lia.
  Qed.
End FloatHex.

Section FloatHex32.
  Variable parse_dec : N -> bytes -> option N.

  (* what the widened pattern of a float32 looks like *)
  Lemma widen_class w : w < 2 ^ 32 -> f32_is_nan w = false ->
    let b := f32_widen w in
    b < 2 ^ 64 /\ f64_sign b = f32_sign w /\ f64_is_nan b = false /\
    f64_is_inf b = f32_is_inf w /\ f64_is_zero b = f32_is_zero w.
  Proof.
    intros Hw Hn b. subst b. repeat split.
    - apply f32_widen_lt; exact Hw.
    - apply f32_widen_sign; assumption.
    - rewrite widen_is_nan by exact Hw. exact Hn.
    - apply widen_is_inf; exact Hw.
    - apply widen_is_zero; exact Hw.
  Qed.

  (* float32 and bfloat16 elements: [w] is the float32 pattern the element widens through *)
  Lemma f32w_hex_elem k w x :
    kind_class k = CFloat -> float_ffmt k = ff32 -> w < 2 ^ 32 ->
    (f32_is_nan w = true -> canon_elem k x = if f32_quiet_bit w then special_bits k 0 else special_bits k 1) ->
    (f32_is_nan w = false -> canon_elem k x = x) ->
    (f32_is_inf w = true -> x = special_bits k (if f32_sign w =? 1 then 3 else 2)) ->
    (f32_is_zero w = true -> x = if f32_sign w =? 1 then 2 ^ (kind_bits k - 1) else 0) ->
    (forall zt, f32_expo w * p2_23 + f32_mant w <> 0 ->
       finish_float k (f32_sign w =? 1) zt (Some (f32_expo w * p2_23 + f32_mant w)) = Some x) ->
    let t := write_float_hex_noprefix (f32_widen w) in
    read_elem parse_dec k MHex t = Some (canon_elem k x) /\ run_ok t.
  Proof.
    intros Hk HF Hw Hcn Hcf Hinf Hzero Hfinish t. subst t.
    destruct (f32_decompose w Hw) as (Hs & He & Hm & Ew).
    destruct (read_specials parse_dec k MHex Hk (or_intror eq_refl)) as (R0 & R1 & R2 & R3).
    destruct (f32_class w Hw) as [Hn|Hrest].
    - (* NaN *)
      destruct (widen_nan_canonical w Hw Hn) as [_ Hq].
      unfold write_float_hex_noprefix, write_special. rewrite widen_is_nan by exact Hw. rewrite Hn, Hq, (Hcn Hn).
      destruct (f32_quiet_bit w); split; try assumption; apply run_ok_const; try discriminate; reflexivity.
    - assert (Hn : f32_is_nan w = false) by (destruct Hrest as [H|[H|H]]; tauto).
      destruct (widen_class w Hw Hn) as (Hb & Hsign & Hbn & Hbi & Hbz). cbv zeta in *.
      rewrite (Hcf Hn).
      destruct Hrest as [(Hi & _ & E1 & E2)|[(Hz & _ & Hi & E1 & E2)|(_ & Hi & Hz & Hfin & Hnz)]].
      + unfold write_float_hex_noprefix, write_special. rewrite Hbn, Hbi, Hi, Hsign. pose proof (Hinf Hi) as Ex.
        destruct (f32_sign w =? 1); (split; [|apply run_ok_const; [discriminate|reflexivity]]).
        * rewrite R3. f_equal. symmetry. exact Ex.
        * rewrite R2. f_equal. symmetry. exact Ex.
      + unfold write_float_hex_noprefix, write_special. rewrite Hbn, Hbi, Hi, Hbz, Hz, Hsign. pose proof (Hzero Hz) as Ex.
        destruct (read_zero_texts parse_dec k MHex Hk eq_refl) as [Z0 Z1].
        destruct (f32_sign w =? 1); (split; [|apply run_ok_const; [discriminate|reflexivity]]).
        * rewrite Z1. f_equal. symmetry. exact Ex.
        * rewrite Z0. f_equal. symmetry. exact Ex.
      + set (b := f32_widen w) in *.
        assert (Hbfin : f64_expo b <> 2047 /\ (f64_expo b <> 0 \/ f64_mant b <> 0)).
        { destruct (f64_class b Hb) as [(H & _)|[(H & _)|[(H & _)|(_ & _ & _ & H1 & H2)]]]; try congruence. tauto. }
        destruct Hbfin as [Hbfin Hbnz].
        assert (Hv : f32_expo w * p2_23 + f32_mant w <> 0) by (unfold p2_23; destruct Hnz; lia).
        apply (hex_finite_roundtrip parse_dec k b x (f32_expo w) (f32_mant w) 925 Hk Hb Hbfin Hbnz); rewrite ?HF.
        * exact Hm.
        * change (2 ^ ff_expbits ff32 - 1) with 255. lia.
        * exact Hnz.
        * subst b. rewrite (f32_widen_mag w Hw). unfold f32_mag. rewrite (neqb_of _ _ Hfin).
          destruct (f32_expo w =? 0); reflexivity.
        * reflexivity.
        * intro zt. rewrite Hsign. change (2 ^ (ff_p ff32 - 1)) with p2_23. apply Hfinish. exact Hv.
  Qed.

  Lemma f32_hex_elem x : x < 2 ^ 32 ->
    let t := write_float_hex_noprefix (f32_widen x) in
    read_elem parse_dec KF32 MHex t = Some (canon_elem KF32 x) /\ run_ok t.
  Proof.
    intros Hx. destruct (f32_decompose x Hx) as (Hs & He & Hm & Ex).
    apply (f32w_hex_elem KF32 x x eq_refl eq_refl Hx).
    - intro Hn. unfold canon_elem. rewrite Hn. reflexivity.
    - intro Hn. unfold canon_elem. rewrite Hn. reflexivity.
    - unfold f32_is_inf. intro H. apply andb_true_iff in H as [H1 H2]. apply N.eqb_eq in H1, H2.
      rewrite Ex at 1. unfold f32_make. rewrite H1, H2.
      destruct (N.eqb_spec (f32_sign x) 1) as [S1|S0]; [rewrite S1|replace (f32_sign x) with 0 by lia]; reflexivity.
    - unfold f32_is_zero. intro H. apply andb_true_iff in H as [H1 H2]. apply N.eqb_eq in H1, H2.
      rewrite Ex at 1. unfold f32_make. rewrite H1, H2.
      destruct (N.eqb_spec (f32_sign x) 1) as [S1|S0]; [rewrite S1|replace (f32_sign x) with 0 by lia]; reflexivity.
    - intros zt Hv. unfold finish_float. rewrite (neqb_of _ _ Hv). cbn [andb]. f_equal.
      transitivity (f32_make (f32_sign x) (f32_expo x) (f32_mant x)); [|symmetry; exact Ex]. unfold f32_make.
      destruct (N.eqb_spec (f32_sign x) 1) as [S1|S0]; [rewrite S1|replace (f32_sign x) with 0 by lia]; lia.
  Qed.

  Lemma f16_hex_elem x : x < 2 ^ 16 ->
    let t := write_float_hex_noprefix (bf16_widen x) in
    read_elem parse_dec KF16 MHex t = Some (canon_elem KF16 x) /\ run_ok t.
  Proof.
    intros Hx. unfold bf16_widen. set (w := x * 65536).
    assert (Hw : w < 2 ^ 32) by (subst w; change (2 ^ 32) with (65536 * 65536); change (2 ^ 16) with 65536 in Hx; lia).
    destruct (f32_decompose w Hw) as (Hs & He & Hm & Ew).
    assert (Exw : x = w / 65536) by (subst w; rewrite N.div_mul; [reflexivity|discriminate]).
    apply (f32w_hex_elem KF16 w x eq_refl eq_refl Hw).
    - intro Hn. unfold canon_elem, bf16_is_nan. fold w. rewrite Hn. reflexivity.
    - intro Hn. unfold canon_elem, bf16_is_nan. fold w. rewrite Hn. reflexivity.
    - unfold f32_is_inf. intro H. apply andb_true_iff in H as [H1 H2]. apply N.eqb_eq in H1, H2.
      rewrite Exw. rewrite Ew at 1. unfold f32_make. rewrite H1, H2.
      destruct (N.eqb_spec (f32_sign w) 1) as [S1|S0]; [rewrite S1|replace (f32_sign w) with 0 by lia]; reflexivity.
    - unfold f32_is_zero. intro H. apply andb_true_iff in H as [H1 H2]. apply N.eqb_eq in H1, H2.
      rewrite Exw. rewrite Ew at 1. unfold f32_make. rewrite H1, H2.
      destruct (N.eqb_spec (f32_sign w) 1) as [S1|S0]; [rewrite S1|replace (f32_sign w) with 0 by lia]; reflexivity.
    - intros zt Hv. unfold finish_float. rewrite (neqb_of _ _ Hv). cbn [andb]. f_equal.
      rewrite Exw. f_equal.
      transitivity (f32_make (f32_sign w) (f32_expo w) (f32_mant w)); [|symmetry; exact Ew]. unfold f32_make.
      destruct (N.eqb_spec (f32_sign w) 1) as [S1|S0]; [rewrite S1|replace (f32_sign w) with 0 by lia]; lia.
  Qed.

  Theorem float_hex_elem k x : kind_class k = CFloat -> x < 2 ^ kind_bits k ->
    let t := write_float_hex_noprefix (widen k x) in
    read_elem parse_dec k MHex t = Some (canon_elem k x) /\ run_ok t.
  Proof.
    intros Hk Hx. destruct k; try discriminate; cbn [widen kind_bits] in *.
    - apply f16_hex_elem; exact Hx.
    - apply f32_hex_elem; exact Hx.
    - apply f64_hex_elem; exact Hx.
  Qed.
End FloatHex32.

(* ------------------------------------------------------------------ *)
(** * Float elements, decimal spelling (strconv kept abstract) *)

Section FloatDec.
  Variables (fmt_g : N -> bytes) (parse_dec : N -> bytes -> option N).

  Lemma special_text_cases b t : write_special b = Some t -> t = t_nan \/ t = t_snan \/ t = t_inf \/ t = t_ninf.
  Proof.
    unfold write_special. destruct (f64_is_nan b).
    - destruct (f64_quiet_bit b); intros [= <-]; tauto.
    - destruct (f64_is_inf b); [|discriminate]. destruct (f64_sign b =? 1); intros [= <-]; tauto.
  Qed.

  (* nan / snan / inf / -inf elements, in either float mode *)
  Lemma special_elem k m x t : kind_class k = CFloat -> x < 2 ^ kind_bits k -> m = MDec \/ m = MHex ->
    write_special (widen k x) = Some t ->
    read_elem parse_dec k m t = Some (canon_elem k x) /\ run_ok t.
  Proof.
    intros Hk Hx Hm Hsp.
    destruct (float_hex_elem parse_dec k x Hk Hx) as [Hread Hrun].
    assert (Et : write_float_hex_noprefix (widen k x) = t) by (unfold write_float_hex_noprefix; rewrite Hsp; reflexivity).
    rewrite Et in Hread, Hrun. split; [|exact Hrun].
    destruct (read_specials parse_dec k m Hk Hm) as (A0 & A1 & A2 & A3).
    destruct (read_specials parse_dec k MHex Hk (or_intror eq_refl)) as (B0 & B1 & B2 & B3).
    destruct (special_text_cases _ _ Hsp) as [-> | [-> | [-> | ->]]]; congruence.
  Qed.

  Lemma finite_not_nan k x : kind_class k = CFloat -> x < 2 ^ kind_bits k ->
    write_special (widen k x) = None -> canon_elem k x = x.
  Proof.
    intros Hk Hx Hsp.
    assert (Hn : f64_is_nan (widen k x) = false).
    { unfold write_special in Hsp. destruct (f64_is_nan (widen k x)); [discriminate|reflexivity]. }
    destruct k; try discriminate; cbn [widen kind_bits canon_elem] in *.
    - unfold bf16_widen in Hn. rewrite widen_is_nan in Hn.
      + unfold bf16_is_nan. rewrite Hn. reflexivity.
      + change (2 ^ 32) with (65536 * 65536). change (2 ^ 16) with 65536 in Hx. lia.
    - rewrite widen_is_nan in Hn by exact Hx. rewrite Hn. reflexivity.
    - rewrite Hn. reflexivity.
  Qed.

  Lemma dec_elem k x : kind_class k = CFloat -> x < 2 ^ kind_bits k ->
    write_special (widen k x) = None ->
    let g := fmt_g (widen k x) in
    strconv_sample_ok k x g (parse_dec (float_parse_bits k) (dec_text g)) = true ->
    read_elem parse_dec k MDec g = Some (canon_elem k x) /\ run_ok g.
  Proof.
    intros Hk Hx Hsp g Hok. rewrite (finite_not_nan k x Hk Hx Hsp).
    unfold strconv_sample_ok in Hok.
    repeat (apply andb_true_iff in Hok as [Hok ?]).
    rename H into Hparsed, H0 into Hnsp, H1 into Hbody, H2 into Hrun, H3 into Hscan.
    destruct (scan_float false false g) as [n|] eqn:Escan; [|discriminate].
    repeat (apply andb_true_iff in Hscan as [Hscan ?]).
    rename H into Hzero, H0 into Hnous. apply Bool.eqb_prop in Hscan, Hzero.
    split.
    - unfold read_elem. rewrite Hk. unfold read_float_elem.
      cbn [existsb] in Hnsp. apply negb_true_iff in Hnsp. repeat (apply orb_false_iff in Hnsp as [? Hnsp]).
      rewrite H, H0, H1, H2. rewrite Escan. rewrite Hscan, Hzero.
      destruct (parse_dec (float_parse_bits k) (dec_text g)) as [v|]; [|discriminate].
      cbn [option_eqb] in Hparsed. apply N.eqb_eq in Hparsed. subst v.
      unfold finish_float.
      destruct k; try discriminate; cbn [kind_bits] in *.
      + change (2 ^ (16 - 1)) with 32768 in *. change (2 ^ 15) with 32768. change (2 ^ 16) with 65536 in Hx. unfold p2_31.
        destruct (N.eqb_spec (x mod 32768 * 65536) 0), (N.eqb_spec (x mod 32768) 0); cbn [andb negb]; try lia;
          destruct (N.leb_spec 32768 x); f_equal; dlia.
      + change (2 ^ (32 - 1)) with 2147483648 in *. change (2 ^ 32) with 4294967296 in Hx. unfold p2_31.
        destruct (N.eqb_spec (x mod 2147483648) 0); cbn [andb negb];
          destruct (N.leb_spec 2147483648 x); f_equal; dlia.
      + change (2 ^ (64 - 1)) with 9223372036854775808 in *. change (2 ^ 64) with 18446744073709551616 in Hx. unfold p2_63.
        destruct (N.eqb_spec (x mod 9223372036854775808) 0); cbn [andb negb];
          destruct (N.leb_spec 9223372036854775808 x); f_equal; dlia.
    - split; [|exact Hrun]. intro E. apply negb_true_iff in Hbody. rewrite E in Hbody. discriminate.
  Qed.
End FloatDec.

(* ------------------------------------------------------------------ *)
(** * Float arrays *)

Definition float_kinds : list kind := [KF16; KF32; KF64].

Definition float_pair_ok (k : kind) (f : N) (m : amode) : bool :=
  (f <? N.of_nat (length (headers_of k))) && (f <? N.of_nat (length (verbs_of k))) &&
  let h := nth (N.to_nat f) (headers_of k) [] in
  match split_header h, find_header h with
  | Some (h', []), Some (k', m') =>
      bytes_eqb h' h && kind_eqb k' k && match m, m' with MDec, MDec | MHex, MHex => true | _, _ => false end
  | _, _ => false
  end.

Definition directive_eqb (a b : directive) : bool :=
  match a, b with
  | DEmpty, DEmpty | DOther, DOther => true
  | DVerb z w c, DVerb z' w' c' => Bool.eqb z z' && (w =? w') && (c =? c')
  | _, _ => false
  end.

Lemma directive_eqb_eq a b : directive_eqb a b = true -> a = b.
Proof.
  destruct a as [|z w c|], b as [|z' w' c'|]; cbn; try discriminate; try reflexivity.
  intro H. apply andb_true_iff in H as [H Hc]. apply andb_true_iff in H as [Hz Hw].
  apply Bool.eqb_prop in Hz. apply N.eqb_eq in Hw, Hc. subst. reflexivity.
Qed.

Lemma float_pairs_sweep :
  forallb (fun k => float_pair_ok k cfg_CTEEncodingFormatHexadecimal MHex &&
                    float_pair_ok k cfg_CTEEncodingFormatDecimal MDec &&
                    directive_eqb (parse_directive (nth (N.to_nat cfg_CTEEncodingFormatDecimal) (verbs_of k) []))
                                  (DVerb false 0 118)) float_kinds = true.
Proof. vm_compute. reflexivity. Qed.

Lemma float_kind_in k : kind_class k = CFloat -> In k float_kinds.
Proof. destruct k; cbn; intro H; try discriminate; tauto. Qed.

Lemma float_pair_facts k f m : float_pair_ok k f m = true ->
  f < N.of_nat (length (headers_of k)) /\ f < N.of_nat (length (verbs_of k)) /\
  let h := nth (N.to_nat f) (headers_of k) [] in
  split_header h = Some (h, []) /\ find_header h = Some (k, m).
Proof.
  unfold float_pair_ok. intro H. apply andb_true_iff in H as [Hlen H]. apply andb_true_iff in Hlen as [H1 H2].
  apply N.ltb_lt in H1, H2. cbv zeta in *. set (h := nth (N.to_nat f) (headers_of k) []) in *.
  destruct (split_header h) as [[h' [|? ?]]|]; try discriminate.
  destruct (find_header h) as [[k' m']|]; try discriminate.
  apply andb_true_iff in H as [H Hm]. apply andb_true_iff in H as [Hh Hk].
  apply bytes_eqb_eq in Hh. apply kind_eqb_eq in Hk. subst h' k'.
  assert (m' = m) by (destruct m, m'; try discriminate; reflexivity). subst m'. tauto.
Qed.

Theorem float_hex_array_roundtrip fmt_g parse_dec k xs :
  kind_class k = CFloat -> elems_wf k xs ->
  roundtrip fmt_g parse_dec k cfg_CTEEncodingFormatHexadecimal xs = Ok (k, map (canon_elem k) xs).
Proof.
  intros Hk Hwf.
  pose proof float_pairs_sweep as Hsweep. rewrite forallb_forall in Hsweep.
  specialize (Hsweep k (float_kind_in k Hk)).
  apply andb_true_iff in Hsweep as [Hsweep _]. apply andb_true_iff in Hsweep as [Hhex _].
  destruct (float_pair_facts _ _ _ Hhex) as (H1 & H2 & H3 & H4).
  apply (array_roundtrip_gen fmt_g parse_dec k _ MHex xs (fun x => write_float_hex_noprefix (widen k x))); try assumption.
  intros x Hx. unfold elems_wf in Hwf. rewrite Forall_forall in Hwf. specialize (Hwf x Hx).
  destruct (float_hex_elem parse_dec k x Hk Hwf) as [Hread Hrun].
  split; [|split; assumption].
  unfold print_elem. rewrite Hk. rewrite N.eqb_refl. reflexivity.
Qed.

Theorem float_dec_array_roundtrip fmt_g parse_dec k xs :
  kind_class k = CFloat -> elems_wf k xs -> strconv_ok_on fmt_g parse_dec k xs ->
  roundtrip fmt_g parse_dec k cfg_CTEEncodingFormatDecimal xs = Ok (k, map (canon_elem k) xs).
Proof.
  intros Hk Hwf Hstr.
  pose proof float_pairs_sweep as Hsweep. rewrite forallb_forall in Hsweep.
  specialize (Hsweep k (float_kind_in k Hk)).
  apply andb_true_iff in Hsweep as [Hsweep Hverb]. apply andb_true_iff in Hsweep as [_ Hdec].
  destruct (float_pair_facts _ _ _ Hdec) as (H1 & H2 & H3 & H4).
  set (pe := fun x => match write_special (widen k x) with Some t => t | None => fmt_g (widen k x) end).
  apply (array_roundtrip_gen fmt_g parse_dec k _ MDec xs pe); try assumption.
  intros x Hx. unfold elems_wf in Hwf. rewrite Forall_forall in Hwf. specialize (Hwf x Hx).
  unfold strconv_ok_on in Hstr. rewrite Forall_forall in Hstr. specialize (Hstr x Hx).
  assert (Hprint : print_elem fmt_g k cfg_CTEEncodingFormatDecimal x = Some (pe x)).
  { unfold print_elem. rewrite Hk. change (cfg_CTEEncodingFormatDecimal =? cfg_CTEEncodingFormatHexadecimal) with false.
    cbv iota. rewrite (directive_eqb_eq _ _ Hverb).
    unfold write_float_using_format, pe. destruct (write_special (widen k x)); reflexivity. }
  split; [exact Hprint|]. unfold pe. destruct (write_special (widen k x)) as [t|] eqn:Esp.
  - apply (special_elem fmt_g parse_dec k MDec x t Hk Hwf (or_introl eq_refl) Esp).
  - apply (dec_elem fmt_g parse_dec k x Hk Hwf Esp). apply Hstr. unfold float_finite. rewrite Hk, Esp. reflexivity.
Qed.

(* ------------------------------------------------------------------ *)
(** * All supported pairs; the unsupported ones *)

Theorem array_format_roundtrip fmt_g parse_dec k f xs :
  supported_fmt k f = true -> elems_wf k xs -> strconv_ok_on fmt_g parse_dec k xs ->
  roundtrip fmt_g parse_dec k f xs = Ok (k, map (canon_elem k) xs).
Proof.
  intros Hf Hwf Hstr. destruct (kind_class k) eqn:Hk.
  - apply int_array_roundtrip; [congruence|assumption|assumption].
  - apply int_array_roundtrip; [congruence|assumption|assumption].
  - unfold supported_fmt in Hf. rewrite Hk in Hf. apply orb_true_iff in Hf as [Hf|Hf]; apply N.eqb_eq in Hf; subst f.
    + apply float_dec_array_roundtrip; assumption.
    + apply float_hex_array_roundtrip; assumption.
Qed.

(* the same without any assumption on strconv, for everything but decimal float arrays *)
Theorem array_format_roundtrip_concrete fmt_g parse_dec k f xs :
  supported_fmt k f = true -> elems_wf k xs ->
  (kind_class k = CFloat -> f <> cfg_CTEEncodingFormatDecimal) ->
  roundtrip fmt_g parse_dec k f xs = Ok (k, map (canon_elem k) xs).
Proof.
  intros Hf Hwf Hnd. destruct (kind_class k) eqn:Hk.
  - apply int_array_roundtrip; [congruence|assumption|assumption].
  - apply int_array_roundtrip; [congruence|assumption|assumption].
  - unfold supported_fmt in Hf. rewrite Hk in Hf. apply orb_true_iff in Hf as [Hf|Hf]; apply N.eqb_eq in Hf; subst f.
    + exfalso. apply (Hnd eq_refl). reflexivity.
    + apply float_hex_array_roundtrip; assumption.
Qed.

(* array data as bytes *)
Lemma elems_of_bytes_aux_wf w bits : 256 ^ N.of_nat w = 2 ^ bits ->
  forall fuel data, bytes_wf data -> Forall (fun x => x < 2 ^ bits) (elems_of_bytes_aux fuel w data).
Proof.
  intros Hw. induction fuel as [|f IH]; intros data Hd; cbn [elems_of_bytes_aux]; [constructor|].
  destruct data as [|c r] eqn:E; [constructor|]. rewrite <- E in *.
  assert (Hsplit : bytes_wf (firstn w data) /\ bytes_wf (skipn w data)).
  { unfold bytes_wf in *. apply Forall_app. rewrite firstn_skipn. exact Hd. }
  destruct Hsplit as [Hf Hsk]. constructor.
  - pose proof (le_decode_lt _ Hf) as Hlt.
    apply N.lt_le_trans with (256 ^ N.of_nat (length (firstn w data))); [exact Hlt|].
    rewrite <- Hw. apply N.pow_le_mono_r; [discriminate|]. rewrite firstn_length. lia.
  - apply IH. exact Hsk.
Qed.

Lemma elems_of_bytes_wf k data : bytes_wf data -> elems_wf k (elems_of_bytes k data).
Proof.
  intro Hd. unfold elems_wf, elems_of_bytes. apply elems_of_bytes_aux_wf; [|exact Hd].
  destruct k; reflexivity.
Qed.

Theorem array_bytes_roundtrip fmt_g parse_dec k f data :
  supported_fmt k f = true -> bytes_wf data ->
  strconv_ok_on fmt_g parse_dec k (elems_of_bytes k data) ->
  outcome_bind (print_array fmt_g k f data) (read_array parse_dec)
  = Ok (k, bytes_of_elems k (map (canon_elem k) (elems_of_bytes k data))).
Proof.
  intros Hf Hd Hstr.
  pose proof (array_format_roundtrip fmt_g parse_dec k f _ Hf (elems_of_bytes_wf k data Hd) Hstr) as H.
  unfold roundtrip in H. unfold print_array, read_array.
  destruct (print_elems fmt_g k f (elems_of_bytes k data)) as [t| | |]; cbn [outcome_bind] in *; try discriminate.
  rewrite H. reflexivity.
Qed.

(* which of the property's pairs are not covered, by class *)
Lemma unsupported_pairs k f : In f all_formats -> supported_fmt k f = false ->
  f = cfg_CTEEncodingFormatDecimal + cfg_CTEEncodingFormatFlagZeroFilled \/
  (kind_class k = CFloat /\
   (f = cfg_CTEEncodingFormatBinary \/ f = cfg_CTEEncodingFormatBinaryZeroFilled \/
    f = cfg_CTEEncodingFormatOctal \/ f = cfg_CTEEncodingFormatOctalZeroFilled \/
    f = cfg_CTEEncodingFormatHexadecimalZeroFilled)).
Proof.
  intros Hin Hs. cbn [all_formats In] in Hin.
  destruct Hin as [<-|[<-|[<-|[<-|[<-|[<-|[<-|[<-|[]]]]]]]]]; destruct k; cbn in Hs; try discriminate; tauto.
Qed.

(* The whole property, as stated: every one of the eight settings, every kind. *)
Definition C25_full_statement : Prop :=
  forall fmt_g parse_dec k f xs,
    In f all_formats -> elems_wf k xs -> strconv_ok_on fmt_g parse_dec k xs ->
    roundtrip fmt_g parse_dec k f xs = Ok (k, map (canon_elem k) xs).

Definition no_g : N -> bytes := fun _ => [].
Definition no_p : N -> bytes -> option N := fun _ _ => None.

(* Decimal|ZeroFilled indexes an empty slot of every table: no header, "%!(EXTRA ...)" elements *)
Lemma decimal_zero_filled_refuted :
  exists k f xs, In f all_formats /\ elems_wf k xs /\ strconv_ok_on no_g no_p k xs /\
                 roundtrip no_g no_p k f xs <> Ok (k, map (canon_elem k) xs).
Proof.
  exists KU8, (cfg_CTEEncodingFormatDecimal + cfg_CTEEncodingFormatFlagZeroFilled), [7].
  split; [cbn; tauto|]. split; [repeat constructor|]. split; [repeat constructor; discriminate|].
  vm_compute. discriminate.
Qed.

(* "@f64b[" is not a token of the CTE lexer (nor is any other float binary header) *)
Lemma float_binary_refuted :
  exists k f xs, In f all_formats /\ elems_wf k xs /\ strconv_ok_on no_g no_p k xs /\
                 roundtrip no_g no_p k f xs <> Ok (k, map (canon_elem k) xs).
Proof.
  exists KF64, cfg_CTEEncodingFormatBinary, [].
  split; [cbn; tauto|]. split; [constructor|]. split; [constructor|]. vm_compute. discriminate.
Qed.

Lemma float_octal_refuted :
  exists k f xs, In f all_formats /\ elems_wf k xs /\ strconv_ok_on no_g no_p k xs /\
                 roundtrip no_g no_p k f xs <> Ok (k, map (canon_elem k) xs).
Proof.
  exists KF32, cfg_CTEEncodingFormatOctalZeroFilled, [].
  split; [cbn; tauto|]. split; [constructor|]. split; [constructor|]. vm_compute. discriminate.
Qed.

(* zero-filled hexadecimal floats are written with %x: "0x1p+00" inside an x-mode array *)
Definition one_g : N -> bytes := fun _ => [49].
Definition one_p : N -> bytes -> option N := fun _ _ => Some 0x3ff0000000000000.

Lemma float_hex_zero_filled_refuted :
  exists k f xs, In f all_formats /\ elems_wf k xs /\ strconv_ok_on one_g one_p k xs /\
                 roundtrip one_g one_p k f xs <> Ok (k, map (canon_elem k) xs).
Proof.
  exists KF64, cfg_CTEEncodingFormatHexadecimalZeroFilled, [0x3ff0000000000000].
  split; [cbn; tauto|]. split; [repeat constructor|]. split.
  - repeat constructor; try (intros _; vm_compute; reflexivity).
  - vm_compute. discriminate.
Qed.

Theorem full_statement_refuted : ~ C25_full_statement.
Proof.
  intro H. destruct float_binary_refuted as (k & f & xs & Hin & Hwf & Hstr & Hne).
  apply Hne. apply H; assumption.
Qed.

(* Binary and octal float settings never produce readable text, whatever the elements. *)
Definition float_bad_header (k : kind) (f : N) : bool :=
  let h := nth (N.to_nat f) (headers_of k) [] in
  match split_header h, find_header h with
  | Some (h', []), None => bytes_eqb h' h
  | _, _ => false
  end.

Lemma float_bad_headers_sweep :
  forallb (fun k => forallb (float_bad_header k)
                      [cfg_CTEEncodingFormatBinary; cfg_CTEEncodingFormatBinaryZeroFilled;
                       cfg_CTEEncodingFormatOctal; cfg_CTEEncodingFormatOctalZeroFilled]) float_kinds = true.
Proof. vm_compute. reflexivity. Qed.

Theorem float_binary_octal_never_read fmt_g parse_dec k f xs r :
  kind_class k = CFloat ->
  In f [cfg_CTEEncodingFormatBinary; cfg_CTEEncodingFormatBinaryZeroFilled;
        cfg_CTEEncodingFormatOctal; cfg_CTEEncodingFormatOctalZeroFilled] ->
  roundtrip fmt_g parse_dec k f xs <> Ok r.
Proof.
  intros Hk Hf. pose proof float_bad_headers_sweep as Hs. rewrite forallb_forall in Hs.
  specialize (Hs k (float_kind_in k Hk)). rewrite forallb_forall in Hs. specialize (Hs f Hf).
  unfold float_bad_header in Hs. cbv zeta in Hs.
  set (h := nth (N.to_nat f) (headers_of k) []) in *.
  destruct (split_header h) as [[h' [|? ?]]|] eqn:Es; try discriminate.
  destruct (find_header h) as [?|] eqn:Ef; try discriminate.
  apply bytes_eqb_eq in Hs. subst h'.
  unfold roundtrip, print_elems.
  destruct ((N.of_nat (length (headers_of k)) <=? f) || (N.of_nat (length (verbs_of k)) <=? f)); [discriminate|].
  destruct (map_opt (print_elem fmt_g k f) xs) as [ts|]; [|discriminate].
  cbn [outcome_bind]. fold h. unfold read_elems, lex_header.
  rewrite (split_header_app h Es). rewrite Ef. discriminate.
Qed.

(* ------------------------------------------------------------------ *)
(** * Non-vacuity *)

Import String.StringSyntax.

(* real strconv output for 1.5 and -0.1 (float64), looked up from tables *)
Definition ex_g : N -> bytes :=
  lookup_g [(0x3ff8000000000000, s2b "1.5"); (0xbfb999999999999a, s2b "-0.1")]%string.
Definition ex_p : N -> bytes -> option N :=
  lookup_p [(64, s2b "1.5", Some 0x3ff8000000000000); (64, s2b "0.1", Some 0x3fb999999999999a)]%string.
Definition ex_xs : list N := [0x3ff8000000000000; 0xbfb999999999999a; 0x7ff8000000000001; 0xfff0000000000000].

Example ex_strconv_ok : strconv_ok_on ex_g ex_p KF64 ex_xs.
Proof.
  repeat constructor; try (intro H; first [vm_compute; reflexivity | vm_compute in H; discriminate H]).
Qed.

Example ex_dec_text :
  print_elems ex_g KF64 cfg_CTEEncodingFormatDecimal ex_xs = Ok (s2b "@f64[1.5 -0.1 nan -inf]")%string.
Proof. vm_compute. reflexivity. Qed.

Example ex_hex_text :
  print_elems ex_g KF64 cfg_CTEEncodingFormatHexadecimal ex_xs = Ok (s2b "@f64x[1.8 -1.999999999999ap-04 nan -inf]")%string.
Proof. vm_compute. reflexivity. Qed.

Example ex_int_text :
  print_elems no_g KI16 cfg_CTEEncodingFormatHexadecimalZeroFilled [0; 1; 0x7fff; 0x8000; 0xffff]
  = Ok (s2b "@i16x[0000 0001 7fff -8000 -001]")%string.
Proof. vm_compute. reflexivity. Qed.

Example ex_roundtrip :
  roundtrip ex_g ex_p KF64 cfg_CTEEncodingFormatDecimal ex_xs
  = Ok (KF64, [0x3ff8000000000000; 0xbfb999999999999a; 0x7ffc000000000000; 0xfff0000000000000]).
Proof. vm_compute. reflexivity. Qed.

(* ------------------------------------------------------------------ *)
(** * Decimal elements with leading zeros (parser.go stripDecimalLeadingZeros) *)

(* What a zero-filled decimal verb (%0<width>d) writes for an integer element is
   read back as that element: the padding is not taken for a legacy octal prefix. *)
Theorem zero_filled_decimal_elem_read k width x :
  kind_class k <> CFloat -> x < 2 ^ kind_bits k ->
  let t := go_int_text (is_signed k) (kind_bits k) x 10 true width in
  read_int_elem k MDec t = Some x /\ run_ok t.
Proof.
  intros Hk Hx. apply (int_elem_roundtrip k MDec 10 true width x Hk Hx eq_refl (or_introl eq_refl)).
Qed.

Example ex_leading_zeros :
  read_elems no_p (s2b "@i8[010 -0017 08 09 00 -00 0x10 0_10 00_8 0__1]")%string = Ok (KI8, [10; 239; 8; 9; 0; 0; 16; 10; 8; 1]) /\
  go_int_text true 8 239 10 true 5 = s2b "-0017"%string.
Proof. vm_compute. split; reflexivity. Qed.
