(* C11 -- array validation ignores how the data is split (Model/Rules.v, section Exec:
   rule_chunk = ArrayRule/StringRule.OnArrayChunk, chunk_data = ArrayChunkRule/StringChunkRule.OnArrayData).
   Everything is parametric in [cfg] and in [call] (the parent rule's OnChildContainerEnded).

   Vocabulary
     chunk_fold sr ds c        fold chunk_data over the data events ds
     completes_at_last n ds    the events total n bytes and every proper prefix totals < n
                               (completes_from n a ds: the same with a bytes already received)
     stays_below n a ds        every non-empty prefix keeps the total < n
     adata / adata_step / adata_run   the pure per-chunk state machine
     array_fold sr chs c       rule_chunk followed by chunk_fold, chunk after chunk

   Theorems
   (1) chunk_data_factor      chunk_data = one adata_step on (utf8_rem, built, expected, actual,
                              validator), then end_chunk on the updated context if the chunk is full
       chunk_fold_incomplete  while the chunk is not full, chunk_fold = adata_run (context otherwise untouched)
       chunk_fold_factor      for events completing at the last one, chunk_fold = adata_run then end_chunk
       adata_run_string / adata_run_nonstring   adata_run in closed form (stream_fold / byte accounting)
   (2) string_chunk_fold      string rule, VUtf8: chunk_fold = end_chunk true (built ++ concat ds, rem [])
                              if utf8_valid (concat ds), None otherwise
       string_chunk_split_invariant   same bytes, two splittings => equal results
       end_chunk_spec         end_chunk with an empty remainder: back to the array rule, or the
                              final end_container_like true
   (3) plain_chunk_fold, plain_chunk_split_invariant (any two completing splittings, equal results),
       plain_chunk_split_invariant_concat
       chunk_fold_overflow    (both rules) the first event reaching the expected length overshoots it => None
   (4) whole_chunk            one non-empty chunk: rule_chunk (size limit) + its data events
       array_fold_spec        list of chunks: accepted, up to the final end_container_like true on an
                              explicit context, iff size limit and per-chunk validity hold
       array_fold_split_invariant   chunk-wise equal lengths/flags/bytes => equal results
       array_fold_after_begin_string / _plain   the same from the state right after begin_array
   Side conditions of (4): the more flag is set exactly on the non-last chunks (more_flags_ok), a chunk
   of length 0 carries no data events (rule_chunk leaves the rule RString/RArray, for which the table
   Gen/RulesTable.v has no MArrayData entry), a chunk of length > 0 expects ex > 0 bytes and its events
   complete at the last one, and the byte total stays below 2^64. *)
From CE Require Import Model.Rules Proofs.Utf8Lemmas Proofs.Utf8Stream.
From Coq Require Import ZifyN ZifyNat ZifyBool.
Open Scope N_scope.

(* ---- byte counting ---- *)
Lemma blen_nil : blen [] = 0.
Proof. reflexivity. Qed.

Lemma blen_app a b : blen (a ++ b) = blen a + blen b.
Proof. unfold blen. rewrite app_length, Nat2N.inj_add. reflexivity. Qed.

Lemma blen_concat_cons d (r : list bytes) : blen (concat (d :: r)) = blen d + blen (concat r).
Proof. cbn [concat]. apply blen_app. Qed.

Lemma blen_concat_app (a b : list bytes) : blen (concat (a ++ b)) = blen (concat a) + blen (concat b).
Proof. rewrite concat_app. apply blen_app. Qed.

(* every non-empty prefix of the events keeps the running total below n *)
Definition stays_below (n a : N) (ds : list bytes) : Prop :=
  forall pre suf, ds = pre ++ suf -> pre <> [] -> a + blen (concat pre) < n.

(* the events bring the total from a to exactly n, and not before the last one *)
Definition completes_from (n a : N) (ds : list bytes) : Prop :=
  a + blen (concat ds) = n /\
  forall pre suf, ds = pre ++ suf -> suf <> [] -> a + blen (concat pre) < n.

Definition completes_at_last (n : N) (ds : list bytes) : Prop := completes_from n 0 ds.

Lemma stays_below_cons n a d r :
  stays_below n a (d :: r) -> a + blen d < n /\ stays_below n (a + blen d) r.
Proof.
  intro H. split.
  - specialize (H [d] r eq_refl). cbn [concat] in H. rewrite app_nil_r in H.
    apply H. discriminate.
  - intros pre suf E Hp. specialize (H (d :: pre) suf).
    rewrite blen_concat_cons in H. rewrite <- N.add_assoc. apply H; [|discriminate].
    rewrite E. reflexivity.
Qed.

Lemma completes_from_cons n a d r :
  completes_from n a (d :: r) ->
  (r = [] /\ a < n /\ a + blen d = n) \/
  (r <> [] /\ a + blen d < n /\ completes_from n (a + blen d) r).
Proof.
  intros [T P]. destruct r as [|d' r'].
  - left. split; [reflexivity|]. split.
    + specialize (P [] [d] eq_refl). cbn [concat] in P. rewrite blen_nil, N.add_0_r in P.
      apply P. discriminate.
    + cbn [concat] in T. rewrite app_nil_r in T. exact T.
  - right. split; [discriminate|]. split.
    + specialize (P [d] (d' :: r') eq_refl). cbn [concat] in P. rewrite app_nil_r in P.
      apply P. discriminate.
    + split.
      * rewrite blen_concat_cons in T. rewrite <- N.add_assoc. exact T.
      * intros pre suf E Hs. specialize (P (d :: pre) suf).
        rewrite blen_concat_cons in P. rewrite <- N.add_assoc. apply P; [|exact Hs].
        rewrite E. reflexivity.
Qed.

Lemma completes_from_total n a ds : completes_from n a ds -> a + blen (concat ds) = n.
Proof. intros [T _]. exact T. Qed.

Lemma completes_from_nonempty n a ds : completes_from n a ds -> a < n -> ds <> [].
Proof.
  intros [T _] L E. subst ds. cbn [concat] in T. rewrite blen_nil in T. lia.
Qed.

(* computable form, for examples *)
Fixpoint completes_fromb (n a : N) (ds : list bytes) : bool :=
  match ds with
  | [] => false
  | d :: r =>
    match r with
    | [] => (a <? n) && (a + blen d =? n)
    | _ => (a + blen d <? n) && completes_fromb n (a + blen d) r
    end
  end.

Lemma completes_fromb_sound ds : forall n a, completes_fromb n a ds = true -> completes_from n a ds.
Proof.
  induction ds as [|d r IH]; intros n a H; [discriminate|].
  cbn [completes_fromb] in H. destruct r as [|d' r'].
  - apply andb_true_iff in H as [H1 H2]. apply N.ltb_lt in H1. apply N.eqb_eq in H2.
    split.
    + cbn [concat]. rewrite app_nil_r. exact H2.
    + intros pre suf E Hs. destruct pre as [|x pre].
      * cbn [concat]. rewrite blen_nil. lia.
      * cbn [app] in E. injection E as _ E. destruct pre; [|discriminate].
        cbn [app] in E. subst suf. congruence.
  - apply andb_true_iff in H as [H1 H2]. apply N.ltb_lt in H1.
    destruct (IH _ _ H2) as [T P]. split.
    + rewrite blen_concat_cons, N.add_assoc. exact T.
    + intros pre suf E Hs. destruct pre as [|x pre].
      * cbn [concat]. rewrite blen_nil. lia.
      * cbn [app] in E. injection E as <- E.
        rewrite blen_concat_cons, N.add_assoc. apply (P pre suf E Hs).
Qed.

(* ---- the accumulator of stream_fold is only an accumulator ---- *)
Lemma stream_fold_acc ds : forall rem pre x,
  stream_fold rem (pre ++ x) ds
  = match stream_fold rem x ds with Some (b, r) => Some (pre ++ b, r) | None => None end.
Proof.
  induction ds as [|d ds IH]; intros rem pre x; cbn [stream_fold]; [reflexivity|].
  destruct (stream_string_data rem d) as [[[f n] rem']|]; [|reflexivity].
  destruct (utf8_valid f && utf8_valid n); [|reflexivity].
  rewrite <- app_assoc. apply IH.
Qed.

Lemma stream_fold_from_nil built ds :
  stream_fold [] built ds
  = if utf8_valid (concat ds) then Some (built ++ concat ds, [])
    else match stream_fold [] built ds with
         | Some (b, x :: r) => Some (b, x :: r)
         | _ => None
         end.
Proof.
  destruct (utf8_valid (concat ds)) eqn:V.
  - apply stream_accepts_iff in V. unfold stream_accepts in V.
    rewrite <- (app_nil_r built) at 1. rewrite stream_fold_acc.
    destruct (stream_fold [] [] ds) as [[b r]|] eqn:S; [|discriminate].
    destruct r; [|discriminate]. rewrite (stream_fold_built ds b S). reflexivity.
  - destruct (stream_fold [] built ds) as [[b r]|] eqn:S; [|reflexivity].
    destruct r as [|x r]; [|reflexivity]. exfalso.
    rewrite <- (app_nil_r built) in S. rewrite stream_fold_acc in S.
    destruct (stream_fold [] [] ds) as [[b' r']|] eqn:S'; [|discriminate].
    injection S as _ ->.
    assert (A : stream_accepts ds = true) by (unfold stream_accepts; rewrite S'; reflexivity).
    apply stream_accepts_iff in A. congruence.
Qed.

Lemma length_ok_mono cfg a b : a <= b -> length_ok cfg b = true -> length_ok cfg a = true.
Proof. unfold length_ok. intros L H. lia. Qed.

Lemma length_ok_0 cfg : length_ok cfg 0 = true.
Proof. unfold length_ok. lia. Qed.

(* ---- (1) the pure per-chunk machine ---- *)
Record adata := {
  ad_rem : bytes;            (* utf8_rem *)
  ad_built : bytes;          (* built *)
  ad_expected : N;           (* chunk_expected *)
  ad_actual : N;             (* chunk_actual *)
  ad_validator : validator;  (* arr_validator *)
}.

Definition adata_of (c : rctx) : adata :=
  {| ad_rem := utf8_rem c; ad_built := built c; ad_expected := chunk_expected c;
     ad_actual := chunk_actual c; ad_validator := arr_validator c |}.

Definition adata_put (c : rctx) (a : adata) : rctx :=
  set_array c (arr_type c) (more_chunks c) (ad_built a) (arr_total c)
            (ad_expected a) (ad_actual a) (ad_rem a) (ad_validator a).

Definition adata_step (sr : bool) (d : bytes) (a : adata) : option adata :=
  let act := ad_actual a + blen d in
  if ad_expected a <? act then None else
  if sr then
    match stream_string_data (ad_rem a) d with
    | None => None
    | Some (first, next, rem') =>
      if validate_with (ad_validator a) first && validate_with (ad_validator a) next
      then Some {| ad_rem := rem'; ad_built := ad_built a ++ first ++ next;
                   ad_expected := ad_expected a; ad_actual := act; ad_validator := ad_validator a |}
      else None
    end
  else Some {| ad_rem := ad_rem a; ad_built := ad_built a; ad_expected := ad_expected a;
               ad_actual := act; ad_validator := ad_validator a |}.

Definition adata_complete (a : adata) : bool := ad_actual a =? ad_expected a.

Fixpoint adata_run (sr : bool) (ds : list bytes) (a : adata) : option adata :=
  match ds with
  | [] => Some a
  | d :: r => match adata_step sr d a with None => None | Some a' => adata_run sr r a' end
  end.

Lemma adata_of_put c a : adata_of (adata_put c a) = a.
Proof. destruct a. reflexivity. Qed.

Lemma adata_put_put c a a' : adata_put (adata_put c a) a' = adata_put c a'.
Proof. reflexivity. Qed.

Lemma adata_step_acct sr d a a' :
  adata_step sr d a = Some a' ->
  ad_actual a' = ad_actual a + blen d /\ ad_expected a' = ad_expected a /\
  ad_validator a' = ad_validator a /\ ad_actual a + blen d <= ad_expected a.
Proof.
  unfold adata_step. destruct (ad_expected a <? ad_actual a + blen d) eqn:Q; [discriminate|].
  apply N.ltb_ge in Q. destruct sr.
  - destruct (stream_string_data (ad_rem a) d) as [[[f n] r]|]; [|discriminate].
    destruct (validate_with (ad_validator a) f && validate_with (ad_validator a) n); [|discriminate].
    intro H. injection H as <-. cbn. repeat split. exact Q.
  - intro H. injection H as <-. cbn. repeat split. exact Q.
Qed.

Lemma adata_run_acct sr ds : forall a a',
  adata_run sr ds a = Some a' ->
  ad_actual a' = ad_actual a + blen (concat ds) /\ ad_expected a' = ad_expected a.
Proof.
  induction ds as [|d r IH]; intros a a' H; cbn [adata_run] in H.
  - injection H as <-. cbn [concat]. rewrite blen_nil, N.add_0_r. split; reflexivity.
  - destruct (adata_step sr d a) as [a1|] eqn:S; [|discriminate].
    destruct (adata_step_acct _ _ _ _ S) as [A1 [A2 _]].
    destruct (IH _ _ H) as [B1 B2].
    rewrite blen_concat_cons, N.add_assoc, <- A1, <- A2. split; assumption.
Qed.

(* closed forms of adata_run: only the total matters for the accounting *)
Lemma adata_run_nonstring ds : forall a,
  ad_actual a + blen (concat ds) <= ad_expected a ->
  adata_run false ds a
  = Some {| ad_rem := ad_rem a; ad_built := ad_built a; ad_expected := ad_expected a;
            ad_actual := ad_actual a + blen (concat ds); ad_validator := ad_validator a |}.
Proof.
  induction ds as [|d r IH]; intros a L; cbn [adata_run].
  - cbn [concat]. rewrite blen_nil, N.add_0_r. destruct a. reflexivity.
  - rewrite blen_concat_cons in L. unfold adata_step.
    assert (Q : (ad_expected a <? ad_actual a + blen d) = false) by (apply N.ltb_ge; lia).
    rewrite Q. rewrite IH; cbn [ad_rem ad_built ad_expected ad_actual ad_validator].
    + rewrite blen_concat_cons, N.add_assoc. reflexivity.
    + lia.
Qed.

Lemma adata_run_string ds : forall a,
  ad_validator a = VUtf8 ->
  ad_actual a + blen (concat ds) <= ad_expected a ->
  adata_run true ds a
  = match stream_fold (ad_rem a) (ad_built a) ds with
    | None => None
    | Some (b, r) =>
      Some {| ad_rem := r; ad_built := b; ad_expected := ad_expected a;
              ad_actual := ad_actual a + blen (concat ds); ad_validator := VUtf8 |}
    end.
Proof.
  induction ds as [|d r IH]; intros a V L; cbn [adata_run stream_fold].
  - cbn [concat]. rewrite blen_nil, N.add_0_r. destruct a. cbn in *. subst. reflexivity.
  - rewrite blen_concat_cons in L. unfold adata_step.
    assert (Q : (ad_expected a <? ad_actual a + blen d) = false) by (apply N.ltb_ge; lia).
    rewrite Q, V. cbn [validate_with].
    destruct (stream_string_data (ad_rem a) d) as [[[f n] rem']|]; [|reflexivity].
    destruct (utf8_valid f && utf8_valid n); [|reflexivity].
    rewrite IH; cbn [ad_rem ad_built ad_expected ad_actual ad_validator].
    + rewrite blen_concat_cons, N.add_assoc. reflexivity.
    + reflexivity.
    + lia.
Qed.

Section Array.
  Variable cfg : rcfg.
  Variable call : rule -> meth -> args -> rctx -> option rctx.

  Fixpoint chunk_fold (sr : bool) (ds : list bytes) (c : rctx) : option rctx :=
    match ds with
    | [] => Some c
    | d :: r => match chunk_data call sr d c with None => None | Some c' => chunk_fold sr r c' end
    end.

  Lemma chunk_fold_app sr a : forall b c,
    chunk_fold sr (a ++ b) c
    = match chunk_fold sr a c with None => None | Some c' => chunk_fold sr b c' end.
  Proof.
    induction a as [|d a IH]; intros b c; cbn [app chunk_fold]; [reflexivity|].
    destruct (chunk_data call sr d c); [apply IH | reflexivity].
  Qed.

  (* (1) one data event *)
  Theorem chunk_data_factor sr d c :
    chunk_data call sr d c
    = match adata_step sr d (adata_of c) with
      | None => None
      | Some a' => if adata_complete a' then end_chunk call sr (adata_put c a')
                   else Some (adata_put c a')
      end.
  Proof.
    unfold chunk_data, adata_step, adata_complete, adata_put, adata_of.
    cbv zeta. cbn [ad_rem ad_built ad_expected ad_actual ad_validator].
    destruct (chunk_expected c <? chunk_actual c + blen d); [reflexivity|].
    destruct sr.
    - destruct (stream_string_data (utf8_rem c) d) as [[[f n] r]|]; [|reflexivity].
      destruct (validate_with (arr_validator c) f && validate_with (arr_validator c) n);
        reflexivity.
    - reflexivity.
  Qed.

  (* several data events that do not fill the chunk *)
  Theorem chunk_fold_incomplete sr ds : forall c,
    stays_below (chunk_expected c) (chunk_actual c) ds ->
    chunk_fold sr ds c
    = match adata_run sr ds (adata_of c) with None => None | Some a' => Some (adata_put c a') end.
  Proof.
    induction ds as [|d r IH]; intros c B; cbn [chunk_fold adata_run].
    - unfold adata_put, adata_of. cbn. destruct c. reflexivity.
    - apply stays_below_cons in B as [B1 B2].
      rewrite chunk_data_factor.
      destruct (adata_step sr d (adata_of c)) as [a1|] eqn:S; [|reflexivity].
      destruct (adata_step_acct _ _ _ _ S) as [A1 [A2 _]]. cbn in A1, A2.
      assert (Q : adata_complete a1 = false).
      { unfold adata_complete. apply N.eqb_neq. rewrite A1, A2. lia. }
      rewrite Q. rewrite IH.
      + rewrite adata_of_put. destruct (adata_run sr r a1); reflexivity.
      + change (chunk_expected (adata_put c a1)) with (ad_expected a1).
        change (chunk_actual (adata_put c a1)) with (ad_actual a1).
        rewrite A1, A2. exact B2.
  Qed.

  (* data events that fill the chunk exactly at the last one *)
  Theorem chunk_fold_factor sr ds : forall c,
    ds <> [] ->
    completes_from (chunk_expected c) (chunk_actual c) ds ->
    chunk_fold sr ds c
    = match adata_run sr ds (adata_of c) with
      | None => None
      | Some a' => end_chunk call sr (adata_put c a')
      end.
  Proof.
    induction ds as [|d r IH]; intros c NE C; [congruence|]. clear NE.
    cbn [chunk_fold adata_run]. rewrite chunk_data_factor.
    destruct (adata_step sr d (adata_of c)) as [a1|] eqn:S; [|reflexivity].
    destruct (adata_step_acct _ _ _ _ S) as [A1 [A2 _]]. cbn in A1, A2.
    destruct (completes_from_cons _ _ _ _ C) as [[-> [_ T]] | [NE [L C']]].
    - assert (Q : adata_complete a1 = true).
      { unfold adata_complete. apply N.eqb_eq. rewrite A1, A2. exact T. }
      rewrite Q. cbn [chunk_fold adata_run].
      destruct (end_chunk call sr (adata_put c a1)); reflexivity.
    - assert (Q : adata_complete a1 = false).
      { unfold adata_complete. apply N.eqb_neq. rewrite A1, A2. lia. }
      rewrite Q. rewrite (IH _ NE).
      + rewrite adata_of_put. destruct (adata_run sr r a1); reflexivity.
      + change (chunk_expected (adata_put c a1)) with (ad_expected a1).
        change (chunk_actual (adata_put c a1)) with (ad_actual a1).
        rewrite A1, A2. exact C'.
  Qed.

  (* end_chunk once no partial character is pending *)
  Lemma end_chunk_spec sr c :
    (sr = true -> utf8_rem c = []) ->
    end_chunk call sr c
    = if more_chunks c then Some (set_rule c (if sr then RString else RArray))
      else end_container_like call true c.
  Proof.
    intro H. unfold end_chunk, try_end_array.
    assert (Q : sr && negb (Nat.eqb (length (utf8_rem c)) 0) = false).
    { destruct sr; [|reflexivity]. rewrite (H eq_refl). reflexivity. }
    rewrite Q. destruct (more_chunks c); [reflexivity|].
    destruct (end_container_like call true c); reflexivity.
  Qed.

  Lemma end_chunk_pending c x r : utf8_rem c = x :: r -> end_chunk call true c = None.
  Proof. intro H. unfold end_chunk. rewrite H. reflexivity. Qed.

  (* (2) one chunk of the string rule *)
  Theorem string_chunk_fold c n ds :
    chunk_expected c = n -> chunk_actual c = 0 -> utf8_rem c = [] -> arr_validator c = VUtf8 ->
    0 < n -> completes_at_last n ds ->
    chunk_fold true ds c
    = if utf8_valid (concat ds)
      then end_chunk call true
             (set_array c (arr_type c) (more_chunks c) (built c ++ concat ds) (arr_total c) n n [] VUtf8)
      else None.
  Proof.
    intros He Ha Hr Hv Hn C. unfold completes_at_last in C.
    pose proof (completes_from_total _ _ _ C) as T.
    rewrite chunk_fold_factor.
    2:{ apply (completes_from_nonempty n 0); assumption. }
    2:{ rewrite He, Ha. exact C. }
    rewrite adata_run_string; cbn [adata_of ad_rem ad_built ad_expected ad_actual ad_validator].
    2:{ exact Hv. }
    2:{ rewrite He, Ha. lia. }
    rewrite Hr, Ha, He, T. rewrite stream_fold_from_nil.
    destruct (utf8_valid (concat ds)); [reflexivity|].
    destruct (stream_fold [] (built c) ds) as [[b [|x r]]|]; reflexivity.
  Qed.

  Theorem string_chunk_split_invariant c n ds1 ds2 :
    chunk_expected c = n -> chunk_actual c = 0 -> utf8_rem c = [] -> arr_validator c = VUtf8 ->
    0 < n -> completes_at_last n ds1 -> completes_at_last n ds2 ->
    concat ds1 = concat ds2 ->
    chunk_fold true ds1 c = chunk_fold true ds2 c.
  Proof.
    intros He Ha Hr Hv Hn C1 C2 E.
    rewrite (string_chunk_fold c n ds1), (string_chunk_fold c n ds2) by assumption.
    rewrite E. reflexivity.
  Qed.

  (* (3) one chunk of the plain array rule: byte accounting only *)
  Theorem plain_chunk_fold c n ds :
    chunk_expected c = n -> chunk_actual c = 0 -> 0 < n -> completes_at_last n ds ->
    chunk_fold false ds c
    = end_chunk call false
        (set_array c (arr_type c) (more_chunks c) (built c) (arr_total c) n n (utf8_rem c) (arr_validator c)).
  Proof.
    intros He Ha Hn C. unfold completes_at_last in C.
    pose proof (completes_from_total _ _ _ C) as T.
    rewrite chunk_fold_factor.
    2:{ apply (completes_from_nonempty n 0); assumption. }
    2:{ rewrite He, Ha. exact C. }
    rewrite adata_run_nonstring; cbn [adata_of ad_rem ad_built ad_expected ad_actual ad_validator].
    2:{ rewrite He, Ha. lia. }
    rewrite Ha, He, T. reflexivity.
  Qed.

  Theorem plain_chunk_split_invariant c n ds1 ds2 :
    chunk_expected c = n -> chunk_actual c = 0 -> 0 < n ->
    completes_at_last n ds1 -> completes_at_last n ds2 ->
    chunk_fold false ds1 c = chunk_fold false ds2 c.
  Proof.
    intros He Ha Hn C1 C2.
    rewrite (plain_chunk_fold c n ds1), (plain_chunk_fold c n ds2) by assumption. reflexivity.
  Qed.

  Corollary plain_chunk_split_invariant_concat c n ds1 ds2 :
    chunk_expected c = n -> chunk_actual c = 0 -> 0 < n ->
    completes_at_last n ds1 -> completes_at_last n ds2 ->
    concat ds1 = concat ds2 ->
    chunk_fold false ds1 c = chunk_fold false ds2 c.
  Proof. intros He Ha Hn C1 C2 _. apply (plain_chunk_split_invariant c n); assumption. Qed.

  (* too much data: the event that reaches the expected length overshoots it *)
  Theorem chunk_fold_overflow sr pre d suf c :
    stays_below (chunk_expected c) (chunk_actual c) pre ->
    chunk_expected c < chunk_actual c + blen (concat pre) + blen d ->
    chunk_fold sr (pre ++ d :: suf) c = None.
  Proof.
    intros B O. rewrite chunk_fold_app, (chunk_fold_incomplete sr pre c B).
    destruct (adata_run sr pre (adata_of c)) as [a1|] eqn:R; [|reflexivity].
    destruct (adata_run_acct _ _ _ _ R) as [A1 A2]. cbn in A1, A2.
    cbn [chunk_fold]. rewrite chunk_data_factor, adata_of_put.
    unfold adata_step.
    assert (Q : (ad_expected a1 <? ad_actual a1 + blen d) = true).
    { apply N.ltb_lt. rewrite A1, A2. exact O. }
    rewrite Q. reflexivity.
  Qed.

  (* ---- (4) whole chunks and whole arrays ---- *)
  Definition chunk := (N * bool * list bytes)%type.     (* declared length, more flag, data events *)
  Definition ch_len (ch : chunk) : N := fst (fst ch).
  Definition ch_more (ch : chunk) : bool := snd (fst ch).
  Definition ch_ds (ch : chunk) : list bytes := snd ch.

  (* bytes expected for a chunk of len elements *)
  Definition chunk_bytes (sr : bool) (t : arrty) (len : N) : option N :=
    if sr then Some len
    else match array_bits t with Some bits => Some (elem_byte_count bits len) | None => None end.

  Definition chunk_whole (sr : bool) (ch : chunk) (c : rctx) : option rctx :=
    match rule_chunk cfg call sr (ch_len ch) (ch_more ch) c with
    | None => None
    | Some c1 => chunk_fold sr (ch_ds ch) c1
    end.

  Fixpoint array_fold (sr : bool) (chs : list chunk) (c : rctx) : option rctx :=
    match chs with
    | [] => Some c
    | ch :: r => match chunk_whole sr ch c with None => None | Some c' => array_fold sr r c' end
    end.

  Definition data_ok (sr : bool) (ds : list bytes) : bool :=
    if sr then utf8_valid (concat ds) else true.

  (* the context after a complete chunk of ex > 0 bytes *)
  Definition chunk_done (sr : bool) (c : rctx) (more : bool) (ex : N) (data : bytes) : rctx :=
    set_rule
      (set_array c (arr_type c) more (if sr then built c ++ data else built c) (arr_total c + ex)
                 ex ex (utf8_rem c) (arr_validator c))
      (if more then (if sr then RString else RArray) else (if sr then RStringChunk else RArrayChunk)).

  Theorem whole_chunk sr c len more ds ex :
    len <> 0 ->
    chunk_bytes sr (arr_type c) len = Some ex -> 0 < ex ->
    arr_total c + ex < two64 ->
    (sr = true -> utf8_rem c = [] /\ arr_validator c = VUtf8) ->
    completes_at_last ex ds ->
    chunk_whole sr (len, more, ds) c
    = if length_ok cfg (arr_total c + ex) && data_ok sr ds
      then (if more then Some (chunk_done sr c more ex (concat ds))
            else end_container_like call true (chunk_done sr c more ex (concat ds)))
      else None.
  Proof.
    intros Hl Hb Hex Ht Hs C.
    unfold chunk_whole, ch_len, ch_more, ch_ds. cbn [fst snd].
    unfold rule_chunk. apply N.eqb_neq in Hl. rewrite Hl.
    assert (Hb' : (if sr then Some len
                   else match array_bits (arr_type c) with
                        | Some bits => Some (elem_byte_count bits len) | None => None end) = Some ex)
      by exact Hb.
    rewrite Hb'. cbv zeta. rewrite (N.mod_small _ _ Ht).
    unfold length_ok.
    destruct ((max_array_size_bytes cfg <? arr_total c + ex) && (0 <? max_array_size_bytes cfg));
      cbn [negb andb]; [reflexivity|].
    destruct sr.
    - destruct (Hs eq_refl) as [Hr Hv].
      rewrite (string_chunk_fold _ ex ds); try assumption; try reflexivity.
      unfold data_ok. destruct (utf8_valid (concat ds)); [|reflexivity].
      rewrite end_chunk_spec by reflexivity.
      unfold chunk_done. rewrite Hr, Hv. destruct more; reflexivity.
    - rewrite (plain_chunk_fold _ ex ds); try assumption; try reflexivity.
      rewrite end_chunk_spec by discriminate.
      unfold chunk_done, data_ok. destruct more; reflexivity.
  Qed.

  Definition chunk_shape (sr : bool) (t : arrty) (ch : chunk) : Prop :=
    if ch_len ch =? 0 then ch_ds ch = []
    else exists ex, chunk_bytes sr t (ch_len ch) = Some ex /\ 0 < ex /\ completes_at_last ex (ch_ds ch).

  (* the more flag: set on every chunk but the last *)
  Fixpoint more_flags_ok (chs : list chunk) : bool :=
    match chs with
    | [] => false
    | ch :: r => match r with [] => negb (ch_more ch) | _ => ch_more ch && more_flags_ok r end
    end.

  Definition ch_bytes (sr : bool) (t : arrty) (ch : chunk) : N :=
    if ch_len ch =? 0 then 0
    else match chunk_bytes sr t (ch_len ch) with Some ex => ex | None => 0 end.

  Fixpoint total_bytes (sr : bool) (t : arrty) (chs : list chunk) : N :=
    match chs with [] => 0 | ch :: r => ch_bytes sr t ch + total_bytes sr t r end.

  Definition all_data_ok (sr : bool) (chs : list chunk) : bool :=
    forallb (fun ch => data_ok sr (ch_ds ch)) chs.

  (* the context handed to the final end_container_like *)
  Fixpoint array_final (sr : bool) (chs : list chunk) (c : rctx) : rctx :=
    match chs with
    | [] => c
    | ch :: r =>
      array_final sr r
        (if ch_len ch =? 0 then c
         else chunk_done sr c (ch_more ch) (ch_bytes sr (arr_type c) ch) (concat (ch_ds ch)))
    end.

  Theorem array_fold_spec sr chs : forall c,
    (sr = true -> utf8_rem c = [] /\ arr_validator c = VUtf8) ->
    length_ok cfg (arr_total c) = true ->
    Forall (chunk_shape sr (arr_type c)) chs ->
    more_flags_ok chs = true ->
    arr_total c + total_bytes sr (arr_type c) chs < two64 ->
    array_fold sr chs c
    = if length_ok cfg (arr_total c + total_bytes sr (arr_type c) chs) && all_data_ok sr chs
      then end_container_like call true (array_final sr chs c)
      else None.
  Proof.
    induction chs as [|ch r IH]; intros c Hs Hok Hsh Hm Ht; [discriminate|].
    inversion Hsh as [|ch' r' Sh Hsh']; subst ch' r'. clear Hsh.
    destruct ch as [[len more] ds].
    assert (Hm' : match r with
                  | [] => more = false
                  | _ => more = true /\ more_flags_ok r = true
                  end).
    { cbn [more_flags_ok] in Hm. unfold ch_more in Hm. cbn [fst snd] in Hm.
      destruct r; [destruct more; [discriminate | reflexivity] | apply andb_true_iff in Hm; exact Hm]. }
    clear Hm.
    cbn [array_fold total_bytes all_data_ok forallb array_final] in Ht |- *.
    unfold chunk_shape in Sh. unfold ch_bytes in Ht |- *.
    unfold ch_len, ch_more, ch_ds in Sh, Ht |- *. cbn [fst snd] in Sh, Ht |- *.
    destruct (len =? 0) eqn:Z.
    - (* an empty chunk: no data, nothing recorded *)
      subst ds. apply N.eqb_eq in Z. subst len.
      assert (W : chunk_whole sr (0, more, []) c
                  = if more then Some c else end_container_like call true c).
      { unfold chunk_whole, rule_chunk, try_end_array, ch_len, ch_more, ch_ds. cbn [fst snd].
        change (0 =? 0) with true. cbv iota. destruct more; [reflexivity|].
        destruct (end_container_like call true c); reflexivity. }
      rewrite W. rewrite N.add_0_l in Ht |- *.
      assert (D : data_ok sr [] = true) by (destruct sr; reflexivity).
      rewrite D. cbn [andb].
      destruct r as [|ch2 r2].
      + subst more.
        cbn [total_bytes all_data_ok forallb array_final array_fold].
        rewrite N.add_0_r, Hok. cbn [andb].
        destruct (end_container_like call true c); reflexivity.
      + destruct Hm' as [-> Hm]. apply IH; assumption.
    - (* a chunk with data *)
      destruct Sh as [ex [Hb [Hex C]]]. rewrite Hb in Ht |- *.
      apply N.eqb_neq in Z.
      assert (Ht1 : arr_total c + ex < two64) by lia.
      rewrite (whole_chunk sr c len more ds ex Z Hb Hex Ht1 Hs C).
      destruct r as [|ch2 r2].
      + subst more.
        cbn [total_bytes all_data_ok forallb array_final array_fold].
        rewrite N.add_0_r, andb_true_r.
        destruct (length_ok cfg (arr_total c + ex) && data_ok sr ds); [|reflexivity].
        destruct (end_container_like call true (chunk_done sr c false ex (concat ds))); reflexivity.
      + destruct Hm' as [-> Hm].
        set (c' := chunk_done sr c true ex (concat ds)).
        assert (Et : arr_type c' = arr_type c) by reflexivity.
        assert (Ea : arr_total c' = arr_total c + ex) by reflexivity.
        destruct (length_ok cfg (arr_total c + ex)) eqn:L1; cbn [andb].
        * destruct (data_ok sr ds) eqn:D1; cbn [andb].
          -- rewrite IH.
             ++ rewrite Et, Ea, N.add_assoc. reflexivity.
             ++ exact Hs.
             ++ rewrite Ea. exact L1.
             ++ rewrite Et. exact Hsh'.
             ++ exact Hm.
             ++ rewrite Et, Ea. lia.
          -- rewrite andb_false_r. reflexivity.
        * assert (L2 : length_ok cfg (arr_total c + (ex + total_bytes sr (arr_type c) (ch2 :: r2)))
                       = false).
          { destruct (length_ok cfg (arr_total c + (ex + total_bytes sr (arr_type c) (ch2 :: r2))))
              eqn:L2; [|reflexivity].
            assert (L1' : length_ok cfg (arr_total c + ex) = true).
            { apply (length_ok_mono cfg _ (arr_total c + (ex + total_bytes sr (arr_type c) (ch2 :: r2))));
                [lia | exact L2]. }
            congruence. }
          rewrite L2. reflexivity.
  Qed.

  (* chunk lists that differ only in how each chunk's bytes are cut into data events *)
  Definition chunk_equiv (ch1 ch2 : chunk) : Prop :=
    ch_len ch1 = ch_len ch2 /\ ch_more ch1 = ch_more ch2 /\ concat (ch_ds ch1) = concat (ch_ds ch2).

  Lemma chunk_equiv_summary sr chs1 chs2 :
    Forall2 chunk_equiv chs1 chs2 ->
    (forall t, total_bytes sr t chs1 = total_bytes sr t chs2) /\
    all_data_ok sr chs1 = all_data_ok sr chs2 /\
    (forall c, array_final sr chs1 c = array_final sr chs2 c).
  Proof.
    induction 1 as [|ch1 ch2 r1 r2 [E1 [E2 E3]] F [IH1 [IH2 IH3]]].
    - repeat split.
    - split; [|split].
      + intro t. cbn [total_bytes]. unfold ch_bytes. rewrite E1, IH1. reflexivity.
      + cbn [all_data_ok forallb]. unfold data_ok. rewrite E3. f_equal. exact IH2.
      + intro c. cbn [array_final]. unfold ch_bytes. rewrite E1, E2, E3. apply IH3.
  Qed.

  Theorem array_fold_split_invariant sr chs1 chs2 c :
    (sr = true -> utf8_rem c = [] /\ arr_validator c = VUtf8) ->
    length_ok cfg (arr_total c) = true ->
    Forall (chunk_shape sr (arr_type c)) chs1 ->
    Forall (chunk_shape sr (arr_type c)) chs2 ->
    more_flags_ok chs1 = true -> more_flags_ok chs2 = true ->
    arr_total c + total_bytes sr (arr_type c) chs1 < two64 ->
    Forall2 chunk_equiv chs1 chs2 ->
    array_fold sr chs1 c = array_fold sr chs2 c.
  Proof.
    intros Hs Hok S1 S2 M1 M2 Ht F.
    destruct (chunk_equiv_summary sr chs1 chs2 F) as [T [D A]].
    rewrite (array_fold_spec sr chs1 c), (array_fold_spec sr chs2 c); try assumption.
    - rewrite T, D, A. reflexivity.
    - rewrite <- T. exact Ht.
  Qed.

  (* from the state right after begin_array *)
  Corollary array_fold_after_begin_string t dt c0 chs :
    let c := begin_array t RString dt VUtf8 c0 in
    Forall (chunk_shape true t) chs ->
    more_flags_ok chs = true ->
    total_bytes true t chs < two64 ->
    array_fold true chs c
    = if length_ok cfg (total_bytes true t chs) && all_data_ok true chs
      then end_container_like call true (array_final true chs c)
      else None.
  Proof.
    intros c Hsh Hm Ht.
    rewrite (array_fold_spec true chs c); try assumption.
    - reflexivity.
    - intros _. split; reflexivity.
    - apply length_ok_0.
  Qed.

  Corollary array_fold_after_begin_plain t dt c0 chs :
    let c := begin_array t RArray dt VNothing c0 in
    Forall (chunk_shape false t) chs ->
    more_flags_ok chs = true ->
    total_bytes false t chs < two64 ->
    array_fold false chs c
    = if length_ok cfg (total_bytes false t chs)
      then end_container_like call true (array_final false chs c)
      else None.
  Proof.
    intros c Hsh Hm Ht.
    rewrite (array_fold_spec false chs c); try assumption.
    - assert (D : all_data_ok false chs = true).
      { unfold all_data_ok. apply forallb_forall. intros; reflexivity. }
      rewrite D, andb_true_r. reflexivity.
    - discriminate.
    - apply length_ok_0.
  Qed.
End Array.

(* ---- non-vacuity ---- *)
(* U+20AC delivered 1+0+2 *)
Example completes_at_last_ex : completes_at_last 3 [[226]; []; [130; 172]].
Proof. apply completes_fromb_sound. vm_compute. reflexivity. Qed.

Example string_chunk_ex :
  let c := set_array init_rctx AT_String true [65] 1 3 0 [] VUtf8 in
  chunk_fold (fun _ _ _ c => Some c) true [[226]; []; [130; 172]] c
  = Some (set_rule (set_array c AT_String true [65; 226; 130; 172] 1 3 3 [] VUtf8) RString)
  /\ chunk_fold (fun _ _ _ c => Some c) true [[226; 130]; [65]] c = None       (* invalid *)
  /\ chunk_fold (fun _ _ _ c => Some c) true [[226; 130]; [172; 65]] c = None. (* too long *)
Proof. vm_compute. repeat split. Qed.

(* "A" U+00E9 | (empty chunk) | U+20AC, the data of each chunk cut inside the characters *)
Example array_shape_ex :
  let chs : list chunk := [(3, true, [[65; 195]; [169]]); (0, true, []); (3, false, [[226]; [130]; [172]])] in
  Forall (chunk_shape true AT_String) chs /\ more_flags_ok chs = true /\
  total_bytes true AT_String chs = 6 /\ all_data_ok true chs = true.
Proof.
  cbv zeta. split; [|vm_compute; repeat split].
  repeat constructor; unfold chunk_shape, ch_len, ch_ds; cbn [fst snd N.eqb Pos.eqb];
    try reflexivity;
    (eexists; split; [reflexivity|]; split; [reflexivity|];
     apply completes_fromb_sound; vm_compute; reflexivity).
Qed.

(* the same array run from begin_array; a chunk boundary inside U+00E9 is rejected although the
   concatenation of all the data is the same valid string *)
Example array_fold_ex :
  let call := fun (_ : rule) (_ : meth) (_ : args) (c : rctx) => Some c in
  match begin_array_any AT_String init_rctx with
  | Some c =>
    option_map built
      (array_fold default_rcfg call true
         [(3, true, [[65; 195]; [169]]); (0, true, []); (3, false, [[226]; [130]; [172]])] c)
    = Some [65; 195; 169; 226; 130; 172]
    /\ array_fold default_rcfg call true [(2, true, [[65; 195]]); (4, false, [[169; 226; 130; 172]])] c
       = None
  | None => False
  end.
Proof. vm_compute. split; reflexivity. Qed.

Print Assumptions chunk_data_factor.
Print Assumptions string_chunk_fold.
Print Assumptions string_chunk_split_invariant.
Print Assumptions plain_chunk_split_invariant.
Print Assumptions chunk_fold_overflow.
Print Assumptions array_fold_spec.
Print Assumptions array_fold_split_invariant.
Print Assumptions array_fold_after_begin_string.
