(* C21 — lemmas about Model/Fields.v. *)
From Coq Require Import ZifyN ZifyNat ZifyBool Permutation Sorted.
From CE Require Import Model.Fields.
Open Scope N_scope.

(* ------------------------------------------------------------------------- *)
(* Character classes                                                          *)

Lemma upper_not_lower c : is_upper c = true -> is_lower c = false.
Proof. unfold is_upper, is_lower. lia. Qed.
Lemma upper_not_digit c : is_upper c = true -> is_digit c = false.
Proof. unfold is_upper, is_digit. lia. Qed.
Lemma lower_not_upper c : is_lower c = true -> is_upper c = false.
Proof. unfold is_upper, is_lower. lia. Qed.

(* ------------------------------------------------------------------------- *)
(* The two regexes as one-pass insertions                                     *)

(* second regex: an underscore between every [a-z0-9][A-Z] pair *)
Definition cond2 (a b : N) : bool := (is_lower a || is_digit a) && is_upper b.
Fixpoint snake2_simple (s : str) : str :=
  match s with
  | a :: (b :: _) as t => if cond2 a b then a :: underscore :: snake2_simple t else a :: snake2_simple t
  | _ => s
  end.

(* first regex: an underscore between X and Y wherever X, Y are capitals and a
   lower-case letter follows Y *)
Definition cond1 (a b c : N) : bool := is_upper a && is_upper b && is_lower c.
Fixpoint snake1_simple (s : str) : str :=
  match s with
  | a :: t =>
    match t with
    | b :: c :: _ => if cond1 a b c then a :: underscore :: snake1_simple t else a :: snake1_simple t
    | _ => a :: snake1_simple t
    end
  | [] => []
  end.

Lemma snake2_simple_upper b r : is_upper b = true -> snake2_simple (b :: r) = b :: snake2_simple r.
Proof.
  intro Hb. destruct r as [|x r]; [reflexivity|].
  cbn [snake2_simple]. unfold cond2. rewrite (upper_not_lower _ Hb), (upper_not_digit _ Hb). reflexivity.
Qed.

Lemma snake2_eq_aux : forall n s, (length s <= n)%nat -> snake2 s = snake2_simple s.
Proof.
  induction n as [|n IH]; intros s Hn.
  - destruct s; [reflexivity | simpl in Hn; lia].
  - destruct s as [|a [|b r]]; try reflexivity.
    change (snake2 (a :: b :: r)) with
      (if cond2 a b then a :: underscore :: b :: snake2 r else a :: snake2 (b :: r)).
    change (snake2_simple (a :: b :: r)) with
      (if cond2 a b then a :: underscore :: snake2_simple (b :: r) else a :: snake2_simple (b :: r)).
    destruct (cond2 a b) eqn:E.
    + unfold cond2 in E. apply andb_true_iff in E as [_ Hb].
      rewrite (snake2_simple_upper b r Hb).
      rewrite (IH r) by (simpl in Hn; lia). reflexivity.
    + rewrite (IH (b :: r)) by (simpl in *; lia). reflexivity.
Qed.

Lemma snake2_eq s : snake2 s = snake2_simple s.
Proof. apply (snake2_eq_aux (length s)). lia. Qed.

Lemma m1_spec : forall s g1 g2 r,
  m1 s = Some (g1, g2, r) ->
  exists b c, g2 = [b; c] /\ is_upper b = true /\ is_lower c = true /\
              s = g1 ++ b :: c :: r /\ g1 <> [] /\ Forall (fun x => is_upper x = true) g1.
Proof.
  induction s as [|a t IH]; intros g1 g2 r H; [discriminate|].
  cbn [m1] in H. destruct (is_upper a) eqn:Ha; [|discriminate].
  destruct (m1 t) as [[[g1' g2'] r']|] eqn:Et.
  - inversion H; subst. destruct (IH _ _ _ eq_refl) as (b & c & -> & Hb & Hc & -> & Hne & Hall).
    exists b, c. split; [reflexivity|]. split; [exact Hb|]. split; [exact Hc|].
    split; [reflexivity|]. split; [discriminate|]. constructor; assumption.
  - destruct t as [|b [|c r0]]; try discriminate.
    destruct (is_upper b && is_lower c) eqn:Ebc; [|discriminate].
    apply andb_true_iff in Ebc as [Hb Hc]. inversion H; subst.
    exists b, c. split; [reflexivity|]. split; [exact Hb|]. split; [exact Hc|].
    split; [reflexivity|]. split; [discriminate|]. constructor; [assumption|constructor].
Qed.

Lemma m1_cons a t :
  m1 (a :: t) =
  if is_upper a then
    match m1 t with
    | Some (g1, g2, r) => Some (a :: g1, g2, r)
    | None => match t with
              | b :: c :: r => if is_upper b && is_lower c then Some ([a], [b; c], r) else None
              | _ => None
              end
    end
  else None.
Proof. reflexivity. Qed.

Lemma snake1_simple_cons3 a b c r :
  snake1_simple (a :: b :: c :: r) =
  if cond1 a b c then a :: underscore :: snake1_simple (b :: c :: r) else a :: snake1_simple (b :: c :: r).
Proof. reflexivity. Qed.

Lemma snake1_simple_nocond a t :
  (forall b c r, t = b :: c :: r -> cond1 a b c = false) ->
  snake1_simple (a :: t) = a :: snake1_simple t.
Proof.
  intro H. destruct t as [|b [|c r]]; try reflexivity.
  rewrite snake1_simple_cons3, (H b c r eq_refl). reflexivity.
Qed.

Lemma snake1_simple_lower c r : is_lower c = true -> snake1_simple (c :: r) = c :: snake1_simple r.
Proof.
  intro Hc. apply snake1_simple_nocond. intros b c' r' _.
  unfold cond1. rewrite (lower_not_upper _ Hc). reflexivity.
Qed.

Lemma snake1_simple_run : forall g1 b c r,
  Forall (fun x => is_upper x = true) g1 -> g1 <> [] ->
  is_upper b = true -> is_lower c = true ->
  snake1_simple (g1 ++ b :: c :: r) = g1 ++ underscore :: b :: c :: snake1_simple r.
Proof.
  induction g1 as [|a g IH]; intros b c r Hall Hne Hb Hc; [congruence|].
  inversion Hall as [|? ? Ha Hg]; subst.
  destruct g as [|a' g'].
  - cbn [app]. rewrite snake1_simple_cons3. unfold cond1 at 1. rewrite Ha, Hb, Hc. cbn [andb].
    f_equal. f_equal.
    rewrite (snake1_simple_nocond b (c :: r)).
    + rewrite (snake1_simple_lower c r Hc). reflexivity.
    + intros b' c' r' E. inversion E; subst. unfold cond1.
      rewrite (lower_not_upper _ Hc). rewrite andb_false_r. reflexivity.
  - change ((a :: a' :: g') ++ b :: c :: r) with (a :: (a' :: g') ++ b :: c :: r).
    rewrite (snake1_simple_nocond a).
    + rewrite (IH b c r Hg ltac:(discriminate) Hb Hc). reflexivity.
    + intros b' c' r' E. cbn [app] in E. inversion E as [[E1 E2]]. subst b'.
      assert (Hy : is_upper c' = true).
      { destruct g' as [|z g'']; cbn in E2; inversion E2; subst; auto.
        inversion Hg as [|? ? _ Hg']; inversion Hg'; auto. }
      unfold cond1. rewrite (upper_not_lower _ Hy). rewrite andb_false_r. reflexivity.
Qed.

Lemma m1_none a t :
  m1 (a :: t) = None -> snake1_simple (a :: t) = a :: snake1_simple t.
Proof.
  intro H. apply snake1_simple_nocond. intros b c r ->.
  destruct (cond1 a b c) eqn:E; [|reflexivity]. exfalso.
  unfold cond1 in E. apply andb_true_iff in E as [E Hc]. apply andb_true_iff in E as [Ha Hb].
  rewrite m1_cons in H. rewrite Ha in H.
  destruct (m1 (b :: c :: r)) as [[[? ?] ?]|]; [discriminate|].
  rewrite Hb, Hc in H. discriminate.
Qed.

Lemma snake1_eq_aux : forall fuel s, (length s <= fuel)%nat -> snake1_fuel fuel s = snake1_simple s.
Proof.
  induction fuel as [|k IH]; intros s Hl.
  - destruct s; [reflexivity | simpl in Hl; lia].
  - destruct s as [|a t]; [reflexivity|].
    cbn [snake1_fuel].
    destruct (m1 (a :: t)) as [[[g1 g2] r]|] eqn:Em.
    + destruct (m1_spec _ _ _ _ Em) as (b & c & -> & Hb & Hc & Hs & Hne & Hall).
      rewrite Hs. rewrite (snake1_simple_run g1 b c r Hall Hne Hb Hc).
      rewrite IH.
      * cbn [app]. reflexivity.
      * assert (length (a :: t) = length (g1 ++ b :: c :: r)) by (rewrite Hs; reflexivity).
        rewrite app_length in H. simpl in *. lia.
    + rewrite (m1_none a t Em). rewrite IH by (simpl in Hl; lia). reflexivity.
Qed.

Lemma snake1_eq s : snake1 s = snake1_simple s.
Proof. unfold snake1. apply snake1_eq_aux. lia. Qed.

(* CamelCaseToSnakeCase is: the two insertion passes, then lower-casing *)
Lemma camel_to_snake_simple ulower s :
  camel_to_snake ulower s = str_lower ulower (snake2_simple (snake1_simple s)).
Proof. unfold camel_to_snake. rewrite snake1_eq, snake2_eq. reflexivity. Qed.

(* ------------------------------------------------------------------------- *)
(* Identifiers are blind to what the snake-case conversion inserts            *)

Inductive ins_us : str -> str -> Prop :=
| iu_nil : ins_us [] []
| iu_keep a s s' : ins_us s s' -> ins_us (a :: s) (a :: s')
| iu_ins s s' : ins_us s s' -> ins_us s (underscore :: s').

Lemma ins_us_refl s : ins_us s s.
Proof. induction s; constructor; auto. Qed.

Lemma ins_us_trans a b c : ins_us a b -> ins_us b c -> ins_us a c.
Proof.
  intros H1 H2. revert a H1. induction H2; intros x H1.
  - exact H1.
  - inversion H1; subst.
    + constructor. apply IHins_us. assumption.
    + apply iu_ins. apply IHins_us. assumption.
  - apply iu_ins. apply IHins_us. assumption.
Qed.

Lemma snake2_simple_ins s : ins_us s (snake2_simple s).
Proof.
  induction s as [|a t IH]; [constructor|].
  destruct t as [|b r]; [apply ins_us_refl|].
  change (snake2_simple (a :: b :: r)) with
    (if cond2 a b then a :: underscore :: snake2_simple (b :: r) else a :: snake2_simple (b :: r)).
  destruct (cond2 a b); repeat constructor; exact IH.
Qed.

Lemma snake1_simple_ins s : ins_us s (snake1_simple s).
Proof.
  induction s as [|a t IH]; [constructor|].
  destruct t as [|b [|c r]]; try (constructor; exact IH).
  rewrite snake1_simple_cons3. destruct (cond1 a b c); repeat constructor; exact IH.
Qed.

Section LowerFacts.
  Variable ulower : N -> N.
  Notation L := (lower_rune ulower).

  Lemma lower_underscore : L underscore = underscore.
  Proof. reflexivity. Qed.

  Lemma ident_ins_us s s' : ins_us s s' -> ident ulower s' = ident ulower s.
  Proof.
    unfold ident, str_lower. induction 1; cbn [map filter]; auto.
    - rewrite IHins_us. reflexivity.
  Qed.

  (* the hypothesis on Go's unicode tables: lower-casing twice changes nothing *)
  Definition lower_idempotent : Prop := forall c, L (L c) = L c.

  Lemma ident_lower : lower_idempotent -> forall s, ident ulower (str_lower ulower s) = ident ulower s.
  Proof.
    intros H s. unfold ident, str_lower. rewrite map_map.
    f_equal. apply map_ext. intro c. apply H.
  Qed.

  Lemma ident_camel_to_snake :
    lower_idempotent -> forall s, ident ulower (camel_to_snake ulower s) = ident ulower s.
  Proof.
    intros H s. rewrite camel_to_snake_simple, ident_lower by exact H.
    apply ident_ins_us. eapply ins_us_trans; [apply snake1_simple_ins | apply snake2_simple_ins].
  Qed.

  Lemma keep_ident_lower_stable :
    lower_idempotent -> forall s, ident ulower (ident ulower s) = ident ulower s.
  Proof.
    intros H s. unfold ident at 1. unfold str_lower.
    unfold ident, str_lower.
    induction s as [|c s IH]; [reflexivity|].
    cbn [map filter]. destruct (keep_ident (L c)) eqn:E.
    - cbn [map filter]. rewrite H, E. f_equal. exact IH.
    - exact IH.
  Qed.
End LowerFacts.

(* ------------------------------------------------------------------------- *)
(* sort.SliceStable as modelled: permutation, sorted, stable, and insensitive
   to the intermediate sorts of extractFields                                 *)

Notation ord := sf_order.

Lemma ins_perm x l : Permutation (ins x l) (x :: l).
Proof.
  induction l as [|y r IH]; [reflexivity|].
  cbn [ins]. destruct (ord y <? ord x)%Z.
  - rewrite IH. apply perm_swap.
  - reflexivity.
Qed.

Lemma sort_perm l : Permutation (sort_fields l) l.
Proof.
  induction l as [|x l IH]; [reflexivity|].
  cbn [sort_fields fold_right]. fold (sort_fields l). rewrite ins_perm. constructor. exact IH.
Qed.

Definition le_ord (a b : sfield) : Prop := (ord a <= ord b)%Z.

Lemma ins_sorted x l : StronglySorted le_ord l -> StronglySorted le_ord (ins x l).
Proof.
  induction l as [|y r IH]; intro H.
  - repeat constructor.
  - cbn [ins]. inversion H as [|? ? Hr Hy]; subst.
    destruct (ord y <? ord x)%Z eqn:E.
    + constructor; [apply IH; exact Hr|].
      rewrite Forall_forall in *. intros z Hz.
      apply (Permutation_in _ (ins_perm x r)) in Hz. destruct Hz as [<-|Hz].
      * unfold le_ord. lia.
      * apply Hy. exact Hz.
    + constructor; [exact H|]. constructor; [unfold le_ord; lia|].
      rewrite Forall_forall in *. intros z Hz. specialize (Hy z Hz). unfold le_ord in *. lia.
Qed.

Lemma sort_sorted l : StronglySorted le_ord (sort_fields l).
Proof.
  induction l as [|x l IH]; [constructor|].
  cbn [sort_fields fold_right]. apply ins_sorted. exact IH.
Qed.

Lemma ins_head x l : Forall (fun y => (ord x <= ord y)%Z) l -> ins x l = x :: l.
Proof.
  destruct l as [|y r]; [reflexivity|]. intro H. inversion H; subst.
  cbn [ins]. destruct (ord y <? ord x)%Z eqn:E; [lia|reflexivity].
Qed.

(* stability: the fields of one order value keep their relative positions *)
Lemma ins_stable k x l :
  filter (fun f => (ord f =? k)%Z) (ins x l)
  = if (ord x =? k)%Z then x :: filter (fun f => (ord f =? k)%Z) l else filter (fun f => (ord f =? k)%Z) l.
Proof.
  induction l as [|y r IH].
  - cbn. destruct (ord x =? k)%Z; reflexivity.
  - cbn [ins]. destruct (ord y <? ord x)%Z eqn:E.
    + cbn [filter]. rewrite IH.
      destruct (ord x =? k)%Z eqn:Ex, (ord y =? k)%Z eqn:Ey; try reflexivity. lia.
    + cbn [filter]. destruct (ord x =? k)%Z; reflexivity.
Qed.

Lemma sort_stable k l :
  filter (fun f => (ord f =? k)%Z) (sort_fields l) = filter (fun f => (ord f =? k)%Z) l.
Proof.
  induction l as [|x l IH]; [reflexivity|].
  cbn [sort_fields fold_right]. fold (sort_fields l). rewrite ins_stable, IH. reflexivity.
Qed.

Lemma Forall_filter_keep {A} (P : A -> Prop) (p : A -> bool) l : Forall P l -> Forall P (filter p l).
Proof.
  induction 1 as [|z l Hz Hl IH]; [constructor|].
  cbn [filter]. destruct (p z); auto.
Qed.

(* omitting fields commutes with the sort *)
Lemma filter_ins p x l :
  StronglySorted le_ord l ->
  filter p (ins x l) = if p x then ins x (filter p l) else filter p l.
Proof.
  induction l as [|y r IH]; intro H.
  - cbn. destruct (p x); reflexivity.
  - inversion H as [|? ? Hr Hy]; subst. cbn [ins].
    destruct (ord y <? ord x)%Z eqn:E.
    + cbn [filter]. rewrite (IH Hr). destruct (p x), (p y); try reflexivity.
      cbn [ins]. rewrite E. reflexivity.
    + cbn [filter]. destruct (p x) eqn:Ex; [|reflexivity].
      rewrite ins_head; [reflexivity|].
      assert (Hall : Forall (fun z => (ord x <= ord z)%Z) (y :: r)).
      { constructor; [lia|]. rewrite Forall_forall in *. intros z Hz. specialize (Hy z Hz).
        unfold le_ord in Hy. lia. }
      apply (Forall_filter_keep _ p) in Hall. exact Hall.
Qed.

Lemma filter_sort p l : filter p (sort_fields l) = sort_fields (filter p l).
Proof.
  induction l as [|x l IH]; [reflexivity|].
  cbn [sort_fields fold_right]. fold (sort_fields l).
  rewrite filter_ins by apply sort_sorted. cbn [filter].
  destruct (p x); rewrite IH; reflexivity.
Qed.

Lemma ins_ins_comm x y T : (ord y < ord x)%Z -> ins y (ins x T) = ins x (ins y T).
Proof.
  intro Hlt.
  assert (E1 : (ord x <? ord y)%Z = false) by lia.
  assert (E2 : (ord y <? ord x)%Z = true) by lia.
  induction T as [|z T IH].
  - cbn [ins]. rewrite E1, E2. reflexivity.
  - destruct (ord z <? ord x)%Z eqn:Ezx, (ord z <? ord y)%Z eqn:Ezy.
    + cbn [ins]. rewrite Ezx, Ezy. cbn [ins]. rewrite Ezx, Ezy. rewrite IH. reflexivity.
    + cbn [ins]. rewrite Ezx, Ezy. cbn [ins]. rewrite Ezy, E2. cbn [ins]. rewrite Ezx. reflexivity.
    + lia.
    + cbn [ins]. rewrite Ezx, Ezy. cbn [ins]. rewrite E1, E2. cbn [ins]. rewrite Ezx. reflexivity.
Qed.

Lemma fold_ins_ins x S L :
  fold_right ins S (ins x L) = ins x (fold_right ins S L).
Proof.
  induction L as [|y L IH]; [reflexivity|].
  cbn [ins]. destruct (ord y <? ord x)%Z eqn:E.
  - cbn [fold_right]. rewrite IH. apply ins_ins_comm. lia.
  - reflexivity.
Qed.

Lemma sort_app a b : sort_fields (a ++ b) = fold_right ins (sort_fields b) a.
Proof. unfold sort_fields. apply fold_right_app. Qed.

Lemma sort_sort_app a b : sort_fields (sort_fields a ++ b) = sort_fields (a ++ b).
Proof.
  rewrite !sort_app. induction a as [|x a IH]; [reflexivity|].
  cbn [sort_fields fold_right]. fold (sort_fields a). rewrite fold_ins_ins, IH. reflexivity.
Qed.

Lemma sort_idem l : sort_fields (sort_fields l) = sort_fields l.
Proof. pose proof (sort_sort_app l []) as H. rewrite !app_nil_r in H. exact H. Qed.

Lemma sort_app_congr a a' b : sort_fields a = sort_fields a' -> sort_fields (a ++ b) = sort_fields (a' ++ b).
Proof. intro H. rewrite <- (sort_sort_app a b), <- (sort_sort_app a' b), H. reflexivity. Qed.

(* ------------------------------------------------------------------------- *)
(* extractFields = one stable sort of the declaration-order flattening        *)

Section FdeclInd.
  Variable P : fdecl -> Prop.
  Hypothesis Hleaf : forall n e t, P (FLeaf n e t).
  Hypothesis Hother : forall n e t, P (FEmbOther n e t).
  Hypothesis Hstruct : forall n e t fs, Forall P fs -> P (FEmbStruct n e t fs).
  Fixpoint fdecl_ind' (d : fdecl) : P d :=
    match d with
    | FLeaf n e t => Hleaf n e t
    | FEmbOther n e t => Hother n e t
    | FEmbStruct n e t fs =>
      Hstruct n e t fs
        ((fix go (l : list fdecl) : Forall P l :=
            match l with
            | [] => Forall_nil P
            | d' :: r => Forall_cons d' (fdecl_ind' d') (go r)
            end) fs)
    end.
End FdeclInd.

Section Extract.
  Variable ulower : N -> N.
  Variable snake : bool.
  Notation extract_decl := (extract_decl ulower snake).
  Notation extract_list := (extract_list ulower snake).
  Notation flat_decl := (flat_decl ulower snake).
  Notation flat_list := (flat_list ulower snake).

  Lemma extract_decl_struct n e t fs p acc :
    extract_decl (FEmbStruct n e t fs) p acc =
    if e then
      match decode_tags n t with
      | None => None
      | Some tg => if omit_eqb (t_omit tg) OAlways then Some acc
                   else option_map sort_fields (extract_list fs 0 p acc)
      end
    else Some acc.
  Proof.
    cbn [Fields.extract_decl]. destruct e; [|reflexivity].
    destruct (decode_tags n t); [|reflexivity].
    destruct (omit_eqb _ _); [reflexivity|].
    f_equal. generalize 0 as i. revert acc.
    induction fs as [|d r IH]; intros acc i; [reflexivity|].
    cbn [Fields.extract_list]. destruct (Fields.extract_decl ulower snake d (p ++ [i]) acc); [|reflexivity].
    apply IH.
  Qed.

  Lemma flat_decl_struct n e t fs p :
    flat_decl (FEmbStruct n e t fs) p =
    if e then
      match decode_tags n t with
      | None => None
      | Some tg => if omit_eqb (t_omit tg) OAlways then Some [] else flat_list fs 0 p
      end
    else Some [].
  Proof.
    cbn [Fields.flat_decl]. destruct e; [|reflexivity].
    destruct (decode_tags n t); [|reflexivity].
    destruct (omit_eqb _ _); [reflexivity|].
    generalize 0 as i.
    induction fs as [|d r IH]; intros i; [reflexivity|].
    cbn [Fields.flat_list]. destruct (Fields.flat_decl ulower snake d (p ++ [i])); [|reflexivity].
    rewrite IH. reflexivity.
  Qed.

  (* relation between the code's accumulate-and-resort and the flattening *)
  Definition agrees (code : option (list sfield)) (acc : list sfield) (flat : option (list sfield)) : Prop :=
    match code, flat with
    | Some r, Some fl => sort_fields r = sort_fields (acc ++ fl)
    | None, None => True
    | _, _ => False
    end.

  Lemma extract_list_agrees fs :
    Forall (fun d => forall p acc, agrees (extract_decl d p acc) acc (flat_decl d p)) fs ->
    forall i p acc, agrees (extract_list fs i p acc) acc (flat_list fs i p).
  Proof.
    induction 1 as [|d r Hd Hr IH]; intros i p acc.
    - cbn. rewrite app_nil_r. reflexivity.
    - cbn [Fields.extract_list Fields.flat_list].
      specialize (Hd (p ++ [i]) acc). unfold agrees in Hd.
      destruct (Fields.extract_decl ulower snake d (p ++ [i]) acc) as [acc'|],
               (Fields.flat_decl ulower snake d (p ++ [i])) as [fl|]; try contradiction; [|exact I].
      specialize (IH (N.succ i) p acc'). unfold agrees in IH |- *.
      destruct (Fields.extract_list ulower snake r (N.succ i) p acc') as [res|],
               (Fields.flat_list ulower snake r (N.succ i) p) as [fl'|]; try contradiction; [|exact I].
      rewrite IH. rewrite app_assoc. apply sort_app_congr. exact Hd.
  Qed.

  Lemma extract_decl_agrees d : forall p acc, agrees (extract_decl d p acc) acc (flat_decl d p).
  Proof.
    induction d as [n e t|n e t|n e t fs IH] using fdecl_ind'; intros p acc.
    - cbn. destruct e; [|cbn; rewrite app_nil_r; reflexivity].
      destruct (decode_tags n t); [|exact I].
      destruct (omit_eqb _ _); cbn; [rewrite app_nil_r|]; reflexivity.
    - cbn. destruct e; [|cbn; rewrite app_nil_r; reflexivity].
      destruct (decode_tags n t); [|exact I].
      destruct (omit_eqb _ _); cbn; [rewrite app_nil_r|]; reflexivity.
    - rewrite extract_decl_struct, flat_decl_struct.
      destruct e; [|cbn; rewrite app_nil_r; reflexivity].
      destruct (decode_tags n t); [|exact I].
      destruct (omit_eqb _ _); [cbn; rewrite app_nil_r; reflexivity|].
      pose proof (extract_list_agrees fs IH 0 p acc) as H. unfold agrees in H |- *.
      destruct (Fields.extract_list ulower snake fs 0 p acc), (Fields.flat_list ulower snake fs 0 p);
        cbn; try contradiction; [|exact I].
      rewrite sort_idem. exact H.
  Qed.

  Theorem extract_fields_is_sorted_flattening fs :
    extract_fields ulower snake fs = option_map sort_fields (flat_fields ulower snake fs).
  Proof.
    unfold extract_fields, flat_fields.
    pose proof (extract_list_agrees fs) as H.
    assert (Hall : Forall (fun d => forall p acc, agrees (extract_decl d p acc) acc (flat_decl d p)) fs).
    { apply Forall_forall. intros d _. apply extract_decl_agrees. }
    specialize (H Hall 0 [] []). unfold agrees in H.
    destruct (Fields.extract_list ulower snake fs 0 [] []), (Fields.flat_list ulower snake fs 0 []);
      cbn; try contradiction; [|reflexivity].
    f_equal. exact H.
  Qed.
End Extract.

(* ------------------------------------------------------------------------- *)
(* Every flattened field has its own index path                               *)

Lemma NoDup_app_disjoint {A} (a b : list A) :
  NoDup a -> NoDup b -> (forall x, In x a -> ~ In x b) -> NoDup (a ++ b).
Proof.
  induction a as [|x a IH]; intros Ha Hb Hd; [exact Hb|].
  inversion Ha as [|? ? Hx Ha']; subst. cbn [app]. constructor.
  - rewrite in_app_iff. intros [H|H]; [exact (Hx H)|]. exact (Hd x (or_introl eq_refl) H).
  - apply IH; auto. intros y Hy. apply Hd. right. exact Hy.
Qed.

Section Paths.
  Variable ulower : N -> N.
  Variable snake : bool.

  Definition under (p : path) (f : sfield) : Prop := exists q, sf_path f = p ++ q.
  Definition under_from (p : path) (i : N) (f : sfield) : Prop :=
    exists j q, i <= j /\ sf_path f = p ++ j :: q.

  Lemma flat_list_paths fs :
    Forall (fun d => forall p fl, flat_decl ulower snake d p = Some fl ->
                                  NoDup (map sf_path fl) /\ Forall (under p) fl) fs ->
    forall i p fl, flat_list ulower snake fs i p = Some fl ->
                   NoDup (map sf_path fl) /\ Forall (under_from p i) fl.
  Proof.
    induction 1 as [|d r Hd Hr IH]; intros i p fl H.
    - inversion H; subst. split; constructor.
    - cbn [flat_list] in H.
      destruct (flat_decl ulower snake d (p ++ [i])) as [l|] eqn:E1; [|discriminate].
      destruct (flat_list ulower snake r (N.succ i) p) as [l'|] eqn:E2; [|discriminate].
      inversion H; subst.
      destruct (Hd _ _ E1) as [N1 U1]. destruct (IH _ _ _ E2) as [N2 U2].
      assert (U1' : Forall (under_from p i) l).
      { rewrite Forall_forall in *. intros f Hf. destruct (U1 f Hf) as [q Hq].
        exists i, q. split; [lia|]. rewrite Hq, <- app_assoc. reflexivity. }
      assert (U2' : Forall (under_from p i) l').
      { rewrite Forall_forall in *. intros f Hf. destruct (U2 f Hf) as (j & q & Hj & Hq).
        exists j, q. split; [lia|exact Hq]. }
      split.
      + rewrite map_app. apply NoDup_app_disjoint; auto.
        intros x Hx Hx'. rewrite in_map_iff in Hx, Hx'.
        destruct Hx as (f & <- & Hf). destruct Hx' as (f' & Heq & Hf').
        rewrite Forall_forall in U1, U2.
        destruct (U1 f Hf) as [q Hq]. destruct (U2 f' Hf') as (j & q' & Hj & Hq').
        rewrite Hq, Hq', <- app_assoc in Heq. apply app_inv_head in Heq.
        cbn in Heq. inversion Heq. lia.
      + apply Forall_app. split; assumption.
  Qed.

  Lemma flat_decl_paths d : forall p fl, flat_decl ulower snake d p = Some fl ->
                                         NoDup (map sf_path fl) /\ Forall (under p) fl.
  Proof.
    induction d as [n e t|n e t|n e t fs IH] using fdecl_ind'; intros p fl H.
    - cbn in H. destruct e; [|inversion H; subst; split; constructor].
      destruct (decode_tags n t); [|discriminate].
      destruct (omit_eqb _ _); inversion H; subst; cbn.
      + split; constructor.
      + split; [repeat constructor; intros []|]. repeat constructor. exists []. cbn. rewrite app_nil_r. reflexivity.
    - cbn in H. destruct e; [|inversion H; subst; split; constructor].
      destruct (decode_tags n t); [|discriminate].
      destruct (omit_eqb _ _); inversion H; subst; cbn.
      + split; constructor.
      + split; [repeat constructor; intros []|]. repeat constructor. exists []. cbn. rewrite app_nil_r. reflexivity.
    - rewrite flat_decl_struct in H. destruct e; [|inversion H; subst; split; constructor].
      destruct (decode_tags n t); [|discriminate].
      destruct (omit_eqb _ _); [inversion H; subst; split; constructor|].
      destruct (flat_list_paths fs IH 0 p fl H) as [N1 U1]. split; [exact N1|].
      rewrite Forall_forall in *. intros f Hf. destruct (U1 f Hf) as (j & q & _ & Hq).
      exists (j :: q). exact Hq.
  Qed.

  Lemma flat_fields_paths_nodup fs fl :
    flat_fields ulower snake fs = Some fl -> NoDup (map sf_path fl).
  Proof.
    intro H. unfold flat_fields in H.
    refine (proj1 (flat_list_paths fs _ 0 [] fl H)).
    apply Forall_forall. intros d _. apply flat_decl_paths.
  Qed.
End Paths.

(* ------------------------------------------------------------------------- *)
(* The struct iterator                                                        *)

Section Iterate.
  Variable ulower : N -> N.

  Definition emit (f : sfield) : str * path := (sf_name f, sf_path f).

  Lemma iterate_struct_spec snake dflt fs val :
    iterate_struct ulower snake dflt fs val
    = option_map (fun fl => map emit (sort_fields (filter (kept dflt val) fl)))
                 (flat_fields ulower snake fs).
  Proof.
    unfold iterate_struct. rewrite extract_fields_is_sorted_flattening.
    destruct (flat_fields ulower snake fs) as [fl|]; [|reflexivity].
    cbn. rewrite filter_sort. reflexivity.
  Qed.

  (* The emitted sequence: exactly the kept fields, each once, in order-tag
     order, declaration order among equal orders, under the emitted name. *)
  Theorem iterate_emits_kept_fields snake dflt fs val fl :
    flat_fields ulower snake fs = Some fl ->
    exists out,
      iterate_struct ulower snake dflt fs val = Some (map emit out) /\
      Permutation out (filter (kept dflt val) fl) /\
      NoDup (map sf_path out) /\
      StronglySorted le_ord out /\
      (forall k, filter (fun f => (ord f =? k)%Z) out
                 = filter (fun f => (ord f =? k)%Z) (filter (kept dflt val) fl)).
  Proof.
    intro H. exists (sort_fields (filter (kept dflt val) fl)).
    split; [rewrite iterate_struct_spec, H; reflexivity|].
    split; [apply sort_perm|].
    split.
    - apply (Permutation_NoDup (l := map sf_path (filter (kept dflt val) fl))).
      + apply Permutation_map. symmetry. apply sort_perm.
      + pose proof (flat_fields_paths_nodup _ _ _ _ H) as Hn.
        clear H. induction fl as [|f fl IH]; [constructor|].
        cbn in Hn. inversion Hn as [|? ? Hf Hn']; subst. cbn [filter].
        destruct (kept dflt val f); [|apply IH; exact Hn'].
        cbn. constructor; [|apply IH; exact Hn'].
        intro Hin. apply Hf. rewrite in_map_iff in *. destruct Hin as (g & Hg & Hin).
        exists g. split; [exact Hg|]. apply filter_In in Hin. tauto.
    - split; [apply sort_sorted|]. intro k. apply sort_stable.
  Qed.
End Iterate.

(* ------------------------------------------------------------------------- *)
(* Key lookup in the builder's table                                          *)

Lemma str_eqb_eq a b : str_eqb a b = true <-> a = b.
Proof. unfold str_eqb. apply list_eqb_eq. intros; apply N.eqb_eq. Qed.

Lemma str_eqb_refl a : str_eqb a a = true.
Proof. apply str_eqb_eq. reflexivity. Qed.

Lemma NoDup_map_inj_in {A B} (f : A -> B) l a b :
  NoDup (map f l) -> In a l -> In b l -> f a = f b -> a = b.
Proof.
  induction l as [|x l IH]; intros Hn Ha Hb E; [contradiction|].
  cbn in Hn. inversion Hn as [|? ? Hx Hn']; subst.
  destruct Ha as [->|Ha], Hb as [->|Hb]; auto.
  - exfalso. apply Hx. rewrite E. apply in_map. exact Hb.
  - exfalso. apply Hx. rewrite <- E. apply in_map. exact Ha.
Qed.

Lemma filter_unique {A} (f : A -> str) l a :
  NoDup (map f l) -> In a l -> filter (fun e => str_eqb (f e) (f a)) l = [a].
Proof.
  induction l as [|x l IH]; intros Hn Ha; [contradiction|].
  cbn in Hn. inversion Hn as [|? ? Hx Hn']; subst. cbn [filter].
  destruct Ha as [->|Ha].
  - rewrite str_eqb_refl. f_equal.
    clear IH Hn Hn'. induction l as [|y l IHl]; [reflexivity|].
    cbn [filter]. destruct (str_eqb (f y) (f a)) eqn:E.
    + exfalso. apply Hx. apply str_eqb_eq in E. rewrite <- E. left. reflexivity.
    + apply IHl. intro H. apply Hx. right. exact H.
  - destruct (str_eqb (f x) (f a)) eqn:E.
    + exfalso. apply Hx. apply str_eqb_eq in E. rewrite E. apply in_map. exact Ha.
    + apply IH; assumption.
Qed.

Section Lookup.
  Variable ulower : N -> N.
  Notation ident := (ident ulower).
  Notation exact_lookup := (exact_lookup).

  Lemma exact_lookup_in tbl k p : exact_lookup tbl k = Some p -> In (k, p) tbl.
  Proof.
    induction tbl as [|[n q] r IH]; [discriminate|]. cbn [Fields.exact_lookup].
    destruct (Fields.exact_lookup r k) eqn:E.
    - intro H. inversion H; subst. right. apply IH. reflexivity.
    - destruct (str_eqb n k) eqn:En; [|discriminate]. intro H. inversion H; subst.
      apply str_eqb_eq in En. subst. left. reflexivity.
  Qed.

  Lemma exact_lookup_none tbl k : ~ In k (map fst tbl) -> exact_lookup tbl k = None.
  Proof.
    induction tbl as [|[n q] r IH]; intro H; [reflexivity|]. cbn [Fields.exact_lookup].
    rewrite IH by (intro; apply H; right; assumption).
    destruct (str_eqb n k) eqn:E; [|reflexivity].
    exfalso. apply H. left. apply str_eqb_eq in E. exact E.
  Qed.

  Lemma exact_lookup_hit tbl n p :
    NoDup (map fst tbl) -> In (n, p) tbl -> exact_lookup tbl n = Some p.
  Proof.
    induction tbl as [|[m q] r IH]; intros Hn Hin; [contradiction|].
    cbn in Hn. inversion Hn as [|? ? Hm Hn']; subst. cbn [Fields.exact_lookup].
    destruct Hin as [E|Hin].
    - inversion E; subst. rewrite (exact_lookup_none r n Hm), str_eqb_refl. reflexivity.
    - rewrite (IH Hn' Hin). reflexivity.
  Qed.

  Lemma surviving_nodup tbl : NoDup (map fst tbl) -> surviving tbl = tbl.
  Proof.
    induction tbl as [|[m q] r IH]; intro Hn; [reflexivity|].
    cbn in Hn. inversion Hn as [|? ? Hm Hn']; subst. cbn [surviving].
    rewrite (exact_lookup_none r m Hm), (IH Hn'). reflexivity.
  Qed.

  Definition idents_distinct (tbl : list (str * path)) : Prop :=
    NoDup (map (fun e => ident (fst e)) tbl).

  Lemma idents_distinct_names tbl : idents_distinct tbl -> NoDup (map fst tbl).
  Proof.
    unfold idents_distinct. intro H.
    rewrite <- (map_map fst ident) in H. apply NoDup_map_inv in H. exact H.
  Qed.

  (* the identifier of a field name resolves to that field and to nothing else *)
  Lemma cands_ident tbl n p :
    lower_idempotent ulower -> idents_distinct tbl -> In (n, p) tbl ->
    cands ulower tbl (ident n) = [p].
  Proof.
    intros Hl Hd Hin. unfold cands.
    destruct (Fields.exact_lookup tbl (ident n)) as [q|] eqn:E.
    - apply exact_lookup_in in E.
      assert (Heq : (ident n, q) = (n, p)).
      { apply (NoDup_map_inj_in (fun e => ident (fst e)) tbl); auto.
        cbn. apply keep_ident_lower_stable. exact Hl. }
      inversion Heq; subst. reflexivity.
    - rewrite (surviving_nodup tbl (idents_distinct_names tbl Hd)).
      pose proof (filter_unique (fun e => ident (fst e)) tbl (n, p) Hd Hin) as Hf.
      cbn [fst] in Hf. rewrite Hf. reflexivity.
  Qed.

  (* with case-insensitive matching, the key the iterator writes for a field
     (either name style) finds exactly that field *)
  Theorem lookup_emitted_name_ci tbl snake n p :
    lower_idempotent ulower -> idents_distinct tbl -> In (n, p) tbl ->
    cands ulower tbl (norm_key ulower true (emitted_name ulower snake n)) = [p] /\
    lookup ulower tbl true (emitted_name ulower snake n) = Some p /\
    ambiguous ulower tbl true (emitted_name ulower snake n) = false.
  Proof.
    intros Hl Hd Hin.
    assert (E : cands ulower tbl (norm_key ulower true (emitted_name ulower snake n)) = [p]).
    { unfold norm_key, emitted_name. destruct snake.
      - rewrite ident_camel_to_snake by exact Hl. apply cands_ident; assumption.
      - apply cands_ident; assumption. }
    unfold lookup, ambiguous. rewrite E. auto.
  Qed.

  (* with case-sensitive matching, the unconverted name finds exactly that field *)
  Theorem lookup_exact_name tbl n p :
    NoDup (map fst tbl) -> In (n, p) tbl ->
    cands ulower tbl (norm_key ulower false n) = [p] /\ lookup ulower tbl false n = Some p.
  Proof.
    intros Hd Hin. unfold lookup, norm_key, cands. rewrite (exact_lookup_hit tbl n p Hd Hin). auto.
  Qed.

  (* a key that is neither a name nor (after normalisation) an identifier of a field is unknown *)
  Lemma lookup_none_iff tbl ci k :
    lookup ulower tbl ci k = None <-> cands ulower tbl (norm_key ulower ci k) = [].
  Proof. unfold lookup. destruct (cands _ _ _); split; intro H; congruence. Qed.
End Lookup.

(* ------------------------------------------------------------------------- *)
(* Every field the iterator knows is in the builder's table under its tag name *)

Section IterBuild.
  Variable ulower : N -> N.
  Variable snake : bool.

  Lemma btable_decl_struct n e t fs p :
    btable_decl (FEmbStruct n e t fs) p = if e then btable_list fs 0 p else Some [].
  Proof.
    cbn [btable_decl]. destruct e; [|reflexivity].
    generalize 0 as i. induction fs as [|d r IH]; intro i; [reflexivity|].
    cbn [btable_list]. destruct (btable_decl d (p ++ [i])); [|reflexivity].
    rewrite IH. reflexivity.
  Qed.

  Definition linked (fl : list sfield) (tb : list (str * path)) : Prop :=
    forall f, In f fl -> exists n, sf_name f = emitted_name ulower snake n /\ In (n, sf_path f) tb.

  Lemma linked_list fs :
    Forall (fun d => forall p fl tb, flat_decl ulower snake d p = Some fl -> btable_decl d p = Some tb -> linked fl tb) fs ->
    forall i p fl tb, flat_list ulower snake fs i p = Some fl -> btable_list fs i p = Some tb -> linked fl tb.
  Proof.
    induction 1 as [|d r Hd Hr IH]; intros i p fl tb H1 H2.
    - inversion H1; subst. intros f [].
    - cbn [flat_list] in H1. cbn [btable_list] in H2.
      destruct (flat_decl ulower snake d (p ++ [i])) as [l|] eqn:E1; [|discriminate].
      destruct (flat_list ulower snake r (N.succ i) p) as [l'|] eqn:E2; [|discriminate].
      destruct (btable_decl d (p ++ [i])) as [t1|] eqn:E3; [|discriminate].
      destruct (btable_list r (N.succ i) p) as [t2|] eqn:E4; [|discriminate].
      inversion H1; inversion H2; subst.
      intros f Hf. apply in_app_or in Hf. destruct Hf as [Hf|Hf].
      + destruct (Hd _ _ _ E1 E3 f Hf) as (n & Hn & Hin). exists n. split; [exact Hn|].
        apply in_or_app. left. exact Hin.
      + destruct (IH _ _ _ _ E2 E4 f Hf) as (n & Hn & Hin). exists n. split; [exact Hn|].
        apply in_or_app. right. exact Hin.
  Qed.

  Lemma linked_decl d : forall p fl tb,
    flat_decl ulower snake d p = Some fl -> btable_decl d p = Some tb -> linked fl tb.
  Proof.
    induction d as [n e t|n e t|n e t fs IH] using fdecl_ind'; intros p fl tb H1 H2.
    - cbn in H1, H2. destruct e; [|inversion H1; subst; intros f []].
      destruct (decode_tags n t) as [tg|]; [|discriminate].
      inversion H2; subst.
      destruct (omit_eqb _ _); inversion H1; subst; intros f Hf; [destruct Hf|].
      destruct Hf as [<-|[]]. exists (t_name tg). split; [reflexivity|]. left. reflexivity.
    - cbn in H1, H2. destruct e; [|inversion H1; subst; intros f []].
      destruct (decode_tags n t) as [tg|]; [|discriminate].
      inversion H2; subst.
      destruct (omit_eqb _ _); inversion H1; subst; intros f Hf; [destruct Hf|].
      destruct Hf as [<-|[]]. exists (t_name tg). split; [reflexivity|]. left. reflexivity.
    - rewrite flat_decl_struct in H1. rewrite btable_decl_struct in H2.
      destruct e; [|inversion H1; subst; intros f []].
      destruct (decode_tags n t); [|discriminate].
      destruct (omit_eqb _ _); [inversion H1; subst; intros f []|].
      exact (linked_list fs IH 0 p fl tb H1 H2).
  Qed.

  Lemma linked_fields fs fl tb :
    flat_fields ulower snake fs = Some fl -> btable fs = Some tb -> linked fl tb.
  Proof.
    intros H1 H2. refine (linked_list fs _ 0 [] fl tb H1 H2).
    apply Forall_forall. intros d _. apply linked_decl.
  Qed.

  (* Round trip of names: with case-insensitive matching every key the struct
     iterator writes is resolved by the struct builder of the same type to the
     field the value came from. *)
  Theorem emitted_keys_find_their_fields dflt fs val out tb :
    lower_idempotent ulower ->
    iterate_struct ulower snake dflt fs val = Some out ->
    btable fs = Some tb -> idents_distinct ulower tb ->
    forall k p, In (k, p) out -> lookup ulower tb true k = Some p /\ ambiguous ulower tb true k = false.
  Proof.
    intros Hl Hit Hb Hd k p Hin.
    rewrite iterate_struct_spec in Hit.
    destruct (flat_fields ulower snake fs) as [fl|] eqn:Ef; [|discriminate].
    cbn in Hit. inversion Hit; subst. clear Hit.
    rewrite in_map_iff in Hin. destruct Hin as (f & Hf & Hin). unfold emit in Hf. inversion Hf; subst.
    apply (Permutation_in _ (sort_perm _)) in Hin. apply filter_In in Hin. destruct Hin as [Hin _].
    destruct (linked_fields fs fl tb Ef Hb f Hin) as (n & Hn & Hnt).
    rewrite Hn. destruct (lookup_emitted_name_ci ulower tb snake n (sf_path f) Hl Hd Hnt) as (_ & H1 & H2).
    split; assumption.
  Qed.
End IterBuild.

(* ------------------------------------------------------------------------- *)
(* The struct builder and the ignore builders                                 *)

Section BvalInd.
  Variable P : bval -> Prop.
  Hypothesis Hs : forall s, P (VStr s).
  Hypothesis Hi : forall id, P (VScalar id).
  Hypothesis Hc : forall k id items, Forall P items -> P (VCont k id items).
  Hypothesis He : forall a b c, P a -> P b -> P c -> P (VEdge a b c).
  Fixpoint bval_ind' (v : bval) : P v :=
    match v with
    | VStr s => Hs s
    | VScalar id => Hi id
    | VCont k id items =>
      Hc k id items ((fix go (l : list bval) : Forall P l :=
                        match l with
                        | [] => Forall_nil P
                        | x :: r => Forall_cons x (bval_ind' x) (go r)
                        end) items)
    | VEdge a b c => He a b c (bval_ind' a) (bval_ind' b) (bval_ind' c)
    end.
End BvalInd.

Section Run.
  Variable ulower : N -> N.
  Variable tbl : list (str * path).
  Variable ci : bool.
  Notation run := (run ulower tbl ci).

  (* inside an ignored container a well-formed edge-free value changes nothing *)
  Lemma ignoreC_swallows v :
    edge_free v = true ->
    forall stk fv rest, run (FIgnoreC :: stk) fv (flatten v ++ rest) = run (FIgnoreC :: stk) fv rest.
  Proof.
    induction v as [s|id|k id items IH|a b c _ _ _] using bval_ind'; intros Hef stk fv rest;
      try reflexivity; [|discriminate].
    cbn [flatten]. cbn [app]. cbn [Fields.run].
    cbn [edge_free] in Hef. rewrite <- app_assoc.
    assert (Hitems : forall stk' rest',
               run (FIgnoreC :: stk') fv (flat_map flatten items ++ rest') = run (FIgnoreC :: stk') fv rest').
    { intros stk' rest'. induction items as [|x xs IHx]; [reflexivity|].
      cbn [flat_map]. rewrite <- app_assoc.
      inversion IH as [|? ? Hx Hxs]; subst. cbn [forallb] in Hef. apply andb_true_iff in Hef as [E1 E2].
      rewrite (Hx E1). apply IHx; assumption. }
    rewrite Hitems. reflexivity.
  Qed.

  Lemma ignoreC_swallows_list items :
    forallb edge_free items = true ->
    forall stk fv rest,
      run (FIgnoreC :: stk) fv (flat_map flatten items ++ rest) = run (FIgnoreC :: stk) fv rest.
  Proof.
    induction items as [|x xs IH]; intros Hef stk fv rest; [reflexivity|].
    cbn [forallb] in Hef. apply andb_true_iff in Hef as [E1 E2].
    cbn [flat_map]. rewrite <- app_assoc, (ignoreC_swallows x E1). apply IH. exact E2.
  Qed.

  (* the ignore builder swallows exactly one well-formed edge-free value *)
  Lemma ignore_swallows v :
    edge_free v = true ->
    forall stk fv rest, run (FIgnore :: stk) fv (flatten v ++ rest) = run stk fv rest.
  Proof.
    destruct v as [s|id|k id items|a b c]; intros Hef stk fv rest; try reflexivity; [|discriminate].
    cbn [flatten app Fields.run]. cbn [edge_free] in Hef.
    rewrite <- app_assoc, (ignoreC_swallows_list items Hef). reflexivity.
  Qed.

  (* the builders of a matched field's container value consume it and hand it over *)
  Lemma real_swallows v :
    edge_free v = true ->
    forall id d stk fv rest, run (FReal id d :: stk) fv (flatten v ++ rest) = run (FReal id d :: stk) fv rest.
  Proof.
    induction v as [s|i|k i items IH|a b c _ _ _] using bval_ind'; intros Hef id d stk fv rest;
      try reflexivity; [|discriminate].
    cbn [flatten app Fields.run]. cbn [edge_free] in Hef. rewrite <- app_assoc.
    assert (Hitems : forall d' rest',
               run (FReal id d' :: stk) fv (flat_map flatten items ++ rest') = run (FReal id d' :: stk) fv rest').
    { intros d' rest'. induction items as [|x xs IHx]; [reflexivity|].
      cbn [flat_map]. rewrite <- app_assoc.
      inversion IH as [|? ? Hx Hxs]; subst. cbn [forallb] in Hef. apply andb_true_iff in Hef as [E1 E2].
      rewrite (Hx E1). apply IHx; assumption. }
    rewrite Hitems. reflexivity.
  Qed.

  Lemma real_swallows_list items :
    forallb edge_free items = true ->
    forall id d stk fv rest,
      run (FReal id d :: stk) fv (flat_map flatten items ++ rest) = run (FReal id d :: stk) fv rest.
  Proof.
    induction items as [|x xs IH]; intros Hef id d stk fv rest; [reflexivity|].
    cbn [forallb] in Hef. apply andb_true_iff in Hef as [E1 E2].
    cbn [flat_map]. rewrite <- app_assoc, (real_swallows x E1). apply IH. exact E2.
  Qed.

  (* what a value is once stored *)
  Definition stored (v : bval) : aval :=
    match v with
    | VStr s => AStr s
    | VScalar id => AScalar id
    | VCont _ id _ => ACont id
    | VEdge _ _ _ => AScalar 0
    end.

  (* an entry whose key matches no field is skipped: the builder is afterwards
     in the state it was in before the key *)
  Theorem unknown_key_skipped k v tgt below fv rest :
    lookup ulower tbl ci k = None -> edge_free v = true ->
    run (FStruct true tgt :: below) fv (BStr k :: flatten v ++ rest)
    = run (FStruct true tgt :: below) fv rest.
  Proof.
    intros Hk Hef. cbn [Fields.run]. rewrite Hk. apply ignore_swallows. exact Hef.
  Qed.

  (* an entry whose key matches a field stores its value there *)
  Theorem known_key_stored k p v tgt below fv rest :
    lookup ulower tbl ci k = Some p -> edge_free v = true ->
    run (FStruct true tgt :: below) fv (BStr k :: flatten v ++ rest)
    = run (FStruct true (Some p) :: below) ((p, stored v) :: fv) rest.
  Proof.
    intros Hk Hef. cbn [Fields.run]. rewrite Hk.
    destruct v as [s|id|kk id items|a b c]; try reflexivity; [|discriminate].
    cbn [flatten app Fields.run]. cbn [edge_free] in Hef.
    rewrite <- app_assoc, (real_swallows_list items Hef). reflexivity.
  Qed.

  (* Whole documents with string keys and edge-free values. *)
  Definition entry := (str * bval)%type.
  Definition entry_events (e : entry) : list bev := BStr (fst e) :: flatten (snd e).
  Definition entry_ok (e : entry) : bool := edge_free (snd e).

  Fixpoint spec_fields (fv : fieldvals) (es : list entry) : fieldvals :=
    match es with
    | [] => fv
    | (k, v) :: r => match lookup ulower tbl ci k with
                     | Some p => spec_fields ((p, stored v) :: fv) r
                     | None => spec_fields fv r
                     end
    end.

  (* a clean document fills exactly the fields its keys resolve to, the last
     entry for a field winning, and nothing else *)
  Theorem clean_document_built es : forallb entry_ok es = true ->
    forall tgt fv rest,
      run [FStruct true tgt] fv (flat_map entry_events es ++ BEnd :: rest)
      = BDone (spec_fields fv es) rest.
  Proof.
    induction es as [|[k v] r IH]; intros Hok tgt fv rest; [reflexivity|].
    cbn [forallb] in Hok. apply andb_true_iff in Hok as [E1 E2]. unfold entry_ok in E1. cbn [snd] in E1.
    change (flat_map entry_events ((k, v) :: r)) with (BStr k :: flatten v ++ flat_map entry_events r).
    rewrite <- app_comm_cons, <- app_assoc. cbn [spec_fields].
    destruct (lookup ulower tbl ci k) as [p|] eqn:Ek.
    - rewrite (known_key_stored k p v tgt [] fv _ Ek E1). apply IH. exact E2.
    - rewrite (unknown_key_skipped k v tgt [] fv _ Ek E1). apply IH. exact E2.
  Qed.
End Run.

(* documents that differ by entries with unknown keys build the same struct *)
Section Unknown.
  Variable ulower : N -> N.
  Variable tbl : list (str * path).
  Variable ci : bool.

  Lemma spec_fields_skip pre k v post fv :
    lookup ulower tbl ci k = None ->
    spec_fields ulower tbl ci fv (pre ++ (k, v) :: post) = spec_fields ulower tbl ci fv (pre ++ post).
  Proof.
    intro Hk. revert fv. induction pre as [|[k' v'] pre IH]; intro fv.
    - cbn [app spec_fields]. rewrite Hk. reflexivity.
    - cbn [app spec_fields]. destruct (lookup ulower tbl ci k'); apply IH.
  Qed.

  Theorem unknown_entry_does_not_disturb pre k v post rest :
    lookup ulower tbl ci k = None ->
    forallb entry_ok (pre ++ (k, v) :: post) = true ->
    build_struct ulower tbl ci (flat_map entry_events (pre ++ (k, v) :: post) ++ BEnd :: rest)
    = build_struct ulower tbl ci (flat_map entry_events (pre ++ post) ++ BEnd :: rest).
  Proof.
    intros Hk Hok. unfold build_struct.
    assert (Hok' : forallb entry_ok (pre ++ post) = true).
    { rewrite forallb_app in *. cbn [forallb] in Hok.
      apply andb_true_iff in Hok as [H1 H2]. apply andb_true_iff in H2 as [_ H2].
      rewrite H1, H2. reflexivity. }
    rewrite !clean_document_built by assumption.
    rewrite spec_fields_skip by exact Hk. reflexivity.
  Qed.
End Unknown.

(* ------------------------------------------------------------------------- *)
(* Where extraction is total                                                  *)

Definition is_some {A} (o : option A) : bool := match o with Some _ => true | None => false end.

(* every tag that is looked at parses *)
Fixpoint tags_parse_decl (d : fdecl) : bool :=
  match d with
  | FLeaf n e t | FEmbOther n e t => if e then is_some (decode_tags n t) else true
  | FEmbStruct n e t fs =>
    if e then match decode_tags n t with
              | None => false
              | Some tg => omit_eqb (t_omit tg) OAlways || forallb tags_parse_decl fs
              end
    else true
  end.
Definition tags_parse (fs : list fdecl) : bool := forallb tags_parse_decl fs.

Section Total.
  Variable ulower : N -> N.
  Variable snake : bool.

  Lemma flat_list_total fs :
    Forall (fun d => tags_parse_decl d = true -> forall p, flat_decl ulower snake d p <> None) fs ->
    forallb tags_parse_decl fs = true ->
    forall i p, flat_list ulower snake fs i p <> None.
  Proof.
    induction 1 as [|d r Hd Hr IH]; intros H1 i p; [discriminate|].
    cbn [forallb] in H1. apply andb_true_iff in H1 as [A1 A2].
    cbn [flat_list]. specialize (Hd A1 (p ++ [i])). specialize (IH A2 (N.succ i) p).
    destruct (flat_decl ulower snake d (p ++ [i])); [|congruence].
    destruct (flat_list ulower snake r (N.succ i) p); [discriminate|congruence].
  Qed.

  Lemma flat_decl_total d :
    tags_parse_decl d = true -> forall p, flat_decl ulower snake d p <> None.
  Proof.
    induction d as [n e t|n e t|n e t fs IH] using fdecl_ind'; intros H1 p.
    - cbn in *. destruct e; [|discriminate]. destruct (decode_tags n t); [|discriminate].
      destruct (omit_eqb _ _); discriminate.
    - cbn in *. destruct e; [|discriminate]. destruct (decode_tags n t); [|discriminate].
      destruct (omit_eqb _ _); discriminate.
    - rewrite flat_decl_struct. cbn [tags_parse_decl] in H1.
      destruct e; [|discriminate]. destruct (decode_tags n t); [|discriminate].
      destruct (omit_eqb _ _); [discriminate|]. cbn [orb] in H1.
      apply flat_list_total; assumption.
  Qed.

  (* Extraction succeeds on every struct type whose tags parse: embedded
     fields of non-struct types included. *)
  Theorem flat_fields_total fs :
    tags_parse fs = true -> exists fl, flat_fields ulower snake fs = Some fl.
  Proof.
    intros H1. unfold flat_fields.
    assert (H : flat_list ulower snake fs 0 [] <> None).
    { apply flat_list_total; auto. apply Forall_forall. intros d _. apply flat_decl_total. }
    destruct (flat_list ulower snake fs 0 []) as [fl|]; [exists fl; reflexivity|congruence].
  Qed.

  (* An embedded field of a non-struct type is treated exactly like an
     ordinary field of the same name and tag, on both sides. *)
  Lemma emb_other_is_leaf_extract n e t p acc :
    extract_decl ulower snake (FEmbOther n e t) p acc = extract_decl ulower snake (FLeaf n e t) p acc.
  Proof. reflexivity. Qed.
  Lemma emb_other_is_leaf_flat n e t p :
    flat_decl ulower snake (FEmbOther n e t) p = flat_decl ulower snake (FLeaf n e t) p.
  Proof. reflexivity. Qed.
  Lemma emb_other_is_leaf_btable n e t p :
    btable_decl (FEmbOther n e t) p = btable_decl (FLeaf n e t) p.
  Proof. reflexivity. Qed.
End Total.

(* ------------------------------------------------------------------------- *)
(* The property in full, the three places where the code departs from it, and
   the fragment on which it holds                                             *)

Definition id_lower (c : N) : N := c.
Lemma id_lower_idempotent : lower_idempotent id_lower.
Proof.
  intro c. unfold lower_rune, id_lower, is_upper.
  destruct (c <? 128) eqn:E.
  - destruct ((65 <=? c) && (c <=? 90)) eqn:E2.
    + assert (H : c + 32 <? 128 = true) by lia. rewrite H.
      assert (H0 : (65 <=? c + 32) && (c + 32 <=? 90) = false) by lia. rewrite H0. reflexivity.
    + rewrite E, E2. reflexivity.
  - rewrite E. reflexivity.
Qed.

(* a well-formed document value: any tree; an edge has exactly three components *)
Definition marshal_total : Prop :=
  forall ulower snake fs, tags_parse fs = true -> flat_fields ulower snake fs <> None.
Definition skips_any_value : Prop :=
  forall ulower tbl ci k v tgt below fv rest,
    lookup ulower tbl ci k = None ->
    run ulower tbl ci (FStruct true tgt :: below) fv (BStr k :: flatten v ++ rest)
    = run ulower tbl ci (FStruct true tgt :: below) fv rest.
Definition skips_non_string_key : Prop :=
  forall ulower tbl ci id v tgt below fv rest,
    edge_free v = true ->
    run ulower tbl ci (FStruct true tgt :: below) fv (BScalar id :: flatten v ++ rest)
    = run ulower tbl ci (FStruct true tgt :: below) fv rest.

(* struct { MyInt; C int } with type MyInt int, formerly a panic: the embedded
   field is emitted under the snake-cased name of its type and found again *)
Definition wA : list fdecl := [FEmbOther [77;121;73;110;116] (* MyInt *) true []; FLeaf [67] true []].
Lemma marshal_total_holds : marshal_total.
Proof.
  intros ulower snake fs H. destruct (flat_fields_total ulower snake fs H) as [fl ->]. discriminate.
Qed.
Lemma embedded_non_struct_witness :
  (iterate_struct id_lower true OEmpty wA dummy_valuation
   = Some [([109;121;95;105;110;116], [0]); ([99], [1])]) /\
  (btable wA = Some [([77;121;73;110;116], [0]); ([67], [1])]) /\
  (lookup id_lower [([77;121;73;110;116], [0]); ([67], [1])] true [109;121;95;105;110;116] = Some [0]).
Proof. vm_compute. repeat split; reflexivity. Qed.

Definition wTbl : list (str * path) := [([65], [0]); ([67], [1])].
Lemma skips_any_value_refuted : ~ skips_any_value.
Proof.
  intro H.
  specialize (H id_lower wTbl true [122;122] (VEdge (VScalar 1) (VScalar 2) (VScalar 3)) None [] []
                [BStr [67]; BScalar 5; BEnd]).
  vm_compute in H. specialize (H eq_refl). discriminate.
Qed.

Lemma skips_non_string_key_refuted : ~ skips_non_string_key.
Proof.
  intro H.
  specialize (H id_lower wTbl true 7 (VScalar 8) (Some [0]) [] [([0], AScalar 1)] [BEnd] eq_refl).
  vm_compute in H. discriminate.
Qed.

(* The remaining components of the property, which hold of the model. *)
Definition marshal_emits_kept : Prop :=
  forall ulower snake dflt fs val fl,
    flat_fields ulower snake fs = Some fl ->
    exists out,
      iterate_struct ulower snake dflt fs val = Some (map emit out) /\
      Permutation out (filter (kept dflt val) fl) /\
      NoDup (map sf_path out) /\
      StronglySorted le_ord out /\
      (forall k, filter (fun f => (ord f =? k)%Z) out
                 = filter (fun f => (ord f =? k)%Z) (filter (kept dflt val) fl)).
Definition names_round_trip : Prop :=
  forall ulower snake dflt fs val out tb,
    lower_idempotent ulower ->
    iterate_struct ulower snake dflt fs val = Some out ->
    btable fs = Some tb -> idents_distinct ulower tb ->
    forall k p, In (k, p) out -> lookup ulower tb true k = Some p /\ ambiguous ulower tb true k = false.

Definition full_statement : Prop :=
  marshal_total /\ marshal_emits_kept /\ names_round_trip /\ skips_any_value /\ skips_non_string_key.

Lemma full_statement_refuted : ~ full_statement.
Proof. intros (_ & _ & _ & H & _). exact (skips_any_value_refuted H). Qed.

(* The fragment: values under unknown keys contain no edge, keys are strings. *)
Definition partial_statement : Prop :=
  (forall ulower snake fs, tags_parse fs = true ->
                           exists fl, flat_fields ulower snake fs = Some fl)
  /\ marshal_emits_kept /\ names_round_trip
  /\ (forall ulower tbl ci k v tgt below fv rest,
         lookup ulower tbl ci k = None -> edge_free v = true ->
         run ulower tbl ci (FStruct true tgt :: below) fv (BStr k :: flatten v ++ rest)
         = run ulower tbl ci (FStruct true tgt :: below) fv rest)
  /\ (forall ulower tbl ci pre k v post rest,
         lookup ulower tbl ci k = None ->
         forallb entry_ok (pre ++ (k, v) :: post) = true ->
         build_struct ulower tbl ci (flat_map entry_events (pre ++ (k, v) :: post) ++ BEnd :: rest)
         = build_struct ulower tbl ci (flat_map entry_events (pre ++ post) ++ BEnd :: rest)).

Lemma partial_statement_holds : partial_statement.
Proof.
  split; [intros; apply flat_fields_total; assumption|].
  split; [intros ulower snake dflt fs val fl H; apply iterate_emits_kept_fields; exact H|].
  split; [intros ulower snake dflt fs val out tb; apply emitted_keys_find_their_fields|].
  split; [intros; apply unknown_key_skipped; assumption|].
  intros. apply unknown_entry_does_not_disturb; assumption.
Qed.

(* ------------------------------------------------------------------------- *)
(* Records: the record type and every record list the same fields — the
   extracted fields not dropped by the omit flag / default alone — in the same
   (tag, then declaration) order, independently of the values. *)
Lemma record_fields_spec ulower snake dflt fs :
  record_fields ulower snake dflt fs
  = option_map (fun fl => map emit (sort_fields (filter (kept dflt dummy_valuation) fl)))
               (flat_fields ulower snake fs).
Proof. unfold record_fields. apply iterate_struct_spec. Qed.

Lemma kept_dummy dflt f :
  kept dflt dummy_valuation f
  = negb (omit_eqb (match sf_omit f with ODefault => dflt | o => o end) OAlways).
Proof. unfold kept, should_include. destruct (sf_omit f), dflt; reflexivity. Qed.
