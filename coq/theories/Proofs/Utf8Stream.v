(* The streaming UTF-8 splitter (Context.StreamStringData, Model/Rules.v) accepts a sequence of
   data pieces exactly when their concatenation is valid UTF-8, whatever the split points. *)
From CE Require Import Model.Rules Proofs.Utf8Lemmas.
From Coq Require Import ZifyN ZifyNat ZifyBool.
Open Scope N_scope.

(* ---- the generated table [rune_byte_counts] on byte values ---- *)
Definition rbc_spec (b : N) : N :=
  if b <? 128 then 1 else if b <? 192 then 0 else if b <? 224 then 2
  else if b <? 240 then 3 else if b <? 248 then 4 else 0.

Lemma rune_byte_count_sweep :
  forallb (fun b => rune_byte_count b =? rbc_spec b) (nseq 0 256) = true.
Proof. vm_compute. reflexivity. Qed.

Lemma rune_byte_count_spec b : b < 256 -> rune_byte_count b = rbc_spec b.
Proof.
  intro H. apply N.eqb_eq.
  apply (proj1 (forallb_forall _ _) rune_byte_count_sweep b).
  apply nseq_In. lia.
Qed.

(* a lead byte of [decode_rune] announces its length through the table *)
Lemma rune_byte_count_lead b :
  (0 < lead_len b)%nat -> rune_byte_count b = N.of_nat (lead_len b).
Proof.
  intro H.
  assert (B : b < 256).
  { unfold lead_len in H.
    destruct (b <? 128) eqn:E1; [lia|]. destruct (b <? 194) eqn:E2; [lia|].
    destruct (b <? 224) eqn:E3; [lia|]. destruct (b <? 240) eqn:E4; [lia|].
    destruct (b <? 245) eqn:E5; lia. }
  rewrite (rune_byte_count_spec b B). unfold rbc_spec, lead_len in *.
  destruct (b <? 128) eqn:E1; [reflexivity|].
  destruct (b <? 194) eqn:E2; [lia|].
  destruct (b <? 192) eqn:E2'; [lia|].
  destruct (b <? 224) eqn:E3; [reflexivity|].
  destruct (b <? 240) eqn:E4; [reflexivity|].
  destruct (b <? 245) eqn:E5; [|lia].
  destruct (b <? 248) eqn:E6; [reflexivity | lia].
Qed.

(* continuation bytes are not rune starts *)
Lemma rune_byte_count_cont b : is_cont b = true -> rune_byte_count b = 0.
Proof.
  unfold is_cont. intro H.
  assert (B : 128 <= b <= 191) by lia.
  rewrite rune_byte_count_spec by lia. unfold rbc_spec.
  destruct (b <? 128) eqn:E1; [lia|]. destruct (b <? 192) eqn:E2; [reflexivity | lia].
Qed.

Lemma forallb_cont_count0 t :
  forallb is_cont t = true -> Forall (fun b => rune_byte_count b = 0) t.
Proof.
  intro H. apply Forall_forall. intros b Hb.
  apply rune_byte_count_cont. exact (proj1 (forallb_forall _ _) H b Hb).
Qed.

(* ---- chars.IndexOfLastRuneStart ---- *)
Lemma last_rune_start_from_spec b0 prev total :
  0 < rune_byte_count b0 ->
  forall trev i,
    Forall (fun b => rune_byte_count b = 0) trev ->
    last_rune_start_from (trev ++ b0 :: prev) (length trev + S i) total
    = Some (i, Nat.eqb (i + N.to_nat (rune_byte_count b0)) total).
Proof.
  intros Hb0 trev. induction trev as [|x trev IH]; intros i F.
  - cbn [app length Nat.add last_rune_start_from].
    apply N.ltb_lt in Hb0. rewrite Hb0. reflexivity.
  - inversion F as [|x' l' Hx F']; subst.
    cbn [app length Nat.add last_rune_start_from].
    rewrite Hx. change (0 <? 0) with false. cbv iota. apply IH. exact F'.
Qed.

Lemma index_of_last_rune_start_spec p b0 t :
  0 < rune_byte_count b0 ->
  Forall (fun b => rune_byte_count b = 0) t ->
  index_of_last_rune_start (p ++ b0 :: t)
  = Some (length p, Nat.eqb (length p + N.to_nat (rune_byte_count b0)) (length (p ++ b0 :: t))).
Proof.
  intros Hb0 F. unfold index_of_last_rune_start.
  destruct (p ++ b0 :: t) as [|y l] eqn:E.
  { destruct p; discriminate. }
  rewrite <- E. clear y l E.
  assert (R : rev (p ++ b0 :: t) = rev t ++ b0 :: rev p).
  { rewrite rev_app_distr. cbn [rev]. rewrite <- app_assoc. reflexivity. }
  assert (L : length (p ++ b0 :: t) = (length (rev t) + S (length p))%nat).
  { rewrite app_length, rev_length. cbn [length]. lia. }
  rewrite R. rewrite L at 1.
  apply last_rune_start_from_spec; [exact Hb0 | apply Forall_rev; exact F].
Qed.

(* ---- tail_split ---- *)
(* the state of the carry-over buffer between two pieces: empty, or a lead byte with fewer bytes
   than it announces *)
Definition good_rem (rm : bytes) : Prop :=
  rm = [] \/ exists b0 t, rm = b0 :: t /\ (length rm < N.to_nat (rune_byte_count b0))%nat.

Lemma tail_split_app d nx rm : tail_split d = Some (nx, rm) -> nx ++ rm = d.
Proof.
  unfold tail_split. destruct (index_of_last_rune_start d) as [[idx complete]|]; [|discriminate].
  destruct complete.
  - intro H. injection H as <- <-. apply app_nil_r.
  - destruct (4 <? length (skipn idx d))%nat; [discriminate|].
    intro H. injection H as <- <-. apply firstn_skipn.
Qed.

Lemma tail_split_complete p r : is_rune r -> tail_split (p ++ r) = Some (p ++ r, []).
Proof.
  intro R. destruct (is_rune_inv r R) as [b0 [t [E [L [C _]]]]]. subst r.
  assert (Hc : rune_byte_count b0 = N.of_nat (lead_len b0)).
  { apply rune_byte_count_lead. rewrite L. cbn [length]. lia. }
  unfold tail_split. rewrite index_of_last_rune_start_spec.
  - assert (Q : Nat.eqb (length p + N.to_nat (rune_byte_count b0)) (length (p ++ b0 :: t)) = true).
    { apply Nat.eqb_eq. rewrite app_length, Hc, L. lia. }
    rewrite Q. reflexivity.
  - rewrite Hc, L. cbn [length]. lia.
  - apply forallb_cont_count0. exact C.
Qed.

Lemma tail_split_partial p r1 r2 :
  r1 <> [] -> r2 <> [] -> is_rune (r1 ++ r2) ->
  tail_split (p ++ r1) = Some (p, r1) /\ good_rem r1.
Proof.
  intros N1 N2 R. destruct (is_rune_inv _ R) as [b0 [t [E [L [C L4]]]]].
  destruct r1 as [|b t1]; [congruence|].
  cbn [app] in E. injection E as -> E. subst t.
  rewrite forallb_app in C. apply andb_true_iff in C as [C1 _].
  assert (L2 : (0 < length r2)%nat) by (destruct r2; [congruence | cbn [length]; lia]).
  rewrite app_length in L, L4.
  assert (Hc : rune_byte_count b0 = N.of_nat (lead_len b0)).
  { apply rune_byte_count_lead. rewrite L. cbn [length]. lia. }
  split.
  - unfold tail_split. rewrite index_of_last_rune_start_spec.
    + assert (Q : Nat.eqb (length p + N.to_nat (rune_byte_count b0)) (length (p ++ b0 :: t1)) = false).
      { apply Nat.eqb_neq. rewrite app_length, Hc, L. lia. }
      rewrite Q. rewrite skipn_length_app, firstn_length_app.
      assert (Q4 : (4 <? length (b0 :: t1))%nat = false) by (apply Nat.ltb_ge; lia).
      rewrite Q4. reflexivity.
    + rewrite Hc, L. cbn [length]. lia.
    + apply forallb_cont_count0. exact C1.
  - right. exists b0, t1. split; [reflexivity|]. rewrite Hc, L. lia.
Qed.

Lemma tail_split_valid d rest :
  Valid (d ++ rest) ->
  exists nx rm, tail_split d = Some (nx, rm) /\ Valid nx /\ good_rem rm.
Proof.
  intro V.
  destruct (Valid_cut d rest V)
    as [[Vd _] | [p [r1 [r2 [rest' [E1 [E2 [Vp [N1 [N2 [R _]]]]]]]]]]].
  - destruct (Valid_last d Vd) as [-> | [p [r [-> [Vp R]]]]].
    + exists [], []. repeat split; [constructor | left; reflexivity].
    + exists (p ++ r), []. split; [apply tail_split_complete; exact R|].
      split; [exact Vd | left; reflexivity].
  - subst d. destruct (tail_split_partial p r1 r2 N1 N2 R) as [T G].
    exists p, r1. repeat split; assumption.
Qed.

(* ---- one call of StreamStringData ---- *)
Lemma stream_string_data_app rem d f n rem' :
  stream_string_data rem d = Some (f, n, rem') -> f ++ n ++ rem' = rem ++ d.
Proof.
  unfold stream_string_data. destruct rem as [|b0 t].
  - destruct (tail_split d) as [[nx rm]|] eqn:T; [|discriminate].
    intro H. injection H as <- <- <-. cbn [app]. apply tail_split_app. exact T.
  - cbv zeta. set (rem := b0 :: t). set (req := N.to_nat (rune_byte_count b0)).
    destruct (req <? length rem)%nat; [discriminate|].
    set (take := Nat.min (req - length rem) (length d)).
    destruct (length rem + take <? req)%nat eqn:Q.
    + intro H. injection H as <- <- <-. cbn [app].
      apply Nat.ltb_lt in Q.
      assert (Ht : (length d <= take)%nat) by lia.
      rewrite (skipn_all2 d Ht), (firstn_all2 d Ht). reflexivity.
    + destruct (tail_split (skipn take d)) as [[nx rm]|] eqn:T; [|discriminate].
      intro H. injection H as <- <- <-.
      rewrite (tail_split_app _ _ _ T). subst rem. cbn [app].
      rewrite <- app_assoc, firstn_skipn. reflexivity.
Qed.

Lemma stream_string_data_valid rem d rest :
  good_rem rem -> Valid (rem ++ d ++ rest) ->
  exists f n rem', stream_string_data rem d = Some (f, n, rem') /\
                   Valid f /\ Valid n /\ good_rem rem'.
Proof.
  intros G V. destruct G as [-> | [b0 [t [E Hlen]]]].
  - cbn [app] in V. destruct (tail_split_valid d rest V) as [nx [rm [T [Vn G]]]].
    exists [], nx, rm. unfold stream_string_data. rewrite T.
    repeat split; [constructor | exact Vn | exact G].
  - subst rem.
    destruct (Valid_head _ _ V) as [r [x [E [R Vx]]]].
    destruct (is_rune_inv r R) as [b0' [t' [Er [L [_ L4]]]]].
    assert (Eb : b0' = b0) by (subst r; cbn [app] in E; congruence). subst b0'.
    assert (Hc : N.to_nat (rune_byte_count b0) = length r).
    { rewrite rune_byte_count_lead; rewrite L; [lia|]. subst r. cbn [length]. lia. }
    rewrite Hc in Hlen. clear Er t' L.
    assert (E' : (b0 :: t) ++ d ++ rest = r ++ x) by exact E. clear E.
    unfold stream_string_data. cbv zeta. rewrite Hc.
    remember (b0 :: t) as rem eqn:Erem.
    assert (Q1 : (length r <? length rem)%nat = false) by (apply Nat.ltb_ge; lia).
    rewrite Q1.
    destruct (app_eq_app_cases _ _ _ _ E') as [[e [E1 E2]] | [e [_ [E1 _]]]].
    2:{ exfalso. rewrite E1, app_length in Hlen. lia. }
    assert (Le : length r = (length rem + length e)%nat) by (rewrite E1; apply app_length).
    assert (Hcase : (exists e', e' <> [] /\ e = d ++ e') \/
                    (exists d', d = e ++ d' /\ x = d' ++ rest)).
    { destruct (app_eq_app_cases _ _ _ _ E2) as [[e' [F1 F2]] | [d' [_ [F1 F2]]]].
      - destruct e' as [|y e'].
        + right. exists []. rewrite app_nil_r in F1. cbn [app] in F2. subst.
          rewrite app_nil_r. split; reflexivity.
        + left. exists (y :: e'). split; [discriminate | exact F1].
      - right. exists d'. split; assumption. }
    destruct Hcase as [[e' [Ne' F1]] | [d' [F1 F2]]].
    + (* the piece does not complete the character *)
      assert (Le' : (0 < length e')%nat) by (destruct e'; [congruence | cbn [length]; lia]).
      assert (Led : length e = (length d + length e')%nat) by (rewrite F1; apply app_length).
      assert (Hmin : Nat.min (length r - length rem) (length d) = length d) by lia.
      rewrite Hmin, firstn_all, skipn_all.
      assert (Q2 : (length rem + length d <? length r)%nat = true) by (apply Nat.ltb_lt; lia).
      rewrite Q2.
      exists [], [], (rem ++ d).
      split; [reflexivity|]. split; [apply Valid_nil|]. split; [apply Valid_nil|].
      right. exists b0, (t ++ d). split; [rewrite Erem; reflexivity|].
      rewrite Hc, app_length. lia.
    + (* the character is completed: rem ++ e = r *)
      assert (Led : length d = (length e + length d')%nat) by (rewrite F1; apply app_length).
      assert (Hmin : Nat.min (length r - length rem) (length d) = length e) by lia.
      rewrite Hmin.
      assert (Q2 : (length rem + length e <? length r)%nat = false) by (apply Nat.ltb_ge; lia).
      rewrite Q2. rewrite F1, firstn_length_app, skipn_length_app. rewrite <- E1.
      rewrite F2 in Vx.
      destruct (tail_split_valid d' rest Vx) as [nx [rm [T [Vn G]]]].
      rewrite T. exists r, nx, rm. repeat split; try assumption.
      apply Valid_rune. exact R.
Qed.

Lemma good_rem_valid_nil rem : good_rem rem -> Valid rem -> rem = [].
Proof.
  intros [E | [b0 [t [E Hlen]]]] V; [exact E | exfalso]. subst rem.
  destruct (Valid_head _ _ V) as [r [x [E [R _]]]].
  destruct (is_rune_inv r R) as [b0' [t' [Er [L _]]]].
  assert (Eb : b0' = b0) by (subst r; cbn [app] in E; congruence). subst b0'.
  assert (Hc : N.to_nat (rune_byte_count b0) = length r).
  { rewrite rune_byte_count_lead; rewrite L; [lia|]. subst r. cbn [length]. lia. }
  rewrite Hc, E, app_length in Hlen. lia.
Qed.

(* ---- the fold over the pieces ---- *)
Lemma stream_fold_sound ds : forall rem built b rem',
  stream_fold rem built ds = Some (b, rem') ->
  b ++ rem' = built ++ rem ++ concat ds /\ (Valid built -> Valid b).
Proof.
  induction ds as [|d ds IH]; intros rem built b rem' H; cbn [stream_fold concat] in *.
  - injection H as <- <-. rewrite app_nil_r. split; [reflexivity | tauto].
  - destruct (stream_string_data rem d) as [[[f n] rem1]|] eqn:S; [|discriminate].
    destruct (utf8_valid f && utf8_valid n) eqn:Hv; [|discriminate].
    apply andb_true_iff in Hv as [Vf Vn].
    apply utf8_valid_iff_Valid in Vf. apply utf8_valid_iff_Valid in Vn.
    destruct (IH _ _ _ _ H) as [A B].
    pose proof (stream_string_data_app _ _ _ _ _ S) as P.
    split.
    + rewrite A. rewrite (app_assoc rem d), <- P. rewrite <- !app_assoc. reflexivity.
    + intro Vb. apply B. apply Valid_app; [exact Vb|]. apply Valid_app; assumption.
Qed.

Lemma stream_fold_complete ds : forall rem built,
  good_rem rem -> Valid (rem ++ concat ds) ->
  exists b, stream_fold rem built ds = Some (b, []).
Proof.
  induction ds as [|d ds IH]; intros rem built G V; cbn [stream_fold concat] in *.
  - rewrite app_nil_r in V. rewrite (good_rem_valid_nil rem G V). exists built. reflexivity.
  - destruct (stream_string_data_valid rem d (concat ds) G V)
      as [f [n [rem1 [S [Vf [Vn G1]]]]]].
    pose proof (stream_string_data_app _ _ _ _ _ S) as P.
    rewrite S.
    rewrite (proj2 (utf8_valid_iff_Valid f) Vf), (proj2 (utf8_valid_iff_Valid n) Vn).
    cbn [andb]. apply IH; [exact G1|].
    apply (Valid_app_inv_r (f ++ n)); [apply Valid_app; assumption|].
    replace ((f ++ n) ++ rem1 ++ concat ds) with (rem ++ d ++ concat ds); [exact V|].
    rewrite (app_assoc rem d), <- P, <- !app_assoc. reflexivity.
Qed.

(* ---- main statements (no well-formedness hypothesis is needed: values >= 256 are invalid
   for [utf8_valid] and are not rune starts for the table lookup) ---- *)
Theorem stream_fold_built : forall ds b,
  stream_fold [] [] ds = Some (b, []) -> b = concat ds.
Proof.
  intros ds b H. destruct (stream_fold_sound ds _ _ _ _ H) as [A _].
  rewrite app_nil_r in A. exact A.
Qed.

Theorem stream_accepts_iff : forall ds,
  stream_accepts ds = true <-> utf8_valid (concat ds) = true.
Proof.
  intro ds. unfold stream_accepts. split.
  - destruct (stream_fold [] [] ds) as [[b rm]|] eqn:H; [|discriminate].
    destruct rm; [|discriminate]. intros _.
    destruct (stream_fold_sound ds _ _ _ _ H) as [A B].
    rewrite app_nil_r in A. cbn [app] in A. subst b.
    apply utf8_valid_iff_Valid. apply B. constructor.
  - intro V. apply utf8_valid_iff_Valid in V.
    destruct (stream_fold_complete ds [] [] (or_introl eq_refl) V) as [b H].
    rewrite H. reflexivity.
Qed.

Corollary stream_split_invariant : forall ds1 ds2,
  concat ds1 = concat ds2 -> stream_accepts ds1 = stream_accepts ds2.
Proof.
  intros ds1 ds2 E. apply eq_true_iff_eq. rewrite !stream_accepts_iff, E. reflexivity.
Qed.

(* the forms with the byte-range hypothesis of the brief follow trivially *)
Corollary stream_accepts_iff_wf : forall ds,
  Forall (Forall (fun b => b < 256)) ds ->
  (stream_accepts ds = true <-> utf8_valid (concat ds) = true).
Proof. intros ds _. apply stream_accepts_iff. Qed.

(* ---- non-vacuity ---- *)
(* "A", U+00E9, U+20AC, U+1F600 cut inside every multi-byte character, with empty pieces *)
Example stream_accepts_ex :
  let ds := [[65; 195]; []; [169; 226]; [130]; [172; 240]; [159]; [152]; [128]; []] in
  stream_accepts ds = true /\ utf8_valid (concat ds) = true /\
  stream_fold [] [] ds = Some (concat ds, []).
Proof. vm_compute. repeat split. Qed.

Example stream_rejects_ex :
  stream_accepts [[226]; [130]] = false /\                      (* truncated *)
  stream_accepts [[237]; [160]; [128]] = false /\               (* surrogate, split 1+1+1 *)
  stream_accepts [[192]; [128]] = false /\                      (* overlong *)
  stream_accepts [[128; 128; 128; 128; 128]] = false /\         (* the Go code panics *)
  stream_accepts [[65; 248]; [65]] = false /\
  stream_accepts [[300]] = false.
Proof. vm_compute. repeat split. Qed.

(* a non-empty piece without any rune start is rejected at once (the Go slice expression panics) *)
Example stream_no_rune_start_ex :
  stream_fold [] [] [[128]] = None /\
  stream_fold [] [] [[240; 157; 132]; [158; 255]] = None /\
  stream_accepts [[240; 157; 132]; [158; 255]; [65]] = false.
Proof. vm_compute. repeat split. Qed.

Example stream_split_invariant_ex :
  stream_accepts [[240]; [159]; [152]; [128]] = stream_accepts [[240; 159; 152; 128]].
Proof. apply stream_split_invariant. reflexivity. Qed.

Print Assumptions stream_accepts_iff.
Print Assumptions stream_fold_built.
Print Assumptions stream_split_invariant.
