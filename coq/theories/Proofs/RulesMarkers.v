(* C13: markers and local references. *)
From CE Require Import Model.Rules Model.RulesSpec Proofs.RulesInvariants Proofs.RulesStructure Proofs.RulesLimits.
From Coq Require Import ZifyN ZifyNat ZifyBool.
Open Scope N_scope.

(* ------------------------------------------------------------------------- *)
(* Association lists                                                          *)
(* ------------------------------------------------------------------------- *)
Definition akeys (l : list (bytes * N)) : list bytes := map fst l.

Lemma bytes_eqb_refl k : bytes_eqb k k = true.
Proof. apply bytes_eqb_eq. reflexivity. Qed.
Lemma bytes_eqb_neq a b : a <> b -> bytes_eqb a b = false.
Proof. intro H. destruct (bytes_eqb a b) eqn:E; [apply bytes_eqb_eq in E; contradiction | reflexivity]. Qed.

Lemma alookup_none k l : alookup k l = None <-> ~ In k (akeys l).
Proof.
  induction l as [|[k' v] l IH]; cbn [alookup akeys map fst In]; [tauto|].
  destruct (bytes_eqb k k') eqn:E.
  - apply bytes_eqb_eq in E. subst. split; [discriminate | tauto].
  - rewrite IH. unfold akeys. split; [intros H [X|X]; [subst; rewrite bytes_eqb_refl in E; discriminate | tauto] | tauto].
Qed.
Lemma alookup_some_in k l v : alookup k l = Some v -> In k (akeys l).
Proof.
  intro H. destruct (in_dec (list_eq_dec N.eq_dec) k (akeys l)) as [I|I]; [exact I|].
  apply alookup_none in I. congruence.
Qed.
Lemma alookup_in k l : In k (akeys l) -> exists v, alookup k l = Some v.
Proof. intro H. destruct (alookup k l) as [v|] eqn:E; [eauto | apply alookup_none in E; contradiction]. Qed.

Lemma akeys_aremove k l x : In x (akeys (aremove k l)) <-> In x (akeys l) /\ x <> k.
Proof.
  induction l as [|[k' v] l IH]; cbn [aremove akeys map fst In]; [tauto|].
  destruct (bytes_eqb k k') eqn:E.
  - apply bytes_eqb_eq in E. subst k'. unfold akeys in IH. rewrite IH. cbn [In]. split; [tauto | intros [[X|X] Y]; [congruence | tauto]].
  - cbn [map fst In]. unfold akeys in IH. rewrite IH. split; [|tauto].
    intros [X|X]; [|tauto]. subst. split; [tauto|]. intro Y. subst. rewrite bytes_eqb_refl in E. discriminate.
Qed.
Lemma nodup_aremove k l : NoDup (akeys l) -> NoDup (akeys (aremove k l)).
Proof.
  induction l as [|[k' v] l IH]; cbn [aremove akeys map fst]; intro H; [constructor|].
  inversion H as [|? ? H1 H2]; subst. destruct (bytes_eqb k k'); [apply IH; exact H2|].
  cbn [map fst]. constructor; [|apply IH; exact H2]. intro X. apply (akeys_aremove k l k') in X. tauto.
Qed.
Lemma akeys_aset k v l x : In x (akeys (aset k v l)) <-> x = k \/ In x (akeys l).
Proof.
  unfold aset. cbn [akeys map fst In]. fold (akeys (aremove k l)). rewrite akeys_aremove.
  destruct (list_eq_dec N.eq_dec x k); split; intros; try tauto; auto.
  destruct H as [H|H]; [left; congruence | tauto].
Qed.
Lemma nodup_aset k v l : NoDup (akeys l) -> NoDup (akeys (aset k v l)).
Proof.
  intro H. unfold aset. cbn [akeys map fst]. constructor; [|apply nodup_aremove; exact H].
  intro X. apply (akeys_aremove k l k) in X. tauto.
Qed.
Lemma alookup_aremove k' k l : alookup k' (aremove k l) = if bytes_eqb k' k then None else alookup k' l.
Proof.
  induction l as [|[k2 v] l IH]; cbn [aremove alookup]; [destruct (bytes_eqb k' k); reflexivity|].
  destruct (bytes_eqb k k2) eqn:E.
  - apply bytes_eqb_eq in E. subst k2. rewrite IH. destruct (bytes_eqb k' k); reflexivity.
  - cbn [alookup]. rewrite IH. destruct (bytes_eqb k' k) eqn:E2; [|reflexivity].
    apply bytes_eqb_eq in E2. subst k'. rewrite E. reflexivity.
Qed.
Lemma alookup_aset k' k v l : alookup k' (aset k v l) = if bytes_eqb k' k then Some v else alookup k' l.
Proof. unfold aset. cbn [alookup]. rewrite alookup_aremove. destruct (bytes_eqb k' k); reflexivity. Qed.
Lemma length_aset_new k v l : alookup k l = None -> length (aset k v l) = S (length l).
Proof.
  intro H. unfold aset. cbn [length]. f_equal. induction l as [|[k2 v2] l IH]; [reflexivity|].
  cbn [alookup aremove] in *. destruct (bytes_eqb k k2); [discriminate|]. cbn [length]. f_equal. apply IH. exact H.
Qed.

(* ------------------------------------------------------------------------- *)
(* Case analysis that keeps the two registry operations folded                *)
(* ------------------------------------------------------------------------- *)
Ltac unfold_prims_keep H :=
  cbn [exec_prim] in H;
  unfold key_from_array, chunk_data, end_chunk, rule_chunk, try_end_array, end_container, end_container_like,
         begin_container, unstack_rule, begin_array_any, notify_key in H.
Ltac prim_cases_keep p H := destruct p; unfold_prims_keep H; inv_some.

(* ------------------------------------------------------------------------- *)
(* The two registries                                                         *)
(* ------------------------------------------------------------------------- *)
(* markedObjects has no duplicate ids and as many entries as LocalReferenceCount says;
   forwardLocalReferences has no duplicate ids, none of them marked, and holds only the two masks
   references are made with *)
Definition MK (c : rctx) : Prop :=
  NoDup (akeys (marked c)) /\
  refcount c = N.of_nat (length (marked c)) /\
  NoDup (akeys (fwd c)) /\
  (forall id, In id (akeys (fwd c)) -> alookup id (marked c) = None) /\
  (forall id al, alookup id (fwd c) = Some al -> al = Allow_Any \/ al = Allow_Keyable).

Lemma MK_frame c c' : marked c' = marked c -> fwd c' = fwd c -> refcount c' = refcount c -> MK c -> MK c'.
Proof. unfold MK. intros -> -> ->. auto. Qed.

Lemma MK_init : MK init_rctx.
Proof. unfold MK. cbn. repeat split; try constructor; try tauto; discriminate. Qed.

Lemma land_any_keyable : N.land Allow_Any Allow_Keyable = Allow_Keyable /\ N.land Allow_Keyable Allow_Any = Allow_Keyable /\
  N.land Allow_Any Allow_Any = Allow_Any /\ N.land Allow_Keyable Allow_Keyable = Allow_Keyable /\
  Allow_Any <> 0 /\ Allow_Keyable <> 0.
Proof. vm_compute. repeat split; discriminate. Qed.

Lemma mark_object_MK cfg dt c c' : mark_object cfg dt c = Some c' -> MK c -> MK c'.
Proof.
  unfold mark_object, MK. intros H [M1 [M2 [M3 [M4 M5]]]]. inv_some; rsimpl.
  - (* a pending forward reference is resolved *)
    split; [apply nodup_aset; exact M1|]. split; [rewrite length_aset_new by assumption; lia|].
    split; [apply nodup_aremove; exact M3|]. split.
    + intros id I. apply akeys_aremove in I as [I1 I2]. rewrite alookup_aset, bytes_eqb_neq by exact I2. auto.
    + intros id al E. rewrite alookup_aremove in E. destruct (bytes_eqb id (marker_id c)); [discriminate|]. eauto.
  - split; [apply nodup_aset; exact M1|]. split; [rewrite length_aset_new by assumption; lia|].
    split; [exact M3|]. split.
    + intros id I. rewrite alookup_aset. destruct (bytes_eqb id (marker_id c)) eqn:B; [|auto].
      apply bytes_eqb_eq in B. subst id. apply alookup_in in I as [v I]. congruence.
    + exact M5.
Qed.

Lemma local_reference_MK id al c c' :
  local_reference id al c = Some c' -> al = Allow_Any \/ al = Allow_Keyable -> MK c -> MK c'.
Proof.
  unfold local_reference, MK. intros H A [M1 [M2 [M3 [M4 M5]]]]. inv_some; rsimpl; [auto 6|].
  split; [exact M1|]. split; [exact M2|]. split; [apply nodup_aset; exact M3|]. split.
  - intros id' I. apply akeys_aset in I as [->|I]; auto.
  - intros id' al' E. rewrite alookup_aset in E. destruct (bytes_eqb id' id); [|eauto]. inv_some.
    destruct land_any_keyable as [L1 [L2 [L3 [L4 [L5 L6]]]]].
    destruct (alookup id (fwd c)) as [x|] eqn:X.
    + destruct (M5 _ _ X) as [Y|Y]; destruct A as [Z|Z]; subst; rewrite ?L1, ?L2, ?L3, ?L4;
        match goal with |- (if ?b then _ else _) = _ \/ _ => destruct b end; auto.
    + cbn. auto.
Qed.

Lemma call_rule_MK cfg f r m a c c' : call_rule f cfg r m a c = Some c' -> MK c -> MK c'.
Proof.
  intro H.
  refine (call_rule_R cfg (fun c c' => MK c -> MK c') (fun _ => True) (fun _ => true) _ _ _ _ f r m a c c' I H);
    [ auto | intros x y z H1 H2 H3; auto | | vm_compute; reflexivity ].
  intros call Hcall self m0 a0 p c0 c0' _ _ E.
  prim_cases_keep p E; intro B;
    try (eapply MK_frame; [..|exact B]; rsimpl; reflexivity);
    try (eapply mark_object_MK; eassumption);
    try (eapply local_reference_MK; [eassumption | auto | exact B]);
    match goal with H : call _ _ _ _ = Some _ |- _ => apply (Hcall _ _ _ _ _ I H); eapply MK_frame; [..|exact B]; rsimpl; reflexivity end.
Qed.


Definition is_MMarker (m : meth) : bool := match m with MMarker => true | _ => false end.
(* BeginMarker occurs only in cells of OnMarker, and OnMarker is forwarded only from there *)
Definition MS_pok (m : meth) (p : prim) : bool :=
  match p with
  | PBeginMarkerAnyType _ | PBeginMarkerKeyable _ => is_MMarker m
  | PForwardCurrent m' | PForwardParent m' => negb (is_MMarker m') || is_MMarker m
  | _ => true
  end.
Lemma MS_table : table_forall (fun _ m cell => has_reject cell || forallb (MS_pok m) cell) = true.
Proof. vm_compute. reflexivity. Qed.

(* ------------------------------------------------------------------------- *)
(* Referenced ids stay known; key references stay keyable                     *)
(* ------------------------------------------------------------------------- *)
(* [Rin id c]: [id] is marked or is a pending forward reference *)
Definition Rin (id : bytes) (c : rctx) : Prop := In id (akeys (marked c)) \/ In id (akeys (fwd c)).

(* [Kinv id c]: [id] has been referenced in key position: if it is marked its type is keyable, if it is
   pending the pending mask is the keyable mask; and it is one of the two *)
Definition Kinv (id : bytes) (c : rctx) : Prop :=
  (forall dt, alookup id (marked c) = Some dt -> N.land dt Allow_Keyable <> 0) /\
  (forall al, alookup id (fwd c) = Some al -> al = Allow_Keyable) /\
  Rin id c.

Lemma mark_object_Rin cfg dt id c c' : mark_object cfg dt c = Some c' -> Rin id c -> Rin id c'.
Proof.
  unfold mark_object, Rin. intros H [I|I]; inv_some; rsimpl; try (left; apply akeys_aset; tauto); try tauto.
  destruct (list_eq_dec N.eq_dec id (marker_id c)) as [->|Ne].
  - left. apply akeys_aset. tauto.
  - right. apply akeys_aremove. tauto.
Qed.
Lemma local_reference_Rin id' al id c c' : local_reference id' al c = Some c' -> Rin id c -> Rin id c'.
Proof.
  unfold local_reference, Rin. intros H [I|I]; inv_some; rsimpl; try tauto. right. apply akeys_aset. tauto.
Qed.
Lemma local_reference_Rin_new id al c c' : local_reference id al c = Some c' -> Rin id c'.
Proof.
  unfold local_reference, Rin. intro H; inv_some; rsimpl.
  - left. eapply alookup_some_in; eauto.
  - right. apply akeys_aset. tauto.
Qed.

Lemma mark_object_Kinv cfg dt id c c' : mark_object cfg dt c = Some c' -> MK c -> Kinv id c -> Kinv id c'.
Proof.
  intros H MKc [K1 [K2 K3]]. split; [|split; [|eapply mark_object_Rin; eauto]].
  - unfold mark_object in H. inv_some; rsimpl; intros dt' E; rewrite alookup_aset in E;
      (destruct (bytes_eqb id (marker_id c)) eqn:B; [|eauto]); apply bytes_eqb_eq in B; subst id; inv_some.
    + rewrite (K2 _ Heqo0) in Heqb0. rewrite N.land_comm. intro Z. rewrite Z in Heqb0. discriminate.
    + destruct K3 as [I|I]; apply alookup_in in I as [v I]; congruence.
  - unfold mark_object in H. inv_some; rsimpl; [|exact K2].
    intros al E. rewrite alookup_aremove in E. destruct (bytes_eqb id (marker_id c)); [discriminate | eauto].
Qed.

Lemma local_reference_Kinv id' al id c c' :
  local_reference id' al c = Some c' -> al = Allow_Any \/ al = Allow_Keyable -> MK c -> Kinv id c -> Kinv id c'.
Proof.
  intros H A MKc [K1 [K2 K3]]. split; [|split; [|eapply local_reference_Rin; eauto]].
  - unfold local_reference in H. inv_some; rsimpl; exact K1.
  - unfold local_reference in H. inv_some; rsimpl; [exact K2|].
    intros al' E. rewrite alookup_aset in E. destruct (bytes_eqb id id') eqn:B; [|eauto].
    apply bytes_eqb_eq in B. subst id'. inv_some.
    destruct K3 as [I|I]; apply alookup_in in I as [v I]; [congruence|].
    rewrite I. rewrite (K2 _ I). destruct land_any_keyable as [L1 [L2 [L3 [L4 [L5 L6]]]]].
    destruct (Allow_Keyable =? 0) eqn:Z; [lia|]. destruct A as [->| ->]; [exact L2 | exact L4].
Qed.

Lemma local_reference_Kinv_new id c c' : local_reference id Allow_Keyable c = Some c' -> MK c -> Kinv id c'.
Proof.
  intros H [M1 [M2 [M3 [M4 M5]]]]. split; [|split; [|eapply local_reference_Rin_new; eauto]].
  - unfold local_reference in H. inv_some; rsimpl.
    + intros dt E. assert (dt = n) by congruence. subst. intro Z. rewrite Z in Heqb. discriminate.
    + intros dt E. congruence.
  - unfold local_reference in H. inv_some; rsimpl.
    + intros al E. apply alookup_some_in in E. apply M4 in E. congruence.
    + intros al E. rewrite alookup_aset, bytes_eqb_refl in E. inv_some.
      destruct land_any_keyable as [L1 [L2 [L3 [L4 [L5 L6]]]]].
      destruct (alookup id (fwd c)) as [x|] eqn:X; [|reflexivity].
      destruct (M5 _ _ X) as [->| ->]; [destruct (Allow_Any =? 0); [reflexivity | exact L1]
                                       | destruct (Allow_Keyable =? 0); [reflexivity | exact L4]].
Qed.

(* all statements *)
Definition RK (id : bytes) (c c' : rctx) : Prop := MK c -> (Rin id c -> Rin id c') /\ (Kinv id c -> Kinv id c') /\ MK c'.

Lemma RK_prim cfg id call :
  (forall r m a c c', call r m a c = Some c' -> RK id c c') ->
  forall self m a p c c', exec_prim cfg call self m a p c = Some c' -> RK id c c'.
Proof.
  intros Hcall self m a p c c' E.
  prim_cases_keep p E; intro B;
    try (split; [|split]; [intro X; exact X | intro X; exact X | exact B]);
    try (split; [|split]; [eapply mark_object_Rin; eassumption | eapply mark_object_Kinv; eassumption | eapply mark_object_MK; eassumption]);
    try (match goal with H : mark_object _ _ ?cm = Some _ |- _ =>
           split; [|split]; [exact (mark_object_Rin _ _ id cm _ H) | exact (mark_object_Kinv _ _ id cm _ H B) | exact (mark_object_MK _ _ cm _ H B)] end);
    try (split; [|split]; [eapply local_reference_Rin; eassumption
                          | eapply local_reference_Kinv; [eassumption | auto | exact B]
                          | eapply local_reference_MK; [eassumption | auto | exact B]]);
    match goal with H : call _ _ _ _ = Some _ |- _ => apply Hcall in H; apply H; exact B end.
Qed.

Lemma RK_call cfg id f r m a c c' : call_rule f cfg r m a c = Some c' -> RK id c c'.
Proof.
  intro H.
  refine (call_rule_R cfg (RK id) (fun _ => True) (fun _ => true) _ _ _ _ f r m a c c' I H);
    [ intros x B; auto | | | vm_compute; reflexivity ].
  - intros x y z H1 H2 B. destruct (H1 B) as [A1 [A2 A3]]. destruct (H2 A3) as [B1 [B2 B3]]. auto.
  - intros call Hcall self m0 a0 p c0 c0' _ _ E. eapply RK_prim; eauto.
Qed.

Lemma RK_prims cfg id f self m a ps : forall c c', exec_prims cfg (call_rule f cfg) self m a ps c = Some c' -> RK id c c'.
Proof.
  induction ps as [|p ps IH]; intros c c' H; cbn [exec_prims] in H.
  - inv_some. intro B. auto.
  - destruct (exec_prim cfg (call_rule f cfg) self m a p c) as [c1|] eqn:E; [|discriminate].
    apply (RK_prim cfg id _ (fun r m a c c' => RK_call cfg id f r m a c c')) in E. apply IH in H.
    intro B. destruct (E B) as [A1 [A2 A3]]. destruct (H A3) as [B1 [B2 B3]]. auto.
Qed.

(* ------------------------------------------------------------------------- *)
(* The terminal rule: reached only through EndDocument, with no pending refs  *)
(* ------------------------------------------------------------------------- *)
Definition NT (c : rctx) : Prop := Forall (fun e => e_rule e <> RTerminal) (stack c) /\ e_rule (cur c) <> RTerminal.
Definition AtEnd (c : rctx) : Prop := e_rule (cur c) = RTerminal /\ fwd c = [].

Definition is_MEndDocument (m : meth) : bool := match m with MEndDocument => true | _ => false end.
Definition noterm_p (p : prim) : bool :=
  match p with
  | PEndDocument | PChangeRule RTerminal | PForwardCurrent MEndDocument | PForwardParent MEndDocument => false
  | _ => true
  end.
Fixpoint term_cell (m : meth) (cell : list prim) : bool :=
  match cell with
  | [] => true
  | [PEndDocument] => is_MEndDocument m
  | p :: rest => noterm_p p && term_cell m rest
  end.

Lemma NT_prim cfg call :
  (forall r m a c c', call r m a c = Some c' -> NT c -> NT c' \/ (m = MEndDocument /\ AtEnd c')) ->
  forall self m a p c c', noterm_p p = true -> exec_prim cfg call self m a p c = Some c' -> NT c -> NT c'.
Proof.
  intros Hcall self m a p c c' Hp E.
  prim_cases p E; intros [B1 B2]; try discriminate Hp; unfold NT; rsimpl;
    try (split; [assumption | assumption]);
    try (split; [constructor; assumption | discriminate]);
    try (split; [assumption | discriminate]);
    try match goal with
    | H : call _ ?m' _ ?c1 = Some _ |- _ =>
        apply Hcall in H;
        [ destruct H as [H|[H _]]; [exact H | first [discriminate H | subst; discriminate Hp]]
        | unfold NT; rsimpl;
          first [ split; assumption
                | match goal with S : stack _ = _ :: _ |- _ => rewrite S in B1; inversion B1; subst; split; assumption end ] ]
    end.
  all: try match goal with S : stack _ = _ :: _ |- _ => rewrite S in B1; inversion B1; subst; split; assumption end.
  split; [assumption|]. intro X. subst r. discriminate Hp.
Qed.

Lemma term_table : table_forall (fun _ m cell => has_reject cell || term_cell m cell) = true.
Proof. vm_compute. reflexivity. Qed.

Lemma NT_cell cfg call :
  (forall r m a c c', call r m a c = Some c' -> NT c -> NT c' \/ (m = MEndDocument /\ AtEnd c')) ->
  forall self m a cell c c', term_cell m cell = true -> exec_prims cfg call self m a cell c = Some c' -> NT c ->
  NT c' \/ (m = MEndDocument /\ AtEnd c').
Proof.
  intros Hcall self m a cell; induction cell as [|p ps IH]; intros c c' T H B; cbn [exec_prims] in H.
  - inv_some. left; exact B.
  - destruct (exec_prim cfg call self m a p c) as [c1|] eqn:E; [|discriminate].
    destruct ps as [|q ps].
    + cbn [exec_prims] in H. inv_some. destruct (noterm_p p) eqn:Np.
      * left. eapply NT_prim; eauto.
      * destruct p; try discriminate Np; cbn [term_cell] in T; try discriminate T.
        -- destruct r; discriminate.
        -- right. destruct m; try discriminate T. split; [reflexivity|]. cbn [exec_prim] in E.
           destruct (fwd c) eqn:F; [|discriminate]. inv_some. split; [reflexivity | exact F].
        -- destruct m0; discriminate.
        -- destruct m0; discriminate.
    + assert (noterm_p p = true /\ term_cell m (q :: ps) = true) as [Np T'].
      { cbn [term_cell] in T. destruct p; try (apply andb_true_iff in T; exact T). }
      apply (IH c1 c' T' H). eapply NT_prim; eauto.
Qed.

Lemma NT_call cfg f r m a c c' :
  call_rule f cfg r m a c = Some c' -> NT c -> NT c' \/ (m = MEndDocument /\ AtEnd c').
Proof.
  apply (call_rule_ind_gen cfg (fun _ m _ c c' => NT c -> NT c' \/ (m = MEndDocument /\ AtEnd c'))).
  intros call Hcall r0 m0 a0 c0 c0' H B.
  pose proof (table_forall_spec _ term_table r0 m0) as T. cbn beta in T. apply orb_true_iff in T as [T|T].
  - rewrite exec_prims_reject in H by exact T. discriminate.
  - eapply NT_cell; eauto.
Qed.

(* nothing is accepted in the terminal state *)
Lemma terminal_row : forallb (fun m => has_reject (dispatch RTerminal m)) all_meths = true.
Proof. vm_compute. reflexivity. Qed.

Lemma rstep_terminal cfg c e : e_rule (cur c) = RTerminal -> rstep cfg c e = None.
Proof.
  intro T. rewrite rstep_plan. destruct (ev_plan cfg e) as [pl|]; [|reflexivity].
  assert (forall c1, e_rule (cur c1) = RTerminal -> call_current cfg (p_meth pl) (p_args pl) c1 = None) as X.
  { intros c1 T1. unfold call_current. rewrite T1. cbn [call_fuel call_rule]. apply exec_prims_reject.
    pose proof terminal_row as R. rewrite forallb_forall in R. apply R. apply all_meths_complete. }
  unfold plan_step. destruct (p_nno pl) as [real|].
  - destruct (notify_new_object cfg real c) as [c1|] eqn:N; [|reflexivity]. apply nno_fields in N.
    rewrite X; [reflexivity|]. destruct N as [_ [_ [_ [_ [N _]]]]]. congruence.
  - rewrite X; [reflexivity | exact T].
Qed.

Lemma rstep_NT cfg c e c' o : rstep cfg c e = Some (c', o) -> NT c -> NT c' \/ AtEnd c'.
Proof.
  rewrite rstep_plan. destruct (ev_plan cfg e) as [pl|]; [|discriminate].
  destruct (plan_step cfg pl c) as [c2|] eqn:S; [|discriminate]. intros H B; inv_some.
  unfold plan_step, call_current in S.
  assert (forall c1, NT c1 -> call_rule call_fuel cfg (e_rule (cur c1)) (p_meth pl) (p_args pl) c1 = Some c' -> NT c' \/ AtEnd c') as X.
  { intros c1 B1 H. destruct (NT_call _ _ _ _ _ _ _ H B1) as [Y|[_ Y]]; auto. }
  destruct (p_nno pl) as [real|].
  - destruct (notify_new_object cfg real c) as [c1|] eqn:N; [|discriminate]. apply nno_fields in N.
    apply (X c1); [|exact S]. destruct B as [B1 B2]. destruct N as [_ [_ [_ [N1 [N2 _]]]]]. split; congruence.
  - eapply X; eauto.
Qed.

Lemma steps_NT cfg es : forall c c', steps cfg c es = Some c' -> NT c -> NT c' \/ AtEnd c'.
Proof.
  induction es as [|e es IH]; intros c c' H B; cbn [steps] in H; [inv_some; auto|].
  destruct (rstep cfg c e) as [[c1 o]|] eqn:R; [|discriminate].
  destruct (rstep_NT _ _ _ _ _ R B) as [B1|[T1 F1]]; [eauto|].
  destruct es as [|e2 es]; [cbn in H; inv_some; right; split; assumption|].
  cbn [steps] in H. rewrite rstep_terminal in H by exact T1. discriminate.
Qed.

Lemma NT_init : NT init_rctx.
Proof. split; [constructor | discriminate]. Qed.

(* a complete accepted document ends with no pending forward reference *)
Theorem document_no_pending cfg es c :
  steps cfg init_rctx es = Some c -> e_rule (cur c) = RTerminal -> fwd c = [].
Proof.
  intros H T. destruct (steps_NT _ _ _ _ H NT_init) as [[_ B]|[_ F]]; [contradiction | exact F].
Qed.

(* ------------------------------------------------------------------------- *)
(* Events                                                                     *)
(* ------------------------------------------------------------------------- *)
Lemma nno_registries cfg real c c' :
  notify_new_object cfg real c = Some c' ->
  marked c' = marked c /\ fwd c' = fwd c /\ refcount c' = refcount c /\ marker_id c' = marker_id c /\
  e_rule (cur c') = e_rule (cur c).
Proof. intro H. apply nno_fields in H. tauto. Qed.

Lemma plan_step_RK cfg id pl c c' : plan_step cfg pl c = Some c' -> RK id c c'.
Proof.
  unfold plan_step, call_current. intro H. destruct (p_nno pl) as [real|].
  - destruct (notify_new_object cfg real c) as [c1|] eqn:N; [|discriminate].
    apply nno_registries in N as [N1 [N2 [N3 [N4 N5]]]]. apply (RK_call cfg id) in H. intro B.
    assert (MK c1) as B1 by (eapply MK_frame; eauto).
    destruct (H B1) as [A1 [A2 A3]]. unfold Rin, Kinv, Rin in *. rewrite N1, N2 in *. auto.
  - eapply RK_call. exact H.
Qed.

Lemma rstep_RK cfg id c e c' o : rstep cfg c e = Some (c', o) -> RK id c c'.
Proof.
  rewrite rstep_plan. destruct (ev_plan cfg e) as [pl|]; [|discriminate].
  destruct (plan_step cfg pl c) as [c2|] eqn:S; [|discriminate]. intro H; inv_some. eapply plan_step_RK; eauto.
Qed.

Lemma steps_MK cfg es : forall c c', steps cfg c es = Some c' -> MK c -> MK c'.
Proof.
  induction es as [|e es IH]; intros c c' H B; cbn [steps] in H; [inv_some; exact B|].
  destruct (rstep cfg c e) as [[c1 o]|] eqn:R; [|discriminate].
  apply (IH _ _ H). apply (rstep_RK cfg []) in R. apply R. exact B.
Qed.

Lemma steps_RK cfg id es : forall c c', steps cfg c es = Some c' -> RK id c c'.
Proof.
  induction es as [|e es IH]; intros c c' H; cbn [steps] in H; [inv_some; intro B; auto|].
  destruct (rstep cfg c e) as [[c1 o]|] eqn:R; [|discriminate].
  apply (rstep_RK cfg id) in R. apply IH in H. intro B. destruct (R B) as [A1 [A2 A3]]. destruct (H A3) as [B1 [B2 B3]]. auto.
Qed.

(* the cell that handles a local reference starts by recording it; in key position with the keyable mask *)
Definition starts_with_localref (cell : list prim) : bool :=
  match cell with PLocalReferenceAnyType :: _ | PLocalReferenceKeyable :: _ => true | _ => false end.
Lemma ref_table : forallb (fun r => let cell := dispatch r MReferenceLocal in has_reject cell || starts_with_localref cell) all_rules = true.
Proof. vm_compute. reflexivity. Qed.
Lemma keyref_cell : match dispatch RMapKey MReferenceLocal with PLocalReferenceKeyable :: _ => true | l => has_reject l end = true.
Proof. vm_compute. reflexivity. Qed.

Lemma call_rule_S f cfg r m a c :
  call_rule (S f) cfg r m a c = exec_prims cfg (call_rule f cfg) r m a (dispatch r m) c.
Proof. reflexivity. Qed.

Lemma rstep_reflocal cfg c id c' o :
  rstep cfg c (ERefLocal id) = Some (c', o) -> MK c ->
  Rin id c' /\ (e_rule (cur c) = RMapKey -> Kinv id c').
Proof.
  rewrite rstep_plan. cbn [ev_plan]. destruct (validate_identifier cfg id); [|discriminate]. unfold mkplan.
  destruct (plan_step cfg _ c) as [c2|] eqn:S; [|discriminate]. intros H B; inv_some.
  unfold plan_step in S. cbn [p_nno p_meth p_args] in S.
  destruct (notify_new_object cfg true c) as [c1|] eqn:N; [|discriminate].
  apply nno_registries in N as [N1 [N2 [N3 [N4 N5]]]].
  assert (MK c1) as B1 by (eapply MK_frame; eauto).
  unfold call_current, call_fuel in S. rewrite N5, call_rule_S in S.
  pose proof ref_table as T. rewrite forallb_forall in T. specialize (T _ (all_rules_complete (e_rule (cur c)))). cbn beta zeta in T.
  apply orb_true_iff in T as [T|T]; [rewrite exec_prims_reject in S by exact T; discriminate|].
  pose proof keyref_cell as KC.
  destruct (dispatch (e_rule (cur c)) MReferenceLocal) as [|p ps] eqn:D; [discriminate|].
  cbn [exec_prims] in S. destruct (exec_prim cfg _ _ _ _ p c1) as [c3|] eqn:E; [|discriminate].
  pose proof (RK_prims _ id _ _ _ _ _ _ _ S) as R.
  destruct p; try discriminate T; cbn [exec_prim with_id a_id] in E.
  - pose proof (local_reference_Rin_new _ _ _ _ E) as I.
    pose proof (local_reference_MK _ _ _ _ E (or_introl eq_refl) B1) as B3.
    destruct (R B3) as [A1 [A2 A3]]. split; [auto|].
    intro RK. rewrite RK in D. rewrite D in KC. discriminate.
  - pose proof (local_reference_Rin_new _ _ _ _ E) as I.
    pose proof (local_reference_MK _ _ _ _ E (or_intror eq_refl) B1) as B3.
    pose proof (local_reference_Kinv_new _ _ _ E B1) as K.
    destruct (R B3) as [A1 [A2 A3]]. auto.
Qed.

(* ------------------------------------------------------------------------- *)
(* C13: the statements                                                        *)
(* ------------------------------------------------------------------------- *)
(* identifiers *)
Theorem accepted_identifiers_valid cfg es e id :
  accepts cfg es = true -> In e es -> event_ident e = Some id -> validate_identifier cfg id = true.
Proof.
  rewrite accepts_steps. intros [c H] Hin E. apply steps_events_planned in H. rewrite Forall_forall in H.
  specialize (H e Hin). destruct (ev_plan cfg e) as [pl|] eqn:P; [|congruence]. eapply ev_plan_ident; eauto.
Qed.

Lemma validate_identifier_nonempty cfg id : validate_identifier cfg id = true -> id <> [].
Proof. unfold validate_identifier. intros H ->. cbn in H. discriminate. Qed.

(* the ids in markedObjects are ids of marker events (or the empty initial markerID) *)

(* ------------------------------------------------------------------------- *)
(* Registered ids are marker ids                                              *)
(* ------------------------------------------------------------------------- *)
(* [S] contains the identifier of every OnMarker call.  Then: the current markerID is in [S] whenever a
   marker entry is open; the ids in markedObjects are in [S]; every marker entry on the stack carries its
   own id (tag), which is in [S]. *)
Definition crules (c : rctx) : list rule := e_rule (cur c) :: srules c.
Definition rule_is_marker (r : rule) : bool := rclass_eqb (rclass_of r) KMarker.

Lemma count_cl_in r rs : In r rs -> rclass_of r = KMarker -> count_cl KMarker rs <> O.
Proof.
  induction rs as [|x rs IH]; intros I K; [destruct I|]; destruct I as [->|I]; rewrite count_cl_cons.
  - rewrite K. cbn. lia.
  - specialize (IH I K). lia.
Qed.

Definition is_guardp (p : prim) : bool :=
  match p with
  | PValidateFullArrayAnyType | PValidateFullArrayStringlike | PValidateFullArrayKeyable | PValidateFullArrayStringlikeKeyable
  | PAssertArrayType _ | PCheckVersion => true
  | _ => false
  end.
Definition needs_class (p : prim) : bool :=
  match p with
  | PMarkContainer | PForwardParent _ | PNotifyKeyArg | PNotifyKeyFromArrayData | PNotifyKeyFromBuilt => true
  | _ => false
  end.
Definition kf_ok (m : meth) (p : prim) : bool :=
  negb (needs_class p) && MS_pok m p && match p with PChangeRule r' => negb (rule_is_marker r') | _ => true end.
Definition is_markobj (p : prim) : bool := match p with PMarkObject _ => true | _ => false end.
Fixpoint strip (cell : list prim) : list prim :=
  match cell with
  | p :: rest => if is_guardp p then strip rest else cell
  | [] => []
  end.
(* the statements that need to know the class of the rule in force come first in their cell (argument checks
   aside), in a cell of the right kind of rule *)
Definition cell_shape_ok (r : rule) (m : meth) (cell : list prim) : bool :=
  match strip cell with
  | [] => true
  | h :: tl =>
      forallb (kf_ok m) tl && (rule_is_marker r || negb (existsb is_markobj (h :: tl))) &&
      match h with
      | PMarkContainer => rule_is_marker r
      | PForwardParent m' => rule_is_marker r && fpm m' && MS_pok m h
      | PNotifyKeyArg | PNotifyKeyFromArrayData | PNotifyKeyFromBuilt => negb (rule_is_marker r) && negb (fpm m)
      | _ => kf_ok m h
      end
  end.
Lemma shape_table : table_forall (fun r m cell => has_reject cell || cell_shape_ok r m cell) = true.
Proof. vm_compute. reflexivity. Qed.

Lemma guard_id cfg call self m a p c c' : is_guardp p = true -> exec_prim cfg call self m a p c = Some c' -> c' = c.
Proof. intros G E. destruct p; try discriminate G; cbn [exec_prim] in E; inv_some; reflexivity. Qed.

Section MarkerIds.
  Variable S : bytes -> Prop.

  Definition SM (c : rctx) : Prop := S (marker_id c) \/ count_cl KMarker (crules c) = O.
  Definition MSet (c : rctx) : Prop := forall id, In id (akeys (marked c)) -> S id.
  Definition tagged (e : entry) : Prop := rclass_of (e_rule e) = KMarker -> exists id, e_keys e = [NkString id] /\ S id.
  Definition Tagged (c : rctx) : Prop := tagged (cur c) /\ Forall tagged (stack c).
  Definition MI (c : rctx) : Prop := SM c /\ MSet c /\ Tagged c.
  Definition MI_Ra (m : meth) (a : args) : Prop := m = MMarker -> S (a_id a).
  Definition MIPost (c c' : rctx) : Prop := MI c' /\ (S (marker_id c) -> S (marker_id c')).

  Lemma MI_le c c' :
    marker_id c' = marker_id c -> marked c' = marked c ->
    (count_cl KMarker (crules c') <= count_cl KMarker (crules c))%nat -> Tagged c' -> MI c -> MIPost c c'.
  Proof.
    unfold MIPost, MI, SM, MSet. intros E1 E2 L T [H [M _]]. rewrite E1, E2.
    split; [|auto]. split; [|split; [exact M | exact T]]. destruct H as [H|H]; [left; exact H | right; lia].
  Qed.

  Lemma MIPost_trans c1 c2 c3 : MIPost c1 c2 -> MIPost c2 c3 -> MIPost c1 c3.
  Proof. unfold MIPost. intros [_ H1] [M H2]. auto. Qed.

  Lemma marker_cur_SM c : rclass_of (e_rule (cur c)) = KMarker -> SM c -> S (marker_id c).
  Proof.
    intros K [H|H]; [exact H|]. exfalso. unfold crules in H. rewrite count_cl_cons, K in H. cbn in H. lia.
  Qed.

  Lemma mark_object_MI cfg dt c c' : mark_object cfg dt c = Some c' -> S (marker_id c) -> MI c -> MIPost c c'.
  Proof.
    unfold mark_object. intros H Sm [A [M T]]. unfold MIPost, MI.
    inv_some; rsimpl; (split; [|auto]); (split; [exact A|]); (split; [|exact T]);
      intros id I; apply akeys_aset in I as [->|I]; auto.
  Qed.

  Lemma local_reference_MI id al c c' : local_reference id al c = Some c' -> MI c -> MIPost c c'.
  Proof.
    unfold local_reference. intros H B. inv_some; [split; [exact B | auto]|]. unfold MIPost. split; [exact B | auto].
  Qed.

  Definition HC (call : rule -> meth -> args -> rctx -> option rctx) : Prop :=
    forall r m a c c', call r m a c = Some c' -> StartOK r m c -> MI_Ra m a -> MI c -> MIPost c c'.

  Ltac count_tac :=
    unfold crules, srules; rsimpl; cbn [map];
    repeat match goal with H : stack _ = _ :: _ |- _ => rewrite H end; cbn [map];
    rewrite ?count_cl_cons; cbn [rclass_of rclass_eqb];
    repeat match goal with |- context [if ?b then _ else _] => destruct b end; lia.

  Ltac tagged_tac T1 T2 :=
    unfold Tagged, tagged; rsimpl;
    first
      [ split; [exact T1 | exact T2]
      | split; [(let X := fresh "X" in intro X; discriminate X) | first [exact T2 | constructor; [exact T1 | exact T2]]]
      | match goal with St : stack _ = _ :: _ |- _ => rewrite St in T2; inversion T2; subst; split; assumption end ].

  Section Calls.
    Variable cfg : rcfg.
    Variable call : rule -> meth -> args -> rctx -> option rctx.
    Hypothesis Hcall : HC call.

    Lemma call_cur_MI m a c c' :
      call (e_rule (cur c)) m a c = Some c' -> MI_Ra m a -> MI c -> MIPost c c'.
    Proof. intros H Ra B. exact (Hcall _ _ _ _ _ H (or_introl eq_refl) Ra B). Qed.

    Lemma ecl_MI notify c c' : end_container_like call notify c = Some c' -> MI c -> MIPost c c'.
    Proof.
      unfold end_container_like, unstack_rule. intros H B. pose proof B as [A [M [T1 T2]]].
      destruct (stack c) as [|e s] eqn:St; [discriminate|].
      assert (MIPost c (set_cur (set_stack c s) e)) as P2.
      { apply MI_le; [reflexivity | reflexivity | count_tac | | exact B].
        unfold Tagged; rsimpl. inversion T2; subst. split; assumption. }
      destruct notify; [|inv_some; exact P2].
      eapply MIPost_trans; [exact P2|]. eapply call_cur_MI; [exact H | intro X; discriminate X | exact (proj1 P2)].
    Qed.

    Lemma setrule_MI c r' : rule_is_marker r' = false -> MI c -> MIPost c (set_rule c r').
    Proof.
      intros R B. pose proof B as [A [M [T1 T2]]]. unfold rule_is_marker in R.
      apply MI_le; [reflexivity | reflexivity | | | exact B].
      - unfold crules, srules; rsimpl. rewrite !count_cl_cons, R. destruct (rclass_eqb _ KMarker); lia.
      - unfold Tagged, tagged; rsimpl. split; [|exact T2]. intro X. rewrite X in R. discriminate R.
    Qed.

    Lemma tea_MI more c c2 b : try_end_array call more c = Some (c2, b) -> MI c -> MIPost c c2.
    Proof.
      unfold try_end_array. intros H B. destruct more; [inv_some; split; [exact B | auto]|].
      destruct (end_container_like call true c) as [c1|] eqn:E; [|discriminate]. inv_some. eapply ecl_MI; eauto.
    Qed.

    Lemma end_chunk_MI sr c c' : end_chunk call sr c = Some c' -> MI c -> MIPost c c'.
    Proof.
      unfold end_chunk. intros H B. destruct (sr && negb (Nat.eqb (length (utf8_rem c)) 0)); [discriminate|].
      destruct (try_end_array call (more_chunks c) c) as [[c2 b]|] eqn:T; [|discriminate].
      pose proof (tea_MI _ _ _ _ T B) as P2. destruct b; inv_some; [exact P2|].
      eapply MIPost_trans; [exact P2|]. apply setrule_MI; [destruct sr; reflexivity | exact (proj1 P2)].
    Qed.

    Lemma rule_chunk_MI sr n more c c' : rule_chunk cfg call sr n more c = Some c' -> MI c -> MIPost c c'.
    Proof.
      unfold rule_chunk. intros H B. destruct (n =? 0).
      - destruct (try_end_array call more c) as [[c2 b]|] eqn:T; [|discriminate]. inv_some. eapply tea_MI; eauto.
      - destruct sr; inv_some; (apply (setrule_MI (set_array _ _ _ _ _ _ _ _ _)); [reflexivity | exact B]).
    Qed.

    Lemma chunk_data_MI sr d c c' : chunk_data call sr d c = Some c' -> MI c -> MIPost c c'.
    Proof.
      unfold chunk_data. intros H B.
      assert (forall c1, MI c1 -> marker_id c1 = marker_id c ->
                (if chunk_actual c + blen d =? chunk_expected c then end_chunk call sr c1 else Some c1) = Some c' -> MIPost c c') as Aux.
      { clear H. intros c1 B1 E1 H1. destruct (chunk_actual c + blen d =? chunk_expected c).
        - pose proof (end_chunk_MI _ _ _ H1 B1) as [X Y]. split; [exact X | rewrite <- E1; exact Y].
        - inv_some. split; [exact B1 | rewrite <- E1; auto]. }
      destruct (chunk_expected c <? chunk_actual c + blen d); [discriminate|]. destruct sr.
      - destruct (stream_string_data (utf8_rem c) d) as [[[f n] r]|]; [|discriminate].
        destruct (validate_with (arr_validator c) f && validate_with (arr_validator c) n); [|discriminate].
        eapply Aux; [| |exact H]; [exact B | reflexivity].
      - eapply Aux; [| |exact H]; [exact B | reflexivity].
    Qed.

    Lemma kf_prim self m a p c c' :
      kf_ok m p = true -> MI_Ra m a -> (is_markobj p = true -> S (marker_id c)) ->
      exec_prim cfg call self m a p c = Some c' -> MI c -> MIPost c c'.
    Proof.
      intros K Ra Mo E B. unfold kf_ok in K.
      apply andb_true_iff in K as [K Kr]. apply andb_true_iff in K as [Kn Kp]. pose proof B as [A [M [T1 T2]]].
      destruct p; try discriminate Kn; cbn [MS_pok] in Kp; cbn [exec_prim] in E.
      all: try solve [inv_some].
      all: try solve [inv_some; split; [exact B | intro X; exact X]].
      all: try solve [inv_some; eapply mark_object_MI; [eassumption | apply Mo; reflexivity | exact B]].
      all: try solve [eapply local_reference_MI; eassumption].
      all: try solve [unfold begin_container, begin_array_any in E; inv_some;
                      apply MI_le; [reflexivity | reflexivity | count_tac | tagged_tac T1 T2 | exact B]].
      all: try solve [eapply rule_chunk_MI; eauto | eapply chunk_data_MI; eauto].
      - (* PChangeRule *) inv_some. apply setrule_MI; [apply negb_true_iff; exact Kr | exact B].
      - (* PBeginRecordType *)
        remember (stack c) as st eqn:St in E. destruct st; [|discriminate E]. clear St.
        unfold begin_container in E. inv_some.
        apply MI_le; [reflexivity | reflexivity | count_tac | tagged_tac T1 T2 | exact B].
      - (* PEndContainer *)
        unfold end_container in E. destruct (depth c =? 0); [discriminate E|].
        destruct (match e_expected (cur c) with Some x => negb (e_count (cur c) =? x) | None => false end); [discriminate E|].
        destruct (e_dtype (cur c) =? DT_RecordType).
        + destruct (alookup (rectype_name c) (rectypes c)); [discriminate E|]. exact (ecl_MI _ _ _ E B).
        + exact (ecl_MI _ _ _ E B).
      - (* PBeginMarkerAnyType *)
        inv_some. destruct m; try discriminate Kp. specialize (Ra eq_refl).
        unfold MIPost, MI, SM, MSet, Tagged, tagged. rsimpl.
        split; [|intros _; exact Ra]. split; [left; exact Ra|]. split; [exact M|].
        split; [intros _; eexists; split; [reflexivity | exact Ra] | constructor; [exact T1 | exact T2]].
      - (* PBeginMarkerKeyable *)
        inv_some. destruct m; try discriminate Kp. specialize (Ra eq_refl).
        unfold MIPost, MI, SM, MSet, Tagged, tagged. rsimpl.
        split; [|intros _; exact Ra]. split; [left; exact Ra|]. split; [exact M|].
        split; [intros _; eexists; split; [reflexivity | exact Ra] | constructor; [exact T1 | exact T2]].
      - unfold begin_array_any in E; inv_some; (apply MI_le; [reflexivity | reflexivity | count_tac | | exact B]);
          unfold Tagged, tagged; rsimpl; (split; [intro X; discriminate X | constructor; [exact T1 | exact T2]]).
      - unfold begin_array_any in E; inv_some; (apply MI_le; [reflexivity | reflexivity | count_tac | | exact B]);
          unfold Tagged, tagged; rsimpl; (split; [intro X; discriminate X | constructor; [exact T1 | exact T2]]).
      - (* PUnstackRule *)
        assert (end_container_like call false c = Some c') as E' by (unfold end_container_like; rewrite E; reflexivity).
        exact (ecl_MI _ _ _ E' B).
      - (* PForwardCurrent *)
        eapply call_cur_MI; [exact E | | exact B]. intro X. subst. cbn in Kp. destruct m; try discriminate Kp. exact (Ra eq_refl).
      - (* PForwardCurrentKeyableEmptyKey *)
        eapply call_cur_MI; [exact E | intro X; discriminate X | exact B].
      - (* PMarkObject *)
        destruct s; inv_some; eapply mark_object_MI; eauto.
    Qed.

    (* the rest of a cell *)
    Lemma tl_run self m a tl : forall c c',
      forallb (kf_ok m) tl = true -> MI_Ra m a -> (S (marker_id c) \/ existsb is_markobj tl = false) ->
      exec_prims cfg call self m a tl c = Some c' -> MI c -> MIPost c c'.
    Proof.
      induction tl as [|p tl IH]; intros c c' K Ra Mo E B; cbn [exec_prims forallb existsb] in *.
      - inv_some. split; [exact B | auto].
      - apply andb_true_iff in K as [Kp K]. destruct (exec_prim cfg call self m a p c) as [c1|] eqn:E1; [|discriminate].
        assert (MIPost c c1) as P1.
        { eapply kf_prim; eauto. intro X. destruct Mo as [Mo|Mo]; [exact Mo|]. rewrite X in Mo. discriminate Mo. }
        eapply MIPost_trans; [exact P1|]. apply IH; auto; [|exact (proj1 P1)].
        destruct Mo as [Mo|Mo]; [left; exact (proj2 P1 Mo) | right; apply orb_false_iff in Mo; tauto].
    Qed.

    Lemma notify_key_MI k c c' :
      notify_key k c = Some c' -> rclass_of (e_rule (cur c)) <> KMarker -> MI c -> MIPost c c'.
    Proof.
      unfold notify_key. intros H Nm B. pose proof B as [A [M [T1 T2]]]. inv_some.
      apply MI_le; [reflexivity | reflexivity | unfold crules, srules; rsimpl; lia | | exact B].
      unfold Tagged, tagged; rsimpl. split; [intro X; contradiction | exact T2].
    Qed.

    Lemma cell_MI r m a cell c c' :
      cell_shape_ok r m cell = true -> forallb (MS_pok m) cell = true -> StartOK r m c -> MI_Ra m a -> MI c ->
      exec_prims cfg call r m a cell c = Some c' -> MIPost c c'.
    Proof.
      unfold cell_shape_ok. intros Sh Pk St Ra B E.
      (* argument checks leave the context alone *)
      assert (exec_prims cfg call r m a (strip cell) c = Some c' /\ forallb (MS_pok m) (strip cell) = true) as [E' Pk'].
      { clear Sh. revert E Pk. induction cell as [|p ps IH]; intros E Pk; cbn [strip]; [auto|].
        destruct (is_guardp p) eqn:G; [|auto]. cbn [exec_prims forallb] in E, Pk. apply andb_true_iff in Pk as [_ Pk].
        destruct (exec_prim cfg call r m a p c) as [c1|] eqn:E1; [|discriminate].
        rewrite (guard_id _ _ _ _ _ _ _ _ G E1) in E. auto. }
      clear E Pk. destruct (strip cell) as [|h tl]; [cbn in E'; inv_some; split; [exact B | auto]|].
      apply andb_true_iff in Sh as [Sh Hh]. apply andb_true_iff in Sh as [Ktl Mo].
      cbn [exec_prims forallb] in E', Pk'. apply andb_true_iff in Pk' as [Ph Ptl].
      destruct (exec_prim cfg call r m a h c) as [c1|] eqn:E1; [|discriminate].
      pose proof B as [A [M [T1 T2]]].
      (* the class of the rule in force *)
      assert (rule_is_marker r = true -> rclass_of (e_rule (cur c)) = KMarker) as CM.
      { intro R. destruct St as [St|[St _]]; [rewrite St; apply rclass_eqb_eq; exact R | exact St]. }
      assert (rule_is_marker r = false -> fpm m = false -> rclass_of (e_rule (cur c)) <> KMarker) as CN.
      { intros R F. destruct St as [St|[_ St]]; [|congruence]. rewrite St. intro X. unfold rule_is_marker in R. rewrite X in R. discriminate R. }
      assert (rclass_of (e_rule (cur c)) = KMarker -> S (marker_id c)) as SMc by (intro X; eapply marker_cur_SM; eauto).
      (* markobj statements only where the marker id is known *)
      assert (S (marker_id c) \/ existsb is_markobj (h :: tl) = false) as Mo'.
      { apply orb_true_iff in Mo as [Mo|Mo]; [left; auto | right; apply negb_true_iff; exact Mo]. }
      assert (MIPost c c1 -> MIPost c c') as Rest.
      { intro P1. eapply MIPost_trans; [exact P1|]. eapply tl_run; eauto; [|exact (proj1 P1)].
        destruct Mo' as [Mo'|Mo']; [left; exact (proj2 P1 Mo') | right; cbn [existsb] in Mo'; apply orb_false_iff in Mo'; tauto]. }
      assert (kf_ok m h = true -> MIPost c c') as KF.
      { intro Kh. apply Rest. eapply kf_prim; eauto. intro X. destruct Mo' as [Mo'|Mo']; [exact Mo'|].
        cbn [existsb] in Mo'. rewrite X in Mo'. discriminate Mo'. }
      destruct h; try (apply KF; exact Hh).
      - (* PNotifyKeyArg *)
        apply andb_true_iff in Hh as [R F]. apply negb_true_iff in R, F. apply Rest. cbn [exec_prim] in E1.
        destruct (a_key a); [|discriminate]. eapply notify_key_MI; eauto.
      - (* PNotifyKeyFromArrayData *)
        apply andb_true_iff in Hh as [R F]. apply negb_true_iff in R, F. apply Rest. cbn [exec_prim] in E1. unfold key_from_array in E1.
        destruct (a_arrty a =? AT_String); [eapply notify_key_MI; eauto|].
        destruct (a_arrty a =? AT_ResourceID); [eapply notify_key_MI; eauto | inv_some; split; [exact B | auto]].
      - (* PNotifyKeyFromBuilt *)
        apply andb_true_iff in Hh as [R F]. apply negb_true_iff in R, F. apply Rest. cbn [exec_prim] in E1.
        destruct (a_dtype a =? DT_String); [eapply notify_key_MI; eauto|].
        destruct (a_dtype a =? DT_ResourceID); [eapply notify_key_MI; eauto | inv_some; split; [exact B | auto]].
      - (* PForwardParent *)
        apply andb_true_iff in Hh as [Hh Pm]. apply andb_true_iff in Hh as [R F]. apply Rest. cbn [exec_prim] in E1.
        destruct (stack c) as [|e s] eqn:Stk; [discriminate|].
        apply (Hcall _ _ _ _ _ E1); [right; auto | | exact B].
        intro X. subst. cbn in Pm. destruct m; try discriminate Pm. exact (Ra eq_refl).
      - (* PMarkContainer *)
        apply Rest. cbn [exec_prim] in E1. specialize (CM Hh). destruct (T1 CM) as [id [Kid Sid]].
        unfold entry_marker_id in E1. rewrite Kid in E1.
        pose proof (mark_object_MI cfg (a_dtype a) (set_markers c id (marked c) (fwd c) (refcount c)) c1 E1 Sid) as X.
        destruct X as [X1 X2]; [split; [|split; [exact M | split; [exact T1 | exact T2]]]; left; exact Sid|].
        split; [exact X1 | intros _; exact (X2 Sid)].
    Qed.
  End Calls.

  Theorem call_rule_MI cfg f r m a c c' :
    call_rule f cfg r m a c = Some c' -> StartOK r m c -> MI_Ra m a -> MI c -> MIPost c c'.
  Proof.
    apply (call_rule_ind_gen cfg (fun r m a c c' => StartOK r m c -> MI_Ra m a -> MI c -> MIPost c c')).
    intros call Hcall r0 m0 a0 c0 c0' H St Ra B.
    pose proof (table_forall_spec _ shape_table r0 m0) as T1. cbn beta in T1.
    apply orb_true_iff in T1 as [T1|T1]; [rewrite exec_prims_reject in H by exact T1; discriminate|].
    pose proof (table_forall_spec _ MS_table r0 m0) as T2. cbn beta in T2.
    apply orb_true_iff in T2 as [T2|T2]; [rewrite exec_prims_reject in H by exact T2; discriminate|].
    eapply cell_MI; eauto.
  Qed.

  (* events *)
  Lemma plan_step_MI cfg pl c c' : plan_step cfg pl c = Some c' -> MI_Ra (p_meth pl) (p_args pl) -> MI c -> MI c'.
  Proof.
    unfold plan_step, call_current. intros H Ra B. destruct (p_nno pl) as [real|].
    - destruct (notify_new_object cfg real c) as [c1|] eqn:N; [|discriminate].
      assert (MI c1) as B1.
      { unfold notify_new_object in N. pose proof B as [A [M [T1 T2]]].
        assert (forall c2, marker_id c2 = marker_id c -> marked c2 = marked c -> stack c2 = stack c ->
                           e_rule (cur c2) = e_rule (cur c) -> e_keys (cur c2) = e_keys (cur c) -> MI c2) as Fr.
        { intros c2 E1 E2 E3 E4 E5. unfold MI, SM, MSet, Tagged, tagged, crules, srules in *. rewrite E1, E2, E3, E4, E5. auto. }
        inv_some; apply Fr; reflexivity. }
      exact (proj1 (call_rule_MI _ _ _ _ _ _ _ H (or_introl eq_refl) Ra B1)).
    - exact (proj1 (call_rule_MI _ _ _ _ _ _ _ H (or_introl eq_refl) Ra B)).
  Qed.

  Lemma plan_marker_id cfg e pl : ev_plan cfg e = Some pl -> p_meth pl = MMarker -> e = EMarker (a_id (p_args pl)).
  Proof.
    destruct e as [| |v| |m t| |b| | |n|n|z|[z|]|bits|[bf|]|[| | |]|[[| | |]|]|s|b|s| | |id|id| | | |id|id|t cnt d|t d|mt d|ct d|ct d|t|mt|t ct|n m|d];
      cbn [ev_plan]; intros P M;
      repeat match goal with H : (if ?b then _ else _) = Some _ |- _ => destruct b eqn:?; try discriminate H end;
      unfold mkplan in P; inv_some; try discriminate M. reflexivity.
  Qed.

  Lemma steps_MI cfg l : forall c c',
    steps cfg c l = Some c' -> (forall id, In (EMarker id) l -> S id) -> MI c -> MI c'.
  Proof.
    induction l as [|e l IH]; intros c c' H Hs B; cbn [steps] in H; [inv_some; exact B|].
    destruct (rstep cfg c e) as [[c1 o]|] eqn:R; [|discriminate].
    apply (IH c1 c' H); [intros id I; apply Hs; right; exact I|].
    rewrite rstep_plan in R. destruct (ev_plan cfg e) as [pl|] eqn:P; [|discriminate].
    destruct (plan_step cfg pl c) as [c2|] eqn:St; [|discriminate]. inv_some.
    eapply plan_step_MI; eauto. intro Mm. apply Hs. left. exact (plan_marker_id _ _ _ P Mm).
  Qed.
End MarkerIds.

Lemma MI_init S : MI S init_rctx.
Proof.
  unfold MI, SM, MSet, Tagged, tagged. split; [right; reflexivity|]. split; [intros id []|]. split; [intro X; discriminate X | constructor].
Qed.

(* ------------------------------------------------------------------------- *)
(* C13: the statements                                                        *)
(* ------------------------------------------------------------------------- *)
(* every registered id is the (non-empty) id of a marker event *)
Theorem marked_ids_are_markers cfg es c id :
  state_after cfg es = Some c -> In id (akeys (marked c)) -> In (EMarker id) es.
Proof.
  rewrite state_after_steps. intros H I.
  assert (MI (fun id => In (EMarker id) es) c) as [_ [M _]].
  { apply (steps_MI _ cfg es init_rctx c H); [auto | apply MI_init]. }
  exact (M id I).
Qed.

Lemma marker_ids_length es : length (marker_ids es) = N.to_nat (marker_usage es).
Proof.
  induction es as [|e es IH]; [reflexivity|]. unfold marker_ids, marker_usage in *. cbn [flat_map count_if].
  rewrite app_length, IH. destruct e; cbn [length is_marker]; lia.
Qed.

(* every reference seen so far is marked or pending *)
Lemma steps_refs_known cfg es c :
  steps cfg init_rctx es = Some c -> MK c /\ forall id, In (ERefLocal id) es -> Rin id c.
Proof.
  apply (steps_invariant cfg (fun p c => MK c /\ forall id, In (ERefLocal id) p -> Rin id c)).
  - split; [exact MK_init | intros id []].
  - intros p c0 e c1 o [B Hr] _ R. split; [exact (proj2 (proj2 (rstep_RK cfg [] _ _ _ _ R B)))|].
    intros id I. apply in_app_or in I as [I|[I|[]]].
    + apply (proj1 (rstep_RK cfg id _ _ _ _ R B)). auto.
    + subst e. exact (proj1 (rstep_reflocal _ _ _ _ _ R B)).
Qed.

(* C13: in an accepted complete document every local reference names a marker of the document *)
Theorem refs_have_markers cfg es id :
  accepts_document cfg es = true -> In (ERefLocal id) es -> In (EMarker id) es.
Proof.
  intros A I. apply accepts_document_steps in A as [c [H T]].
  pose proof (document_no_pending _ _ _ H T) as F.
  destruct (steps_refs_known _ _ _ H) as [_ Hr]. destruct (Hr id I) as [X|X]; [|rewrite F in X; destruct X].
  eapply marked_ids_are_markers; [apply state_after_steps; exact H | exact X].
Qed.

(* the registries after an accepted list *)
Theorem registry_invariants cfg es c :
  state_after cfg es = Some c ->
  NoDup (akeys (marked c)) /\ refcount c = N.of_nat (length (marked c)) /\
  (forall id, In id (akeys (marked c)) -> In (EMarker id) es) /\
  (forall id, In id (akeys (fwd c)) -> alookup id (marked c) = None) /\
  (forall id, In (ERefLocal id) es -> In id (akeys (marked c)) \/ In id (akeys (fwd c))) /\
  (e_rule (cur c) = RTerminal -> fwd c = []) /\
  (Z.of_N (refcount c) + Z.of_nat (count_cl KMarker (e_rule (cur c) :: srules c)) = Z.of_N (marker_usage es))%Z.
Proof.
  intro H0. pose proof H0 as H. rewrite state_after_steps in H.
  destruct (steps_refs_known _ _ _ H) as [[M1 [M2 [M3 [M4 M5]]]] Hr].
  repeat split; auto.
  - intros id I. eapply marked_ids_are_markers; eauto.
  - intro T. eapply document_no_pending; eauto.
  - apply (markers_accounted cfg). exact H0.
Qed.

(* C13: the marker ids of a list are pairwise distinct as soon as every marker is registered - in particular
   at document level, hence in every accepted complete document *)
Theorem markers_distinct_at_top cfg es c :
  state_after cfg es = Some c -> rclass_of (e_rule (cur c)) = KTop -> NoDup (marker_ids es).
Proof.
  intros H T. destruct (registry_invariants _ _ _ H) as [M1 [M2 [M3 _]]].
  pose proof (document_markers_registered _ _ _ H T) as RC.
  apply (@NoDup_incl_NoDup _ (akeys (marked c))); [exact M1 | |].
  - unfold akeys. rewrite map_length, marker_ids_length. lia.
  - intros id I. unfold marker_ids. apply in_flat_map. exists (EMarker id). split; [auto | left; reflexivity].
Qed.

Theorem document_markers_distinct cfg es : accepts_document cfg es = true -> NoDup (marker_ids es).
Proof.
  rewrite accepts_document_steps. intros [c [H T]].
  apply (markers_distinct_at_top cfg es c); [apply state_after_steps; exact H | rewrite T; reflexivity].
Qed.

(* ... and every marker of an accepted complete document is registered, with the identifiers of the markers as
   the registered ids *)
Theorem document_markers_all_registered cfg es c :
  state_after cfg es = Some c -> e_rule (cur c) = RTerminal ->
  refcount c = marker_usage es /\ forall id, In (EMarker id) es <-> In id (akeys (marked c)).
Proof.
  intros H T. assert (rclass_of (e_rule (cur c)) = KTop) as K by (rewrite T; reflexivity).
  pose proof (document_markers_registered _ _ _ H K) as RC. split; [exact RC|].
  destruct (registry_invariants _ _ _ H) as [M1 [M2 [M3 _]]].
  intro id. split; [|apply M3]. intro I.
  (* a duplicate-free list included in another of the same length has the same elements *)
  assert (In id (marker_ids es)) as I' by (unfold marker_ids; apply in_flat_map; exists (EMarker id); split; [exact I | left; reflexivity]).
  assert (incl (akeys (marked c)) (marker_ids es)) as Inc.
  { intros x X. unfold marker_ids. apply in_flat_map. exists (EMarker x). split; [auto | left; reflexivity]. }
  assert (length (marker_ids es) <= length (akeys (marked c)))%nat as L by (unfold akeys; rewrite map_length, marker_ids_length; lia).
  exact (NoDup_length_incl M1 L Inc id I').
Qed.

(* a reference in map-key position resolves to a keyable type *)
Theorem key_reference_keyable cfg p id q :
  accepts_document cfg (p ++ ERefLocal id :: q) = true -> rule_in_force cfg p = Some RMapKey ->
  exists dt, marked_type cfg (p ++ ERefLocal id :: q) id = Some dt /\ N.land dt Allow_Keyable <> 0.
Proof.
  intros A K. apply accepts_document_steps in A as [c [H T]].
  pose proof (document_no_pending _ _ _ H T) as F.
  unfold marked_type. rewrite (proj2 (state_after_steps _ _ _) H).
  rewrite steps_app in H. destruct (steps cfg init_rctx p) as [cp|] eqn:Hp; [|discriminate].
  unfold rule_in_force in K. rewrite (proj2 (state_after_steps _ _ _) Hp) in K. inv_some.
  cbn [steps] in H. destruct (rstep cfg cp (ERefLocal id)) as [[c1 o]|] eqn:R; [|discriminate].
  destruct (steps_refs_known _ _ _ Hp) as [Bp _].
  destruct (rstep_reflocal _ _ _ _ _ R Bp) as [_ K1]. specialize (K1 H1).
  pose proof (rstep_RK cfg id _ _ _ _ R Bp) as [_ [_ B1]].
  destruct (steps_RK cfg id _ _ _ H B1) as [_ [K2 _]]. destruct (K2 K1) as [D1 [D2 [D3|D3]]].
  - apply alookup_in in D3 as [dt D3]. exists dt. split; [exact D3 | eauto].
  - rewrite F in D3. destruct D3.
Qed.

(* ------------------------------------------------------------------------- *)
(* What may follow a marker                                                   *)
(* ------------------------------------------------------------------------- *)
Definition kn_is_marker (k : kn) : bool :=
  match kn_class k with Some KMarker => true | _ => false end.
Lemma marker_table :
  forallb (fun r => has_reject (dispatch r MMarker) || kn_is_marker (postk r MMarker)) all_rules = true /\
  forallb (fun r => negb (rclass_eqb (rclass_of r) KMarker) ||
                    ((has_reject (dispatch r MPadding) || kn_is_marker (postk r MPadding)) &&
                     has_reject (dispatch r MMarker) && has_reject (dispatch r MReferenceLocal) &&
                     has_reject (dispatch r MRecordType))) all_rules = true.
Proof. vm_compute. split; reflexivity. Qed.

Lemma plan_step_reject cfg pl c :
  has_reject (dispatch (e_rule (cur c)) (p_meth pl)) = true -> plan_step cfg pl c = None.
Proof.
  intro T. unfold plan_step, call_current, call_fuel.
  destruct (p_nno pl) as [real|].
  - destruct (notify_new_object cfg real c) as [c1|] eqn:N; [|reflexivity]. apply nno_registries in N.
    destruct N as [_ [_ [_ [_ N]]]]. rewrite N, call_rule_S. apply exec_prims_reject. exact T.
  - rewrite call_rule_S. apply exec_prims_reject. exact T.
Qed.

Lemma kn_is_marker_sound k c : kn_is_marker k = true -> ksound k c -> rclass_of (e_rule (cur c)) = KMarker.
Proof.
  unfold kn_is_marker. destruct (kn_class k) as [cl|] eqn:K; [|discriminate]. intros H S.
  rewrite (ksound_class _ _ _ S K). destruct cl; try discriminate; reflexivity.
Qed.

Lemma rstep_marker_class cfg c id c' o :
  rstep cfg c (EMarker id) = Some (c', o) -> WF c -> rclass_of (e_rule (cur c')) = KMarker.
Proof.
  rewrite rstep_plan. cbn [ev_plan]. destruct (validate_identifier cfg id); [|discriminate]. unfold mkplan.
  destruct (plan_step cfg _ c) as [c2|] eqn:S; [|discriminate]. intros H W; inv_some.
  destruct marker_table as [T _]. rewrite forallb_forall in T. specialize (T _ (all_rules_complete (e_rule (cur c)))).
  apply orb_true_iff in T as [T|T]; [rewrite plan_step_reject in S by exact T; discriminate|].
  destruct (plan_step_structure _ _ _ _ S W) as [_ [_ K]]. eapply kn_is_marker_sound; eauto.
Qed.

Lemma rstep_after_marker cfg c e c' o :
  rstep cfg c e = Some (c', o) -> WF c -> rclass_of (e_rule (cur c)) = KMarker ->
  not_markable_event e = false /\ (e = EPadding -> rclass_of (e_rule (cur c')) = KMarker).
Proof.
  intros R W K. destruct marker_table as [_ T]. rewrite forallb_forall in T.
  specialize (T _ (all_rules_complete (e_rule (cur c)))). rewrite K in T. cbn [rclass_eqb negb orb] in T.
  apply andb_true_iff in T as [T T4]. apply andb_true_iff in T as [T T3]. apply andb_true_iff in T as [T1 T2].
  rewrite rstep_plan in R. destruct (ev_plan cfg e) as [pl|] eqn:P; [|discriminate].
  destruct (plan_step cfg pl c) as [c2|] eqn:S; [|discriminate]. inv_some. split.
  - destruct e; try reflexivity; exfalso; cbn [ev_plan] in P;
      (destruct (validate_identifier cfg id); [|discriminate]); unfold mkplan in P; inv_some;
      rewrite plan_step_reject in S by assumption; discriminate.
  - intros ->. cbn [ev_plan] in P. unfold mkplan in P. inv_some.
    apply orb_true_iff in T1 as [T1|T1]; [rewrite plan_step_reject in S by exact T1; discriminate|].
    destruct (plan_step_structure _ _ _ _ S W) as [_ [_ K']]. eapply kn_is_marker_sound; eauto.
Qed.

(* C13: the event following a marker (padding aside) is never a marker, a reference or a record type *)
Theorem marker_followed_by_object cfg p id pads e q :
  accepts cfg (p ++ EMarker id :: pads ++ e :: q) = true -> forallb is_padding pads = true ->
  not_markable_event e = false.
Proof.
  rewrite accepts_steps. intros [c H] Pd. rewrite steps_app in H.
  destruct (steps cfg init_rctx p) as [cp|] eqn:Hp; [|discriminate].
  pose proof (steps_WF _ _ _ Hp) as Wp. cbn [steps] in H.
  destruct (rstep cfg cp (EMarker id)) as [[c1 o]|] eqn:R; [|discriminate].
  pose proof (rstep_marker_class _ _ _ _ _ R Wp) as K1.
  destruct (rstep_structure _ _ _ _ _ R Wp) as [W1 _]. clear Hp R Wp.
  revert c1 K1 W1 H. induction pads as [|x pads IH]; intros c1 K1 W1 H; cbn [app steps] in H.
  - destruct (rstep cfg c1 e) as [[c2 o2]|] eqn:R2; [|discriminate].
    exact (proj1 (rstep_after_marker _ _ _ _ _ R2 W1 K1)).
  - cbn [forallb] in Pd. apply andb_true_iff in Pd as [Px Pd]. destruct x; try discriminate Px.
    destruct (rstep cfg c1 EPadding) as [[c2 o2]|] eqn:R2; [|discriminate].
    destruct (rstep_after_marker _ _ _ _ _ R2 W1 K1) as [_ K2]. destruct (rstep_structure _ _ _ _ _ R2 W1) as [W2 _].
    exact (IH Pd c2 (K2 eq_refl) W2 H).
Qed.


(* ------------------------------------------------------------------------- *)
(* Findings (behaviour of the current code, replayable on the implementation)  *)
(* ------------------------------------------------------------------------- *)
(* Allow_Keyable contains the float type, so a reference to a marked float is accepted as a map key
   (marker first, or reference first), although a float is rejected as a direct map key. *)
Definition float_key_witness_backward : list event :=
  [EBeginDoc; EVersion 0; EList; EMarker [97]; EFloat 0; EMap; ERefLocal [97]; ENull; EEnd; EEnd; EEndDoc].
Definition float_key_witness_forward : list event :=
  [EBeginDoc; EVersion 0; EList; EMap; ERefLocal [97]; ENull; EEnd; EMarker [97]; EFloat 0; EEnd; EEndDoc].
Lemma float_key_reference_accepted :
  accepts_document default_rcfg float_key_witness_backward = true /\
  accepts_document default_rcfg float_key_witness_forward = true /\
  marked_type default_rcfg float_key_witness_backward [97] = Some DT_Float /\
  N.land DT_Float Allow_Keyable <> 0 /\
  accepts default_rcfg [EBeginDoc; EVersion 0; EMap; EFloat 0] = false.
Proof. vm_compute. repeat split; discriminate. Qed.

(* Regression examples for the repaired defects: nested markers are accepted and both registered; a marker on
   a chunked string in key position is registered, so re-using its id is rejected. *)
Definition nested_marker_example : list event :=
  [EBeginDoc; EVersion 0; EMarker [97]; EList; EMarker [98]; EPosInt 1; ERefLocal [97]; EEnd; EEndDoc].
Definition chunked_key_marker_example : list event :=
  [EBeginDoc; EVersion 0; EMap; EMarker [97]; EArrayBegin AT_String; EArrayChunk 1 false; EArrayData [120]; ENull;
   EMarker [97]; EPosInt 1; ENull; EEnd; EEndDoc].
Lemma repaired_marker_examples :
  accepts_document default_rcfg nested_marker_example = true /\
  marked_type default_rcfg nested_marker_example [97] = Some DT_List /\
  marked_type default_rcfg nested_marker_example [98] = Some DT_Int /\
  rejected_at default_rcfg chunked_key_marker_example = Some 9.
Proof. vm_compute. repeat split. Qed.
