(* Key normalisation (Context.NotifyKey) identifies exactly the keys that denote the same value. *)
From CE Require Import Model.Rules.
From Coq Require Import ZifyN ZifyBool.
Open Scope N_scope.

(* What a key denotes: its kind and mathematical value. Negative zero is its own value. *)
Inductive kden :=
| KdBool (b : bool) | KdInt (z : Z) | KdNegZero | KdUid (b : bytes) | KdTime (s : bytes)
| KdString (b : bytes) | KdRid (b : bytes).

Definition key_den (k : rawkey) : kden :=
  match k with
  | RkBool b => KdBool b
  | RkUint64 n => KdInt (Z.of_N n)
  | RkNegint n => if n =? 0 then KdNegZero else KdInt (- Z.of_N n)
  | RkInt64 z => KdInt z
  | RkBigInt z => KdInt z
  | RkBytes b => KdUid (pad_to 16 b)
  | RkTime s => KdTime s
  | RkString b => KdString b
  | RkRid b => KdRid b
  end.

(* the ranges of the Go types the events carry *)
Definition rawkey_wf (k : rawkey) : Prop :=
  match k with
  | RkUint64 n | RkNegint n => n < two64
  | RkInt64 z => (- two63 <= z < two63)%Z
  | _ => True
  end.

Lemma two64_Z : Z.of_N two64 = 18446744073709551616%Z.
Proof. reflexivity. Qed.

Lemma norm_big_cases z :
  (0 <= z < Z.of_N two64 /\ norm_big z = NkUint64 (Z.to_N z))%Z \/
  (- two63 <= z < 0 /\ norm_big z = NkInt64 z)%Z \/
  ((z < - two63 \/ Z.of_N two64 <= z) /\ norm_big z = NkBigWords (Z.sgn z) (Z.abs_N z))%Z.
Proof.
  unfold norm_big. rewrite two64_Z. unfold two63.
  repeat match goal with
  | |- context [(?a <=? ?b)%Z] => destruct (Z.leb_spec a b)
  | |- context [(?a <? ?b)%Z] => destruct (Z.ltb_spec a b)
  end; cbn [andb];
  first [ left; split; [lia | reflexivity]
        | right; left; split; [lia | reflexivity]
        | right; right; split; [lia | reflexivity] ].
Qed.

Lemma norm_big_inj z1 z2 : norm_big z1 = norm_big z2 -> z1 = z2.
Proof.
  destruct (norm_big_cases z1) as [[H1 E1]|[[H1 E1]|[H1 E1]]];
  destruct (norm_big_cases z2) as [[H2 E2]|[[H2 E2]|[H2 E2]]];
  rewrite E1, E2; intro H; inversion H; lia.
Qed.

(* the two translations between normalised keys and denotations *)
Definition kden_of_nkey (k : nkey) : kden :=
  match k with
  | NkBool b => KdBool b
  | NkUint64 n => KdInt (Z.of_N n)
  | NkInt64 z => KdInt z
  | NkNegint _ => KdNegZero
  | NkBigWords s m => KdInt (s * Z.of_N m)
  | NkUid b => KdUid b
  | NkTimeString s => KdTime s
  | NkString b => KdString b
  | NkRid b => KdRid b
  end.
Definition nkey_of_kden (d : kden) : nkey :=
  match d with
  | KdBool b => NkBool b
  | KdInt z => norm_big z
  | KdNegZero => NkNegint 0
  | KdUid b => NkUid b
  | KdTime s => NkTimeString s
  | KdString b => NkString b
  | KdRid b => NkRid b
  end.

Lemma kden_of_norm_big z : kden_of_nkey (norm_big z) = KdInt z.
Proof.
  destruct (norm_big_cases z) as [[H E]|[[H E]|[H E]]]; rewrite E; cbn [kden_of_nkey]; f_equal; lia.
Qed.

Lemma kden_of_norm_key k : rawkey_wf k -> kden_of_nkey (norm_key k) = key_den k.
Proof.
  destruct k as [b|n|n|z|z|b|s|b|b]; cbn [norm_key key_den rawkey_wf kden_of_nkey]; intro W; try reflexivity.
  - destruct (N.eqb_spec n 0); [reflexivity | apply kden_of_norm_big].
  - destruct (Z.leb_spec 0 z); cbn [kden_of_nkey]; f_equal; lia.
  - apply kden_of_norm_big.
Qed.

Lemma nkey_of_key_den k : rawkey_wf k -> nkey_of_kden (key_den k) = norm_key k.
Proof.
  destruct k as [b|n|n|z|z|b|s|b|b]; cbn [norm_key key_den rawkey_wf nkey_of_kden]; intro W; try reflexivity.
  - destruct (norm_big_cases (Z.of_N n)) as [[H E]|[[H E]|[H E]]]; rewrite E; unfold two64, two63 in *;
      rewrite ?two64_Z in *; try lia. f_equal; lia.
  - destruct (N.eqb_spec n 0); reflexivity.
  - destruct (norm_big_cases z) as [[H E]|[[H E]|[H E]]]; rewrite E; unfold two64, two63 in *;
      rewrite ?two64_Z in *; destruct (Z.leb_spec 0 z); try lia; reflexivity.
Qed.

(* Two keys are identified by NotifyKey exactly when they denote the same value. *)
Theorem norm_key_sound_complete k1 k2 :
  rawkey_wf k1 -> rawkey_wf k2 ->
  (norm_key k1 = norm_key k2 <-> key_den k1 = key_den k2).
Proof.
  intros W1 W2; split; intro H.
  - rewrite <- (kden_of_norm_key k1 W1), <- (kden_of_norm_key k2 W2), H. reflexivity.
  - rewrite <- (nkey_of_key_den k1 W1), <- (nkey_of_key_den k2 W2), H. reflexivity.
Qed.

Lemma nkey_eqb_eq a b : nkey_eqb a b = true <-> a = b.
Proof.
  destruct a, b; cbn [nkey_eqb]; try (split; [discriminate | congruence]);
    rewrite ?andb_true_iff, ?Bool.eqb_true_iff, ?N.eqb_eq, ?Z.eqb_eq, ?bytes_eqb_eq;
    (split; [ intro H; try (destruct H); subst; reflexivity
            | intro H; inversion H; subst; auto ]).
Qed.

(* NotifyKey rejects exactly when the key's value is already in the key set of the current container,
   and otherwise adds it.  [ks] are the keys notified so far. *)
Theorem notify_key_spec k ks c :
  rawkey_wf k -> Forall rawkey_wf ks -> e_keys (cur c) = map norm_key ks ->
  (notify_key k c = None <-> exists k', In k' ks /\ key_den k' = key_den k) /\
  (forall c', notify_key k c = Some c' -> e_keys (cur c') = map norm_key (k :: ks)).
Proof.
  intros Wk Wks Hk. unfold notify_key. rewrite Hk.
  destruct (existsb (nkey_eqb (norm_key k)) (map norm_key ks)) eqn:E.
  - split; [split; [intros _ | reflexivity] | discriminate].
    apply existsb_exists in E as [nk [Hin Heq]]. apply nkey_eqb_eq in Heq. subst nk.
    apply in_map_iff in Hin as [k' [Hn Hin]]. exists k'. split; [exact Hin|].
    apply norm_key_sound_complete; auto. rewrite Forall_forall in Wks; auto.
  - split.
    + split; [discriminate|]. intros [k' [Hin Hd]]. exfalso.
      assert (existsb (nkey_eqb (norm_key k)) (map norm_key ks) = true) as X; [|congruence].
      apply existsb_exists. exists (norm_key k'). split; [apply in_map; exact Hin|].
      apply nkey_eqb_eq. symmetry. apply norm_key_sound_complete; auto. rewrite Forall_forall in Wks; auto.
    + intros c' H. inversion H; subst. cbn. reflexivity.
Qed.
