(* C10: shape of accepted documents. *)
From CE Require Import Model.Rules Model.RulesSpec Proofs.RulesInvariants Proofs.RulesStructure Proofs.RulesLimits Proofs.RulesMarkers.
From Coq Require Import ZifyN ZifyNat ZifyBool.
Open Scope N_scope.

Scheme Equality for rule.
Lemma rule_beq_true a b : rule_beq a b = true -> a = b.
Proof. apply internal_rule_dec_bl. Qed.

(* which event each frame method comes from *)
Lemma ev_plan_frame cfg e pl :
  ev_plan cfg e = Some pl ->
  (p_meth pl = MBeginDocument -> e = EBeginDoc) /\
  (p_meth pl = MEndDocument -> e = EEndDoc) /\
  (p_meth pl = MVersion -> exists v, e = EVersion v /\ a_version (p_args pl) = v).
Proof.
  destruct e as [| |v| |m t| |b| | |n|n|z|[z|]|bits|[bf|]|[| | |]|[[| | |]|]|s|b|s| | |id|id| | | |id|id|t cnt d|t d|mt d|ct d|ct d|t|mt|t ct|n m|d];
    cbn [ev_plan]; intro H;
    repeat match goal with H : (if ?b then _ else _) = Some _ |- _ => destruct b; try discriminate H end;
    unfold mkplan in H; inv_some; cbn [p_meth p_args a_version]; repeat split; try discriminate; try reflexivity.
  intros _. eexists; split; reflexivity.
Qed.

(* the document-level rows of the matrix: one method each, leading to the next rule *)
Definition only_meth (r : rule) (m0 : meth) : bool :=
  forallb (fun m => meth_beq m m0 || has_reject (dispatch r m)) all_meths.
Definition leads_to (r : rule) (m : meth) (r' : rule) : bool :=
  has_reject (dispatch r m) || match postk r m with KRule x => rule_beq x r' | _ => false end.
Definition checks_version (cell : list prim) : bool :=
  has_reject cell || existsb (fun p => match p with PCheckVersion => true | _ => false end) cell.

Lemma frame_table :
  only_meth RBeginDocument MBeginDocument = true /\ leads_to RBeginDocument MBeginDocument RVersion = true /\
  only_meth RVersion MVersion = true /\ leads_to RVersion MVersion RTopLevel = true /\
  checks_version (dispatch RVersion MVersion) = true /\
  only_meth REndDocument MEndDocument = true.
Proof. vm_compute. repeat split; reflexivity. Qed.

Lemma only_meth_spec r m0 cfg pl c c' :
  only_meth r m0 = true -> e_rule (cur c) = r -> plan_step cfg pl c = Some c' -> p_meth pl = m0.
Proof.
  intros O R S. unfold only_meth in O. rewrite forallb_forall in O. specialize (O _ (all_meths_complete (p_meth pl))).
  apply orb_true_iff in O as [O|O]; [apply meth_beq_true in O; exact O|].
  rewrite plan_step_reject in S; [discriminate | rewrite R; exact O].
Qed.

Lemma leads_to_spec r m r' cfg pl c c' :
  leads_to r m r' = true -> e_rule (cur c) = r -> p_meth pl = m -> WF c -> plan_step cfg pl c = Some c' ->
  e_rule (cur c') = r'.
Proof.
  intros L R M W S. unfold leads_to in L. apply orb_true_iff in L as [L|L].
  - rewrite plan_step_reject in S; [discriminate | rewrite R, M; exact L].
  - destruct (plan_step_structure _ _ _ _ S W) as [_ [_ K]]. rewrite R, M in K.
    destruct (postk r m); try discriminate L. apply rule_beq_true in L. subst. exact K.
Qed.

(* one event from the initial state, and one from the version state *)
Lemma rstep_first cfg c e c' o :
  e_rule (cur c) = RBeginDocument -> WF c -> rstep cfg c e = Some (c', o) -> e = EBeginDoc /\ e_rule (cur c') = RVersion.
Proof.
  intros R W H. rewrite rstep_plan in H. destruct (ev_plan cfg e) as [pl|] eqn:P; [|discriminate].
  destruct (plan_step cfg pl c) as [c2|] eqn:S; [|discriminate]. inv_some.
  destruct frame_table as [T1 [T2 _]].
  pose proof (only_meth_spec _ _ _ _ _ _ T1 R S) as M. split.
  - exact (proj1 (ev_plan_frame _ _ _ P) M).
  - eapply leads_to_spec; eauto.
Qed.

Lemma plan_step_checks_version cfg pl c c' :
  checks_version (dispatch (e_rule (cur c)) (p_meth pl)) = true -> p_nno pl = None ->
  plan_step cfg pl c = Some c' -> a_version (p_args pl) = expected_version cfg.
Proof.
  intros T N S. unfold plan_step in S. rewrite N in S. unfold call_current, call_fuel in S. rewrite call_rule_S in S.
  unfold checks_version in T. apply orb_true_iff in T as [T|T]; [rewrite exec_prims_reject in S by exact T; discriminate|].
  apply existsb_exists in T as [p [Hin Hp]]. destruct p; try discriminate Hp.
  destruct (exec_prims_in _ _ _ _ _ _ _ _ _ S Hin) as [c1 [c2 E]]. cbn [exec_prim] in E.
  destruct (a_version (p_args pl) =? expected_version cfg) eqn:V; [lia | discriminate].
Qed.

Lemma rstep_second cfg c e c' o :
  e_rule (cur c) = RVersion -> WF c -> rstep cfg c e = Some (c', o) ->
  e = EVersion (expected_version cfg) /\ e_rule (cur c') = RTopLevel.
Proof.
  intros R W H. rewrite rstep_plan in H. destruct (ev_plan cfg e) as [pl|] eqn:P; [|discriminate].
  destruct (plan_step cfg pl c) as [c2|] eqn:S; [|discriminate]. inv_some.
  destruct frame_table as [_ [_ [T1 [T2 [T3 _]]]]].
  pose proof (only_meth_spec _ _ _ _ _ _ T1 R S) as M. split.
  - destruct (proj2 (proj2 (ev_plan_frame _ _ _ P)) M) as [v [-> V]]. f_equal. rewrite <- V.
    eapply plan_step_checks_version; eauto; [rewrite R, M; exact T3|]. cbn [ev_plan] in P. unfold mkplan in P. inv_some. reflexivity.
  - eapply leads_to_spec; eauto.
Qed.

(* the last event *)
Lemma rstep_to_terminal cfg c e c' o :
  rstep cfg c e = Some (c', o) -> NT c -> e_rule (cur c') = RTerminal -> e = EEndDoc.
Proof.
  rewrite rstep_plan. destruct (ev_plan cfg e) as [pl|] eqn:P; [|discriminate].
  destruct (plan_step cfg pl c) as [c2|] eqn:S; [|discriminate]. intros H B T; inv_some.
  apply (proj1 (proj2 (ev_plan_frame _ _ _ P))).
  unfold plan_step, call_current in S.
  assert (forall c1, NT c1 -> call_rule call_fuel cfg (e_rule (cur c1)) (p_meth pl) (p_args pl) c1 = Some c' -> p_meth pl = MEndDocument) as X.
  { intros c1 B1 H. destruct (NT_call _ _ _ _ _ _ _ H B1) as [[_ Y]|[Y _]]; [contradiction | exact Y]. }
  destruct (p_nno pl) as [real|].
  - destruct (notify_new_object cfg real c) as [c1|] eqn:N; [|discriminate]. apply nno_fields in N.
    apply (X c1); [|exact S]. destruct B as [B1 B2]. destruct N as [_ [_ [_ [N1 [N2 _]]]]]. split; congruence.
  - eapply X; eauto.
Qed.

Lemma steps_NT_prefix cfg es : forall c c', steps cfg c es = Some c' -> NT c -> es <> [] ->
  exists p e cp o, es = p ++ [e] /\ steps cfg c p = Some cp /\ NT cp /\ rstep cfg cp e = Some (c', o).
Proof.
  induction es as [|e es IH]; intros c c' H B Ne; [contradiction|]. cbn [steps] in H.
  destruct (rstep cfg c e) as [[c1 o]|] eqn:R; [|discriminate].
  destruct es as [|e2 es].
  - cbn in H. inv_some. exists [], e, c, o. split; [reflexivity|]. split; [reflexivity|]. split; assumption.
  - destruct (rstep_NT _ _ _ _ _ R B) as [B1|[T1 _]].
    + destruct (IH _ _ H B1) as [p [x [cp [o' [E [Hp [Bp Rp]]]]]]]; [discriminate|].
      exists (e :: p), x, cp, o'. split; [cbn; congruence|]. split; [cbn [steps]; rewrite R; exact Hp|]. split; assumption.
    + cbn [steps] in H. rewrite rstep_terminal in H by exact T1. discriminate.
Qed.

(* ------------------------------------------------------------------------- *)
(* C10 (b): the frame of an accepted complete document                        *)
(* ------------------------------------------------------------------------- *)
Theorem document_frame cfg es :
  accepts_document cfg es = true ->
  exists body, es = EBeginDoc :: EVersion (expected_version cfg) :: body ++ [EEndDoc].
Proof.
  rewrite accepts_document_steps. intros [c [H T]].
  destruct (steps_NT_prefix _ _ _ _ H NT_init) as [p [e [cp [o [E [Hp [Bp Rp]]]]]]].
  { intros ->. cbn in H. inv_some. discriminate. }
  pose proof (rstep_to_terminal _ _ _ _ _ Rp Bp T) as ->. subst es.
  destruct p as [|e1 p].
  { cbn in Hp. inv_some. destruct (rstep_first cfg init_rctx _ _ _ eq_refl WF_init Rp) as [X _]. discriminate. }
  cbn [steps] in Hp. destruct (rstep cfg init_rctx e1) as [[c1 o1]|] eqn:R1; [|discriminate].
  destruct (rstep_first cfg init_rctx _ _ _ eq_refl WF_init R1) as [-> K1].
  destruct (rstep_structure _ _ _ _ _ R1 WF_init) as [W1 _].
  destruct p as [|e2 p].
  { cbn in Hp. inv_some. destruct (rstep_second _ _ _ _ _ K1 W1 Rp) as [X _]. discriminate. }
  cbn [steps] in Hp. destruct (rstep cfg c1 e2) as [[c2 o2]|] eqn:R2; [|discriminate].
  destruct (rstep_second _ _ _ _ _ K1 W1 R2) as [-> K2].
  exists p. reflexivity.
Qed.

(* nothing is accepted after the end of the document *)
Theorem nothing_after_end cfg es e : accepts_document cfg es = true -> accepts cfg (es ++ [e]) = false.
Proof.
  rewrite accepts_document_steps. intros [c [H T]].
  destruct (accepts cfg (es ++ [e])) eqn:A; [|reflexivity]. exfalso.
  apply accepts_steps in A as [c' A]. rewrite steps_app, H in A. cbn [steps] in A.
  rewrite rstep_terminal in A by exact T. discriminate.
Qed.

(* containers are balanced: the running depth is never negative and is zero at the end *)
Theorem depth_balanced cfg es :
  accepts cfg es = true ->
  (forall p q, es = p ++ q -> (0 <= depth_after p)%Z) /\
  (accepts_document cfg es = true -> depth_after es = 0%Z).
Proof.
  intro A. split.
  - intros p q ->. apply accepts_app in A. apply accepts_steps in A as [c H].
    pose proof (steps_counters _ _ _ _ H) as [_ C]. cbn in C. lia.
  - rewrite accepts_document_steps. intros [c [H T]].
    pose proof (steps_counters _ _ _ _ H) as [_ C]. cbn in C.
    destruct (WF_top c (steps_WF _ _ _ H)) as [_ D]; [rewrite T; reflexivity|]. lia.
Qed.

(* the model's depth counter is that running depth *)
Theorem container_depth_spec cfg es d : container_depth cfg es = Some d -> Z.of_N d = depth_after es.
Proof.
  unfold container_depth. destruct (state_after cfg es) as [c|] eqn:S; [|discriminate]. intro H; inv_some.
  apply state_after_steps in S. pose proof (steps_counters _ _ _ _ S) as [_ C]. cbn in C. lia.
Qed.

(* once the top-level object is complete, only the end of the document is accepted *)
Theorem after_top_level_object cfg p e :
  rule_in_force cfg p = Some REndDocument -> accepts cfg (p ++ [e]) = true -> e = EEndDoc.
Proof.
  unfold rule_in_force. destruct (state_after cfg p) as [cp|] eqn:S; [|discriminate]. intro K; inv_some.
  apply state_after_steps in S. rewrite accepts_steps. intros [c H]. rewrite steps_app, S in H. cbn [steps] in H.
  destruct (rstep cfg cp e) as [[c1 o]|] eqn:R; [|discriminate].
  rewrite rstep_plan in R. destruct (ev_plan cfg e) as [pl|] eqn:P; [|discriminate].
  destruct (plan_step cfg pl cp) as [c2|] eqn:St; [|discriminate].
  destruct frame_table as [_ [_ [_ [_ [_ T]]]]].
  apply (proj1 (proj2 (ev_plan_frame _ _ _ P))). eapply only_meth_spec; eauto.
Qed.
