(* General facts about [decode_rune] / [utf8_valid] (Base/Utf8.v):
   a valid string is a concatenation of runes; validity of concatenations; how a valid
   string can be cut at an arbitrary byte position. *)
From CE Require Import Base.Utf8.
From Coq Require Import ZifyN ZifyNat ZifyBool.
Open Scope N_scope.

(* ---- list helpers ---- *)
Lemma app_eq_app_cases {A} (a b c d : list A) :
  a ++ b = c ++ d ->
  (exists e, c = a ++ e /\ b = e ++ d) \/ (exists e, e <> [] /\ a = c ++ e /\ d = e ++ b).
Proof.
  revert c; induction a as [|x a IH]; intros c H.
  - left. exists c. split; [reflexivity | exact H].
  - destruct c as [|y c].
    + right. exists (x :: a). cbn [app] in *. repeat split; [discriminate | symmetry; exact H].
    + cbn [app] in H. injection H as Hxy H. subst y.
      destruct (IH c H) as [[e [E1 E2]] | [e [E0 [E1 E2]]]].
      * left. exists e. subst. split; reflexivity.
      * right. exists e. subst. repeat split; assumption.
Qed.

Lemma firstn_length_app {A} (a b : list A) : firstn (length a) (a ++ b) = a.
Proof.
  rewrite firstn_app, Nat.sub_diag, firstn_all. cbn [firstn]. apply app_nil_r.
Qed.

Lemma skipn_length_app {A} (a b : list A) : skipn (length a) (a ++ b) = b.
Proof.
  rewrite skipn_app, Nat.sub_diag, skipn_all. reflexivity.
Qed.

(* ---- one rune ---- *)
(* the length announced by a lead byte, as [decode_rune] sees it (0 = not a lead byte) *)
Definition lead_len (b : N) : nat :=
  if b <? 128 then 1%nat else if b <? 194 then 0%nat else if b <? 224 then 2%nat
  else if b <? 240 then 3%nat else if b <? 245 then 4%nat else 0%nat.

Definition is_rune (r : bytes) : Prop := exists c, decode_rune r = Some (c, length r).

Lemma decode_rune_inv s c n :
  decode_rune s = Some (c, n) ->
  (0 < n <= 4)%nat /\ (n <= length s)%nat /\
  (exists b0 t, firstn n s = b0 :: t /\ lead_len b0 = n /\ forallb is_cont t = true) /\
  (forall y, decode_rune (firstn n s ++ y) = Some (c, n)).
Proof.
  unfold decode_rune. intro H.
  destruct s as [|b0 r]; [discriminate|].
  destruct (b0 <? 128) eqn:E1.
  { inversion H; subst; clear H. cbn [firstn app length].
    split; [lia|]. split; [lia|]. split.
    - exists c, []. unfold lead_len. rewrite E1. repeat split.
    - intro y. rewrite E1. reflexivity. }
  destruct (b0 <? 194) eqn:E2; [discriminate|].
  destruct (b0 <? 224) eqn:E3.
  { destruct r as [|b1 r]; [discriminate|].
    destruct (is_cont b1) eqn:C1; [|discriminate].
    inversion H; subst; clear H. cbn [firstn app length].
    split; [lia|]. split; [lia|]. split.
    - exists b0, [b1]. unfold lead_len. rewrite E1, E2, E3. cbn [forallb]. rewrite C1.
      repeat split.
    - intro y. rewrite E1, E2, E3, C1. reflexivity. }
  destruct (b0 <? 240) eqn:E4.
  { destruct r as [|b1 [|b2 r]]; try discriminate.
    cbv zeta in H.
    match type of H with (if ?cnd then _ else _) = _ => destruct cnd eqn:C end; [|discriminate].
    inversion H; subst; clear H. cbn [firstn app length].
    split; [lia|]. split; [lia|]. split.
    - exists b0, [b1; b2]. unfold lead_len. rewrite E1, E2, E3, E4. cbn [forallb].
      repeat split.
      unfold is_cont in *. destruct (b0 =? 224); destruct (b0 =? 237); lia.
    - intro y. rewrite E1, E2, E3, E4. cbv zeta. rewrite C. reflexivity. }
  destruct (b0 <? 245) eqn:E5; [|discriminate].
  destruct r as [|b1 [|b2 [|b3 r]]]; try discriminate.
  cbv zeta in H.
  match type of H with (if ?cnd then _ else _) = _ => destruct cnd eqn:C end; [|discriminate].
  inversion H; subst; clear H. cbn [firstn app length].
  split; [lia|]. split; [lia|]. split.
  - exists b0, [b1; b2; b3]. unfold lead_len. rewrite E1, E2, E3, E4, E5. cbn [forallb].
    repeat split.
    unfold is_cont in *. destruct (b0 =? 240); destruct (b0 =? 244); lia.
  - intro y. rewrite E1, E2, E3, E4, E5. cbv zeta. rewrite C. reflexivity.
Qed.

Lemma is_rune_inv r :
  is_rune r ->
  exists b0 t, r = b0 :: t /\ lead_len b0 = length r /\ forallb is_cont t = true /\
               (length r <= 4)%nat.
Proof.
  intros [c H]. destruct (decode_rune_inv _ _ _ H) as [Hn [_ [[b0 [t [E [L F]]]] _]]].
  rewrite firstn_all in E. exists b0, t. repeat split; try assumption. lia.
Qed.

Lemma is_rune_nonempty r : is_rune r -> r <> [].
Proof.
  intro H. destruct (is_rune_inv _ H) as [b0 [t [E _]]]. subst. discriminate.
Qed.

Lemma decode_rune_app r c y :
  decode_rune r = Some (c, length r) -> decode_rune (r ++ y) = Some (c, length r).
Proof.
  intro H. destruct (decode_rune_inv _ _ _ H) as [_ [_ [_ A]]].
  rewrite firstn_all in A. apply A.
Qed.

Lemma decode_rune_firstn s c n :
  decode_rune s = Some (c, n) -> is_rune (firstn n s) /\ length (firstn n s) = n.
Proof.
  intro H. destruct (decode_rune_inv _ _ _ H) as [_ [Hl [_ A]]].
  assert (L : length (firstn n s) = n) by (rewrite firstn_length; lia).
  split; [|exact L]. exists c. rewrite L. specialize (A []). rewrite app_nil_r in A. exact A.
Qed.

(* ---- valid strings as sequences of runes ---- *)
Inductive Valid : bytes -> Prop :=
| Valid_nil : Valid []
| Valid_cons r s : is_rune r -> Valid s -> Valid (r ++ s).

Lemma utf8_valid_fuel_Valid f : forall s, (length s <= f)%nat -> utf8_valid_fuel f s = true -> Valid s.
Proof.
  induction f as [|f IH]; intros s L H.
  - destruct s; [constructor | cbn [length] in L; lia].
  - destruct s as [|b s]; [constructor|].
    cbn [utf8_valid_fuel] in H.
    destruct (decode_rune (b :: s)) as [[c n]|] eqn:D; [|discriminate].
    destruct (decode_rune_inv _ _ _ D) as [Hn [Hl _]].
    destruct (decode_rune_firstn _ _ _ D) as [R _].
    rewrite <- (firstn_skipn n (b :: s)). constructor; [exact R|].
    apply IH; [|exact H]. rewrite skipn_length. lia.
Qed.

Lemma Valid_utf8_valid_fuel s : Valid s -> forall f, (length s <= f)%nat -> utf8_valid_fuel f s = true.
Proof.
  induction 1 as [|r s R V IH]; intros f L.
  - destruct f; reflexivity.
  - destruct R as [c D].
    assert (Hr : r <> []) by (apply is_rune_nonempty; exists c; exact D).
    pose proof (decode_rune_app r c s D) as D'.
    rewrite app_length in L.
    destruct r as [|b r]; [congruence|].
    destruct f as [|f]; [cbn [length] in L; lia|].
    change ((b :: r) ++ s) with (b :: (r ++ s)) in *.
    cbn [utf8_valid_fuel]. rewrite D'.
    change (b :: r ++ s) with ((b :: r) ++ s). rewrite skipn_length_app.
    apply IH. cbn [length] in L. lia.
Qed.

Theorem utf8_valid_iff_Valid s : utf8_valid s = true <-> Valid s.
Proof.
  unfold utf8_valid. split.
  - apply utf8_valid_fuel_Valid. lia.
  - intro V. apply Valid_utf8_valid_fuel; [exact V | lia].
Qed.

Lemma Valid_rune r : is_rune r -> Valid r.
Proof.
  intro R. rewrite <- (app_nil_r r). constructor; [exact R | constructor].
Qed.

Lemma Valid_app a b : Valid a -> Valid b -> Valid (a ++ b).
Proof.
  induction 1 as [|r s R V IH]; intro Vb; [exact Vb|].
  rewrite <- app_assoc. constructor; [exact R | apply IH; exact Vb].
Qed.

(* the first rune of a valid string is determined *)
Lemma Valid_rune_app_inv r x : is_rune r -> Valid (r ++ x) -> Valid x.
Proof.
  intros [c D] V. inversion V as [E | r' s' R' V' E].
  - destruct r; [|discriminate]. cbn [app] in E. subst. constructor.
  - destruct R' as [c' D'].
    pose proof (decode_rune_app r c x D) as A.
    pose proof (decode_rune_app r' c' s' D') as A'.
    rewrite E in A'. rewrite A in A'. injection A' as _ L.
    assert (X : x = s').
    { apply (f_equal (skipn (length r))) in E. rewrite L in E at 1.
      rewrite !skipn_length_app in E. congruence. }
    subst. exact V'.
Qed.

Lemma Valid_app_inv_r a b : Valid a -> Valid (a ++ b) -> Valid b.
Proof.
  induction 1 as [|r s R V IH]; intro Vab; [exact Vab|].
  rewrite <- app_assoc in Vab. apply IH. eapply Valid_rune_app_inv; eassumption.
Qed.

(* the head of a non-empty valid string *)
Lemma Valid_head b s :
  Valid (b :: s) -> exists r x, b :: s = r ++ x /\ is_rune r /\ Valid x.
Proof.
  intro V. inversion V as [|r x R Vx E]. exists r, x. repeat split; assumption.
Qed.

(* a non-empty valid string ends with a rune *)
Lemma Valid_last s : Valid s -> s = [] \/ exists p r, s = p ++ r /\ Valid p /\ is_rune r.
Proof.
  induction 1 as [|r s R V IH]; [left; reflexivity | right].
  destruct IH as [E | [p [r' [E [Vp R']]]]].
  - subst. exists [], r. rewrite app_nil_r. repeat split; [constructor | exact R].
  - subst. exists (r ++ p), r'. rewrite app_assoc. repeat split; [|exact R'].
    constructor; assumption.
Qed.

(* cutting a valid string at an arbitrary position: either at a rune boundary or inside a rune *)
Lemma Valid_cut d : forall rest,
  Valid (d ++ rest) ->
  (Valid d /\ Valid rest) \/
  (exists p r1 r2 rest', d = p ++ r1 /\ rest = r2 ++ rest' /\ Valid p /\ r1 <> [] /\ r2 <> [] /\
                         is_rune (r1 ++ r2) /\ Valid rest').
Proof.
  intros rest V. remember (d ++ rest) as s eqn:E. revert d rest E.
  induction V as [|r s R V IH]; intros d rest E.
  - symmetry in E. apply app_eq_nil in E as [-> ->]. left. split; constructor.
  - destruct (app_eq_app_cases _ _ _ _ E) as [[e [E1 E2]] | [e [E0 [E1 E2]]]].
    + (* d = r ++ e *)
      destruct (IH e rest E2) as [[Ve Vr] | [p [r1 [r2 [rest' [F1 [F2 [Vp [N1 [N2 [R' Vr]]]]]]]]]]].
      * left. subst d. split; [constructor; assumption | exact Vr].
      * right. exists (r ++ p), r1, r2, rest'. subst d e. rewrite app_assoc.
        repeat split; try assumption. constructor; assumption.
    + (* r = d ++ e, e non-empty *)
      destruct d as [|x d].
      * left. split; [constructor|]. cbn [app] in E1. subst r rest. constructor; assumption.
      * right. exists [], (x :: d), e, s. cbn [app]. subst r.
        repeat split; try assumption; [constructor | discriminate].
Qed.

(* ---- boolean corollaries ---- *)
Lemma utf8_valid_app_true a b :
  utf8_valid a = true -> utf8_valid b = true -> utf8_valid (a ++ b) = true.
Proof. rewrite !utf8_valid_iff_Valid. apply Valid_app. Qed.

Lemma utf8_valid_app a b : utf8_valid a = true -> utf8_valid (a ++ b) = utf8_valid b.
Proof.
  intro Ha. apply utf8_valid_iff_Valid in Ha.
  destruct (utf8_valid b) eqn:Hb.
  - apply utf8_valid_iff_Valid. apply Valid_app; [exact Ha | apply utf8_valid_iff_Valid; exact Hb].
  - destruct (utf8_valid (a ++ b)) eqn:Hab; [|reflexivity].
    apply utf8_valid_iff_Valid in Hab. apply (Valid_app_inv_r a b Ha) in Hab.
    apply utf8_valid_iff_Valid in Hab. congruence.
Qed.
