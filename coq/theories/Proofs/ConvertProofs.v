(* C03 — lemmas about the conversion pipelines (Model/Convert.v). *)
From CE Require Import Model.Convert Proofs.Utf8Lemmas.
From CE Require Model.Cbe Model.CteEnc Model.CteRead Model.CteLit Model.Denote Model.Rules Gen.RulesConsts Gen.CteReadTables.
From CE Require Proofs.CbeRoundtrip.
From Coq Require Import ZifyN ZifyNat ZifyBool Lia.
Require Coq.Strings.String.
Import String.StringSyntax.
Open Scope N_scope.

(* ------------------------------------------------------------------ *)
(** * 1. Interval tables: every identifier-safe code point is a CHAR_IDENTIFIER *)

Fixpoint sorted_iv (l : list (N * N)) : bool :=
  match l with
  | [] => true
  | (a, b) :: r => (a <=? b) && match r with [] => true | (c, _) :: _ => b <? c end && sorted_iv r
  end.

Lemma sorted_iv_gap a b rest : sorted_iv ((a, b) :: rest) = true ->
  forall lo hi, In (lo, hi) rest -> b < lo.
Proof.
  revert a b. induction rest as [|[c d] rest IH]; intros a b S lo hi I; [destruct I|].
  cbn [sorted_iv] in S. apply andb_true_iff in S as [S1 S2]. apply andb_true_iff in S1 as [Hab Hbc].
  destruct I as [E|I].
  - inversion E; subst. lia.
  - pose proof (IH c d S2 lo hi I) as G.
    cbn [sorted_iv] in S2. apply andb_true_iff in S2 as [S3 _]. apply andb_true_iff in S3 as [Hcd _]. lia.
Qed.

Lemma in_iv_complete iv : sorted_iv iv = true ->
  forall lo hi r, In (lo, hi) iv -> lo <= r <= hi -> CteRead.in_iv iv r = true.
Proof.
  induction iv as [|[a b] rest IH]; intros S lo hi r I R; [destruct I|].
  cbn [CteRead.in_iv]. destruct I as [E|I].
  - inversion E; subst. destruct (r <? lo) eqn:E1; [lia|]. destruct (r <=? hi) eqn:E2; [reflexivity|lia].
  - pose proof (sorted_iv_gap a b rest S lo hi I) as G.
    assert (Hab : a <= b). { cbn [sorted_iv] in S. apply andb_true_iff in S as [S1 _]. apply andb_true_iff in S1 as [H _]. lia. }
    destruct (r <? a) eqn:E1; [lia|]. destruct (r <=? b) eqn:E2; [lia|].
    apply (IH ltac:(cbn [sorted_iv] in S; apply andb_true_iff in S as [_ S2]; exact S2) lo hi r I R).
Qed.

(* each interval of [a] lies inside one interval of [b] *)
Definition iv_inside (b : list (N * N)) (x : N * N) : bool :=
  existsb (fun y => (fst y <=? fst x) && (snd x <=? snd y)) b.

Lemma ident_tables_checked :
  sorted_iv CteReadTables.cte_ident_intervals = true /\
  forallb (iv_inside CteReadTables.cte_ident_intervals) RulesConsts.identifier_safe_intervals = true.
Proof. vm_compute. split; reflexivity. Qed.

(* for every code point (no bound): chars.IsRuneValidIdentifier implies CHAR_IDENTIFIER *)
Theorem ident_class_inclusion r : Rules.is_identifier_safe_rune r = true -> CteRead.ch_ident r = true.
Proof.
  unfold Rules.is_identifier_safe_rune, CteRead.ch_ident. intro H.
  apply existsb_exists in H as [[lo hi] [I R]]. cbn [fst snd] in R.
  destruct ident_tables_checked as [S F].
  rewrite forallb_forall in F. specialize (F _ I). unfold iv_inside in F.
  apply existsb_exists in F as [[lo' hi'] [I' R']]. cbn [fst snd] in R'.
  apply (in_iv_complete _ S lo' hi' r I'). lia.
Qed.

Lemma ident_chars_not_special r : CteRead.ch_ident r = true ->
  r <> 47 /\ r <> 34 /\ r <> 40 /\ r <> 58 /\ r <> 60 /\ r <> 123 /\ r <> 91 /\ r <> 10 /\ r <> 32 /\ r <> 65533.
Proof.
  intro H. repeat split; intro E; subst r; vm_compute in H; discriminate.
Qed.

(* ------------------------------------------------------------------ *)
(** * 2. Spans *)

Definition stops (p : N -> bool) (s : CteRead.inp) : Prop :=
  match s with [] => True | c :: _ => p c = false end.

Lemma span_spec p s : forall a b, CteRead.span p s = (a, b) ->
  s = a ++ b /\ forallb p a = true /\ stops p b.
Proof.
  induction s as [|c s IH]; intros a b H; cbn [CteRead.span] in H.
  - inversion H; subst. repeat split.
  - destruct (p c) eqn:E.
    + destruct (CteRead.span p s) as [a' b'] eqn:E'. inversion H; subst.
      destruct (IH a' b eq_refl) as (E1 & E2 & E3). subst s. repeat split; [|assumption].
      cbn [forallb]. rewrite E, E2. reflexivity.
    + inversion H; subst. repeat split. exact E.
Qed.

Lemma span_app p a b : forallb p a = true -> stops p b -> CteRead.span p (a ++ b) = (a, b).
Proof.
  induction a as [|c a IH]; intros F S; cbn [app].
  - destruct b as [|c b]; [reflexivity|]. cbn [CteRead.span]. cbn [stops] in S. rewrite S. reflexivity.
  - cbn [forallb] in F. apply andb_true_iff in F as [F1 F2]. cbn [CteRead.span]. rewrite F1, (IH F2 S). reflexivity.
Qed.

(* a character outside the class inside [a]: the span stops before the end of [a] *)
Lemma span_short p a b : forallb p a = false ->
  (length b < length (snd (CteRead.span p (a ++ b))))%nat.
Proof.
  induction a as [|c a IH]; intro F; [discriminate|].
  cbn [forallb] in F. cbn [app CteRead.span]. destruct (p c) eqn:E.
  - cbn [andb] in F. specialize (IH F). destruct (CteRead.span p (a ++ b)) as [x y]. exact IH.
  - cbn [snd length]. rewrite app_length. lia.
Qed.

(* ------------------------------------------------------------------ *)
(** * 3. Media types: the MEDIA_TYPE fragment matches the encoder's spelling exactly
      when the media type has the shape [media_lexable_runes] *)

Lemma media_next_not_special c : CteRead.ch_media_next c = true -> c <> 47 /\ c <> 91 /\ c <> 34.
Proof. intro H. repeat split; intro E; subst c; vm_compute in H; discriminate. Qed.

Lemma not_media_next_term t : t = 91 \/ t = 34 -> CteRead.ch_media_next t = false.
Proof. intros [E|E]; subst t; reflexivity. Qed.

(* the definition with the literal pattern spelled as a test *)
Lemma m_media_eq c r :
  CteRead.m_media (c :: r) =
  if CteRead.is_alpha c then
    let '(run1, r1) := CteRead.span CteRead.ch_media_next r in
    match r1 with
    | [] => None
    | x :: r2 =>
        if x =? 47 then
          let '(run2, r3) := CteRead.span CteRead.ch_media_next r2 in
          match run2, r3 with
          | _ :: _, t :: r4 => if (t =? 91) || (t =? 34) then Some (c :: run1 ++ 47 :: run2, t, r4) else None
          | _, _ => None
          end
        else None
    end
  else None.
Proof.
  unfold CteRead.m_media. destruct (CteRead.is_alpha c); [|reflexivity].
  destruct (CteRead.span CteRead.ch_media_next r) as [run1 r1]. destruct r1 as [|x r2]; [reflexivity|].
  destruct x as [|p]; [reflexivity|]. do 6 (destruct p as [p|p|]; try reflexivity).
Qed.

Lemma forallb_app_true {A} (p : A -> bool) a b : forallb p (a ++ b) = forallb p a && forallb p b.
Proof. apply forallb_app. Qed.

(* the lexer's MEDIA_TYPE on  <media type> '['  (or a double quote): it returns the whole
   media type exactly when the media type is lexable *)
Theorem m_media_iff s t rest : t = 91 \/ t = 34 ->
  (CteRead.m_media (s ++ t :: rest) = Some (s, t, rest) <-> media_lexable_runes s = true).
Proof.
  intro Ht. pose proof (not_media_next_term t Ht) as Nt.
  assert (Tt : (t =? 91) || (t =? 34) = true) by (destruct Ht; subst t; reflexivity).
  destruct s as [|c s].
  { cbn [app media_lexable_runes]. split; [|discriminate]. destruct Ht; subst t; cbn; discriminate. }
  cbn [app]. rewrite m_media_eq. unfold media_lexable_runes.
  destruct (CteRead.is_alpha c); [|split; discriminate]. cbn [andb].
  split.
  - (* the match covers all of [s]: [s] has the shape *)
    destruct (CteRead.span CteRead.ch_media_next (s ++ t :: rest)) as [run1 r1] eqn:E1.
    destruct r1 as [|x r2]; [discriminate|]. destruct (N.eqb_spec x 47) as [X|X]; [subst x|discriminate].
    destruct (CteRead.span CteRead.ch_media_next r2) as [run2 r3] eqn:E2.
    destruct run2 as [|y run2]; [discriminate|]. destruct r3 as [|t' r4]; [discriminate|].
    destruct ((t' =? 91) || (t' =? 34)); [|discriminate].
    intro H. inversion H; subst; clear H.
    (* s = run1 ++ 47 :: y :: run2 *)
    destruct (span_spec _ _ _ _ E2) as (_ & F2 & _).
    assert (F1 : forallb CteRead.ch_media_next run1 = true).
    { destruct (span_spec _ _ _ _ E1) as (_ & F & _). exact F. }
    rewrite (span_app CteRead.ch_media_next run1 (47 :: y :: run2) F1 eq_refl).
    cbn [N.eqb Pos.eqb andb]. change (47 =? 47) with true. cbn [andb].
    replace (y :: run2) with ((y :: run2) ++ []) by apply app_nil_r.
    rewrite (span_app CteRead.ch_media_next (y :: run2) [] F2 I). reflexivity.
  - (* [s] has the shape: the match covers all of it *)
    destruct (CteRead.span CteRead.ch_media_next s) as [run1 r1] eqn:E1.
    destruct r1 as [|x r2]; [discriminate|]. intro H. apply andb_true_iff in H as [X H].
    apply N.eqb_eq in X. subst x.
    destruct (CteRead.span CteRead.ch_media_next r2) as [run2 r3] eqn:E2.
    apply andb_true_iff in H as [H1 H2]. destruct run2 as [|y run2]; [discriminate|].
    destruct r3; [|discriminate].
    destruct (span_spec _ _ _ _ E1) as (S1 & F1 & _). destruct (span_spec _ _ _ _ E2) as (S2 & F2 & _).
    rewrite app_nil_r in S2. subst r2 s.
    rewrite <- app_assoc.
    change ((47 :: y :: run2) ++ t :: rest) with (47 :: ((y :: run2) ++ t :: rest)).
    rewrite (span_app CteRead.ch_media_next run1 (47 :: ((y :: run2) ++ t :: rest)) F1 eq_refl).
    change (47 =? 47) with true. cbv iota.
    rewrite (span_app CteRead.ch_media_next (y :: run2) (t :: rest) F2 Nt).
    cbn [app]. rewrite Tt. reflexivity.
Qed.

(* ------------------------------------------------------------------ *)
(** * 4. Area/location names: the TZ_AREALOC fragment consumes the whole of the encoder's
      spelling exactly when the name is lexable *)

Theorem m_tz_area_iff s rest : stops CteRead.ch_area_next rest ->
  (CteRead.m_tz_area (47 :: s ++ rest) = Some rest <-> area_lexable_runes s = true).
Proof.
  intro St. unfold CteRead.m_tz_area, CteRead.m_lit, CteRead.m_char. change (47 =? 47) with true.
  cbn [CteRead.obind]. unfold area_lexable_runes.
  destruct s as [|c s].
  { cbn [app]. split; [|discriminate]. destruct rest as [|c rest]; [discriminate|].
    destruct (CteRead.is_upper c) eqn:U; [|discriminate]. cbn [CteRead.obind].
    intro H. inversion H as [H1]. exfalso.
    pose proof (span_spec CteRead.ch_area_next rest) as Sp.
    destruct (CteRead.span CteRead.ch_area_next rest) as [a b]. destruct (Sp a b eq_refl) as (E & _).
    cbn [snd] in H1. subst b. apply (f_equal (@length N)) in E. rewrite app_length in E. cbn [length] in E. lia. }
  cbn [app]. destruct (CteRead.is_upper c); [|split; discriminate]. cbn [CteRead.obind andb].
  destruct (forallb CteRead.ch_area_next s) eqn:F.
  - rewrite (span_app _ s rest F St). cbn [snd]. split; reflexivity.
  - split; [|discriminate]. intro H. inversion H as [H1]. pose proof (span_short CteRead.ch_area_next s rest F) as L.
    rewrite H1 in L. lia.
Qed.

(* ------------------------------------------------------------------ *)
(** * 5. Identifiers: the four spellings the encoder uses are read back as the same identifier *)

Lemma match_lit34 {A} (c : N) (f g : A) : c <> 34 -> (match c with 34 => f | _ => g end) = g.
Proof.
  intro H. destruct c as [|p]; [reflexivity|].
  do 6 (destruct p as [p|p|]; try reflexivity). exfalso; apply H; reflexivity.
Qed.

Lemma match_lit34_40 {A} (c : N) (f g h : A) : c <> 34 -> c <> 40 ->
  (match c with 34 => f | 40 => g | _ => h end) = h.
Proof.
  intros H1 H2. destruct c as [|p]; [reflexivity|].
  do 6 (destruct p as [p|p|]; try reflexivity); exfalso; (apply H1; reflexivity) || (apply H2; reflexivity).
Qed.

(* "$id" *)
Lemma ref_token idx rs rest : rs <> [] -> forallb CteRead.ch_ident rs = true -> stops CteRead.ch_ident rest ->
  CteRead.next_tok idx (36 :: rs ++ rest) = Some (CteRead.TVal (ERefLocal (CteRead.u8 rs)), rest, idx).
Proof.
  intros Hne F St. destruct rs as [|c0 rs]; [congruence|].
  assert (Hc : CteRead.ch_ident c0 = true) by (cbn [forallb] in F; apply andb_true_iff in F; tauto).
  destruct (ident_chars_not_special c0 Hc) as (_ & N34 & _).
  unfold CteRead.next_tok. cbn [CteRead.is_ws N.eqb Pos.eqb orb andb app].
  rewrite match_lit34 by exact N34.
  change (c0 :: rs ++ rest) with ((c0 :: rs) ++ rest). rewrite (span_app _ _ _ F St). reflexivity.
Qed.

(* "&id:" *)
Lemma marker_token idx rs rest : rs <> [] -> forallb CteRead.ch_ident rs = true ->
  CteRead.next_tok idx (38 :: rs ++ 58 :: rest) = Some (CteRead.TMarker (CteRead.u8 rs), rest, idx).
Proof.
  intros Hne F. destruct rs as [|c0 rs]; [congruence|].
  unfold CteRead.next_tok. cbn [CteRead.is_ws N.eqb Pos.eqb orb andb].
  rewrite (span_app CteRead.ch_ident (c0 :: rs) (58 :: rest) F eq_refl). reflexivity.
Qed.

(* where the MEDIA_TYPE fragment gives up: not at a slash *)
Definition media_stop_ok (l : CteRead.inp) : Prop :=
  match snd (CteRead.span CteRead.ch_media_next l) with x :: _ => x <> 47 | [] => True end.

Lemma media_stop_ident rs tail : forallb CteRead.ch_ident rs = true -> media_stop_ok tail -> media_stop_ok (rs ++ tail).
Proof.
  induction rs as [|c rs IH]; intros F St; [exact St|].
  cbn [forallb] in F. apply andb_true_iff in F as [Fc F]. unfold media_stop_ok. cbn [app CteRead.span].
  destruct (CteRead.ch_media_next c).
  - specialize (IH F St). unfold media_stop_ok in IH. destruct (CteRead.span CteRead.ch_media_next (rs ++ tail)) as [a b]. exact IH.
  - cbn [snd]. apply (ident_chars_not_special c Fc).
Qed.

Lemma m_media_none s : s <> [] -> media_stop_ok (tl s) -> CteRead.m_media s = None.
Proof.
  intros Hne St. destruct s as [|c r]; [congruence|]. rewrite m_media_eq. cbn [tl] in St.
  destruct (CteRead.is_alpha c); [|reflexivity]. unfold media_stop_ok in St.
  destruct (CteRead.span CteRead.ch_media_next r) as [run1 r1]. cbn [snd] in St.
  destruct r1 as [|x r2]; [reflexivity|]. destruct (N.eqb_spec x 47); [contradiction|reflexivity].
Qed.

(* "@id<" and "@id{" *)
Lemma at_ident_token idx rs t rest : rs <> [] -> forallb CteRead.ch_ident rs = true ->
  t = 60 \/ t = 123 -> media_stop_ok (t :: rest) ->
  CteRead.next_tok idx (64 :: rs ++ t :: rest) =
  Some ((if t =? 60 then CteRead.TRecTypeB (CteRead.u8 rs) else CteRead.TRecB (CteRead.u8 rs)), rest, idx).
Proof.
  intros Hne F Ht St. destruct rs as [|c0 rs]; [congruence|].
  assert (Hc : CteRead.ch_ident c0 = true) by (cbn [forallb] in F; apply andb_true_iff in F; tauto).
  destruct (ident_chars_not_special c0 Hc) as (_ & N34 & N40 & _).
  assert (Fr : forallb CteRead.ch_ident rs = true) by (cbn [forallb] in F; apply andb_true_iff in F; tauto).
  assert (Nt : CteRead.ch_ident t = false) by (destruct Ht; subst t; reflexivity).
  change (CteRead.next_tok idx (64 :: (c0 :: rs) ++ t :: rest)) with (CteRead.at_token idx ((c0 :: rs) ++ t :: rest)).
  unfold CteRead.at_token.
  rewrite (m_media_none ((c0 :: rs) ++ t :: rest)); [|discriminate|cbn [app tl]; apply media_stop_ident; assumption].
  cbn [app]. rewrite match_lit34_40 by assumption.
  change (c0 :: rs ++ t :: rest) with ((c0 :: rs) ++ t :: rest). rewrite (span_app CteRead.ch_ident (c0 :: rs) (t :: rest) F Nt).
  destruct Ht; subst t; reflexivity.
Qed.

(* ------------------------------------------------------------------ *)
(** * 6. From bytes to code points and back: a valid identifier is the UTF-8 of its code points *)

Ltac Zify.zify_post_hook ::= Z.div_mod_to_equations.

Lemma decode_encode s c n : decode_rune s = Some (c, n) -> CteLit.utf8_enc c = firstn n s.
Proof.
  unfold decode_rune, CteLit.utf8_enc. intro H.
  destruct s as [|b0 r]; [discriminate|].
  destruct (b0 <? 128) eqn:E1.
  { inversion H; subst. rewrite E1. reflexivity. }
  destruct (b0 <? 194) eqn:E2; [discriminate|].
  destruct (b0 <? 224) eqn:E3.
  { destruct r as [|b1 r]; [discriminate|]. unfold is_cont in H.
    destruct ((128 <=? b1) && (b1 <=? 191)) eqn:C1; [|discriminate].
    inversion H; subst; clear H. cbn [firstn].
    destruct ((b0 - 192) * 64 + (b1 - 128) <? 128) eqn:A1; [lia|].
    destruct ((b0 - 192) * 64 + (b1 - 128) <? 2048) eqn:A2; [|lia].
    f_equal; [lia|]. f_equal. lia. }
  destruct (b0 <? 240) eqn:E4.
  { destruct r as [|b1 [|b2 r]]; try discriminate. cbv zeta in H. unfold is_cont in H.
    match type of H with (if ?cnd then _ else _) = _ => destruct cnd eqn:C end; [|discriminate].
    inversion H; subst; clear H. cbn [firstn].
    set (c := (b0 - 224) * 4096 + (b1 - 128) * 64 + (b2 - 128)).
    assert (R : 2048 <= c < 65536 /\ ~ (55296 <= c <= 57343) /\ c / 4096 = b0 - 224 /\ (c / 64) mod 64 = b1 - 128 /\ c mod 64 = b2 - 128 /\ 224 <= b0 /\ 128 <= b1 /\ 128 <= b2).
    { subst c. destruct (b0 =? 224) eqn:Q1; destruct (b0 =? 237) eqn:Q2; lia. }
    destruct R as (R1 & R2 & R3 & R4 & R5 & R6 & R7 & R8).
    destruct (c <? 128) eqn:A1; [lia|]. destruct (c <? 2048) eqn:A2; [lia|].
    destruct (((55296 <=? c) && (c <=? 57343)) || (1114111 <? c)) eqn:A3; [lia|].
    destruct (c <? 65536) eqn:A4; [|lia]. rewrite R3, R4, R5. repeat f_equal; lia. }
  destruct (b0 <? 245) eqn:E5; [|discriminate].
  destruct r as [|b1 [|b2 [|b3 r]]]; try discriminate. cbv zeta in H. unfold is_cont in H.
  match type of H with (if ?cnd then _ else _) = _ => destruct cnd eqn:C end; [|discriminate].
  inversion H; subst; clear H. cbn [firstn].
  set (c := (b0 - 240) * 262144 + (b1 - 128) * 4096 + (b2 - 128) * 64 + (b3 - 128)).
  assert (R : 65536 <= c <= 1114111 /\ c / 262144 = b0 - 240 /\ (c / 4096) mod 64 = b1 - 128 /\ (c / 64) mod 64 = b2 - 128 /\ c mod 64 = b3 - 128 /\ 240 <= b0 /\ 128 <= b1 /\ 128 <= b2 /\ 128 <= b3).
  { subst c. destruct (b0 =? 240) eqn:Q1; destruct (b0 =? 244) eqn:Q2; lia. }
  destruct R as (R1 & R3 & R4 & R5 & R6 & R7 & R8 & R9 & R10).
  destruct (c <? 128) eqn:A1; [lia|]. destruct (c <? 2048) eqn:A2; [lia|].
  destruct (((55296 <=? c) && (c <=? 57343)) || (1114111 <? c)) eqn:A3; [lia|].
  destruct (c <? 65536) eqn:A4; [lia|]. rewrite R3, R4, R5, R6. repeat f_equal; lia.
Qed.

Ltac Zify.zify_post_hook ::= idtac.

Lemma no_fffd_roundtrip : forall f s, (length s <= f)%nat ->
  Forall (fun r => r <> 65533) (runes_fuel f s) -> CteLit.utf8_str (runes_fuel f s) = s.
Proof.
  induction f as [|f IH]; intros s L H.
  - destruct s; [reflexivity|cbn [length] in L; lia].
  - destruct s as [|b s']; [reflexivity|]. cbn [runes_fuel] in *.
    destruct (decode_rune (b :: s')) as [[r n]|] eqn:D.
    + inversion H as [|x l Hx Hl]; subst. unfold CteLit.utf8_str. cbn [flat_map].
      fold (CteLit.utf8_str (runes_fuel f (skipn n (b :: s')))).
      destruct (decode_rune_inv _ _ _ D) as (Hn & Hlen & _).
      rewrite IH; [|rewrite skipn_length; cbn [length] in *; lia|exact Hl].
      rewrite (decode_encode _ _ _ D). apply firstn_skipn.
    + inversion H; subst. congruence.
Qed.

Theorem ident_valid_spec id : ident_valid id = true ->
  runes id <> [] /\ forallb CteRead.ch_ident (runes id) = true /\ CteRead.u8 (runes id) = id /\ ident_lexable id = true.
Proof.
  unfold ident_valid, Rules.validate_identifier. intro H.
  apply andb_true_iff in H as [H H3]. apply andb_true_iff in H as [H1 _].
  assert (Hne : runes id <> []).
  { destruct id as [|b id']; [discriminate|]. unfold runes. cbn [length runes_fuel].
    destruct (decode_rune (b :: id')) as [[r n]|]; discriminate. }
  assert (F : forallb CteRead.ch_ident (runes id) = true).
  { apply forallb_forall. intros r Hr. rewrite forallb_forall in H3. apply ident_class_inclusion, H3, Hr. }
  repeat split; try assumption.
  - unfold CteRead.u8, runes. apply no_fffd_roundtrip; [lia|].
    apply Forall_forall. intros r Hr. rewrite forallb_forall in F. apply (ident_chars_not_special r (F r Hr)).
  - unfold ident_lexable. destruct (runes id); [congruence|exact F].
Qed.

(* The four spellings of an identifier the validator admits, as cte/encoder.go writes them
   (OnMarker "&id:", OnReferenceLocal "$id", OnRecordType "@id<", OnRecord "@id{"), are single
   tokens carrying the same identifier, whatever follows (for "$id": anything that is not itself an
   identifier character; for "@id{": anything that does not make the MEDIA_TYPE fragment run on to
   a slash - the encoder continues with a line feed or the closing brace). *)
Theorem ident_tokens_reread id idx rest : ident_valid id = true ->
  (CteRead.next_tok idx (38 :: runes id ++ 58 :: rest) = Some (CteRead.TMarker id, rest, idx)) /\
  (stops CteRead.ch_ident rest ->
   CteRead.next_tok idx (36 :: runes id ++ rest) = Some (CteRead.TVal (ERefLocal id), rest, idx)) /\
  (CteRead.next_tok idx (64 :: runes id ++ 60 :: rest) = Some (CteRead.TRecTypeB id, rest, idx)) /\
  (media_stop_ok (123 :: rest) ->
   CteRead.next_tok idx (64 :: runes id ++ 123 :: rest) = Some (CteRead.TRecB id, rest, idx)).
Proof.
  intro V. destruct (ident_valid_spec id V) as (Hne & F & U & _).
  repeat split.
  - rewrite marker_token by assumption. rewrite U. reflexivity.
  - intro St. rewrite ref_token by assumption. rewrite U. reflexivity.
  - rewrite (at_ident_token idx (runes id) 60 rest Hne F (or_introl eq_refl)); [rewrite U; reflexivity|].
    unfold media_stop_ok. cbn. discriminate.
  - intro St. rewrite (at_ident_token idx (runes id) 123 rest Hne F (or_intror eq_refl) St). rewrite U. reflexivity.
Qed.

Lemma media_stop_after_brace_lf rest : media_stop_ok (123 :: 10 :: rest).
Proof. unfold media_stop_ok. cbn. discriminate. Qed.
Lemma media_stop_after_braces_lf rest : media_stop_ok (123 :: 125 :: 10 :: rest).
Proof. unfold media_stop_ok. cbn. discriminate. Qed.
Lemma media_stop_after_braces_end : media_stop_ok [123; 125].
Proof. unfold media_stop_ok. cbn. exact I. Qed.

(* ------------------------------------------------------------------ *)
(** * 7. Time fields: for every value the CBE bit fields can hold, the text side accepts the CTE encoder's
      spelling exactly when cbe/decoder_reader.go validateTime ([cbe_time_ok]) lets the value through, and then
      reads the same time (finite domains, swept by vm_compute through the complete reader model) *)

Definition agrees (t : ctime) : bool := option_eqb bytes_eqb (time_reread (time_string t)) (time_expected t).

Definition clock_time (h m s : N) (z : tzone) : ctime :=
  {| t_type := TTime; t_year := 0; t_month := 0; t_day := 0; t_hour := h; t_minute := m; t_second := s; t_nano := 0; t_zone := z |}.
Definition date_time (y : Z) (mo d : N) : ctime :=
  {| t_type := TDate; t_year := y; t_month := mo; t_day := d; t_hour := 0; t_minute := 0; t_second := 0; t_nano := 0; t_zone := TzUTC |}.

Lemma option_bytes_eqb_eq (a b : option bytes) : option_eqb bytes_eqb a b = true -> a = b.
Proof.
  destruct a as [x|], b as [y|]; cbn; try discriminate; try reflexivity.
  intro H. apply bytes_eqb_eq in H. congruence.
Qed.

Definition plain_zone (z : tzone) : Prop := match z with TzArea _ => False | _ => True end.

Lemma zone_canon_string z : plain_zone z -> zone_string (zone_canon (zone_canon z)) = zone_string z.
Proof.
  destruct z as [|n|la lo|o]; cbn [plain_zone]; intro H; try contradiction; try reflexivity.
  cbn [zone_canon]. destruct (o =? 0)%Z eqn:E; [|cbn [zone_canon]; rewrite E; reflexivity].
  cbn [zone_canon zone_string]. rewrite E. reflexivity.
Qed.

Lemma time_canon_string t : plain_zone (t_zone t) -> time_string (time_canon t) = time_string t.
Proof.
  intro H. unfold time_string, clock_string, date_string, time_canon. cbn [t_type t_year t_month t_day t_hour t_minute t_second t_nano t_zone].
  rewrite (zone_canon_string _ H). reflexivity.
Qed.

Lemma agrees_spec t : agrees t = true -> plain_zone (t_zone t) ->
  time_reread (time_string t) = if cbe_time_ok t then Some (time_string t) else None.
Proof.
  intros A P. apply option_bytes_eqb_eq in A. rewrite A. unfold time_expected. rewrite (time_canon_string t P). reflexivity.
Qed.

(* hour: 5 bits, minute and second: 6 bits each *)
Lemma clock_sweep :
  forallb (fun h => forallb (fun m => forallb (fun s => agrees (clock_time h m s TzUTC)) (nseq 0 64)) (nseq 0 64)) (nseq 0 32) = true.
Proof. vm_compute. reflexivity. Qed.

Theorem clock_fields_exact h m s : h < 32 -> m < 64 -> s < 64 ->
  time_reread (time_string (clock_time h m s TzUTC)) =
    (if cbe_time_ok (clock_time h m s TzUTC) then Some (time_string (clock_time h m s TzUTC)) else None) /\
  cbe_time_ok (clock_time h m s TzUTC) = (h <=? 23) && (m <=? 59) && (s <=? 60).
Proof.
  intros Hh Hm Hs. split.
  - pose proof clock_sweep as W. rewrite forallb_forall in W.
    specialize (W h ltac:(apply nseq_In; lia)). rewrite forallb_forall in W.
    specialize (W m ltac:(apply nseq_In; lia)). rewrite forallb_forall in W.
    specialize (W s ltac:(apply nseq_In; lia)). apply (agrees_spec _ W I).
  - unfold cbe_time_ok, time_valid, clock_valid, time_lexable, zone_lexable, clock_time.
    cbn [t_type t_hour t_minute t_second t_nano t_zone zone_valid].
    change (0 <=? 999999999) with true. rewrite !andb_true_r. reflexivity.
Qed.

(* month: 4 bits, day: 5 bits *)
Lemma date_sweep : forallb (fun mo => forallb (fun d => agrees (date_time 2020 mo d)) (nseq 0 32)) (nseq 0 16) = true.
Proof. vm_compute. reflexivity. Qed.

Theorem date_fields_exact mo d : mo < 16 -> d < 32 ->
  time_reread (time_string (date_time 2020 mo d)) =
    (if cbe_time_ok (date_time 2020 mo d) then Some (time_string (date_time 2020 mo d)) else None) /\
  cbe_time_ok (date_time 2020 mo d) = (1 <=? mo) && (mo <=? 12) && (1 <=? d) && (d <=? CteRead.day_max mo).
Proof.
  intros Hm Hd. split.
  - pose proof date_sweep as W. rewrite forallb_forall in W.
    specialize (W mo ltac:(apply nseq_In; lia)). rewrite forallb_forall in W.
    specialize (W d ltac:(apply nseq_In; lia)). apply (agrees_spec _ W I).
  - unfold cbe_time_ok, time_valid, date_valid, time_lexable, date_time. cbn [t_type t_year t_month t_day].
    rewrite andb_true_r. reflexivity.
Qed.

(* year 0 is refused by both sides *)
Lemma year_zero_refused : cbe_time_ok (date_time 0 1 1) = false /\ time_reread (time_string (date_time 0 1 1)) = None.
Proof. vm_compute. split; reflexivity. Qed.

(* UTC offset: 12 bits, signed *)
Definition zseq (lo : Z) (n : N) : list Z := map (fun k => (lo + Z.of_N k)%Z) (nseq 0 (N.to_nat n)).
Lemma zseq_In lo n z : (lo <= z < lo + Z.of_N n)%Z -> In z (zseq lo n).
Proof.
  intro H. unfold zseq. apply in_map_iff. exists (Z.to_N (z - lo)). split; [lia|]. apply nseq_In. lia.
Qed.

Lemma offset_sweep : forallb (fun o => agrees (clock_time 1 2 3 (TzOffset o))) (zseq (-2048) 4096) = true.
Proof. vm_compute. reflexivity. Qed.

Theorem offset_field_exact o : (-2048 <= o < 2048)%Z ->
  time_reread (time_string (clock_time 1 2 3 (TzOffset o))) =
    (if cbe_time_ok (clock_time 1 2 3 (TzOffset o)) then Some (time_string (clock_time 1 2 3 (TzOffset o))) else None) /\
  cbe_time_ok (clock_time 1 2 3 (TzOffset o)) = ((-1439 <=? o) && (o <=? 1439))%Z.
Proof.
  intro Ho. split.
  - pose proof offset_sweep as W. rewrite forallb_forall in W.
    specialize (W o ltac:(apply zseq_In; lia)). apply (agrees_spec _ W I).
  - unfold cbe_time_ok, time_valid, clock_valid, time_lexable, zone_lexable, clock_time.
    cbn [t_type t_hour t_minute t_second t_nano t_zone zone_valid]. cbn [N.leb N.compare Pos.compare Pos.compare_cont andb].
    rewrite andb_true_r. reflexivity.
Qed.

(* latitude: 15 bits, longitude: 16 bits, signed; one coordinate at a time *)
Lemma latitude_sweep : forallb (fun la => agrees (clock_time 1 2 3 (TzLatLong la 0))) (zseq (-16384) 32768) = true.
Proof. vm_compute. reflexivity. Qed.
Lemma longitude_sweep : forallb (fun lo => agrees (clock_time 1 2 3 (TzLatLong 0 lo))) (zseq (-32768) 65536) = true.
Proof. vm_compute. reflexivity. Qed.

Theorem latitude_field_exact la : (-16384 <= la < 16384)%Z ->
  time_reread (time_string (clock_time 1 2 3 (TzLatLong la 0))) =
    (if cbe_time_ok (clock_time 1 2 3 (TzLatLong la 0)) then Some (time_string (clock_time 1 2 3 (TzLatLong la 0))) else None) /\
  cbe_time_ok (clock_time 1 2 3 (TzLatLong la 0)) = ((-9000 <=? la) && (la <=? 9000))%Z.
Proof.
  intro H. split.
  - pose proof latitude_sweep as W. rewrite forallb_forall in W.
    specialize (W la ltac:(apply zseq_In; lia)). apply (agrees_spec _ W I).
  - unfold cbe_time_ok, time_valid, clock_valid, time_lexable, zone_lexable, clock_time.
    cbn [t_type t_hour t_minute t_second t_nano t_zone zone_valid].
    change ((-18000 <=? 0)%Z) with true. change ((0 <=? 18000)%Z) with true. rewrite !andb_true_r. reflexivity.
Qed.

Theorem longitude_field_exact lo : (-32768 <= lo < 32768)%Z ->
  time_reread (time_string (clock_time 1 2 3 (TzLatLong 0 lo))) =
    (if cbe_time_ok (clock_time 1 2 3 (TzLatLong 0 lo)) then Some (time_string (clock_time 1 2 3 (TzLatLong 0 lo))) else None) /\
  cbe_time_ok (clock_time 1 2 3 (TzLatLong 0 lo)) = ((-18000 <=? lo) && (lo <=? 18000))%Z.
Proof.
  intro H. split.
  - pose proof longitude_sweep as W. rewrite forallb_forall in W.
    specialize (W lo ltac:(apply zseq_In; lia)). apply (agrees_spec _ W I).
  - unfold cbe_time_ok, time_valid, clock_valid, time_lexable, zone_lexable, clock_time.
    cbn [t_type t_hour t_minute t_second t_nano t_zone zone_valid].
    change ((-9000 <=? 0)%Z) with true. change ((0 <=? 9000)%Z) with true. rewrite !andb_true_r. cbn [andb]. reflexivity.
Qed.

(* ------------------------------------------------------------------ *)
(** * 7b. What the validator admits as a media type is what the lexer can match *)

Lemma byte_sweep (f g : N -> bool) :
  forallb (fun b => Bool.eqb (f b) (g b)) (nseq 0 128) = true ->
  (forall b, 128 <= b -> f b = false) -> (forall b, 128 <= b -> g b = false) ->
  forall b, f b = g b.
Proof.
  intros W Hf Hg b. destruct (N.ltb_spec b 128) as [L|L].
  - rewrite forallb_forall in W. specialize (W b ltac:(apply nseq_In; lia)). apply Bool.eqb_prop in W. exact W.
  - rewrite Hf, Hg by lia. reflexivity.
Qed.

Lemma media_first_high b : 128 <= b -> Rules.media_first_char b = false.
Proof. intro H. unfold Rules.media_first_char. lia. Qed.

Lemma media_next_high b : 128 <= b -> Rules.media_next_char b = false.
Proof.
  intro H. unfold Rules.media_next_char. rewrite (media_first_high b H). cbn [orb existsb].
  repeat match goal with |- context [b =? ?k] => replace (b =? k) with false by lia end.
  replace ((48 <=? b) && (b <=? 57)) with false by lia. reflexivity.
Qed.

Lemma is_alpha_high b : 128 <= b -> CteRead.is_alpha b = false.
Proof. intro H. unfold CteRead.is_alpha, CteRead.lower. destruct ((65 <=? b) && (b <=? 90)) eqn:E; lia. Qed.

Lemma ch_media_next_high b : 128 <= b -> CteRead.ch_media_next b = false.
Proof.
  intro H. unfold CteRead.ch_media_next. rewrite (is_alpha_high b H). unfold CteRead.is_dec.
  repeat match goal with |- context [b =? ?k] => replace (b =? k) with false by lia end.
  replace ((48 <=? b) && (b <=? 57)) with false by lia. replace ((35 <=? b) && (b <=? 39)) with false by lia. reflexivity.
Qed.

Lemma media_first_eq b : Rules.media_first_char b = CteRead.is_alpha b.
Proof. apply byte_sweep; [vm_compute; reflexivity | apply media_first_high | apply is_alpha_high]. Qed.

Lemma media_next_eq b : Rules.media_next_char b = CteRead.ch_media_next b.
Proof. apply byte_sweep; [vm_compute; reflexivity | apply media_next_high | apply ch_media_next_high]. Qed.

Lemma media_split_spec l : forall pre post, Rules.media_split l = (pre, post) ->
  match post with
  | Some q => l = pre ++ 47 :: q
  | None => l = pre
  end /\ Forall (fun b => b <> 47) pre.
Proof.
  induction l as [|b l IH]; intros pre post H; cbn [Rules.media_split] in H.
  - inversion H; subst. split; [reflexivity|constructor].
  - destruct (N.eqb_spec b 47) as [E|E].
    + inversion H; subst. split; [reflexivity|constructor].
    + destruct (Rules.media_split l) as [pre' post'] eqn:S. inversion H; subst.
      destruct (IH pre' post eq_refl) as [A B]. split.
      * destruct post; cbn [app]; congruence.
      * constructor; assumption.
Qed.

Lemma forallb_ext_eq {A} (f g : A -> bool) l : (forall x, f x = g x) -> forallb f l = forallb g l.
Proof. intro H. induction l as [|x l IH]; cbn [forallb]; [reflexivity|]. rewrite H, IH. reflexivity. Qed.

(* rules.ValidateMediaType admits exactly the strings of the lexer's MEDIA_TYPE shape (bytes = code points: ASCII) *)
Theorem media_type_valid_iff_lexable mt : Rules.media_type_valid mt = media_lexable_runes mt.
Proof.
  unfold Rules.media_type_valid, media_lexable_runes. destruct mt as [|b rest]; [reflexivity|].
  rewrite media_first_eq. destruct (CteRead.is_alpha b); [|reflexivity]. cbn [andb].
  destruct (Rules.media_split rest) as [pre post] eqn:S. destruct (media_split_spec rest pre post S) as [E N47].
  destruct (forallb CteRead.ch_media_next pre) eqn:Fp.
  - (* the span stops exactly at the slash, or at the end *)
    destruct post as [q|].
    + subst rest. rewrite (span_app CteRead.ch_media_next pre (47 :: q) Fp eq_refl). change (47 =? 47) with true. cbn [andb].
      rewrite (forallb_ext_eq _ _ pre media_next_eq), Fp. cbn [andb].
      destruct q as [|p q].
      * cbn. reflexivity.
      * rewrite (forallb_ext_eq _ _ (p :: q) media_next_eq).
        destruct (CteRead.span CteRead.ch_media_next (p :: q)) as [run2 r3] eqn:S2.
        destruct (span_spec _ _ _ _ S2) as (E2 & F2 & St2).
        destruct (forallb CteRead.ch_media_next (p :: q)) eqn:Fq.
        -- pose proof (span_app CteRead.ch_media_next (p :: q) [] Fq I) as Q. rewrite app_nil_r in Q.
           rewrite Q in S2. inversion S2; subst. reflexivity.
        -- (* some character after the slash is outside the class: the span stops early *)
           destruct r3 as [|x r3].
           ++ rewrite app_nil_r in E2. subst run2. congruence.
           ++ destruct run2; cbn; rewrite ?andb_false_r; reflexivity.
    + subst rest.
      assert (Sp : CteRead.span CteRead.ch_media_next pre = (pre, [])).
      { pose proof (span_app CteRead.ch_media_next pre [] Fp I) as Q. rewrite app_nil_r in Q. exact Q. }
      rewrite Sp. reflexivity.
  - (* a character before the slash is outside the class *)
    assert (L : Rules.media_type_valid (b :: rest) = false \/ True) by (right; exact I). clear L.
    rewrite (forallb_ext_eq _ _ pre media_next_eq), Fp.
    assert (R : match post with Some (_ :: _) => false && forallb Rules.media_next_char (match post with Some q => q | None => [] end) | _ => false end = false)
      by (destruct post as [[|? ?]|]; reflexivity).
    transitivity false.
    { destruct post as [[|p q]|]; reflexivity. }
    symmetry.
    destruct (CteRead.span CteRead.ch_media_next rest) as [run1 r1] eqn:S1.
    destruct (span_spec _ _ _ _ S1) as (E1 & F1 & St1).
    destruct r1 as [|x r2]; [reflexivity|]. destruct (N.eqb_spec x 47) as [X|X]; [subst x|reflexivity]. cbn [andb].
    (* the span stopped at a slash: everything before it is in the class, and it is the first slash *)
    exfalso.
    assert (Hpre : pre = run1).
    { destruct post as [q|].
      - rewrite E in E1. clear - E1 N47 F1.
        revert run1 E1 F1. induction pre as [|c pre IHp]; intros run1 E1 F1.
        + destruct run1 as [|d run1]; [reflexivity|]. cbn [app] in E1. inversion E1; subst.
          cbn [forallb] in F1. apply andb_true_iff in F1 as [F _]. vm_compute in F. discriminate.
        + inversion N47; subst. destruct run1 as [|d run1].
          * cbn [app] in E1. inversion E1; subst. congruence.
          * cbn [app] in E1. inversion E1; subst. cbn [forallb] in F1. apply andb_true_iff in F1 as [_ F1].
            f_equal. apply IHp; assumption.
      - subst rest. clear - E1 N47. exfalso.
        assert (In 47 pre) by (rewrite E1; apply in_or_app; right; left; reflexivity).
        rewrite Forall_forall in N47. apply (N47 47 H). reflexivity. }
    subst run1. congruence.
Qed.

Lemma media_type_valid_ascii mt : Rules.media_type_valid mt = true -> Forall (fun b => b < 128) mt.
Proof.
  unfold Rules.media_type_valid. destruct mt as [|b rest]; [discriminate|]. intro H.
  apply andb_true_iff in H as [Hb H]. destruct (Rules.media_split rest) as [pre post] eqn:S.
  destruct post as [[|p q]|]; try discriminate. apply andb_true_iff in H as [Hp Hq].
  destruct (media_split_spec rest pre _ S) as [E _]. subst rest.
  assert (A : forall l, forallb Rules.media_next_char l = true -> Forall (fun b => b < 128) l).
  { intros l F. apply Forall_forall. intros x Hx. rewrite forallb_forall in F. specialize (F x Hx).
    destruct (N.ltb_spec x 128); [assumption|]. rewrite media_next_high in F by assumption. discriminate. }
  constructor.
  - destruct (N.ltb_spec b 128); [assumption|]. rewrite media_first_high in Hb by assumption. discriminate.
  - apply Forall_app. split; [apply A, Hp|]. constructor; [lia|apply A, Hq].
Qed.

Lemma runes_ascii l : Forall (fun b => b < 128) l -> runes l = l.
Proof.
  unfold runes. generalize (le_n (length l)). generalize (length l) at 2 3 as f.
  intros f. revert l. induction f as [|f IH]; intros l L H.
  - destruct l; [reflexivity|cbn [length] in L; lia].
  - destruct l as [|b l]; [reflexivity|]. inversion H; subst. cbn [runes_fuel decode_rune].
    replace (b <? 128) with true by lia. cbn [skipn]. rewrite IH; [reflexivity|cbn [length] in L; lia|assumption].
Qed.

Lemma u8_ascii l : Forall (fun b => b < 128) l -> CteRead.u8 l = l.
Proof.
  intro H. unfold CteRead.u8, CteLit.utf8_str. induction H as [|b l Hb H IH]; [reflexivity|].
  cbn [flat_map]. rewrite IH. unfold CteLit.utf8_enc. replace (b <? 128) with true by lia. reflexivity.
Qed.

(* a media type the validator admits is lexable *)
Theorem media_valid_lexable mt : media_valid mt = true -> media_lexable mt = true.
Proof.
  unfold media_valid, media_lexable. intro H. apply andb_true_iff in H as [_ H].
  rewrite (runes_ascii mt (media_type_valid_ascii mt H)). rewrite <- media_type_valid_iff_lexable. exact H.
Qed.

(* ... and the encoder's spelling "@mt[" / "@mt" + quote is read as media of that type — never as a typed-array
   header or a custom type: the token is the MEDIA branch of the lexer with the whole media type *)
Theorem media_valid_reread mt idx r : media_valid mt = true ->
  CteRead.at_token idx (runes mt ++ 91 :: r) =
    match CteRead.bytes_body r with
    | Some (data, rest) => Some (CteRead.TVal (EMedia mt data), rest, idx)
    | None => None
    end /\
  CteRead.at_token idx (runes mt ++ 34 :: r) =
    match CteRead.lex_string idx r with
    | Some (data, rest, idx') => Some (CteRead.TVal (EMedia mt data), rest, idx')
    | None => None
    end.
Proof.
  intro V. pose proof (media_valid_lexable mt V) as L. unfold media_lexable in L.
  unfold media_valid in V. apply andb_true_iff in V as [_ V].
  pose proof (media_type_valid_ascii mt V) as A. rewrite (runes_ascii mt A) in *.
  unfold CteRead.at_token. split.
  - rewrite (proj2 (m_media_iff mt 91 r (or_introl eq_refl)) L). change (91 =? 91) with true. cbv iota.
    rewrite (u8_ascii mt A). reflexivity.
  - rewrite (proj2 (m_media_iff mt 34 r (or_intror eq_refl)) L). change (34 =? 91) with false. cbv iota.
    rewrite (u8_ascii mt A). reflexivity.
Qed.

(* custom type codes the validator admits fit the CBE decoder's limit (and the encoder's uint64) *)
Theorem custom_type_ok_fits ct : Rules.custom_type_ok ct = true ->
  ct <= Cbe.custom_type_max /\ Cbe.is_u64 ct = true.
Proof.
  unfold Rules.custom_type_ok, Cbe.custom_type_max, Cbe.is_u64. intro H. split; [lia|].
  apply N.ltb_lt. apply N.leb_le in H. apply N.le_lt_trans with (1 := H). reflexivity.
Qed.

(* ------------------------------------------------------------------ *)
(** * 7c. Area/location zones through the complete reader, for every name *)

Section AreaNames.
Import CteRead.

Definition clock_txt : bytes := [48; 49; 58; 48; 50; 58; 48; 51].

Lemma upper_facts c : is_upper c = true -> is_dec c = false /\ c <> 45 /\ c < 128.
Proof. unfold is_upper, is_dec. intro H. repeat split; lia. Qed.

Lemma m_opt_tz_area name : area_lexable_runes name = true -> m_opt_tz (47 :: name) = [].
Proof.
  intro L. unfold m_opt_tz.
  pose proof (proj2 (m_tz_area_iff name [] I) L) as H. rewrite app_nil_r in H. rewrite H. reflexivity.
Qed.

Lemma tz_text_area c r : is_upper c = true -> tz_text (47 :: c :: r) = tz_area_text (c :: r).
Proof.
  intro U. destruct (upper_facts c U) as (D & N45 & _). unfold tz_text. rewrite D.
  replace (c =? 45) with false by lia. reflexivity.
Qed.

Lemma word_token_area name : area_lexable_runes name = true ->
  word_token (clock_txt ++ 47 :: name) =
  match tz_area_text name with
  | Some tz => Some (TVal (ETime (clock_txt ++ tz)), [])
  | None => None
  end.
Proof.
  intro L. destruct name as [|c r]; [discriminate|].
  pose proof L as L0. unfold area_lexable_runes in L0. apply andb_true_iff in L0 as [U F].
  unfold word_token, clock_txt. cbn [app].
  unfold word_candidates. cbn -[span ch_area_next is_upper m_opt_tz].
  rewrite (m_opt_tz_area (c :: r) L).
  cbn -[time_text]. rewrite firstn_all.
  unfold time_text. cbn -[tz_text tz_area_text].
  rewrite (tz_text_area c r U). destruct (tz_area_text (c :: r)); reflexivity.
Qed.

Lemma area_next_high b : 128 <= b -> ch_area_next b = false.
Proof.
  intro H. unfold ch_area_next, is_alpha, lower, is_dec.
  replace ((65 <=? b) && (b <=? 90)) with false by lia.
  repeat match goal with |- context [b =? ?k] => replace (b =? k) with false by lia end.
  replace ((97 <=? b) && (b <=? 122)) with false by lia. replace ((48 <=? b) && (b <=? 57)) with false by lia. reflexivity.
Qed.

Lemma area_lexable_ascii name : area_lexable_runes name = true -> Forall (fun b => b < 128) name.
Proof.
  destruct name as [|c r]; [discriminate|]. unfold area_lexable_runes. intro H. apply andb_true_iff in H as [U F].
  constructor; [apply (upper_facts c U)|].
  apply Forall_forall. intros x Hx. rewrite forallb_forall in F. specialize (F x Hx).
  destruct (N.ltb_spec x 128); [assumption|]. rewrite area_next_high in F by assumption. discriminate.
Qed.

(* The complete reader on the one-value document "c0 LF 01:02:03/<name>", for EVERY lexable name: the time is
   read with the zone the text side derives from the name ([tz_area_text]: the UTC and Local aliases, the
   expansion of a one-letter area, the 127-byte limit), or the document is refused when that fails. *)
Theorem area_time_reread name : area_lexable_runes name = true ->
  time_reread (clock_txt ++ 47 :: name) = option_map (fun tz => clock_txt ++ tz) (tz_area_text name).
Proof.
  intro L. unfold time_reread, read_value, cte_read.
  assert (A : Forall (fun b => b < 128) (99 :: 48 :: 10 :: clock_txt ++ 47 :: name)).
  { repeat (constructor; [lia|]). unfold clock_txt. cbn [app]. repeat (constructor; [lia|]). apply (area_lexable_ascii name L). }
  rewrite (runes_ascii _ A). unfold read_runes. cbn [lower N.eqb Pos.eqb andb orb].
  change ((lower 99 =? 99) && ((48 =? 48) || (48 =? 49))) with true. cbv iota.
  (* the lexer: white space, then the time token *)
  cbn [length lex]. unfold next_tok at 1. cbn [is_ws N.eqb Pos.eqb orb span snd].
  change (is_ws 10) with true. cbv iota.
  assert (W : span is_ws (clock_txt ++ 47 :: name) = ([], clock_txt ++ 47 :: name)) by reflexivity.
  rewrite W. cbn [snd].
  destruct (length (clock_txt ++ 47 :: name)) as [|f] eqn:Len; [discriminate|].
  cbn [lex]. unfold clock_txt at 1. cbn [app]. unfold next_tok.
  cbn [is_ws N.eqb Pos.eqb orb andb].
  change (48 :: 49 :: 58 :: 48 :: 50 :: 58 :: 48 :: 51 :: 47 :: name) with (clock_txt ++ 47 :: name).
  rewrite (word_token_area name L).
  destruct (tz_area_text name) as [tz|]; [|reflexivity].
  cbn [option_map]. destruct f; reflexivity.
Qed.

End AreaNames.

(* splitAreaLocation with the literal slash spelled as a test *)
Lemma expand_short_eq name :
  expand_short name =
  match name with
  | a :: x :: loc => if x =? 47 then match CteRead.assoc a CteRead.short_areas with Some area => area ++ 47 :: loc | None => name end else name
  | _ => name
  end.
Proof.
  unfold expand_short. destruct name as [|a [|x loc]]; try reflexivity.
  destruct x as [|p]; [reflexivity|]. do 6 (destruct p as [p|p|]; try reflexivity).
Qed.

Lemma short_areas_shape :
  forallb (fun p : N * bytes => match snd p with _ :: x :: _ => negb (x =? 47) | _ => false end) CteRead.short_areas = true.
Proof. vm_compute. reflexivity. Qed.

Lemma assoc_In k l v : CteRead.assoc k l = Some v -> In (k, v) l \/ exists k', In (k', v) l.
Proof.
  induction l as [|[a w] l IH]; cbn [CteRead.assoc]; [discriminate|].
  destruct (a =? k); intro H.
  - inversion H; subst. right. exists a. left. reflexivity.
  - destruct (IH H) as [I|[k' I]]; [left; right; exact I|right; exists k'; right; exact I].
Qed.

Lemma expand_short_idem name : expand_short (expand_short name) = expand_short name.
Proof.
  rewrite (expand_short_eq name). destruct name as [|a [|x loc]]; try reflexivity.
  destruct (N.eqb_spec x 47) as [X|X].
  - destruct (CteRead.assoc a CteRead.short_areas) as [area|] eqn:A.
    + assert (Sh : exists a' x' rest, area = a' :: x' :: rest /\ x' <> 47).
      { pose proof short_areas_shape as W. rewrite forallb_forall in W.
        destruct (assoc_In _ _ _ A) as [I|[k' I]]; specialize (W _ I); cbn [snd] in W;
          destruct area as [|a' [|x' rest]]; try discriminate; exists a', x', rest; split; try reflexivity;
          intro E; subst x'; discriminate. }
      destruct Sh as (a' & x' & rest & E & N47). subst area. cbn [app]. rewrite expand_short_eq.
      replace (x' =? 47) with false by lia. reflexivity.
    + rewrite expand_short_eq. replace (x =? 47) with true by lia. rewrite A. reflexivity.
  - rewrite expand_short_eq. replace (x =? 47) with false by lia. reflexivity.
Qed.

(* the reader's naming of a zone, written with [expand_short] *)
Lemma tz_area_text_eq name :
  CteRead.tz_area_text name =
  if CteRead.mem_bytes name CteRead.area_utc || CteRead.mem_bytes name CteRead.area_utc_preserve then Some []
  else if CteRead.mem_bytes name CteRead.area_local then Some (47 :: str "Local"%string)
  else if (length (expand_short name) =? 0)%nat || (127 <? length (expand_short name))%nat then None
       else Some (47 :: expand_short name).
Proof. reflexivity. Qed.

Lemma lexable_runes_bytes name : area_lexable name = true -> runes name = name.
Proof.
  unfold area_lexable. intro L. pose proof (area_lexable_ascii _ L) as A.
  assert (R : CteLit.utf8_str (runes name) = name).
  { unfold runes. apply no_fffd_roundtrip; [lia|]. apply Forall_forall. intros r Hr.
    rewrite Forall_forall in A. specialize (A r Hr). lia. }
  rewrite <- R at 2. symmetry. apply (u8_ascii _ A).
Qed.

Lemma clock_string_area raw :
  time_string (clock_time 1 2 3 (TzArea raw)) = clock_txt ++ zone_string (TzArea raw).
Proof. reflexivity. Qed.

(* For EVERY string in the area/location field: when validateTime lets the time through, the text side reads
   the CTE encoder's spelling back as the same time (the same zone: an alias of UTC or Local is named canonically). *)
Theorem area_zone_reread raw :
  cbe_time_ok (clock_time 1 2 3 (TzArea raw)) = true ->
  time_reread (time_string (clock_time 1 2 3 (TzArea raw))) = Some (time_string (time_canon (clock_time 1 2 3 (TzArea raw)))).
Proof.
  intro OK. unfold cbe_time_ok, time_valid, clock_valid, time_lexable, zone_lexable, zone_valid, clock_time in OK.
  cbn [t_type t_hour t_minute t_second t_nano t_zone] in OK.
  unfold time_canon. cbn [clock_time t_type t_year t_month t_day t_hour t_minute t_second t_nano t_zone].
  fold (clock_time 1 2 3 (zone_canon (zone_canon (TzArea raw)))).
  rewrite clock_string_area.
  assert (Ec : forall z, time_string (clock_time 1 2 3 z) = clock_txt ++ zone_string z) by reflexivity.
  rewrite Ec. cbn [zone_canon zone_string].
  destruct (init_area raw) as [| |long] eqn:IA.
  - (* an alias of UTC *) vm_compute. reflexivity.
  - (* Local *) vm_compute. reflexivity.
  - apply andb_true_iff in OK as [V L]. cbn [andb] in V.
    assert (V' : (1 <=? length long)%nat && (length long <=? 127)%nat = true).
    { revert V. cbn. intro V. exact V. }
    apply andb_true_iff in V' as [L1 L127].
    pose proof (lexable_runes_bytes long L) as RB. unfold area_lexable in L. rewrite RB in L.
    rewrite (area_time_reread long L).
    (* [long] is a fixed point of the expansion *)
    assert (Ex : expand_short long = long).
    { unfold init_area in IA.
      destruct (CteRead.mem_bytes raw CteRead.area_utc || CteRead.mem_bytes raw CteRead.area_utc_preserve || match raw with [] => true | _ => false end); [discriminate|].
      destruct (CteRead.mem_bytes raw CteRead.area_local); [discriminate|]. inversion IA; subst. apply expand_short_idem. }
    rewrite tz_area_text_eq, Ex. cbn [zone_canon]. unfold init_area at 1.
    destruct (CteRead.mem_bytes long CteRead.area_utc || CteRead.mem_bytes long CteRead.area_utc_preserve) eqn:M1.
    + cbn [orb option_map zone_string]. reflexivity.
    + assert (Lne : match long with [] => true | _ => false end = false) by (destruct long; [discriminate|reflexivity]).
      rewrite Lne. cbn [orb].
      destruct (CteRead.mem_bytes long CteRead.area_local) eqn:M2.
      * cbn [option_map]. vm_compute. reflexivity.
      * rewrite Ex. replace ((length long =? 0)%nat || (127 <? length long)%nat) with false by lia.
        cbn [option_map zone_string]. unfold init_area. rewrite M1, Lne, M2, Ex. reflexivity.
Qed.

(* ------------------------------------------------------------------ *)
(** * 8. The data half: C03 = C01 after C02

   [read] is the CTE decoder as a function from documents to events, [P] the set of (validated) streams
   on which property C02 is assumed: the decoder reads the encoder's text, the validator accepts what it
   reads, and the data is the input's without its padding.  Then a CBE document whose validated stream
   lies in [P] converts to a text with exactly that outcome, and — by the CBE round-trip theorem
   (Proofs/CbeRoundtrip.v, on its fragment [c01_doc_norm]) — converting the re-read stream back to CBE
   gives a document that decodes to the same data again. *)

Definition c02_on (read : bytes -> option (list event)) (P : list event -> Prop) : Prop :=
  forall es t, P es -> to_cte es = Some t ->
    exists es1 es2, read t = Some es1 /\ rules_forward es1 = Some es2 /\
                    Denote.den es2 = Denote.no_padding (Denote.den es).

Lemma cbe_side_spec doc es : cbe_side doc = Some es ->
  exists es0, Cbe.cbe_decode Cbe.default_dcfg doc = (es0, Cbe.DOk) /\
              Rules.accepts_document Rules.default_rcfg es0 = true /\
              es = Rules.forwarded Rules.default_rcfg es0.
Proof.
  unfold cbe_side, rules_forward. destruct (Cbe.cbe_decode Cbe.default_dcfg doc) as [es0 r]. destruct r; [|discriminate].
  destruct (Rules.accepts_document Rules.default_rcfg es0) eqn:A; [|discriminate].
  intro H. inversion H; subst. exists es0. repeat split. exact A.
Qed.

Theorem c03_data_half read P : c02_on read P ->
  forall doc es t, cbe_side doc = Some es -> P es -> to_cte es = Some t ->
  exists es1 es2,
    read t = Some es1 /\ rules_forward es1 = Some es2 /\
    Denote.den es2 = Denote.no_padding (Denote.den es) /\
    forall es3 d2,
      CbeRoundtrip.c01_doc_norm es2 = Some es3 -> to_cbe es2 = Some d2 ->
      Cbe.len d2 <= Cbe.max_doc_size Cbe.default_dcfg ->
      Cbe.cbe_decode Cbe.default_dcfg d2 = (es3, Cbe.DOk) /\
      Denote.den es3 = Denote.no_comments (Denote.no_padding (Denote.den es)).
Proof.
  intros C02 doc es t _ HP Ht. destruct (C02 es t HP Ht) as (es1 & es2 & R & F & D).
  exists es1, es2. split; [exact R|]. split; [exact F|]. split; [exact D|].
  intros es3 d2 Hn He Hl.
  destruct (CbeRoundtrip.c01_den_roundtrip_checked Cbe.default_dcfg es2 es3 d2 Hn He Hl) as [D1 D2].
  split; [exact D1|]. rewrite D2, D. reflexivity.
Qed.

(* the hypotheses are satisfiable: the reader model on a document with nested containers, a marker and
   a reference, a string, a media value with a lexable type, a float and a chunked array *)
Definition c03_example_doc : bytes :=
  [129; 0; 154;  127; 240; 1; 109;  153; 129; 97; 1; 155;   119; 1; 109;   127; 243; 3; 97; 47; 98; 4; 1; 2;
   113; 0; 0; 192; 63;   147; 5; 1; 2; 2; 3;   155].

Definition oget {A} (o : option (list A)) : list A := match o with Some x => x | None => [] end.
Definition c03_example_events : list event := oget (cbe_side c03_example_doc).

Lemma c03_example_accepted : cbe_side c03_example_doc = Some c03_example_events /\ (10 < length c03_example_events)%nat.
Proof. vm_compute. split; [reflexivity|lia]. Qed.

Lemma c03_example_c02 : c02_on CteRead.cte_read (fun es => es = c03_example_events).
Proof.
  intros es t -> Ht.
  exists (oget (CteRead.cte_read (oget (to_cte c03_example_events)))).
  exists (oget (rules_forward (oget (CteRead.cte_read (oget (to_cte c03_example_events)))))).
  assert (E : t = oget (to_cte c03_example_events)) by (rewrite Ht; reflexivity). subst t.
  vm_compute. repeat split.
Qed.

Lemma c03_example_back :
  let es2 := oget (rules_forward (oget (CteRead.cte_read (oget (to_cte c03_example_events))))) in
  exists es3 d2, CbeRoundtrip.c01_doc_norm es2 = Some es3 /\ to_cbe es2 = Some d2 /\
                 Cbe.len d2 <= Cbe.max_doc_size Cbe.default_dcfg.
Proof.
  exists (oget (CbeRoundtrip.c01_doc_norm (oget (rules_forward (oget (CteRead.cte_read (oget (to_cte c03_example_events)))))))).
  exists (oget (to_cbe (oget (rules_forward (oget (CteRead.cte_read (oget (to_cte c03_example_events)))))))).
  vm_compute. repeat split; discriminate.
Qed.

(* ------------------------------------------------------------------ *)
(** * 9. The property as stated, and where the current code still violates it *)

(* first half: every document the binary side accepts converts to a text the text side accepts, with
   the same data up to padding, and converting that back reproduces the data *)
Definition C03_cbe_half : Prop :=
  forall doc es, cbe_side doc = Some es ->
    exists t es2 d2 es3,
      to_cte es = Some t /\ cte_side t = Some es2 /\ Denote.den es2 = Denote.no_padding (Denote.den es) /\
      to_cbe es2 = Some d2 /\ cbe_side d2 = Some es3 /\ Denote.den es3 = Denote.no_comments (Denote.den es2).
(* second half: every accepted CTE document without custom text converts to an accepted CBE document
   with the same data apart from comments *)
Definition C03_cte_half : Prop :=
  forall text es, cte_side text = Some es -> has_custom_text es = false ->
    exists d es2, to_cbe es = Some d /\ cbe_side d = Some es2 /\ Denote.den es2 = Denote.no_comments (Denote.den es).
Definition C03_full : Prop := C03_cbe_half /\ C03_cte_half.

Definition media_doc (mt : bytes) : bytes := [129; 0; 127; 243] ++ [Cbe.len mt] ++ mt ++ [4; 1; 2].

(* the same document pushed through the model pipeline: (accepted, text, re-read accepted, same data) *)
Definition cbe_outcome (doc : bytes) : bool * option bytes * bool * bool :=
  match cbe_side doc with
  | Some es => let r := cbe_report_of es in (true, r_text r, match r_reread r with Some _ => true | None => false end, r_same r)
  | None => (false, None, false, false)
  end.

(* the media types that used to break the conversion (read back as an int8 array, as custom type 7, or
   not at all) are refused by the binary side now; a well-formed one converts *)
Lemma media_outcomes :
  cbe_outcome (media_doc (str "i8"%string)) = (false, None, false, false) /\
  cbe_outcome (media_doc (str "7"%string)) = (false, None, false, false) /\
  cbe_outcome (media_doc (str "a"%string)) = (false, None, false, false) /\
  cbe_outcome (media_doc []) = (false, None, false, false) /\
  cbe_outcome (media_doc (str "text/plain; charset=utf-8"%string)) = (false, None, false, false) /\
  cbe_outcome (media_doc (str "a/b"%string)) = (true, Some (str "c0"%string ++ [10] ++ str "@a/b[01 02]"%string), true, true).
Proof. vm_compute. repeat split. Qed.

(* a custom type number above 2^32-1 is refused by the text side's validator now *)
Definition custom_big_text : bytes := str "c0 @4294967296[01]"%string.
Lemma custom_outcomes :
  cte_side custom_big_text = None /\
  cte_converts custom_big_text = true /\ cte_converts (str "c0 @4294967295[01]"%string) = true /\
  cte_side (str "c0 @4294967295[01]"%string) = Some [EBeginDoc; EVersion 0; ECustomBin 4294967295 [1]; EEndDoc].
Proof. vm_compute. repeat split. Qed.

(* Still open (inherited from the CTE round trip, property C02): a float array element that is a NaN with a
   payload is written "nan" and read back as the canonical NaN.  8 bytes: signature, version, a short
   float32 array of one element 7fc00001. *)
Definition nan_payload_doc : bytes := [129; 0; 127; 145; 1; 0; 192; 127].

Lemma nan_payload_outcome :
  cbe_outcome nan_payload_doc = (true, Some (str "c0"%string ++ [10] ++ str "@f32x[nan]"%string), true, false) /\
  option_map r_reread (option_map cbe_report_of (cbe_side nan_payload_doc)) =
    Some (Some [EBeginDoc; EVersion 0; EArray RulesConsts.AT_Float32 1 [0; 0; 224; 127]; EEndDoc]).
Proof. vm_compute. split; reflexivity. Qed.

Theorem C03_cbe_half_refuted_silently :
  exists doc es t es2, cbe_side doc = Some es /\ to_cte es = Some t /\ cte_side t = Some es2 /\
                       Denote.den es2 <> Denote.no_padding (Denote.den es).
Proof.
  exists nan_payload_doc, (oget (cbe_side nan_payload_doc)), (oget (to_cte (oget (cbe_side nan_payload_doc)))),
         (oget (cte_side (oget (to_cte (oget (cbe_side nan_payload_doc)))))).
  vm_compute. repeat split. discriminate.
Qed.

Theorem C03_cbe_half_refuted : ~ C03_cbe_half.
Proof.
  intro H.
  assert (E0 : cbe_side nan_payload_doc = Some (oget (cbe_side nan_payload_doc))) by (vm_compute; reflexivity).
  destruct (H nan_payload_doc _ E0) as (t & es2 & d2 & es3 & Ht & Hs & Hd & _).
  assert (E1 : to_cte (oget (cbe_side nan_payload_doc)) = Some (oget (to_cte (oget (cbe_side nan_payload_doc))))) by (vm_compute; reflexivity).
  rewrite E1 in Ht. assert (Et : t = oget (to_cte (oget (cbe_side nan_payload_doc)))) by congruence. subst t.
  assert (E2 : cte_side (oget (to_cte (oget (cbe_side nan_payload_doc)))) =
               Some (oget (cte_side (oget (to_cte (oget (cbe_side nan_payload_doc))))))) by (vm_compute; reflexivity).
  rewrite E2 in Hs. assert (Ee : es2 = oget (cte_side (oget (to_cte (oget (cbe_side nan_payload_doc)))))) by congruence. subst es2.
  revert Hd. vm_compute. discriminate.
Qed.

Theorem C03_full_refuted : ~ C03_full.
Proof. intros [H _]. exact (C03_cbe_half_refuted H). Qed.
