(* C03 — lemmas about the conversion pipelines (Model/Convert.v). *)
From CE Require Import Model.Convert Proofs.Utf8Lemmas.
From CE Require Model.Cbe Model.CteEnc Model.CteRead Model.CteLit Model.Denote Model.Rules Gen.RulesConsts Gen.CteReadTables.
From CE Require Proofs.CbeRoundtrip.
From Coq Require Import ZifyN ZifyNat ZifyBool Lia.
Require Coq.Strings.String.
Import String.StringSyntax.
Open Scope N_scope.

(* ------------------------------------------------------------------ *)
(** * 1. Interval tables: every identifier-safe code point is a CHAR_IDENTIFIER *)

Fixpoint sorted_iv (l : list (N * N)) : bool :=
  match l with
  | [] => true
  | (a, b) :: r => (a <=? b) && match r with [] => true | (c, _) :: _ => b <? c end && sorted_iv r
  end.

Lemma sorted_iv_gap a b rest : sorted_iv ((a, b) :: rest) = true ->
  forall lo hi, In (lo, hi) rest -> b < lo.
Proof.
  revert a b. induction rest as [|[c d] rest IH]; intros a b S lo hi I; [destruct I|].
  cbn [sorted_iv] in S. apply andb_true_iff in S as [S1 S2]. apply andb_true_iff in S1 as [Hab Hbc].
  destruct I as [E|I].
  - inversion E; subst. lia.
  - pose proof (IH c d S2 lo hi I) as G.
    cbn [sorted_iv] in S2. apply andb_true_iff in S2 as [S3 _]. apply andb_true_iff in S3 as [Hcd _]. lia.
Qed.

Lemma in_iv_complete iv : sorted_iv iv = true ->
  forall lo hi r, In (lo, hi) iv -> lo <= r <= hi -> CteRead.in_iv iv r = true.
Proof.
  induction iv as [|[a b] rest IH]; intros S lo hi r I R; [destruct I|].
  cbn [CteRead.in_iv]. destruct I as [E|I].
  - inversion E; subst. destruct (r <? lo) eqn:E1; [lia|]. destruct (r <=? hi) eqn:E2; [reflexivity|lia].
  - pose proof (sorted_iv_gap a b rest S lo hi I) as G.
    assert (Hab : a <= b). { cbn [sorted_iv] in S. apply andb_true_iff in S as [S1 _]. apply andb_true_iff in S1 as [H _]. lia. }
    destruct (r <? a) eqn:E1; [lia|]. destruct (r <=? b) eqn:E2; [lia|].
    apply (IH ltac:(cbn [sorted_iv] in S; apply andb_true_iff in S as [_ S2]; exact S2) lo hi r I R).
Qed.

(* each interval of [a] lies inside one interval of [b] *)
Definition iv_inside (b : list (N * N)) (x : N * N) : bool :=
  existsb (fun y => (fst y <=? fst x) && (snd x <=? snd y)) b.

Lemma ident_tables_checked :
  sorted_iv CteReadTables.cte_ident_intervals = true /\
  forallb (iv_inside CteReadTables.cte_ident_intervals) RulesConsts.identifier_safe_intervals = true.
Proof. vm_compute. split; reflexivity. Qed.

(* for every code point (no bound): chars.IsRuneValidIdentifier implies CHAR_IDENTIFIER *)
Theorem ident_class_inclusion r : Rules.is_identifier_safe_rune r = true -> CteRead.ch_ident r = true.
Proof.
  unfold Rules.is_identifier_safe_rune, CteRead.ch_ident. intro H.
  apply existsb_exists in H as [[lo hi] [I R]]. cbn [fst snd] in R.
  destruct ident_tables_checked as [S F].
  rewrite forallb_forall in F. specialize (F _ I). unfold iv_inside in F.
  apply existsb_exists in F as [[lo' hi'] [I' R']]. cbn [fst snd] in R'.
  apply (in_iv_complete _ S lo' hi' r I'). lia.
Qed.

Lemma ident_chars_not_special r : CteRead.ch_ident r = true ->
  r <> 47 /\ r <> 34 /\ r <> 40 /\ r <> 58 /\ r <> 60 /\ r <> 123 /\ r <> 91 /\ r <> 10 /\ r <> 32 /\ r <> 65533.
Proof.
  intro H. repeat split; intro E; subst r; vm_compute in H; discriminate.
Qed.

(* ------------------------------------------------------------------ *)
(** * 2. Spans *)

Definition stops (p : N -> bool) (s : CteRead.inp) : Prop :=
  match s with [] => True | c :: _ => p c = false end.

Lemma span_spec p s : forall a b, CteRead.span p s = (a, b) ->
  s = a ++ b /\ forallb p a = true /\ stops p b.
Proof.
  induction s as [|c s IH]; intros a b H; cbn [CteRead.span] in H.
  - inversion H; subst. repeat split.
  - destruct (p c) eqn:E.
    + destruct (CteRead.span p s) as [a' b'] eqn:E'. inversion H; subst.
      destruct (IH a' b eq_refl) as (E1 & E2 & E3). subst s. repeat split; [|assumption].
      cbn [forallb]. rewrite E, E2. reflexivity.
    + inversion H; subst. repeat split. exact E.
Qed.

Lemma span_app p a b : forallb p a = true -> stops p b -> CteRead.span p (a ++ b) = (a, b).
Proof.
  induction a as [|c a IH]; intros F S; cbn [app].
  - destruct b as [|c b]; [reflexivity|]. cbn [CteRead.span]. cbn [stops] in S. rewrite S. reflexivity.
  - cbn [forallb] in F. apply andb_true_iff in F as [F1 F2]. cbn [CteRead.span]. rewrite F1, (IH F2 S). reflexivity.
Qed.

(* a character outside the class inside [a]: the span stops before the end of [a] *)
Lemma span_short p a b : forallb p a = false ->
  (length b < length (snd (CteRead.span p (a ++ b))))%nat.
Proof.
  induction a as [|c a IH]; intro F; [discriminate|].
  cbn [forallb] in F. cbn [app CteRead.span]. destruct (p c) eqn:E.
  - cbn [andb] in F. specialize (IH F). destruct (CteRead.span p (a ++ b)) as [x y]. exact IH.
  - cbn [snd length]. rewrite app_length. lia.
Qed.

(* ------------------------------------------------------------------ *)
(** * 3. Media types: the MEDIA_TYPE fragment matches the encoder's spelling exactly
      when the media type has the shape [media_lexable_runes] *)

Lemma media_next_not_special c : CteRead.ch_media_next c = true -> c <> 47 /\ c <> 91 /\ c <> 34.
Proof. intro H. repeat split; intro E; subst c; vm_compute in H; discriminate. Qed.

Lemma not_media_next_term t : t = 91 \/ t = 34 -> CteRead.ch_media_next t = false.
Proof. intros [E|E]; subst t; reflexivity. Qed.

(* the definition with the literal pattern spelled as a test *)
Lemma m_media_eq c r :
  CteRead.m_media (c :: r) =
  if CteRead.is_alpha c then
    let '(run1, r1) := CteRead.span CteRead.ch_media_next r in
    match r1 with
    | [] => None
    | x :: r2 =>
        if x =? 47 then
          let '(run2, r3) := CteRead.span CteRead.ch_media_next r2 in
          match run2, r3 with
          | _ :: _, t :: r4 => if (t =? 91) || (t =? 34) then Some (c :: run1 ++ 47 :: run2, t, r4) else None
          | _, _ => None
          end
        else None
    end
  else None.
Proof.
  unfold CteRead.m_media. destruct (CteRead.is_alpha c); [|reflexivity].
  destruct (CteRead.span CteRead.ch_media_next r) as [run1 r1]. destruct r1 as [|x r2]; [reflexivity|].
  destruct x as [|p]; [reflexivity|]. do 6 (destruct p as [p|p|]; try reflexivity).
Qed.

Lemma forallb_app_true {A} (p : A -> bool) a b : forallb p (a ++ b) = forallb p a && forallb p b.
Proof. apply forallb_app. Qed.

(* the lexer's MEDIA_TYPE on  <media type> '['  (or a double quote): it returns the whole
   media type exactly when the media type is lexable *)
Theorem m_media_iff s t rest : t = 91 \/ t = 34 ->
  (CteRead.m_media (s ++ t :: rest) = Some (s, t, rest) <-> media_lexable_runes s = true).
Proof.
  intro Ht. pose proof (not_media_next_term t Ht) as Nt.
  assert (Tt : (t =? 91) || (t =? 34) = true) by (destruct Ht; subst t; reflexivity).
  destruct s as [|c s].
  { cbn [app media_lexable_runes]. split; [|discriminate]. destruct Ht; subst t; cbn; discriminate. }
  cbn [app]. rewrite m_media_eq. unfold media_lexable_runes.
  destruct (CteRead.is_alpha c); [|split; discriminate]. cbn [andb].
  split.
  - (* the match covers all of [s]: [s] has the shape *)
    destruct (CteRead.span CteRead.ch_media_next (s ++ t :: rest)) as [run1 r1] eqn:E1.
    destruct r1 as [|x r2]; [discriminate|]. destruct (N.eqb_spec x 47) as [X|X]; [subst x|discriminate].
    destruct (CteRead.span CteRead.ch_media_next r2) as [run2 r3] eqn:E2.
    destruct run2 as [|y run2]; [discriminate|]. destruct r3 as [|t' r4]; [discriminate|].
    destruct ((t' =? 91) || (t' =? 34)); [|discriminate].
    intro H. inversion H; subst; clear H.
    (* s = run1 ++ 47 :: y :: run2 *)
    destruct (span_spec _ _ _ _ E2) as (_ & F2 & _).
    assert (F1 : forallb CteRead.ch_media_next run1 = true).
    { destruct (span_spec _ _ _ _ E1) as (_ & F & _). exact F. }
    rewrite (span_app CteRead.ch_media_next run1 (47 :: y :: run2) F1 eq_refl).
    cbn [N.eqb Pos.eqb andb]. change (47 =? 47) with true. cbn [andb].
    replace (y :: run2) with ((y :: run2) ++ []) by apply app_nil_r.
    rewrite (span_app CteRead.ch_media_next (y :: run2) [] F2 I). reflexivity.
  - (* [s] has the shape: the match covers all of it *)
    destruct (CteRead.span CteRead.ch_media_next s) as [run1 r1] eqn:E1.
    destruct r1 as [|x r2]; [discriminate|]. intro H. apply andb_true_iff in H as [X H].
    apply N.eqb_eq in X. subst x.
    destruct (CteRead.span CteRead.ch_media_next r2) as [run2 r3] eqn:E2.
    apply andb_true_iff in H as [H1 H2]. destruct run2 as [|y run2]; [discriminate|].
    destruct r3; [|discriminate].
    destruct (span_spec _ _ _ _ E1) as (S1 & F1 & _). destruct (span_spec _ _ _ _ E2) as (S2 & F2 & _).
    rewrite app_nil_r in S2. subst r2 s.
    rewrite <- app_assoc.
    change ((47 :: y :: run2) ++ t :: rest) with (47 :: ((y :: run2) ++ t :: rest)).
    rewrite (span_app CteRead.ch_media_next run1 (47 :: ((y :: run2) ++ t :: rest)) F1 eq_refl).
    change (47 =? 47) with true. cbv iota.
    rewrite (span_app CteRead.ch_media_next (y :: run2) (t :: rest) F2 Nt).
    cbn [app]. rewrite Tt. reflexivity.
Qed.

(* ------------------------------------------------------------------ *)
(** * 4. Area/location names: the TZ_AREALOC fragment consumes the whole of the encoder's
      spelling exactly when the name is lexable *)

Theorem m_tz_area_iff s rest : stops CteRead.ch_area_next rest ->
  (CteRead.m_tz_area (47 :: s ++ rest) = Some rest <-> area_lexable_runes s = true).
Proof.
  intro St. unfold CteRead.m_tz_area, CteRead.m_lit, CteRead.m_char. change (47 =? 47) with true.
  cbn [CteRead.obind]. unfold area_lexable_runes.
  destruct s as [|c s].
  { cbn [app]. split; [|discriminate]. destruct rest as [|c rest]; [discriminate|].
    destruct (CteRead.is_upper c) eqn:U; [|discriminate]. cbn [CteRead.obind].
    intro H. inversion H as [H1]. exfalso.
    pose proof (span_spec CteRead.ch_area_next rest) as Sp.
    destruct (CteRead.span CteRead.ch_area_next rest) as [a b]. destruct (Sp a b eq_refl) as (E & _).
    cbn [snd] in H1. subst b. apply (f_equal (@length N)) in E. rewrite app_length in E. cbn [length] in E. lia. }
  cbn [app]. destruct (CteRead.is_upper c); [|split; discriminate]. cbn [CteRead.obind andb].
  destruct (forallb CteRead.ch_area_next s) eqn:F.
  - rewrite (span_app _ s rest F St). cbn [snd]. split; reflexivity.
  - split; [|discriminate]. intro H. inversion H as [H1]. pose proof (span_short CteRead.ch_area_next s rest F) as L.
    rewrite H1 in L. lia.
Qed.

(* ------------------------------------------------------------------ *)
(** * 5. Identifiers: the four spellings the encoder uses are read back as the same identifier *)

Lemma match_lit34 {A} (c : N) (f g : A) : c <> 34 -> (match c with 34 => f | _ => g end) = g.
Proof.
  intro H. destruct c as [|p]; [reflexivity|].
  do 6 (destruct p as [p|p|]; try reflexivity). exfalso; apply H; reflexivity.
Qed.

Lemma match_lit34_40 {A} (c : N) (f g h : A) : c <> 34 -> c <> 40 ->
  (match c with 34 => f | 40 => g | _ => h end) = h.
Proof.
  intros H1 H2. destruct c as [|p]; [reflexivity|].
  do 6 (destruct p as [p|p|]; try reflexivity); exfalso; (apply H1; reflexivity) || (apply H2; reflexivity).
Qed.

(* "$id" *)
Lemma ref_token idx rs rest : rs <> [] -> forallb CteRead.ch_ident rs = true -> stops CteRead.ch_ident rest ->
  CteRead.next_tok idx (36 :: rs ++ rest) = Some (CteRead.TVal (ERefLocal (CteRead.u8 rs)), rest, idx).
Proof.
  intros Hne F St. destruct rs as [|c0 rs]; [congruence|].
  assert (Hc : CteRead.ch_ident c0 = true) by (cbn [forallb] in F; apply andb_true_iff in F; tauto).
  destruct (ident_chars_not_special c0 Hc) as (_ & N34 & _).
  unfold CteRead.next_tok. cbn [CteRead.is_ws N.eqb Pos.eqb orb andb app].
  rewrite match_lit34 by exact N34.
  change (c0 :: rs ++ rest) with ((c0 :: rs) ++ rest). rewrite (span_app _ _ _ F St). reflexivity.
Qed.

(* "&id:" *)
Lemma marker_token idx rs rest : rs <> [] -> forallb CteRead.ch_ident rs = true ->
  CteRead.next_tok idx (38 :: rs ++ 58 :: rest) = Some (CteRead.TMarker (CteRead.u8 rs), rest, idx).
Proof.
  intros Hne F. destruct rs as [|c0 rs]; [congruence|].
  unfold CteRead.next_tok. cbn [CteRead.is_ws N.eqb Pos.eqb orb andb].
  rewrite (span_app CteRead.ch_ident (c0 :: rs) (58 :: rest) F eq_refl). reflexivity.
Qed.

(* where the MEDIA_TYPE fragment gives up: not at a slash *)
Definition media_stop_ok (l : CteRead.inp) : Prop :=
  match snd (CteRead.span CteRead.ch_media_next l) with x :: _ => x <> 47 | [] => True end.

Lemma media_stop_ident rs tail : forallb CteRead.ch_ident rs = true -> media_stop_ok tail -> media_stop_ok (rs ++ tail).
Proof.
  induction rs as [|c rs IH]; intros F St; [exact St|].
  cbn [forallb] in F. apply andb_true_iff in F as [Fc F]. unfold media_stop_ok. cbn [app CteRead.span].
  destruct (CteRead.ch_media_next c).
  - specialize (IH F St). unfold media_stop_ok in IH. destruct (CteRead.span CteRead.ch_media_next (rs ++ tail)) as [a b]. exact IH.
  - cbn [snd]. apply (ident_chars_not_special c Fc).
Qed.

Lemma m_media_none s : s <> [] -> media_stop_ok (tl s) -> CteRead.m_media s = None.
Proof.
  intros Hne St. destruct s as [|c r]; [congruence|]. rewrite m_media_eq. cbn [tl] in St.
  destruct (CteRead.is_alpha c); [|reflexivity]. unfold media_stop_ok in St.
  destruct (CteRead.span CteRead.ch_media_next r) as [run1 r1]. cbn [snd] in St.
  destruct r1 as [|x r2]; [reflexivity|]. destruct (N.eqb_spec x 47); [contradiction|reflexivity].
Qed.

(* "@id<" and "@id{" *)
Lemma at_ident_token idx rs t rest : rs <> [] -> forallb CteRead.ch_ident rs = true ->
  t = 60 \/ t = 123 -> media_stop_ok (t :: rest) ->
  CteRead.next_tok idx (64 :: rs ++ t :: rest) =
  Some ((if t =? 60 then CteRead.TRecTypeB (CteRead.u8 rs) else CteRead.TRecB (CteRead.u8 rs)), rest, idx).
Proof.
  intros Hne F Ht St. destruct rs as [|c0 rs]; [congruence|].
  assert (Hc : CteRead.ch_ident c0 = true) by (cbn [forallb] in F; apply andb_true_iff in F; tauto).
  destruct (ident_chars_not_special c0 Hc) as (_ & N34 & N40 & _).
  assert (Fr : forallb CteRead.ch_ident rs = true) by (cbn [forallb] in F; apply andb_true_iff in F; tauto).
  assert (Nt : CteRead.ch_ident t = false) by (destruct Ht; subst t; reflexivity).
  change (CteRead.next_tok idx (64 :: (c0 :: rs) ++ t :: rest)) with (CteRead.at_token idx ((c0 :: rs) ++ t :: rest)).
  unfold CteRead.at_token.
  rewrite (m_media_none ((c0 :: rs) ++ t :: rest)); [|discriminate|cbn [app tl]; apply media_stop_ident; assumption].
  cbn [app]. rewrite match_lit34_40 by assumption.
  change (c0 :: rs ++ t :: rest) with ((c0 :: rs) ++ t :: rest). rewrite (span_app CteRead.ch_ident (c0 :: rs) (t :: rest) F Nt).
  destruct Ht; subst t; reflexivity.
Qed.

(* ------------------------------------------------------------------ *)
(** * 6. From bytes to code points and back: a valid identifier is the UTF-8 of its code points *)

Ltac Zify.zify_post_hook ::= Z.div_mod_to_equations.

Lemma decode_encode s c n : decode_rune s = Some (c, n) -> CteLit.utf8_enc c = firstn n s.
Proof.
  unfold decode_rune, CteLit.utf8_enc. intro H.
  destruct s as [|b0 r]; [discriminate|].
  destruct (b0 <? 128) eqn:E1.
  { inversion H; subst. rewrite E1. reflexivity. }
  destruct (b0 <? 194) eqn:E2; [discriminate|].
  destruct (b0 <? 224) eqn:E3.
  { destruct r as [|b1 r]; [discriminate|]. unfold is_cont in H.
    destruct ((128 <=? b1) && (b1 <=? 191)) eqn:C1; [|discriminate].
    inversion H; subst; clear H. cbn [firstn].
    destruct ((b0 - 192) * 64 + (b1 - 128) <? 128) eqn:A1; [lia|].
    destruct ((b0 - 192) * 64 + (b1 - 128) <? 2048) eqn:A2; [|lia].
    f_equal; [lia|]. f_equal. lia. }
  destruct (b0 <? 240) eqn:E4.
  { destruct r as [|b1 [|b2 r]]; try discriminate. cbv zeta in H. unfold is_cont in H.
    match type of H with (if ?cnd then _ else _) = _ => destruct cnd eqn:C end; [|discriminate].
    inversion H; subst; clear H. cbn [firstn].
    set (c := (b0 - 224) * 4096 + (b1 - 128) * 64 + (b2 - 128)).
    assert (R : 2048 <= c < 65536 /\ ~ (55296 <= c <= 57343) /\ c / 4096 = b0 - 224 /\ (c / 64) mod 64 = b1 - 128 /\ c mod 64 = b2 - 128 /\ 224 <= b0 /\ 128 <= b1 /\ 128 <= b2).
    { subst c. destruct (b0 =? 224) eqn:Q1; destruct (b0 =? 237) eqn:Q2; lia. }
    destruct R as (R1 & R2 & R3 & R4 & R5 & R6 & R7 & R8).
    destruct (c <? 128) eqn:A1; [lia|]. destruct (c <? 2048) eqn:A2; [lia|].
    destruct (((55296 <=? c) && (c <=? 57343)) || (1114111 <? c)) eqn:A3; [lia|].
    destruct (c <? 65536) eqn:A4; [|lia]. rewrite R3, R4, R5. repeat f_equal; lia. }
  destruct (b0 <? 245) eqn:E5; [|discriminate].
  destruct r as [|b1 [|b2 [|b3 r]]]; try discriminate. cbv zeta in H. unfold is_cont in H.
  match type of H with (if ?cnd then _ else _) = _ => destruct cnd eqn:C end; [|discriminate].
  inversion H; subst; clear H. cbn [firstn].
  set (c := (b0 - 240) * 262144 + (b1 - 128) * 4096 + (b2 - 128) * 64 + (b3 - 128)).
  assert (R : 65536 <= c <= 1114111 /\ c / 262144 = b0 - 240 /\ (c / 4096) mod 64 = b1 - 128 /\ (c / 64) mod 64 = b2 - 128 /\ c mod 64 = b3 - 128 /\ 240 <= b0 /\ 128 <= b1 /\ 128 <= b2 /\ 128 <= b3).
  { subst c. destruct (b0 =? 240) eqn:Q1; destruct (b0 =? 244) eqn:Q2; lia. }
  destruct R as (R1 & R3 & R4 & R5 & R6 & R7 & R8 & R9 & R10).
  destruct (c <? 128) eqn:A1; [lia|]. destruct (c <? 2048) eqn:A2; [lia|].
  destruct (((55296 <=? c) && (c <=? 57343)) || (1114111 <? c)) eqn:A3; [lia|].
  destruct (c <? 65536) eqn:A4; [lia|]. rewrite R3, R4, R5, R6. repeat f_equal; lia.
Qed.

Ltac Zify.zify_post_hook ::= idtac.

Lemma no_fffd_roundtrip : forall f s, (length s <= f)%nat ->
  Forall (fun r => r <> 65533) (runes_fuel f s) -> CteLit.utf8_str (runes_fuel f s) = s.
Proof.
  induction f as [|f IH]; intros s L H.
  - destruct s; [reflexivity|cbn [length] in L; lia].
  - destruct s as [|b s']; [reflexivity|]. cbn [runes_fuel] in *.
    destruct (decode_rune (b :: s')) as [[r n]|] eqn:D.
    + inversion H as [|x l Hx Hl]; subst. unfold CteLit.utf8_str. cbn [flat_map].
      fold (CteLit.utf8_str (runes_fuel f (skipn n (b :: s')))).
      destruct (decode_rune_inv _ _ _ D) as (Hn & Hlen & _).
      rewrite IH; [|rewrite skipn_length; cbn [length] in *; lia|exact Hl].
      rewrite (decode_encode _ _ _ D). apply firstn_skipn.
    + inversion H; subst. congruence.
Qed.

Theorem ident_valid_spec id : ident_valid id = true ->
  runes id <> [] /\ forallb CteRead.ch_ident (runes id) = true /\ CteRead.u8 (runes id) = id /\ ident_lexable id = true.
Proof.
  unfold ident_valid, Rules.validate_identifier. intro H.
  apply andb_true_iff in H as [H H3]. apply andb_true_iff in H as [H1 _].
  assert (Hne : runes id <> []).
  { destruct id as [|b id']; [discriminate|]. unfold runes. cbn [length runes_fuel].
    destruct (decode_rune (b :: id')) as [[r n]|]; discriminate. }
  assert (F : forallb CteRead.ch_ident (runes id) = true).
  { apply forallb_forall. intros r Hr. rewrite forallb_forall in H3. apply ident_class_inclusion, H3, Hr. }
  repeat split; try assumption.
  - unfold CteRead.u8, runes. apply no_fffd_roundtrip; [lia|].
    apply Forall_forall. intros r Hr. rewrite forallb_forall in F. apply (ident_chars_not_special r (F r Hr)).
  - unfold ident_lexable. destruct (runes id); [congruence|exact F].
Qed.

(* The four spellings of an identifier the validator admits, as cte/encoder.go writes them
   (OnMarker "&id:", OnReferenceLocal "$id", OnRecordType "@id<", OnRecord "@id{"), are single
   tokens carrying the same identifier, whatever follows (for "$id": anything that is not itself an
   identifier character; for "@id{": anything that does not make the MEDIA_TYPE fragment run on to
   a slash - the encoder continues with a line feed or the closing brace). *)
Theorem ident_tokens_reread id idx rest : ident_valid id = true ->
  (CteRead.next_tok idx (38 :: runes id ++ 58 :: rest) = Some (CteRead.TMarker id, rest, idx)) /\
  (stops CteRead.ch_ident rest ->
   CteRead.next_tok idx (36 :: runes id ++ rest) = Some (CteRead.TVal (ERefLocal id), rest, idx)) /\
  (CteRead.next_tok idx (64 :: runes id ++ 60 :: rest) = Some (CteRead.TRecTypeB id, rest, idx)) /\
  (media_stop_ok (123 :: rest) ->
   CteRead.next_tok idx (64 :: runes id ++ 123 :: rest) = Some (CteRead.TRecB id, rest, idx)).
Proof.
  intro V. destruct (ident_valid_spec id V) as (Hne & F & U & _).
  repeat split.
  - rewrite marker_token by assumption. rewrite U. reflexivity.
  - intro St. rewrite ref_token by assumption. rewrite U. reflexivity.
  - rewrite (at_ident_token idx (runes id) 60 rest Hne F (or_introl eq_refl)); [rewrite U; reflexivity|].
    unfold media_stop_ok. cbn. discriminate.
  - intro St. rewrite (at_ident_token idx (runes id) 123 rest Hne F (or_intror eq_refl) St). rewrite U. reflexivity.
Qed.

Lemma media_stop_after_brace_lf rest : media_stop_ok (123 :: 10 :: rest).
Proof. unfold media_stop_ok. cbn. discriminate. Qed.
Lemma media_stop_after_braces_lf rest : media_stop_ok (123 :: 125 :: 10 :: rest).
Proof. unfold media_stop_ok. cbn. discriminate. Qed.
Lemma media_stop_after_braces_end : media_stop_ok [123; 125].
Proof. unfold media_stop_ok. cbn. exact I. Qed.

(* ------------------------------------------------------------------ *)
(** * 7. Time fields: what the text side accepts, for every value the CBE bit fields can hold
      (finite domains, swept by vm_compute through the complete reader model) *)

Definition agrees (t : ctime) : bool := option_eqb bytes_eqb (time_reread (time_string t)) (time_expected t).

Definition clock_time (h m s : N) (z : tzone) : ctime :=
  {| t_type := TTime; t_year := 0; t_month := 0; t_day := 0; t_hour := h; t_minute := m; t_second := s; t_nano := 0; t_zone := z |}.
Definition date_time (y : Z) (mo d : N) : ctime :=
  {| t_type := TDate; t_year := y; t_month := mo; t_day := d; t_hour := 0; t_minute := 0; t_second := 0; t_nano := 0; t_zone := TzUTC |}.

Lemma option_bytes_eqb_eq (a b : option bytes) : option_eqb bytes_eqb a b = true -> a = b.
Proof.
  destruct a as [x|], b as [y|]; cbn; try discriminate; try reflexivity.
  intro H. apply bytes_eqb_eq in H. congruence.
Qed.

(* hour: 5 bits, minute and second: 6 bits each *)
Lemma clock_sweep :
  forallb (fun h => forallb (fun m => forallb (fun s => agrees (clock_time h m s TzUTC)) (nseq 0 64)) (nseq 0 64)) (nseq 0 32) = true.
Proof. vm_compute. reflexivity. Qed.

Theorem clock_fields_exact h m s : h < 32 -> m < 64 -> s < 64 ->
  time_reread (time_string (clock_time h m s TzUTC)) =
  if (h <=? 23) && (m <=? 59) && (s <=? 60) then Some (time_string (clock_time h m s TzUTC)) else None.
Proof.
  intros Hh Hm Hs. pose proof clock_sweep as W. rewrite forallb_forall in W.
  specialize (W h ltac:(apply nseq_In; lia)). rewrite forallb_forall in W.
  specialize (W m ltac:(apply nseq_In; lia)). rewrite forallb_forall in W.
  specialize (W s ltac:(apply nseq_In; lia)). apply option_bytes_eqb_eq in W. rewrite W.
  unfold time_expected, time_valid, clock_valid, time_lexable, zone_lexable, clock_time. cbn [t_type t_hour t_minute t_second t_nano t_zone zone_valid].
  change (0 <=? 999999999) with true. rewrite !andb_true_r. reflexivity.
Qed.

(* month: 4 bits, day: 5 bits *)
Lemma date_sweep : forallb (fun mo => forallb (fun d => agrees (date_time 2020 mo d)) (nseq 0 32)) (nseq 0 16) = true.
Proof. vm_compute. reflexivity. Qed.

Theorem date_fields_exact mo d : mo < 16 -> d < 32 ->
  time_reread (time_string (date_time 2020 mo d)) =
  if (1 <=? mo) && (mo <=? 12) && (1 <=? d) && (d <=? CteRead.day_max mo) then Some (time_string (date_time 2020 mo d)) else None.
Proof.
  intros Hm Hd. pose proof date_sweep as W. rewrite forallb_forall in W.
  specialize (W mo ltac:(apply nseq_In; lia)). rewrite forallb_forall in W.
  specialize (W d ltac:(apply nseq_In; lia)). apply option_bytes_eqb_eq in W. rewrite W.
  unfold time_expected, time_valid, date_valid, time_lexable, date_time. cbn [t_type t_year t_month t_day].
  rewrite andb_true_r. reflexivity.
Qed.

(* year 0 is refused whatever the rest *)
Lemma year_zero_refused : time_reread (time_string (date_time 0 1 1)) = None.
Proof. vm_compute. reflexivity. Qed.

(* UTC offset: 12 bits, signed *)
Definition zseq (lo : Z) (n : N) : list Z := map (fun k => (lo + Z.of_N k)%Z) (nseq 0 (N.to_nat n)).
Lemma zseq_In lo n z : (lo <= z < lo + Z.of_N n)%Z -> In z (zseq lo n).
Proof.
  intro H. unfold zseq. apply in_map_iff. exists (Z.to_N (z - lo)). split; [lia|]. apply nseq_In. lia.
Qed.

Lemma offset_sweep : forallb (fun o => agrees (clock_time 1 2 3 (TzOffset o))) (zseq (-2048) 4096) = true.
Proof. vm_compute. reflexivity. Qed.

Theorem offset_field_exact o : (-2048 <= o < 2048)%Z ->
  time_reread (time_string (clock_time 1 2 3 (TzOffset o))) =
  if ((-1439 <=? o) && (o <=? 1439))%Z then Some (time_string (clock_time 1 2 3 (TzOffset o))) else None.
Proof.
  intro Ho. pose proof offset_sweep as W. rewrite forallb_forall in W.
  specialize (W o ltac:(apply zseq_In; lia)). apply option_bytes_eqb_eq in W. rewrite W.
  unfold time_expected, time_valid, clock_valid, time_lexable, zone_lexable, clock_time.
  cbn [t_type t_hour t_minute t_second t_nano t_zone zone_valid time_canon zone_canon].
  destruct ((-1439 <=? o) && (o <=? 1439))%Z eqn:E; cbn [andb]; [|reflexivity].
  f_equal. unfold time_string, clock_string, time_canon. cbn [t_type t_hour t_minute t_second t_nano t_zone zone_canon].
  destruct (o =? 0)%Z eqn:Z0; [|cbn [zone_canon]; rewrite Z0; reflexivity].
  apply Z.eqb_eq in Z0. subst o. reflexivity.
Qed.

(* latitude: 15 bits, longitude: 16 bits, signed; one coordinate at a time *)
Lemma latitude_sweep : forallb (fun la => agrees (clock_time 1 2 3 (TzLatLong la 0))) (zseq (-16384) 32768) = true.
Proof. vm_compute. reflexivity. Qed.
Lemma longitude_sweep : forallb (fun lo => agrees (clock_time 1 2 3 (TzLatLong 0 lo))) (zseq (-32768) 65536) = true.
Proof. vm_compute. reflexivity. Qed.

Theorem latitude_field_exact la : (-16384 <= la < 16384)%Z ->
  time_reread (time_string (clock_time 1 2 3 (TzLatLong la 0))) =
  if ((-9000 <=? la) && (la <=? 9000))%Z then Some (time_string (clock_time 1 2 3 (TzLatLong la 0))) else None.
Proof.
  intro H. pose proof latitude_sweep as W. rewrite forallb_forall in W.
  specialize (W la ltac:(apply zseq_In; lia)). apply option_bytes_eqb_eq in W. rewrite W.
  unfold time_expected, time_valid, clock_valid, time_lexable, zone_lexable, clock_time.
  cbn [t_type t_hour t_minute t_second t_nano t_zone zone_valid].
  change ((-18000 <=? 0)%Z) with true. change ((0 <=? 18000)%Z) with true. rewrite !andb_true_r. cbn [andb].
  destruct ((-9000 <=? la) && (la <=? 9000))%Z; reflexivity.
Qed.

Theorem longitude_field_exact lo : (-32768 <= lo < 32768)%Z ->
  time_reread (time_string (clock_time 1 2 3 (TzLatLong 0 lo))) =
  if ((-18000 <=? lo) && (lo <=? 18000))%Z then Some (time_string (clock_time 1 2 3 (TzLatLong 0 lo))) else None.
Proof.
  intro H. pose proof longitude_sweep as W. rewrite forallb_forall in W.
  specialize (W lo ltac:(apply zseq_In; lia)). apply option_bytes_eqb_eq in W. rewrite W.
  unfold time_expected, time_valid, clock_valid, time_lexable, zone_lexable, clock_time.
  cbn [t_type t_hour t_minute t_second t_nano t_zone zone_valid].
  change ((-9000 <=? 0)%Z) with true. change ((0 <=? 9000)%Z) with true. rewrite !andb_true_r. cbn [andb].
  destruct ((-18000 <=? lo) && (lo <=? 18000))%Z; reflexivity.
Qed.

(* ------------------------------------------------------------------ *)
(** * 8. The data half: C03 = C01 after C02

   [read] is the CTE decoder as a function from documents to events, [P] the set of (validated) streams
   on which property C02 is assumed: the decoder reads the encoder's text, the validator accepts what it
   reads, and the data is the input's without its padding.  Then a CBE document whose validated stream
   lies in [P] converts to a text with exactly that outcome, and — by the CBE round-trip theorem
   (Proofs/CbeRoundtrip.v, on its fragment [c01_doc_norm]) — converting the re-read stream back to CBE
   gives a document that decodes to the same data again. *)

Definition c02_on (read : bytes -> option (list event)) (P : list event -> Prop) : Prop :=
  forall es t, P es -> to_cte es = Some t ->
    exists es1 es2, read t = Some es1 /\ rules_forward es1 = Some es2 /\
                    Denote.den es2 = Denote.no_padding (Denote.den es).

Lemma cbe_side_spec doc es : cbe_side doc = Some es ->
  exists es0, Cbe.cbe_decode Cbe.default_dcfg doc = (es0, Cbe.DOk) /\
              Rules.accepts_document Rules.default_rcfg es0 = true /\
              es = Rules.forwarded Rules.default_rcfg es0.
Proof.
  unfold cbe_side, rules_forward. destruct (Cbe.cbe_decode Cbe.default_dcfg doc) as [es0 r]. destruct r; [|discriminate].
  destruct (Rules.accepts_document Rules.default_rcfg es0) eqn:A; [|discriminate].
  intro H. inversion H; subst. exists es0. repeat split. exact A.
Qed.

Theorem c03_data_half read P : c02_on read P ->
  forall doc es t, cbe_side doc = Some es -> P es -> to_cte es = Some t ->
  exists es1 es2,
    read t = Some es1 /\ rules_forward es1 = Some es2 /\
    Denote.den es2 = Denote.no_padding (Denote.den es) /\
    forall es3 d2,
      CbeRoundtrip.c01_doc_norm es2 = Some es3 -> to_cbe es2 = Some d2 ->
      Cbe.len d2 <= Cbe.max_doc_size Cbe.default_dcfg ->
      Cbe.cbe_decode Cbe.default_dcfg d2 = (es3, Cbe.DOk) /\
      Denote.den es3 = Denote.no_comments (Denote.no_padding (Denote.den es)).
Proof.
  intros C02 doc es t _ HP Ht. destruct (C02 es t HP Ht) as (es1 & es2 & R & F & D).
  exists es1, es2. split; [exact R|]. split; [exact F|]. split; [exact D|].
  intros es3 d2 Hn He Hl.
  destruct (CbeRoundtrip.c01_den_roundtrip_checked Cbe.default_dcfg es2 es3 d2 Hn He Hl) as [D1 D2].
  split; [exact D1|]. rewrite D2, D. reflexivity.
Qed.

(* the hypotheses are satisfiable: the reader model on a document with nested containers, a marker and
   a reference, a string, a media value with a lexable type, a float and a chunked array *)
Definition c03_example_doc : bytes :=
  [129; 0; 154;  127; 240; 1; 109;  153; 129; 97; 1; 155;   119; 1; 109;   127; 243; 3; 97; 47; 98; 4; 1; 2;
   113; 0; 0; 192; 63;   147; 5; 1; 2; 2; 3;   155].

Definition oget {A} (o : option (list A)) : list A := match o with Some x => x | None => [] end.
Definition c03_example_events : list event := oget (cbe_side c03_example_doc).

Lemma c03_example_accepted : cbe_side c03_example_doc = Some c03_example_events /\ (10 < length c03_example_events)%nat.
Proof. vm_compute. split; [reflexivity|lia]. Qed.

Lemma c03_example_c02 : c02_on CteRead.cte_read (fun es => es = c03_example_events).
Proof.
  intros es t -> Ht.
  exists (oget (CteRead.cte_read (oget (to_cte c03_example_events)))).
  exists (oget (rules_forward (oget (CteRead.cte_read (oget (to_cte c03_example_events)))))).
  assert (E : t = oget (to_cte c03_example_events)) by (rewrite Ht; reflexivity). subst t.
  vm_compute. repeat split.
Qed.

Lemma c03_example_back :
  let es2 := oget (rules_forward (oget (CteRead.cte_read (oget (to_cte c03_example_events))))) in
  exists es3 d2, CbeRoundtrip.c01_doc_norm es2 = Some es3 /\ to_cbe es2 = Some d2 /\
                 Cbe.len d2 <= Cbe.max_doc_size Cbe.default_dcfg.
Proof.
  exists (oget (CbeRoundtrip.c01_doc_norm (oget (rules_forward (oget (CteRead.cte_read (oget (to_cte c03_example_events)))))))).
  exists (oget (to_cbe (oget (rules_forward (oget (CteRead.cte_read (oget (to_cte c03_example_events)))))))).
  vm_compute. repeat split; discriminate.
Qed.

(* ------------------------------------------------------------------ *)
(** * 9. The property as stated, and where the current code violates it *)

(* first half: every document the binary side accepts converts to a text the text side accepts, with
   the same data up to padding, and converting that back reproduces the data *)
Definition C03_cbe_half : Prop :=
  forall doc es, cbe_side doc = Some es ->
    exists t es2 d2 es3,
      to_cte es = Some t /\ cte_side t = Some es2 /\ Denote.den es2 = Denote.no_padding (Denote.den es) /\
      to_cbe es2 = Some d2 /\ cbe_side d2 = Some es3 /\ Denote.den es3 = Denote.no_comments (Denote.den es2).
(* second half: every accepted CTE document without custom text converts to an accepted CBE document
   with the same data apart from comments *)
Definition C03_cte_half : Prop :=
  forall text es, cte_side text = Some es -> has_custom_text es = false ->
    exists d es2, to_cbe es = Some d /\ cbe_side d = Some es2 /\ Denote.den es2 = Denote.no_comments (Denote.den es).
Definition C03_full : Prop := C03_cbe_half /\ C03_cte_half.
(* the text side alone, on validated event streams (times live here: Model/Cbe.v has no times) *)
Definition C03_text_side : Prop :=
  forall es0 es, rules_forward es0 = Some es ->
    exists t es2, to_cte es = Some t /\ cte_side t = Some es2 /\ Denote.den es2 = Denote.no_padding (Denote.den es).

Definition media_doc (mt : bytes) : bytes := [129; 0; 127; 243] ++ [Cbe.len mt] ++ mt ++ [4; 1; 2].

(* the same document pushed through the model pipeline: (accepted, text, re-read accepted, same data) *)
Definition cbe_outcome (doc : bytes) : bool * option bytes * bool * bool :=
  match cbe_side doc with
  | Some es => let r := cbe_report_of es in (true, r_text r, match r_reread r with Some _ => true | None => false end, r_same r)
  | None => (false, None, false, false)
  end.

(* media type "i8": accepted by the binary side, written "@i8[01 02]", read back as an int8 array *)
Lemma media_i8_outcome :
  cbe_outcome (media_doc (str "i8"%string)) = (true, Some (str "c0"%string ++ [10] ++ str "@i8[01 02]"%string), true, false) /\
  option_map r_reread (option_map cbe_report_of (cbe_side (media_doc (str "i8"%string)))) =
    Some (Some [EBeginDoc; EVersion 0; EArray RulesConsts.AT_Int8 2 [1; 2]; EEndDoc]).
Proof. vm_compute. split; reflexivity. Qed.

(* media types without a slash, the empty one, one with a space: accepted, written, rejected by the text side *)
Lemma media_unspellable_outcomes :
  cbe_outcome (media_doc (str "a"%string)) = (true, Some (str "c0"%string ++ [10] ++ str "@a[01 02]"%string), false, false) /\
  cbe_outcome (media_doc []) = (true, Some (str "c0"%string ++ [10] ++ str "@[01 02]"%string), false, false) /\
  cbe_outcome (media_doc (str "text/plain; charset=utf-8"%string)) =
    (true, Some (str "c0"%string ++ [10] ++ str "@text/plain; charset=utf-8[01 02]"%string), false, false) /\
  cbe_outcome (media_doc (str "a/b"%string)) = (true, Some (str "c0"%string ++ [10] ++ str "@a/b[01 02]"%string), true, true).
Proof. vm_compute. repeat split. Qed.

Definition media_a_doc : bytes := media_doc (str "a"%string).
Theorem C03_cbe_half_refuted : ~ C03_cbe_half.
Proof.
  intro H. pose proof I as d. clear d.
  assert (E0 : cbe_side media_a_doc = Some (oget (cbe_side media_a_doc))) by (vm_compute; reflexivity).
  destruct (H media_a_doc _ E0) as (t & es2 & d2 & es3 & Ht & Hs & _).
  assert (E1 : to_cte (oget (cbe_side media_a_doc)) = Some (oget (to_cte (oget (cbe_side media_a_doc))))) by (vm_compute; reflexivity).
  rewrite E1 in Ht. assert (Et : t = oget (to_cte (oget (cbe_side media_a_doc)))) by congruence. subst t.
  assert (E2 : cte_side (oget (to_cte (oget (cbe_side media_a_doc)))) = None) by (vm_compute; reflexivity).
  rewrite E2 in Hs. discriminate.
Qed.

(* ... and the silent variant: accepted on both sides, different data *)
Theorem C03_cbe_half_refuted_silently :
  exists doc es t es2, cbe_side doc = Some es /\ to_cte es = Some t /\ cte_side t = Some es2 /\
                       Denote.den es2 <> Denote.no_padding (Denote.den es).
Proof.
  set (d := media_doc (str "i8"%string)).
  exists d, (oget (cbe_side d)), (oget (to_cte (oget (cbe_side d)))), (oget (cte_side (oget (to_cte (oget (cbe_side d)))))).
  vm_compute. repeat split. discriminate.
Qed.

(* times: validated streams the text side cannot take over *)
Definition time_stream (s : bytes) : list event := [EBeginDoc; EVersion 0; ETime s; EEndDoc].
Definition text_outcome (es0 : list event) : bool * option bytes * bool :=
  match rules_forward es0 with
  | Some es => (true, to_cte es, match to_cte es with Some t => match cte_side t with Some _ => true | None => false end | None => false end)
  | None => (false, None, false)
  end.

Lemma time_outcomes :
  text_outcome (time_stream (str "01:02:03/x"%string)) = (true, Some (str "c0"%string ++ [10] ++ str "01:02:03/x"%string), false) /\
  text_outcome (time_stream (str "01:02:03/europe/berlin"%string)) = (true, Some (str "c0"%string ++ [10] ++ str "01:02:03/europe/berlin"%string), false) /\
  text_outcome (time_stream (str "31:02:03"%string)) = (true, Some (str "c0"%string ++ [10] ++ str "31:02:03"%string), false) /\
  text_outcome (time_stream (str "2000-13-00"%string)) = (true, Some (str "c0"%string ++ [10] ++ str "2000-13-00"%string), false) /\
  text_outcome (time_stream (str "0-01-01"%string)) = (true, Some (str "c0"%string ++ [10] ++ str "0-01-01"%string), false) /\
  text_outcome (time_stream (str "01:02:03+3407"%string)) = (true, Some (str "c0"%string ++ [10] ++ str "01:02:03+3407"%string), false) /\
  text_outcome (time_stream (str "01:02:03/163.83/327.67"%string)) = (true, Some (str "c0"%string ++ [10] ++ str "01:02:03/163.83/327.67"%string), false) /\
  text_outcome (time_stream (str "01:02:03/Europe/Berlin"%string)) = (true, Some (str "c0"%string ++ [10] ++ str "01:02:03/Europe/Berlin"%string), true).
Proof. vm_compute. repeat split. Qed.

Definition zone_x_stream : list event := time_stream (str "01:02:03/x"%string).
Theorem C03_text_side_refuted : ~ C03_text_side.
Proof.
  intro H.
  assert (E0 : rules_forward zone_x_stream = Some (oget (rules_forward zone_x_stream))) by (vm_compute; reflexivity).
  destruct (H zone_x_stream _ E0) as (t & es2 & Ht & Hs & _).
  assert (E1 : to_cte (oget (rules_forward zone_x_stream)) = Some (oget (to_cte (oget (rules_forward zone_x_stream))))) by (vm_compute; reflexivity).
  rewrite E1 in Ht. assert (Et : t = oget (to_cte (oget (rules_forward zone_x_stream)))) by congruence. subst t.
  assert (E2 : cte_side (oget (to_cte (oget (rules_forward zone_x_stream)))) = None) by (vm_compute; reflexivity).
  rewrite E2 in Hs. discriminate.
Qed.

(* second half: a custom type number above 2^32-1 is accepted by the text side, written by the CBE
   encoder, and refused by the CBE decoder *)
Definition custom_big_text : bytes := str "c0 @4294967296[01]"%string.
Lemma custom_big_outcome :
  cte_side custom_big_text = Some [EBeginDoc; EVersion 0; ECustomBin 4294967296 [1]; EEndDoc] /\
  to_cbe [EBeginDoc; EVersion 0; ECustomBin 4294967296 [1]; EEndDoc] = Some [129; 0; 146; 128; 128; 128; 128; 16; 2; 1] /\
  cbe_side [129; 0; 146; 128; 128; 128; 128; 16; 2; 1] = None /\
  cte_converts custom_big_text = false /\ cte_converts (str "c0 @4294967295[01]"%string) = true.
Proof. vm_compute. repeat split. Qed.

Theorem C03_cte_half_refuted : ~ C03_cte_half.
Proof.
  intro H. destruct custom_big_outcome as (E1 & E2 & E3 & _).
  destruct (H _ _ E1 eq_refl) as (d & es2 & Hd & Hs & _).
  rewrite E2 in Hd. assert (Ed : d = [129; 0; 146; 128; 128; 128; 128; 16; 2; 1]) by congruence. subst d. rewrite E3 in Hs. discriminate.
Qed.

Theorem C03_full_refuted : ~ C03_full.
Proof. intros [H _]. exact (C03_cbe_half_refuted H). Qed.
