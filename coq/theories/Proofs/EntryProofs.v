(* Proofs about CE.Model.Entry (C07). *)
From Coq Require Import String Ascii ZifyNat ZifyN ZifyBool.
From CE Require Import Model.Api Model.Entry.
Open Scope N_scope.

(* ------------------------------------------------------------------------- *)
(** * Loops with a measure *)

Section Loop.
  Context {S : Type} (mu : S -> nat) (step : S -> option S).

  (* If every iteration decreases the measure, enough fuel = the measure: the
     loop returns, whatever the starting state. *)
  Lemma loop_returns :
    (forall s s', step s = Some s' -> (mu s' < mu s)%nat) ->
    forall fuel s, (mu s <= fuel)%nat -> exists s', loop mu step fuel s = Ok s' /\ step s' = None.
  Proof.
    intros Hdec fuel; induction fuel as [|k IH]; intros s Hs.
    - simpl. destruct (step s) as [s'|] eqn:E.
      + apply Hdec in E. lia.
      + exists s. split; [reflexivity | exact E].
    - simpl. destruct (step s) as [s'|] eqn:E.
      + pose proof (Hdec _ _ E) as Hlt.
        destruct (Nat.ltb_spec (mu s') (mu s)) as [_|Hge]; [|lia].
        apply IH. lia.
      + exists s. split; [reflexivity | exact E].
  Qed.

  Lemma run_loop_returns :
    (forall s s', step s = Some s' -> (mu s' < mu s)%nat) ->
    forall s, exists s', run_loop mu step s = Ok s' /\ step s' = None.
  Proof. intros Hdec s. apply loop_returns; [exact Hdec | lia]. Qed.

  (* A state that the body leaves unchanged is an infinite loop. *)
  Lemma loop_fixpoint_hangs fuel s : step s = Some s -> loop mu step fuel s = Hang.
  Proof.
    intro E. destruct fuel; simpl; rewrite E; rewrite Nat.ltb_irrefl; reflexivity.
  Qed.
End Loop.

(* ------------------------------------------------------------------------- *)
(** * ArtificiallyTerminate *)

Lemma deliver_length r : (length (deliver r) <= Datatypes.S (length r))%nat /\ (length (deliver r) <= length r + 1)%nat.
Proof.
  induction r as [|f r IH]; simpl; [lia|].
  destruct f as [c| |k|n|[|]]; simpl; try lia.
  destruct n as [|[|m]]; simpl; lia.
Qed.

Lemma deliver_length_le r : (length (deliver r) <= Datatypes.S (length r))%nat.
Proof. apply deliver_length. Qed.

Lemma artificially_end_length st : (length (artificially_end st) <= length st)%nat.
Proof.
  destruct st as [|f r]; simpl; [lia|].
  destruct f as [c| |k|n|b]; simpl; try lia; apply deliver_length_le.
Qed.

(* The loop of commit 5799b55: the stack depth decreases in every iteration. *)
Lemma terminate_step_decreases st st' :
  terminate_step st = Some st' -> (length st' < length st)%nat.
Proof.
  destruct st as [|f [|g r]]; try discriminate.
  change (terminate_step (f :: g :: r))
    with (Some (if Nat.ltb (length (artificially_end (f :: g :: r))) (length (f :: g :: r))
                then artificially_end (f :: g :: r) else tl (artificially_end (f :: g :: r)))).
  assert (2 <= length (f :: g :: r))%nat as H2 by (simpl; lia).
  revert H2. generalize (artificially_end_length (f :: g :: r)).
  generalize (artificially_end (f :: g :: r)) as a.
  generalize (f :: g :: r) as s0.
  intros s0 a Hle H2 E. injection E as <-.
  destruct (Nat.ltb_spec (length a) (length s0)) as [Hlt|Hge]; [exact Hlt|].
  destruct a as [|x t]; simpl in *; lia.
Qed.

Lemma terminate_step_none st : terminate_step st = None -> (length st <= 1)%nat.
Proof. destruct st as [|f [|g r]]; simpl; intro E; try discriminate; lia. Qed.

Lemma artificially_terminate_returns st :
  exists st', artificially_terminate st = Ok st' /\ (length st' <= 1)%nat.
Proof.
  destruct (run_loop_returns (@length frame) terminate_step terminate_step_decreases st) as [st' [E N]].
  exists st'. split; [exact E | apply terminate_step_none, N].
Qed.

Lemma artificially_terminate_not_hang st : artificially_terminate st <> Hang.
Proof. destruct (artificially_terminate_returns st) as [st' [E _]]. rewrite E. discriminate. Qed.

(* Before the repair: an edge builder, or a node builder waiting for its value,
   on top of a stack of depth > 1 is never removed. *)
Lemma old_terminate_spins_on_edge (mu : stack -> nat) n r :
  r <> [] -> run_loop mu terminate_step_old (FEdge n :: r) = Hang.
Proof.
  intro Hr. apply loop_fixpoint_hangs. destruct r as [|g r]; [congruence | reflexivity].
Qed.

Lemma old_terminate_spins_on_node (mu : stack -> nat) b r :
  r <> [] -> run_loop mu terminate_step_old (FNode b :: r) = Hang.
Proof.
  intro Hr. apply loop_fixpoint_hangs. destruct r as [|g r]; [congruence | reflexivity].
Qed.

(* ------------------------------------------------------------------------- *)
(** * Recover wrappers *)

Section Wrap.
  Context {R : Type}.

  Lemma wrap_hang (s : fn_shape) len (inner : outcome R) : wrap s len inner = Hang -> inner = Hang.
  Proof.
    unfold wrap. destruct (existsb (op_fires len) (fn_unguarded s)); [discriminate|].
    destruct inner; try discriminate; [|reflexivity]. destruct (fn_recover s); discriminate.
  Qed.

  Lemma wrap_chain_hang chain len (inner : outcome R) : wrap_chain chain len inner = Hang -> inner = Hang.
  Proof.
    induction chain as [|f r IH]; simpl; [tauto|]. intro H. apply wrap_hang in H. auto.
  Qed.

  (* [quiet]: no unguarded operation of the function fires on a document of this length. *)
  Definition quiet (s : fn_shape) (len : N) : bool := negb (existsb (op_fires len) (fn_unguarded s)).

  Lemma wrap_no_panic (s : fn_shape) len (inner : outcome R) :
    quiet s len = true -> (fn_recover s = true \/ inner <> Panic) -> wrap s len inner <> Panic.
  Proof.
    unfold quiet, wrap. intros Hq H. apply negb_true_iff in Hq. rewrite Hq.
    destruct inner; try discriminate.
    destruct H as [H|H]; [rewrite H; discriminate | congruence].
  Qed.

  (* Walking a chain from the outside: every function is quiet, and either one of
     them recovers (everything inside is then covered) or the end is reached. *)
  Fixpoint chain_safe (chain : list string) (len : N) : bool :=
    match chain with
    | [] => false
    | f :: r => quiet (shape_of f) len && (fn_recover (shape_of f) || chain_safe r len)
    end.

  Lemma chain_safe_no_panic chain len (inner : outcome R) :
    chain_safe chain len = true -> wrap_chain chain len inner <> Panic.
  Proof.
    induction chain as [|f r IH]; simpl; [discriminate|].
    intro H. apply andb_true_iff in H as [Hq H]. apply wrap_no_panic; [exact Hq|].
    apply orb_true_iff in H as [H|H]; [left; exact H | right; apply IH, H].
  Qed.
End Wrap.

(* The unguarded operations of a function that fire on no document at all
   ([static]): none at all. *)
Definition static_quiet (f : string) : bool :=
  match fn_unguarded (shape_of f) with [] => true | _ => false end.

Fixpoint chain_static_safe (chain : list string) : bool :=
  match chain with
  | [] => false
  | f :: r => static_quiet f && (fn_recover (shape_of f) || chain_static_safe r)
  end.

Lemma static_quiet_quiet f len : static_quiet f = true -> quiet (shape_of f) len = true.
Proof.
  unfold static_quiet, quiet. destruct (fn_unguarded (shape_of f)); [reflexivity | discriminate].
Qed.

Lemma chain_static_safe_safe chain len : chain_static_safe chain = true -> chain_safe chain len = true.
Proof.
  induction chain as [|f r IH]; simpl; [tauto|].
  intro H. apply andb_true_iff in H as [Hq H]. rewrite (static_quiet_quiet _ _ Hq). simpl.
  apply orb_true_iff in H as [H|H]; [rewrite H; reflexivity | rewrite (IH H); apply orb_true_r].
Qed.

(* Finite sweep over the 24 entry points and the shapes regenerated from the
   source: every chain is covered by a recover and no function on it has a
   partial operation outside its recover. *)
Definition ep_static_safe (e : entry_point) : bool :=
  match route_of e with
  | Direct outer f dv => chain_static_safe (outer ++ specific_chain (kind_of e) f dv)
  | Universal outer unm dv =>
      static_quiet outer
      && chain_static_safe (specific_chain (kind_of e) FCbe dv)
      && chain_static_safe (specific_chain (kind_of e) FCte dv)
  end.

Lemma static_safe_sweep : forallb ep_static_safe all_entry_points = true.
Proof. vm_compute. reflexivity. Qed.

Lemma all_entry_points_complete e : In e all_entry_points.
Proof. destruct e; simpl; tauto. Qed.

Lemma ep_static_safe_all e : ep_static_safe e = true.
Proof.
  pose proof static_safe_sweep as H. rewrite forallb_forall in H. apply H, all_entry_points_complete.
Qed.

Section RunChain.
  Context {R : Type}.

  Lemma universal_body_no_panic (k : ep_kind) f dv len (inner : fmt -> outcome R) :
    chain_static_safe (specific_chain k FCbe dv) = true ->
    chain_static_safe (specific_chain k FCte dv) = true ->
    match f with
    | FNone => Err
    | _ => wrap_chain (specific_chain k f dv) len (inner f)
    end <> Panic.
  Proof.
    intros Hb Ht. destruct f; try discriminate;
      apply chain_safe_no_panic, chain_static_safe_safe; assumption.
  Qed.

  (* No entry point lets a panic escape, whatever its innermost body does. *)
  Lemma run_chain_no_panic e head len (inner : fmt -> outcome R) :
    run_chain e head len inner <> Panic.
  Proof.
    pose proof (ep_static_safe_all e) as Hs.
    unfold run_chain, ep_static_safe in *. destruct (route_of e) as [outer f dv | outer unm dv].
    - apply chain_safe_no_panic, chain_static_safe_safe, Hs.
    - apply andb_true_iff in Hs as [Hs Ht]. apply andb_true_iff in Hs as [Hq Hb].
      apply wrap_no_panic; [apply static_quiet_quiet, Hq|]. right.
      apply universal_body_no_panic; assumption.
  Qed.

  Lemma run_chain_hang e head len (inner : fmt -> outcome R) :
    run_chain e head len inner = Hang -> exists f, inner f = Hang.
  Proof.
    unfold run_chain. destruct (route_of e) as [outer f dv | outer unm dv]; intro H.
    - exists f. eapply wrap_chain_hang, H.
    - apply wrap_hang in H.
      destruct (match head with [] => FNone | b :: _ => table_lookup (if unm then unmarshaler_table else decoder_table) b end) as [| |] eqn:E;
        try discriminate; eexists; eapply wrap_chain_hang, H.
  Qed.
End RunChain.

(* The hand-written chains follow the extracted call graph. *)
Lemma chains_in_callgraph :
  forallb (fun e =>
    match route_of e with
    | Direct outer f dv => chain_in_callgraph (outer ++ specific_chain (kind_of e) f dv)
    | Universal outer _ dv =>
        chain_in_callgraph (outer :: specific_chain (kind_of e) FCbe dv)
        && chain_in_callgraph (outer :: specific_chain (kind_of e) FCte dv)
    end) all_entry_points = true.
Proof. vm_compute. reflexivity. Qed.

(* ------------------------------------------------------------------------- *)
(** * Innermost bodies *)

Definition no_placeholder (c : cache) : Prop := forall t, cache_find c t <> Some Placeholder.

Lemma no_placeholder_nil : no_placeholder [].
Proof. intros t. discriminate. Qed.

(* No lookup stores a placeholder, and without a stored placeholder no lookup waits. *)
Lemma cache_get_keeps c t sup :
  no_placeholder c ->
  no_placeholder (fst (cache_get c t sup)) /\ snd (cache_get c t sup) <> Waits.
Proof.
  intro Hc. unfold cache_get. destruct (cache_find c t) as [[|]|] eqn:E.
  - split; [exact Hc | discriminate].
  - exfalso. exact (Hc t E).
  - destruct sup; simpl; (split; [|discriminate]); [|exact Hc].
    intros t'. simpl. destruct (N.eqb t' t); [discriminate | apply Hc].
Qed.

(* A failed build leaves the cache as it was ... *)
Lemma cache_get_unsupported_unchanged c t :
  cache_find c t = None -> cache_get c t false = (c, BuildPanics).
Proof. intro E. unfold cache_get. rewrite E. reflexivity. Qed.

(* ... whereas before commit d2cf257 the next lookup of the same type waited forever. *)
Lemma old_cache_poisoned c t :
  cache_find c t = None ->
  snd (cache_get_old c t false) = BuildPanics /\
  snd (cache_get_old (fst (cache_get_old c t false)) t false) = Waits.
Proof.
  intro E. unfold cache_get_old. rewrite E. simpl. rewrite N.eqb_refl. split; reflexivity.
Qed.

(* Unmarshal: with no placeholder waiting for the template type the call returns. *)
Lemma unmarshal_body_not_hang c t sup obs :
  snd (cache_get c t sup) <> Waits -> snd (unmarshal_body c t sup obs) <> Hang.
Proof.
  unfold unmarshal_body. destruct (cache_get c t sup) as [c' l]. simpl. intro Hl.
  destruct l; try congruence.
  - destruct (feed (d_trace obs) [FTop false]) as [st stop].
    destruct (d_fails obs || match stop with AllConsumed => false | _ => true end).
    + destruct (artificially_terminate_returns st) as [st' [E _]]. rewrite E. simpl. discriminate.
    + simpl. discriminate.
  - simpl. discriminate.
Qed.

Lemma unmarshal_body_cache c t sup obs :
  no_placeholder c -> no_placeholder (fst (unmarshal_body c t sup obs)).
Proof.
  intro Hc. unfold unmarshal_body.
  destruct (cache_get_keeps c t sup Hc) as [Hn Hw].
  destruct (cache_get c t sup) as [c' l]. simpl in *.
  destruct l; try exact Hn; [|congruence].
  destruct (feed (d_trace obs) [FTop false]) as [st stop].
  destruct (d_fails obs || match stop with AllConsumed => false | _ => true end); simpl.
  - destruct (artificially_terminate st); exact Hn.
  - exact Hn.
Qed.

Lemma marshal_body_not_hang c v :
  snd (cache_get c (v_type v) (v_supported v)) <> Waits -> v_cyclic v = false ->
  snd (marshal_body c v) <> Hang.
Proof.
  unfold marshal_body. destruct (cache_get c (v_type v) (v_supported v)) as [c' l]. simpl.
  intros Hl Hc. destruct l; try congruence; simpl; [rewrite Hc|]; discriminate.
Qed.

Lemma marshal_body_cache c v :
  no_placeholder c -> no_placeholder (fst (marshal_body c v)).
Proof.
  intros Hc. unfold marshal_body.
  destruct (cache_get_keeps c (v_type v) (v_supported v) Hc) as [Hn Hw].
  destruct (cache_get c (v_type v) (v_supported v)) as [c' l]. simpl in *. destruct l; exact Hn.
Qed.

(* ------------------------------------------------------------------------- *)
(** * Calls and sessions *)

Lemma run_call_no_panic e c cl : snd (run_call e c cl) <> Panic.
Proof.
  unfold run_call.
  destruct (kind_of e) eqn:K, cl as [head len fails | head len t sup obs | v]; simpl; try discriminate.
  - destruct (chain_of e head).
    + destruct (unmarshal_body c t sup (obs _)) as [c' o]. simpl. apply run_chain_no_panic.
    + simpl. apply run_chain_no_panic.
  - apply run_chain_no_panic.
  - destruct (marshal_body c v) as [c' o]. simpl. apply run_chain_no_panic.
Qed.

(* A call returns when no placeholder is stored and the value is acyclic. *)
Lemma run_call_not_hang e c cl :
  no_placeholder c -> call_acyclic cl = true -> snd (run_call e c cl) <> Hang.
Proof.
  intros Hc Hac. unfold run_call.
  destruct (kind_of e) eqn:K, cl as [head len fails | head len t sup obs | v]; simpl; try discriminate.
  - destruct (chain_of e head).
    + pose proof (unmarshal_body_not_hang c t sup
                   (obs match route_of e with
                        | Direct _ f _ => f
                        | Universal _ _ _ => match head with [] => FNone | b :: _ => table_lookup unmarshaler_table b end
                        end) (proj2 (cache_get_keeps c t sup Hc))) as Hb.
      destruct (unmarshal_body c t sup _) as [c' o]. simpl in *.
      intro H. apply run_chain_hang in H as [f H]. congruence.
    + simpl. intro H. apply run_chain_hang in H as [f H]. discriminate.
  - intro H. apply run_chain_hang in H as [f H]. unfold decode_body in H. destruct (fails f); discriminate.
  - simpl in Hac. apply negb_true_iff in Hac.
    pose proof (marshal_body_not_hang c v (proj2 (cache_get_keeps c _ _ Hc)) Hac) as Hb.
    destruct (marshal_body c v) as [c' o]. simpl in *.
    intro H. apply run_chain_hang in H as [f H]. congruence.
Qed.

Lemma run_call_cache e c cl : no_placeholder c -> no_placeholder (fst (run_call e c cl)).
Proof.
  intros Hc. unfold run_call.
  destruct (kind_of e), cl as [head len fails | head len t sup obs | v]; simpl; try exact Hc.
  - destruct (chain_of e head); [|exact Hc].
    pose proof (unmarshal_body_cache c t sup
                 (obs match route_of e with
                      | Direct _ f _ => f
                      | Universal _ _ _ => match head with [] => FNone | b :: _ => table_lookup unmarshaler_table b end
                      end) Hc) as Hb.
    destruct (unmarshal_body c t sup _) as [c' o]. exact Hb.
  - pose proof (marshal_body_cache c v Hc) as Hb.
    destruct (marshal_body c v) as [c' o]. exact Hb.
Qed.

(* Every session of acyclic calls, on every entry point, with any mixture of
   supported and unsupported types and any reuse of the object: every call returns
   a result or an error. *)
Lemma run_session_good e calls :
  forall c, no_placeholder c -> benign calls -> Forall good (run_session e c calls).
Proof.
  induction calls as [|cl r IH]; intros c Hc Hac; simpl; [constructor|].
  unfold benign in Hac. simpl in Hac. apply andb_true_iff in Hac as [Hac1 Hac].
  match goal with |- context [run_call e ?x cl] => set (c0 := x) end.
  assert (no_placeholder c0) as Hc0 by (unfold c0; destruct (fresh_per_call e); [apply no_placeholder_nil | exact Hc]).
  pose proof (run_call_no_panic e c0 cl) as Hp.
  pose proof (run_call_not_hang e c0 cl Hc0 Hac1) as Hh.
  pose proof (run_call_cache e c0 cl Hc0) as Hcc.
  destruct (run_call e c0 cl) as [c' o] eqn:Er. simpl in Hp, Hh, Hcc.
  assert (Forall good (o :: run_session e c' r)) as Hall.
  { constructor; [split; assumption|]. apply IH; [exact Hcc | exact Hac]. }
  destruct o; try exact Hall. exfalso. apply Hh. reflexivity.
Qed.

Lemma run_good e calls : benign calls -> Forall good (run e calls).
Proof. apply run_session_good, no_placeholder_nil. Qed.

(* ------------------------------------------------------------------------- *)
(** * Iterator session over a graph of types *)

(* Invariant between lookups: no placeholder is left with its WaitGroup unreleased.  It holds
   for every failure policy that releases the placeholder ([fp_release]), whatever the types
   (cycles, unsupported kinds anywhere) and whatever was generated / failed before. *)
Definition nonpending (x : ph_state) : Prop := x <> PhPending.
Definition no_pending (s : isession) : Prop := Forall nonpending (is_phs s).

(* [s'] has the placeholders of [s], unchanged, plus released ones. *)
Definition grows (s s' : isession) : Prop :=
  exists ext, is_phs s' = is_phs s ++ ext /\ Forall nonpending ext.

Lemma grows_refl s : grows s s.
Proof. exists []. rewrite app_nil_r. split; [reflexivity | constructor]. Qed.

Lemma grows_trans s1 s2 s3 : grows s1 s2 -> grows s2 s3 -> grows s1 s3.
Proof.
  intros [e1 [H1 F1]] [e2 [H2 F2]]. exists (e1 ++ e2). split.
  - rewrite H2, H1, app_assoc. reflexivity.
  - apply Forall_app. split; assumption.
Qed.

Lemma grows_no_pending s s' : grows s s' -> no_pending s -> no_pending s'.
Proof.
  intros [ext [H F]] Hs. unfold no_pending. rewrite H. apply Forall_app. split; assumption.
Qed.

Lemma upd_app_here {A} (a b : list A) (y x : A) : upd (length a) x (a ++ y :: b) = a ++ x :: b.
Proof. induction a as [|h a IH]; simpl; [reflexivity | rewrite IH; reflexivity]. Qed.

Lemma ifinish_grows s0 s t it ext :
  is_phs s = is_phs s0 ++ PhPending :: ext -> Forall nonpending ext ->
  grows s0 (fst (ifinish s t (length (is_phs s0)) it)).
Proof.
  intros H F. unfold ifinish, grows. simpl. rewrite H, upd_app_here.
  eexists. split; [reflexivity|]. constructor; [discriminate | exact F].
Qed.

Lemma ifail_grows pol s0 s t ext :
  fp_release pol = true ->
  is_phs s = is_phs s0 ++ PhPending :: ext -> Forall nonpending ext ->
  grows s0 (fst (ifail pol s t (length (is_phs s0)))).
Proof.
  intros Hrel H F. unfold ifail, grows. simpl. rewrite Hrel, H, upd_app_here.
  eexists. split; [reflexivity|]. constructor; [discriminate | exact F].
Qed.

Lemma build_list_grows (b : nat -> isession -> isession * bres) :
  (forall t s s' r, b t s = (s', r) -> r <> BGiveUp -> grows s s') ->
  forall ts s s' lr, build_list b ts s = (s', lr) -> lr <> LGiveUp -> grows s s'.
Proof.
  intros Hb ts. induction ts as [|t ts IH]; intros s s' lr H Hlr; simpl in H.
  - injection H as <- _. apply grows_refl.
  - destruct (b t s) as [s1 r1] eqn:E1. destruct r1 as [x| |].
    + assert (grows s s1) as G1 by (eapply Hb; [exact E1 | discriminate]).
      destruct (build_list b ts s1) as [s2 lr2] eqn:E2.
      assert (lr2 <> LGiveUp -> grows s1 s2) as G2 by (intro; eapply IH; [exact E2 | assumption]).
      destruct lr2 as [xs| |]; injection H as <- <-.
      * eapply grows_trans; [exact G1 | apply G2; discriminate].
      * eapply grows_trans; [exact G1 | apply G2; discriminate].
      * exfalso. apply Hlr. reflexivity.
    + injection H as <- _. eapply Hb; [exact E1 | discriminate].
    + injection H as _ <-. exfalso. apply Hlr. reflexivity.
Qed.

(* A lookup (with everything it generates on the way, successfully or not) leaves only released
   placeholders behind, and does not touch the ones that were there. *)
Lemma ibuild_grows pol env :
  fp_release pol = true ->
  forall fuel t s s' r, ibuild pol env fuel t s = (s', r) -> r <> BGiveUp -> grows s s'.
Proof.
  intros Hrel fuel. induction fuel as [|k IH]; intros t s s' r H Hr; simpl in H.
  - destruct (icache_find (is_cache s) t).
    + injection H as <- _. apply grows_refl.
    + injection H as _ <-. exfalso. apply Hr. reflexivity.
  - destruct (icache_find (is_cache s) t).
    { injection H as <- _. apply grows_refl. }
    destruct (nth_error env t) as [d|].
    2:{ injection H as _ <-. exfalso. apply Hr. reflexivity. }
    set (s1 := {| is_cache := (t, RPh (length (is_phs s))) :: is_cache s; is_iters := is_iters s;
                  is_phs := is_phs s ++ [PhPending] |}) in *.
    assert (is_phs s1 = is_phs s ++ PhPending :: []) as H1 by reflexivity.
    destruct d as [| | |ts].
    + pose proof (ifinish_grows s s1 t IScalar [] H1 (Forall_nil _)) as G. rewrite H in G. exact G.
    + pose proof (ifail_grows pol s s1 t [] Hrel H1 (Forall_nil _)) as G. rewrite H in G. exact G.
    + pose proof (ifinish_grows s s1 t IIface [] H1 (Forall_nil _)) as G. rewrite H in G. exact G.
    + destruct (build_list (ibuild pol env k) ts s1) as [s2 lr] eqn:E.
      assert (lr <> LGiveUp -> exists ext, is_phs s2 = is_phs s ++ PhPending :: ext /\ Forall nonpending ext) as G2.
      { intro Hlr. destruct (build_list_grows (ibuild pol env k) (fun t0 a b c => IH t0 a b c) ts s1 s2 lr E Hlr) as [ext [He Fe]].
        exists ext. split; [|exact Fe]. rewrite He, H1, <- app_assoc. reflexivity. }
      destruct lr as [rs| |].
      * destruct G2 as [ext [He Fe]]; [discriminate|].
        pose proof (ifinish_grows s s2 t (IComp rs) ext He Fe) as G. rewrite H in G. exact G.
      * destruct G2 as [ext [He Fe]]; [discriminate|].
        pose proof (ifail_grows pol s s2 t ext Hrel He Fe) as G. rewrite H in G. exact G.
      * injection H as _ <-. exfalso. apply Hr. reflexivity.
Qed.

Lemma resolve_not_wait s r : no_pending s -> resolve s r <> RsWait.
Proof.
  intros Hs. unfold resolve. destruct r as [i|p].
  - destruct (nth_error (is_iters s) i); discriminate.
  - destruct (nth_error (is_phs s) p) as [[|i|]|] eqn:E; try discriminate.
    + exfalso. apply nth_error_In in E. unfold no_pending in Hs. rewrite Forall_forall in Hs.
      exact (Hs _ E eq_refl).
    + destruct (nth_error (is_iters s) i); discriminate.
Qed.

Definition call_safe (callf : iref -> vshape -> isession -> isession * tres) : Prop :=
  forall r v s s' o, no_pending s -> callf r v s = (s', o) -> o <> TGiveUp -> no_pending s' /\ o <> THang.

Lemma call_kids_safe callf : call_safe callf ->
  forall rs kids s s' o, no_pending s -> call_kids callf rs kids s = (s', o) -> o <> TGiveUp ->
                         no_pending s' /\ o <> THang.
Proof.
  intros Hc rs kids. induction kids as [|[i v] rest IH]; intros s s' o Hs H Ho; simpl in H.
  - injection H as <- <-. split; [exact Hs | discriminate].
  - destruct (nth_error rs i) as [r|].
    2:{ injection H as _ <-. exfalso. apply Ho. reflexivity. }
    destruct (callf r v s) as [s1 o1] eqn:E1.
    destruct o1.
    + destruct (Hc r v s s1 TOk Hs E1) as [Hs1 _]; [discriminate|]. eapply IH; eassumption.
    + injection H as <- <-. apply (Hc r v s s1 TPanic Hs E1). discriminate.
    + injection H as <- <-. apply (Hc r v s s1 THang Hs E1). discriminate.
    + injection H as _ <-. exfalso. apply Ho. reflexivity.
Qed.

(* Iterating a value never waits on a placeholder and leaves none unreleased. *)
Lemma icall_safe pol env : fp_release pol = true -> forall fuel, call_safe (icall pol env fuel).
Proof.
  intros Hrel fuel. induction fuel as [|k IH]; intros r v s s' o Hs H Ho; cbn [icall] in H.
  - injection H as _ <-. exfalso. apply Ho. reflexivity.
  - pose proof (resolve_not_wait s r Hs) as Hw.
    destruct (resolve s r) as [it| | |].
    + destruct it as [| |rs]; destruct v as [|kids|t v'];
        try (injection H as <- <-; split; [exact Hs | discriminate]);
        try (injection H as _ <-; exfalso; apply Ho; reflexivity).
      * destruct (ibuild pol env (build_fuel env) t s) as [s1 br] eqn:E.
        destruct br as [r'| |].
        -- assert (no_pending s1) as Hs1.
           { eapply grows_no_pending; [|exact Hs]. eapply ibuild_grows; [exact Hrel | exact E | discriminate]. }
           exact (IH r' v' s1 s' o Hs1 H Ho).
        -- injection H as <- <-. split; [|discriminate].
           eapply grows_no_pending; [|exact Hs]. eapply ibuild_grows; [exact Hrel | exact E | discriminate].
        -- injection H as _ <-. exfalso. apply Ho. reflexivity.
      * eapply call_kids_safe; [exact IH | exact Hs | exact H | exact Ho].
    + exfalso. apply Hw. reflexivity.
    + injection H as <- <-. split; [exact Hs | discriminate].
    + injection H as _ <-. exfalso. apply Ho. reflexivity.
Qed.

Lemma no_pending_empty : no_pending isession_empty.
Proof. constructor. Qed.

Lemma tmarshal_body_safe pol env fuel s t v s' o :
  fp_release pol = true -> no_pending s ->
  tmarshal_body pol env fuel s t v = (s', Some o) -> no_pending s' /\ o <> Hang.
Proof.
  intros Hrel Hs. unfold tmarshal_body.
  destruct (ibuild pol env (build_fuel env) t s) as [s1 br] eqn:E.
  destruct br as [r| |]; [| |discriminate].
  - assert (no_pending s1) as Hs1.
    { eapply grows_no_pending; [|exact Hs]. eapply ibuild_grows; [exact Hrel | exact E | discriminate]. }
    destruct (icall pol env fuel r v s1) as [s2 o2] eqn:E2.
    destruct o2; try discriminate; intro H; injection H as <- <-.
    + split; [|discriminate]. apply (icall_safe pol env Hrel fuel r v s1 s2 TOk Hs1 E2). discriminate.
    + split; [|discriminate]. apply (icall_safe pol env Hrel fuel r v s1 s2 TPanic Hs1 E2). discriminate.
    + exfalso. apply (icall_safe pol env Hrel fuel r v s1 s2 THang Hs1 E2); [discriminate | reflexivity].
  - intro H. injection H as <- <-. split; [|discriminate].
    eapply grows_no_pending; [|exact Hs]. eapply ibuild_grows; [exact Hrel | exact E | discriminate].
Qed.

Definition tgood (o : option (outcome unit)) : Prop :=
  match o with Some o' => good o' | None => True end.

(* Every session of Marshal calls on values over ANY graph of types — cycles, unsupported kinds
   anywhere, any order of calls, any reuse after failed calls — on every entry point: every call
   the model evaluates returns a result or an error, provided a failed generation releases its
   placeholder. *)
Lemma run_typed_session_good pol e env fuel :
  fp_release pol = true ->
  forall calls s, no_pending s -> Forall tgood (run_typed_session pol e env fuel s calls).
Proof.
  intros Hrel calls. induction calls as [|[t v] rest IH]; intros s Hs; simpl; [constructor|].
  match goal with |- context [tmarshal_body pol env fuel ?x t v] => set (s0 := x) end.
  assert (no_pending s0) as Hs0 by (unfold s0; destruct (fresh_per_call e); [apply no_pending_empty | exact Hs]).
  destruct (tmarshal_body pol env fuel s0 t v) as [s' o] eqn:E.
  destruct o as [o'|]; [|constructor; [exact I | constructor]].
  destruct (tmarshal_body_safe pol env fuel s0 t v s' o' Hrel Hs0 E) as [Hs' Hh].
  pose proof (run_chain_no_panic e [] 0 (fun _ : fmt => o')) as Hp.
  assert (run_chain e [] 0 (fun _ : fmt => o') <> Hang) as Hnh.
  { intro Hx. apply run_chain_hang in Hx as [f Hx]. exact (Hh Hx). }
  destruct (run_chain e [] 0 (fun _ : fmt => o')) as [u| | |] eqn:Ew;
    try (constructor; [split; [exact Hp | exact Hnh] | apply IH; exact Hs']).
  exfalso. apply Hnh. reflexivity.
Qed.

Lemma run_typed_good_released pol e env fuel calls :
  fp_release pol = true -> Forall tgood (run_typed pol e env fuel calls).
Proof. intro Hrel. apply run_typed_session_good; [exact Hrel | apply no_pending_empty]. Qed.

Lemma run_typed_good e env fuel calls : Forall tgood (run_typed policy_current e env fuel calls).
Proof. apply run_typed_good_released. reflexivity. Qed.

(* What releasing buys.  type T struct { Next *T; Ch chan int }: marshaling a T by value fails (chan)
   after the iterator of *T has been cached with T's placeholder inside; marshaling a *T next calls it. *)
Lemma typed_witness_current :
  run_typed policy_current CBEMarshaler_Marshal rec_env 8 rec_calls = [Some Err; Some Err].
Proof. vm_compute. reflexivity. Qed.

(* A failure path that deletes the placeholder from the cache but does not release it ... *)
Lemma unreleased_placeholder_waits :
  run_typed policy_delete_only CBEMarshaler_Marshal rec_env 8 rec_calls = [Some Err; Some Hang]
  /\ run_typed policy_delete_only CTEMarshaler_MarshalToDocument rec_env 8 rec_calls = [Some Err; Some Hang]
  (* ... is invisible to one-shot calls (fresh session) and to repeating the same call: *)
  /\ run_typed policy_delete_only MarshalToCBEDocument rec_env 8 rec_calls = [Some Err; Some Err]
  /\ run_typed policy_delete_only CBEMarshaler_Marshal rec_env 8 [(0, VNode []); (0, VNode [])]%nat = [Some Err; Some Err]
  /\ run_typed policy_delete_only CBEMarshaler_Marshal rec_env 8 [(1, VNode [(0, VNode [])]); (1, VNode [(0, VNode [])])]%nat = [Some Err; Some Err].
Proof. vm_compute. repeat split. Qed.

(* The protocol before commit d2cf257 (placeholder neither deleted nor released) already waits
   on the second call with the same type. *)
Lemma typed_old_protocol_waits :
  run_typed policy_before_d2cf257 CBEMarshaler_Marshal rec_env 8 [(0, VNode []); (0, VNode [])]%nat = [Some Err; Some Hang].
Proof. vm_compute. reflexivity. Qed.

(* ------------------------------------------------------------------------- *)
(** * The CBE fragment: the main decode loop terminates *)

Lemma skipn_length_le {A} n (l : list A) : (length (skipn n l) <= length l)%nat.
Proof. rewrite skipn_length. lia. Qed.

Lemma frag_next_consumes d oe rest :
  frag_next d = FsEvent oe rest -> (length rest < length d)%nat.
Proof.
  unfold frag_next. destruct d as [|code r]; [discriminate|].
  repeat match goal with
         | |- context [if ?b then _ else _] => destruct b
         end; try discriminate; try (intro H; injection H as _ <-; simpl; lia).
  destruct (fixed_payload code) as [n|]; [|discriminate].
  destruct (Nat.leb n (length r)); [|discriminate].
  intro H. injection H as _ <-. simpl. pose proof (skipn_length_le n r). lia.
Qed.

Lemma frag_loop_returns fuel : forall d st, (length d <= fuel)%nat -> exists r, frag_loop fuel d st = Ok r.
Proof.
  induction fuel as [|k IH]; intros d st Hlen.
  - simpl. destruct (frag_next d) as [|oe rest| |] eqn:E; try (eexists; reflexivity).
    apply frag_next_consumes in E. lia.
  - simpl. destruct (frag_next d) as [|oe rest| |] eqn:E; try (eexists; reflexivity).
    apply frag_next_consumes in E.
    destruct (Nat.ltb_spec (length rest) (length d)) as [_|Hge]; [|lia].
    destruct oe as [e|].
    + destruct (on_event e st); try (eexists; reflexivity). apply IH. lia.
    + apply IH. lia.
Qed.

Lemma frag_decode_returns d : exists r, frag_decode d = Ok r.
Proof.
  unfold frag_decode. destruct d as [|sig r]; [eexists; reflexivity|].
  destruct (negb (sig =? cbe_signature_byte)); [eexists; reflexivity|].
  destruct r as [|v body]; [eexists; reflexivity|].
  destruct (v <? 128); [|eexists; reflexivity]. apply frag_loop_returns. lia.
Qed.

Lemma frag_decode_not_hang d : frag_decode d <> Hang.
Proof. destruct (frag_decode_returns d) as [r E]. rewrite E. discriminate. Qed.

Lemma frag_unmarshal_good e d o : frag_unmarshal e d = Some o -> good o.
Proof.
  unfold frag_unmarshal. destruct (negb (reaches_cbe e d)); [discriminate|].
  destruct (frag_decode_returns d) as [[st failed|] E]; rewrite E; [|discriminate].
  intro H. injection H as <-. split.
  - apply run_chain_no_panic.
  - intro H. apply run_chain_hang in H as [f H]. destruct failed; [|discriminate].
    destruct (artificially_terminate_returns st) as [st' [Et _]]. rewrite Et in H. discriminate.
Qed.

(* ------------------------------------------------------------------------- *)
(** * The unrestricted property and what still refutes it *)

Definition full_property : Prop := forall e calls, Forall good (run e calls).

Lemma not_good_hang : ~ good Hang.
Proof. intros [_ H]. apply H. reflexivity. Qed.

Lemma cyclic_value_hangs : run MarshalToCBEDocument [CallMarshal cyclic_value] = [Hang].
Proof. vm_compute. reflexivity. Qed.

Lemma cyclic_value_refutes : ~ Forall good (run MarshalToCBEDocument [CallMarshal cyclic_value]).
Proof.
  rewrite cyclic_value_hangs. intro H. inversion H as [|x l Hx _]. exact (not_good_hang Hx).
Qed.

Lemma full_property_false : ~ full_property.
Proof. intro H. exact (cyclic_value_refutes (H _ _)). Qed.

(* The repaired witnesses now return errors. *)
Lemma repaired_witnesses :
  run CEDecoder_DecodeDocument [CallDecode [] 0 (fun _ => false)] = [Err]
  /\ run CBEMarshaler_Marshal [CallMarshal unsupported_value; CallMarshal unsupported_value] = [Err; Err]
  /\ run CBEUnmarshaler_Unmarshal
        [CallUnmarshal [129] 3 7 false (fun _ => {| d_trace := [SVal]; d_fails := false |});
         CallUnmarshal [129] 3 7 false (fun _ => {| d_trace := [SVal]; d_fails := false |});
         CallUnmarshal [129] 3 8 true (fun _ => {| d_trace := [SVal]; d_fails := false |})] = [Err; Err; Ok tt].
Proof. vm_compute. repeat split. Qed.

(* Non-vacuity of [benign]: failing documents inside an edge / at a node value, unsupported
   types, reuse of the object. *)
Lemma benign_example :
  benign [CallUnmarshal [129] 3 1 true (fun _ => {| d_trace := [SList; SEdge; SVal]; d_fails := true |});
          CallUnmarshal [129] 3 2 false (fun _ => {| d_trace := [SNode]; d_fails := true |});
          CallUnmarshal [129] 3 2 false (fun _ => {| d_trace := [SVal]; d_fails := false |});
          CallMarshal unsupported_value; CallMarshal unsupported_value; CallDecode [] 0 (fun _ => false)].
Proof. reflexivity. Qed.
