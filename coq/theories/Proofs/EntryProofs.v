(* Proofs about CE.Model.Entry (C07). *)
From Coq Require Import String Ascii ZifyNat ZifyN ZifyBool.
From CE Require Import Model.Api Model.Entry.
Open Scope N_scope.

(* ------------------------------------------------------------------------- *)
(** * Loops with a measure *)

Section Loop.
  Context {S : Type} (mu : S -> nat) (step : S -> option S).

  (* If every iteration decreases the measure, enough fuel = the measure: the
     loop returns, whatever the starting state. *)
  Lemma loop_returns :
    (forall s s', step s = Some s' -> (mu s' < mu s)%nat) ->
    forall fuel s, (mu s <= fuel)%nat -> exists s', loop mu step fuel s = Ok s' /\ step s' = None.
  Proof.
    intros Hdec fuel; induction fuel as [|k IH]; intros s Hs.
    - simpl. destruct (step s) as [s'|] eqn:E.
      + apply Hdec in E. lia.
      + exists s. split; [reflexivity | exact E].
    - simpl. destruct (step s) as [s'|] eqn:E.
      + pose proof (Hdec _ _ E) as Hlt.
        destruct (Nat.ltb_spec (mu s') (mu s)) as [_|Hge]; [|lia].
        apply IH. lia.
      + exists s. split; [reflexivity | exact E].
  Qed.

  Lemma run_loop_returns :
    (forall s s', step s = Some s' -> (mu s' < mu s)%nat) ->
    forall s, exists s', run_loop mu step s = Ok s' /\ step s' = None.
  Proof. intros Hdec s. apply loop_returns; [exact Hdec | lia]. Qed.

  (* A state that the body leaves unchanged is an infinite loop. *)
  Lemma loop_fixpoint_hangs fuel s : step s = Some s -> loop mu step fuel s = Hang.
  Proof.
    intro E. destruct fuel; simpl; rewrite E; rewrite Nat.ltb_irrefl; reflexivity.
  Qed.
End Loop.

(* ------------------------------------------------------------------------- *)
(** * ArtificiallyTerminate *)

Lemma deliver_length r : (length (deliver r) <= Datatypes.S (length r))%nat /\ (length (deliver r) <= length r + 1)%nat.
Proof.
  induction r as [|f r IH]; simpl; [lia|].
  destruct f as [c| |k|n|[|]]; simpl; try lia.
  destruct n as [|[|m]]; simpl; lia.
Qed.

Lemma deliver_length_le r : (length (deliver r) <= Datatypes.S (length r))%nat.
Proof. apply deliver_length. Qed.

Lemma artificially_end_length st : (length (artificially_end st) <= length st)%nat.
Proof.
  destruct st as [|f r]; simpl; [lia|].
  destruct f as [c| |k|n|b]; simpl; try lia; apply deliver_length_le.
Qed.

(* The loop of commit 5799b55: the stack depth decreases in every iteration. *)
Lemma terminate_step_decreases st st' :
  terminate_step st = Some st' -> (length st' < length st)%nat.
Proof.
  destruct st as [|f [|g r]]; try discriminate.
  change (terminate_step (f :: g :: r))
    with (Some (if Nat.ltb (length (artificially_end (f :: g :: r))) (length (f :: g :: r))
                then artificially_end (f :: g :: r) else tl (artificially_end (f :: g :: r)))).
  assert (2 <= length (f :: g :: r))%nat as H2 by (simpl; lia).
  revert H2. generalize (artificially_end_length (f :: g :: r)).
  generalize (artificially_end (f :: g :: r)) as a.
  generalize (f :: g :: r) as s0.
  intros s0 a Hle H2 E. injection E as <-.
  destruct (Nat.ltb_spec (length a) (length s0)) as [Hlt|Hge]; [exact Hlt|].
  destruct a as [|x t]; simpl in *; lia.
Qed.

Lemma terminate_step_none st : terminate_step st = None -> (length st <= 1)%nat.
Proof. destruct st as [|f [|g r]]; simpl; intro E; try discriminate; lia. Qed.

Lemma artificially_terminate_returns st :
  exists st', artificially_terminate st = Ok st' /\ (length st' <= 1)%nat.
Proof.
  destruct (run_loop_returns (@length frame) terminate_step terminate_step_decreases st) as [st' [E N]].
  exists st'. split; [exact E | apply terminate_step_none, N].
Qed.

Lemma artificially_terminate_not_hang st : artificially_terminate st <> Hang.
Proof. destruct (artificially_terminate_returns st) as [st' [E _]]. rewrite E. discriminate. Qed.

(* Before the repair: an edge builder, or a node builder waiting for its value,
   on top of a stack of depth > 1 is never removed. *)
Lemma old_terminate_spins_on_edge (mu : stack -> nat) n r :
  r <> [] -> run_loop mu terminate_step_old (FEdge n :: r) = Hang.
Proof.
  intro Hr. apply loop_fixpoint_hangs. destruct r as [|g r]; [congruence | reflexivity].
Qed.

Lemma old_terminate_spins_on_node (mu : stack -> nat) b r :
  r <> [] -> run_loop mu terminate_step_old (FNode b :: r) = Hang.
Proof.
  intro Hr. apply loop_fixpoint_hangs. destruct r as [|g r]; [congruence | reflexivity].
Qed.

(* ------------------------------------------------------------------------- *)
(** * Recover wrappers *)

Section Wrap.
  Context {R : Type}.

  Lemma wrap_hang (s : fn_shape) len (inner : outcome R) : wrap s len inner = Hang -> inner = Hang.
  Proof.
    unfold wrap. destruct (existsb (op_fires len) (fn_unguarded s)); [discriminate|].
    destruct inner; try discriminate; [|reflexivity]. destruct (fn_recover s); discriminate.
  Qed.

  Lemma wrap_chain_hang chain len (inner : outcome R) : wrap_chain chain len inner = Hang -> inner = Hang.
  Proof.
    induction chain as [|f r IH]; simpl; [tauto|]. intro H. apply wrap_hang in H. auto.
  Qed.

  (* [quiet]: no unguarded operation of the function fires on a document of this length. *)
  Definition quiet (s : fn_shape) (len : N) : bool := negb (existsb (op_fires len) (fn_unguarded s)).

  Lemma wrap_no_panic (s : fn_shape) len (inner : outcome R) :
    quiet s len = true -> (fn_recover s = true \/ inner <> Panic) -> wrap s len inner <> Panic.
  Proof.
    unfold quiet, wrap. intros Hq H. apply negb_true_iff in Hq. rewrite Hq.
    destruct inner; try discriminate.
    destruct H as [H|H]; [rewrite H; discriminate | congruence].
  Qed.

  (* Walking a chain from the outside: every function is quiet, and either one of
     them recovers (everything inside is then covered) or the end is reached. *)
  Fixpoint chain_safe (chain : list string) (len : N) : bool :=
    match chain with
    | [] => false
    | f :: r => quiet (shape_of f) len && (fn_recover (shape_of f) || chain_safe r len)
    end.

  Lemma chain_safe_no_panic chain len (inner : outcome R) :
    chain_safe chain len = true -> wrap_chain chain len inner <> Panic.
  Proof.
    induction chain as [|f r IH]; simpl; [discriminate|].
    intro H. apply andb_true_iff in H as [Hq H]. apply wrap_no_panic; [exact Hq|].
    apply orb_true_iff in H as [H|H]; [left; exact H | right; apply IH, H].
  Qed.
End Wrap.

(* The unguarded operations of a function that fire on no document at all
   ([static]): none at all. *)
Definition static_quiet (f : string) : bool :=
  match fn_unguarded (shape_of f) with [] => true | _ => false end.

Fixpoint chain_static_safe (chain : list string) : bool :=
  match chain with
  | [] => false
  | f :: r => static_quiet f && (fn_recover (shape_of f) || chain_static_safe r)
  end.

Lemma static_quiet_quiet f len : static_quiet f = true -> quiet (shape_of f) len = true.
Proof.
  unfold static_quiet, quiet. destruct (fn_unguarded (shape_of f)); [reflexivity | discriminate].
Qed.

Lemma chain_static_safe_safe chain len : chain_static_safe chain = true -> chain_safe chain len = true.
Proof.
  induction chain as [|f r IH]; simpl; [tauto|].
  intro H. apply andb_true_iff in H as [Hq H]. rewrite (static_quiet_quiet _ _ Hq). simpl.
  apply orb_true_iff in H as [H|H]; [rewrite H; reflexivity | rewrite (IH H); apply orb_true_r].
Qed.

(* Finite sweep over the 24 entry points and the shapes regenerated from the
   source: every chain is covered by a recover and no function on it has a
   partial operation outside its recover. *)
Definition ep_static_safe (e : entry_point) : bool :=
  match route_of e with
  | Direct outer f dv => chain_static_safe (outer ++ specific_chain (kind_of e) f dv)
  | Universal outer unm dv =>
      static_quiet outer
      && chain_static_safe (specific_chain (kind_of e) FCbe dv)
      && chain_static_safe (specific_chain (kind_of e) FCte dv)
  end.

Lemma static_safe_sweep : forallb ep_static_safe all_entry_points = true.
Proof. vm_compute. reflexivity. Qed.

Lemma all_entry_points_complete e : In e all_entry_points.
Proof. destruct e; simpl; tauto. Qed.

Lemma ep_static_safe_all e : ep_static_safe e = true.
Proof.
  pose proof static_safe_sweep as H. rewrite forallb_forall in H. apply H, all_entry_points_complete.
Qed.

Section RunChain.
  Context {R : Type}.

  Lemma universal_body_no_panic (k : ep_kind) f dv len (inner : fmt -> outcome R) :
    chain_static_safe (specific_chain k FCbe dv) = true ->
    chain_static_safe (specific_chain k FCte dv) = true ->
    match f with
    | FNone => Err
    | _ => wrap_chain (specific_chain k f dv) len (inner f)
    end <> Panic.
  Proof.
    intros Hb Ht. destruct f; try discriminate;
      apply chain_safe_no_panic, chain_static_safe_safe; assumption.
  Qed.

  (* No entry point lets a panic escape, whatever its innermost body does. *)
  Lemma run_chain_no_panic e head len (inner : fmt -> outcome R) :
    run_chain e head len inner <> Panic.
  Proof.
    pose proof (ep_static_safe_all e) as Hs.
    unfold run_chain, ep_static_safe in *. destruct (route_of e) as [outer f dv | outer unm dv].
    - apply chain_safe_no_panic, chain_static_safe_safe, Hs.
    - apply andb_true_iff in Hs as [Hs Ht]. apply andb_true_iff in Hs as [Hq Hb].
      apply wrap_no_panic; [apply static_quiet_quiet, Hq|]. right.
      apply universal_body_no_panic; assumption.
  Qed.

  Lemma run_chain_hang e head len (inner : fmt -> outcome R) :
    run_chain e head len inner = Hang -> exists f, inner f = Hang.
  Proof.
    unfold run_chain. destruct (route_of e) as [outer f dv | outer unm dv]; intro H.
    - exists f. eapply wrap_chain_hang, H.
    - apply wrap_hang in H.
      destruct (match head with [] => FNone | b :: _ => table_lookup (if unm then unmarshaler_table else decoder_table) b end) as [| |] eqn:E;
        try discriminate; eexists; eapply wrap_chain_hang, H.
  Qed.
End RunChain.

(* The hand-written chains follow the extracted call graph. *)
Lemma chains_in_callgraph :
  forallb (fun e =>
    match route_of e with
    | Direct outer f dv => chain_in_callgraph (outer ++ specific_chain (kind_of e) f dv)
    | Universal outer _ dv =>
        chain_in_callgraph (outer :: specific_chain (kind_of e) FCbe dv)
        && chain_in_callgraph (outer :: specific_chain (kind_of e) FCte dv)
    end) all_entry_points = true.
Proof. vm_compute. reflexivity. Qed.

(* ------------------------------------------------------------------------- *)
(** * Innermost bodies *)

Definition no_placeholder (c : cache) : Prop := forall t, cache_find c t <> Some Placeholder.

Lemma no_placeholder_nil : no_placeholder [].
Proof. intros t. discriminate. Qed.

(* No lookup stores a placeholder, and without a stored placeholder no lookup waits. *)
Lemma cache_get_keeps c t sup :
  no_placeholder c ->
  no_placeholder (fst (cache_get c t sup)) /\ snd (cache_get c t sup) <> Waits.
Proof.
  intro Hc. unfold cache_get. destruct (cache_find c t) as [[|]|] eqn:E.
  - split; [exact Hc | discriminate].
  - exfalso. exact (Hc t E).
  - destruct sup; simpl; (split; [|discriminate]); [|exact Hc].
    intros t'. simpl. destruct (N.eqb t' t); [discriminate | apply Hc].
Qed.

(* A failed build leaves the cache as it was ... *)
Lemma cache_get_unsupported_unchanged c t :
  cache_find c t = None -> cache_get c t false = (c, BuildPanics).
Proof. intro E. unfold cache_get. rewrite E. reflexivity. Qed.

(* ... whereas before commit d2cf257 the next lookup of the same type waited forever. *)
Lemma old_cache_poisoned c t :
  cache_find c t = None ->
  snd (cache_get_old c t false) = BuildPanics /\
  snd (cache_get_old (fst (cache_get_old c t false)) t false) = Waits.
Proof.
  intro E. unfold cache_get_old. rewrite E. simpl. rewrite N.eqb_refl. split; reflexivity.
Qed.

(* Unmarshal: with no placeholder waiting for the template type the call returns. *)
Lemma unmarshal_body_not_hang c t sup obs :
  snd (cache_get c t sup) <> Waits -> snd (unmarshal_body c t sup obs) <> Hang.
Proof.
  unfold unmarshal_body. destruct (cache_get c t sup) as [c' l]. simpl. intro Hl.
  destruct l; try congruence.
  - destruct (feed (d_trace obs) [FTop false]) as [st stop].
    destruct (d_fails obs || match stop with AllConsumed => false | _ => true end).
    + destruct (artificially_terminate_returns st) as [st' [E _]]. rewrite E. simpl. discriminate.
    + simpl. discriminate.
  - simpl. discriminate.
Qed.

Lemma unmarshal_body_cache c t sup obs :
  no_placeholder c -> no_placeholder (fst (unmarshal_body c t sup obs)).
Proof.
  intro Hc. unfold unmarshal_body.
  destruct (cache_get_keeps c t sup Hc) as [Hn Hw].
  destruct (cache_get c t sup) as [c' l]. simpl in *.
  destruct l; try exact Hn; [|congruence].
  destruct (feed (d_trace obs) [FTop false]) as [st stop].
  destruct (d_fails obs || match stop with AllConsumed => false | _ => true end); simpl.
  - destruct (artificially_terminate st); exact Hn.
  - exact Hn.
Qed.

Lemma marshal_body_not_hang c v :
  snd (cache_get c (v_type v) (v_supported v)) <> Waits -> v_cyclic v = false ->
  snd (marshal_body c v) <> Hang.
Proof.
  unfold marshal_body. destruct (cache_get c (v_type v) (v_supported v)) as [c' l]. simpl.
  intros Hl Hc. destruct l; try congruence; simpl; [rewrite Hc|]; discriminate.
Qed.

Lemma marshal_body_cache c v :
  no_placeholder c -> no_placeholder (fst (marshal_body c v)).
Proof.
  intros Hc. unfold marshal_body.
  destruct (cache_get_keeps c (v_type v) (v_supported v) Hc) as [Hn Hw].
  destruct (cache_get c (v_type v) (v_supported v)) as [c' l]. simpl in *. destruct l; exact Hn.
Qed.

(* ------------------------------------------------------------------------- *)
(** * Calls and sessions *)

Lemma run_call_no_panic e c cl : snd (run_call e c cl) <> Panic.
Proof.
  unfold run_call.
  destruct (kind_of e) eqn:K, cl as [head len fails | head len t sup obs | v]; simpl; try discriminate.
  - destruct (chain_of e head).
    + destruct (unmarshal_body c t sup (obs _)) as [c' o]. simpl. apply run_chain_no_panic.
    + simpl. apply run_chain_no_panic.
  - apply run_chain_no_panic.
  - destruct (marshal_body c v) as [c' o]. simpl. apply run_chain_no_panic.
Qed.

(* A call returns when no placeholder is stored and the value is acyclic. *)
Lemma run_call_not_hang e c cl :
  no_placeholder c -> call_acyclic cl = true -> snd (run_call e c cl) <> Hang.
Proof.
  intros Hc Hac. unfold run_call.
  destruct (kind_of e) eqn:K, cl as [head len fails | head len t sup obs | v]; simpl; try discriminate.
  - destruct (chain_of e head).
    + pose proof (unmarshal_body_not_hang c t sup
                   (obs match route_of e with
                        | Direct _ f _ => f
                        | Universal _ _ _ => match head with [] => FNone | b :: _ => table_lookup unmarshaler_table b end
                        end) (proj2 (cache_get_keeps c t sup Hc))) as Hb.
      destruct (unmarshal_body c t sup _) as [c' o]. simpl in *.
      intro H. apply run_chain_hang in H as [f H]. congruence.
    + simpl. intro H. apply run_chain_hang in H as [f H]. discriminate.
  - intro H. apply run_chain_hang in H as [f H]. unfold decode_body in H. destruct (fails f); discriminate.
  - simpl in Hac. apply negb_true_iff in Hac.
    pose proof (marshal_body_not_hang c v (proj2 (cache_get_keeps c _ _ Hc)) Hac) as Hb.
    destruct (marshal_body c v) as [c' o]. simpl in *.
    intro H. apply run_chain_hang in H as [f H]. congruence.
Qed.

Lemma run_call_cache e c cl : no_placeholder c -> no_placeholder (fst (run_call e c cl)).
Proof.
  intros Hc. unfold run_call.
  destruct (kind_of e), cl as [head len fails | head len t sup obs | v]; simpl; try exact Hc.
  - destruct (chain_of e head); [|exact Hc].
    pose proof (unmarshal_body_cache c t sup
                 (obs match route_of e with
                      | Direct _ f _ => f
                      | Universal _ _ _ => match head with [] => FNone | b :: _ => table_lookup unmarshaler_table b end
                      end) Hc) as Hb.
    destruct (unmarshal_body c t sup _) as [c' o]. exact Hb.
  - pose proof (marshal_body_cache c v Hc) as Hb.
    destruct (marshal_body c v) as [c' o]. exact Hb.
Qed.

(* Every session of acyclic calls, on every entry point, with any mixture of
   supported and unsupported types and any reuse of the object: every call returns
   a result or an error. *)
Lemma run_session_good e calls :
  forall c, no_placeholder c -> benign calls -> Forall good (run_session e c calls).
Proof.
  induction calls as [|cl r IH]; intros c Hc Hac; simpl; [constructor|].
  unfold benign in Hac. simpl in Hac. apply andb_true_iff in Hac as [Hac1 Hac].
  match goal with |- context [run_call e ?x cl] => set (c0 := x) end.
  assert (no_placeholder c0) as Hc0 by (unfold c0; destruct (fresh_per_call e); [apply no_placeholder_nil | exact Hc]).
  pose proof (run_call_no_panic e c0 cl) as Hp.
  pose proof (run_call_not_hang e c0 cl Hc0 Hac1) as Hh.
  pose proof (run_call_cache e c0 cl Hc0) as Hcc.
  destruct (run_call e c0 cl) as [c' o] eqn:Er. simpl in Hp, Hh, Hcc.
  assert (Forall good (o :: run_session e c' r)) as Hall.
  { constructor; [split; assumption|]. apply IH; [exact Hcc | exact Hac]. }
  destruct o; try exact Hall. exfalso. apply Hh. reflexivity.
Qed.

Lemma run_good e calls : benign calls -> Forall good (run e calls).
Proof. apply run_session_good, no_placeholder_nil. Qed.

(* ------------------------------------------------------------------------- *)
(** * The CBE fragment: the main decode loop terminates *)

Lemma skipn_length_le {A} n (l : list A) : (length (skipn n l) <= length l)%nat.
Proof. rewrite skipn_length. lia. Qed.

Lemma frag_next_consumes d oe rest :
  frag_next d = FsEvent oe rest -> (length rest < length d)%nat.
Proof.
  unfold frag_next. destruct d as [|code r]; [discriminate|].
  repeat match goal with
         | |- context [if ?b then _ else _] => destruct b
         end; try discriminate; try (intro H; injection H as _ <-; simpl; lia).
  destruct (fixed_payload code) as [n|]; [|discriminate].
  destruct (Nat.leb n (length r)); [|discriminate].
  intro H. injection H as _ <-. simpl. pose proof (skipn_length_le n r). lia.
Qed.

Lemma frag_loop_returns fuel : forall d st, (length d <= fuel)%nat -> exists r, frag_loop fuel d st = Ok r.
Proof.
  induction fuel as [|k IH]; intros d st Hlen.
  - simpl. destruct (frag_next d) as [|oe rest| |] eqn:E; try (eexists; reflexivity).
    apply frag_next_consumes in E. lia.
  - simpl. destruct (frag_next d) as [|oe rest| |] eqn:E; try (eexists; reflexivity).
    apply frag_next_consumes in E.
    destruct (Nat.ltb_spec (length rest) (length d)) as [_|Hge]; [|lia].
    destruct oe as [e|].
    + destruct (on_event e st); try (eexists; reflexivity). apply IH. lia.
    + apply IH. lia.
Qed.

Lemma frag_decode_returns d : exists r, frag_decode d = Ok r.
Proof.
  unfold frag_decode. destruct d as [|sig r]; [eexists; reflexivity|].
  destruct (negb (sig =? cbe_signature_byte)); [eexists; reflexivity|].
  destruct r as [|v body]; [eexists; reflexivity|].
  destruct (v <? 128); [|eexists; reflexivity]. apply frag_loop_returns. lia.
Qed.

Lemma frag_decode_not_hang d : frag_decode d <> Hang.
Proof. destruct (frag_decode_returns d) as [r E]. rewrite E. discriminate. Qed.

Lemma frag_unmarshal_good e d o : frag_unmarshal e d = Some o -> good o.
Proof.
  unfold frag_unmarshal. destruct (negb (reaches_cbe e d)); [discriminate|].
  destruct (frag_decode_returns d) as [[st failed|] E]; rewrite E; [|discriminate].
  intro H. injection H as <-. split.
  - apply run_chain_no_panic.
  - intro H. apply run_chain_hang in H as [f H]. destruct failed; [|discriminate].
    destruct (artificially_terminate_returns st) as [st' [Et _]]. rewrite Et in H. discriminate.
Qed.

(* ------------------------------------------------------------------------- *)
(** * The unrestricted property and what still refutes it *)

Definition full_property : Prop := forall e calls, Forall good (run e calls).

Lemma not_good_hang : ~ good Hang.
Proof. intros [_ H]. apply H. reflexivity. Qed.

Lemma cyclic_value_hangs : run MarshalToCBEDocument [CallMarshal cyclic_value] = [Hang].
Proof. vm_compute. reflexivity. Qed.

Lemma cyclic_value_refutes : ~ Forall good (run MarshalToCBEDocument [CallMarshal cyclic_value]).
Proof.
  rewrite cyclic_value_hangs. intro H. inversion H as [|x l Hx _]. exact (not_good_hang Hx).
Qed.

Lemma full_property_false : ~ full_property.
Proof. intro H. exact (cyclic_value_refutes (H _ _)). Qed.

(* The repaired witnesses now return errors. *)
Lemma repaired_witnesses :
  run CEDecoder_DecodeDocument [CallDecode [] 0 (fun _ => false)] = [Err]
  /\ run CBEMarshaler_Marshal [CallMarshal unsupported_value; CallMarshal unsupported_value] = [Err; Err]
  /\ run CBEUnmarshaler_Unmarshal
        [CallUnmarshal [129] 3 7 false (fun _ => {| d_trace := [SVal]; d_fails := false |});
         CallUnmarshal [129] 3 7 false (fun _ => {| d_trace := [SVal]; d_fails := false |});
         CallUnmarshal [129] 3 8 true (fun _ => {| d_trace := [SVal]; d_fails := false |})] = [Err; Err; Ok tt].
Proof. vm_compute. repeat split. Qed.

(* Non-vacuity of [benign]: failing documents inside an edge / at a node value, unsupported
   types, reuse of the object. *)
Lemma benign_example :
  benign [CallUnmarshal [129] 3 1 true (fun _ => {| d_trace := [SList; SEdge; SVal]; d_fails := true |});
          CallUnmarshal [129] 3 2 false (fun _ => {| d_trace := [SNode]; d_fails := true |});
          CallUnmarshal [129] 3 2 false (fun _ => {| d_trace := [SVal]; d_fails := false |});
          CallMarshal unsupported_value; CallMarshal unsupported_value; CallDecode [] 0 (fun _ => false)].
Proof. reflexivity. Qed.
