(* C24 — proofs about Model/CteLit.v: the route the listener takes through the
   Go parsers computes, on every spelling of the grammar outside the named
   defect classes, the value the spelling denotes. *)
From CE Require Import Model.CteLit.
From CE Require Base.Utf8.
From Coq Require Import ZifyN ZifyNat ZifyBool.
Open Scope N_scope.

#[local] Arguments N.pow : simpl never.
#[local] Arguments N.mul : simpl never.
#[local] Arguments N.add : simpl never.
#[local] Arguments N.sub : simpl never.
#[local] Arguments N.div : simpl never.
#[local] Arguments N.modulo : simpl never.
#[local] Arguments Z.pow : simpl never.
#[local] Arguments Z.mul : simpl never.
#[local] Arguments Z.add : simpl never.
#[local] Arguments Z.sub : simpl never.
#[local] Arguments Z.modulo : simpl never.

(* ------------------------------------------------------------------ *)
(* digits                                                               *)
(* ------------------------------------------------------------------ *)

Lemma lower_cases c : (65 <= c <= 90 /\ lower c = c + 32) \/ ((c < 65 \/ 90 < c) /\ lower c = c).
Proof. unfold lower. destruct ((65 <=? c) && (c <=? 90)) eqn:E; lia. Qed.

Lemma digit_ok_val b c : digit_ok b c = true -> exists d, digit_val c = Some d /\ d < ibase_n b.
Proof.
  intro H. unfold digit_val, is_dec.
  destruct b; cbn [digit_ok ibase_n] in *.
  - exists (c - 48). replace ((48 <=? c) && (c <=? 57)) with true by lia. split; [reflexivity | lia].
  - exists (c - 48). replace ((48 <=? c) && (c <=? 57)) with true by lia. split; [reflexivity | lia].
  - unfold is_dec in H. exists (c - 48). rewrite H. split; [reflexivity | lia].
  - unfold is_hex, is_dec, is_hexletter in H.
    destruct ((48 <=? c) && (c <=? 57)) eqn:E.
    + exists (c - 48). split; [reflexivity | lia].
    + cbn [orb] in H. exists (lower c - 87).
      replace ((97 <=? lower c) && (lower c <=? 122)) with true by lia. split; [reflexivity | lia].
Qed.

Lemma digit_ok_range b c : digit_ok b c = true -> 48 <= c <= 102 /\ c <> 95.
Proof.
  intro H. destruct b; cbn [digit_ok] in H; unfold is_hex, is_dec, is_hexletter in *;
    destruct (lower_cases c) as [[? E]|[? E]]; rewrite ?E in H; lia.
Qed.

Lemma digit_ok_not_us b c : digit_ok b c = true -> is_us c = false.
Proof. intro H. apply digit_ok_range in H. unfold is_us, c_us. lia. Qed.

Lemma go_digits_chars b us s acc :
  forallb (digit_ok b) s = true ->
  go_digits (ibase_n b) us s acc = Some (chars_val (ibase_n b) s acc).
Proof.
  revert acc; induction s as [|c r IH]; intros acc H; cbn [go_digits chars_val forallb] in *.
  - reflexivity.
  - apply andb_true_iff in H as [Hc Hr].
    rewrite (digit_ok_not_us _ _ Hc).
    destruct (digit_ok_val _ _ Hc) as [d [Ed Hd]]. rewrite Ed.
    replace (d <? ibase_n b) with true by lia. apply IH, Hr.
Qed.

Lemma go_digits_skip_us base k s acc :
  go_digits base true (repeat c_us k ++ s) acc = go_digits base true s acc.
Proof. induction k as [|k IH]; cbn [repeat app go_digits]; [reflexivity|]. exact IH. Qed.

Definition rest_render (rest : list (nat * N)) : bytes :=
  flat_map (fun p => repeat c_us (fst p) ++ [snd p]) rest.

Lemma go_digits_rest b rest acc :
  forallb (digit_ok b) (map snd rest) = true ->
  go_digits (ibase_n b) true (rest_render rest) acc = Some (chars_val (ibase_n b) (map snd rest) acc).
Proof.
  revert acc; induction rest as [|[k c] r IH]; intros acc H; cbn [rest_render flat_map map forallb fst snd] in *.
  - reflexivity.
  - apply andb_true_iff in H as [Hc Hr].
    rewrite <- app_assoc, go_digits_skip_us. cbn [app go_digits chars_val].
    rewrite (digit_ok_not_us _ _ Hc).
    destruct (digit_ok_val _ _ Hc) as [d [Ed Hd]]. rewrite Ed.
    replace (d <? ibase_n b) with true by lia. apply IH, Hr.
Qed.

Lemma strip_us_repeat k s : strip_us (repeat c_us k ++ s) = strip_us s.
Proof. induction k as [|k IH]; cbn [repeat app]; [reflexivity|]. unfold strip_us in *. cbn [filter]. exact IH. Qed.

Lemma strip_us_cons c s : is_us c = false -> strip_us (c :: s) = c :: strip_us s.
Proof. intro H. unfold strip_us. cbn [filter]. rewrite H. reflexivity. Qed.

Lemma strip_us_app a b : strip_us (a ++ b) = strip_us a ++ strip_us b.
Proof. unfold strip_us. apply filter_app. Qed.

Lemma strip_us_clean b s : forallb (digit_ok b) s = true -> strip_us s = s.
Proof.
  induction s as [|c r IH]; intro H; [reflexivity|]. cbn [forallb] in H.
  apply andb_true_iff in H as [Hc Hr]. rewrite strip_us_cons by (eapply digit_ok_not_us; eauto).
  rewrite IH by exact Hr. reflexivity.
Qed.

Lemma strip_us_rest b rest :
  forallb (digit_ok b) (map snd rest) = true -> strip_us (rest_render rest) = map snd rest.
Proof.
  induction rest as [|[k c] r IH]; intro H; cbn [rest_render flat_map map forallb fst snd] in *; [reflexivity|].
  apply andb_true_iff in H as [Hc Hr].
  rewrite <- app_assoc, strip_us_repeat. cbn [app].
  rewrite strip_us_cons by (eapply digit_ok_not_us; eauto). fold (rest_render r). rewrite IH by exact Hr. reflexivity.
Qed.

Lemma render_dseq_eq d : render_dseq d = d_first d :: rest_render (d_rest d).
Proof. reflexivity. Qed.

Lemma strip_us_dseq b d : dseq_ok b d = true -> strip_us (render_dseq d) = dseq_chars d.
Proof.
  unfold dseq_ok, dseq_chars. cbn [forallb]. intro H. apply andb_true_iff in H as [H0 Hr].
  rewrite render_dseq_eq, strip_us_cons by (eapply digit_ok_not_us; eauto).
  erewrite strip_us_rest by exact Hr. reflexivity.
Qed.

Lemma has_us_clean b s : forallb (digit_ok b) s = true -> has_us s = false.
Proof.
  induction s as [|c r IH]; intro H; [reflexivity|]. cbn [forallb] in H. apply andb_true_iff in H as [Hc Hr].
  unfold has_us in *. cbn [existsb]. rewrite (digit_ok_not_us _ _ Hc), IH by exact Hr. reflexivity.
Qed.

(* ------------------------------------------------------------------ *)
(* strconv.ParseUint / ParseInt (base 0) on a grammar spelling          *)
(* ------------------------------------------------------------------ *)

Lemma ibase_eq_dec (a b : ibase) : {a = b} + {a <> b}.
Proof. decide equality. Qed.

Lemma base0_prefix_pref b up d0 body :
  b <> B10 -> base0_prefix (prefix_chars b up ++ d0 :: body) = (ibase_n b, d0 :: body).
Proof. intro H. destruct b, up; try congruence; reflexivity. Qed.

Lemma base0_prefix_dec c r : c <> 48 -> base0_prefix (c :: r) = (10, c :: r).
Proof. intro H. unfold base0_prefix. replace (c =? 48) with false by lia. reflexivity. Qed.

Lemma has_us_prefix b up s : has_us (prefix_chars b up ++ s) = has_us s.
Proof. destruct b, up; reflexivity. Qed.

Lemma go_parse_uint0_gen b up d0 body v bits :
  digit_ok b d0 = true ->
  (b = B10 -> d0 = 48 -> body = []) ->
  go_digits (ibase_n b) true (d0 :: body) 0 = Some v ->
  (has_us (d0 :: body) = true -> underscore_ok (prefix_chars b up ++ d0 :: body) = true) ->
  go_parse_uint (prefix_chars b up ++ d0 :: body) 0 bits = if v <? 2 ^ bits then Some v else None.
Proof.
  intros Hd Hz Hv Hus.
  assert (Hne : exists x y, prefix_chars b up ++ d0 :: body = x :: y)
    by (destruct b, up; cbn [prefix_chars app]; eauto).
  destruct Hne as [x [y Exy]].
  unfold go_parse_uint. rewrite Exy. rewrite <- Exy. clear x y Exy.
  change (0 =? 0) with true. cbv iota.
  destruct (ibase_eq_dec b B10) as [E10|N10].
  - subst b. cbn [prefix_chars app] in *.
    destruct (N.eq_dec d0 48) as [E0|N0].
    + subst d0. rewrite (Hz eq_refl eq_refl) in *. cbn in Hv. injection Hv as <-. reflexivity.
    + rewrite base0_prefix_dec by exact N0. cbn [ibase_n] in Hv. rewrite Hv.
      destruct (has_us (d0 :: body)) eqn:Eu.
      * rewrite (Hus eq_refl). reflexivity.
      * reflexivity.
  - rewrite base0_prefix_pref by exact N10. rewrite Hv, has_us_prefix.
    destruct (has_us (d0 :: body)) eqn:Eu.
    + rewrite (Hus eq_refl). reflexivity.
    + reflexivity.
Qed.

Definition int_range_result (neg : bool) (v bits : N) : option Z :=
  if v <? 2 ^ bits then
    if neg then (if v <=? 2 ^ (bits - 1) then Some (- Z.of_N v)%Z else None)
    else (if v <? 2 ^ (bits - 1) then Some (Z.of_N v) else None)
  else None.

Lemma first_char_not_sign b up d0 body :
  digit_ok b d0 = true ->
  exists x y, prefix_chars b up ++ d0 :: body = x :: y /\ x <> c_plus /\ x <> c_minus.
Proof.
  intro H. apply digit_ok_range in H. unfold c_plus, c_minus.
  destruct b, up; cbn [prefix_chars app]; eexists; eexists; (split; [reflexivity | lia]).
Qed.

Lemma go_parse_int0_gen neg b up d0 body v bits :
  digit_ok b d0 = true ->
  (b = B10 -> d0 = 48 -> body = []) ->
  go_digits (ibase_n b) true (d0 :: body) 0 = Some v ->
  (has_us (d0 :: body) = true -> underscore_ok (prefix_chars b up ++ d0 :: body) = true) ->
  go_parse_int (sign_chars neg ++ prefix_chars b up ++ d0 :: body) 0 bits = int_range_result neg v bits.
Proof.
  intros Hd Hz Hv Hus.
  pose proof (go_parse_uint0_gen b up d0 body v bits Hd Hz Hv Hus) as HU.
  destruct (first_char_not_sign b up d0 body Hd) as [x [y [Exy [Hp Hm]]]].
  unfold go_parse_int, int_range_result. destruct neg; cbn [sign_chars app].
  - change (c_minus =? c_plus) with false. change (c_minus =? c_minus) with true. cbv iota.
    rewrite HU. destruct (v <? 2 ^ bits); reflexivity.
  - rewrite Exy. replace (x =? c_plus) with false by lia. replace (x =? c_minus) with false by lia.
    rewrite <- Exy, HU. destruct (v <? 2 ^ bits); reflexivity.
Qed.

Lemma go_bigint0_clean neg b up d0 body v :
  digit_ok b d0 = true ->
  (b = B10 -> d0 = 48 -> body = []) ->
  go_digits (ibase_n b) true (d0 :: body) 0 = Some v ->
  has_us (d0 :: body) = false ->
  go_bigint0 (sign_chars neg ++ prefix_chars b up ++ d0 :: body) = Some (if neg then (- Z.of_N v)%Z else Z.of_N v).
Proof.
  intros Hd Hz Hv Hus.
  destruct (first_char_not_sign b up d0 body Hd) as [x [y [Exy [Hp Hm]]]].
  assert (HB : base0_prefix (prefix_chars b up ++ d0 :: body) =
               if (match b with B10 => true | _ => false end) && (d0 =? 48) then (8, []) else (ibase_n b, d0 :: body)).
  { destruct (ibase_eq_dec b B10) as [E10|N10].
    - subst b. cbn [prefix_chars app andb]. destruct (N.eq_dec d0 48) as [E0|N0].
      + subst d0. rewrite (Hz eq_refl eq_refl). reflexivity.
      + rewrite base0_prefix_dec by exact N0. replace (d0 =? 48) with false by lia. reflexivity.
    - rewrite base0_prefix_pref by exact N10. destruct b; try congruence; reflexivity. }
  assert (HG : forall s', s' = prefix_chars b up ++ d0 :: body ->
     (let '(bb, rest) := base0_prefix s' in
      match go_digits bb true rest 0 with
      | Some n => if has_us s' && negb (underscore_ok s') then None
                  else Some (if neg then (- Z.of_N n)%Z else Z.of_N n)
      | None => None end) = Some (if neg then (- Z.of_N v)%Z else Z.of_N v)).
  { intros s' ->. rewrite HB, has_us_prefix, Hus.
    destruct ((match b with B10 => true | _ => false end) && (d0 =? 48)) eqn:E.
    - destruct b; try discriminate. cbn [andb] in E. assert (d0 = 48) by lia. subst d0.
      rewrite (Hz eq_refl eq_refl) in Hv. cbn in Hv. injection Hv as <-. reflexivity.
    - rewrite Hv. reflexivity. }
  unfold go_bigint0. destruct neg; cbn [sign_chars app].
  - change (c_minus =? c_plus) with false. change (c_minus =? c_minus) with true. cbv iota.
    rewrite Exy. rewrite <- Exy. apply HG. reflexivity.
  - rewrite Exy. replace (x =? c_plus) with false by lia. replace (x =? c_minus) with false by lia.
    rewrite <- Exy. apply HG. reflexivity.
Qed.

(* ------------------------------------------------------------------ *)
(* ExitValueInt                                                         *)
(* ------------------------------------------------------------------ *)

Lemma strip_us_sign_prefix neg b up s :
  strip_us (sign_chars neg ++ prefix_chars b up ++ s) = sign_chars neg ++ prefix_chars b up ++ strip_us s.
Proof. destruct neg, b, up; reflexivity. Qed.

Lemma is_neg_text_render neg b up d0 body :
  digit_ok b d0 = true ->
  is_neg_text (sign_chars neg ++ prefix_chars b up ++ d0 :: body) = neg.
Proof.
  intro Hd. destruct (first_char_not_sign b up d0 body Hd) as [x [y [Exy [Hp Hm]]]].
  destruct neg; cbn [sign_chars app]; [reflexivity|]. rewrite Exy. cbn [is_neg_text]. lia.
Qed.

Lemma pow2_64 : 2 ^ 64 = 18446744073709551616. Proof. reflexivity. Qed.
Lemma pow2_63 : 2 ^ (64 - 1) = 9223372036854775808. Proof. reflexivity. Qed.
Lemma zpow2_63 : (2 ^ 63 = 9223372036854775808)%Z. Proof. reflexivity. Qed.

(* the event a value produces: spec_int on the value alone *)
Definition int_event (neg : bool) (v : N) : lit_result :=
  let z := if neg then (- Z.of_N v)%Z else Z.of_N v in
  if (z =? 0)%Z && neg then RNegInt 0
  else if ((- 2 ^ 63 <=? z) && (z <? 2 ^ 63))%Z then RInt z
  else RBigInt z.

(* ExitValueInt after the text has been cleaned *)
Definition int_of_str (str : bytes) : outcome lit_result :=
  match str with
  | [] => Err
  | _ =>
    let neg := is_neg_text str in
    match go_parse_int str 0 64 with
    | Some v => if (v =? 0)%Z && neg then Ok (RNegInt 0) else Ok (RInt v)
    | None => match go_bigint0 str with
              | Some z => Ok (RBigInt z)
              | None => Err
              end
    end
  end.

Lemma impl_int_eq text : impl_int text = int_of_str (strip_dec_lead0 (strip_us text)).
Proof. reflexivity. Qed.

Lemma int_of_str_core neg b up d0 body :
  digit_ok b d0 = true -> forallb (digit_ok b) body = true ->
  (b = B10 -> d0 = 48 -> body = []) ->
  int_of_str (sign_chars neg ++ prefix_chars b up ++ d0 :: body)
  = Ok (int_event neg (chars_val (ibase_n b) (d0 :: body) 0)).
Proof.
  intros Hd0 Hrest Hz. unfold int_of_str, int_event.
  set (v := chars_val (ibase_n b) (d0 :: body) 0).
  assert (Hv : go_digits (ibase_n b) true (d0 :: body) 0 = Some v).
  { apply go_digits_chars. cbn [forallb]. rewrite Hd0. exact Hrest. }
  assert (Hus : has_us (d0 :: body) = false).
  { apply (has_us_clean b). cbn [forallb]. rewrite Hd0. exact Hrest. }
  destruct (first_char_not_sign b up d0 body Hd0) as [x [y [Exy _]]].
  assert (Hne : exists x' y', sign_chars neg ++ prefix_chars b up ++ d0 :: body = x' :: y').
  { destruct neg; cbn [sign_chars app]; [eauto | rewrite Exy; eauto]. }
  destruct Hne as [x' [y' E']]. rewrite E'. rewrite <- E'. clear x' y' E' x y Exy.
  rewrite is_neg_text_render by exact Hd0.
  rewrite (go_parse_int0_gen neg b up d0 body v 64 Hd0 Hz Hv) by (rewrite Hus; discriminate).
  rewrite (go_bigint0_clean neg b up d0 body v Hd0 Hz Hv Hus).
  unfold int_range_result. rewrite pow2_64, pow2_63, zpow2_63. cbv zeta.
  destruct neg;
    repeat match goal with
           | |- context [if ?c then _ else _] => destruct c eqn:?
           end; try reflexivity; exfalso; lia.
Qed.

(* stripDecimalLeadingZeros on clean digits *)
Lemma drop0x_true_nonus c r : is_us c = false -> drop0x true (c :: r) = drop0x false (c :: r).
Proof. intro H. cbn [drop0x andb]. rewrite H. reflexivity. Qed.

Lemma drop0x_false_cons c r :
  drop0x false (c :: r) = if (c =? 48) && digit_after_us r then drop0x true r else c :: r.
Proof. reflexivity. Qed.

Lemma dec_not_us c : is_dec c = true -> is_us c = false.
Proof. unfold is_dec, is_us, c_us. lia. Qed.

Lemma drop0_dec chars :
  chars <> [] -> forallb is_dec chars = true ->
  exists d0 body, drop0 chars = d0 :: body /\ forallb is_dec (d0 :: body) = true /\
                  (d0 = 48 -> body = []) /\
                  forall acc, chars_val 10 (d0 :: body) acc = chars_val 10 chars acc \/ acc <> 0.
Proof.
  unfold drop0.
  induction chars as [|c r IH]; intros Hne Hd; [congruence|].
  destruct r as [|d r'].
  - exists c, []. rewrite drop0x_false_cons. cbn [digit_after_us]. rewrite andb_false_r. repeat split; auto.
  - cbn [forallb] in Hd. apply andb_true_iff in Hd as [Hc Hr]. pose proof Hr as Hr'. cbn [forallb] in Hr'.
    apply andb_true_iff in Hr' as [Hdd _].
    rewrite drop0x_false_cons. cbn [digit_after_us]. rewrite (dec_not_us d Hdd), Hdd, andb_true_r. destruct (c =? 48) eqn:E.
    + rewrite drop0x_true_nonus by (apply dec_not_us, Hdd).
      destruct (IH ltac:(discriminate) Hr) as [d0 [body [E1 [E2 [E3 E4]]]]].
      exists d0, body. repeat split; auto. intro acc.
      destruct (N.eq_dec acc 0) as [->|Hn]; [left|right; exact Hn].
      assert (c = 48) by lia. subst c. destruct (E4 0) as [E5|E5]; [|congruence].
      rewrite E5. cbn [chars_val]. reflexivity.
    + exists c, (d :: r'). repeat split; auto.
      * cbn [forallb]. rewrite Hc. exact Hr.
      * intro H48. lia.
Qed.

Lemma drop0_not_dec z p r : is_dec p = false -> is_us p = false -> drop0 (z :: p :: r) = z :: p :: r.
Proof. intros H Hu. unfold drop0. rewrite drop0x_false_cons. cbn [digit_after_us]. rewrite Hu, H, andb_false_r. reflexivity. Qed.

Lemma strip_dec_lead0_sign neg s :
  match s with c :: _ => c <> c_minus /\ c <> c_plus | [] => True end ->
  strip_dec_lead0 (sign_chars neg ++ s) = sign_chars neg ++ drop0 s.
Proof.
  intro H. destruct neg; cbn [sign_chars app].
  - reflexivity.
  - unfold strip_dec_lead0. destruct s as [|c r]; [reflexivity|].
    destruct H as [H1 H2]. replace ((c =? c_minus) || (c =? c_plus)) with false by lia. reflexivity.
Qed.

Lemma dseq_val_chars b d : dseq_val b d = chars_val (ibase_n b) (dseq_chars d) 0.
Proof. reflexivity. Qed.

(* Every integer literal of the grammar, leading zeros included (fix 601f9e0) *)
Theorem int_literal_exact_all (l : int_lit) :
  int_lit_ok l = true ->
  impl_int (render_int l) = Ok (spec_int l).
Proof.
  destruct l as [neg b up [d0 rest]]. unfold int_lit_ok, render_int.
  cbn [i_neg i_base i_upper i_digits]. intros Hok.
  pose proof Hok as Hok'. unfold dseq_ok, dseq_chars in Hok'. cbn [d_first d_rest forallb] in Hok'.
  apply andb_true_iff in Hok' as [Hd0 Hrest].
  rewrite impl_int_eq, strip_us_sign_prefix, (strip_us_dseq b) by exact Hok.
  unfold dseq_chars. cbn [d_first d_rest]. set (body := map snd rest) in *.
  assert (Hspec : spec_int {| i_neg := neg; i_base := b; i_upper := up; i_digits := {| d_first := d0; d_rest := rest |} |}
                  = int_event neg (chars_val (ibase_n b) (d0 :: body) 0)) by reflexivity.
  rewrite Hspec.
  pose proof (digit_ok_range _ _ Hd0) as R0.
  destruct (ibase_eq_dec b B10) as [E10|N10].
  - subst b. cbn [prefix_chars app].
    rewrite strip_dec_lead0_sign by (unfold c_minus, c_plus; lia).
    destruct (drop0_dec (d0 :: body) ltac:(discriminate)) as [e0 [eb [E1 [E2 [E3 E4]]]]].
    { cbn [forallb]. cbn [digit_ok] in Hd0, Hrest. rewrite Hd0. exact Hrest. }
    rewrite E1. cbn [forallb] in E2. apply andb_true_iff in E2 as [Ee0 Eeb].
    change (sign_chars neg ++ e0 :: eb) with (sign_chars neg ++ prefix_chars B10 up ++ e0 :: eb).
    rewrite int_of_str_core; try assumption; [| intros _; exact E3].
    destruct (E4 0) as [E5|E5]; [|congruence]. cbn [ibase_n]. rewrite E5. reflexivity.
  - assert (Hp : exists p, prefix_chars b up = [48; p] /\ is_dec p = false /\ is_us p = false).
    { destruct b, up; try congruence; eexists; repeat split; reflexivity. }
    destruct Hp as [p [Ep [Hp Hpu]]].
    rewrite strip_dec_lead0_sign by (rewrite Ep; cbn [app]; unfold c_minus, c_plus; lia).
    rewrite Ep. cbn [app]. rewrite drop0_not_dec by assumption.
    change (48 :: p :: d0 :: body) with ([48; p] ++ d0 :: body). rewrite <- Ep.
    apply int_of_str_core; try assumption. intro; congruence.
Qed.

(* the statement as it was before the fix (kept for the developments that use it) *)
Theorem int_literal_exact (l : int_lit) :
  int_lit_ok l = true ->
  leading_zero_dec l = false ->
  impl_int (render_int l) = Ok (spec_int l).
Proof. intros Hok _. apply int_literal_exact_all, Hok. Qed.

(* ------------------------------------------------------------------ *)
(* array elements: integers                                             *)
(* ------------------------------------------------------------------ *)

Lemma go_digits_dseq b d :
  dseq_ok b d = true -> go_digits (ibase_n b) true (render_dseq d) 0 = Some (dseq_val b d).
Proof.
  destruct d as [d0 rest]. unfold dseq_ok, dseq_val, dseq_chars. cbn [d_first d_rest forallb].
  intro H. apply andb_true_iff in H as [H0 Hr]. rewrite render_dseq_eq. cbn [d_first d_rest go_digits chars_val].
  rewrite (digit_ok_not_us _ _ H0). destruct (digit_ok_val _ _ H0) as [d [Ed Hd]]. rewrite Ed.
  replace (d <? ibase_n b) with true by lia. apply go_digits_rest, Hr.
Qed.

Definition scan_digit (hex : bool) (c : N) : bool := is_dec c || (hex && is_hexletter c).

Lemma us_scan_rest hex rest :
  forallb (scan_digit hex) (map snd rest) = true ->
  forallb (fun p => Nat.leb (fst p) 1) rest = true ->
  us_scan hex SawDigit (rest_render rest) = true.
Proof.
  induction rest as [|[k c] r IH]; intros Hd Hk; cbn [rest_render flat_map map forallb fst snd] in *; [reflexivity|].
  apply andb_true_iff in Hd as [Hc Hr]. apply andb_true_iff in Hk as [Hk1 Hkr].
  fold (rest_render r). unfold scan_digit in Hc.
  destruct k as [|[|k]]; [| |discriminate]; cbn [repeat app us_scan].
  - rewrite Hc. apply IH; assumption.
  - change (is_dec c_us) with false. change (is_hexletter c_us) with false. rewrite andb_false_r. cbn [orb].
    change (is_us c_us) with true. cbv iota. cbn [us_scan]. rewrite Hc. apply IH; assumption.
Qed.

Lemma digit_ok_scan b c : digit_ok b c = true -> scan_digit (match b with B16 => true | _ => false end) c = true.
Proof.
  unfold scan_digit. destruct b; cbn [digit_ok]; unfold is_hex, is_dec; intro H; lia.
Qed.

Lemma max_us_le (rest : list (nat * N)) :
  Nat.leb (fold_right (fun p m => Nat.max (fst p) m) O rest) 1 = true ->
  forallb (fun p => Nat.leb (fst p) 1) rest = true.
Proof.
  induction rest as [|[k c] r IH]; cbn [fold_right forallb fst]; intro H; [reflexivity|].
  apply Nat.leb_le in H. apply andb_true_iff. split.
  - apply Nat.leb_le. lia.
  - apply IH. apply Nat.leb_le. lia.
Qed.

Lemma underscore_ok_pref p c r :
  lower p = 98 \/ lower p = 111 \/ lower p = 120 ->
  underscore_ok (48 :: p :: c :: r) = us_scan (lower p =? 120) SawDigit (c :: r).
Proof.
  intro H. unfold underscore_ok, drop_sign.
  change ((48 =? c_minus) || (48 =? c_plus)) with false. cbv iota.
  replace ((48 =? 48) && ((lower p =? 98) || (lower p =? 111) || (lower p =? 120))) with true by lia.
  reflexivity.
Qed.

Lemma underscore_ok_render b up d :
  dseq_ok b d = true -> single_us d = true ->
  underscore_ok (prefix_chars b up ++ render_dseq d) = true.
Proof.
  destruct d as [d0 rest]. unfold dseq_ok, dseq_chars, single_us, max_us. cbn [d_first d_rest forallb].
  intros H Hs. apply andb_true_iff in H as [H0 Hr]. apply max_us_le in Hs.
  rewrite render_dseq_eq. cbn [d_first d_rest].
  assert (Hsc : forallb (scan_digit (match b with B16 => true | _ => false end)) (map snd rest) = true).
  { rewrite forallb_forall in *. intros c Hc. apply digit_ok_scan, Hr, Hc. }
  pose proof (digit_ok_scan _ _ H0) as Hs0.
  pose proof (us_scan_rest _ rest Hsc Hs) as HR.
  destruct b; cbn [prefix_chars app].
  - destruct up; rewrite underscore_ok_pref by (vm_compute; auto);
      match goal with |- context [lower ?x =? 120] =>
        let v := eval vm_compute in (lower x =? 120) in change (lower x =? 120) with v end;
      cbn [us_scan]; unfold scan_digit in Hs0; rewrite Hs0; exact HR.
  - destruct up; rewrite underscore_ok_pref by (vm_compute; auto);
      match goal with |- context [lower ?x =? 120] =>
        let v := eval vm_compute in (lower x =? 120) in change (lower x =? 120) with v end;
      cbn [us_scan]; unfold scan_digit in Hs0; rewrite Hs0; exact HR.
  - (* decimal: no prefix *)
    pose proof (digit_ok_range _ _ H0) as R0. cbn [digit_ok] in H0.
    unfold underscore_ok, drop_sign.
    replace ((d0 =? c_minus) || (d0 =? c_plus)) with false by (unfold c_minus, c_plus; lia).
    assert (G : us_scan false SawStart (d0 :: rest_render rest) = true).
    { cbn [us_scan]. unfold scan_digit in Hs0. rewrite Hs0. exact HR. }
    destruct (rest_render rest) as [|c r] eqn:ER; [exact G|].
    assert (Hc : c = c_us \/ is_dec c = true).
    { destruct rest as [|[k c'] r']; [discriminate|]. cbn [rest_render flat_map fst snd] in ER.
      cbn [map forallb snd] in Hr. apply andb_true_iff in Hr as [Hc' _]. cbn [digit_ok] in Hc'.
      destruct k; cbn [repeat app] in ER; injection ER as <- _; auto. }
    replace ((d0 =? 48) && ((lower c =? 98) || (lower c =? 111) || (lower c =? 120))) with false; [exact G|].
    destruct Hc as [->|Hc]; [change (lower c_us) with 95; lia|]. unfold is_dec in Hc.
    destruct (lower_cases c) as [[? E]|[? E]]; rewrite E; lia.
  - destruct up; rewrite underscore_ok_pref by (vm_compute; auto);
      match goal with |- context [lower ?x =? 120] =>
        let v := eval vm_compute in (lower x =? 120) in change (lower x =? 120) with v end;
      cbn [us_scan]; unfold scan_digit in Hs0; rewrite Hs0; exact HR.
Qed.

Ltac norm_pows :=
  repeat match goal with
         | |- context [N.pow 2 ?e] =>
           let x := eval vm_compute in (N.pow 2 e) in change (N.pow 2 e) with x
         | |- context [Z.pow 2 ?e] =>
           let x := eval vm_compute in (Z.pow 2 e) in change (Z.pow 2 e) with x
         end.

Definition elem_bits (bits : N) : Prop := bits = 8 \/ bits = 16 \/ bits = 32 \/ bits = 64.

Lemma int_range_spec neg v bits :
  elem_bits bits ->
  match int_range_result neg v bits with
  | Some z => Ok (le_bits bits (twos bits z))
  | None => Err
  end =
  let z := if neg then (- Z.of_N v)%Z else Z.of_N v in
  if ((- 2 ^ (Z.of_N bits - 1) <=? z) && (z <? 2 ^ (Z.of_N bits - 1)))%Z
  then Ok (le_bits bits (twos bits z)) else Err.
Proof.
  intro Hb; unfold elem_bits in Hb; destruct Hb as [Hb|[Hb|[Hb|Hb]]]; subst bits; unfold int_range_result; cbv zeta; norm_pows;
    destruct neg;
    repeat match goal with
           | |- context [if ?c then _ else _] => destruct c eqn:?
           end; try reflexivity; exfalso; lia.
Qed.

Lemma parse_int_elem_implicit (bits : N) (l : int_lit) :
  elem_bits bits ->
  int_lit_ok l = true ->
  leading_zero_dec l = false ->
  single_us (i_digits l) = true ->
  parse_int_elem 0 bits (render_int l) = spec_int_elem bits l.
Proof.
  destruct l as [neg b up d]. unfold int_lit_ok, leading_zero_dec, render_int, spec_int_elem, int_value, int_mag.
  cbn [i_neg i_base i_upper i_digits]. intros Hb Hok Hlz Hsu.
  pose proof (go_digits_dseq b d Hok) as Hv.
  pose proof (underscore_ok_render b up d Hok Hsu) as Hu.
  destruct d as [d0 rest]. rewrite render_dseq_eq in *. cbn [d_first d_rest] in *.
  unfold dseq_ok, dseq_chars in Hok. cbn [d_first d_rest forallb] in Hok. apply andb_true_iff in Hok as [Hd0 Hrest].
  assert (Hz : b = B10 -> d0 = 48 -> rest_render rest = []).
  { intros -> ->. cbn in Hlz. destruct rest; [reflexivity | discriminate]. }
  unfold parse_int_elem.
  rewrite (go_parse_int0_gen neg b up d0 (rest_render rest) _ bits Hd0 Hz Hv (fun _ => Hu)).
  apply int_range_spec, Hb.
Qed.

Lemma rest_render_no_us rest :
  forallb (fun p => Nat.eqb (fst p) 0) rest = true -> rest_render rest = map snd rest.
Proof.
  induction rest as [|[k c] r IH]; cbn [rest_render flat_map map forallb fst snd]; intro H; [reflexivity|].
  apply andb_true_iff in H as [Hk Hr]. apply Nat.eqb_eq in Hk. subst k. cbn [repeat app].
  fold (rest_render r). rewrite IH by exact Hr. reflexivity.
Qed.

Lemma max_us_zero (rest : list (nat * N)) :
  Nat.eqb (fold_right (fun p m => Nat.max (fst p) m) O rest) 0 = true ->
  forallb (fun p => Nat.eqb (fst p) 0) rest = true.
Proof.
  induction rest as [|[k c] r IH]; cbn [fold_right forallb fst]; intro H; [reflexivity|].
  apply Nat.eqb_eq in H. apply andb_true_iff. split.
  - apply Nat.eqb_eq. lia.
  - apply IH. apply Nat.eqb_eq. lia.
Qed.

Lemma render_dseq_no_us d : no_us d = true -> render_dseq d = dseq_chars d.
Proof.
  destruct d as [d0 rest]. unfold no_us, max_us, dseq_chars. cbn [d_first d_rest]. intro H.
  rewrite render_dseq_eq. cbn [d_first d_rest]. rewrite rest_render_no_us by (apply max_us_zero, H). reflexivity.
Qed.

Lemma go_parse_uint_explicit b d bits :
  b <> B10 -> dseq_ok b d = true -> no_us d = true ->
  go_parse_uint (render_dseq d) (ibase_n b) bits = if dseq_val b d <? 2 ^ bits then Some (dseq_val b d) else None.
Proof.
  intros Hb Hok Hnu. rewrite render_dseq_no_us by exact Hnu.
  unfold go_parse_uint, dseq_val. unfold dseq_ok in Hok.
  destruct (dseq_chars d) as [|c r] eqn:E; [destruct d; discriminate|].
  replace (ibase_n b =? 0) with false by (destruct b; reflexivity). cbv iota. cbn [andb].
  rewrite (go_digits_chars b false (c :: r) 0 Hok). reflexivity.
Qed.

Theorem int_elem_explicit_exact (bits : N) (l : int_lit) :
  elem_bits bits ->
  i_base l <> B10 ->
  int_lit_ok l = true ->
  no_us (i_digits l) = true ->
  impl_int_elem (ibase_n (i_base l)) bits (render_int_noprefix l) = spec_int_elem bits l.
Proof.
  destruct l as [neg b up d]. unfold int_lit_ok, render_int_noprefix, spec_int_elem, int_value, int_mag.
  cbn [i_neg i_base i_upper i_digits]. intros Hbits Hb Hok Hnu.
  pose proof (go_parse_uint_explicit b d bits Hb Hok Hnu) as HU.
  unfold impl_int_elem, elem_text. replace (ibase_n b =? 0) with false by (destruct b; reflexivity).
  unfold parse_int_elem.
  assert (HI : go_parse_int (sign_chars neg ++ render_dseq d) (ibase_n b) bits = int_range_result neg (dseq_val b d) bits).
  { unfold go_parse_int, int_range_result. destruct neg; cbn [sign_chars app].
    - change (c_minus =? c_plus) with false. change (c_minus =? c_minus) with true. cbv iota.
      rewrite HU. destruct (dseq_val b d <? 2 ^ bits); reflexivity.
    - destruct d as [d0 rest]. rewrite render_dseq_eq in *. cbn [d_first d_rest] in *.
      unfold dseq_ok, dseq_chars in Hok. cbn [d_first d_rest forallb] in Hok. apply andb_true_iff in Hok as [Hd0 _].
      apply digit_ok_range in Hd0.
      replace (d0 =? c_plus) with false by (unfold c_plus; lia).
      replace (d0 =? c_minus) with false by (unfold c_minus; lia).
      rewrite HU. destruct (_ <? 2 ^ bits); reflexivity. }
  rewrite HI. apply int_range_spec, Hbits.
Qed.

(* ------------------------------------------------------------------ *)
(* array elements: unsigned integers                                    *)
(* ------------------------------------------------------------------ *)

Lemma parse_uint_elem_implicit (bits : N) (l : int_lit) :
  i_neg l = false ->
  int_lit_ok l = true ->
  leading_zero_dec l = false ->
  single_us (i_digits l) = true ->
  parse_uint_elem 0 bits (render_int l) = spec_uint_elem bits l.
Proof.
  destruct l as [neg b up d]. unfold int_lit_ok, leading_zero_dec, render_int, spec_uint_elem, int_mag.
  cbn [i_neg i_base i_upper i_digits]. intros -> Hok Hlz Hsu. cbn [sign_chars app].
  pose proof (go_digits_dseq b d Hok) as Hv.
  pose proof (underscore_ok_render b up d Hok Hsu) as Hu.
  destruct d as [d0 rest]. rewrite render_dseq_eq in *. cbn [d_first d_rest] in *.
  unfold dseq_ok, dseq_chars in Hok. cbn [d_first d_rest forallb] in Hok. apply andb_true_iff in Hok as [Hd0 Hrest].
  assert (Hz : b = B10 -> d0 = 48 -> rest_render rest = []).
  { intros -> ->. cbn in Hlz. destruct rest; [reflexivity | discriminate]. }
  unfold parse_uint_elem.
  rewrite (go_parse_uint0_gen b up d0 (rest_render rest) _ bits Hd0 Hz Hv (fun _ => Hu)).
  destruct (_ <? 2 ^ bits); reflexivity.
Qed.

Theorem uint_elem_explicit_exact (bits : N) (l : int_lit) :
  i_neg l = false ->
  i_base l <> B10 ->
  int_lit_ok l = true ->
  no_us (i_digits l) = true ->
  impl_uint_elem (ibase_n (i_base l)) bits (render_int_noprefix l) = spec_uint_elem bits l.
Proof.
  destruct l as [neg b up d]. unfold int_lit_ok, render_int_noprefix, spec_uint_elem, int_mag.
  cbn [i_neg i_base i_upper i_digits]. intros -> Hb Hok Hnu. cbn [sign_chars app].
  unfold impl_uint_elem, elem_text. replace (ibase_n b =? 0) with false by (destruct b; reflexivity).
  unfold parse_uint_elem. rewrite (go_parse_uint_explicit b d bits Hb Hok Hnu).
  destruct (_ <? 2 ^ bits); reflexivity.
Qed.

(* ---- implicit-base arrays after the fix: the text goes through stripDecimalLeadingZeros ---- *)

Lemma digit_after_us_repeat k c t : is_us c = false -> digit_after_us (repeat c_us k ++ c :: t) = is_dec c.
Proof. intro H. induction k as [|k IH]; cbn [repeat app digit_after_us]; [rewrite H; reflexivity | exact IH]. Qed.

Lemma drop0x_skip k c t : is_us c = false -> drop0x true (repeat c_us k ++ c :: t) = drop0x false (c :: t).
Proof.
  intro H. induction k as [|k IH]; cbn [repeat app]; [apply drop0x_true_nonus, H|].
  cbn [drop0x andb]. change (is_us c_us) with true. cbv iota. exact IH.
Qed.

Lemma drop0_render first rest :
  is_dec first = true -> forallb is_dec (map snd rest) = true ->
  drop0 (first :: rest_render rest) = render_dseq (strip0 first rest).
Proof.
  unfold drop0. revert first; induction rest as [|[k c] r IH]; intros first Hf Hr.
  - cbn [rest_render flat_map strip0]. rewrite drop0x_false_cons. cbn [digit_after_us]. rewrite andb_false_r. reflexivity.
  - cbn [map snd forallb] in Hr. apply andb_true_iff in Hr as [Hc Hr].
    cbn [rest_render flat_map fst snd strip0]. fold (rest_render r). rewrite <- app_assoc. cbn [app].
    rewrite drop0x_false_cons. rewrite (digit_after_us_repeat k c _ (dec_not_us c Hc)), Hc, andb_true_r.
    destruct (first =? 48).
    + rewrite (drop0x_skip k c _ (dec_not_us c Hc)). apply IH; assumption.
    + rewrite render_dseq_eq. cbn [d_first d_rest rest_render flat_map fst snd]. fold (rest_render r).
      rewrite <- app_assoc. reflexivity.
Qed.

Lemma strip0_facts first rest :
  is_dec first = true -> forallb is_dec (map snd rest) = true ->
  dseq_ok B10 (strip0 first rest) = true /\
  dseq_val B10 (strip0 first rest) = dseq_val B10 {| d_first := first; d_rest := rest |} /\
  (Nat.leb (max_us {| d_first := first; d_rest := rest |}) 1 = true -> Nat.leb (max_us (strip0 first rest)) 1 = true) /\
  (d_first (strip0 first rest) = 48 -> d_rest (strip0 first rest) = []).
Proof.
  revert first; induction rest as [|[k c] r IH]; intros first Hf Hr.
  - cbn [strip0]. unfold dseq_ok, dseq_chars. cbn [d_first d_rest map forallb digit_ok]. rewrite Hf. auto.
  - pose proof Hr as Hr0. cbn [map snd forallb] in Hr. apply andb_true_iff in Hr as [Hc Hr].
    assert (Hid : dseq_ok B10 {| d_first := first; d_rest := (k, c) :: r |} = true).
    { unfold dseq_ok, dseq_chars. cbn [d_first d_rest forallb digit_ok]. rewrite Hf. exact Hr0. }
    cbn [strip0].
    destruct (first =? 48) eqn:E.
    + destruct (IH c Hc Hr) as [I1 [I2 [I3 I4]]]. split; [exact I1|]. split; [|split; [|exact I4]].
      * rewrite I2. assert (first = 48) by lia. subst first. reflexivity.
      * intro H. apply I3. unfold max_us in *. cbn [d_rest fold_right fst] in *.
        apply Nat.leb_le in H. apply Nat.leb_le. lia.
    + repeat split; auto. cbn [d_first]. intro. lia.
Qed.

Lemma strip_render_int l :
  int_lit_ok l = true ->
  strip_dec_lead0 (render_int l) = render_int (strip0_lit l) /\
  int_lit_ok (strip0_lit l) = true /\ int_mag (strip0_lit l) = int_mag l /\ i_neg (strip0_lit l) = i_neg l /\
  (single_us (i_digits l) = true -> single_us (i_digits (strip0_lit l)) = true) /\
  leading_zero_dec (strip0_lit l) = false.
Proof.
  destruct l as [neg b up [d0 rest]]. unfold int_lit_ok, render_int, strip0_lit, int_mag, single_us, leading_zero_dec.
  cbn [i_neg i_base i_upper i_digits d_first d_rest]. intro Hok.
  pose proof Hok as Hok'. unfold dseq_ok, dseq_chars in Hok'. cbn [d_first d_rest forallb] in Hok'.
  apply andb_true_iff in Hok' as [Hd0 Hrest].
  pose proof (digit_ok_range _ _ Hd0) as R0.
  destruct (ibase_eq_dec b B10) as [E10|N10].
  - subst b. cbn [prefix_chars app i_neg i_base i_upper i_digits]. cbn [digit_ok] in Hd0, Hrest.
    rewrite render_dseq_eq. cbn [d_first d_rest].
    rewrite strip_dec_lead0_sign by (unfold c_minus, c_plus; lia).
    rewrite (drop0_render d0 rest Hd0 Hrest).
    destruct (strip0_facts d0 rest Hd0 Hrest) as [F1 [F2 [F3 F4]]].
    repeat split; auto.
    destruct (strip0 d0 rest) as [e0 er]. cbn [d_first d_rest] in *.
    destruct (e0 =? 48) eqn:E48; [|reflexivity]. rewrite F4 by lia. reflexivity.
  - assert (Hp : exists p, prefix_chars b up = [48; p] /\ is_dec p = false /\ is_us p = false).
    { destruct b, up; try congruence; eexists; repeat split; reflexivity. }
    destruct Hp as [p [Ep [Hp Hpu]]].
    replace (match b with B10 => _ | _ => _ end)
      with {| i_neg := neg; i_base := b; i_upper := up; i_digits := {| d_first := d0; d_rest := rest |} |}
      by (destruct b; try congruence; reflexivity).
    cbn [i_neg i_base i_upper i_digits].
    rewrite strip_dec_lead0_sign by (rewrite Ep; cbn [app]; unfold c_minus, c_plus; lia).
    rewrite Ep. cbn [app]. rewrite render_dseq_eq. cbn [d_first d_rest app]. rewrite drop0_not_dec by assumption.
    repeat split; auto. destruct b; try congruence; reflexivity.
Qed.

Lemma spec_int_elem_strip bits l :
  int_lit_ok l = true -> spec_int_elem bits (strip0_lit l) = spec_int_elem bits l.
Proof.
  intro Hok. destruct (strip_render_int l Hok) as [_ [_ [Hm [Hn _]]]].
  unfold spec_int_elem, int_value. rewrite Hm, Hn. reflexivity.
Qed.

(* Elements of @iNN[...] arrays: every spelling whose separators behind the first
   significant digit are single (leading zeros, with any separators behind
   them, are fine since 601f9e0 / 6b24587) *)
Theorem int_elem_implicit_exact_all (bits : N) (l : int_lit) :
  elem_bits bits ->
  int_lit_ok l = true ->
  single_us_elem l = true ->
  impl_int_elem 0 bits (render_int l) = spec_int_elem bits l.
Proof.
  intros Hb Hok Hsu. destruct (strip_render_int l Hok) as [E [Hok' [_ [_ [_ Hlz]]]]].
  unfold impl_int_elem, elem_text. change (0 =? 0) with true. cbv iota. rewrite E.
  rewrite (parse_int_elem_implicit bits (strip0_lit l) Hb Hok' Hlz Hsu).
  apply spec_int_elem_strip, Hok.
Qed.

Theorem uint_elem_implicit_exact_all (bits : N) (l : int_lit) :
  i_neg l = false ->
  int_lit_ok l = true ->
  single_us_elem l = true ->
  impl_uint_elem 0 bits (render_int l) = spec_uint_elem bits l.
Proof.
  intros Hn Hok Hsu. destruct (strip_render_int l Hok) as [E [Hok' [Hm [Hn' [_ Hlz]]]]].
  unfold impl_uint_elem, elem_text. change (0 =? 0) with true. cbv iota. rewrite E.
  rewrite (parse_uint_elem_implicit bits (strip0_lit l) ltac:(congruence) Hok' Hlz Hsu).
  unfold spec_uint_elem. rewrite Hm. reflexivity.
Qed.

Lemma single_us_elem_of l : int_lit_ok l = true -> single_us (i_digits l) = true -> single_us_elem l = true.
Proof. intros Hok H. destruct (strip_render_int l Hok) as [_ [_ [_ [_ [Hs _]]]]]. exact (Hs H). Qed.

(* the statements as they were before the fixes (kept for the developments that use them) *)
Theorem int_elem_implicit_exact (bits : N) (l : int_lit) :
  elem_bits bits -> int_lit_ok l = true -> leading_zero_dec l = false -> single_us (i_digits l) = true ->
  impl_int_elem 0 bits (render_int l) = spec_int_elem bits l.
Proof. intros Hb Hok _ Hsu. apply int_elem_implicit_exact_all; auto using single_us_elem_of. Qed.

Theorem uint_elem_implicit_exact (bits : N) (l : int_lit) :
  i_neg l = false -> int_lit_ok l = true -> leading_zero_dec l = false -> single_us (i_digits l) = true ->
  impl_uint_elem 0 bits (render_int l) = spec_uint_elem bits l.
Proof. intros Hn Hok _ Hsu. apply uint_elem_implicit_exact_all; auto using single_us_elem_of. Qed.

(* ------------------------------------------------------------------ *)
(* escapes and code points                                              *)
(* ------------------------------------------------------------------ *)

(* the escape table of the CTE specification: r n t, double quote, asterisk,
   slash, backslash (either case for the letters), backslash-minus = soft
   hyphen U+00AD, backslash-underscore = no-break space U+00A0 *)
Definition escape_table : list (N * N) :=
  [(114, 13); (82, 13); (110, 10); (78, 10); (116, 9); (84, 9);
   (34, 34); (42, 42); (47, 47); (92, 92); (45, 173); (95, 160)].

Theorem named_escapes_exact c v : escape_char c = Some v <-> In (c, v) escape_table.
Proof.
  unfold escape_char, escape_table. cbn [In].
  split.
  - repeat match goal with |- context [if ?b then _ else _] => destruct b eqn:? end;
      intro H; try discriminate; injection H as <-;
      repeat match goal with H : (_ || _) = true |- _ => apply orb_true_iff in H as [H|H] end;
      repeat match goal with H : (_ =? _) = true |- _ => apply N.eqb_eq in H; subst end; tauto.
  - intro H. repeat destruct H as [H|H]; try (injection H as <- <-; reflexivity). contradiction.
Qed.

Lemma is_hex_digit_ok c : is_hex c = digit_ok B16 c.
Proof. reflexivity. Qed.

(* parseHexCodepoint on any non-empty run of hex digits (fix 9d7e9c8): the
   UTF-8 bytes of a Unicode scalar value, rejected otherwise *)
Theorem codepoint_all (hx : bytes) :
  hx <> [] -> forallb is_hex hx = true ->
  impl_codepoint hx = if valid_scalar (hex_val hx) then Ok (utf8_enc (hex_val hx)) else Err.
Proof.
  intros Hne Hh. unfold impl_codepoint, go_parse_uint, hex_val in *.
  destruct hx as [|c r]; [congruence|].
  change (16 =? 0) with false. cbv iota. cbn [andb].
  change 16 with (ibase_n B16). rewrite (go_digits_chars B16 false (c :: r) 0 Hh).
  change (ibase_n B16) with 16 in *. cbv beta iota.
  destruct (chars_val 16 (c :: r) 0 <? 2 ^ 32) eqn:E; [reflexivity|].
  replace (valid_scalar (chars_val 16 (c :: r) 0)) with false; [reflexivity|].
  unfold valid_scalar. change (2 ^ 32) with 4294967296 in E. lia.
Qed.

Theorem codepoint_exact (hx : bytes) :
  hx <> [] -> forallb is_hex hx = true -> valid_scalar (hex_val hx) = true ->
  impl_codepoint hx = Ok (utf8_enc (hex_val hx)).
Proof. intros Hne Hh Hv. rewrite (codepoint_all hx Hne Hh), Hv. reflexivity. Qed.

Theorem codepoint_invalid (hx : bytes) :
  hx <> [] -> forallb is_hex hx = true -> valid_scalar (hex_val hx) = false -> impl_codepoint hx = Err.
Proof. intros Hne Hh Hv. rewrite (codepoint_all hx Hne Hh), Hv. reflexivity. Qed.

Theorem codepoint_too_big (hx : bytes) :
  hx <> [] -> forallb is_hex hx = true -> 2 ^ 32 <= hex_val hx -> impl_codepoint hx = Err.
Proof.
  intros Hne Hh Hlt. apply codepoint_invalid; try assumption.
  unfold valid_scalar. change (2 ^ 32) with 4294967296 in Hlt. lia.
Qed.

(* ------------------------------------------------------------------ *)
(* float spellings: what the Go parsers read                            *)
(* ------------------------------------------------------------------ *)

Lemma span_app p a rest :
  forallb p a = true ->
  match rest with [] => True | c :: _ => p c = false end ->
  span p (a ++ rest) = (a, rest).
Proof.
  intros Ha Hr. induction a as [|x a IH]; cbn [app].
  - destruct rest as [|c r]; [reflexivity|]. cbn [span]. rewrite Hr. reflexivity.
  - cbn [forallb] in Ha. apply andb_true_iff in Ha as [Hx Ha]. cbn [span]. rewrite Hx, (IH Ha). reflexivity.
Qed.

Definition fdigit (hex : bool) : N -> bool := if hex then is_hex else is_dec.
Definition fbase (hex : bool) : N := if hex then 16 else 10.
(* clean (underscore-free) parts of a float spelling *)
Definition frac_part (fo : option bytes) : bytes := match fo with Some f => c_dot :: f | None => [] end.
Definition exp_char (hex up : bool) : N :=
  if hex then (if up then 80 else 112) else (if up then 69 else 101).
Definition esign_chars (s : option bool) : bytes :=
  match s with Some true => [c_minus] | Some false => [c_plus] | None => [] end.
Definition exp_part_chars (hex : bool) (eo : option (bool * option bool * bytes)) : bytes :=
  match eo with Some (up, sg, ds) => exp_char hex up :: esign_chars sg ++ ds | None => [] end.
Definition exp_part_val (eo : option (bool * option bool * bytes)) : Z :=
  match eo with
  | Some (_, sg, ds) => let v := Z.of_N (chars_val 10 ds 0) in match sg with Some true => (- v)%Z | _ => v end
  | None => 0%Z
  end.
Definition opt_ok {A} (p : A -> bool) (o : option A) : bool := match o with Some a => p a | None => true end.
Definition nonempty (s : bytes) : bool := match s with [] => false | _ => true end.

Lemma fdigit_dot hex : fdigit hex c_dot = false.
Proof. destruct hex; reflexivity. Qed.
Lemma fdigit_exp_char hex up : fdigit hex (exp_char hex up) = false.
Proof. destruct hex, up; reflexivity. Qed.

Lemma scan_exponent_clean sg ds :
  nonempty ds = true -> forallb is_dec ds = true ->
  scan_exponent (esign_chars sg ++ ds) = Some (exp_part_val (Some (false, sg, ds))).
Proof.
  intros Hne Hd. unfold scan_exponent, exp_part_val.
  assert (HE : exp_digits_val ds = Some (chars_val 10 ds 0)).
  { unfold exp_digits_val. destruct ds; [discriminate|]. rewrite Hd. reflexivity. }
  destruct sg as [[|]|]; cbn [esign_chars app].
  - change (c_minus =? c_minus) with true. cbv iota. rewrite HE. reflexivity.
  - change (c_plus =? c_minus) with false. change (c_plus =? c_plus) with true. cbv iota. rewrite HE. reflexivity.
  - destruct ds as [|d r]; [discriminate|]. cbn [forallb] in Hd. apply andb_true_iff in Hd as [Hd0 _].
    unfold is_dec in Hd0.
    replace (d =? c_minus) with false by (unfold c_minus; lia).
    replace (d =? c_plus) with false by (unfold c_plus; lia).
    rewrite HE. reflexivity.
Qed.

Lemma scan_float_clean hex need ic fo eo :
  nonempty ic = true -> forallb (fdigit hex) ic = true ->
  opt_ok (forallb (fdigit hex)) fo = true ->
  opt_ok (fun e => nonempty (snd e) && forallb is_dec (snd e)) eo = true ->
  (need = true -> eo <> None) ->
  scan_float hex need (ic ++ frac_part fo ++ exp_part_chars hex eo)
  = Some (chars_val (fbase hex) (ic ++ match fo with Some f => f | None => [] end) 0,
          (exp_part_val eo - Z.of_nat (length (match fo with Some f => f | None => [] end)) * (if hex then 4 else 1))%Z).
Proof.
  intros Hne Hic Hfo Heo Hneed.
  unfold scan_float. fold (fdigit hex). fold (fbase hex).
  (* integer part *)
  rewrite (span_app (fdigit hex) ic (frac_part fo ++ exp_part_chars hex eo) Hic).
  2:{ destruct fo as [f|]; cbn [frac_part app]; [apply fdigit_dot|].
      destruct eo as [[[up sg] ds]|]; cbn [exp_part_chars]; [apply fdigit_exp_char | exact I]. }
  (* the exponent part, once the fraction is gone *)
  assert (HX : forall ds (fcl : nat), nonempty ds = true ->
    match ds with
    | [] => None
    | n :: l =>
      match exp_part_chars hex eo with
      | [] => if need then None
              else Some (chars_val (fbase hex) (n :: l) 0, (- (Z.of_nat fcl * (if hex then 4 else 1)))%Z)
      | c :: r =>
        if (if hex then is_p c else is_e c) then
          match scan_exponent r with
          | Some e => Some (chars_val (fbase hex) (n :: l) 0, (e - Z.of_nat fcl * (if hex then 4 else 1))%Z)
          | None => None
          end
        else None
      end
    end = Some (chars_val (fbase hex) ds 0,
                (exp_part_val eo - Z.of_nat fcl * (if hex then 4 else 1))%Z)).
  { intros ds fcl Hn. destruct ds as [|x y]; [discriminate|]. clear Hn.
    destruct eo as [[[up sg] ds]|]; cbn [exp_part_chars].
    - cbn [opt_ok snd] in Heo. apply andb_true_iff in Heo as [Hn1 Hd1].
      replace (if hex then is_p (exp_char hex up) else is_e (exp_char hex up)) with true by (destruct hex, up; reflexivity).
      rewrite (scan_exponent_clean sg ds Hn1 Hd1). reflexivity.
    - destruct need; [exfalso; apply Hneed; reflexivity|]. cbn [exp_part_val]. f_equal. }
  destruct fo as [f|]; cbn [frac_part app].
  - change (c_dot =? c_dot) with true. cbv iota. cbn [opt_ok] in Hfo.
    rewrite (span_app (fdigit hex) f (exp_part_chars hex eo) Hfo).
    2:{ destruct eo as [[[up sg] ds]|]; cbn [exp_part_chars]; [apply fdigit_exp_char | exact I]. }
    apply HX. destruct ic; [discriminate | reflexivity].
  - assert (HN : match exp_part_chars hex eo with
                 | c :: r => if c =? c_dot then span (fdigit hex) r else ([], exp_part_chars hex eo)
                 | [] => ([], exp_part_chars hex eo)
                 end = ([], exp_part_chars hex eo)).
    { destruct eo as [[[up sg] ds]|]; cbn [exp_part_chars]; [|reflexivity].
      replace (exp_char hex up =? c_dot) with false by (destruct hex, up; reflexivity). reflexivity. }
    rewrite HN. rewrite !app_nil_r. apply (HX ic O). exact Hne.
Qed.

(* the clean parts of a float spelling tree *)
Definition fl_ic (l : float_lit) : bytes := dseq_chars (f_int l).
Definition fl_fo (l : float_lit) : option bytes := option_map dseq_chars (f_frac l).
Definition fl_eo (l : float_lit) : option (bool * option bool * bytes) :=
  option_map (fun e => (e_upper e, e_sign e, dseq_chars (e_digits e))) (f_exp l).
Definition fl_pfx (l : float_lit) : bytes :=
  match f_prefix l with Some up => prefix_chars B16 up | None => [] end.

Lemma fdigit_digit_ok hex c : fdigit hex c = digit_ok (if hex then B16 else B10) c.
Proof. destruct hex; reflexivity. Qed.

Lemma dseq_chars_nonempty d : nonempty (dseq_chars d) = true.
Proof. reflexivity. Qed.

Lemma strip_render_float l :
  float_lit_ok l = true ->
  strip_us (render_float l)
  = sign_chars (f_neg l) ++ fl_pfx l ++ fl_ic l ++ frac_part (fl_fo l) ++ exp_part_chars (f_hex l) (fl_eo l).
Proof.
  destruct l as [neg hex pfx ip fp ex]. unfold float_lit_ok, render_float, fl_pfx, fl_ic, fl_fo, fl_eo, fl_base.
  cbn [f_neg f_hex f_prefix f_int f_frac f_exp]. intro H.
  apply andb_true_iff in H as [H H4]. apply andb_true_iff in H as [H H3]. apply andb_true_iff in H as [H1 H2].
  rewrite !strip_us_app.
  assert (Es : strip_us (sign_chars neg) = sign_chars neg) by (destruct neg; reflexivity).
  assert (Ep : forall o : option bool, strip_us (match o with Some up => prefix_chars B16 up | None => [] end)
               = match o with Some up => prefix_chars B16 up | None => [] end) by (intros [[|]|]; reflexivity).
  rewrite Es, Ep.
  rewrite (strip_us_dseq _ _ H1).
  f_equal. f_equal. f_equal. f_equal.
  - destruct fp as [d|]; cbn [option_map frac_part]; [|reflexivity].
    rewrite strip_us_cons by reflexivity. rewrite (strip_us_dseq _ _ H2). reflexivity.
  - destruct ex as [[up sg ds]|]; cbn [option_map exp_part_chars]; [|reflexivity].
    unfold render_exp. cbn [e_upper e_sign e_digits] in *.
    rewrite strip_us_cons by (destruct hex, up; reflexivity).
    rewrite strip_us_app, (strip_us_dseq _ _ H3).
    unfold exp_char. destruct sg as [[|]|]; destruct hex, up; reflexivity.
Qed.

Lemma float_mant_clean l :
  float_mant l = chars_val (fbase (f_hex l)) (fl_ic l ++ match fl_fo l with Some f => f | None => [] end) 0.
Proof.
  unfold float_mant, fl_ic, fl_fo, frac_chars, fl_base, fbase. destruct (f_hex l), (f_frac l); reflexivity.
Qed.

Lemma float_exp_clean l :
  float_exp l = (exp_part_val (fl_eo l)
                 - Z.of_nat (length (match fl_fo l with Some f => f | None => [] end)) * (if f_hex l then 4 else 1))%Z.
Proof.
  unfold float_exp, exp_value, fl_eo, fl_fo, frac_chars, exp_part_val, dseq_val.
  destruct (f_exp l) as [[up sg ds]|], (f_frac l); cbn [option_map e_sign e_digits ibase_n]; reflexivity.
Qed.

(* the exponent the hex route always has after normalisation *)
Definition with_p0 (eo : option (bool * option bool * bytes)) : option (bool * option bool * bytes) :=
  match eo with None => Some (false, None, [48]) | _ => eo end.

Lemma exp_part_val_p0 eo : exp_part_val (with_p0 eo) = exp_part_val eo.
Proof. destruct eo as [[[? ?] ?]|]; reflexivity. Qed.

Lemma has_p_app a b : has_p (a ++ b) = has_p a || has_p b.
Proof. unfold has_p. apply existsb_app. Qed.

Lemma has_p_digits hex s : forallb (fdigit hex) s = true -> has_p s = false.
Proof.
  induction s as [|c r IH]; intro H; [reflexivity|]. cbn [forallb] in H. apply andb_true_iff in H as [Hc Hr].
  unfold has_p in *. cbn [existsb]. rewrite (IH Hr), orb_false_r.
  unfold is_p. destruct hex; cbn [fdigit] in Hc; unfold is_hex, is_dec, is_hexletter in Hc;
    destruct (lower_cases c) as [[? E]|[? E]]; rewrite E in *; lia.
Qed.

Definition ctx_ok (b16 : bool) (l : float_lit) : bool :=
  if b16 then f_hex l && match f_prefix l with None => true | Some _ => false end
  else Bool.eqb (f_hex l) (match f_prefix l with None => false | Some _ => true end).

(* the prefix after normalisation: "0x" is added in an x-array *)
Definition norm_pfx (l : float_lit) : bytes :=
  if f_hex l then match f_prefix l with Some up => prefix_chars B16 up | None => [48; 120] end else [].
Definition norm_eo (l : float_lit) := if f_hex l then with_p0 (fl_eo l) else fl_eo l.

Lemma float_ok_parts l :
  float_lit_ok l = true ->
  forallb (fdigit (f_hex l)) (fl_ic l) = true /\
  opt_ok (forallb (fdigit (f_hex l))) (fl_fo l) = true /\
  opt_ok (fun e => nonempty (snd e) && forallb is_dec (snd e)) (fl_eo l) = true.
Proof.
  destruct l as [neg hex pfx ip fp ex]. unfold float_lit_ok, fl_ic, fl_fo, fl_eo, fl_base, dseq_ok.
  cbn [f_neg f_hex f_prefix f_int f_frac f_exp]. intro H.
  apply andb_true_iff in H as [H H4]. apply andb_true_iff in H as [H H3]. apply andb_true_iff in H as [H1 H2].
  repeat split.
  - destruct hex; exact H1.
  - destruct fp; cbn [option_map opt_ok]; [destruct hex; exact H2 | reflexivity].
  - destruct ex as [[up sg ds]|]; cbn [option_map opt_ok snd e_digits] in *; [|reflexivity]. exact H3.
Qed.

Lemma normalize_render l b16 :
  float_lit_ok l = true -> ctx_ok b16 l = true ->
  normalize_float (render_float l) b16
  = sign_chars (f_neg l) ++ norm_pfx l ++ fl_ic l ++ frac_part (fl_fo l) ++ exp_part_chars (f_hex l) (norm_eo l).
Proof.
  intros Hok Hctx. destruct (float_ok_parts l Hok) as [Hic [Hfo Heo]].
  unfold normalize_float. rewrite (strip_render_float l Hok).
  unfold ctx_ok, norm_pfx, norm_eo, fl_pfx in *.
  set (ic := fl_ic l) in *. set (fo := fl_fo l) in *. set (eo := fl_eo l) in *.
  assert (Hicne : exists d0 ir, ic = d0 :: ir) by (unfold ic, fl_ic, dseq_chars; eauto).
  destruct Hicne as [d0 [ir Eic]].
  assert (Hd0 : fdigit (f_hex l) d0 = true) by (rewrite Eic in Hic; cbn [forallb] in Hic; apply andb_true_iff in Hic; tauto).
  assert (HP : f_hex l = true ->
               has_p (ic ++ frac_part fo ++ exp_part_chars (f_hex l) eo) = match eo with Some _ => true | None => false end).
  { intro Eh. rewrite !has_p_app, (has_p_digits _ _ Hic).
    replace (has_p (frac_part fo)) with false.
    2:{ destruct fo as [f|]; cbn [frac_part]; [|reflexivity]. cbn [opt_ok] in Hfo.
        unfold has_p. cbn [existsb]. fold (has_p f). rewrite (has_p_digits _ _ Hfo). reflexivity. }
    destruct eo as [[[up sg] ds]|]; cbn [exp_part_chars]; [|reflexivity].
    unfold has_p. cbn [existsb]. rewrite Eh. destruct up; reflexivity. }
  destruct (f_hex l) eqn:Eh; destruct (f_prefix l) as [up|] eqn:Ep; destruct b16; cbn [andb Bool.eqb] in Hctx; try discriminate.
  - (* prefixed hex in an implicit-base context *)
    cbn [orb].
    assert (E1 : is_neg_text (sign_chars (f_neg l) ++ prefix_chars B16 up ++ ic ++ frac_part fo ++ exp_part_chars true eo) = f_neg l)
      by (destruct (f_neg l), up; reflexivity).
    rewrite E1.
    assert (E2 : (if f_neg l then tl (sign_chars (f_neg l) ++ prefix_chars B16 up ++ ic ++ frac_part fo ++ exp_part_chars true eo)
                  else sign_chars (f_neg l) ++ prefix_chars B16 up ++ ic ++ frac_part fo ++ exp_part_chars true eo)
                 = prefix_chars B16 up ++ ic ++ frac_part fo ++ exp_part_chars true eo)
      by (destruct (f_neg l); reflexivity).
    rewrite E2.
    replace ((2 <? N.of_nat (length (prefix_chars B16 up ++ ic ++ frac_part fo ++ exp_part_chars true eo)))
             && hex_prefixed (prefix_chars B16 up ++ ic ++ frac_part fo ++ exp_part_chars true eo)) with true.
    2:{ rewrite Eic. destruct up; cbn [prefix_chars app length hex_prefixed]; symmetry; apply andb_true_iff; split; try reflexivity; lia. }
    rewrite has_p_app, has_p_app. replace (has_p (sign_chars (f_neg l))) with false by (destruct (f_neg l); reflexivity).
    replace (has_p (prefix_chars B16 up)) with false by (destruct up; reflexivity).
    cbn [orb]. rewrite (HP eq_refl).
    destruct eo as [[[up' sg] ds]|]; cbn [negb with_p0].
    + reflexivity.
    + cbn [exp_part_chars]. rewrite !app_nil_r. rewrite <- !app_assoc. reflexivity.
  - (* x-array: "0x" is inserted *)
    cbn [orb app].
    assert (E1 : is_neg_text (sign_chars (f_neg l) ++ ic ++ frac_part fo ++ exp_part_chars true eo) = f_neg l).
    { destruct (f_neg l); [reflexivity|]. rewrite Eic. cbn [sign_chars app is_neg_text].
      rewrite fdigit_digit_ok in Hd0. apply digit_ok_range in Hd0. unfold c_minus. lia. }
    rewrite E1.
    assert (E3 : (if f_neg l
                  then 45 :: 48 :: 120 :: (if f_neg l then tl (sign_chars (f_neg l) ++ ic ++ frac_part fo ++ exp_part_chars true eo)
                                           else sign_chars (f_neg l) ++ ic ++ frac_part fo ++ exp_part_chars true eo)
                  else 48 :: 120 :: sign_chars (f_neg l) ++ ic ++ frac_part fo ++ exp_part_chars true eo)
                 = sign_chars (f_neg l) ++ [48; 120] ++ ic ++ frac_part fo ++ exp_part_chars true eo)
      by (destruct (f_neg l); reflexivity).
    rewrite E3.
    rewrite has_p_app, has_p_app. replace (has_p (sign_chars (f_neg l))) with false by (destruct (f_neg l); reflexivity).
    change (has_p [48; 120]) with false. cbn [orb]. rewrite (HP eq_refl).
    destruct eo as [[[up' sg] ds]|]; cbn [negb with_p0].
    + reflexivity.
    + cbn [exp_part_chars]. rewrite !app_nil_r. rewrite <- !app_assoc. reflexivity.
  - (* decimal *)
    cbn [orb app].
    assert (E1 : is_neg_text (sign_chars (f_neg l) ++ ic ++ frac_part fo ++ exp_part_chars false eo) = f_neg l).
    { destruct (f_neg l); [reflexivity|]. rewrite Eic. cbn [sign_chars app is_neg_text].
      cbn [fdigit] in Hd0. unfold is_dec, c_minus in *. lia. }
    rewrite E1.
    assert (E2 : (if f_neg l then tl (sign_chars (f_neg l) ++ ic ++ frac_part fo ++ exp_part_chars false eo)
                  else sign_chars (f_neg l) ++ ic ++ frac_part fo ++ exp_part_chars false eo)
                 = ic ++ frac_part fo ++ exp_part_chars false eo) by (destruct (f_neg l); reflexivity).
    rewrite E2.
    replace (hex_prefixed (ic ++ frac_part fo ++ exp_part_chars false eo)) with false; [rewrite andb_false_r; reflexivity|].
    rewrite Eic. cbn [app hex_prefixed fdigit] in *.
    destruct (ir ++ frac_part fo ++ exp_part_chars false eo) as [|c2 r2] eqn:E; [reflexivity|].
    assert (Hc2 : lower c2 <> 120).
    { destruct ir as [|i1 ir'].
      - cbn [app] in E. destruct fo as [f|]; cbn [frac_part app] in E.
        + injection E as <- _. discriminate.
        + destruct eo as [[[up' sg] ds]|]; cbn [exp_part_chars] in E; [|discriminate].
          injection E as <- _. destruct up'; discriminate.
      - cbn [app] in E. injection E as <- _. rewrite Eic in Hic. cbn [forallb fdigit] in Hic.
        apply andb_true_iff in Hic as [_ Hic]. apply andb_true_iff in Hic as [Hi1 _]. unfold is_dec in Hi1.
        destruct (lower_cases i1) as [[? E']|[? E']]; rewrite E'; lia. }
    lia.
Qed.

Lemma dec_second_char d0 ir fo eo c2 r2 :
  forallb is_dec (d0 :: ir) = true ->
  ir ++ frac_part fo ++ exp_part_chars false eo = c2 :: r2 -> lower c2 <> 120.
Proof.
  intros Hic E. destruct ir as [|i1 ir'].
  - cbn [app] in E. destruct fo as [f|]; cbn [frac_part app] in E.
    + injection E as <- _. discriminate.
    + destruct eo as [[[up' sg] ds]|]; cbn [exp_part_chars] in E; [|discriminate].
      injection E as <- _. destruct up'; discriminate.
  - cbn [app] in E. injection E as <- _. cbn [forallb] in Hic.
    apply andb_true_iff in Hic as [_ Hic]. apply andb_true_iff in Hic as [Hi1 _]. unfold is_dec in Hi1.
    destruct (lower_cases i1) as [[? E']|[? E']]; rewrite E'; lia.
Qed.

Lemma parse_normalized l b16 :
  float_lit_ok l = true -> ctx_ok b16 l = true ->
  let str := normalize_float (render_float l) b16 in
  is_neg_text str = f_neg l /\
  go_parse_float_parts (if f_neg l then tl str else str) = Some (false, f_hex l, float_mant l, float_exp l).
Proof.
  intros Hok Hctx. cbv zeta. rewrite (normalize_render l b16 Hok Hctx).
  destruct (float_ok_parts l Hok) as [Hic [Hfo Heo]].
  rewrite float_mant_clean, float_exp_clean.
  unfold norm_pfx, norm_eo.
  set (ic := fl_ic l) in *. set (fo := fl_fo l) in *. set (eo := fl_eo l) in *.
  assert (Hicne : exists d0 ir, ic = d0 :: ir) by (unfold ic, fl_ic, dseq_chars; eauto).
  destruct Hicne as [d0 [ir Eic]].
  assert (Hne : nonempty ic = true) by (rewrite Eic; reflexivity).
  destruct (f_hex l) eqn:Eh.
  - (* hex *)
    set (px := match f_prefix l with Some up => prefix_chars B16 up | None => [48; 120] end).
    assert (Epx : exists x, px = [48; x] /\ lower x = 120).
    { unfold px. destruct (f_prefix l) as [[|]|]; cbn [prefix_chars]; eexists; split; reflexivity. }
    destruct Epx as [x [Epx Hx]]. rewrite Epx.
    split.
    + destruct (f_neg l); reflexivity.
    + assert (G : go_parse_float_parts (48 :: x :: ic ++ frac_part fo ++ exp_part_chars true (with_p0 eo))
                  = Some (false, true,
                          chars_val (fbase true) (ic ++ match fo with Some f => f | None => [] end) 0,
                          (exp_part_val eo - Z.of_nat (length match fo with Some f => f | None => [] end) * 4)%Z)).
      { unfold go_parse_float_parts.
        change (48 =? c_minus) with false. change (48 =? c_plus) with false. cbv iota.
        rewrite Eic. cbn [app]. rewrite Hx. change ((48 =? 48) && (120 =? 120)) with true. cbv iota.
        cbn [skipn].
        change (d0 :: ir ++ frac_part fo ++ exp_part_chars true (with_p0 eo))
          with ((d0 :: ir) ++ frac_part fo ++ exp_part_chars true (with_p0 eo)). rewrite <- Eic.
        rewrite (scan_float_clean true true ic fo (with_p0 eo) Hne Hic Hfo).
        * rewrite exp_part_val_p0. rewrite Eic. reflexivity.
        * destruct eo as [[[? ?] ?]|]; [exact Heo | reflexivity].
        * intros _. destruct eo as [[[? ?] ?]|]; discriminate. }
      destruct (f_neg l); cbn [sign_chars app tl]; exact G.
  - (* decimal *)
    cbn [app]. cbn [fdigit] in Hic.
    assert (Hd0 : is_dec d0 = true) by (rewrite Eic in Hic; cbn [forallb] in Hic; apply andb_true_iff in Hic; tauto).
    split.
    + destruct (f_neg l); [reflexivity|]. rewrite Eic. cbn [sign_chars app is_neg_text].
      unfold is_dec, c_minus in *. lia.
    + assert (G : go_parse_float_parts (ic ++ frac_part fo ++ exp_part_chars false eo)
                  = Some (false, false,
                          chars_val (fbase false) (ic ++ match fo with Some f => f | None => [] end) 0,
                          (exp_part_val eo - Z.of_nat (length match fo with Some f => f | None => [] end) * 1)%Z)).
      { unfold go_parse_float_parts.
        assert (E0 : exists rr, ic ++ frac_part fo ++ exp_part_chars false eo = d0 :: rr
                                /\ rr = ir ++ frac_part fo ++ exp_part_chars false eo)
          by (rewrite Eic; cbn [app]; eauto).
        destruct E0 as [rr [E0 Err]]. rewrite E0.
        replace (d0 =? c_minus) with false by (unfold is_dec, c_minus in *; lia).
        replace (d0 =? c_plus) with false by (unfold is_dec, c_plus in *; lia).
        assert (Hnh' : match d0 :: rr with
                       | z :: c :: _ :: _ => (z =? 48) && (lower c =? 120)
                       | _ => false
                       end = false).
        { destruct rr as [|c2 [|c3 r3]]; [reflexivity | reflexivity |].
          symmetry in Err. rewrite Eic in Hic. pose proof (dec_second_char d0 ir fo eo c2 _ Hic Err). lia. }
        rewrite Hnh'. rewrite <- E0.
        rewrite (scan_float_clean false false ic fo eo Hne Hic Hfo Heo) by discriminate.
        reflexivity. }
      destruct (f_neg l); cbn [sign_chars app tl]; exact G.
Qed.

(* ------------------------------------------------------------------ *)
(* array elements: floats                                               *)
(* ------------------------------------------------------------------ *)

Lemma big_underflows_bounded mant exp : (- 2 ^ 29 <= exp)%Z -> big_underflows mant exp = false.
Proof.
  intro H. unfold big_underflows, log2_10_num, log2_10_den.
  assert (Hdiv : (- 2 ^ 31 <= exp * 3321928094887362347870319429 / 1000000000000000000000000000)%Z).
  { apply Z.div_le_lower_bound; [lia|]. change (2 ^ 29)%Z with 536870912%Z in H. change (2 ^ 31)%Z with 2147483648%Z. lia. }
  change (2 ^ 31)%Z with 2147483648%Z in *.
  destruct (exp <? 0)%Z; [|reflexivity]. cbn [andb].
  apply andb_false_iff. right. apply Z.ltb_ge. lia.
Qed.

Section FloatElemProofs.
  Variable round : N -> bool -> N -> Z -> N.

  Theorem float_elem_exact (b16 : bool) (bits : N) (l : float_lit) :
    bits = 32 \/ bits = 64 ->
    float_lit_ok l = true -> ctx_ok b16 l = true ->
    (- 2 ^ 29 <= float_exp l)%Z ->
    impl_float_elem round b16 bits (render_float l) = spec_float_elem round bits l.
  Proof.
    intros Hbits Hok Hctx Hexp.
    destruct (parse_normalized l b16 Hok Hctx) as [Hneg Hparse]. cbv zeta in Hneg, Hparse.
    unfold impl_float_elem.
    assert (Hs : strip_us (render_float l) <> []).
    { rewrite (strip_render_float l Hok). unfold fl_ic, dseq_chars.
      destruct (sign_chars (f_neg l)), (fl_pfx l); cbn [app]; discriminate. }
    assert (Hm : forall (A : Type) (e y : A),
               match strip_us (render_float l) with [] => e | _ :: _ => y end = y).
    { intros A e y. destruct (strip_us (render_float l)); [congruence | reflexivity]. }
    rewrite Hm. cbv zeta. rewrite Hneg.
    match goal with
    | |- match ?g with _ => _ end = _ =>
      replace g with (Some (false, f_hex l, float_mant l, float_exp l)) by (symmetry; exact Hparse)
    end.
    rewrite xorb_false_r.
    unfold float_elem_bits, spec_float_elem, is_float_zero.
    rewrite (big_underflows_bounded _ _ Hexp), andb_false_r, orb_false_r.
    destruct Hbits as [-> | ->]; reflexivity.
  Qed.
End FloatElemProofs.

(* ------------------------------------------------------------------ *)
(* ExitValueFloat, decimal spellings: compact_float.DFloatFromString    *)
(* ------------------------------------------------------------------ *)

Lemma chars_val_app b a c acc : chars_val b (a ++ c) acc = chars_val b c (chars_val b a acc).
Proof. revert acc; induction a as [|x a IH]; intro acc; cbn [app chars_val]; [reflexivity | apply IH]. Qed.

Lemma chars_val_ge b s acc : 1 <= b -> acc <= chars_val b s acc.
Proof.
  intro Hb. revert acc; induction s as [|c r IH]; intro acc; cbn [chars_val]; [lia|].
  etransitivity; [|apply IH]. nia.
Qed.

(* the digit loop of decodeSignificand / decodeFractional *)
Fixpoint df_run (ds : bytes) (sig : N) : option N :=
  match ds with
  | [] => Some sig
  | c :: r => match df_next sig c with Some nx => df_run r nx | None => None end
  end.

Lemma dec_digit_val c : is_dec c = true -> digit_val c = Some (c - 48).
Proof. intro H. unfold digit_val. rewrite H. reflexivity. Qed.

Lemma df_run_ok ds sig :
  forallb is_dec ds = true -> chars_val 10 ds sig <= i63max ->
  df_run ds sig = Some (chars_val 10 ds sig).
Proof.
  revert sig; induction ds as [|c r IH]; intros sig Hd Hle; cbn [df_run chars_val] in *; [reflexivity|].
  cbn [forallb] in Hd. apply andb_true_iff in Hd as [Hc Hr].
  rewrite (dec_digit_val c Hc) in *.
  pose proof (chars_val_ge 10 r (sig * 10 + (c - 48)) ltac:(lia)) as Hge.
  unfold df_next, i63max in *.
  change (2 ^ 64) with 18446744073709551616. change (2 ^ 63 - 1) with 9223372036854775807 in *.
  rewrite N.mod_small by lia.
  replace (9223372036854775807 <? sig * 10 + (c - 48)) with false by lia.
  apply IH; assumption.
Qed.

Lemma df_run_fail ds sig :
  forallb is_dec ds = true -> sig <= i63max ->
  i63max < chars_val 10 ds sig -> chars_val 10 ds sig < 2 ^ 64 ->
  df_run ds sig = None.
Proof.
  revert sig; induction ds as [|c r IH]; intros sig Hd Hs Hgt Hlt; cbn [df_run chars_val] in *; [lia|].
  cbn [forallb] in Hd. apply andb_true_iff in Hd as [Hc Hr].
  rewrite (dec_digit_val c Hc) in *.
  pose proof (chars_val_ge 10 r (sig * 10 + (c - 48)) ltac:(lia)) as Hge.
  unfold df_next, i63max in *.
  change (2 ^ 64) with 18446744073709551616 in *. change (2 ^ 63 - 1) with 9223372036854775807 in *.
  rewrite N.mod_small by lia.
  destruct (9223372036854775807 <? sig * 10 + (c - 48)) eqn:E; [reflexivity|].
  apply IH; try assumption. lia.
Qed.

Lemma df_run_app a b sig :
  df_run (a ++ b) sig = match df_run a sig with Some s => df_run b s | None => None end.
Proof.
  revert sig; induction a as [|c r IH]; intro sig; cbn [app df_run]; [reflexivity|].
  destruct (df_next sig c); [apply IH | reflexivity].
Qed.

Lemma dec_not_dot_e c : is_dec c = true -> (c =? c_dot) = false /\ is_e c = false.
Proof.
  unfold is_dec, c_dot, is_e. intro H. split; [lia|].
  destruct (lower_cases c) as [[? E]|[? E]]; rewrite E; lia.
Qed.

Lemma df_sig_app ds rest sig :
  forallb is_dec ds = true ->
  df_sig (ds ++ rest) sig = match df_run ds sig with Some s => df_sig rest s | None => DFail end.
Proof.
  revert sig; induction ds as [|c r IH]; intros sig Hd; cbn [app df_run]; [reflexivity|].
  cbn [forallb] in Hd. apply andb_true_iff in Hd as [Hc Hr].
  cbn [df_sig]. destruct (dec_not_dot_e c Hc) as [E1 E2]. rewrite E1, E2, Hc.
  destruct (df_next sig c); [apply IH, Hr | reflexivity].
Qed.

Lemma df_frac_app ds rest sig fr :
  forallb is_dec ds = true ->
  df_frac (ds ++ rest) sig fr
  = match df_run ds sig with Some s => df_frac rest s (fr + N.of_nat (length ds)) | None => DFail end.
Proof.
  revert sig fr; induction ds as [|c r IH]; intros sig fr Hd; cbn [app df_run length].
  - f_equal. lia.
  - cbn [forallb] in Hd. apply andb_true_iff in Hd as [Hc Hr].
    cbn [df_frac]. destruct (dec_not_dot_e c Hc) as [E1 E2]. rewrite E2, Hc.
    destruct (df_next sig c); [|reflexivity]. rewrite (IH _ _ Hr). destruct (df_run r n); [|reflexivity].
    f_equal. lia.
Qed.

Lemma df_exp_digits_ok ds e :
  forallb is_dec ds = true -> chars_val 10 ds e <= 2147483647 ->
  df_exp_digits ds e = Some (chars_val 10 ds e).
Proof.
  revert e; induction ds as [|c r IH]; intros e Hd Hle; cbn [df_exp_digits chars_val] in *; [reflexivity|].
  cbn [forallb] in Hd. apply andb_true_iff in Hd as [Hc Hr]. rewrite Hc.
  rewrite (dec_digit_val c Hc) in *.
  pose proof (chars_val_ge 10 r (e * 10 + (c - 48)) ltac:(lia)) as Hge.
  replace (2147483647 <? e * 10 + (c - 48)) with false by lia.
  apply IH; assumption.
Qed.

Lemma df_exponent_ok sg ds :
  nonempty ds = true -> forallb is_dec ds = true -> chars_val 10 ds 0 <= 2147483647 ->
  df_exponent (esign_chars sg ++ ds) = Some (exp_part_val (Some (false, sg, ds))).
Proof.
  intros Hne Hd Hle. unfold df_exponent, exp_part_val.
  pose proof (df_exp_digits_ok ds 0 Hd Hle) as HE.
  destruct sg as [[|]|]; cbn [esign_chars app].
  - change (c_minus =? c_minus) with true. cbv iota. rewrite HE. reflexivity.
  - change (c_plus =? c_minus) with false. change (c_plus =? c_plus) with true. cbv iota. rewrite HE. reflexivity.
  - destruct ds as [|d r]; [discriminate|]. cbn [forallb] in Hd. apply andb_true_iff in Hd as [Hd0 _].
    unfold is_dec in Hd0.
    replace (d =? c_minus) with false by (unfold c_minus; lia).
    replace (d =? c_plus) with false by (unfold c_plus; lia).
    rewrite HE. reflexivity.
Qed.

Definition exp_digits_small (eo : option (bool * option bool * bytes)) : Prop :=
  match eo with Some (_, _, ds) => chars_val 10 ds 0 <= 2147483647 | None => True end.

(* the whole significand scan on a clean decimal spelling *)
Lemma df_sig_clean ic fo eo :
  forallb is_dec ic = true -> opt_ok (forallb is_dec) fo = true ->
  opt_ok (fun e => nonempty (snd e) && forallb is_dec (snd e)) eo = true ->
  exp_digits_small eo ->
  df_sig (ic ++ frac_part fo ++ exp_part_chars false eo) 0
  = match df_run (ic ++ match fo with Some f => f | None => [] end) 0 with
    | Some s => DOk s (N.of_nat (length (match fo with Some f => f | None => [] end))) (exp_part_val eo)
    | None => DFail
    end.
Proof.
  intros Hic Hfo Heo Hsm.
  assert (HE : forall sig fr,
             match exp_part_chars false eo with
             | [] => DOk sig fr 0
             | c :: r => if is_e c then match df_exponent r with Some e => DOk sig fr e | None => DFail end
                         else DFail
             end = DOk sig fr (exp_part_val eo)).
  { intros sig fr. destruct eo as [[[up sg] ds]|]; cbn [exp_part_chars]; [|reflexivity].
    cbn [opt_ok snd] in Heo. apply andb_true_iff in Heo as [Hn Hd]. cbn [exp_digits_small] in Hsm.
    replace (is_e (exp_char false up)) with true by (destruct up; reflexivity).
    rewrite (df_exponent_ok sg ds Hn Hd Hsm). reflexivity. }
  rewrite (df_sig_app ic _ 0 Hic), df_run_app.
  destruct (df_run ic 0) as [s|]; [|reflexivity].
  destruct fo as [f|]; cbn [frac_part app].
  - cbn [df_sig]. change (c_dot =? c_dot) with true. cbv iota. cbn [opt_ok] in Hfo.
    rewrite (df_frac_app f _ s 0 Hfo). destruct (df_run f s) as [s'|]; [|reflexivity].
    cbn [N.add].
    destruct (exp_part_chars false eo) as [|c r] eqn:EE.
    + cbn [df_frac]. specialize (HE s' (N.of_nat (length f))). exact HE.
    + cbn [df_frac]. specialize (HE s' (N.of_nat (length f))).
      destruct (is_e c) eqn:Ec; [exact HE | discriminate].
  - cbn [df_run length]. destruct (exp_part_chars false eo) as [|c r] eqn:EE.
    + cbn [df_sig]. specialize (HE s 0). exact HE.
    + specialize (HE s 0). destruct (is_e c) eqn:Ec; [|discriminate].
      cbn [df_sig]. rewrite Ec.
      assert (Hnd : (c =? c_dot) = false).
      { destruct eo as [[[up sg] ds]|]; cbn [exp_part_chars] in EE; [|discriminate].
        injection EE as <- _. destruct up; reflexivity. }
      rewrite Hnd. exact HE.
Qed.

Lemma normalized_dec l :
  float_lit_ok l = true -> f_hex l = false -> f_prefix l = None ->
  let body := fl_ic l ++ frac_part (fl_fo l) ++ exp_part_chars false (fl_eo l) in
  let str := normalize_float (render_float l) false in
  is_neg_text str = f_neg l /\ (if f_neg l then tl str else str) = body /\ str = sign_chars (f_neg l) ++ body
  /\ hex_prefixed body = false.
Proof.
  intros Hok Hh Hp. cbv zeta.
  assert (Hctx : ctx_ok false l = true) by (unfold ctx_ok; rewrite Hh, Hp; reflexivity).
  rewrite (normalize_render l false Hok Hctx). unfold norm_pfx, norm_eo. rewrite Hh. cbn [app].
  destruct (float_ok_parts l Hok) as [Hic _]. rewrite Hh in Hic. cbn [fdigit] in Hic.
  set (ic := fl_ic l) in *. set (fo := fl_fo l). set (eo := fl_eo l).
  assert (Hicne : exists d0 ir, ic = d0 :: ir) by (unfold ic, fl_ic, dseq_chars; eauto).
  destruct Hicne as [d0 [ir Eic]].
  assert (Hd0 : is_dec d0 = true) by (rewrite Eic in Hic; cbn [forallb] in Hic; apply andb_true_iff in Hic; tauto).
  split; [|split; [|split]].
  - destruct (f_neg l); [reflexivity|]. rewrite Eic. cbn [sign_chars app is_neg_text]. unfold is_dec, c_minus in *. lia.
  - destruct (f_neg l); reflexivity.
  - reflexivity.
  - rewrite Eic. cbn [app hex_prefixed].
    destruct (ir ++ frac_part fo ++ exp_part_chars false eo) as [|c2 r2] eqn:E; [reflexivity|].
    rewrite Eic in Hic. pose proof (dec_second_char d0 ir fo eo c2 r2 Hic E). lia.
Qed.

Lemma wrap32_small z : (-2147483648 <= z < 2147483648)%Z -> wrap32 z = z.
Proof.
  intro H. unfold wrap32. change (2 ^ 31)%Z with 2147483648%Z in *. change (2 ^ 32)%Z with 4294967296%Z.
  rewrite Z.mod_small by lia. lia.
Qed.

Lemma df_minimize_spec fuel (neg : bool) c e :
  c <> 0 -> (-2147483648 <= e)%Z -> (e + Z.of_nat fuel < 2147483648)%Z ->
  df_minimize fuel (if neg then (- Z.of_N c)%Z else Z.of_N c) e
  = let '(c', e') := dec_minimize fuel c e in ((if neg then (- Z.of_N c')%Z else Z.of_N c'), e').
Proof.
  revert c e; induction fuel as [|f IH]; intros c e Hc Hlo Hhi; cbn [df_minimize dec_minimize]; [reflexivity|].
  assert (Hrem : (Z.rem (if neg then (- Z.of_N c)%Z else Z.of_N c) 10 =? 0)%Z = (c mod 10 =? 0)).
  { assert (Hr : Z.rem (Z.of_N c) 10 = Z.of_N (c mod 10)).
    { rewrite Z.rem_mod_nonneg by lia. rewrite N2Z.inj_mod. reflexivity. }
    destruct neg; [rewrite Z.rem_opp_l by lia|]; rewrite Hr; lia. }
  rewrite Hrem. replace (negb (c =? 0)) with true by lia. rewrite andb_true_r.
  destruct (c mod 10 =? 0) eqn:Em; [|reflexivity].
  assert (Hq : Z.quot (if neg then (- Z.of_N c)%Z else Z.of_N c) 10
               = if neg then (- Z.of_N (c / 10))%Z else Z.of_N (c / 10)).
  { assert (Hr : Z.quot (Z.of_N c) 10 = Z.of_N (c / 10)).
    { rewrite Z.quot_div_nonneg by lia. rewrite N2Z.inj_div. reflexivity. }
    destruct neg; [rewrite Z.quot_opp_l by lia|]; rewrite Hr; reflexivity. }
  rewrite Hq, wrap32_small by lia.
  apply IH; try lia;
    intro H0; assert (c = 10 * (c / 10) + c mod 10) by (apply N.div_mod; lia); lia.
Qed.

Theorem decimal_float_small_exact (l : float_lit) :
  float_lit_ok l = true -> f_hex l = false -> f_prefix l = None ->
  float_mant l <= 2 ^ 63 - 1 ->
  (Z.abs (exp_value l) < 2 ^ 29)%Z -> (Z.of_nat (length (frac_chars l)) < 2 ^ 29)%Z ->
  impl_float (render_float l) = Ok (spec_dec_small l).
Proof.
  intros Hok Hh Hp Hm He Hf.
  destruct (normalized_dec l Hok Hh Hp) as [Hneg [Hns [Hstr Hhp]]]. cbv zeta in *.
  destruct (float_ok_parts l Hok) as [Hic [Hfo Heo]]. rewrite Hh in Hic, Hfo. cbn [fdigit] in Hic, Hfo.
  unfold impl_float.
  assert (Hs : strip_us (render_float l) <> []).
  { rewrite (strip_render_float l Hok). unfold fl_ic, dseq_chars.
    destruct (sign_chars (f_neg l)), (fl_pfx l); cbn [app]; discriminate. }
  assert (Hmm : forall (A : Type) (e y : A),
             match strip_us (render_float l) with [] => e | _ :: _ => y end = y).
  { intros A e y. destruct (strip_us (render_float l)); [congruence | reflexivity]. }
  rewrite Hmm. cbv zeta. rewrite Hneg, Hns, Hhp.
  (* DFloatFromString *)
  assert (HD : dfloat_from_string (normalize_float (render_float l) false)
               = match spec_dec_small l with RDec c e => Some (c, e) | _ => None end).
  { unfold dfloat_from_string. rewrite Hneg, Hns.
    assert (Hsm : exp_digits_small (fl_eo l)).
    { unfold exp_digits_small, fl_eo. unfold exp_value, dseq_val in He.
      destruct (f_exp l) as [[up sg ds]|]; cbn [option_map]; [|exact I].
      cbn [e_sign e_digits ibase_n] in He. cbv zeta in He. change (2 ^ 29)%Z with 536870912%Z in He.
      cbn [e_upper e_sign e_digits]. destruct sg as [[|]|]; lia. }
    rewrite (df_sig_clean _ _ _ Hic Hfo Heo Hsm).
    pose proof (float_mant_clean l) as EM. rewrite Hh in EM. cbn [fbase] in EM.
    assert (HR : df_run (fl_ic l ++ match fl_fo l with Some f => f | None => [] end) 0 = Some (float_mant l)).
    { rewrite EM. apply df_run_ok.
      - rewrite forallb_app, Hic. destruct (fl_fo l); [exact Hfo | reflexivity].
      - rewrite <- EM. exact Hm. }
    match goal with |- context [df_run ?a 0] => replace (df_run a 0) with (Some (float_mant l)) by (symmetry; exact HR) end.
    cbv beta iota.
    pose proof (float_exp_clean l) as EE. rewrite Hh in EE. rewrite Z.mul_1_r in EE.
    match goal with
    | |- context [wrap32 ?z] => replace z with (float_exp l) by (rewrite EE, nat_N_Z; reflexivity)
    end.
    assert (Hfe : (-2147483648 < float_exp l - 21 /\ float_exp l + 21 < 2147483648)%Z).
    { unfold float_exp. rewrite Hh. cbv iota. change (2 ^ 29)%Z with 536870912%Z in *. lia. }
    unfold spec_dec_small, dec_neg_zero.
    destruct (float_mant l =? 0) eqn:E0.
    - destruct (f_neg l); cbn [andb]; [reflexivity|].
      unfold df_minimized. rewrite wrap32_small by lia.
      replace (float_exp l =? exp_special)%Z with false by (unfold exp_special; change (2 ^ 31)%Z with 2147483648%Z; lia).
      assert (float_mant l = 0) by lia. replace (Z.of_N (float_mant l) =? 0)%Z with true by lia. reflexivity.
    - rewrite andb_false_l. unfold df_minimized. rewrite wrap32_small by lia.
      replace (float_exp l =? exp_special)%Z with false by (unfold exp_special; change (2 ^ 31)%Z with 2147483648%Z; lia).
      replace ((if f_neg l then (- Z.of_N (float_mant l))%Z else Z.of_N (float_mant l)) =? 0)%Z with false
        by (destruct (f_neg l); lia).
      rewrite (df_minimize_spec 20 (f_neg l)) by lia.
      destruct (dec_minimize 20 (float_mant l) (float_exp l)) as [c e]. reflexivity. }
  rewrite HD. unfold spec_dec_small, dec_neg_zero.
  destruct (float_mant l =? 0); [destruct (f_neg l); reflexivity|].
  destruct (dec_minimize 20 (float_mant l) (float_exp l)); reflexivity.
Qed.

Lemma dec_minimize_value fuel c e :
  let '(c', e') := dec_minimize fuel c e in (e <= e')%Z /\ c = c' * 10 ^ Z.to_N (e' - e).
Proof.
  revert c e; induction fuel as [|f IH]; intros c e; cbn [dec_minimize].
  - split; [lia|]. replace (Z.to_N (e - e)) with 0 by lia. rewrite N.pow_0_r. lia.
  - destruct ((c mod 10 =? 0) && negb (c =? 0)) eqn:E.
    + specialize (IH (c / 10) (e + 1)%Z). destruct (dec_minimize f (c / 10) (e + 1)) as [c' e'].
      destruct IH as [Hle Hc]. split; [lia|].
      replace (Z.to_N (e' - e)) with (N.succ (Z.to_N (e' - (e + 1)))) by lia.
      rewrite N.pow_succ_r'. assert (c = 10 * (c / 10) + c mod 10) by (apply N.div_mod; lia).
      assert (c mod 10 = 0) by lia. nia.
    + split; [lia|]. replace (Z.to_N (e - e)) with 0 by lia. rewrite N.pow_0_r. lia.
Qed.

(* ------------------------------------------------------------------ *)
(* decimal spellings with a coefficient beyond int64: apd               *)
(* ------------------------------------------------------------------ *)

Lemma go_parse_int_dec10 sg ds :
  nonempty ds = true -> forallb is_dec ds = true -> chars_val 10 ds 0 < 2 ^ 31 ->
  go_parse_int (esign_chars sg ++ ds) 10 32 = Some (exp_part_val (Some (false, sg, ds))).
Proof.
  intros Hne Hd Hlt.
  assert (HU : go_parse_uint ds 10 32 = Some (chars_val 10 ds 0)).
  { unfold go_parse_uint. destruct ds as [|c r]; [discriminate|].
    change (10 =? 0) with false. cbv iota. cbn [andb].
    change 10 with (ibase_n B10). rewrite (go_digits_chars B10 false (c :: r) 0 Hd). cbv beta iota.
    change (ibase_n B10) with 10. change (2 ^ 31) with 2147483648 in Hlt. change (2 ^ 32) with 4294967296.
    replace (chars_val 10 (c :: r) 0 <? 4294967296) with true by lia. reflexivity. }
  unfold go_parse_int, exp_part_val. change (2 ^ (32 - 1)) with 2147483648. change (2 ^ 31) with 2147483648 in Hlt.
  destruct sg as [[|]|]; cbn [esign_chars app].
  - change (c_minus =? c_plus) with false. change (c_minus =? c_minus) with true. cbv iota. rewrite HU.
    replace (chars_val 10 ds 0 <=? 2147483648) with true by lia. reflexivity.
  - change (c_plus =? c_plus) with true. cbv iota. rewrite HU.
    replace (chars_val 10 ds 0 <? 2147483648) with true by lia. reflexivity.
  - destruct ds as [|d r] eqn:Eds; [discriminate|]. cbn [forallb] in Hd. apply andb_true_iff in Hd as [Hd0 _].
    unfold is_dec in Hd0.
    replace (d =? c_plus) with false by (unfold c_plus; lia).
    replace (d =? c_minus) with false by (unfold c_minus; lia).
    rewrite HU. replace (chars_val 10 (d :: r) 0 <? 2147483648) with true by lia. reflexivity.
Qed.

Lemma drop_lead0_length s : (length (drop_lead0 s) <= length s)%nat.
Proof. induction s as [|c r IH]; cbn [drop_lead0 length]; [lia|]. destruct (c =? 48); cbn [length]; lia. Qed.

Lemma apd_clean ic fo eo :
  nonempty ic = true -> forallb is_dec ic = true -> opt_ok (forallb is_dec) fo = true ->
  opt_ok (fun e => nonempty (snd e) && forallb is_dec (snd e)) eo = true ->
  (Z.abs (exp_part_val eo) <= 90000)%Z ->
  (length (ic ++ match fo with Some f => f | None => [] end) <= 5000)%nat ->
  apd_from_string (ic ++ frac_part fo ++ exp_part_chars false eo)
  = Some (chars_val 10 (ic ++ match fo with Some f => f | None => [] end) 0,
          (exp_part_val eo - Z.of_nat (length (match fo with Some f => f | None => [] end)))%Z).
Proof.
  intros Hne Hic Hfo Heo Hexp Hlen.
  unfold apd_from_string.
  (* mantissa / exponent split *)
  assert (Hms : forallb (fun c => negb (is_e c)) (ic ++ frac_part fo) = true).
  { rewrite forallb_app. apply andb_true_iff. split.
    - rewrite forallb_forall in *. intros c Hc. destruct (dec_not_dot_e c (Hic c Hc)) as [_ E]. rewrite E. reflexivity.
    - destruct fo as [f|]; cbn [frac_part forallb]; [|reflexivity]. cbn [opt_ok] in Hfo.
      change (negb (is_e c_dot)) with true. cbn [andb].
      rewrite forallb_forall in *. intros c Hc. destruct (dec_not_dot_e c (Hfo c Hc)) as [_ E]. rewrite E. reflexivity. }
  rewrite app_assoc.
  rewrite (span_app (fun c => negb (is_e c)) (ic ++ frac_part fo) (exp_part_chars false eo) Hms).
  2:{ destruct eo as [[[up sg] ds]|]; cbn [exp_part_chars]; [destruct up; reflexivity | exact I]. }
  assert (HE : match exp_part_chars false eo with
               | [] => Some 0%Z
               | _ :: r => go_parse_int r 10 32
               end = Some (exp_part_val eo)).
  { destruct eo as [[[up sg] ds]|]; cbn [exp_part_chars]; [|reflexivity].
    cbn [opt_ok snd] in Heo. apply andb_true_iff in Heo as [Hn Hd].
    apply go_parse_int_dec10; try assumption.
    cbn [exp_part_val] in Hexp. change (2 ^ 31) with 2147483648. destruct sg as [[|]|]; lia. }
  rewrite HE.
  assert (Hip : forallb (fun c => negb (c =? c_dot)) ic = true).
  { rewrite forallb_forall in *. intros c Hc. destruct (dec_not_dot_e c (Hic c Hc)) as [E _]. rewrite E. reflexivity. }
  rewrite (span_app (fun c => negb (c =? c_dot)) ic (frac_part fo) Hip).
  2:{ destruct fo; cbn [frac_part]; [reflexivity | exact I]. }
  set (fc := match fo with Some f => f | None => [] end) in *.
  assert (Efp : match frac_part fo with _ :: r => r | [] => [] end = fc) by (destruct fo; reflexivity).
  rewrite Efp.
  assert (Hds : forallb is_dec (ic ++ fc) = true).
  { rewrite forallb_app, Hic. unfold fc. destruct fo; [exact Hfo | reflexivity]. }
  destruct (ic ++ fc) as [|x y] eqn:Eds; [destruct ic; discriminate|]. rewrite <- Eds in *. clear x y Eds.
  rewrite Hds. cbn [negb].
  pose proof (drop_lead0_length (ic ++ fc)) as Hdl.
  assert (Hfl : (length fc <= length (ic ++ fc))%nat) by (rewrite app_length; lia).
  match goal with |- (if ?c then _ else _) = _ => destruct c eqn:Ec; [exfalso; lia |] end.
  match goal with |- (if ?c then _ else _) = _ => destruct c eqn:Ec2; [exfalso; lia | reflexivity] end.
Qed.

Theorem decimal_float_big_exact (l : float_lit) :
  float_lit_ok l = true -> f_hex l = false -> f_prefix l = None ->
  2 ^ 63 <= float_mant l < 2 ^ 64 ->
  (Z.abs (exp_value l) <= 90000)%Z ->
  (length (dseq_chars (f_int l) ++ frac_chars l) <= 5000)%nat ->
  impl_float (render_float l) = Ok (spec_dec_big l).
Proof.
  intros Hok Hh Hp Hm He Hlen.
  destruct (normalized_dec l Hok Hh Hp) as [Hneg [Hns [Hstr Hhp]]]. cbv zeta in *.
  destruct (float_ok_parts l Hok) as [Hic [Hfo Heo]]. rewrite Hh in Hic, Hfo. cbn [fdigit] in Hic, Hfo.
  unfold impl_float.
  assert (Hs : strip_us (render_float l) <> []).
  { rewrite (strip_render_float l Hok). unfold fl_ic, dseq_chars.
    destruct (sign_chars (f_neg l)), (fl_pfx l); cbn [app]; discriminate. }
  assert (Hmm : forall (A : Type) (e y : A),
             match strip_us (render_float l) with [] => e | _ :: _ => y end = y).
  { intros A e y. destruct (strip_us (render_float l)); [congruence | reflexivity]. }
  rewrite Hmm. cbv zeta. rewrite Hneg, Hns, Hhp.
  pose proof (float_mant_clean l) as EM. rewrite Hh in EM. cbn [fbase] in EM.
  pose proof (float_exp_clean l) as EE. rewrite Hh in EE. rewrite Z.mul_1_r in EE.
  assert (Hev : exp_part_val (fl_eo l) = exp_value l).
  { unfold exp_part_val, fl_eo, exp_value, dseq_val. destruct (f_exp l) as [[up sg ds]|]; reflexivity. }
  assert (Hfc : match fl_fo l with Some f => f | None => [] end = frac_chars l).
  { unfold fl_fo, frac_chars. destruct (f_frac l); reflexivity. }
  (* DFloatFromString gives up *)
  assert (HD : dfloat_from_string (normalize_float (render_float l) false) = None).
  { unfold dfloat_from_string. rewrite Hneg, Hns.
    assert (Hsm : exp_digits_small (fl_eo l)).
    { unfold exp_digits_small. rewrite <- Hev in He. unfold exp_part_val in He.
      destruct (fl_eo l) as [[[up sg] ds]|]; [|exact I]. destruct sg as [[|]|]; lia. }
    rewrite (df_sig_clean _ _ _ Hic Hfo Heo Hsm).
    assert (HR : df_run (fl_ic l ++ match fl_fo l with Some f => f | None => [] end) 0 = None).
    { apply df_run_fail.
      - rewrite forallb_app, Hic. destruct (fl_fo l); [exact Hfo | reflexivity].
      - unfold i63max. change (2 ^ 63 - 1) with 9223372036854775807. lia.
      - rewrite <- EM. unfold i63max. change (2 ^ 63 - 1) with 9223372036854775807.
        change (2 ^ 63) with 9223372036854775808 in Hm. lia.
      - rewrite <- EM. tauto. }
    match goal with |- context [df_run ?a 0] => replace (df_run a 0) with (@None N) by (symmetry; exact HR) end.
    reflexivity. }
  rewrite HD.
  assert (HA : apd_from_string (fl_ic l ++ frac_part (fl_fo l) ++ exp_part_chars false (fl_eo l))
               = Some (float_mant l, float_exp l)).
  { rewrite (apd_clean (fl_ic l) (fl_fo l) (fl_eo l) (dseq_chars_nonempty (f_int l)) Hic Hfo Heo).
    - f_equal. f_equal; [symmetry; exact EM | symmetry; exact EE].
    - rewrite Hev. exact He.
    - clear -Hlen. unfold fl_ic, fl_fo, frac_chars in *. destruct (f_frac l); exact Hlen. }
  rewrite HA. reflexivity.
Qed.

(* ------------------------------------------------------------------ *)
(* ExitValueFloat, hex spellings                                        *)
(* ------------------------------------------------------------------ *)

Lemma hex_not_dot_p c : is_hex c = true -> (c =? c_dot) = false /\ ((c =? 112) || (c =? 80)) = false.
Proof.
  unfold is_hex, is_dec, is_hexletter, c_dot. intro H.
  destruct (lower_cases c) as [[? E]|[? E]]; rewrite E in H; lia.
Qed.

Lemma count_rest_digits ds rest :
  forallb is_hex ds = true -> count_rest (ds ++ rest) = N.of_nat (length ds) + count_rest rest.
Proof.
  induction ds as [|c r IH]; intro H; cbn [app length count_rest]; [lia|].
  cbn [forallb] in H. apply andb_true_iff in H as [Hc Hr].
  destruct (hex_not_dot_p c Hc) as [E1 E2]. rewrite E1, E2, (IH Hr). lia.
Qed.

Lemma count_sig_digits_app ic rest :
  forallb is_hex ic = true ->
  match rest with [] => True | c :: _ => c <> 48 end ->
  count_sig_digits (ic ++ rest) = N.of_nat (length ic) + count_rest rest.
Proof.
  unfold count_sig_digits. induction ic as [|c r IH]; intros H Hr.
  - cbn [app length]. destruct rest as [|c r]; [reflexivity|]. cbn [count_lead0].
    replace (c =? 48) with false by lia. reflexivity.
  - cbn [forallb] in H. apply andb_true_iff in H as [Hc Hrr]. cbn [app count_lead0 length].
    destruct (c =? 48) eqn:E.
    + replace (N.to_nat (1 + count_lead0 (r ++ rest))) with (S (N.to_nat (count_lead0 (r ++ rest)))) by lia.
      cbn [skipn]. specialize (IH Hrr Hr). lia.
    + change (N.to_nat 0) with O. cbn [skipn].
      change (c :: r ++ rest) with ((c :: r) ++ rest).
      rewrite (count_rest_digits (c :: r) rest) by (cbn [forallb]; rewrite Hc; exact Hrr). cbn [length]. lia.
Qed.

Definition hex_exp_in_range (l : float_lit) : Prop :=
  float_mant l = 0 \/
  (- 2 ^ 31 <= float_exp l + Z.of_N (N.log2 (float_mant l)) + 1 < 2 ^ 31)%Z.

Theorem hex_float_exact (l : float_lit) :
  float_lit_ok l = true -> f_hex l = true -> f_prefix l <> None ->
  hex_exp_in_range l ->
  impl_float (render_float l) = Ok (spec_hex l).
Proof.
  intros Hok Hh Hp Hrange.
  assert (Hctx : ctx_ok false l = true) by (unfold ctx_ok; rewrite Hh; destruct (f_prefix l); [reflexivity | congruence]).
  destruct (float_ok_parts l Hok) as [Hic [Hfo Heo]]. rewrite Hh in Hic, Hfo. cbn [fdigit] in Hic, Hfo.
  unfold impl_float.
  assert (Hs : strip_us (render_float l) <> []).
  { rewrite (strip_render_float l Hok). unfold fl_ic, dseq_chars.
    destruct (sign_chars (f_neg l)), (fl_pfx l); cbn [app]; discriminate. }
  assert (Hmm : forall (A : Type) (e y : A),
             match strip_us (render_float l) with [] => e | _ :: _ => y end = y).
  { intros A e y. destruct (strip_us (render_float l)); [congruence | reflexivity]. }
  rewrite Hmm. cbv zeta. rewrite (normalize_render l false Hok Hctx).
  unfold norm_pfx, norm_eo. rewrite Hh.
  destruct (f_prefix l) as [up|] eqn:Epf; [|congruence].
  set (body := fl_ic l ++ frac_part (fl_fo l) ++ exp_part_chars true (with_p0 (fl_eo l))).
  assert (Hx : exists x, prefix_chars B16 up = [48; x] /\ lower x = 120) by (destruct up; eexists; split; reflexivity).
  destruct Hx as [x [Epx Hx]]. rewrite Epx.
  assert (E1 : is_neg_text (sign_chars (f_neg l) ++ [48; x] ++ body) = f_neg l) by (destruct (f_neg l); reflexivity).
  rewrite E1.
  assert (E2 : (if f_neg l then tl (sign_chars (f_neg l) ++ [48; x] ++ body) else sign_chars (f_neg l) ++ [48; x] ++ body)
               = 48 :: x :: body) by (destruct (f_neg l); reflexivity).
  match goal with |- context [hex_prefixed ?a] => replace a with (48 :: x :: body) by (symmetry; exact E2) end.
  cbn [hex_prefixed]. rewrite Hx. change ((48 =? 48) && (120 =? 120)) with true. cbv iota.
  unfold impl_hexfloat. cbn [skipn].
  (* scanning *)
  assert (HS : scan_float true false body = Some (float_mant l, float_exp l)).
  { unfold body. rewrite (scan_float_clean true false (fl_ic l) (fl_fo l) (with_p0 (fl_eo l)) (dseq_chars_nonempty _) Hic Hfo).
    - rewrite exp_part_val_p0, float_mant_clean, float_exp_clean, Hh. reflexivity.
    - destruct (fl_eo l) as [[[? ?] ?]|]; [exact Heo | reflexivity].
    - discriminate. }
  rewrite HS.
  (* digit count *)
  assert (HC : count_sig_digits body = float_ndigits l).
  { unfold body. rewrite (count_sig_digits_app (fl_ic l) _ Hic).
    2:{ destruct (fl_fo l); cbn [frac_part app]; [discriminate|].
        destruct (fl_eo l) as [[[u ?] ?]|]; cbn [with_p0 exp_part_chars]; [destruct u; discriminate | discriminate]. }
    unfold float_ndigits, fl_ic. rewrite Nat2N.inj_add. f_equal.
    pose proof Hfo as Hfo'. unfold fl_fo in Hfo'. revert Hfo'.
    unfold fl_fo, frac_chars. destruct (f_frac l) as [d|]; cbn [option_map frac_part app length opt_ok]; intro Hfo'.
    - cbn [count_rest]. change (c_dot =? c_dot) with true. cbv iota.
      rewrite (count_rest_digits (dseq_chars d) _ Hfo').
      destruct (fl_eo l) as [[[u ?] ?]|]; cbn [with_p0 exp_part_chars count_rest]; [destruct u|]; cbn; lia.
    - destruct (fl_eo l) as [[[u ?] ?]|]; cbn [with_p0 exp_part_chars count_rest]; [destruct u|]; reflexivity. }
  rewrite HC.
  unfold spec_hex.
  assert (HR : negb (float_mant l =? 0)
               && negb ((- 2 ^ 31 <=? float_exp l + Z.of_N (N.log2 (float_mant l)) + 1)%Z
                        && (float_exp l + Z.of_N (N.log2 (float_mant l)) + 1 <? 2 ^ 31)%Z) = false).
  { destruct Hrange as [H0 | H1]; [rewrite H0; reflexivity|].
    apply andb_false_iff. right. apply negb_false_iff. apply andb_true_iff. split; lia. }
  rewrite HR. destruct (f64_exact (float_mant l) (float_exp l)); [reflexivity|].
  destruct (odd_part (float_mant l)); reflexivity.
Qed.

(* ------------------------------------------------------------------ *)
(* strings                                                              *)
(* ------------------------------------------------------------------ *)

Lemma lex_char f idx c r acc :
  c <> 34 -> c <> 92 -> char_quoted c = true ->
  lex_string (S f) idx (c :: r) acc = lex_string f idx r (acc ++ utf8_enc c).
Proof.
  intros H1 H2 H3. cbn [lex_string].
  replace (c =? 34) with false by lia. replace (c =? 92) with false by lia. rewrite H3. reflexivity.
Qed.

Lemma escape_char_not_special c v :
  escape_char c = Some v -> (c =? 46) = false /\ (c =? 91) = false /\ ((c =? 10) || (c =? 13)) = false.
Proof.
  intro H. apply named_escapes_exact in H. unfold escape_table in H. cbn [In] in H.
  repeat destruct H as [H|H]; try (injection H as <- <-; repeat split; reflexivity). contradiction.
Qed.

Lemma lex_esc f idx c v r acc :
  escape_char c = Some v ->
  lex_string (S f) idx (92 :: c :: r) acc = lex_string f idx r (acc ++ utf8_enc v).
Proof.
  intro H. destruct (escape_char_not_special c v H) as [E1 [E2 E3]].
  cbn [lex_string]. change (92 =? 34) with false. change (92 =? 92) with true. cbv iota.
  rewrite E1, E2, E3, H. reflexivity.
Qed.

Lemma lex_code f idx hx r acc :
  hx <> [] -> forallb is_hex hx = true -> valid_scalar (hex_val hx) = true ->
  lex_string (S f) idx (92 :: 91 :: hx ++ 93 :: r) acc = lex_string f idx r (acc ++ utf8_enc (hex_val hx)).
Proof.
  intros Hne Hh Hlt. cbn [lex_string]. change (92 =? 34) with false. change (92 =? 92) with true. cbv iota.
  change (91 =? 46) with false. change (91 =? 91) with true. cbv iota.
  rewrite (span_app is_hex hx (93 :: r) Hh) by reflexivity.
  rewrite (codepoint_exact hx Hne Hh Hlt).
  destruct hx as [|h0 hr]; [congruence|]. change (93 =? 93) with true. reflexivity.
Qed.

Definition head_not_ws (r : list N) : Prop := match r with c :: _ => is_ws c = false | [] => True end.

Lemma lex_cont f idx nl ws r acc :
  ((nl =? 10) || (nl =? 13)) = true -> forallb is_ws ws = true -> head_not_ws r ->
  lex_string (S f) idx (92 :: nl :: ws ++ r) acc = lex_string f idx r acc.
Proof.
  intros Hnl Hws Hr. cbn [lex_string]. change (92 =? 34) with false. change (92 =? 92) with true. cbv iota.
  replace (nl =? 46) with false by lia. replace (nl =? 91) with false by lia. rewrite Hnl.
  rewrite (span_app is_ws ws r Hws) by (destruct r; [exact I | exact Hr]). reflexivity.
Qed.

(* VERBATIM_CONTENTS with a one-character sentinel, on contents free of it *)
Lemma vc_loop_simple s idx ct r cons best :
  forallb (fun c => negb (c =? s)) ct = true -> ct <> [] ->
  vc_loop [s] false true idx (ct ++ s :: r) cons best = (Some (VContents, rev ct ++ cons, s :: r), O).
Proof.
  revert cons best idx; induction ct as [|c ct IH]; intros cons best idx Hct Hne; [congruence|].
  cbn [forallb] in Hct. apply andb_true_iff in Hct as [Hc Hrest].
  cbn [app vc_loop andb negb]. cbv iota. unfold is_at.
  destruct ct as [|c' ct'].
  - cbn [app starts_with]. rewrite N.eqb_refl. cbn [andb negb vc_loop]. cbn [rev app]. reflexivity.
  - cbn [app starts_with]. cbn [forallb] in Hrest. apply andb_true_iff in Hrest as [Hc' Hrest'].
    replace (c' =? s) with false by lia. cbn [andb negb].
    change (c' :: ct' ++ s :: r) with ((c' :: ct') ++ s :: r).
    rewrite IH; [| cbn [forallb]; rewrite Hc'; exact Hrest' | discriminate].
    cbn [rev]. rewrite <- !app_assoc. reflexivity.
Qed.

Lemma lex_verb f idx s sep c0 ct r acc :
  (idx <= 1)%nat -> s < 128 -> char_sentinel s = true -> sep_ok sep = true ->
  forallb (fun c => negb (c =? s)) (c0 :: ct) = true ->
  lex_string (S f) idx (92 :: 46 :: s :: sep ++ (c0 :: ct) ++ s :: r) acc
  = lex_string f 1 r (acc ++ utf8_str (c0 :: ct)).
Proof.
  intros Hidx Hs Hcs Hsep Hct.
  cbn [lex_string]. change (92 =? 34) with false. change (92 =? 92) with true. cbv iota.
  change (46 =? 46) with true. cbv iota.
  (* the sentinel token *)
  assert (Hsp : span char_sentinel (s :: sep ++ (c0 :: ct) ++ s :: r) = ([s], sep ++ (c0 :: ct) ++ s :: r)).
  { cbn [span]. rewrite Hcs.
    assert (Hh : span char_sentinel (sep ++ (c0 :: ct) ++ s :: r) = ([], sep ++ (c0 :: ct) ++ s :: r)).
    { unfold sep_ok in Hsep.
      repeat (apply orb_true_iff in Hsep as [Hsep|Hsep]); apply bytes_eqb_eq in Hsep; subst sep; reflexivity. }
    rewrite Hh. reflexivity. }
  rewrite Hsp.
  assert (Esb : utf8_str [s] = [s]).
  { unfold utf8_str. cbn [flat_map]. unfold utf8_enc. replace (s <? 128) with true by lia. reflexivity. }
  rewrite Esb.
  assert (Hsk : skip_separator (sep ++ (c0 :: ct) ++ s :: r) = Some ((c0 :: ct) ++ s :: r)).
  { unfold sep_ok in Hsep.
    repeat (apply orb_true_iff in Hsep as [Hsep|Hsep]); apply bytes_eqb_eq in Hsep; subst sep; reflexivity. }
  rewrite Hsk.
  (* VERBATIM_CONTENTS *)
  pose proof Hct as Hct'. cbn [forallb] in Hct'. apply andb_true_iff in Hct' as [Hc0 _].
  assert (Hvc : vc_token [s] idx ((c0 :: ct) ++ s :: r) = (Some (VContents, rev (c0 :: ct), s :: r), O)).
  { unfold vc_token, is_sentinel_char, is_at. cbn [length app la_eq nth starts_with].
    replace (c0 =? s) with false by lia. cbn [andb].
    assert (Hi : (if Nat.ltb idx 1 then (match idx with O => false | S _ => c0 =? 0 end, S idx) else (false, idx))
                 = (false, 1%nat)).
    { destruct idx as [|[|i]]; [reflexivity | reflexivity | lia]. }
    destruct idx as [|[|i]]; [| |lia].
    - cbn [Nat.ltb Nat.leb nth]. replace (c0 =? s) with false by lia. cbn [negb].
      change (c0 :: ct ++ s :: r) with ((c0 :: ct) ++ s :: r).
      rewrite (vc_loop_simple s 1 (c0 :: ct) r [] None Hct) by discriminate. rewrite app_nil_r. reflexivity.
    - cbn [Nat.ltb Nat.leb]. cbn [negb].
      change (c0 :: ct ++ s :: r) with ((c0 :: ct) ++ s :: r).
      rewrite (vc_loop_simple s 1 (c0 :: ct) r [] None Hct) by discriminate. rewrite app_nil_r. reflexivity. }
  rewrite Hvc.
  (* VERBATIM_END *)
  assert (Hve : ve_token [s] O (s :: r) = Some (r, 1%nat)).
  { unfold ve_token, is_sentinel_char. cbn [length Nat.ltb Nat.leb la_eq nth]. rewrite N.eqb_refl.
    cbn [ve_loop andb]. rewrite Hcs. cbn [length Nat.ltb Nat.leb].
    destruct r as [|c r']; cbn [ve_loop andb]; reflexivity. }
  rewrite Hve. rewrite rev_involutive. reflexivity.
Qed.

Lemma sentinel_free_single s ct :
  sentinel_free [s] ct = true -> forallb (fun c => negb (c =? s)) ct = true.
Proof.
  induction ct as [|c r IH]; intro H; [reflexivity|].
  cbn [sentinel_free] in H. apply andb_true_iff in H as [H1 H2].
  cbn [forallb]. rewrite (IH H2), andb_true_r.
  cbn [app starts_with] in H1. rewrite andb_true_r in H1. exact H1.
Qed.

Lemma render_body_cons i t : render_body (i :: t) = render_item i ++ render_body t.
Proof. unfold render_body. cbn [flat_map]. rewrite app_assoc. reflexivity. Qed.

Lemma render_head_not_ws t :
  match t with j :: _ => starts_ws j = false | [] => True end -> head_not_ws (render_body t).
Proof.
  destruct t as [|j t']; intro H; [reflexivity|]. rewrite render_body_cons.
  destruct j; cbn [render_item app head_not_ws]; try reflexivity. exact H.
Qed.

Lemma lex_items items :
  forall f idx acc,
    items_ok items = true -> forallb simple_verbatim items = true ->
    (idx <= 1)%nat -> (length items < f)%nat ->
    lex_string f idx (render_body items) acc = Ok (acc ++ body_value items).
Proof.
  induction items as [|i t IH]; intros f idx acc Hok Hsv Hidx Hf.
  - destruct f as [|f]; [cbn [length] in Hf; lia|]. cbn. rewrite app_nil_r. reflexivity.
  - destruct f as [|f]; [lia|]. cbn [length] in Hf.
    cbn [items_ok] in Hok. apply andb_true_iff in Hok as [Hok Hokt]. apply andb_true_iff in Hok as [Hi Hnext].
    cbn [forallb] in Hsv. apply andb_true_iff in Hsv as [Hsi Hsvt].
    rewrite render_body_cons. unfold body_value. cbn [flat_map]. fold (body_value t).
    rewrite app_assoc.
    destruct i as [c | c | hx | nl ws | sent sep ct]; cbn [render_item item_value item_ok] in *.
    + apply andb_true_iff in Hi as [Hi H92]. apply andb_true_iff in Hi as [Hq H34].
      cbn [app]. rewrite lex_char by lia. apply IH; try assumption; lia.
    + destruct (escape_char c) as [v|] eqn:Ev; [|discriminate].
      cbn [app]. rewrite (lex_esc f idx c v _ acc Ev). apply IH; try assumption; lia.
    + apply andb_true_iff in Hi as [Hi Hvs]. apply andb_true_iff in Hi as [Hne Hh].
      cbn [app]. rewrite <- app_assoc. cbn [app].
      rewrite lex_code.
      * apply IH; try assumption; lia.
      * destruct hx; [discriminate | discriminate].
      * exact Hh.
      * exact Hvs.
    + apply andb_true_iff in Hi as [Hnl Hws].
      cbn [app]. rewrite <- app_assoc. rewrite lex_cont; try assumption.
      * cbn [app]. apply IH; try assumption; lia.
      * apply render_head_not_ws. destruct t as [|j t']; [exact I|]. apply negb_true_iff. exact Hnext.
    + destruct sent as [|s [|s2 sr]]; try discriminate.
      destruct ct as [|c0 ct]; [discriminate|]. cbn [simple_verbatim] in Hsi.
      apply andb_true_iff in Hi as [Hi Hfree]. apply andb_true_iff in Hi as [Hi Hsep].
      apply andb_true_iff in Hi as [_ Hcs]. cbn [forallb] in Hcs. rewrite andb_true_r in Hcs.
      cbn [app]. rewrite <- !app_assoc. cbn [app].
      replace (c0 :: (ct ++ [s]) ++ render_body t) with ((c0 :: ct) ++ s :: render_body t)
        by (cbn [app]; rewrite <- app_assoc; reflexivity).
      rewrite lex_verb; try assumption; try lia.
      * rewrite app_assoc. apply IH; try assumption; lia.
      * apply sentinel_free_single. exact Hfree.
Qed.

Theorem string_literal_exact (items : list sitem) :
  items_ok items = true -> forallb simple_verbatim items = true ->
  impl_string (render_body items) = Ok (body_value items).
Proof.
  intros Hok Hsv. unfold impl_string.
  rewrite (lex_items items _ O [] Hok Hsv); [reflexivity | lia |].
  unfold render_body. rewrite app_length. cbn [length].
  assert (H : (length items <= length (flat_map render_item items))%nat).
  { clear. induction items as [|i t IH]; cbn [flat_map length]; [lia|]. rewrite app_length.
    assert (1 <= length (render_item i))%nat by (destruct i; cbn [render_item length]; lia). lia. }
  lia.
Qed.

(* ------------------------------------------------------------------ *)
(* the binary64 / big float chosen for a hex spelling denotes its value  *)
(* ------------------------------------------------------------------ *)

Lemma pos_odd_part_spec p :
  let '(m, k) := pos_odd_part p in Npos p = m * 2 ^ k /\ m <> 0.
Proof.
  induction p as [p IH|p IH|]; cbn [pos_odd_part].
  - split; [rewrite N.pow_0_r; lia | discriminate].
  - destruct (pos_odd_part p) as [m k]. destruct IH as [E Hm]. split; [|exact Hm].
    rewrite N.pow_add_r. change (2 ^ 1) with 2. change (N.pos p~0) with (2 * N.pos p). rewrite E. lia.
  - split; [rewrite N.pow_0_r; lia | discriminate].
Qed.

Lemma odd_part_spec m :
  m <> 0 -> let '(m', k) := odd_part m in m = m' * 2 ^ k /\ m' <> 0.
Proof. destruct m as [|p]; [congruence|]. intros _. apply pos_odd_part_spec. Qed.

Lemma pow_split a b c : a = b + c -> 2 ^ a = 2 ^ b * 2 ^ c.
Proof. intros ->. apply N.pow_add_r. Qed.

Lemma same_value_pow m a e b f :
  (Z.of_N a + e = Z.of_N b + f)%Z -> same_value (m * 2 ^ a) e (m * 2 ^ b) f.
Proof.
  intro H. unfold same_value. destruct (Z.le_ge_cases e f) as [L|L].
  - left. split; [exact L|]. rewrite <- N.mul_assoc, <- N.pow_add_r. f_equal. f_equal. lia.
  - right. split; [lia|]. rewrite <- N.mul_assoc, <- N.pow_add_r. f_equal. f_equal. lia.
Qed.

Lemma log2_bounds m : m <> 0 -> 2 ^ N.log2 m <= m < 2 ^ (N.log2 m + 1).
Proof. intro H. rewrite N.add_1_r. apply N.log2_spec. lia. Qed.

Theorem f64_exact_sound m e b :
  f64_exact m e = Some b ->
  b < 2 ^ 63 /\ let '(M, E) := f64_parts b in same_value m e M E.
Proof.
  unfold f64_exact. destruct (m =? 0) eqn:E0.
  { intro H. injection H as <-. assert (m = 0) by lia. subst m. split; [reflexivity|].
    unfold f64_parts. cbn. unfold same_value. destruct (Z.le_ge_cases e (-1074)) as [L|L]; [left|right]; (split; [lia|reflexivity]). }
  assert (Hm : m <> 0) by lia.
  pose proof (odd_part_spec m Hm) as HO. destruct (odd_part m) as [m' k]. destruct HO as [Em Hm'].
  set (e' := (e + Z.of_N k)%Z). set (bl := N.log2 m' + 1). set (top := (e' + Z.of_N bl - 1)%Z).
  destruct ((bl <=? 53) && (-1074 <=? e')%Z && (top <=? 1023)%Z) eqn:EC; [|discriminate].
  pose proof (log2_bounds m' Hm') as [Hlo Hhi]. fold bl in Hhi.
  assert (Hbl : 1 <= bl <= 53) by (unfold bl in *; lia).
  set (P := 2 ^ 52) in *.
  assert (HP : P = 4503599627370496) by reflexivity.
  destruct (-1022 <=? top)%Z eqn:ET; intro H; injection H as <-.
  - (* normal *)
    set (F := m' * 2 ^ (53 - bl)).
    assert (HF : P <= F < 2 * P).
    { unfold F, P. split.
      - replace 52 with ((bl - 1) + (53 - bl)) by lia. rewrite N.pow_add_r.
        apply N.mul_le_mono_r. replace (bl - 1) with (N.log2 m') by (unfold bl; lia). exact Hlo.
      - change (2 * 2 ^ 52) with (2 ^ 53). replace 53 with (bl + (53 - bl)) at 2 by lia. rewrite N.pow_add_r.
        apply N.mul_lt_mono_pos_r; [|exact Hhi]. apply N.neq_0_lt_0, N.pow_nonzero. discriminate. }
    set (T := Z.to_N (top + 1023)).
    assert (HT : 1 <= T <= 2046) by (unfold T; lia).
    assert (Eb : T * P + F - P = T * P + (F - P)) by lia. rewrite Eb.
    split; [change (2 ^ 63) with 9223372036854775808; nia|].
    unfold f64_parts. fold P.
    assert (Hd : (T * P + (F - P)) / P = T).
    { symmetry. apply (N.div_unique _ _ _ (F - P)); lia. }
    assert (Hmod : (T * P + (F - P)) mod P = F - P).
    { symmetry. apply (N.mod_unique _ _ T); lia. }
    rewrite Hd, Hmod. rewrite N.mod_small by lia. replace (T =? 0) with false by lia.
    replace (P + (F - P)) with F by lia.
    rewrite Em. unfold F. apply same_value_pow. unfold T, top, e'. lia.
  - (* subnormal *)
    set (S := Z.to_N (e' + 1074)).
    assert (Hb : m' * 2 ^ S < P).
    { unfold P. apply N.lt_le_trans with (2 ^ bl * 2 ^ S).
      - apply N.mul_lt_mono_pos_r; [|exact Hhi]. apply N.neq_0_lt_0, N.pow_nonzero. discriminate.
      - rewrite <- N.pow_add_r. apply N.pow_le_mono_r; [discriminate|]. unfold S, top in *. lia. }
    split; [change (2 ^ 63) with 9223372036854775808; lia|].
    unfold f64_parts. fold P. rewrite N.div_small by exact Hb. rewrite N.mod_0_l by discriminate.
    change (0 =? 0) with true. cbv iota. rewrite N.mod_small by exact Hb.
    rewrite Em. apply same_value_pow. unfold S, e'. lia.
Qed.

Lemma odd_part_same_value m e :
  m <> 0 -> let '(m', k) := odd_part m in same_value m e m' (e + Z.of_N k).
Proof.
  intro Hm. pose proof (odd_part_spec m Hm) as H. destruct (odd_part m) as [m' k]. destruct H as [E _].
  rewrite E at 1. rewrite <- (N.mul_1_r m') at 2. change 1 with (2 ^ 0). apply same_value_pow. lia.
Qed.

Theorem hex_float_value (l : float_lit) :
  float_lit_ok l = true -> f_hex l = true -> f_prefix l <> None ->
  hex_exp_in_range l ->
  exists r M E,
    impl_float (render_float l) = Ok r /\
    result_bin r = Some (f_neg l, M, E) /\
    same_value (float_mant l) (float_exp l) M E.
Proof.
  intros Hok Hh Hp Hr. rewrite (hex_float_exact l Hok Hh Hp Hr). unfold spec_hex.
  destruct (f64_exact (float_mant l) (float_exp l)) as [b|] eqn:Eb.
  - destruct (f64_exact_sound _ _ _ Eb) as [Hlt Hs].
    destruct (f64_parts b) as [M E] eqn:Ep.
    exists (RFloat (b + (if f_neg l then 2 ^ 63 else 0))), M, E. split; [reflexivity|]. split; [|exact Hs].
    unfold result_bin. change (2 ^ 63) with 9223372036854775808 in *.
    destruct (f_neg l).
    + replace ((b + 9223372036854775808) mod 9223372036854775808) with b
        by (apply (N.mod_unique _ _ 1); lia).
      rewrite Ep. replace (9223372036854775808 <=? b + 9223372036854775808) with true by lia. reflexivity.
    + rewrite N.add_0_r, N.mod_small by lia. rewrite Ep.
      replace (9223372036854775808 <=? b) with false by lia. reflexivity.
  - assert (Hm : float_mant l <> 0).
    { intro H0. rewrite H0 in Eb. discriminate. }
    pose proof (odd_part_same_value (float_mant l) (float_exp l) Hm) as Hs.
    destruct (odd_part (float_mant l)) as [m' k].
    exists (RBigFloat (f_neg l) m' (float_exp l + Z.of_N k) (4 * float_ndigits l)), m', (float_exp l + Z.of_N k)%Z.
    split; [reflexivity|]. split; [reflexivity | exact Hs].
Qed.

(* ------------------------------------------------------------------ *)
(* the bytes written for a code point are its UTF-8 encoding            *)
(* ------------------------------------------------------------------ *)

Ltac Zify.zify_post_hook ::= Z.to_euclidean_division_equations.

Lemma utf8_enc_decode v rest :
  valid_scalar v = true ->
  CE.Base.Utf8.decode_rune (utf8_enc v ++ rest) = Some (v, length (utf8_enc v)).
Proof.
  unfold valid_scalar, utf8_enc, CE.Base.Utf8.decode_rune. intro Hv.
  destruct (v <? 128) eqn:E1.
  { cbn [app length]. rewrite E1. reflexivity. }
  destruct (v <? 2048) eqn:E2.
  { cbn [app length].
    replace (192 + v / 64 <? 128) with false by lia.
    replace (192 + v / 64 <? 194) with false by lia.
    replace (192 + v / 64 <? 224) with true by lia.
    unfold CE.Base.Utf8.is_cont.
    replace ((128 <=? 128 + v mod 64) && (128 + v mod 64 <=? 191)) with true by lia.
    f_equal. f_equal. lia. }
  replace (((55296 <=? v) && (v <=? 57343)) || (1114111 <? v)) with false by lia.
  destruct (v <? 65536) eqn:E3.
  { cbn [app length].
    replace (224 + v / 4096 <? 128) with false by lia.
    replace (224 + v / 4096 <? 194) with false by lia.
    replace (224 + v / 4096 <? 224) with false by lia.
    replace (224 + v / 4096 <? 240) with true by lia.
    unfold CE.Base.Utf8.is_cont.
    match goal with |- (if ?c then _ else _) = _ => replace c with true end.
    - f_equal. f_equal. lia.
    - destruct (224 + v / 4096 =? 224) eqn:A; destruct (224 + v / 4096 =? 237) eqn:B; lia. }
  cbn [app length].
  replace (240 + v / 262144 <? 128) with false by lia.
  replace (240 + v / 262144 <? 194) with false by lia.
  replace (240 + v / 262144 <? 224) with false by lia.
  replace (240 + v / 262144 <? 240) with false by lia.
  replace (240 + v / 262144 <? 245) with true by lia.
  unfold CE.Base.Utf8.is_cont.
  match goal with |- (if ?c then _ else _) = _ => replace c with true end.
  - f_equal. f_equal. lia.
  - destruct (240 + v / 262144 =? 240) eqn:A; destruct (240 + v / 262144 =? 244) eqn:B; lia.
Qed.

Ltac Zify.zify_post_hook ::= idtac.

(* ------------------------------------------------------------------ *)
(* The unrestricted statements and the witnesses against them           *)
(* ------------------------------------------------------------------ *)

(* digit sequence without separators, from its characters *)
Definition ds (s : bytes) : dseq :=
  match s with
  | c :: r => {| d_first := c; d_rest := map (fun x => (O, x)) r |}
  | [] => {| d_first := 48; d_rest := [] |}
  end.
Definition dec_int (neg : bool) (s : bytes) : int_lit :=
  {| i_neg := neg; i_base := B10; i_upper := false; i_digits := ds s |}.
Definition dec_float (neg : bool) (ip : bytes) (fp : option bytes) (ex : option (option bool * bytes)) : float_lit :=
  {| f_neg := neg; f_hex := false; f_prefix := None; f_int := ds ip; f_frac := option_map ds fp;
     f_exp := option_map (fun e => {| e_upper := false; e_sign := fst e; e_digits := ds (snd e) |}) ex |}.
Definition float_bits (bits : N) : Prop := bits = 16 \/ bits = 32 \/ bits = 64.
Definition is_decimal (l : float_lit) : Prop := f_hex l = false /\ f_prefix l = None.

Definition full_int : Prop :=
  forall l, int_lit_ok l = true -> impl_int (render_int l) = Ok (spec_int l).
Definition full_int_elem : Prop :=
  forall bits l, elem_bits bits -> int_lit_ok l = true ->
                 impl_int_elem 0 bits (render_int l) = spec_int_elem bits l.
Definition full_int_elem_explicit : Prop :=
  forall bits l, elem_bits bits -> i_base l <> B10 -> int_lit_ok l = true ->
                 impl_int_elem (ibase_n (i_base l)) bits (render_int_noprefix l) = spec_int_elem bits l.
Definition full_uint_elem : Prop :=
  forall bits l, elem_bits bits -> i_neg l = false -> int_lit_ok l = true ->
                 impl_uint_elem 0 bits (render_int l) = spec_uint_elem bits l.
Definition full_uint_elem_explicit : Prop :=
  forall bits l, elem_bits bits -> i_neg l = false -> i_base l <> B10 -> int_lit_ok l = true ->
                 impl_uint_elem (ibase_n (i_base l)) bits (render_int_noprefix l) = spec_uint_elem bits l.
(* with the correctly rounding conversion in the place of strconv's *)
Definition full_float_elem : Prop :=
  forall b16 bits l, float_bits bits -> float_lit_ok l = true -> ctx_ok b16 l = true ->
                     impl_float_elem rne b16 bits (render_float l) = spec_float_elem rne bits l.
Definition full_decimal : Prop :=
  forall l, float_lit_ok l = true -> is_decimal l ->
            impl_float (render_float l)
            = Ok (if float_mant l <=? 2 ^ 63 - 1 then spec_dec_small l else spec_dec_big l).
Definition full_codepoint : Prop :=
  forall hx, hx <> [] -> forallb is_hex hx = true ->
             impl_codepoint hx = if valid_scalar (hex_val hx) then Ok (utf8_enc (hex_val hx)) else Err.
Definition full_string : Prop :=
  forall items, items_ok items = true -> impl_string (render_body items) = Ok (body_value items).

(* 010, 08: repaired by 601f9e0 *)
Theorem full_int_holds : full_int.
Proof. exact int_literal_exact_all. Qed.

Lemma full_int_elem_refuted_separators :
  exists l, int_lit_ok l = true /\ leading_zero_dec l = false /\ impl_int_elem 0 8 (render_int l) <> spec_int_elem 8 l.
Proof.
  exists {| i_neg := false; i_base := B10; i_upper := false; i_digits := {| d_first := 49; d_rest := [(2%nat, 48)] |} |}.
  split; [reflexivity|]. split; [reflexivity|]. vm_compute. discriminate.
Qed.
Lemma full_int_elem_explicit_refuted :
  exists l, i_base l <> B10 /\ int_lit_ok l = true /\
            impl_int_elem (ibase_n (i_base l)) 16 (render_int_noprefix l) <> spec_int_elem 16 l.
Proof.
  exists {| i_neg := false; i_base := B16; i_upper := false; i_digits := {| d_first := 102; d_rest := [(1%nat, 102)] |} |}.
  split; [discriminate|]. split; [reflexivity|]. vm_compute. discriminate.
Qed.
(* @u8[1__0] is rejected *)
Lemma full_uint_elem_refuted :
  exists l, i_neg l = false /\ int_lit_ok l = true /\
            impl_uint_elem 0 8 (render_int l) <> spec_uint_elem 8 l.
Proof.
  exists {| i_neg := false; i_base := B10; i_upper := false;
            i_digits := {| d_first := 49; d_rest := [(2%nat, 48)] |} |}.
  split; [reflexivity|]. split; [reflexivity|]. vm_compute. discriminate.
Qed.
Lemma full_uint_elem_explicit_refuted :
  exists l, i_neg l = false /\ i_base l <> B10 /\ int_lit_ok l = true /\
            impl_uint_elem (ibase_n (i_base l)) 8 (render_int_noprefix l) <> spec_uint_elem 8 l.
Proof.
  exists {| i_neg := false; i_base := B16; i_upper := false; i_digits := {| d_first := 102; d_rest := [(1%nat, 102)] |} |}.
  split; [reflexivity|]. split; [discriminate|]. split; [reflexivity|]. vm_compute. discriminate.
Qed.

(* @f16[1.015]: truncated to 0x3f81, the nearest bfloat16 is 0x3f82 *)
Lemma full_float_elem_refuted_f16_truncation :
  exists l, float_lit_ok l = true /\ ctx_ok false l = true /\
            impl_float_elem rne false 16 (render_float l) <> spec_float_elem rne 16 l.
Proof.
  exists (dec_float false [49] (Some [48; 49; 53]) None).
  split; [reflexivity|]. split; [reflexivity|]. vm_compute. discriminate.
Qed.
(* @f16[1e-45]: a non-zero value accepted as zero *)
Lemma full_float_elem_refuted_f16_zero :
  exists l, float_lit_ok l = true /\ ctx_ok false l = true /\ float_mant l <> 0 /\
            impl_float_elem rne false 16 (render_float l) = Ok [0; 0].
Proof.
  exists (dec_float false [49] None (Some (Some true, [52; 53]))).
  split; [reflexivity|]. split; [reflexivity|]. split; [vm_compute; discriminate | reflexivity].
Qed.
(* @f64[1e-1609298120]: a non-zero value accepted as zero *)
Lemma full_float_elem_refuted_tiny :
  exists l, float_lit_ok l = true /\ ctx_ok false l = true /\ float_mant l <> 0 /\
            impl_float_elem rne false 64 (render_float l) = Ok [0; 0; 0; 0; 0; 0; 0; 0] /\
            spec_float_elem rne 64 l = Err.
Proof.
  exists (dec_float false [49] None (Some (Some true, [49; 54; 48; 57; 50; 57; 56; 49; 50; 48]))).
  split; [reflexivity|]. split; [reflexivity|]. split; [vm_compute; discriminate|]. split; vm_compute; reflexivity.
Qed.

(* 1844674407370955162.0 decodes to 0.4 *)
Lemma full_decimal_refuted_coefficient :
  exists l, float_lit_ok l = true /\ is_decimal l /\
            impl_float (render_float l) = Ok (RDec 4 (-1)) /\ float_mant l = 18446744073709551620.
Proof.
  exists (dec_float false [49;56;52;52;54;55;52;52;48;55;51;55;48;57;53;53;49;54;50] (Some [48]) None).
  split; [reflexivity|]. split; [split; reflexivity|]. split; vm_compute; reflexivity.
Qed.
(* 1.55e-2147483647 decodes to 155e+2147483647 *)
Lemma full_decimal_refuted_exponent :
  exists l, float_lit_ok l = true /\ is_decimal l /\
            impl_float (render_float l) = Ok (RDec 155 2147483647) /\ float_exp l = (-2147483649)%Z.
Proof.
  exists (dec_float false [49] (Some [53; 53]) (Some (Some true, [50;49;52;55;52;56;51;54;52;55]))).
  split; [reflexivity|]. split; [split; reflexivity|]. split; vm_compute; reflexivity.
Qed.

(* \[d800], \[110000]: repaired by 9d7e9c8 *)
Theorem full_codepoint_holds : full_codepoint.
Proof. exact codepoint_all. Qed.

(* "\.ab ab" : empty verbatim sequence with a two-character sentinel yields "b" *)
Lemma full_string_refuted_empty_verbatim :
  exists items, items_ok items = true /\ body_value items = [] /\ impl_string (render_body items) = Ok [98].
Proof. exists [SVerb [97; 98] [32] []]. repeat split; reflexivity. Qed.
(* "\.a aa" : the character after an empty verbatim sequence is swallowed *)
Lemma full_string_refuted_swallowed :
  exists items, items_ok items = true /\ body_value items = [97] /\ impl_string (render_body items) = Ok [].
Proof. exists [SVerb [97] [32] []; SChar 97]. repeat split; reflexivity. Qed.
(* "\.ab aab" : contents that start like the sentinel *)
Lemma full_string_refuted_prefix :
  exists items, items_ok items = true /\ body_value items = [97] /\ impl_string (render_body items) = Ok [97; 98].
Proof. exists [SVerb [97; 98] [32] [97]]. repeat split; reflexivity. Qed.
(* "\.é aé" : a sentinel outside ASCII never matches *)
Lemma full_string_refuted_nonascii :
  exists items, items_ok items = true /\ impl_string (render_body items) = Err.
Proof. exists [SVerb [233] [32] [97]]. repeat split; reflexivity. Qed.
(* "x\.a qa\.a a" : a second, empty verbatim sequence is rejected *)
Lemma full_string_refuted_second :
  exists items, items_ok items = true /\ impl_string (render_body items) = Err.
Proof. exists [SChar 120; SVerb [97] [32] [113]; SVerb [97] [32] []]. repeat split; reflexivity. Qed.

Definition full_all : Prop :=
  full_int /\ full_int_elem /\ full_int_elem_explicit /\ full_uint_elem /\ full_uint_elem_explicit /\
  full_float_elem /\ full_decimal /\ full_codepoint /\ full_string.

Lemma full_all_refuted : ~ full_all.
Proof.
  intros [_ [_ [_ [_ [_ [_ [_ [_ H]]]]]]]]. destruct full_string_refuted_nonascii as [items [Hok He]].
  rewrite (H items Hok) in He. discriminate.
Qed.
