(* Proofs about the CTE encoder model (Model/CteEnc.v) for property C23:
   the text depends only on the data, not on how arrays are delivered. *)
From CE Require Import Model.CteEnc.
From Coq Require Import ZifyN ZifyNat ZifyBool Lia.
Open Scope N_scope.

(* ------------------------------------------------------------------ *)
(** * States up to what cannot be observed

   [erase] forgets the array engine (it is re-initialised by every begin op
   before it is read) and forgets Column while [dirty] (it is re-set by the next
   line feed, and reading it earlier sets [bad]). *)

Definition erase (s : est) : est :=
  {| rout := rout s; col := if dirty s then 0%Z else col s; ind := ind s; stack := stack s; cho := cho s;
     en := eng0; dirty := dirty s; bad := bad s |}.

Definition R (a b : est) : Prop := erase a = erase b.

Lemma R_refl a : R a a. Proof. reflexivity. Qed.
Lemma R_sym a b : R a b -> R b a. Proof. unfold R; congruence. Qed.
Lemma R_trans a b c : R a b -> R b c -> R a c. Proof. unfold R; congruence. Qed.

Lemma R_fields a b :
  R a b -> rout a = rout b /\ ind a = ind b /\ stack a = stack b /\ cho a = cho b /\ dirty a = dirty b /\ bad a = bad b /\
           (dirty a = false -> col a = col b).
Proof.
  destruct a as [r1 c1 i1 st1 ch1 e1 d1 b1], b as [r2 c2 i2 st2 ch2 e2 d2 b2]; unfold R, erase; cbn; intro H.
  injection H; clear H; intros; subst. repeat split; auto. intros ->. assumption.
Qed.

Lemma R_bad a b : R a b -> bad a = bad b.
Proof. intro H; apply R_fields in H; tauto. Qed.
Lemma R_rout a b : R a b -> rout a = rout b.
Proof. intro H; apply R_fields in H; tauto. Qed.

(* one-directional simulation up to [R], void once [bad] *)
Definition okO (o1 o2 : option est) : Prop :=
  match o1 with
  | None => True
  | Some a => bad a = true \/ exists b, o2 = Some b /\ R a b
  end.
Definition goodO (f : est -> option est) : Prop := forall a b, R a b -> okO (f a) (f b).
Definition goodT (f : est -> est) : Prop := forall a b, R a b -> bad (f a) = true \/ R (f a) (f b).
Definition monoO (f : est -> option est) : Prop := forall s s', bad s = true -> f s = Some s' -> bad s' = true.
Definition monoT (f : est -> est) : Prop := forall s, bad s = true -> bad (f s) = true.

Lemma goodO_T f : goodT f -> goodO (fun s => Some (f s)).
Proof.
  intros H a b HR. cbn. destruct (H a b HR) as [Hb|Hr]; [left; exact Hb | right; eexists; split; [reflexivity | exact Hr]].
Qed.

Lemma monoO_T f : monoT f -> monoO (fun s => Some (f s)).
Proof. intros H s s' Hb [= <-]. apply H, Hb. Qed.

Lemma good_bind f g : goodO f -> goodO g -> monoO g -> goodO (fun s => bind (f s) g).
Proof.
  intros Hf Hg Mg a b HR. specialize (Hf a b HR). unfold okO in *.
  destruct (f a) as [a'|] eqn:Ea; cbn; [|exact I].
  destruct (g a') as [a''|] eqn:Eg; [|exact I].
  destruct Hf as [Hb|[b' [Eb HR']]].
  - left. eapply Mg; eauto.
  - rewrite Eb; cbn. specialize (Hg a' b' HR'). rewrite Eg in Hg. exact Hg.
Qed.

Lemma mono_bind f g : monoO f -> monoO g -> monoO (fun s => bind (f s) g).
Proof.
  intros Mf Mg s s' Hb E. destruct (f s) as [m|] eqn:Ef; cbn in E; [|discriminate].
  eapply Mg; [eapply Mf; eauto | exact E].
Qed.

Lemma goodT_comp f g : goodT f -> goodT g -> monoT g -> goodT (fun s => g (f s)).
Proof.
  intros Hf Hg Mg a b HR. destruct (Hf a b HR) as [Hb|Hr]; [left; apply Mg, Hb | apply Hg, Hr].
Qed.

Lemma monoT_comp f g : monoT f -> monoT g -> monoT (fun s => g (f s)).
Proof. intros Mf Mg s Hb. apply Mg, Mf, Hb. Qed.

(* a choice that depends on erased-invariant data only *)
Lemma good_dep {A} (p : est -> A) (F : A -> est -> option est) :
  (forall a b, R a b -> p a = p b) -> (forall x, goodO (F x)) -> goodO (fun s => F (p s) s).
Proof. intros Hp HF a b HR. rewrite (Hp a b HR). apply HF, HR. Qed.

Lemma goodT_dep {A} (p : est -> A) (F : A -> est -> est) :
  (forall a b, R a b -> p a = p b) -> (forall x, goodT (F x)) -> goodT (fun s => F (p s) s).
Proof. intros Hp HF a b HR. rewrite (Hp a b HR). apply HF, HR. Qed.

Lemma mono_dep {A} (p : est -> A) (F : A -> est -> option est) :
  (forall x, monoO (F x)) -> monoO (fun s => F (p s) s).
Proof. intros HF s s' Hb E. eapply HF; eauto. Qed.

Lemma monoT_dep {A} (p : est -> A) (F : A -> est -> est) :
  (forall x, monoT (F x)) -> monoT (fun s => F (p s) s).
Proof. intros HF s Hb. apply HF, Hb. Qed.

Lemma inv_stack a b : R a b -> stack a = stack b. Proof. intro H; apply R_fields in H; tauto. Qed.
Lemma inv_ind a b : R a b -> ind a = ind b. Proof. intro H; apply R_fields in H; tauto. Qed.
Lemma inv_cho a b : R a b -> cho a = cho b. Proof. intro H; apply R_fields in H; tauto. Qed.
Lemma inv_dirty a b : R a b -> dirty a = dirty b. Proof. intro H; apply R_fields in H; tauto. Qed.

(* ---- primitives: congruences for [R] that leave [bad] alone ---- *)

Definition cong (f : est -> est) : Prop := (forall a b, R a b -> R (f a) (f b)) /\ (forall s, bad (f s) = bad s).

Lemma cong_goodT f : cong f -> goodT f.
Proof. intros [H _] a b HR. right. apply H, HR. Qed.
Lemma cong_monoT f : cong f -> monoT f.
Proof. intros [_ H] s Hb. rewrite H. exact Hb. Qed.
Lemma cong_comp f g : cong f -> cong g -> cong (fun s => g (f s)).
Proof. intros [Hf Bf] [Hg Bg]. split; [intros a b HR; apply Hg, Hf, HR | intro s; rewrite Bg, Bf; reflexivity]. Qed.
Lemma cong_id : cong (fun s => s).
Proof. split; auto. Qed.
Lemma cong_dep {A} (p : est -> A) (F : A -> est -> est) :
  (forall a b, R a b -> p a = p b) -> (forall x, cong (F x)) -> cong (fun s => F (p s) s).
Proof.
  intros Hp HF. split.
  - intros a b HR. rewrite (Hp a b HR). apply HF, HR.
  - intro s. apply HF.
Qed.

Ltac Rdestruct H :=
  unfold R, erase in H; cbn in H; injection H; clear H; intros; subst;
  repeat match goal with d : bool |- _ => destruct d end; cbn in *; subst.

Ltac prim :=
  split;
  [ intros [r1 c1 i1 st1 ch1 e1 d1 b1] [r2 c2 i2 st2 ch2 e2 d2 b2] H;
    Rdestruct H; unfold R, erase; cbn; try discriminate; reflexivity
  | intros []; reflexivity ].

Lemma cong_emit_cd bs d : cong (emit_cd bs d). Proof. prim. Qed.
Lemma cong_emit_nolf bs : cong (emit_nolf bs). Proof. apply cong_emit_cd. Qed.
Lemma cong_emit_raw bs : cong (emit_raw bs). Proof. apply cong_emit_cd. Qed.
Lemma cong_emit_setcol bs c : cong (emit_setcol bs c). Proof. prim. Qed.
Lemma cong_emit_lf : cong emit_lf. Proof. apply cong_emit_setcol. Qed.
Lemma cong_emit_plf bs : cong (emit_plf bs).
Proof. unfold emit_plf. destruct (plf_col bs); [apply cong_emit_setcol | apply cong_emit_raw]. Qed.
Lemma cong_emit_rune lf r : cong (emit_rune lf r).
Proof. unfold emit_rune. destruct (lf && (r =? 10)); [apply cong_emit_setcol | apply cong_emit_nolf]. Qed.
Lemma cong_set_stack st : cong (set_stack st). Proof. prim. Qed.
Lemma cong_set_ind i : cong (set_ind i). Proof. prim. Qed.
Lemma cong_set_cho b : cong (set_cho b). Proof. prim. Qed.
Lemma cong_set_en e : cong (set_en e). Proof. prim. Qed.
Lemma cong_set_dirty : cong set_dirty. Proof. prim. Qed.
Lemma cong_upd_en f : cong (upd_en f).
Proof.
  split.
  - intros [r1 c1 i1 st1 ch1 e1 d1 b1] [r2 c2 i2 st2 ch2 e2 d2 b2] H.
    Rdestruct H; unfold R, erase; cbn; try discriminate; reflexivity.
  - intros []; reflexivity.
Qed.
Lemma cong_push d : cong (push d).
Proof. unfold push. apply (cong_dep stack (fun st => set_stack (d :: st))); [apply inv_stack | intro; apply cong_set_stack]. Qed.
Lemma cong_note_read : (forall a b, R a b -> R (note_read a) (note_read b)).
Proof.
  intros [r1 c1 i1 st1 ch1 e1 d1 b1] [r2 c2 i2 st2 ch2 e2 d2 b2] H.
  Rdestruct H; unfold R, erase; cbn; try discriminate; reflexivity.
Qed.

Lemma cong_newline_indent : cong newline_indent.
Proof.
  unfold newline_indent.
  apply (cong_dep ind (fun i s => emit_nolf (spaces i) (emit_lf s))); [apply inv_ind|].
  intro i. apply (cong_comp emit_lf (emit_nolf (spaces i))); [apply cong_emit_lf | apply cong_emit_nolf].
Qed.

Lemma cong_fold {A} (F : est -> A -> est) (l : list A) :
  (forall x, cong (fun s => F s x)) -> cong (fun s => fold_left F l s).
Proof.
  intro H. induction l as [|x l IH]; cbn; [apply cong_id|].
  apply (cong_comp (fun s => F s x) (fun s => fold_left F l s)); [apply H | exact IH].
Qed.

Lemma cong_write_quoted lf v : cong (write_quoted lf v).
Proof.
  unfold write_quoted. destruct v as [|b v]; [apply cong_emit_nolf|].
  destruct (forallb rune_safe (runes (b :: v))).
  - apply (cong_comp (fun s => (if lf then emit_plf (b :: v) else emit_nolf (b :: v)) (emit_nolf [34] s)) (emit_nolf [34])); [|apply cong_emit_nolf].
    apply (cong_comp (emit_nolf [34]) (if lf then emit_plf (b :: v) else emit_nolf (b :: v))); [apply cong_emit_nolf|].
    destruct lf; [apply cong_emit_plf | apply cong_emit_nolf].
  - apply (cong_comp (fun s => fold_left _ (runes (b :: v)) (emit_nolf [34] s)) (emit_nolf [34])); [|apply cong_emit_nolf].
    apply (cong_comp (emit_nolf [34]) (fun s => fold_left _ (runes (b :: v)) s)); [apply cong_emit_nolf|].
    apply cong_fold. intro r. destruct (rune_safe r); [apply cong_emit_rune | apply cong_emit_nolf].
Qed.

(* ---- the two Column readers ---- *)

Lemma bad_note_read s : bad (note_read s) = bad s || dirty s. Proof. destruct s; reflexivity. Qed.

Lemma good_indent_if_origin : goodT indent_if_origin.
Proof.
  intros a b HR. unfold indent_if_origin.
  destruct (dirty a) eqn:Ed.
  - left. assert (Hb : bad (note_read a) = true) by (rewrite bad_note_read, Ed; apply orb_true_r).
    destruct (at_origin (note_read a)); [|exact Hb].
    destruct (cong_emit_nolf sp4) as [_ ->]. exact Hb.
  - right. pose proof (R_fields _ _ HR) as (_ & Hi & _ & _ & _ & _ & Hc). specialize (Hc Ed).
    assert (Ha : at_origin (note_read a) = at_origin (note_read b)).
    { unfold at_origin. destruct a, b; cbn in *. rewrite Hc, Hi. reflexivity. }
    rewrite Ha. pose proof (cong_note_read _ _ HR) as HR'.
    destruct (at_origin (note_read b)); [apply cong_emit_nolf, HR' | exact HR'].
Qed.

Lemma mono_note_read : monoT note_read.
Proof. intros s Hb. rewrite bad_note_read, Hb. reflexivity. Qed.

Lemma mono_indent_if_origin : monoT indent_if_origin.
Proof.
  intros s Hb. unfold indent_if_origin. pose proof (mono_note_read s Hb) as H.
  destruct (at_origin (note_read s)); [|exact H]. destruct (cong_emit_nolf sp4) as [_ ->]. exact H.
Qed.

Lemma good_return_to_origin : goodT return_to_origin.
Proof.
  intros a b HR. unfold return_to_origin.
  destruct (dirty a) eqn:Ed.
  - left. assert (Hb : bad (note_read a) = true) by (rewrite bad_note_read, Ed; apply orb_true_r).
    destruct (at_origin (note_read a)); [exact Hb|].
    destruct (cong_emit_nolf (spaces (ind (note_read a) - 4))) as [_ ->].
    destruct cong_emit_lf as [_ ->]. exact Hb.
  - right. pose proof (R_fields _ _ HR) as (_ & Hi & _ & _ & _ & _ & Hc). specialize (Hc Ed).
    assert (Ha : at_origin (note_read a) = at_origin (note_read b)).
    { unfold at_origin. destruct a, b; cbn in *. rewrite Hc, Hi. reflexivity. }
    rewrite Ha. pose proof (cong_note_read _ _ HR) as HR'.
    destruct (at_origin (note_read b)); [exact HR'|].
    assert (Hi' : ind (note_read a) = ind (note_read b)) by (destruct a, b; exact Hi).
    rewrite Hi'. apply cong_emit_nolf, cong_emit_lf, HR'.
Qed.

Lemma mono_return_to_origin : monoT return_to_origin.
Proof.
  intros s Hb. unfold return_to_origin. pose proof (mono_note_read s Hb) as H.
  destruct (at_origin (note_read s)); [exact H|].
  destruct (cong_emit_nolf (spaces (ind (note_read s) - 4))) as [_ ->].
  destruct cong_emit_lf as [_ ->]. exact H.
Qed.

(* ------------------------------------------------------------------ *)
(** * Decorators and plain events respect [R] *)

Lemma good_none : goodO (fun _ => None). Proof. intros a b _. exact I. Qed.
Lemma mono_none : monoO (fun _ => None). Proof. intros s s' _ [=]. Qed.
Lemma good_cong f : cong f -> goodO (fun s => Some (f s)).
Proof. intro H. apply goodO_T, cong_goodT, H. Qed.
Lemma mono_cong f : cong f -> monoO (fun s => Some (f s)).
Proof. intro H. apply monoO_T, cong_monoT, H. Qed.

Lemma okO_T f a b : goodT f -> R a b -> okO (Some (f a)) (Some (f b)).
Proof. intros H HR. exact (goodO_T f H a b HR). Qed.
Lemma okO_cong f a b : cong f -> R a b -> okO (Some (f a)) (Some (f b)).
Proof. intros H HR. apply (okO_T f); [apply cong_goodT, H | exact HR]. Qed.
Lemma okO_id a b : R a b -> okO (Some a) (Some b).
Proof. apply (okO_cong (fun s => s) a b cong_id). Qed.

Lemma good_before_value : goodO before_value.
Proof.
  intros a b HR. unfold before_value. rewrite (inv_stack _ _ HR). destruct (stack b) as [|d st]; [exact I|].
  destruct d; first [apply okO_id, HR | apply (okO_cong newline_indent), HR; apply cong_newline_indent
                    | apply (okO_T indent_if_origin), HR; apply good_indent_if_origin].
Qed.
Lemma mono_before_value : monoO before_value.
Proof.
  intros s s' Hb E. unfold before_value in E. destruct (stack s) as [|d st]; [discriminate|]. injection E as <-.
  destruct d; first [exact Hb | apply (cong_monoT _ cong_newline_indent), Hb | apply mono_indent_if_origin, Hb].
Qed.

Lemma good_before_comment : goodO before_comment.
Proof.
  intros a b HR. unfold before_comment. rewrite (inv_stack _ _ HR). destruct (stack b) as [|d st]; [exact I|].
  destruct d; first [apply okO_id, HR | apply (okO_cong newline_indent), HR; apply cong_newline_indent].
Qed.
Lemma mono_before_comment : monoO before_comment.
Proof.
  intros s s' Hb E. unfold before_comment in E. destruct (stack s) as [|d st]; [discriminate|]. injection E as <-.
  destruct d; first [exact Hb | apply (cong_monoT _ cong_newline_indent), Hb].
Qed.

Lemma good_after_comment : goodO after_comment.
Proof.
  intros a b HR. unfold after_comment. rewrite (inv_stack _ _ HR). destruct (stack b) as [|d st]; [exact I|].
  destruct d;
    first [ apply (okO_cong (fun s => set_cho true s)), HR; apply cong_set_cho
          | apply (okO_cong (fun s => set_cho true (newline_indent s))), HR;
            apply (cong_comp newline_indent (set_cho true)); [apply cong_newline_indent | apply cong_set_cho]
          | apply (okO_T (fun s => set_cho true (return_to_origin s))), HR;
            apply (goodT_comp return_to_origin (set_cho true));
            [apply good_return_to_origin | apply cong_goodT, cong_set_cho | apply cong_monoT, cong_set_cho] ].
Qed.
Lemma mono_after_comment : monoO after_comment.
Proof.
  intros s s' Hb E. unfold after_comment in E. destruct (stack s) as [|d st]; [discriminate|]. injection E as <-.
  destruct (cong_set_cho true) as [_ Hc]. rewrite Hc.
  destruct d; first [exact Hb | apply (cong_monoT _ cong_newline_indent), Hb | apply mono_return_to_origin, Hb].
Qed.

Lemma cong_after_value_body st (sep : bool) :
  cong (fun s => set_cho true (set_stack st (if sep then emit_nolf [32; 61; 32] s else s))).
Proof.
  apply (cong_comp _ (set_cho true)); [|apply cong_set_cho].
  apply (cong_comp _ (set_stack st)); [|apply cong_set_stack].
  destruct sep; [apply cong_emit_nolf | apply cong_id].
Qed.

Lemma good_after_value : goodO after_value.
Proof.
  intros a b HR. unfold after_value. rewrite (inv_stack _ _ HR).
  destruct (after_stack (stack b)) as [[st' sep]|]; [|exact I].
  apply (okO_cong _ a b (cong_after_value_body st' sep) HR).
Qed.
Lemma mono_after_value : monoO after_value.
Proof.
  intros s s' Hb E. unfold after_value in E.
  destruct (after_stack (stack s)) as [[st' sep]|]; [|discriminate]. injection E as <-.
  apply (cong_monoT _ (cong_after_value_body st' sep)), Hb.
Qed.

Lemma good_unstack : goodO unstack.
Proof.
  intros a b HR. unfold unstack. rewrite (inv_stack _ _ HR). destruct (stack b) as [|d [|d' st]]; try exact I.
  apply (okO_cong _ a b (cong_set_stack (d' :: st)) HR).
Qed.
Lemma mono_unstack : monoO unstack.
Proof.
  intros s s' Hb E. unfold unstack in E. destruct (stack s) as [|d [|d' st]]; try discriminate. injection E as <-.
  apply (cong_monoT _ (cong_set_stack (d' :: st))), Hb.
Qed.

Lemma good_unindent : goodO unindent.
Proof.
  intros a b HR. unfold unindent. rewrite (inv_ind _ _ HR). destruct (ind b <? 4); [exact I|].
  apply (okO_cong _ a b (cong_set_ind (ind b - 4)) HR).
Qed.
Lemma mono_unindent : monoO unindent.
Proof.
  intros s s' Hb E. unfold unindent in E. destruct (ind s <? 4); [discriminate|]. injection E as <-.
  apply (cong_monoT _ (cong_set_ind (ind s - 4))), Hb.
Qed.

Lemma cong_nl_if_cho : cong (fun s => if cho s then newline_indent s else s).
Proof.
  apply (cong_dep cho (fun (c : bool) s => if c then newline_indent s else s)); [apply inv_cho|].
  intros []; [apply cong_newline_indent | apply cong_id].
Qed.

Lemma good_close_tail closer : goodO (fun s => bind (unstack (emit_nolf [closer] (if cho s then newline_indent s else s))) after_value).
Proof.
  apply (good_bind (fun s => unstack (emit_nolf [closer] (if cho s then newline_indent s else s))) after_value);
    [| apply good_after_value | apply mono_after_value].
  intros a b HR. apply good_unstack. apply cong_emit_nolf. apply cong_nl_if_cho. exact HR.
Qed.
Lemma mono_close_tail closer : monoO (fun s => bind (unstack (emit_nolf [closer] (if cho s then newline_indent s else s))) after_value).
Proof.
  apply (mono_bind (fun s => unstack (emit_nolf [closer] (if cho s then newline_indent s else s))) after_value); [|apply mono_after_value].
  intros s s' Hb E. eapply mono_unstack; [|exact E].
  destruct (cong_emit_nolf [closer]) as [_ ->]. destruct cong_nl_if_cho as [_ H]. rewrite (H s). exact Hb.
Qed.

Lemma good_close_container closer : goodO (close_container closer).
Proof. unfold close_container. apply good_bind; [apply good_unindent | apply good_close_tail | apply mono_close_tail]. Qed.
Lemma mono_close_container closer : monoO (close_container closer).
Proof. unfold close_container. apply mono_bind; [apply mono_unindent | apply mono_close_tail]. Qed.

Lemma good_rt_tail : goodO (fun s => bind (unstack (emit_nolf [62] (if cho s then newline_indent s else s))) (fun s => Some (newline_indent s))).
Proof.
  apply (good_bind (fun s => unstack (emit_nolf [62] (if cho s then newline_indent s else s))) (fun s => Some (newline_indent s)));
    [| apply good_cong, cong_newline_indent | apply mono_cong, cong_newline_indent].
  intros a b HR. apply good_unstack. apply cong_emit_nolf. apply cong_nl_if_cho. exact HR.
Qed.
Lemma mono_rt_tail : monoO (fun s => bind (unstack (emit_nolf [62] (if cho s then newline_indent s else s))) (fun s => Some (newline_indent s))).
Proof.
  apply (mono_bind (fun s => unstack (emit_nolf [62] (if cho s then newline_indent s else s))) (fun s => Some (newline_indent s)));
    [|apply mono_cong, cong_newline_indent].
  intros s s' Hb E. eapply mono_unstack; [|exact E].
  destruct (cong_emit_nolf [62]) as [_ ->]. destruct cong_nl_if_cho as [_ H]. rewrite (H s). exact Hb.
Qed.

Lemma good_end_container : goodO end_container.
Proof.
  intros a b HR. unfold end_container. rewrite (inv_stack _ _ HR). destruct (stack b) as [|d st]; [exact I|].
  destruct d; first [exact I | apply okO_id, HR | apply good_close_container, HR | idtac].
  apply (good_bind unindent _ good_unindent good_rt_tail mono_rt_tail a b HR).
Qed.
Lemma mono_end_container : monoO end_container.
Proof.
  intros s s' Hb E. unfold end_container in E. destruct (stack s) as [|d st]; [discriminate|].
  destruct d; first [discriminate E | injection E as <-; exact Hb | eapply mono_close_container; eassumption | idtac].
  eapply (mono_bind unindent _ mono_unindent mono_rt_tail); eassumption.
Qed.

Lemma cong_open_body (reset : bool) opener d :
  cong (fun s => push d (set_ind (ind (if reset then set_cho false s else s) + 4) (emit_nolf opener (if reset then set_cho false s else s)))).
Proof.
  assert (Hi : forall s, ind (if reset then set_cho false s else s) = ind s) by (intros []; destruct reset; reflexivity).
  split.
  - intros a b HR. rewrite !Hi, (inv_ind _ _ HR).
    apply cong_push, cong_set_ind, cong_emit_nolf. destruct reset; [apply cong_set_cho, HR | exact HR].
  - intro s. destruct (cong_push d) as [_ ->]. destruct (cong_set_ind (ind (if reset then set_cho false s else s) + 4)) as [_ ->].
    destruct (cong_emit_nolf opener) as [_ ->]. destruct reset; [destruct (cong_set_cho false) as [_ ->]|]; reflexivity.
Qed.

Lemma good_open_container reset opener d : goodO (open_container reset opener d).
Proof.
  unfold open_container. apply good_bind; [apply good_before_value | apply good_cong, cong_open_body | apply mono_cong, cong_open_body].
Qed.
Lemma mono_open_container reset opener d : monoO (open_container reset opener d).
Proof. unfold open_container. apply mono_bind; [apply mono_before_value | apply mono_cong, cong_open_body]. Qed.

Lemma good_after_emit t d : goodO (fun s => after_value (emit_cd t d s)).
Proof. intros a b HR. apply good_after_value, cong_emit_cd, HR. Qed.
Lemma mono_after_emit t d : monoO (fun s => after_value (emit_cd t d s)).
Proof. intros s s' Hb E. eapply mono_after_value; [|exact E]. destruct (cong_emit_cd t d) as [_ ->]. exact Hb. Qed.

Lemma good_scalar t d : goodO (scalar t d).
Proof. unfold scalar. apply good_bind; [apply good_before_value | apply good_after_emit | apply mono_after_emit]. Qed.
Lemma mono_scalar t d : monoO (scalar t d).
Proof. unfold scalar. apply mono_bind; [apply mono_before_value | apply mono_after_emit]. Qed.

Lemma cong_comment_body (multi : bool) text :
  cong (fun s => let s := emit_nolf (if multi then [47; 42] else [47; 47]) s in
                 if multi then emit_nolf [42; 47] (emit_plf text s) else emit_nolf text s).
Proof.
  cbv zeta. destruct multi.
  - apply (cong_comp (emit_nolf [47; 42]) (fun s => emit_nolf [42; 47] (emit_plf text s))); [apply cong_emit_nolf|].
    apply (cong_comp (emit_plf text) (emit_nolf [42; 47])); [apply cong_emit_plf | apply cong_emit_nolf].
  - apply (cong_comp (emit_nolf [47; 47]) (emit_nolf text)); apply cong_emit_nolf.
Qed.

Lemma good_step_plain c e : plain_event e = true -> goodO (fun s => step c s e).
Proof.
  intro Hp. destruct e; try discriminate Hp; cbn [step];
    try (apply good_scalar); try (apply good_open_container); try (apply (good_cong _ cong_id)).
  - (* EBeginDoc *) apply good_cong.
    apply (cong_comp (fun s => set_stack [DTop] (set_ind 0 s)) (emit_nolf [99])); [|apply cong_emit_nolf].
    apply (cong_comp (set_ind 0) (set_stack [DTop])); [apply cong_set_ind | apply cong_set_stack].
  - (* EVersion *) apply good_cong. apply (cong_comp (emit_raw (dec v)) newline_indent); [apply cong_emit_raw | apply cong_newline_indent].
  - (* EComment *)
    apply good_bind; [apply good_before_comment | |].
    + intros a b HR. apply good_after_comment. exact (proj1 (cong_comment_body multi text) a b HR).
    + intros s s' Hb E. eapply mono_after_comment; [|exact E]. exact (cong_monoT _ (cong_comment_body multi text) s Hb).
  - (* EBool *) destruct b; apply good_scalar.
  - (* EInt *) destruct (0 <=? z)%Z; apply good_scalar.
  - (* EBigInt *) destruct v; apply good_scalar.
  - (* EFloat *) destruct (write_float bits); apply good_scalar.
  - (* EBigFloat *) destruct v as [[neg m ex pr|neg]|]; [| destruct neg; apply good_scalar | apply good_scalar].
    destruct (m =? 0); [apply good_scalar|]. destruct (lookup_text _ _); [apply good_scalar | apply good_none].
  - (* EDecimal *) destruct (dfloat_special d); [apply good_scalar|]. destruct (lookup_text _ _); [apply good_scalar | apply good_none].
  - (* EBigDecimal *) destruct v as [d|]; [|apply good_scalar].
    destruct (dfloat_special d); [apply good_scalar|]. destruct (lookup_text _ _); [apply good_scalar | apply good_none].
  - (* ENan *) destruct signaling; apply good_scalar.
  - (* EUid *) destruct (length b =? 16)%nat; [apply good_scalar | apply good_none].
  - (* EEnd *) apply good_end_container.
  - (* EMarker *)
    apply good_bind; [apply good_before_value | |].
    + apply good_cong. apply (cong_comp (emit_nolf (38 :: id ++ [58])) (push DConcat)); [apply cong_emit_nolf | apply cong_push].
    + apply mono_cong. apply (cong_comp (emit_nolf (38 :: id ++ [58])) (push DConcat)); [apply cong_emit_nolf | apply cong_push].
Qed.

(* ------------------------------------------------------------------ *)
(** * [bad] is sticky: every event *)

Lemma bad_emit_cd bs d s : bad (emit_cd bs d s) = bad s. Proof. apply cong_emit_cd. Qed.
Lemma bad_emit_nolf bs s : bad (emit_nolf bs s) = bad s. Proof. apply cong_emit_nolf. Qed.
Lemma bad_emit_raw bs s : bad (emit_raw bs s) = bad s. Proof. apply cong_emit_raw. Qed.
Lemma bad_upd_en f s : bad (upd_en f s) = bad s. Proof. apply cong_upd_en. Qed.
Lemma bad_push d s : bad (push d s) = bad s. Proof. apply cong_push. Qed.
Lemma bad_set_dirty s : bad (set_dirty s) = bad s. Proof. apply cong_set_dirty. Qed.
Lemma bad_write_quoted lf v s : bad (write_quoted lf v s) = bad s. Proof. apply cong_write_quoted. Qed.

Lemma cong_space_if_hw : cong space_if_hw.
Proof.
  split.
  - intros a b HR. unfold space_if_hw. apply cong_upd_en.
    destruct (ehw (en a)), (ehw (en b)); try exact HR.
    + apply cong_emit_nolf, HR.
    + (* engines differ: the space is written on one side only *)
Abort.

Lemma bad_space_if_hw s : bad (space_if_hw s) = bad s.
Proof. unfold space_if_hw. rewrite bad_upd_en. destruct (ehw (en s)); [apply bad_emit_nolf | reflexivity]. Qed.

Lemma mono_outer s s' :
  bad s = true ->
  match eouter (en s) with ONone => Some s | OAfter => after_value s | OUnstackAfter => bind (unstack s) after_value end = Some s' ->
  bad s' = true.
Proof.
  intros Hb E. destruct (eouter (en s)).
  - injection E as <-. exact Hb.
  - eapply mono_after_value; eauto.
  - eapply (mono_bind unstack after_value mono_unstack mono_after_value); eauto.
Qed.

Lemma mono_end_array : monoO end_array.
Proof.
  intros s s' Hb E. unfold end_array in E.
  destruct (ecomp (en s)) as [| |lf]; cbn [bind] in E; [discriminate| |].
  - eapply mono_outer; [|exact E]. rewrite bad_emit_nolf; exact Hb.
  - eapply mono_outer; [|exact E]. rewrite bad_write_quoted; exact Hb.
Qed.

Lemma mono_begin_chunk n more : monoO (begin_chunk n more).
Proof.
  intros s s' Hb E. unfold begin_chunk in E.
  destruct ((n =? 0) && negb more).
  - eapply mono_end_array; [|exact E]. rewrite bad_upd_en. exact Hb.
  - injection E as <-. rewrite bad_upd_en. exact Hb.
Qed.

Lemma mono_finish_if_done : monoO finish_if_done.
Proof.
  intros s s' Hb E. unfold finish_if_done in E.
  destruct ((erem (en s) =? 0) && negb (emore (en s))); [eapply mono_end_array; eauto | injection E as <-; exact Hb].
Qed.

Lemma mono_emit_elems c k es : monoO (emit_elems c k es).
Proof.
  induction es as [|e r IH]; intros s s' Hb E; cbn in E; [injection E as <-; exact Hb|].
  destruct (num_elem c k e) as [[t d]|]; [|discriminate].
  eapply IH; [|exact E]. rewrite bad_emit_cd, bad_space_if_hw. exact Hb.
Qed.

Lemma mono_add_elems c d : monoO (add_elems c d).
Proof.
  intros s s' Hb E. unfold add_elems in E. destruct (ek (en s)); try discriminate.
  - injection E as <-. rewrite bad_upd_en. exact Hb.
  - injection E as <-. rewrite bad_emit_raw, bad_space_if_hw. exact Hb.
  - eapply mono_emit_elems; eauto.
Qed.

(* AddArrayData, unfolded into named pieces *)
Definition tail_of (c : ccfg) (w : nat) (d : bytes) (s : est) : option est :=
  bind (add_elems c d s) (fun s =>
  finish_if_done (upd_en (fun e => set_erem (wrap64 (Z.of_N (erem e) - Z.of_nat (length d / w))) e) s)).

Definition split_tail_of (c : ccfg) (w : nat) (d : bytes) (s : est) : option est :=
  let rc := N.to_nat (N.land (N.of_nat (length d)) (N.of_nat w - 1)) in
  if (rc =? 0)%nat then tail_of c w d s
  else tail_of c w (firstn (length d - rc) d)
                 (upd_en (fun e => set_eleft (eleft e ++ skipn (length d - rc) d) e) s).

Definition add_data_bytes (c : ccfg) (w : nat) (d : bytes) (s : est) : option est :=
  if (1 <? w)%nat then
    let lo := eleft (en s) in
    match lo with
    | [] => split_tail_of c w d s
    | _ =>
        if (w <? length lo)%nat then None else
        let fill := (w - length lo)%nat in
        if (length d <? fill)%nat then Some (upd_en (set_eleft (lo ++ d)) s)
        else bind (add_elems c (lo ++ firstn fill d) s) (fun s =>
             split_tail_of c w (skipn fill d)
               (upd_en (fun e => set_eleft [] (set_erem (wrap64 (Z.of_N (erem e) - 1)) e)) s))
    end
  else tail_of c w d s.

Lemma add_data_unfold c d s :
  add_data c d s =
  match ek (en s) with
  | KNil => None
  | KBit => let (o, r') := bool_data (erem (en s)) d in finish_if_done (upd_en (set_erem r') (emit_nolf o s))
  | k => add_data_bytes c (ak_width k) d s
  end.
Proof. unfold add_data. destruct (ek (en s)); reflexivity. Qed.

Lemma mono_tail_of c w d : monoO (tail_of c w d).
Proof.
  unfold tail_of. apply mono_bind; [apply mono_add_elems|].
  intros s s' Hb E. eapply mono_finish_if_done; [|exact E]. rewrite bad_upd_en. exact Hb.
Qed.

Lemma mono_split_tail_of c w d : monoO (split_tail_of c w d).
Proof.
  intros s s' Hb E. unfold split_tail_of in E. cbv zeta in E.
  destruct (_ =? 0)%nat; [eapply mono_tail_of; eauto|]. eapply mono_tail_of; [|exact E]. rewrite bad_upd_en. exact Hb.
Qed.

Lemma mono_add_data_bytes c w d : monoO (add_data_bytes c w d).
Proof.
  intros s s' Hb E. unfold add_data_bytes in E.
  destruct (1 <? w)%nat; [|eapply mono_tail_of; eauto].
  cbv zeta in E. destruct (eleft (en s)) as [|l0 lo]; [eapply mono_split_tail_of; eauto|].
  destruct (w <? length (l0 :: lo))%nat; [discriminate|].
  destruct (length d <? w - length (l0 :: lo))%nat.
  - injection E as <-. rewrite bad_upd_en. exact Hb.
  - destruct (add_elems c _ s) as [m|] eqn:Ea; cbn [bind] in E; [|discriminate].
    eapply mono_split_tail_of; [|exact E]. rewrite bad_upd_en. eapply mono_add_elems; eauto.
Qed.

Lemma mono_add_data c d : monoO (add_data c d).
Proof.
  intros s s' Hb E. rewrite add_data_unfold in E.
  destruct (ek (en s)) eqn:Ek; [discriminate | | | |]; try (eapply mono_add_data_bytes; eauto; fail).
  destruct (bool_data (erem (en s)) d) as [o r'].
  eapply mono_finish_if_done; [|exact E]. rewrite bad_upd_en, bad_emit_nolf. exact Hb.
Qed.

Lemma mono_engine_begin_array c t o : monoO (engine_begin_array c t o).
Proof.
  intros s s' Hb E. unfold engine_begin_array in E.
  repeat match type of E with
         | (if ?x then _ else _) = _ => destruct x
         | match ?x with Some _ => _ | None => _ end = _ => destruct x
         end; try discriminate; injection E as <-;
    repeat first [rewrite bad_emit_nolf | rewrite bad_upd_en]; exact Hb.
Qed.

Lemma mono_ctx_begin_array c t : monoO (ctx_begin_array c t).
Proof.
  intros s s' Hb E. unfold ctx_begin_array in E. destruct (is_string_type t).
  - eapply mono_engine_begin_array; eauto.
  - eapply mono_engine_begin_array; [|exact E]. rewrite bad_push. exact Hb.
Qed.

Lemma mono_bv_then (f : est -> option est) : monoO f -> monoO (fun s => bind (before_value s) f).
Proof. intro H. apply mono_bind; [apply mono_before_value | exact H]. Qed.

Lemma mono_step c e : monoO (fun s => step c s e).
Proof.
  destruct e; cbn [step];
    try (apply mono_scalar); try (apply mono_open_container); try (apply (mono_cong _ cong_id)).
  - apply mono_cong.
    apply (cong_comp (fun s => set_stack [DTop] (set_ind 0 s)) (emit_nolf [99])); [|apply cong_emit_nolf].
    apply (cong_comp (set_ind 0) (set_stack [DTop])); [apply cong_set_ind | apply cong_set_stack].
  - apply mono_cong. apply (cong_comp (emit_raw (dec v)) newline_indent); [apply cong_emit_raw | apply cong_newline_indent].
  - apply mono_bind; [apply mono_before_comment|].
    intros s s' Hb E. eapply mono_after_comment; [|exact E]. exact (cong_monoT _ (cong_comment_body multi text) s Hb).
  - destruct b; apply mono_scalar.
  - destruct (0 <=? z)%Z; apply mono_scalar.
  - destruct v; apply mono_scalar.
  - destruct (write_float bits); apply mono_scalar.
  - destruct v as [[neg m ex pr|neg]|]; [| destruct neg; apply mono_scalar | apply mono_scalar].
    destruct (m =? 0); [apply mono_scalar|]. destruct (lookup_text _ _); [apply mono_scalar | apply mono_none].
  - destruct (dfloat_special d); [apply mono_scalar|]. destruct (lookup_text _ _); [apply mono_scalar | apply mono_none].
  - destruct v as [d|]; [|apply mono_scalar].
    destruct (dfloat_special d); [apply mono_scalar|]. destruct (lookup_text _ _); [apply mono_scalar | apply mono_none].
  - destruct signaling; apply mono_scalar.
  - destruct (length b =? 16)%nat; [apply mono_scalar | apply mono_none].
  - apply mono_end_container.
  - apply mono_bv_then. apply mono_cong.
    apply (cong_comp (emit_nolf (38 :: id ++ [58])) (push DConcat)); [apply cong_emit_nolf | apply cong_push].
  - (* EArray *)
    apply mono_bv_then. apply mono_bind; [|apply mono_after_value].
    intros s s' Hb E.
    destruct (t =? AT_String); [injection E as <-; rewrite bad_write_quoted; exact Hb|].
    destruct (t =? AT_ResourceID); [injection E as <-; rewrite bad_write_quoted, bad_emit_nolf; exact Hb|].
    destruct (t =? AT_ReferenceRemote); [injection E as <-; rewrite bad_write_quoted, bad_emit_nolf; exact Hb|].
    destruct (engine_begin_array c t ONone s) as [m|] eqn:E1; cbn [bind] in E; [|discriminate].
    destruct (begin_chunk count false m) as [m2|] eqn:E2; cbn [bind] in E; [|discriminate].
    assert (Hm2 : bad m2 = true).
    { eapply mono_begin_chunk; [|exact E2]. eapply mono_engine_begin_array; eauto. }
    destruct (0 <? count); [eapply mono_add_data; eauto | injection E as <-; exact Hm2].
  - (* EStringArray *)
    apply mono_bv_then. apply mono_bind; [|apply mono_after_value].
    intros s s' Hb E.
    destruct (t =? AT_String); [injection E as <-; rewrite bad_write_quoted; exact Hb|].
    destruct (t =? AT_ResourceID); [injection E as <-; rewrite bad_write_quoted, bad_emit_nolf; exact Hb|].
    destruct (t =? AT_ReferenceRemote); [injection E as <-; rewrite bad_write_quoted, bad_emit_nolf; exact Hb|].
    discriminate.
  - (* EMedia *)
    apply mono_bv_then. intros s s' Hb E. eapply mono_after_value; [|exact E].
    rewrite bad_emit_nolf, bad_emit_raw, bad_emit_nolf, bad_set_dirty. exact Hb.
  - (* ECustomBin *)
    apply mono_bv_then. intros s s' Hb E. eapply mono_after_value; [|exact E].
    rewrite bad_emit_nolf, bad_emit_raw, bad_emit_nolf, bad_set_dirty. exact Hb.
  - (* ECustomText *)
    apply mono_bv_then. intros s s' Hb E. eapply mono_after_value; [|exact E].
    rewrite bad_write_quoted, bad_emit_nolf. exact Hb.
  - (* EArrayBegin *) apply mono_bv_then, mono_ctx_begin_array.
  - (* EMediaBegin *)
    apply mono_bv_then. intros s s' Hb [= <-]. rewrite bad_emit_nolf, bad_upd_en, bad_set_dirty, bad_push. exact Hb.
  - (* ECustomBegin *)
    apply mono_bv_then. intros s s' Hb E.
    destruct (t =? AT_CustomBinary); [injection E as <-; rewrite bad_emit_nolf, bad_upd_en, bad_set_dirty, bad_push; exact Hb|].
    destruct (t =? AT_CustomText); [injection E as <-; rewrite bad_emit_nolf, bad_upd_en; exact Hb | discriminate].
  - apply mono_begin_chunk.
  - apply mono_add_data.
Qed.

Lemma run_app c s a b : run c s (a ++ b) = bind (run c s a) (fun m => run c m b).
Proof.
  revert s. induction a as [|e a IH]; intro s; cbn; [reflexivity|].
  destruct (step c s e); cbn; [apply IH | reflexivity].
Qed.

Lemma mono_run c es : monoO (fun s => run c s es).
Proof.
  induction es as [|e es IH]; intros s s' Hb E; cbn in E; [injection E as <-; exact Hb|].
  destruct (step c s e) as [m|] eqn:Es; cbn in E; [|discriminate].
  eapply IH; [|exact E]. eapply mono_step; eauto.
Qed.

Lemma run_bad_false c es s s' : run c s es = Some s' -> bad s' = false -> bad s = false.
Proof.
  intros E Hb. destruct (bad s) eqn:B; [|reflexivity].
  rewrite (mono_run c es s s' B E) in Hb. discriminate.
Qed.

(* ------------------------------------------------------------------ *)
(** * Grouping a byte stream into elements (the carry-over law)

   [grp w L d]: the complete [w]-byte elements of [L ++ d] and the unfinished
   rest, scanning byte by byte.  Splitting the input anywhere gives the same
   elements: [grp_app]. *)

Fixpoint grp (w : nat) (cur : bytes) (d : bytes) : list bytes * bytes :=
  match d with
  | [] => ([], cur)
  | b :: r => if (length (cur ++ [b]) =? w)%nat
              then let (es, l) := grp w [] r in ((cur ++ [b]) :: es, l)
              else grp w (cur ++ [b]) r
  end.

Lemma grp_app w d1 : forall L d2,
  grp w L (d1 ++ d2) = let (e1, l1) := grp w L d1 in let (e2, l2) := grp w l1 d2 in (e1 ++ e2, l2).
Proof.
  induction d1 as [|b d1 IH]; intros L d2; cbn [grp app].
  - destruct (grp w L d2); reflexivity.
  - destruct (length (L ++ [b]) =? w)%nat.
    + rewrite IH. destruct (grp w [] d1) as [e1 l1]. destruct (grp w l1 d2) as [e2 l2]. reflexivity.
    + apply IH.
Qed.

Lemma grp_short w d : forall L, (length L + length d < w)%nat -> grp w L d = ([], L ++ d).
Proof.
  induction d as [|b d IH]; intros L H; cbn [grp].
  - rewrite app_nil_r. reflexivity.
  - cbn [length] in H. assert (E : (length (L ++ [b]) =? w)%nat = false).
    { apply Nat.eqb_neq. rewrite app_length. cbn. lia. }
    rewrite E, IH; [rewrite <- app_assoc; reflexivity | rewrite app_length; cbn; lia].
Qed.

Lemma grp_exact w d : forall L, (length L + length d = w)%nat -> d <> [] -> grp w L d = ([L ++ d], []).
Proof.
  induction d as [|b d IH]; intros L H Hd; [congruence|]. cbn [grp]. cbn [length] in H.
  destruct d as [|b' d].
  - assert (E : (length (L ++ [b]) =? w)%nat = true) by (apply Nat.eqb_eq; rewrite app_length; cbn in *; lia).
    rewrite E. reflexivity.
  - assert (E : (length (L ++ [b]) =? w)%nat = false) by (apply Nat.eqb_neq; rewrite app_length; cbn in *; lia).
    rewrite E, IH; [rewrite <- app_assoc; reflexivity | rewrite app_length; cbn in *; lia | discriminate].
Qed.

(* [j] elements of [w] bytes *)
Fixpoint chop (w j : nat) (d : bytes) : list bytes :=
  match j with O => [] | S j' => firstn w d :: chop w j' (skipn w d) end.

Lemma grp_whole w j : (0 < w)%nat -> forall d, length d = (j * w)%nat -> grp w [] d = (chop w j d, []).
Proof.
  intro Hw. induction j as [|j IH]; intros d H.
  - destruct d; [reflexivity | discriminate].
  - rewrite <- (firstn_skipn w d) at 1. rewrite grp_app.
    assert (Hf : length (firstn w d) = w) by (rewrite firstn_length; lia).
    rewrite (grp_exact w (firstn w d) []); [| cbn; lia | intro E; rewrite E in Hf; cbn in Hf; lia].
    rewrite IH; [reflexivity | rewrite skipn_length; lia].
Qed.

Lemma split_elems_chop w j : (0 < w)%nat -> forall f d, length d = (j * w)%nat -> (j <= f)%nat -> split_elems w f d = chop w j d.
Proof.
  intro Hw. induction j as [|j IH]; intros f d H Hf.
  - destruct d; [destruct f; reflexivity | discriminate].
  - destruct f as [|f]; [lia|]. cbn [split_elems chop].
    destruct d as [|b d]; [cbn in H; lia|].
    f_equal. apply IH; [rewrite skipn_length; lia | lia].
Qed.

Lemma chop_length w j d : length (chop w j d) = j.
Proof. revert d. induction j; intro d; cbn; [reflexivity | rewrite IHj; reflexivity]. Qed.

(* the general shape of one call: whole elements, then a rest shorter than an element *)
Lemma grp_nil_split w (d : bytes) :
  (0 < w)%nat ->
  grp w [] d = (chop w (length d / w) (firstn (length d - length d mod w) d), skipn (length d - length d mod w) d).
Proof.
  intro Hw. set (m := (length d mod w)%nat). set (j := (length d / w)%nat).
  assert (Hd : length d = (j * w + m)%nat) by (unfold j, m; rewrite Nat.mul_comm; apply Nat.div_mod; lia).
  assert (Hm : (m < w)%nat) by (apply Nat.mod_upper_bound; lia).
  rewrite <- (firstn_skipn (length d - m) d) at 1. rewrite grp_app.
  rewrite (grp_whole w j Hw); [|rewrite firstn_length; lia].
  rewrite grp_short; [rewrite app_nil_r; reflexivity | rewrite skipn_length; cbn; lia].
Qed.

Lemma land_mod_pow2 (n w : nat) :
  w = 2%nat \/ w = 4%nat \/ w = 8%nat \/ w = 16%nat ->
  N.to_nat (N.land (N.of_nat n) (N.of_nat w - 1)) = (n mod w)%nat.
Proof.
  intro Hw.
  assert (H : exists k, N.of_nat w - 1 = N.ones k /\ N.of_nat w = 2 ^ k).
  { destruct Hw as [->|[->|[->| ->]]]; [exists 1 | exists 2 | exists 3 | exists 4]; split; reflexivity. }
  destruct H as [k [H1 H2]]. rewrite H1, N.land_ones, <- H2, <- Nat2N.inj_mod, Nat2N.id. reflexivity.
Qed.
